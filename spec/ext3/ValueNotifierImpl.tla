------------------------- MODULE ValueNotifierImpl -------------------------
(* Implementation-level model of hive.go/runtime/valuenotifier (extension X3; spec/CONCURRENCY.md pattern 2):    *)
(* the map value -> (channel, reference count) under the notifier's mutex, the listeners' atomic flag and their   *)
(* two channels, explored under ALL interleavings of                                                             *)
(*   W(l)  creates listener l (Notifier.Listener) and then calls l.Wait(ctx): load of the flag, the select (a      *)
(*         goroutine that finds several cases ready takes any of them; a goroutine that is parked in the select    *)
(*         is woken by the first event with that event's case), the look at deregisteredChan after the channel     *)
(*         case, the deferred Deregister;                                                                          *)
(*   D(l)  may call l.Deregister() at any time after l exists: swap of the flag, the look at the channel           *)
(*         ("was I notified already?"), close of deregisteredChan, removeListener;                                 *)
(*   C(l)  may cancel the context of W(l);                                                                        *)
(*   N(k)  calls Notify: look-up under the read lock, then look-up again + close + delete under the write lock.   *)
(* Every critical section of the mutex is one action; everything outside is one action per statement.            *)
(*                                                                                                               *)
(* Variant "code" is what the package does now; the others are seeded defects that TLC must refute:               *)
(*   "no_priority"  Wait returns nil whenever the select took the channel case (the code before the X3 fix: a       *)
(*                  listener that was deregistered BEFORE Notify was called could report success, because the      *)
(*                  channel is shared with the other listeners of the value and select picks ready cases at random) *)
(*   "old_remove"   removeListener finds the entry by value only and closes the channel when the count reaches 0  *)
(*                  (the code before the fix 33da508);                                                            *)
(*   "no_identity"  removeListener without the channel comparison (but without the close);                        *)
(*   "no_delete"    Notify closes the channel but leaves the entry in the map;                                    *)
(*   "no_recheck"   Notify does not look the entry up again under the write lock.                                 *)
EXTENDS Integers, FiniteSets, TLC

CONSTANTS Slots, Notifiers, Shape, Variant,
          Cancels    \* the slots whose Wait context may get cancelled

VARIABLES ent,      \* value -> <<channel, count>> (channel 0 = no entry)
          nextch, closed, \* channel allocator, closed channels
          lst,      \* slot -> <<channel (0 = not created), deregistered flag, deregisteredChan closed, notified at deregistration>>
          pcw, resw, pcd, pcn, ctx,
          held,     \* notifier -> channel it saw under the read lock ("no_recheck")
          panic,    \* a close of a closed channel happened
          elig,     \* history: a Notify of the listener's value overlapped the window [created, deregistration completed]
          started,  \* history: notifier -> listeners of its value that existed when it was called
          sure,     \* history: a Notify that was called after the listener existed has returned
          removed   \* history: removeListener ran for the listener
vars == <<ent, nextch, closed, lst, pcw, resw, pcd, pcn, ctx, held, panic, elig, started, sure, removed>>

Vals == IF Shape = "two" THEN {1, 2} ELSE {1}
SlotVal(l) == IF Shape = "two" /\ l >= 3 THEN 2 ELSE 1
NoteVal(k) == IF Shape = "two" /\ k >= 2 THEN 2 ELSE 1
Created(l) == lst[l][1] # 0
None == <<0, 0>>

Init == /\ ent = [v \in Vals |-> None] /\ nextch = 1 /\ closed = {}
        /\ lst = [l \in Slots |-> <<0, FALSE, FALSE, FALSE>>]
        /\ pcw = [l \in Slots |-> "new"] /\ resw = [l \in Slots |-> ""] /\ pcd = [l \in Slots |-> "idle"]
        /\ pcn = [k \in Notifiers |-> "idle"] /\ ctx = [l \in Slots |-> FALSE] /\ held = [k \in Notifiers |-> 0]
        /\ panic = FALSE /\ elig = [l \in Slots |-> FALSE] /\ started = [k \in Notifiers |-> {}]
        /\ sure = [l \in Slots |-> FALSE] /\ removed = [l \in Slots |-> FALSE]

(* the goroutines parked in the select of Wait on a channel of C are woken with the channel case *)
WakeCh(pc, C) == [l \in Slots |-> IF pc[l] = "park" /\ lst[l][1] \in C THEN "chk" ELSE pc[l]]

(* Notifier.Listener(v): one critical section *)
Create(l) ==
  /\ pcw[l] = "new"
  /\ LET v == SlotVal(l) IN
     /\ IF ent[v][1] # 0
          THEN /\ ent' = [ent EXCEPT ![v] = <<@[1], @[2] + 1>>] /\ lst' = [lst EXCEPT ![l][1] = ent[v][1]] /\ UNCHANGED nextch
          ELSE /\ ent' = [ent EXCEPT ![v] = <<nextch, 1>>] /\ lst' = [lst EXCEPT ![l][1] = nextch] /\ nextch' = nextch + 1
     /\ elig' = [elig EXCEPT ![l] = \E k \in Notifiers : pcn[k] = "lock" /\ NoteVal(k) = v]
  /\ pcw' = [pcw EXCEPT ![l] = "w0"]
  /\ UNCHANGED <<closed, resw, pcd, pcn, ctx, held, panic, started, sure, removed>>

(* Listener.Deregister by process p ("w" = the deferred call of Wait, "d" = D(l)): swap, sample, close, remove *)
At(l, p, pc) == IF p = "w" THEN pcw[l] = pc ELSE pcd[l] = pc
Goto(l, p, pc) == IF p = "w" THEN pcw' = [pcw EXCEPT ![l] = pc] /\ UNCHANGED pcd ELSE pcd' = [pcd EXCEPT ![l] = pc] /\ UNCHANGED pcw
Swap(l, p) ==
  /\ IF p = "w" THEN pcw[l] = "dfr" ELSE (pcd[l] = "idle" /\ Created(l))
  /\ Goto(l, p, IF lst[l][2] THEN "done" ELSE "s")
  /\ lst' = [lst EXCEPT ![l][2] = TRUE]
  /\ UNCHANGED <<ent, nextch, closed, resw, pcn, ctx, held, panic, elig, started, sure, removed>>
Sample(l, p) ==
  /\ At(l, p, "s") /\ Goto(l, p, "c")
  /\ lst' = [lst EXCEPT ![l][4] = lst[l][1] \in closed]
  /\ UNCHANGED <<ent, nextch, closed, resw, pcn, ctx, held, panic, elig, started, sure, removed>>
CloseD(l, p) ==
  /\ At(l, p, "c")
  /\ lst' = [lst EXCEPT ![l][3] = TRUE] /\ panic' = (panic \/ lst[l][3])
  /\ IF p = "d" /\ pcw[l] = "park"       \* the parked Wait of the same listener is woken with the deregistered case
       THEN /\ pcd' = [pcd EXCEPT ![l] = "r"] /\ pcw' = [pcw EXCEPT ![l] = "dfr"] /\ resw' = [resw EXCEPT ![l] = "dereg"]
       ELSE Goto(l, p, "r") /\ UNCHANGED resw
  /\ UNCHANGED <<ent, nextch, closed, pcn, ctx, held, elig, started, sure, removed>>
(* removeListener(value, channel): one critical section *)
Rem(l, p) ==
  /\ At(l, p, "r")
  /\ LET v == SlotVal(l)
         c == lst[l][1]
         e == ent[v]
         mine == e[1] # 0 /\ (e[1] = c \/ Variant \in {"old_remove", "no_identity"})
         last == mine /\ e[2] = 1
         cl == IF last /\ Variant = "old_remove" THEN {e[1]} ELSE {} IN
     /\ ent' = [ent EXCEPT ![v] = IF ~mine THEN @ ELSE IF last THEN None ELSE <<@[1], @[2] - 1>>]
     /\ closed' = closed \cup cl
     /\ panic' = (panic \/ (cl \cap closed # {}))
     /\ removed' = [removed EXCEPT ![l] = TRUE]
     /\ IF p = "w" THEN pcw' = WakeCh([pcw EXCEPT ![l] = "done"], cl) /\ UNCHANGED pcd
                   ELSE pcd' = [pcd EXCEPT ![l] = "done"] /\ pcw' = WakeCh(pcw, cl)
  /\ UNCHANGED <<nextch, lst, resw, pcn, ctx, held, elig, started, sure>>

(* Listener.Wait *)
W0(l) == /\ pcw[l] = "w0"
         /\ IF lst[l][2] THEN pcw' = [pcw EXCEPT ![l] = "done"] /\ resw' = [resw EXCEPT ![l] = "dereg"]
                         ELSE pcw' = [pcw EXCEPT ![l] = "sel"] /\ UNCHANGED resw
         /\ UNCHANGED <<ent, nextch, closed, lst, pcd, pcn, ctx, held, panic, elig, started, sure, removed>>
Ready(l) == (IF lst[l][1] \in closed THEN {"ok"} ELSE {}) \cup (IF lst[l][3] THEN {"dereg"} ELSE {}) \cup (IF ctx[l] THEN {"ctx"} ELSE {})
Sel(l) == /\ pcw[l] = "sel"
          /\ IF Ready(l) = {} THEN pcw' = [pcw EXCEPT ![l] = "park"] /\ UNCHANGED resw
             ELSE \E r \in Ready(l) : IF r = "ok" THEN pcw' = [pcw EXCEPT ![l] = "chk"] /\ UNCHANGED resw
                                                  ELSE pcw' = [pcw EXCEPT ![l] = "dfr"] /\ resw' = [resw EXCEPT ![l] = r]
          /\ UNCHANGED <<ent, nextch, closed, lst, pcd, pcn, ctx, held, panic, elig, started, sure, removed>>
(* the channel case was taken: a listener that was deregistered before it was notified does not report success *)
Chk(l) == /\ pcw[l] = "chk" /\ pcw' = [pcw EXCEPT ![l] = "dfr"]
          /\ resw' = [resw EXCEPT ![l] = IF Variant # "no_priority" /\ lst[l][3] /\ ~lst[l][4] THEN "dereg" ELSE "ok"]
          /\ UNCHANGED <<ent, nextch, closed, lst, pcd, pcn, ctx, held, panic, elig, started, sure, removed>>
Cancel(l) == /\ l \in Cancels /\ Created(l) /\ ~ctx[l] /\ pcw[l] \in {"w0", "sel", "park"} /\ ctx' = [ctx EXCEPT ![l] = TRUE]
             /\ IF pcw[l] = "park" THEN pcw' = [pcw EXCEPT ![l] = "dfr"] /\ resw' = [resw EXCEPT ![l] = "ctx"] ELSE UNCHANGED <<pcw, resw>>
             /\ UNCHANGED <<ent, nextch, closed, lst, pcd, pcn, held, panic, elig, started, sure, removed>>

(* Notifier.Notify *)
Overlap(v) == [l \in Slots |-> elig[l] \/ (Created(l) /\ SlotVal(l) = v /\ ~removed[l])]
N1(k) == /\ pcn[k] = "idle"
         /\ LET v == NoteVal(k) IN
            /\ started' = [started EXCEPT ![k] = {l \in Slots : Created(l) /\ SlotVal(l) = v}]
            /\ elig' = Overlap(v)
            /\ held' = [held EXCEPT ![k] = ent[v][1]]
            /\ IF ent[v][1] = 0 THEN /\ pcn' = [pcn EXCEPT ![k] = "done"]
                                     /\ sure' = [l \in Slots |-> sure[l] \/ (Created(l) /\ SlotVal(l) = v)]
                                ELSE pcn' = [pcn EXCEPT ![k] = "lock"] /\ UNCHANGED sure
         /\ UNCHANGED <<ent, nextch, closed, lst, pcw, resw, pcd, ctx, panic, removed>>
N2(k) == /\ pcn[k] = "lock"
         /\ LET v == NoteVal(k)
                c == IF Variant = "no_recheck" THEN held[k] ELSE ent[v][1] IN
            /\ IF c = 0 THEN UNCHANGED <<ent, closed, panic, pcw>>
               ELSE /\ closed' = closed \cup {c} /\ panic' = (panic \/ c \in closed)
                    /\ ent' = IF Variant = "no_delete" THEN ent ELSE [ent EXCEPT ![v] = None]
                    /\ pcw' = WakeCh(pcw, {c} \ closed)
            /\ elig' = Overlap(v)
            /\ sure' = [l \in Slots |-> sure[l] \/ l \in started[k]]
         /\ pcn' = [pcn EXCEPT ![k] = "done"]
         /\ UNCHANGED <<nextch, lst, resw, pcd, ctx, held, started, removed>>

Next == \/ \E l \in Slots : \/ Create(l) \/ W0(l) \/ Sel(l) \/ Chk(l) \/ Cancel(l)
                            \/ \E p \in {"w", "d"} : Swap(l, p) \/ Sample(l, p) \/ CloseD(l, p) \/ Rem(l, p)
        \/ \E k \in Notifiers : N1(k) \/ N2(k)
Spec == Init /\ [][Next]_vars

(* ---------------- properties ---------------- *)
TypeOK == /\ \A v \in Vals : ent[v][1] \in 0..(nextch - 1) /\ ent[v][2] >= 0 /\ (ent[v][1] = 0 <=> ent[v][2] = 0)
          /\ \A l \in Slots : resw[l] \in {"", "ok", "dereg", "ctx"}
NoPanic == ~panic
(* Wait succeeds only if a Notify of the listener's value was called while the listener existed and was not yet deregistered *)
OkOnlyIfNotified == \A l \in Slots : resw[l] = "ok" => elig[l]
DeregOnlyIfDeregistered == \A l \in Slots : (resw[l] = "dereg" => lst[l][2]) /\ (resw[l] = "ctx" => ctx[l])
(* a Notify that was called after the listener existed and has returned leaves the listener notified (its channel closed),
   unless the listener is being / has been deregistered; and nobody stays parked on a closed channel *)
MustWake == \A l \in Slots : /\ (sure[l] /\ ~lst[l][2]) => lst[l][1] \in closed
                             /\ pcw[l] = "park" => Ready(l) = {}
(* the reference count of an entry is the number of listeners on its channel whose removeListener did not run yet *)
CountOK == \A v \in Vals : ent[v][1] # 0 => ent[v][2] = Cardinality({l \in Slots : lst[l][1] = ent[v][1] /\ ~removed[l]})
(* "clean up memory": once everything has returned, the map holds exactly the values somebody can still be notified for *)
Quiet == /\ \A l \in Slots : pcw[l] \in {"new", "park", "done"} /\ pcd[l] \in {"idle", "done"}
         /\ \A k \in Notifiers : pcn[k] \in {"idle", "done"}
Cleanup == Quiet => \A v \in Vals :
             LET live == {l \in Slots : Created(l) /\ SlotVal(l) = v /\ ~lst[l][2] /\ lst[l][1] \notin closed} IN
             IF live = {} THEN ent[v] = None ELSE ent[v][2] = Cardinality(live) /\ \A l \in live : lst[l][1] = ent[v][1]
=============================================================================
