CONSTANTS
  Scope = "trace"
  Variant = "spec"
INVARIANTS TypeOK Once NotLost ExitOK FileOK
