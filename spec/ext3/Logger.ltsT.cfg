CONSTANTS
  MaxLoggers = 2
  MaxHooks = 0
  Levels = {1, 4}
  HookLevels = {}
  LogLevels = {1, 6}
  InitLevels = {2}
  Kinds = {"text", "nil"}
  Roots = {"", "node"}
  Names = {"a"}
  Hows = {"log", "logf", "attrs", "named", "namedf", "namedattrs"}
  Variant = "spec"
