CONSTANTS
  MaxListeners = 3
  Values = {1, 2}
  Ctxs = {"live", "canceled", "expired", "gated"}
  MaxGated = 2
  Variant = "wakeall"
INVARIANTS TypeOK
PROPERTIES Steps
VIEW View
