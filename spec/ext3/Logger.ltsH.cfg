CONSTANTS
  MaxLoggers = 2
  MaxHooks = 2
  Levels = {1, 3}
  HookLevels = {2}
  LogLevels = {3}
  InitLevels = {2}
  Kinds = {"capture", "nil"}
  Roots = {"r"}
  Names = {"b"}
  Hows = {"namedf"}
  Variant = "spec"
