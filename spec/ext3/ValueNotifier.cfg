CONSTANTS
  MaxListeners = 3
  Values = {1, 2}
  Ctxs = {"live", "canceled", "expired", "gated"}
  MaxGated = 1
  Variant = "spec"
INVARIANTS TypeOK
PROPERTIES Steps
VIEW View
