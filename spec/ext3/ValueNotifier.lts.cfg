CONSTANTS
  MaxListeners = 2
  Values = {1, 2}
  Ctxs = {"live", "canceled", "expired"}
  MaxGated = 1
  Variant = "spec"
