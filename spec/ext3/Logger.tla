------------------------------ MODULE Logger ------------------------------
(* hive.go/log (extension X3): the hierarchical "reactive" logger.  Sequential convention (spec/README.md).   *)
(*                                                                                                            *)
(* Contract written down here (doc comments of log.Logger, log.NewLogger, log.EmptyLogger, the level          *)
(* constants, and of the reactive variable the level is documented to be: "InheritFrom inherits the value",   *)
(* callbacks are "triggered when the value changes"):                                                         *)
(*  - a logger has a name and a path; the path "is formed by a combination of the names of its ancestors and  *)
(*    its own name" (joined with "."; a root without name contributes nothing);                               *)
(*  - NewChildLogger(name) creates a child; with enumerateChildren the name is extended with a running number *)
(*    per (parent, name) - 0, 1, 2, .. - so that enumerated children of one parent never share a name;        *)
(*    ParentLogger returns the parent (nil for the root);                                                     *)
(*  - the levels are ordered TRACE < DEBUG < INFO < WARNING < ERROR < FATAL < PANIC (0..6 here); a record of   *)
(*    level L logged through a logger reaches the handler iff the logger's level is <= L; it carries L, the   *)
(*    message, the logger's PATH as namespace and the attributes; nothing else is ever emitted;                *)
(*  - a child starts with the level its parent has at that moment; SetLogLevel(L) sets the level of the logger *)
(*    itself; when that CHANGES the level, every child that still follows the logger is set to L in the same  *)
(*    way (so it passes L on to its own followers iff its level changed) - a child that was given an own level *)
(*    keeps it until its parent's level changes the next time; loggers outside the subtree never change;      *)
(*  - Shutdown of a child "unsubscribes from its parent": it keeps level, name, path, children, and goes on   *)
(*    logging, but no longer follows the parent; Shutdown of the root shuts the (text) handler down: every     *)
(*    record logged before has been written when it returns, nothing is written afterwards;                   *)
(*  - OnLogLevelActive(L, setup): "triggered when the given log level is activated" = the logger's level is   *)
(*    <= L (records of level L pass); setup runs when that becomes true (at once if it is true already), the  *)
(*    function it returned runs when it becomes false again or when the returned unsubscribe is called while  *)
(*    active; never two setups without a shutdown in between; after unsubscribe nothing is called any more;   *)
(*    when setup/shutdown run, LogLevel() already answers the new level;                                      *)
(*  - the LogTrace..LogError / ..f / ..Attrs families are Log / Logf / LogAttrs at their level; LogPanic* emit *)
(*    at PANIC and then panic (LogFatal* call os.Exit - not driven);                                          *)
(*  - the default text handler writes one line per record: time, level name padded to 7, the namespace padded *)
(*    to the longest namespace written so far, message, attributes as "(k=v ..)";                            *)
(*  - EmptyLogger "does not log anything": name/path "<nil>", level INFO, SetLogLevel without effect, children *)
(*    are empty loggers, no parent, OnLogLevelActive never calls setup.                                       *)
(*                                                                                                            *)
(* Loggers / hooks (= OnLogLevelActive registrations) are numbered 1,2,.. in creation order, 1 = the root.     *)
(* res = [id (of the created logger/hook, else 0), name, path (of a created logger, else ""),                 *)
(*        recs  |-> the records the handler received during the call: <<levelname, namespace, msg, attrs, w>>   *)
(*                  (w = width of the namespace column of the text line, 0 for the capturing slog handler),   *)
(*        calls |-> the setup/shutdown calls made during the call, as a sorted set of                         *)
(*                  <<hook, "setup"|"shutdown", LogLevel() seen inside the callback>>,                        *)
(*        panicked]                                                                                           *)
(* st  = [loggers |-> <<LogName, LogPath, LogLevel, id of ParentLogger or 0>> of every logger,                *)
(*        hooks   |-> per hook: setups minus shutdowns so far (1 = active)]                                    *)
EXTENDS Integers, Sequences, FiniteSets, SequencesExt, TLC

CONSTANTS MaxLoggers, MaxHooks,   \* exploration bounds
          Levels,                 \* levels given to SetLogLevel
          HookLevels,             \* levels given to OnLogLevelActive
          LogLevels,              \* levels records are logged at
          InitLevels, Kinds, Roots, \* cfg space: root level, handler kind ("capture" | "text" | "nil"), root name
          Names,                  \* child base names
          Hows,                   \* which logging entry points: "log" "logf" "attrs" "named" "namedf" "namedattrs"
          Variant                 \* "spec"; negative controls: "strict" | "deep" | "nofollow" | "samenum" | "relog"

VARIABLES cfg,
          lg,      \* per logger <<parent, name, path, level, follows parent, enumerated>>
          cnt,     \* per logger: next number per base name (tuple indexed like NameSeq)
          hk,      \* per hook <<logger, level, active, open (not unsubscribed)>>
          width,   \* text handler: longest namespace written so far
          shut,    \* root Shutdown was called
          ev
vars == <<cfg, lg, cnt, hk, width, shut, ev>>
View == <<cfg, lg, cnt, hk, width, shut>>

LName == <<"TRACE", "DEBUG", "INFO", "WARNING", "ERROR", "FATAL", "PANIC">>
NameSeq == <<"a", "b">>
NIdx(n) == CHOOSE k \in DOMAIN NameSeq : NameSeq[k] = n
Mx(a, b) == IF a >= b THEN a ELSE b
Cfgs == [kind : Kinds, root : Roots, lvl : InitLevels]
IsNil == cfg.kind = "nil"

Par(g, i) == g[i][1]
Lvl(g, i) == g[i][4]
Fol(g, i) == g[i][5]

Root(c) == IF c.kind = "nil" THEN <<0, "<nil>", "<nil>", 2, FALSE, FALSE>> ELSE <<0, c.root, c.root, c.lvl, FALSE, FALSE>>
InitState(c) == /\ lg = <<Root(c)>> /\ cnt = <<<<0, 0>>>> /\ hk = <<>> /\ width = 0 /\ shut = FALSE
Init == /\ cfg \in Cfgs /\ InitState(cfg) /\ ev = [op |-> "reset", cfg |-> cfg]

(* the loggers whose level changes when logger i is set to L *)
RECURSIVE Reach(_, _, _)
Reach(g, S, L) == LET N == S \cup {c \in DOMAIN g : Par(g, c) \in S /\ Fol(g, c) /\ Variant # "nofollow"
                                       /\ (Lvl(g, c) # L \/ Variant = "deep")} IN
                  IF N = S THEN S ELSE Reach(g, N, L)
Affected(g, i, L) == IF Lvl(g, i) = L THEN {} ELSE Reach(g, {i}, L)
SetL(g, i, L) == LET A == Affected(g, i, L) IN [c \in DOMAIN g |-> IF c \in A THEN [g[c] EXCEPT ![4] = L] ELSE g[c]]

Passes(level, L) == IF Variant = "strict" THEN level < L ELSE level <= L

(* hooks after the levels became g2: <<new hk, calls>> *)
HookActive(g2, h) == h[4] /\ ~IsNil /\ Passes(Lvl(g2, h[1]), h[2])
Rehook(g2, k) == [x \in DOMAIN k |-> <<k[x][1], k[x][2], HookActive(g2, k[x]), k[x][4]>>]
CallSet(g2, k) == {<<x, IF HookActive(g2, k[x]) THEN "setup" ELSE "shutdown", Lvl(g2, k[x][1])>> :
                      x \in {y \in DOMAIN k : HookActive(g2, k[y]) # k[y][3]}}
CallSeq(S) == SetToSortSeq(S, LAMBDA a, b : a[1] < b[1])

St(g, k) == [loggers |-> [i \in DOMAIN g |-> <<g[i][2], g[i][3], g[i][4], g[i][1]>>],
             hooks |-> [x \in DOMAIN k |-> IF k[x][3] THEN 1 ELSE 0]]
R(id, n, p, recs, calls, pan) == [id |-> id, name |-> n, path |-> p, recs |-> recs, calls |-> calls, panicked |-> pan]
Plain(calls) == R(0, "", "", <<>>, calls, FALSE)

Named(how) == how \in {"named", "namedf", "namedattrs"}
Msg(how) == IF how \in {"logf", "namedf"} THEN "m-7" ELSE "m"
Attrs(how) == IF how \in {"logf", "namedf"} THEN "" ELSE "k=1"

Do(s) ==
  CASE s.op = "reset" -> /\ cfg' = s.cfg /\ lg' = <<Root(s.cfg)>> /\ cnt' = <<<<0, 0>>>> /\ hk' = <<>> /\ width' = 0 /\ shut' = FALSE /\ ev' = s
    [] s.op = "Child" ->       \* lg[s.p].NewChildLogger(s.name, s.enum)
         /\ s.p <= Len(lg) /\ Len(lg) < MaxLoggers /\ UNCHANGED <<cfg, hk, width, shut>>
         /\ LET k == NIdx(s.name)
                num == cnt[s.p][k]
                nm == IF IsNil THEN "<nil>" ELSE IF s.enum THEN s.name \o ToString(num) ELSE s.name
                pp == lg[s.p][3]
                pth == IF IsNil THEN "<nil>" ELSE IF pp = "" THEN nm ELSE pp \o "." \o nm
                new == IF IsNil THEN <<0, nm, pth, 2, FALSE, FALSE>> ELSE <<s.p, nm, pth, Lvl(lg, s.p), TRUE, s.enum>> IN
            /\ lg' = Append(lg, new)
            /\ cnt' = Append(IF s.enum /\ ~IsNil /\ Variant # "samenum" THEN [cnt EXCEPT ![s.p][k] = @ + 1] ELSE cnt, <<0, 0>>)
            /\ ev' = [res |-> R(Len(lg) + 1, nm, pth, <<>>, <<>>, FALSE), st |-> St(lg', hk)] @@ s
    [] s.op = "SetLevel" ->    \* lg[s.i].SetLogLevel(s.lvl)
         /\ s.i <= Len(lg) /\ UNCHANGED <<cfg, cnt, width, shut>>
         /\ LET g2 == IF IsNil THEN lg ELSE SetL(lg, s.i, s.lvl) IN
            /\ lg' = g2 /\ hk' = Rehook(g2, hk)
            /\ ev' = [res |-> Plain(CallSeq(CallSet(g2, hk))), st |-> St(g2, hk')] @@ s
    [] s.op = "Log" ->         \* one of the logging entry points of lg[s.i] at level s.lvl
         /\ s.i <= Len(lg) /\ (Named(s.how) => s.lvl # 5) /\ UNCHANGED <<cfg, lg, cnt, hk, shut>>
         /\ LET g == lg[s.i]
                on == ~IsNil /\ (~shut \/ Variant = "relog") /\ Passes(g[4], s.lvl)
                w == IF cfg.kind = "text" /\ on THEN Mx(width, Len(g[3])) ELSE width
                a == Attrs(s.how)
                rec == <<LName[s.lvl + 1], g[3], Msg(s.how), IF cfg.kind = "text" /\ a # "" THEN "(" \o a \o ")" ELSE a,
                         IF cfg.kind = "text" THEN w ELSE 0>> IN
            /\ width' = w
            /\ ev' = [res |-> R(0, "", "", IF on THEN <<rec>> ELSE <<>>, <<>>, Named(s.how) /\ s.lvl = 6), st |-> St(lg, hk)] @@ s
    [] s.op = "Shutdown" ->    \* lg[s.i].Shutdown(); before the first Shutdown of a root with the text handler the binding logs a
                               \* last record "bye" through the root at PANIC level: it must have been written when Shutdown returns
         /\ s.i <= Len(lg) /\ UNCHANGED <<cfg, cnt, hk>>
         /\ lg' = IF s.i > 1 /\ ~IsNil THEN [lg EXCEPT ![s.i][5] = FALSE] ELSE lg
         /\ shut' = (shut \/ (s.i = 1 /\ cfg.kind = "text"))     \* (the other handlers have nothing to shut down)
         /\ LET flush == s.i = 1 /\ cfg.kind = "text" /\ ~shut
                w == IF flush THEN Mx(width, Len(lg[1][3])) ELSE width IN
            /\ width' = w
            /\ ev' = [res |-> R(0, "", "", IF flush THEN <<<<"PANIC", lg[1][3], "bye", "", w>>>> ELSE <<>>, <<>>, FALSE), st |-> St(lg', hk)] @@ s
    [] s.op = "Hook" ->        \* lg[s.i].OnLogLevelActive(s.lvl, setup)
         /\ s.i <= Len(lg) /\ Len(hk) < MaxHooks /\ UNCHANGED <<cfg, lg, cnt, width, shut>>
         /\ LET k0 == Append(hk, <<s.i, s.lvl, FALSE, TRUE>>) IN
            /\ hk' = Rehook(lg, k0)
            /\ ev' = [res |-> [Plain(CallSeq(CallSet(lg, k0))) EXCEPT !.id = Len(k0)], st |-> St(lg, hk')] @@ s
    [] s.op = "Unhook" ->      \* the unsubscribe function of hook s.h (any number of times)
         /\ s.h <= Len(hk) /\ UNCHANGED <<cfg, lg, cnt, width, shut>>
         /\ LET k0 == [hk EXCEPT ![s.h][4] = FALSE] IN
            /\ hk' = Rehook(lg, k0)
            /\ ev' = [res |-> Plain(CallSeq(CallSet(lg, k0))), st |-> St(lg, hk')] @@ s

Stimuli == [op : {"Child"}, p : 1..MaxLoggers, name : Names, enum : BOOLEAN]
      \cup [op : {"SetLevel"}, i : 1..MaxLoggers, lvl : Levels]
      \cup [op : {"Log"}, i : 1..MaxLoggers, lvl : LogLevels, how : Hows]
      \cup [op : {"Shutdown"}, i : 1..MaxLoggers]
      \cup [op : {"Hook"}, i : 1..MaxLoggers, lvl : HookLevels]
      \cup [op : {"Unhook"}, h : 1..MaxHooks]
Next == \E s \in Stimuli : Do(s)
Spec == Init /\ [][Next]_vars

(* ---------------- the contract, stated on the model ---------------- *)
Ids == DOMAIN lg
TypeOK == /\ Len(lg) \in 1..MaxLoggers /\ Len(cnt) = Len(lg) /\ Len(hk) <= MaxHooks /\ width >= 0
          /\ \A i \in Ids : Par(lg, i) \in 0..(i - 1) /\ Lvl(lg, i) \in 0..6
          /\ \A x \in DOMAIN hk : hk[x][1] \in Ids
(* the path is the names of the ancestors and the own name *)
PathOK == \A i \in Ids : i > 1 /\ ~IsNil =>
             lg[i][3] = (IF lg[Par(lg, i)][3] = "" THEN lg[i][2] ELSE lg[Par(lg, i)][3] \o "." \o lg[i][2])
(* enumerated children of one parent never share a name *)
UniqueNames == \A i, j \in Ids : (i # j /\ lg[i][6] /\ lg[j][6] /\ Par(lg, i) = Par(lg, j)) => lg[i][2] # lg[j][2]
(* a hook is active exactly while it is subscribed and its level passes *)
HookOK == \A x \in DOMAIN hk : hk[x][3] <=> (hk[x][4] /\ ~IsNil /\ Lvl(lg, hk[x][1]) <= hk[x][2])
EmptyLoggerOK == IsNil => \A i \in Ids : lg[i][2] = "<nil>" /\ Lvl(lg, i) = 2 /\ Par(lg, i) = 0

RECURSIVE Desc(_, _)
Desc(g, S) == LET N == S \cup {c \in DOMAIN g : Par(g, c) \in S} IN IF N = S THEN S ELSE Desc(g, N)
(* a record reaches the handler iff the logger's level is <= the record's level (and the logger is real and not shut down) *)
EmitRule == ev'.op = "Log" => /\ (ev'.res.recs # <<>>) <=> (~IsNil /\ ~shut /\ Lvl(lg, ev'.i) <= ev'.lvl)
                              /\ \A r \in DOMAIN ev'.res.recs : ev'.res.recs[r][2] = lg[ev'.i][3] /\ ev'.res.recs[r][1] = LName[ev'.lvl + 1]
                              /\ lg' = lg /\ hk' = hk
(* SetLogLevel: the logger itself gets the level; followers of a changed logger follow; nothing outside the subtree,
   no logger that stopped following, changes *)
SetRule == (ev'.op = "SetLevel" /\ ~IsNil) =>
              /\ Lvl(lg', ev'.i) = ev'.lvl
              /\ \A c \in Ids : (Lvl(lg', c) # Lvl(lg, c)) => c \in Desc(lg, {ev'.i}) /\ Lvl(lg', c) = ev'.lvl /\ (c = ev'.i \/ Fol(lg, c))
              /\ \A c \in Ids : (c > 1 /\ Fol(lg, c) /\ Lvl(lg', Par(lg, c)) # Lvl(lg, Par(lg, c))) => Lvl(lg', c) = ev'.lvl
              /\ \A c \in Ids : (c # ev'.i /\ Lvl(lg', c) # Lvl(lg, c)) => Lvl(lg', Par(lg, c)) # Lvl(lg, Par(lg, c))
(* only SetLogLevel changes levels; names, paths and parents never change *)
Stable == ev'.op # "reset" => /\ \A c \in Ids : lg'[c][1] = lg[c][1] /\ lg'[c][2] = lg[c][2] /\ lg'[c][3] = lg[c][3]
                              /\ (ev'.op # "SetLevel" => \A c \in Ids : Lvl(lg', c) = Lvl(lg, c))
(* setup and shutdown calls alternate per hook, nothing after unsubscribe *)
HookRule == ev'.op # "reset" => \A c \in DOMAIN ev'.res.calls : LET call == ev'.res.calls[c] IN
              /\ call[1] \in DOMAIN hk'
              /\ (call[2] = "setup") <=> (hk'[call[1]][3] /\ (call[1] \in DOMAIN hk => ~hk[call[1]][3]))
              /\ (call[2] = "shutdown") <=> (call[1] \in DOMAIN hk /\ hk[call[1]][3] /\ ~hk'[call[1]][3])
              /\ call[3] = Lvl(lg', hk'[call[1]][1])
Steps == [][ev'.op = "reset" \/ (EmitRule /\ SetRule /\ Stable /\ HookRule)]_vars
=============================================================================
