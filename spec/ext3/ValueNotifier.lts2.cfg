CONSTANTS
  MaxListeners = 3
  Values = {1}
  Ctxs = {"live", "expired"}
  MaxGated = 1
  Variant = "spec"
