CONSTANTS
  Slots = {1, 2}
  Notifiers = {1, 2}
  Shape = "one"
  Cancels = {1, 2}
  Variant = "no_priority"
INVARIANTS TypeOK NoPanic OkOnlyIfNotified DeregOnlyIfDeregistered MustWake CountOK Cleanup
