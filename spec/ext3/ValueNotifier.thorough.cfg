CONSTANTS
  MaxListeners = 4
  Values = {1, 2}
  Ctxs = {"live", "canceled", "expired", "gated"}
  MaxGated = 2
  Variant = "spec"
INVARIANTS TypeOK
PROPERTIES Steps
VIEW View
