CONSTANTS
  Scope = "mc"
  Variant = "early"
INVARIANTS TypeOK Once NotLost ExitOK FileOK
PROPERTIES Steps
VIEW FullView
