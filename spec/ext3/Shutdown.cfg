CONSTANTS
  Scope = "mc"
  Variant = "spec"
INVARIANTS TypeOK Once NotLost ExitOK FileOK
PROPERTIES Steps
VIEW FullView
