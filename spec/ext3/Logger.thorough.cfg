CONSTANTS
  MaxLoggers = 3
  MaxHooks = 1
  Levels = {1, 2, 4}
  HookLevels = {1, 3}
  LogLevels = {1, 3, 6}
  InitLevels = {2}
  Kinds = {"capture", "text", "nil"}
  Roots = {"", "r"}
  Names = {"a", "b"}
  Hows = {"log", "namedf"}
  Variant = "spec"
INVARIANTS TypeOK PathOK UniqueNames HookOK EmptyLoggerOK
PROPERTIES Steps
VIEW View
