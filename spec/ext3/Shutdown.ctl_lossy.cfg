CONSTANTS
  Scope = "mc"
  Variant = "lossy"
INVARIANTS TypeOK Once NotLost ExitOK FileOK
PROPERTIES Steps
VIEW FullView
