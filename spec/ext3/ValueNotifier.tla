--------------------------- MODULE ValueNotifier ---------------------------
(* hive.go/runtime/valuenotifier (extension X3) at the level of its API, observed at quiescent points          *)
(* (spec/CONCURRENCY.md, pattern 1): three harness threads, every Wait carries its own context.                 *)
(*                                                                                                            *)
(* Contract written down here (doc comments of Listener / Wait / Deregister, ErrListenerDeregistered, the      *)
(* package test):                                                                                             *)
(*  - Notifier.Listener(v) "creates a unique listener that can be used to wait until Notify is called for the *)
(*    given value"; any number of listeners per value, also again after the value was notified;               *)
(*  - Notify(v) wakes exactly the listeners of v that exist at that moment and are not deregistered: each of   *)
(*    them is notified for good (a Wait that starts later returns at once); listeners of other values,         *)
(*    listeners created later and deregistered listeners are not affected; Notify of an unknown value is a     *)
(*    no-op;                                                                                                  *)
(*  - Wait(ctx) "waits until the listener is notified or the context is done": nil when notified, ctx.Err()   *)
(*    when the context is done (when both hold either answer is allowed), ErrListenerDeregistered when the     *)
(*    listener is deregistered - before the call (whatever else holds) or while it waits;                     *)
(*  - a Wait that returns, for whatever reason, has deregistered its listener ("always de-register to clean    *)
(*    up"): every other Wait on the same listener fails with ErrListenerDeregistered, so a notification is     *)
(*    consumed by one Wait, unless several were already waiting when Notify came - those all succeed;          *)
(*  - Deregister any number of times; it never makes anybody succeed - in particular a Wait that has been      *)
(*    called but is not waiting yet (it is still evaluating its context's Done()) when its listener is           *)
(*    deregistered and the value is notified only AFTER that, fails: that Notify did not concern the listener.    *)
(*                                                                                                            *)
(* Listeners are numbered 1,2,.. in creation order.  Stimuli: Listener(v), Notify(v), Deregister(l),            *)
(* Wait(l, c) = the lowest idle thread calls l.Wait with a context that is c = "live" (cancellable later),      *)
(* "canceled" (already cancelled), "expired" (deadline passed) or "gated" (a context whose Done() parks the      *)
(* caller until Release(t): the Wait has looked at the deregistered flag but has not reached its select),          *)
(* Cancel(t) = cancel the context thread t waits with.  res = [id |-> new listener or 0, rets |-> sorted <<thread, result>> of the calls that returned];      *)
(* st = [blocked |-> threads inside Wait, on |-> listener per thread (0 = idle)].                              *)
EXTENDS Integers, Sequences, FiniteSets, SequencesExt, TLC

CONSTANTS MaxListeners, Values, Ctxs, MaxGated, Variant    \* Variant "spec"; negative controls "late" | "wakeall" | "reuse"
VARIABLES cfg,      \* [nl, nv]: bounds (part of the recorded reset line)
          ls,       \* per listener <<value, notified, deregistered>>
          w,        \* thread -> listener it is blocked on (0 = idle); a blocked Wait always has a live context
          pre,      \* thread -> 0 | 1 = held inside Done() of a gated context | 2 = the same, context cancelled meanwhile
          ev
vars == <<cfg, ls, w, pre, ev>>
View == <<cfg, ls, w, pre>>

Threads == {1, 2, 3}
Cfgs == {[nl |-> MaxListeners, nv |-> Cardinality(Values)]}
Init == /\ cfg \in Cfgs /\ ls = <<>> /\ w = [t \in Threads |-> 0] /\ pre = <<0, 0, 0>> /\ ev = [op |-> "reset", cfg |-> cfg]

V(l) == ls[l][1]
Notified(l) == ls[l][2]
Dereg(l) == ls[l][3]
Obs(ww) == [blocked |-> SetToSortSeq({t \in Threads : ww[t] # 0}, <), on |-> <<ww[1], ww[2], ww[3]>>]
Waiting(t) == w[t] # 0 /\ pre[t] = 0        \* inside the select
RetSeq(S) == SetToSortSeq(S, LAMBDA x, y : x[1] < y[1])
Idle == {t \in Threads : w[t] = 0}
LowIdle == CHOOSE x \in Idle : \A y \in Idle : x <= y
CtxErr(c) == IF c = "expired" THEN "deadline" ELSE "canceled"
Res(id, rets) == [id |-> id, rets |-> rets]

(* thread t returns r from its Wait on l: l is deregistered, the others waiting on l fail *)
Finish(t, l, r, s) ==
  LET others == {x \in Threads : x # t /\ w[x] = l /\ Waiting(x)} IN
  /\ ls' = [ls EXCEPT ![l] = <<@[1], @[2], TRUE>>]
  /\ w' = [x \in Threads |-> IF x = t \/ x \in others THEN 0 ELSE w[x]]
  /\ pre' = [pre EXCEPT ![t] = 0]
  /\ ev' = [res |-> Res(0, RetSeq({<<t, r>>} \cup {<<x, "deregistered">> : x \in others})), st |-> Obs(w')] @@ s

Do(s) ==
  CASE s.op = "reset" -> /\ cfg' = s.cfg /\ ls' = <<>> /\ w' = [t \in Threads |-> 0] /\ pre' = <<0, 0, 0>> /\ ev' = s
    [] s.op = "Listener" ->
         /\ Len(ls) < cfg.nl /\ UNCHANGED <<cfg, w, pre>>
         /\ ls' = Append(ls, <<s.v, Variant = "reuse" /\ \E l \in DOMAIN ls : V(l) = s.v /\ Notified(l), FALSE>>)
         /\ ev' = [res |-> Res(Len(ls) + 1, <<>>), st |-> Obs(w)] @@ s
    [] s.op = "Notify" ->
         /\ UNCHANGED <<cfg, pre>>
         /\ LET hit == {l \in DOMAIN ls : (V(l) = s.v \/ Variant = "wakeall") /\ (~Dereg(l) \/ Variant = "late")}
                woken == {t \in Threads : w[t] \in hit /\ Waiting(t)} IN
            /\ ls' = [l \in DOMAIN ls |-> IF l \in hit THEN <<V(l), TRUE, Dereg(l) \/ \E t \in woken : w[t] = l>> ELSE ls[l]]
            /\ w' = [t \in Threads |-> IF t \in woken THEN 0 ELSE w[t]]
            /\ ev' = [res |-> Res(0, RetSeq({<<t, "ok">> : t \in woken})), st |-> Obs(w')] @@ s
    [] s.op = "Deregister" ->
         /\ s.l \in DOMAIN ls /\ UNCHANGED <<cfg, pre>>
         /\ LET woken == IF Dereg(s.l) THEN {} ELSE {t \in Threads : w[t] = s.l /\ Waiting(t)} IN
            /\ ls' = [ls EXCEPT ![s.l] = <<@[1], @[2], TRUE>>]
            /\ w' = [t \in Threads |-> IF t \in woken THEN 0 ELSE w[t]]
            /\ ev' = [res |-> Res(0, RetSeq({<<t, "deregistered">> : t \in woken})), st |-> Obs(w')] @@ s
    [] s.op = "Wait" ->
         /\ s.l \in DOMAIN ls /\ Idle # {} /\ UNCHANGED cfg
         /\ (s.c = "gated" => Cardinality({x \in Threads : pre[x] # 0}) < MaxGated)     \* exploration bound
         /\ LET t == LowIdle IN
            IF Dereg(s.l) /\ Variant # "late"
              THEN /\ UNCHANGED <<ls, w, pre>> /\ ev' = [res |-> Res(0, <<<<t, "deregistered">>>>), st |-> Obs(w)] @@ s
            ELSE IF s.c = "gated" THEN /\ UNCHANGED ls /\ w' = [w EXCEPT ![t] = s.l] /\ pre' = [pre EXCEPT ![t] = 1]
                                       /\ ev' = [res |-> Res(0, <<>>), st |-> Obs(w')] @@ s
            ELSE IF Notified(s.l) /\ s.c = "live" THEN Finish(t, s.l, "ok", s)
            ELSE IF Notified(s.l) THEN Finish(t, s.l, "ok", s) \/ Finish(t, s.l, CtxErr(s.c), s)
            ELSE IF s.c # "live" THEN Finish(t, s.l, CtxErr(s.c), s)
            ELSE /\ UNCHANGED <<ls, pre>> /\ w' = [w EXCEPT ![t] = s.l] /\ ev' = [res |-> Res(0, <<>>), st |-> Obs(w')] @@ s
    [] s.op = "Cancel" ->
         /\ w[s.t] # 0 /\ pre[s.t] # 2 /\ UNCHANGED cfg
         /\ IF pre[s.t] = 1 THEN /\ UNCHANGED <<ls, w>> /\ pre' = [pre EXCEPT ![s.t] = 2]
                                  /\ ev' = [res |-> Res(0, <<>>), st |-> Obs(w)] @@ s
                             ELSE Finish(s.t, w[s.t], "canceled", s)
    [] s.op = "Release" ->       \* the gated Done() of thread s.t returns: the Wait reaches its select
         /\ pre[s.t] # 0 /\ UNCHANGED cfg
         /\ LET l == w[s.t]
                R == (IF Notified(l) THEN {"ok"} ELSE {}) \cup (IF Dereg(l) THEN {"deregistered"} ELSE {})
                     \cup (IF pre[s.t] = 2 THEN {"canceled"} ELSE {}) IN
            IF R = {} THEN /\ UNCHANGED <<ls, w>> /\ pre' = [pre EXCEPT ![s.t] = 0]
                           /\ ev' = [res |-> Res(0, <<>>), st |-> Obs(w)] @@ s
                      ELSE \E r \in R : Finish(s.t, l, r, s)

Stimuli == [op : {"Listener", "Notify"}, v : Values] \cup [op : {"Deregister"}, l : 1..MaxListeners]
           \cup [op : {"Wait"}, l : 1..MaxListeners, c : Ctxs] \cup [op : {"Cancel", "Release"}, t : Threads]
Next == \E s \in Stimuli : Do(s)
Spec == Init /\ [][Next]_vars

(* ---------------- the contract, stated on the model ---------------- *)
TypeOK == /\ Len(ls) <= cfg.nl /\ \A t \in Threads : w[t] \in 0..Len(ls)
          /\ \A t \in Threads : (pre[t] # 0 => w[t] # 0) /\ (Waiting(t) => ~Dereg(w[t]) /\ ~Notified(w[t]))   \* nobody stays blocked on a notified / deregistered listener
Rets == ev'.res.rets
(* a listener becomes notified only by a Notify of its value while it exists and is not deregistered *)
NotifiedInWindow == ev'.op # "reset" => \A l \in DOMAIN ls' : (Notified(l)' /\ (l \in DOMAIN ls => ~Notified(l))) =>
                                           (ev'.op = "Notify" /\ l \in DOMAIN ls /\ ev'.v = V(l) /\ ~Dereg(l))
(* Wait succeeds only on a notified listener that was not deregistered before the step *)
OkOnlyIfNotified == ev'.op # "reset" => \A i \in DOMAIN Rets : Rets[i][2] = "ok" =>
                        \E l \in DOMAIN ls : /\ Notified(l)' /\ (ev'.op = "Release" \/ ~Dereg(l)) /\ (ev'.op = "Wait" => l = ev'.l)
                                             /\ (ev'.op = "Notify" => w[Rets[i][1]] = l) /\ (ev'.op = "Release" => l = w[ev'.t])
(* exactly the waiting listeners of the value wake on Notify; nobody else returns *)
NotifyWakesExactly == ev'.op = "Notify" => {Rets[i][1] : i \in DOMAIN Rets} = {t \in Threads : Waiting(t) /\ V(w[t]) = ev'.v}
(* every Wait that returned has deregistered its listener *)
ReturnDeregisters == ev'.op # "reset" => \A i \in DOMAIN Rets : LET t == Rets[i][1] IN
                        ls'[IF w[t] # 0 THEN w[t] ELSE ev'.l][3]
Steps == [][ev'.op = "reset" \/ (NotifiedInWindow /\ OkOnlyIfNotified /\ NotifyWakesExactly /\ ReturnDeregisters)]_vars
=============================================================================
