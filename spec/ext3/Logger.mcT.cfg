CONSTANTS
  MaxLoggers = 3
  MaxHooks = 0
  Levels = {1, 4}
  HookLevels = {}
  LogLevels = {1, 3}
  InitLevels = {2}
  Kinds = {"text"}
  Roots = {"", "r"}
  Names = {"a"}
  Hows = {"log", "logf"}
  Variant = "spec"
INVARIANTS TypeOK PathOK UniqueNames HookOK EmptyLoggerOK
PROPERTIES Steps
VIEW View
