----------------------------- MODULE Shutdown -----------------------------
(* hive.go/app/shutdown.ShutdownHandler (extension X3) at the level of its API.  The real handler runs in a      *)
(* CHILD PROCESS of the harness (it calls os.Exit and listens to real signals); the child performs one call,      *)
(* waits until the process is quiescent and reports what it observed.  Sequential convention (spec/README.md).    *)
(*                                                                                                              *)
(* Contract written down here (doc comments of the package):                                                    *)
(*  - "ShutdownHandler waits until a shutdown signal was received or the app tried to shutdown itself, and      *)
(*    shuts down all processes gracefully": after Run, the FIRST request - SIGTERM / SIGINT or SelfShutdown -   *)
(*    is handled, exactly once: a warning is logged, then the event is triggered (AppShutdown "when a clean      *)
(*    shutdown was requested"; AppSelfShutdown(msg, critical) "when a app self shutdown was caused by an error") *)
(*    then the daemon is shut down and awaited (ShutdownAndWait) - so hooks of the events run before the         *)
(*    background workers are stopped; later requests change nothing;                                             *)
(*  - "SelfShutdown can be called in order to instruct the app to shutdown cleanly without receiving any          *)
(*    interrupt signals": a request is never lost - one that is made before Run (like a signal that arrives       *)
(*    before Run) or right after Run returned is handled as soon as the handler runs; of several self-shutdown    *)
(*    requests the first one counts, as always; if a signal is pending as well either is handled;                 *)
(*  - WithSelfShutdownLogsEnabled / ..FilePath "store self-shutdown events to a log file": Run creates the        *)
(*    directory of the file (an error if it cannot) and every handled self-shutdown appends one line             *)
(*    "<time>: <msg>[ (CRITICAL)]" before the event is triggered; a file that cannot be opened is reported as a   *)
(*    warning and does not stop the shutdown;                                                                     *)
(*  - a critical self-shutdown ends the process with exit code 1 once the daemon has stopped; a non-critical one  *)
(*    and a signal leave the process alone;                                                                       *)
(*  - WithStopGracePeriod "the maximum time to wait for background processes to finish during shutdown before     *)
(*    terminating the app": while the shutdown lasts a warning with the remaining seconds and the running          *)
(*    background workers is logged every second; once the grace period is over a FATAL record is logged and the   *)
(*    process exits with code 1;                                                                                  *)
(*  - log records go through the embedded logger (nothing below its level is emitted).                           *)
(*                                                                                                              *)
(* cfg = [grace (seconds), logs ("off" | "file" no directory | "dir" directories to create | "baddir" directory   *)
(*        cannot be created | "isdir" the file path is a directory), lvl ("info" | "error"), workers (0 | 2)].    *)
(* Stimuli: Run; RunSelf(m, c) = Run() immediately followed by SelfShutdown(m, c) on the same goroutine            *)
(* (GOMAXPROCS(1): the handler goroutine has not reached its select yet); SelfShutdown(m, c); Signal(sig);          *)
(* DaemonDone = the (fake) daemon's ShutdownAndWait returns; Tick = wait for the next record of the once-a-second    *)
(* reporter.  res = [err |-> "" | "mkdir", obs |-> what happened, in order: "log:<LEVEL>:<text>",                    *)
(* "event:self:<msg>:<critical>:file=<lines in the log file when the hook ran>", "event:shutdown",                    *)
(* "daemon:ShutdownAndWait", "tick:<LEVEL>:<text, remaining seconds masked>", exit |-> exit code or -1];               *)
(* st = [file |-> lines of the log file without the time, dir |-> the directory of the log file exists,               *)
(*       waiting |-> the daemon is inside ShutdownAndWait, alive |-> the process lives].                              *)
EXTENDS Integers, Sequences, FiniteSets, TLC

CONSTANTS Scope,     \* which configurations / stimuli: "mc" | "lts" | "trace"
          Variant    \* "spec"; negative controls: "lossy" (requests before the select are lost) | "twice" | "early" (daemon before event)

VARIABLES cfg,
          phase,     \* "new" | "failed" (Run returned an error) | "wait" | "stopping" | "stopped" | "exited"
          pend,      \* <<>> or <<r>>: the first self-shutdown request made before the handler ran
          sigp,      \* a signal arrived before the handler ran
          crit,      \* the handled request was a critical self-shutdown
          file, dir,
          asked, nev, nd,   \* history: a request was made; events triggered; ShutdownAndWait calls
          ev
vars == <<cfg, phase, pend, sigp, crit, file, dir, asked, nev, nd, ev>>
View == <<cfg, phase, pend, sigp, crit, file, dir>>
FullView == <<cfg, phase, pend, sigp, crit, file, dir, asked, nev, nd>>

Msgs == {"m1", "m2"}
Reqs == Msgs \X BOOLEAN       \* <<msg, critical>> (tuples: state ids of the exported transition system must be canonical)
C(g, l, lv, w) == [grace |-> g, logs |-> l, lvl |-> lv, workers |-> w]
Cfgs == CASE Scope = "lts" -> {C(300, "off", "info", 0), C(300, "file", "info", 2), C(300, "dir", "error", 0), C(7, "baddir", "info", 0),
                               C(300, "isdir", "info", 0), C(0, "file", "info", 2)}
          [] Scope = "mc" -> [grace : {0, 300}, logs : {"off", "file", "dir", "baddir", "isdir"}, lvl : {"info", "error"}, workers : {0}]
          [] OTHER -> [grace : {0, 7, 300}, logs : {"off", "file", "dir", "baddir", "isdir"}, lvl : {"info", "error"}, workers : {0, 2}]

Init == /\ cfg \in Cfgs /\ phase = "new" /\ pend = <<>> /\ sigp = FALSE /\ crit = FALSE /\ file = <<>> /\ dir = FALSE
        /\ asked = FALSE /\ nev = 0 /\ nd = 0 /\ ev = [op |-> "reset", cfg |-> cfg]

B(b) == IF b THEN "true" ELSE "false"
Warn(x) == IF cfg.lvl = "info" THEN <<"log:WARNING:" \o x>> ELSE <<>>
MsgEnd(g) == "; waiting (max " \o ToString(g) \o " seconds) to finish processing ..."
SelfMsg(r) == (IF r[2] THEN "Critical " ELSE "") \o "App self-shutdown: " \o r[1] \o MsgEnd(cfg.grace)
SigMsg == "Received shutdown request - waiting (max " \o ToString(cfg.grace) \o " seconds) to finish processing ..."
TickMsg == "Received shutdown request - waiting (max N seconds) to finish processing " \o (IF cfg.workers = 2 THEN "(w1, w2) " ELSE "") \o "..."
FatalMsg == "Background processes did not terminate in time! Forcing shutdown ..."
Writes == cfg.logs \in {"file", "dir"}
FileAfter(r) == IF Writes THEN Append(file, r[1] \o (IF r[2] THEN " (CRITICAL)" ELSE "")) ELSE file
Daemon == <<"daemon:ShutdownAndWait">>
SelfObs(r) == LET e == <<"event:self:" \o r[1] \o ":" \o B(r[2]) \o ":file=" \o ToString(Len(FileAfter(r)))>> IN
              Warn(SelfMsg(r)) \o (IF cfg.logs = "isdir" THEN Warn("self-shutdown log can't be opened") ELSE <<>>)
              \o (IF Variant = "early" THEN Daemon \o e ELSE e \o Daemon)
SigObs == Warn(SigMsg) \o <<"event:shutdown">> \o Daemon
St(f, d, p) == [file |-> f, dir |-> d, waiting |-> (p = "stopping"), alive |-> (p # "exited")]
Res(e, o, x) == [err |-> e, obs |-> o, exit |-> x]

(* the handler goroutine handles self request r / a signal *)
BeginSelf(r, d, s) == /\ phase' = "stopping" /\ crit' = r[2] /\ file' = FileAfter(r) /\ dir' = d /\ nev' = nev + 1 /\ nd' = nd + 1
                      /\ pend' = <<>> /\ sigp' = FALSE
                      /\ ev' = [res |-> Res("", SelfObs(r), -1), st |-> St(file', d, "stopping")] @@ s
BeginSig(d, s) == /\ phase' = "stopping" /\ crit' = FALSE /\ UNCHANGED file /\ dir' = d /\ nev' = nev + 1 /\ nd' = nd + 1
                  /\ pend' = <<>> /\ sigp' = FALSE
                  /\ ev' = [res |-> Res("", SigObs, -1), st |-> St(file, d, "stopping")] @@ s
First(p, r) == IF p = <<>> THEN <<r>> ELSE p
Quiet(s) == ev' = [res |-> Res("", <<>>, -1), st |-> St(file, dir, phase)] @@ s

(* Run() with the requests P pending (and maybe a signal) *)
DoRun(P, s) ==
  IF cfg.logs = "baddir"
    THEN /\ phase' = "failed" /\ pend' = P /\ UNCHANGED <<sigp, crit, file, dir, nev, nd>>
         /\ ev' = [res |-> Res("mkdir", <<>>, -1), st |-> St(file, dir, "failed")] @@ s
    ELSE LET d == (cfg.logs = "dir")
             PP == IF Variant = "lossy" THEN <<>> ELSE P IN
         IF PP = <<>> /\ ~sigp
           THEN /\ phase' = "wait" /\ dir' = d /\ pend' = <<>> /\ UNCHANGED <<sigp, crit, file, nev, nd>>
                /\ ev' = [res |-> Res("", <<>>, -1), st |-> St(file, d, "wait")] @@ s
           ELSE \/ (PP # <<>> /\ BeginSelf(PP[1], d, s))
                \/ (sigp /\ BeginSig(d, s))

Do(s) ==
  CASE s.op = "reset" -> /\ cfg' = s.cfg /\ phase' = "new" /\ pend' = <<>> /\ sigp' = FALSE /\ crit' = FALSE /\ file' = <<>>
                         /\ dir' = FALSE /\ asked' = FALSE /\ nev' = 0 /\ nd' = 0 /\ ev' = s
    [] s.op = "Run" -> /\ phase = "new" /\ UNCHANGED <<cfg, asked>> /\ DoRun(pend, s)
    [] s.op = "RunSelf" -> /\ phase = "new" /\ UNCHANGED cfg /\ asked' = TRUE /\ DoRun(First(pend, <<s.m, s.c>>), s)
    [] s.op = "SelfShutdown" ->
         /\ phase # "exited" /\ UNCHANGED cfg /\ asked' = TRUE
         /\ LET r == <<s.m, s.c>> IN
            IF phase = "wait" /\ Variant # "twice" THEN BeginSelf(r, dir, s)
            ELSE IF Variant = "twice" /\ phase \in {"wait", "stopping", "stopped"} THEN BeginSelf(r, dir, s)
            ELSE /\ pend' = (IF phase \in {"new", "failed"} THEN First(pend, r) ELSE pend)
                 /\ UNCHANGED <<phase, sigp, crit, file, dir, nev, nd>> /\ Quiet(s)
    [] s.op = "Signal" ->
         /\ phase # "exited" /\ UNCHANGED cfg /\ asked' = TRUE
         /\ IF phase = "wait" THEN BeginSig(dir, s)
            ELSE /\ sigp' = (sigp \/ phase \in {"new", "failed"})
                 /\ UNCHANGED <<phase, pend, crit, file, dir, nev, nd>> /\ Quiet(s)
    [] s.op = "DaemonDone" ->
         /\ phase = "stopping" /\ UNCHANGED <<cfg, pend, sigp, crit, file, dir, asked, nev, nd>>
         /\ phase' = IF crit THEN "exited" ELSE "stopped"
         /\ ev' = [res |-> Res("", <<>>, IF crit THEN 1 ELSE -1), st |-> St(file, dir, phase')] @@ s
    [] s.op = "Tick" ->
         /\ phase \in {"stopping", "stopped"} /\ (cfg.grace = 0 \/ cfg.lvl = "info")
         /\ (Scope = "lts" => cfg.workers = 2 /\ ~crit /\ phase = "stopping" /\ file # <<"m2">>)   \* (a Tick lasts a second of real time)
         /\ UNCHANGED <<cfg, pend, sigp, crit, file, dir, asked, nev, nd>>
         /\ IF cfg.grace = 0
              THEN /\ phase' = "exited"
                   /\ ev' = [res |-> Res("", <<"tick:FATAL:" \o FatalMsg>>, 1), st |-> St(file, dir, "exited")] @@ s
              ELSE /\ UNCHANGED phase
                   /\ ev' = [res |-> Res("", <<"tick:WARNING:" \o TickMsg>>, -1), st |-> St(file, dir, phase)] @@ s

(* with a grace period of 0 the process ends by itself one second after the shutdown began: nothing but Tick then *)
Hurry == cfg.grace = 0 /\ phase \in {"stopping", "stopped"}
Stimuli == [op : {"Run", "DaemonDone", "Tick"}] \cup [op : {"RunSelf", "SelfShutdown"}, m : Msgs, c : BOOLEAN]
           \cup [op : {"Signal"}, sig : {"TERM", "INT"}]
Next == \E s \in Stimuli : (Hurry => s.op = "Tick") /\ Do(s)
Spec == Init /\ [][Next]_vars

(* ---------------- the contract, stated on the model ---------------- *)
TypeOK == /\ phase \in {"new", "failed", "wait", "stopping", "stopped", "exited"} /\ pend \in {<<>>} \cup {<<r>> : r \in Reqs} /\ Len(file) <= 2
(* exactly one event and one daemon shutdown per handled request, none before *)
Once == /\ nev <= 1 /\ nd = nev /\ (nev = 1 <=> phase \in {"stopping", "stopped", "exited"})
(* a request is never lost: once Run has succeeded and somebody asked, the handler is not waiting any more *)
NotLost == (asked /\ phase = "wait") => FALSE
(* the process exits only after a critical self-shutdown or when the grace period is over *)
ExitOK == phase = "exited" => (crit \/ cfg.grace = 0)
FileOK == /\ Len(file) <= 1 /\ (Len(file) = 1 => Writes /\ nev = 1)
          /\ (dir => cfg.logs = "dir" /\ phase \notin {"new", "failed"})
(* hooks of the events run before the daemon is shut down; the log file is written before the hooks run *)
EventObs == {"event:shutdown"} \cup {"event:self:" \o m \o ":" \o B(c) \o ":file=" \o ToString(n) : m \in Msgs, c \in BOOLEAN, n \in 0..2}
Order == ev'.op # "reset" => \A i, j \in DOMAIN ev'.res.obs :
            (ev'.res.obs[i] = "daemon:ShutdownAndWait" /\ ev'.res.obs[j] \in EventObs) => j < i
Steps == [][Order]_vars
=============================================================================
