CONSTANTS
  Scope = "mc"
  Variant = "twice"
INVARIANTS TypeOK Once NotLost ExitOK FileOK
PROPERTIES Steps
VIEW FullView
