CONSTANTS
  MaxLoggers = 2
  MaxHooks = 2
  Levels = {1, 2, 4}
  HookLevels = {0, 2, 4}
  LogLevels = {2}
  InitLevels = {2, 4}
  Kinds = {"capture"}
  Roots = {"r"}
  Names = {"a"}
  Hows = {"log"}
  Variant = "spec"
INVARIANTS TypeOK PathOK UniqueNames HookOK EmptyLoggerOK
PROPERTIES Steps
VIEW View
