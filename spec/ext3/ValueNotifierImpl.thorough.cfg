CONSTANTS
  Slots = {1, 2, 3}
  Notifiers = {1}
  Shape = "one"
  Cancels = {1}
  Variant = "code"
INVARIANTS TypeOK NoPanic OkOnlyIfNotified DeregOnlyIfDeregistered MustWake CountOK Cleanup
