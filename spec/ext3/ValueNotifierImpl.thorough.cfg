CONSTANTS
  Slots = {1, 2, 3}
  Notifiers = {1, 2}
  Shape = "two"
  Variant = "code"
INVARIANTS TypeOK NoPanic OkOnlyIfNotified DeregOnlyIfDeregistered MustWake CountOK Cleanup
