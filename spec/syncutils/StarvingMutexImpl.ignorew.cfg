SPECIFICATION Spec
CONSTANTS
  Threads = {1, 2}
  MaxPairs = 1
  Variant = "rlock_ignores_writer"
INVARIANTS TypeOK Exclusion
