SPECIFICATION Spec
CONSTANTS
  Threads = {1, 2}
  MaxPairs = 1
  Variant = "nosignal_runlock"
INVARIANTS TypeOK Exclusion
PROPERTIES NoLostWakeup
