CONSTANTS
  Threads = {1, 2, 3}
  Entities = {1, 2}
INVARIANTS Exclusion
