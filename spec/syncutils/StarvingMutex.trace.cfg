CONSTANTS
  Threads = {1, 2, 3, 4}
  MaxR = 1000
INVARIANTS TypeOK Exclusion NoLostWakeup
