CONSTANTS
  Threads = {1, 2}
  NegLo = 1
  MaxV = 2
INVARIANTS WaitIff
