CONSTANTS
  Threads = {1, 2}
  Entities = {1, 2}
INVARIANTS Exclusion NoLostWakeup NoDeadlock
