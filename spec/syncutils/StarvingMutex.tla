-------------------------- MODULE StarvingMutex --------------------------
(* runtime/syncutils.StarvingMutex at the level of its API, observed at quiescent points:   *)
(* one stimulus = one thread starts one call; the step runs until every thread has either   *)
(* returned or is blocked.  The lock is not owned by goroutines (any thread may unlock).    *)
(* Property C17: exclusion, no lost wake-up (a call stays blocked only while a conflicting  *)
(* holder exists), misuse panics or leaves the state unchanged.                             *)
EXTENDS Integers, Sequences, FiniteSets, SequencesExt, TLC

CONSTANTS Threads, MaxR    \* MaxR bounds the reader count (model bound only)
VARIABLES cfg, readers, writer, blockedR, blockedW, dead, ev
vars == <<cfg, readers, writer, blockedR, blockedW, dead, ev>>
View == <<cfg, readers, writer, blockedR, blockedW, dead>>

Cfgs == {[kind |-> "StarvingMutex"]}
SSeq(S) == SetToSortSeq(S, <)
Busy == blockedR \cup blockedW

St(r, w, bR, bW) == [readers |-> r, writer |-> w, pending |-> Cardinality(bW), blocked |-> SSeq(bR \cup bW)]
Out(s, ret, pan, r, w, bR, bW) ==
   ev' = [op |-> s.op, t |-> s.t, res |-> [ret |-> SSeq(ret), panic |-> pan], st |-> St(r, w, bR, bW)]

Init == /\ cfg \in Cfgs
        /\ readers = 0 /\ writer = FALSE /\ blockedR = {} /\ blockedW = {} /\ dead = FALSE
        /\ ev = [op |-> "reset", cfg |-> cfg]

(* a misuse panic fires inside the mutex's own critical section: a program that recovers from it  *)
(* must not use the mutex again; the model stops there (dead) - what matters is that the lock     *)
(* state was not changed by the refused call                                                      *)
Same(s, ret, pan) == /\ UNCHANGED <<readers, writer, blockedR, blockedW>> /\ dead' = pan
                     /\ Out(s, ret, pan, readers, writer, blockedR, blockedW)

Do(s) ==
  CASE s.op = "reset" -> cfg' = s.cfg /\ readers' = 0 /\ writer' = FALSE /\ blockedR' = {} /\ blockedW' = {} /\ dead' = FALSE /\ ev' = s
    [] s.op = "RLock" ->
         /\ UNCHANGED cfg /\ s.t \notin Busy /\ ~dead /\ readers + Cardinality(blockedR) < MaxR
         /\ IF writer
              THEN /\ blockedR' = blockedR \cup {s.t} /\ UNCHANGED <<readers, writer, blockedW, dead>>
                   /\ Out(s, {}, FALSE, readers, writer, blockedR', blockedW)
              ELSE /\ readers' = readers + 1 /\ UNCHANGED <<writer, blockedR, blockedW, dead>>
                   /\ Out(s, {s.t}, FALSE, readers', writer, blockedR, blockedW)
    [] s.op = "Lock" ->
         /\ UNCHANGED cfg /\ s.t \notin Busy /\ ~dead
         /\ IF writer \/ readers > 0
              THEN /\ blockedW' = blockedW \cup {s.t} /\ UNCHANGED <<readers, writer, blockedR, dead>>
                   /\ Out(s, {}, FALSE, readers, writer, blockedR, blockedW')
              ELSE /\ writer' = TRUE /\ UNCHANGED <<readers, blockedR, blockedW, dead>>
                   /\ Out(s, {s.t}, FALSE, readers, TRUE, blockedR, blockedW)
    [] s.op = "RUnlock" ->
         /\ UNCHANGED cfg /\ s.t \notin Busy /\ ~dead
         /\ IF readers = 0 \/ writer
              THEN Same(s, {}, TRUE)          \* misuse: panics, state unchanged
              ELSE IF readers = 1 /\ blockedW # {}
                     THEN \E w \in blockedW :    \* the last reader hands over to one pending writer
                            /\ readers' = 0 /\ writer' = TRUE /\ blockedW' = blockedW \ {w} /\ UNCHANGED <<blockedR, dead>>
                            /\ Out(s, {s.t, w}, FALSE, 0, TRUE, blockedR, blockedW')
                     ELSE /\ readers' = readers - 1 /\ UNCHANGED <<writer, blockedR, blockedW, dead>>
                          /\ Out(s, {s.t}, FALSE, readers', writer, blockedR, blockedW)
    [] s.op = "Unlock" ->
         /\ UNCHANGED cfg /\ s.t \notin Busy /\ ~dead
         /\ IF readers > 0 \/ ~writer
              THEN Same(s, {}, TRUE)          \* misuse (not write-locked): panics, state unchanged
              ELSE IF blockedW # {}
                     THEN \E w \in blockedW :    \* writers first (readers starve)
                            /\ writer' = TRUE /\ blockedW' = blockedW \ {w} /\ UNCHANGED <<readers, blockedR, dead>>
                            /\ Out(s, {s.t, w}, FALSE, readers, TRUE, blockedR, blockedW')
                     ELSE /\ writer' = FALSE /\ readers' = readers + Cardinality(blockedR)
                          /\ blockedR' = {} /\ UNCHANGED <<blockedW, dead>>
                          /\ Out(s, {s.t} \cup blockedR, FALSE, readers', FALSE, {}, blockedW)

Stimuli == [op : {"RLock", "Lock", "RUnlock", "Unlock"}, t : Threads]
Next == \E s \in Stimuli : Do(s)
Spec == Init /\ [][Next]_vars

TypeOK == readers \in 0..MaxR /\ writer \in BOOLEAN /\ blockedR \subseteq Threads /\ blockedW \subseteq Threads
Exclusion == ~(writer /\ readers > 0)
NoLostWakeup == /\ blockedR # {} => writer
                /\ blockedW # {} => (writer \/ readers > 0)
(* misuse either panics without changing anything, or is accepted (Unlock of an idle mutex) *)
MisusePanicsOrUnchanged == [][ (ev'.op # "reset" /\ ev'.res.panic) => UNCHANGED <<readers, writer, blockedR, blockedW>> ]_vars
==========================================================================
