CONSTANTS
  Threads = {1, 2, 3}
  MaxR = 3
INVARIANTS TypeOK Exclusion NoLostWakeup
PROPERTIES MisusePanicsOrUnchanged
