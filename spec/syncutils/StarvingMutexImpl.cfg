SPECIFICATION Spec
CONSTANTS
  Threads = {1, 2, 3}
  MaxPairs = 1
  Variant = "code"
INVARIANTS TypeOK Exclusion CountersExact
PROPERTIES NoLostWakeup
