CONSTANTS
  Threads = {1, 2, 3}
  Vals = {1, 2}
  MaxLen = 2
INVARIANTS WaitIff
