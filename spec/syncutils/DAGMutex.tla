----------------------------- MODULE DAGMutex -----------------------------
(* runtime/syncutils.DAGMutex at the level of its API, observed at quiescent points (one    *)
(* stimulus = one thread starts one call; the step runs until every thread returned or is   *)
(* blocked).  Threads acquire entities along an acyclic order (ascending ids), as the       *)
(* documentation requires.  Property C17: exclusion per entity, no lost wake-up, ordered    *)
(* acquisition never deadlocks, unlocking an entity that is not held (for that kind) panics.                    *)
EXTENDS Integers, Sequences, FiniteSets, SequencesExt, TLC

CONSTANTS Threads, Entities
VARIABLES cfg, wr, rd, pend, dead, ev
vars == <<cfg, wr, rd, pend, dead, ev>>
View == <<cfg, wr, rd, pend, dead>>

Cfgs == {[kind |-> "DAGMutex"]}
None == [kind |-> "none"]
SSeq(S) == SetToSortSeq(S, <)
Busy == {t \in Threads : pend[t] # None}
HeldBy(t) == {e \in Entities : wr[e] = t \/ t \in rd[e]}
MaxHeld(t) == IF HeldBy(t) = {} THEN 0 ELSE CHOOSE m \in HeldBy(t) : \A e \in HeldBy(t) : e <= m
AscSeqs == {<<e>> : e \in Entities} \cup {p \in Entities \X Entities : p[1] < p[2]}

Init == /\ cfg \in Cfgs
        /\ wr = [e \in Entities |-> 0] /\ rd = [e \in Entities |-> {}]
        /\ pend = [t \in Threads |-> None] /\ dead = FALSE
        /\ ev = [op |-> "reset", cfg |-> cfg]

(* readers blocked at an entity whose writer left are granted and move on to their next id *)
RECURSIVE Adv(_, _, _)
Adv(w, r, p) ==
  LET C == {t \in Threads : p[t].kind = "R" /\ w[Head(p[t].rest)] = 0} IN
  IF C = {} THEN [rd |-> r, pend |-> p]
  ELSE LET t == CHOOSE x \in C : TRUE
           e == Head(p[t].rest)
           rest == Tail(p[t].rest)
       IN Adv(w, [r EXCEPT ![e] = @ \cup {t}], [p EXCEPT ![t] = IF rest = <<>> THEN None ELSE [kind |-> "R", rest |-> rest]])

(* DAGMutex exposes no getters: the only observations are who returned and who is blocked *)
St(w, r, p) == [blocked |-> SSeq({t \in Threads : p[t] # None})]
Out(s, ret, pan, w, r, p) == ev' = [s EXCEPT !.res = [ret |-> SSeq(ret), panic |-> pan], !.st = St(w, r, p)]
Ev0(s) == s @@ [res |-> 0, st |-> 0]

Do(s0) ==
  LET s == IF s0.op = "reset" THEN s0 ELSE Ev0(s0) IN
  CASE s.op = "reset" -> cfg' = s.cfg /\ wr' = [e \in Entities |-> 0] /\ rd' = [e \in Entities |-> {}]
                         /\ pend' = [t \in Threads |-> None] /\ dead' = FALSE /\ ev' = s
    [] s.op = "Lock" ->
         /\ UNCHANGED <<cfg, dead>> /\ ~dead /\ s.t \notin Busy /\ s.e > MaxHeld(s.t)
         /\ IF wr[s.e] = 0 /\ rd[s.e] = {}
              THEN wr' = [wr EXCEPT ![s.e] = s.t] /\ UNCHANGED <<rd, pend>> /\ Out(s, {s.t}, FALSE, wr', rd, pend)
              ELSE pend' = [pend EXCEPT ![s.t] = [kind |-> "W", e |-> s.e]] /\ UNCHANGED <<wr, rd>> /\ Out(s, {}, FALSE, wr, rd, pend')
    [] s.op = "RLock" ->
         /\ UNCHANGED <<cfg, dead, wr>> /\ ~dead /\ s.t \notin Busy /\ Head(s.ids) > MaxHeld(s.t)
         /\ LET a == Adv(wr, rd, [pend EXCEPT ![s.t] = [kind |-> "R", rest |-> s.ids]]) IN
              /\ rd' = a.rd /\ pend' = a.pend
              /\ Out(s, IF a.pend[s.t] = None THEN {s.t} ELSE {}, FALSE, wr, a.rd, a.pend)
    [] s.op = "Unlock" ->
         /\ UNCHANGED <<cfg, dead>> /\ ~dead /\ s.t \notin Busy /\ wr[s.e] = s.t
         /\ LET W == {t \in Threads : pend[t] = [kind |-> "W", e |-> s.e]} IN
            IF W # {}
              THEN \E w \in W :        \* pending writers are served before any reader
                     /\ wr' = [wr EXCEPT ![s.e] = w] /\ pend' = [pend EXCEPT ![w] = None] /\ UNCHANGED rd
                     /\ Out(s, {s.t, w}, FALSE, wr', rd, pend')
              ELSE LET w2 == [wr EXCEPT ![s.e] = 0]
                       a == Adv(w2, rd, pend) IN
                     /\ wr' = w2 /\ rd' = a.rd /\ pend' = a.pend
                     /\ Out(s, {s.t} \cup {t \in Busy : a.pend[t] = None}, FALSE, w2, a.rd, a.pend)
    [] s.op = "RUnlock" ->
         /\ UNCHANGED <<cfg, dead>> /\ ~dead /\ s.t \notin Busy /\ s.t \in rd[s.e]
         /\ LET r2 == [rd EXCEPT ![s.e] = @ \ {s.t}]
                W == {t \in Threads : pend[t] = [kind |-> "W", e |-> s.e]} IN
            IF r2[s.e] = {} /\ W # {}
              THEN \E w \in W :
                     /\ wr' = [wr EXCEPT ![s.e] = w] /\ pend' = [pend EXCEPT ![w] = None] /\ rd' = r2
                     /\ Out(s, {s.t, w}, FALSE, wr', r2, pend')
              ELSE rd' = r2 /\ UNCHANGED <<wr, pend>> /\ Out(s, {s.t}, FALSE, wr, r2, pend)
    [] s.op = "Misuse" ->   \* Unlock (s.w) of an entity no writer holds / RUnlock (~s.w) of an entity no reader holds: panics
         /\ UNCHANGED <<cfg, wr, rd, pend>> /\ ~dead /\ s.t \notin Busy
         /\ s.t = CHOOSE x \in Threads \ Busy : \A y \in Threads \ Busy : x <= y     \* (symmetry: the smallest idle thread)
         /\ Cardinality(Busy) <= 1                                                     \* (bound on abandoned parked goroutines)
         /\ IF s.w THEN wr[s.e] = 0 ELSE rd[s.e] = {}
         /\ dead' = TRUE /\ Out(s, {}, TRUE, wr, rd, pend)

Stimuli == [op : {"Lock", "Unlock", "RUnlock"}, t : Threads, e : Entities]
           \cup [op : {"RLock"}, t : Threads, ids : AscSeqs]
           \cup [op : {"Misuse"}, t : Threads, e : Entities, w : BOOLEAN]
Next == \E s \in Stimuli : Do(s)
Spec == Init /\ [][Next]_vars

Exclusion == \A e \in Entities : wr[e] # 0 => rd[e] = {}
NoLostWakeup == \A t \in Threads :
                  /\ pend[t].kind = "W" => (wr[pend[t].e] # 0 \/ rd[pend[t].e] # {})
                  /\ pend[t].kind = "R" => wr[Head(pend[t].rest)] # 0
(* acquiring along the order never deadlocks: while somebody is blocked, somebody who is not blocked holds a lock *)
NoDeadlock == Busy # {} => \E t \in Threads \ Busy : HeldBy(t) # {}
===========================================================================
