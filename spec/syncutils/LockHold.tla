----------------------------- MODULE LockHold -----------------------------
(* Trace specification for free-running contention on StarvingMutex / DAGMutex (code ->    *)
(* model): worker goroutines log "acq" right after a lock call returned and "rel" right     *)
(* before the matching unlock call, both while holding the lock, with one global sequence   *)
(* counter.  Every recorded sequence must be a behaviour of a reader/writer lock per entity *)
(* (C17 exclusion); the final line of each trace reports whether all workers finished       *)
(* (no lost wake-up / no deadlock under acyclic acquisition).                               *)
EXTENDS Integers, Sequences, FiniteSets, TLC

CONSTANTS Threads, Entities
VARIABLES cfg, wr, rd, ev
vars == <<cfg, wr, rd, ev>>
View == <<cfg, wr, rd>>
Cfgs == [kind : {"StarvingMutex", "DAGMutex"}, threads : 1..16]

Init == cfg \in Cfgs /\ wr = [e \in Entities |-> 0] /\ rd = [e \in Entities |-> {}] /\ ev = [op |-> "reset", cfg |-> cfg]

Do(s) ==
  CASE s.op = "reset" -> cfg' = s.cfg /\ wr' = [e \in Entities |-> 0] /\ rd' = [e \in Entities |-> {}] /\ ev' = s
    [] s.op = "acqW" -> /\ wr[s.e] = 0 /\ rd[s.e] = {}          \* a write lock is granted only when nothing is held
                        /\ wr' = [wr EXCEPT ![s.e] = s.t] /\ UNCHANGED <<cfg, rd>> /\ ev' = s
    [] s.op = "relW" -> /\ wr[s.e] = s.t
                        /\ wr' = [wr EXCEPT ![s.e] = 0] /\ UNCHANGED <<cfg, rd>> /\ ev' = s
    [] s.op = "acqR" -> /\ wr[s.e] = 0 /\ s.t \notin rd[s.e]    \* a read lock is granted only when no writer holds it
                        /\ rd' = [rd EXCEPT ![s.e] = @ \cup {s.t}] /\ UNCHANGED <<cfg, wr>> /\ ev' = s
    [] s.op = "relR" -> /\ s.t \in rd[s.e]
                        /\ rd' = [rd EXCEPT ![s.e] = @ \ {s.t}] /\ UNCHANGED <<cfg, wr>> /\ ev' = s
    [] s.op = "end"  -> /\ s.finished = cfg.threads             \* every worker finished its script: nothing lost, no deadlock
                        /\ \A e \in Entities : wr[e] = 0 /\ rd[e] = {}
                        /\ UNCHANGED <<cfg, wr, rd>> /\ ev' = s

Stimuli == [op : {"acqW", "relW", "acqR", "relR"}, t : Threads, e : Entities]
Next == \E s \in Stimuli : Do(s)
Spec == Init /\ [][Next]_vars
Exclusion == \A e \in Entities : wr[e] # 0 => rd[e] = {}
===========================================================================
