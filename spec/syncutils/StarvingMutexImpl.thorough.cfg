SPECIFICATION Spec
CONSTANTS
  Threads = {1, 2, 3}
  MaxPairs = 2
  Variant = "code"
INVARIANTS TypeOK Exclusion CountersExact
PROPERTIES NoLostWakeup
