----------------------------- MODULE StackRun -----------------------------
(* Trace specification for free-running rounds on syncutils.Stack (code -> model), property C17 "condition waits /  *)
(* no lost wake-up": consumers (PopOrWait), producers (Push) and condition waiters (WaitIsEmpty, WaitSizeIsBelow,   *)
(* WaitSizeIsAbove) run as goroutines; every call logs "begin" before it is made and "ret" after it returned, with   *)
(* one global sequence counter.  When the whole process has become quiescent the driver logs "final": the size of    *)
(* the stack and the calls that are still blocked.  The specification keeps what the log implies:                    *)
(*   - an element is popped at most once and only after its push began (conservation)                                *)
(*   - at the quiescent end NO call is blocked whose wake-up condition holds for the final size: a consumer is       *)
(*     blocked only on an empty stack, WaitIsEmpty only on a non-empty one, WaitSizeIsBelow(th) only while           *)
(*     size >= th, WaitSizeIsAbove(th) only while size <= th (the Stack broadcasts after EVERY change, on every      *)
(*     path - no wake-up is lost)                                                                                    *)
(*   - size = pushes that returned - pops that returned                                                              *)
EXTENDS Integers, Sequences, FiniteSets, TLC

CONSTANTS Calls, Elems
VARIABLES cfg, pending, pushed, popped, ev
vars == <<cfg, pending, pushed, popped, ev>>
View == <<cfg, pending, pushed, popped>>
Cfgs == [procs : {1, 2, 16}]
None == [kind |-> "none", a |-> 0]

Init == cfg \in Cfgs /\ pending = [c \in Calls |-> None] /\ pushed = {} /\ popped = {} /\ ev = [op |-> "reset", cfg |-> cfg]

Holds(k, a, size) == CASE k = "pop" -> size > 0          \* the wake-up condition of a blocked call of kind k with argument a
                       [] k = "empty" -> size = 0
                       [] k = "below" -> size < a
                       [] k = "above" -> size > a
                       [] OTHER -> TRUE                     \* push never blocks

Do(s) ==
  CASE s.op = "reset" -> cfg' = s.cfg /\ pending' = [c \in Calls |-> None] /\ pushed' = {} /\ popped' = {} /\ ev' = s
    [] s.op = "begin" -> /\ pending[s.c] = None
                         /\ pending' = [pending EXCEPT ![s.c] = [kind |-> s.kind, a |-> s.a]]
                         /\ pushed' = (IF s.kind = "push" THEN pushed \cup {s.a} ELSE pushed)   \* from now on the element may be seen
                         /\ (s.kind = "push" => s.a \notin pushed)
                         /\ UNCHANGED <<cfg, popped>> /\ ev' = s
    [] s.op = "ret" ->   /\ pending[s.c] # None
                         /\ pending' = [pending EXCEPT ![s.c] = None]
                         /\ IF pending[s.c].kind = "pop"
                              THEN /\ s.x \in pushed \ popped                 \* an element that was pushed and not popped before
                                   /\ popped' = popped \cup {s.x}
                              ELSE s.x = 0 /\ UNCHANGED popped
                         /\ UNCHANGED <<cfg, pushed>> /\ ev' = s
    [] s.op = "final" -> /\ s.hung = FALSE                                   \* the process became quiescent
                         /\ {c \in Calls : pending[c] # None} = {s.blocked[i] : i \in DOMAIN s.blocked}
                         /\ s.size = Cardinality(pushed) - Cardinality(popped)
                         /\ \A c \in Calls : pending[c] # None =>
                              /\ pending[c].kind # "push"
                              /\ ~Holds(pending[c].kind, pending[c].a, s.size)     \* no lost wake-up
                         /\ UNCHANGED <<cfg, pending, pushed, popped>> /\ ev' = s

Stimuli == [op : {"begin"}, c : Calls, kind : {"push", "pop", "empty", "below", "above"}, a : Elems \cup (0..3)]
           \cup [op : {"ret"}, c : Calls, x : Elems \cup {0}]
Next == \E s \in Stimuli : Do(s)
Spec == Init /\ [][Next]_vars
Conservation == popped \subseteq pushed
Small == TRUE
===========================================================================
