CONSTANTS
  Threads = {1, 2, 3}
  NegLo = 1
  MaxV = 2
INVARIANTS WaitIff
