CONSTANTS
  Calls = {1, 2}
  Elems = {101}
INVARIANTS Conservation
CONSTRAINT Small
