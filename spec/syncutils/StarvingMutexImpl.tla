------------------------ MODULE StarvingMutexImpl ------------------------
(* Implementation-level model of runtime/syncutils.StarvingMutex: the internal sync.Mutex,   *)
(* the three counters and the two condition variables, with every unlock-then-signal window  *)
(* as two separate steps and Signal waking an arbitrary waiter.  TLC explores ALL            *)
(* interleavings of threads that each run a well-formed script of lock/unlock pairs and      *)
(* checks the API-level property C17: exclusion, and no lost wake-up (every thread finishes  *)
(* under weak fairness, i.e. every blocked Lock/RLock is granted once holders released).     *)
EXTENDS Integers, Sequences, FiniteSets, TLC

CONSTANTS Threads, MaxPairs,
          Variant      \* "code" = as written; mutations used as negative controls:
                       \* "nosignal_runlock" (RUnlock forgets to signal a pending writer)
                       \* "rlock_ignores_writer" (RLock does not wait for an active writer)

Kinds == {"R", "W"}
RECURSIVE SeqsUpTo(_)
SeqsUpTo(n) == IF n = 0 THEN {<<>>} ELSE LET S == SeqsUpTo(n - 1) IN S \cup {Append(s, k) : s \in S, k \in Kinds}
ScriptSet == SeqsUpTo(MaxPairs) \ {<<>>}

VARIABLES script,        \* thread -> sequence of "R"/"W" (each = lock, critical section, unlock)
          idx,           \* thread -> index of the current pair
          pc,            \* thread -> program counter
          mu,            \* holder of the internal mutex, or 0
          readersActive, writerActive, pendingWriters,
          rq, wq,        \* threads waiting on readerCond / writerCond
          holdR, holdW   \* API-level holders (between lock return and unlock call)
vars == <<script, idx, pc, mu, readersActive, writerActive, pendingWriters, rq, wq, holdR, holdW>>

Init == /\ script \in [Threads -> ScriptSet]
        /\ idx = [t \in Threads |-> 1]
        /\ pc = [t \in Threads |-> "start"]
        /\ mu = 0 /\ readersActive = 0 /\ writerActive = FALSE /\ pendingWriters = 0
        /\ rq = {} /\ wq = {} /\ holdR = {} /\ holdW = {}

Kind(t) == script[t][idx[t]]
Goto(t, l) == pc' = [pc EXCEPT ![t] = l]

(* ---- dispatch ---- *)
Start(t) == /\ pc[t] = "start"
            /\ IF idx[t] > Len(script[t]) THEN Goto(t, "done") ELSE Goto(t, IF Kind(t) = "R" THEN "rl_acq" ELSE "wl_acq")
            /\ UNCHANGED <<script, idx, mu, readersActive, writerActive, pendingWriters, rq, wq, holdR, holdW>>

(* ---- RLock ---- *)
RLAcq(t) == /\ pc[t] = "rl_acq" /\ mu = 0 /\ mu' = t /\ Goto(t, "rl_test")
            /\ UNCHANGED <<script, idx, readersActive, writerActive, pendingWriters, rq, wq, holdR, holdW>>
RLTest(t) == /\ pc[t] = "rl_test" /\ mu = t
             /\ IF writerActive /\ Variant # "rlock_ignores_writer"
                  THEN /\ rq' = rq \cup {t} /\ mu' = 0 /\ Goto(t, "rl_wait")     \* Cond.Wait: unlock + enqueue atomically
                       /\ UNCHANGED <<readersActive, holdR>>
                  ELSE /\ readersActive' = readersActive + 1 /\ mu' = 0 /\ holdR' = holdR \cup {t}
                       /\ Goto(t, "rcs") /\ UNCHANGED rq
             /\ UNCHANGED <<script, idx, writerActive, pendingWriters, wq, holdW>>
RLWoken(t) == /\ pc[t] = "rl_wait" /\ t \notin rq /\ mu = 0 /\ mu' = t /\ Goto(t, "rl_test")   \* re-lock after wake-up
              /\ UNCHANGED <<script, idx, readersActive, writerActive, pendingWriters, rq, wq, holdR, holdW>>

(* ---- RUnlock ---- *)
RCS(t) == /\ pc[t] = "rcs" /\ holdR' = holdR \ {t} /\ Goto(t, "ru_acq")     \* leaves the critical section, calls RUnlock
          /\ UNCHANGED <<script, idx, mu, readersActive, writerActive, pendingWriters, rq, wq, holdW>>
RUAcq(t) == /\ pc[t] = "ru_acq" /\ mu = 0
            /\ readersActive' = readersActive - 1
            /\ IF readersActive' = 0 /\ pendingWriters > 0 /\ Variant # "nosignal_runlock"
                 THEN Goto(t, "ru_sig") ELSE Goto(t, "next")
            /\ UNCHANGED <<script, idx, mu, writerActive, pendingWriters, rq, wq, holdR, holdW>>   \* lock+unlock of mu in one step
RUSig(t) == /\ pc[t] = "ru_sig"
            /\ (IF wq = {} THEN wq' = wq ELSE \E w \in wq : wq' = wq \ {w})
            /\ Goto(t, "next")
            /\ UNCHANGED <<script, idx, mu, readersActive, writerActive, pendingWriters, rq, holdR, holdW>>

(* ---- Lock ---- *)
WLAcq(t) == /\ pc[t] = "wl_acq" /\ mu = 0 /\ mu' = t /\ pendingWriters' = pendingWriters + 1 /\ Goto(t, "wl_test")
            /\ UNCHANGED <<script, idx, readersActive, writerActive, rq, wq, holdR, holdW>>
WLTest(t) == /\ pc[t] = "wl_test" /\ mu = t
             /\ IF writerActive \/ readersActive > 0
                  THEN /\ wq' = wq \cup {t} /\ mu' = 0 /\ Goto(t, "wl_wait")
                       /\ UNCHANGED <<pendingWriters, writerActive, holdW>>
                  ELSE /\ pendingWriters' = pendingWriters - 1 /\ writerActive' = TRUE /\ mu' = 0
                       /\ holdW' = holdW \cup {t} /\ Goto(t, "wcs") /\ UNCHANGED wq
             /\ UNCHANGED <<script, idx, readersActive, rq, holdR>>
WLWoken(t) == /\ pc[t] = "wl_wait" /\ t \notin wq /\ mu = 0 /\ mu' = t /\ Goto(t, "wl_test")
              /\ UNCHANGED <<script, idx, readersActive, writerActive, pendingWriters, rq, wq, holdR, holdW>>

(* ---- Unlock ---- *)
WCS(t) == /\ pc[t] = "wcs" /\ holdW' = holdW \ {t} /\ Goto(t, "wu_acq")
          /\ UNCHANGED <<script, idx, mu, readersActive, writerActive, pendingWriters, rq, wq, holdR>>
WUAcq(t) == /\ pc[t] = "wu_acq" /\ mu = 0
            /\ writerActive' = FALSE
            /\ Goto(t, IF pendingWriters = 0 THEN "wu_bcast" ELSE "wu_sig")
            /\ UNCHANGED <<script, idx, mu, readersActive, pendingWriters, rq, wq, holdR, holdW>>
WUBcast(t) == /\ pc[t] = "wu_bcast" /\ rq' = {} /\ Goto(t, "next")
              /\ UNCHANGED <<script, idx, mu, readersActive, writerActive, pendingWriters, wq, holdR, holdW>>
WUSig(t) == /\ pc[t] = "wu_sig"
            /\ (IF wq = {} THEN wq' = wq ELSE \E w \in wq : wq' = wq \ {w})
            /\ Goto(t, "next")
            /\ UNCHANGED <<script, idx, mu, readersActive, writerActive, pendingWriters, rq, holdR, holdW>>

NextPair(t) == /\ pc[t] = "next" /\ idx' = [idx EXCEPT ![t] = @ + 1] /\ Goto(t, "start")
               /\ UNCHANGED <<script, mu, readersActive, writerActive, pendingWriters, rq, wq, holdR, holdW>>

Step(t) == \/ Start(t) \/ RLAcq(t) \/ RLTest(t) \/ RLWoken(t) \/ RCS(t) \/ RUAcq(t) \/ RUSig(t)
           \/ WLAcq(t) \/ WLTest(t) \/ WLWoken(t) \/ WCS(t) \/ WUAcq(t) \/ WUBcast(t) \/ WUSig(t) \/ NextPair(t)
Next == \E t \in Threads : Step(t)
Spec == Init /\ [][Next]_vars /\ \A t \in Threads : WF_vars(Step(t))

TypeOK == /\ readersActive \in 0..Cardinality(Threads) /\ pendingWriters \in 0..Cardinality(Threads)
          /\ mu \in Threads \cup {0}
Exclusion == /\ Cardinality(holdW) <= 1
             /\ holdW # {} => holdR = {}
(* counters agree with the API-level holders whenever nobody is inside the internal mutex *)
CountersExact == mu = 0 => /\ writerActive = (\E t \in Threads : pc[t] \in {"wcs", "wu_acq"})
                           /\ readersActive = Cardinality({t \in Threads : pc[t] \in {"rcs", "ru_acq"}})
AllDone == \A t \in Threads : pc[t] = "done"
NoLostWakeup == <>AllDone
===========================================================================
