CONSTANTS
  Calls = {1, 2, 3, 4, 5, 6, 7, 8, 9, 10, 11, 12}
  Elems = {101, 102, 103, 104, 105, 106}
INVARIANTS Conservation
