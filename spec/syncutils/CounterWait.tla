---------------------------- MODULE CounterWait ----------------------------
(* runtime/syncutils.Counter observed at quiescent points: WaitIsZero / WaitIsBelow /       *)
(* WaitIsAbove return if and only if their condition has held since the call (C17).         *)
EXTENDS Integers, Sequences, FiniteSets, SequencesExt, TLC

CONSTANTS Threads, NegLo, MaxV   \* values range over -NegLo..MaxV (cfg files cannot hold negative numbers)
MinV == 0 - NegLo
VARIABLES cfg, value, wait, ev
vars == <<cfg, value, wait, ev>>
View == <<cfg, value, wait>>
Cfgs == {[kind |-> "Counter"]}
None == [kind |-> "none", th |-> 0]
SSeq(S) == SetToSortSeq(S, <)
Busy == {t \in Threads : wait[t] # None}
Holds(w, v) == CASE w.kind = "below" -> v < w.th
                 [] w.kind = "above" -> v > w.th
                 [] w.kind = "upd" -> FALSE      \* an Update that is held before it takes effect (see UpdateHold): no value releases it
                 [] OTHER -> TRUE

Init == cfg \in Cfgs /\ value = 0 /\ wait = [t \in Threads |-> None] /\ ev = [op |-> "reset", cfg |-> cfg]

(* after the value changed to v: every waiter whose condition holds returns *)
Wake(v) == [t \in Threads |-> IF wait[t] # None /\ Holds(wait[t], v) THEN None ELSE wait[t]]
Woken(v) == {t \in Busy : Holds(wait[t], v)}
Out(s, r, ret, v, w) == ev' = [s EXCEPT !.res = [r |-> r, ret |-> SSeq(ret)],
                                        !.st = [value |-> v, blocked |-> SSeq({t \in Threads : w[t] # None})]]
E(s) == s @@ [res |-> 0, st |-> 0]

Do(s0) ==
  LET s == IF s0.op = "reset" THEN s0 ELSE E(s0) IN
  CASE s.op = "reset" -> cfg' = s.cfg /\ value' = 0 /\ wait' = [t \in Threads |-> None] /\ ev' = s
    [] s.op = "Set" ->      \* returns the old value
         /\ UNCHANGED cfg /\ s.t \notin Busy
         /\ value' = s.v /\ wait' = Wake(s.v) /\ Out(s, value, {s.t} \cup Woken(s.v), s.v, wait')
    [] s.op = "Update" ->   \* returns the new value
         /\ UNCHANGED cfg /\ s.t \notin Busy /\ value + s.d \in MinV..MaxV
         /\ value' = value + s.d /\ wait' = Wake(value') /\ Out(s, value', {s.t} \cup Woken(value'), value', wait')
    [] s.op = "UpdateHold" ->   \* Update(d) is called and held at the yield point before the value lock: nothing has happened yet
         /\ UNCHANGED <<cfg, value>> /\ s.t \notin Busy
         /\ wait' = [wait EXCEPT ![s.t] = [kind |-> "upd", th |-> s.d]] /\ Out(s, 0, {}, value, wait')
    [] s.op = "UpdateGo" ->     \* the held Update goes on: it takes effect now, on whatever the value has become meanwhile,
                                \* and wakes every waiter whose condition holds then
         /\ UNCHANGED cfg /\ wait[s.t].kind = "upd" /\ value + wait[s.t].th \in MinV..MaxV
         /\ value' = value + wait[s.t].th
         /\ wait' = [t \in Threads |-> IF t = s.t \/ (wait[t] # None /\ Holds(wait[t], value')) THEN None ELSE wait[t]]
         /\ Out(s, value', {s.t} \cup Woken(value'), value', wait')
    [] s.op = "Get" ->
         /\ UNCHANGED <<cfg, value, wait>> /\ s.t \notin Busy /\ Out(s, value, {s.t}, value, wait)
    [] s.op \in {"WaitIsBelow", "WaitIsAbove"} ->
         /\ UNCHANGED <<cfg, value>> /\ s.t \notin Busy
         /\ LET w == [kind |-> IF s.op = "WaitIsBelow" THEN "below" ELSE "above", th |-> s.th] IN
            IF Holds(w, value)
              THEN UNCHANGED wait /\ Out(s, 0, {s.t}, value, wait)
              ELSE wait' = [wait EXCEPT ![s.t] = w] /\ Out(s, 0, {}, value, wait')
    [] s.op = "WaitIsZero" ->    \* = WaitIsBelow(1)
         /\ UNCHANGED <<cfg, value>> /\ s.t \notin Busy
         /\ IF value < 1
              THEN UNCHANGED wait /\ Out(s, 0, {s.t}, value, wait)
              ELSE wait' = [wait EXCEPT ![s.t] = [kind |-> "below", th |-> 1]] /\ Out(s, 0, {}, value, wait')

Stimuli == [op : {"Set"}, t : Threads, v : MinV..MaxV] \cup [op : {"Update"}, t : Threads, d : {-2, -1, 0, 1, 2}]
           \cup [op : {"UpdateHold"}, t : Threads, d : {-1, 1}] \cup [op : {"UpdateGo"}, t : Threads]
           \cup [op : {"Get", "WaitIsZero"}, t : Threads] \cup [op : {"WaitIsBelow", "WaitIsAbove"}, t : Threads, th : MinV..MaxV]
Next == \E s \in Stimuli : Do(s)
Spec == Init /\ [][Next]_vars

(* a thread stays blocked exactly while its condition is false *)
WaitIff == \A t \in Threads : wait[t] # None => ~Holds(wait[t], value)
============================================================================
