----------------------------- MODULE StackWait -----------------------------
(* runtime/syncutils.Stack (a FIFO despite its name) observed at quiescent points: Push/Pop, *)
(* PopOrWait(cond) / WaitIsEmpty / WaitSizeIsBelow / WaitSizeIsAbove return if and only if   *)
(* their condition has held since the call; SignalShutdown makes PopOrWait re-evaluate cond. *)
EXTENDS Integers, Sequences, FiniteSets, SequencesExt, TLC

CONSTANTS Threads, Vals, MaxLen
VARIABLES cfg, q, flag, wait, ev
vars == <<cfg, q, flag, wait, ev>>
View == <<cfg, q, flag, wait>>
Cfgs == {[kind |-> "Stack"]}
None == [kind |-> "none", th |-> 0]
SSeq(S) == SetToSortSeq(S, <)
Busy == {t \in Threads : wait[t] # None}
Opt(b, v) == IF b THEN <<v>> ELSE <<>>

Init == cfg \in Cfgs /\ q = <<>> /\ flag = TRUE /\ wait = [t \in Threads |-> None] /\ ev = [op |-> "reset", cfg |-> cfg]

St(qq, w) == [size |-> Len(qq), blocked |-> SSeq({t \in Threads : w[t] # None})]
E(s) == s @@ [res |-> 0, st |-> 0]
Out(s, r, ret, qq, w) == ev' = [s EXCEPT !.res = [r |-> r, ret |-> ret], !.st = St(qq, w)]

(* ret = sequence of [t, r] records of the threads that returned in this step, sorted by thread *)
RetSeq(S) == SetToSortSeq(S, LAMBDA a, b : a.t < b.t)

(* Size waiters re-check after every change; PopOrWait waiters: after a Push exactly one of them (any) gets *)
(* the element (all are woken by Broadcast, one wins, the others wait again).                            *)
SizeWake(qq, w) == [t \in Threads |->
                      IF w[t].kind = "below" /\ Len(qq) < w[t].th THEN None
                      ELSE IF w[t].kind = "above" /\ Len(qq) > w[t].th THEN None ELSE w[t]]
SizeWoken(qq, w) == {t \in Threads : w[t] # None /\ w[t].kind \in {"below", "above"} /\ SizeWake(qq, w)[t] = None}

Do(s0) ==
  LET s == IF s0.op = "reset" THEN s0 ELSE E(s0) IN
  CASE s.op = "reset" -> cfg' = s.cfg /\ q' = <<>> /\ flag' = TRUE /\ wait' = [t \in Threads |-> None] /\ ev' = s
    [] s.op = "Push" ->
         /\ UNCHANGED <<cfg, flag>> /\ s.t \notin Busy /\ Len(q) < MaxLen
         /\ LET P == {t \in Threads : wait[t].kind = "pop"} IN
            IF P = {}
              THEN LET q2 == Append(q, s.v) w2 == SizeWake(q2, wait) IN
                   /\ q' = q2 /\ wait' = w2
                   /\ Out(s, 0, RetSeq({[t |-> s.t, r |-> <<>>]} \cup {[t |-> x, r |-> <<>>] : x \in SizeWoken(q2, wait)}), q2, w2)
              ELSE \E p \in P :   \* (P # {} implies q = <<>>): p pops the new element at once; the size goes 0 -> 1 -> 0
                   \* all pop waiters are woken (Broadcast): p wins the element, the others find the queue empty again and
                   \* re-evaluate their wait condition: they keep waiting if it still holds, otherwise they return (no element)
                   LET Losers == IF flag THEN {} ELSE P \ {p}
                       w1 == [t \in Threads |-> IF t = p \/ t \in Losers THEN None ELSE wait[t]]
                       \* "above" waiters with threshold 0 may or may not observe size 1 before p removes it: both allowed
                       A == {t \in Threads : w1[t].kind = "above" /\ w1[t].th = 0} IN
                   \E Seen \in SUBSET A :
                     LET w2 == [t \in Threads |-> IF t \in Seen THEN None ELSE w1[t]] IN
                     /\ q' = q /\ wait' = w2
                     /\ Out(s, 0, RetSeq({[t |-> s.t, r |-> <<>>], [t |-> p, r |-> <<s.v>>]} \cup {[t |-> x, r |-> <<>>] : x \in Seen \cup Losers}), q, w2)
    [] s.op = "Pop" ->
         /\ UNCHANGED <<cfg, flag>> /\ s.t \notin Busy
         /\ IF q = <<>>
              THEN UNCHANGED <<q, wait>> /\ Out(s, 0, RetSeq({[t |-> s.t, r |-> <<>>]}), q, wait)
              ELSE LET q2 == Tail(q) w2 == SizeWake(q2, wait) IN
                   /\ q' = q2 /\ wait' = w2
                   /\ Out(s, 0, RetSeq({[t |-> s.t, r |-> <<Head(q)>>]} \cup {[t |-> x, r |-> <<>>] : x \in SizeWoken(q2, wait)}), q2, w2)
    [] s.op = "PopOrWait" ->    \* waitCondition = the shared flag
         /\ UNCHANGED <<cfg, flag>> /\ s.t \notin Busy
         /\ IF q # <<>>
              THEN LET q2 == Tail(q) w2 == SizeWake(q2, wait) IN
                   /\ q' = q2 /\ wait' = w2
                   /\ Out(s, 0, RetSeq({[t |-> s.t, r |-> <<Head(q)>>]} \cup {[t |-> x, r |-> <<>>] : x \in SizeWoken(q2, wait)}), q2, w2)
              ELSE IF flag
                     THEN /\ wait' = [wait EXCEPT ![s.t] = [kind |-> "pop", th |-> 0]] /\ UNCHANGED q
                          /\ Out(s, 0, <<>>, q, wait')
                     ELSE UNCHANGED <<q, wait>> /\ Out(s, 0, RetSeq({[t |-> s.t, r |-> <<>>]}), q, wait)
    [] s.op = "SetFlag" ->      \* harness-side: changes what waitCondition returns (no wake-up by itself)
         /\ UNCHANGED <<cfg, q, wait>> /\ s.t \notin Busy /\ flag' = s.b
         /\ Out(s, 0, RetSeq({[t |-> s.t, r |-> <<>>]}), q, wait)
    [] s.op = "SignalShutdown" ->   \* wakes PopOrWait waiters; they re-evaluate the condition
         /\ UNCHANGED <<cfg, q, flag>> /\ s.t \notin Busy
         /\ LET P == {t \in Threads : wait[t].kind = "pop"}
                w2 == IF flag THEN wait ELSE [t \in Threads |-> IF t \in P THEN None ELSE wait[t]] IN
            /\ wait' = w2
            /\ Out(s, 0, RetSeq({[t |-> s.t, r |-> <<>>]} \cup (IF flag THEN {} ELSE {[t |-> x, r |-> <<>>] : x \in P})), q, w2)
    [] s.op \in {"WaitSizeIsBelow", "WaitSizeIsAbove"} ->
         /\ UNCHANGED <<cfg, q, flag>> /\ s.t \notin Busy
         /\ LET ok == IF s.op = "WaitSizeIsBelow" THEN Len(q) < s.th ELSE Len(q) > s.th IN
            IF ok THEN UNCHANGED wait /\ Out(s, 0, RetSeq({[t |-> s.t, r |-> <<>>]}), q, wait)
            ELSE /\ wait' = [wait EXCEPT ![s.t] = [kind |-> IF s.op = "WaitSizeIsBelow" THEN "below" ELSE "above", th |-> s.th]]
                 /\ Out(s, 0, <<>>, q, wait')
    [] s.op = "Size" ->
         /\ UNCHANGED <<cfg, q, flag, wait>> /\ s.t \notin Busy /\ Out(s, Len(q), RetSeq({[t |-> s.t, r |-> <<>>]}), q, wait)

Stimuli == [op : {"Push"}, t : Threads, v : Vals] \cup [op : {"Pop", "PopOrWait", "SignalShutdown", "Size"}, t : Threads]
           \cup [op : {"SetFlag"}, t : Threads, b : BOOLEAN]
           \cup [op : {"WaitSizeIsBelow", "WaitSizeIsAbove"}, t : Threads, th : 0..MaxLen]
Next == \E s \in Stimuli : Do(s)
Spec == Init /\ [][Next]_vars

WaitIff == \A t \in Threads :
             /\ wait[t].kind = "below" => ~(Len(q) < wait[t].th)
             /\ wait[t].kind = "above" => ~(Len(q) > wait[t].th)
             /\ wait[t].kind = "pop" => q = <<>>
============================================================================
