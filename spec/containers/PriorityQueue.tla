---------------------------- MODULE PriorityQueue ----------------------------
(* ds/priorityqueue.PriorityQueue over ds/generalheap: "pops in priority order with           *)
(* idempotent removal handles" (C12).                                                         *)
(*                                                                                            *)
(* Abstract model: the queue is a set of live elements 1..H, element h carrying priority      *)
(* pri[h] in 1..P (pri[h] = 0: h is not in the queue).  Push(h, p) inserts element h (only    *)
(* when h is not queued, so the model stays finite) and hands the removal handle of h to the  *)
(* driver; Remove(h) invokes the most recent handle of h - live, stale (element already       *)
(* popped or removed) or never issued (no-op in the adapter).  The element value stored in    *)
(* the real queue is the pair <<h, p>>, so results identify the element and its priority.     *)
(* Equal priorities: any of the minimal elements may be peeked / popped.                      *)
(*                                                                                            *)
(* Two SUTs share this module: "PriorityQueue" (the public type) and "GeneralHeap"            *)
(* (generalheap.Heap driven through container/heap the way PriorityQueue does it, with the    *)
(* elements' indices visible; st.ok is the adapter's structural check "every queued element's *)
(* Index() is its position, every dequeued element's Index() is -1, heap order holds").       *)
EXTENDS Integers, Sequences, FiniteSets, TLC

CONSTANTS H, P
VARIABLES cfg, pri, ev
vars == <<cfg, pri, ev>>
View == <<cfg, pri>>

Hs == 1..H
Live(f) == {h \in Hs : f[h] # 0}
MinSet(f) == {h \in Live(f) : \A g \in Live(f) : f[h] <= f[g]}
El(f, h) == <<h, f[h]>>
Peeks(f) == IF Live(f) = {} THEN {<<>>} ELSE {<<El(f, h)>> : h \in MinSet(f)}
(* all orders in which the elements of S can leave the queue: priority never decreases *)
Orders(f, S) == LET n == Cardinality(S) IN
  {q \in [1..n -> S] : /\ \A i, j \in 1..n : i # j => q[i] # q[j]
                       /\ \A i, j \in 1..n : i < j => f[q[i]] <= f[q[j]]}
Els(f, q) == [i \in 1..Len(q) |-> El(f, q[i])]

Empty == [h \in Hs |-> 0]
Cfgs == {[kind |-> "min-first"]}
Init == /\ cfg \in Cfgs
        /\ pri = Empty
        /\ ev = [op |-> "reset", cfg |-> cfg]

(* r = result, f = queue after the call.  st shows Size, IsEmpty and the PRIORITY of the element Peek    *)
(* returns (0 when empty) - which of several minimal elements is on top is not determined, its priority *)
(* is; keeping st deterministic keeps every state reachable over deterministic edges for the tour.       *)
MinP(f) == IF Live(f) = {} THEN 0 ELSE f[CHOOSE h \in MinSet(f) : TRUE]
Out(s, r, f) == /\ UNCHANGED cfg
                /\ pri' = f
                /\ ev' = [res |-> r, st |-> [size |-> Cardinality(Live(f)), empty |-> Live(f) = {}, minp |-> MinP(f), ok |-> TRUE]] @@ s

Do(s) ==
  CASE s.op = "reset" -> cfg' = s.cfg /\ pri' = Empty /\ ev' = s
    [] s.op = "Push" -> pri[s.h] = 0 /\ Out(s, "handle", [pri EXCEPT ![s.h] = s.p])
    [] s.op = "Remove" ->       \* res = by how much Size() dropped
         Out(s, IF pri[s.h] # 0 THEN 1 ELSE 0, [pri EXCEPT ![s.h] = 0])
    [] s.op = "Peek" -> \E pk \in Peeks(pri) : Out(s, pk, pri)
    [] s.op = "Pop" ->
         IF Live(pri) = {} THEN Out(s, <<>>, pri)
         ELSE \E h \in MinSet(pri) : Out(s, <<El(pri, h)>>, [pri EXCEPT ![h] = 0])
    [] s.op = "PopUntil" ->     \* everything with priority <= s.p, in priority order
         LET S == {h \in Live(pri) : pri[h] <= s.p} IN
         \E q \in Orders(pri, S) : Out(s, Els(pri, q), [h \in Hs |-> IF h \in S THEN 0 ELSE pri[h]])
    [] s.op = "PopAll" ->
         \E q \in Orders(pri, Live(pri)) : Out(s, Els(pri, q), Empty)
    [] s.op = "Size" -> Out(s, Cardinality(Live(pri)), pri)
    [] s.op = "IsEmpty" -> Out(s, Live(pri) = {}, pri)

Stimuli == [op : {"Push"}, h : Hs, p : 1..P]
      \cup [op : {"Remove"}, h : Hs]
      \cup [op : {"PopUntil"}, p : 0..(P + 1)]
      \cup [op : {"Peek", "Pop", "PopAll", "Size", "IsEmpty"}]
Next == \E s \in Stimuli : Do(s)
Spec == Init /\ [][Next]_vars

-----------------------------------------------------------------------------
TypeOK == pri \in [Hs -> 0..P]

(* priority order: whatever leaves the queue is not larger than anything that stays, batches  *)
(* leave in non-decreasing order, PopUntil takes exactly the elements <= p                    *)
Popped == IF ev.op = "Pop" THEN ev.res
          ELSE IF ev.op \in {"PopUntil", "PopAll"} THEN ev.res ELSE <<>>
PriorityOrder ==
  /\ \A i \in 1..Len(Popped) : \A g \in Live(pri) : Popped[i][2] <= pri[g]
  /\ \A i, j \in 1..Len(Popped) : i < j => Popped[i][2] <= Popped[j][2]
  /\ ev.op = "PopUntil" => /\ \A i \in 1..Len(ev.res) : ev.res[i][2] <= ev.p
                           /\ \A g \in Live(pri) : pri[g] > ev.p
  /\ ev.op = "PopAll" => Live(pri) = {}
  /\ (ev.op = "Pop" /\ ev.res = <<>>) => Live(pri) = {}
  /\ ev.op = "Peek" => \A i \in 1..Len(ev.res) : \A g \in Live(pri) : ev.res[i][2] <= pri[g]

(* nothing is popped twice, nothing popped is still queued, popped elements carry the priority they were pushed with *)
PoppedAreGone == \A i \in 1..Len(Popped) : pri[Popped[i][1]] = 0
SizeAgrees == ev.op # "reset" => /\ ev.st.size = Cardinality(Live(pri))
                                 /\ ev.st.empty = (ev.st.size = 0)
                                 /\ (ev.st.minp = 0) = ev.st.empty
                                 /\ \A g \in Live(pri) : ev.st.minp <= pri[g]

(* removal handles: removing takes exactly the handle's element out (if still queued), and    *)
(* invoking the same handle again - or a handle whose element was popped - changes nothing    *)
HandleRemoves == ev.op = "Remove" => pri[ev.h] = 0
HandleIdempotent ==
  [][(ev'.op = "Remove" /\ pri[ev'.h] = 0) => (pri' = pri /\ ev'.res = 0)]_vars
HandleExact ==
  [][ev'.op = "Remove" => \A g \in Hs : g # ev'.h => pri'[g] = pri[g]]_vars
=============================================================================
