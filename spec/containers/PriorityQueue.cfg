CONSTANTS
  H = 3
  P = 2
INVARIANTS TypeOK PriorityOrder PoppedAreGone SizeAgrees HandleRemoves
PROPERTIES HandleIdempotent HandleExact
