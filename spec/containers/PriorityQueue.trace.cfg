CONSTANTS
  H = 4
  P = 3
INVARIANTS TypeOK PriorityOrder PoppedAreGone SizeAgrees HandleRemoves
