---------------------------- MODULE RingBuffer ----------------------------
(* ds/ringbuffer.RingBuffer: "overwrite-oldest ring" (C12).                                   *)
(*                                                                                            *)
(* Abstract model: buf = the elements currently held, NEWEST FIRST (the order ToSlice         *)
(* documents), never longer than the capacity; Add puts the element in front and, when the    *)
(* buffer is full, drops the oldest (last) one.  adds is a history counter (number of Adds,   *)
(* saturating at Wraps * capacity): it does not influence any result, it only splits the      *)
(* states so that the exported transition system contains - and the tour on the real object   *)
(* therefore walks - every Add/ToSlice at every fill level of every lap up to Wraps complete  *)
(* wrap-arounds of the ring, plus the saturated "many laps" states.                           *)
EXTENDS Integers, Sequences, TLC

CONSTANTS Caps, Vals, Wraps
VARIABLES cfg, buf, adds, ev
vars == <<cfg, buf, adds, ev>>
View == <<cfg, buf, adds>>

Min2(a, b) == IF a < b THEN a ELSE b
Front(q, n) == SubSeq(q, 1, Min2(n, Len(q)))

Cfgs == [cap : Caps]
Init == /\ cfg \in Cfgs
        /\ buf = <<>> /\ adds = 0
        /\ ev = [op |-> "reset", cfg |-> cfg]

Out(s, r, b) == /\ UNCHANGED cfg
                /\ buf' = b
                /\ ev' = [res |-> r, st |-> [slice |-> b]] @@ s

Do(s) ==
  CASE s.op = "reset" -> cfg' = s.cfg /\ buf' = <<>> /\ adds' = 0 /\ ev' = s
    [] s.op = "Add" -> /\ Out(s, TRUE, Front(<<s.v>> \o buf, cfg.cap))
                       /\ adds' = Min2(adds + 1, Wraps * cfg.cap)
    [] s.op = "ToSlice" -> Out(s, buf, buf) /\ UNCHANGED adds

Stimuli == [op : {"Add"}, v : Vals] \cup [op : {"ToSlice"}]
Next == \E s \in Stimuli : Do(s)
Spec == Init /\ [][Next]_vars

-----------------------------------------------------------------------------
TypeOK == /\ buf \in Seq(Vals) /\ Len(buf) <= cfg.cap
          /\ adds \in 0..(Wraps * cfg.cap)
(* the ring holds exactly the last min(#adds, capacity) elements *)
Fill == Len(buf) = Min2(adds, cfg.cap)
(* Add: the new element is the newest, the rest is the previous content shifted by one, the   *)
(* oldest falls out exactly when the ring was full; ToSlice changes nothing                   *)
AddShifts == [][ev'.op = "Add" => /\ Head(buf') = ev'.v
                                  /\ Tail(buf') = Front(buf, cfg.cap - 1)
                                  /\ ev'.res = TRUE]_vars
ReadOnly == [][ev'.op = "ToSlice" => (buf' = buf /\ ev'.res = buf)]_vars
=============================================================================
