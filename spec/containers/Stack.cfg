CONSTANTS
  Vals = {1, 2, 3}
  MaxDepth = 3
INVARIANTS TypeOK Observers
PROPERTIES LIFO
