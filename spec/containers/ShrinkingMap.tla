---------------------------- MODULE ShrinkingMap ----------------------------
(* ds/shrinkingmap.ShrinkingMap: "a plain map whose shrinking is unobservable" (C12).        *)
(* The abstract model is a partial map Keys -> Vals.  The configuration (shrink thresholds)  *)
(* is carried in cfg but NO transition reads it: that is the property - whatever the count   *)
(* and ratio thresholds are, and whenever the real object rebuilds itself, every result and  *)
(* every observable projection equals that of the plain map.                                 *)
(*                                                                                           *)
(* m[k] = 0 encodes "k absent" (values are >= 1).  Nondeterministic operations (Pop, aborted *)
(* iteration) allow every member / every subset of the right size; iteration results are     *)
(* projected as sequences sorted by key.                                                     *)
EXTENDS Integers, Sequences, FiniteSets, TLC, SequencesExt

CONSTANTS Keys,      \* {1..n}
          Vals,      \* {1..v}
          Counts,    \* WithShrinkingThresholdCount values
          Ratios2,   \* WithShrinkingThresholdRatio values, doubled (0, 1 = 0.5, 2 = 1.0)
          AbortAt    \* iteration abort points: 0 = never, n >= 1 = callback returns false on its n-th call
VARIABLES cfg, m, ev
vars == <<cfg, m, ev>>
View == <<cfg, m>>

Dom(f) == {k \in Keys : f[k] # 0}
Opt(b, v) == IF b THEN <<v>> ELSE <<>>
Min2(a, b) == IF a < b THEN a ELSE b
KeySeq(S) == SetToSortSeq(S, <)
Items(f, S) == LET ks == KeySeq(S) IN [i \in 1..Len(ks) |-> <<ks[i], f[ks[i]]>>]
ValBag(f, S) == LET ks == KeySeq(S) IN SortSeq([i \in 1..Len(ks) |-> f[ks[i]]], LAMBDA a, b : a < b)
AllKeys == KeySeq(Keys)

(* everything the API lets one observe without changing the map *)
St(f) == [size  |-> Cardinality(Dom(f)),
          empty |-> Dom(f) = {},
          items |-> Items(f, Dom(f)),                                       \* AsMap
          gets  |-> [i \in 1..Len(AllKeys) |-> Opt(f[AllKeys[i]] # 0, f[AllKeys[i]])],  \* Get(k) for every k
          keys  |-> KeySeq(Dom(f)),                                         \* Keys()
          vals  |-> ValBag(f, Dom(f))]                                      \* Values()

Empty == [k \in Keys |-> 0]
Cfgs == [count : Counts, ratio2 : Ratios2]
Init == /\ cfg \in Cfgs
        /\ m = Empty
        /\ ev = [op |-> "reset", cfg |-> cfg]

(* the update functions handed to Compute: fn = 0 is "toggle" (1 -> 2, other or absent -> 1), fn = v is "constant v" *)
Fn(fn, cur) == IF fn = 0 THEN (IF cur = 1 THEN 2 ELSE 1) ELSE fn

Out(s, r, f) == /\ UNCHANGED cfg
                /\ m' = f
                /\ ev' = [res |-> r, st |-> St(f)] @@ s

Do(s) ==
  CASE s.op = "reset" -> cfg' = s.cfg /\ m' = Empty /\ ev' = s
    [] s.op = "Set" -> Out(s, m[s.k] = 0, [m EXCEPT ![s.k] = s.v])
    [] s.op = "Get" -> Out(s, Opt(m[s.k] # 0, m[s.k]), m)
    [] s.op = "Has" -> Out(s, m[s.k] # 0, m)
    [] s.op = "GetOrCreate" ->
         IF m[s.k] # 0
           THEN Out(s, [v |-> m[s.k], created |-> FALSE, calls |-> 0], m)
           ELSE Out(s, [v |-> s.v, created |-> TRUE, calls |-> 1], [m EXCEPT ![s.k] = s.v])
    [] s.op = "Compute" ->
         Out(s, [v |-> Fn(s.fn, m[s.k]), cur |-> m[s.k], exists |-> m[s.k] # 0],
             [m EXCEPT ![s.k] = Fn(s.fn, m[s.k])])
    [] s.op = "Delete" -> Out(s, m[s.k] # 0, [m EXCEPT ![s.k] = 0])
    [] s.op = "DeleteIf" ->
         IF s.c THEN Out(s, m[s.k] # 0, [m EXCEPT ![s.k] = 0])
                ELSE Out(s, FALSE, m)
    [] s.op = "DeleteAndReturn" -> Out(s, Opt(m[s.k] # 0, m[s.k]), [m EXCEPT ![s.k] = 0])
    [] s.op = "Pop" ->
         IF Dom(m) = {} THEN Out(s, <<>>, m)
         ELSE \E k \in Dom(m) : Out(s, <<k, m[k]>>, [m EXCEPT ![k] = 0])
    [] s.op = "Keys" -> Out(s, KeySeq(Dom(m)), m)
    [] s.op = "Values" -> Out(s, ValBag(m, Dom(m)), m)
    [] s.op = "AsMap" -> Out(s, Items(m, Dom(m)), m)
    [] s.op = "Size" -> Out(s, Cardinality(Dom(m)), m)
    [] s.op = "IsEmpty" -> Out(s, Dom(m) = {}, m)
    [] s.op = "Clear" -> Out(s, "done", Empty)
    [] s.op = "Shrink" -> Out(s, "done", m)
    [] s.op = "ForEach" ->      \* visits min(n, size) entries (all when n = 0), each at most once, all members
         LET c == IF s.n = 0 THEN Cardinality(Dom(m)) ELSE Min2(s.n, Cardinality(Dom(m))) IN
         \E S \in SUBSET Dom(m) : /\ Cardinality(S) = c
                                  /\ Out(s, [calls |-> c, seen |-> Items(m, S)], m)
    [] s.op = "ForEachKey" ->
         LET c == IF s.n = 0 THEN Cardinality(Dom(m)) ELSE Min2(s.n, Cardinality(Dom(m))) IN
         \E S \in SUBSET Dom(m) : /\ Cardinality(S) = c
                                  /\ Out(s, [calls |-> c, seen |-> KeySeq(S)], m)

Stimuli == [op : {"Set", "GetOrCreate"}, k : Keys, v : Vals]
      \cup [op : {"Get", "Has", "Delete", "DeleteAndReturn"}, k : Keys]
      \cup [op : {"Compute"}, k : Keys, fn : Vals \cup {0}]
      \cup [op : {"DeleteIf"}, k : Keys, c : BOOLEAN]
      \cup [op : {"Pop", "Keys", "Values", "AsMap", "Size", "IsEmpty", "Clear", "Shrink"}]
      \cup [op : {"ForEach", "ForEachKey"}, n : AbortAt]
Next == \E s \in Stimuli : Do(s)
Spec == Init /\ [][Next]_vars

-----------------------------------------------------------------------------
(* The property, stated independently of Do as the algebraic laws of a plain map over the    *)
(* last event (stimulus, result, observable state after the call).                           *)
TypeOK == m \in [Keys -> Vals \cup {0}]

Obs == ev.op # "reset"
Got(k) == ev.st.gets[k]         \* Keys = 1..n, so AllKeys[k] = k

(* the observers agree with each other: one map, seen through Size/IsEmpty/AsMap/Get/Keys/Values *)
ObserversAgree ==
  Obs => /\ ev.st.size = Len(ev.st.items) /\ ev.st.size = Len(ev.st.keys) /\ ev.st.size = Len(ev.st.vals)
         /\ ev.st.empty = (ev.st.size = 0)
         /\ \A i \in 1..Len(ev.st.items) : /\ ev.st.items[i][1] = ev.st.keys[i]
                                           /\ Got(ev.st.items[i][1]) = <<ev.st.items[i][2]>>
         /\ \A k \in Keys : (Got(k) = <<>>) = (\A i \in 1..Len(ev.st.keys) : ev.st.keys[i] # k)

(* write laws: what was written is read back, what was deleted is gone *)
WriteLaws ==
  /\ ev.op = "Set" => Got(ev.k) = <<ev.v>>
  /\ ev.op = "GetOrCreate" => Got(ev.k) = <<ev.res.v>> /\ (ev.res.created => ev.res.v = ev.v) /\ ev.res.calls = (IF ev.res.created THEN 1 ELSE 0)
  /\ ev.op = "Compute" => Got(ev.k) = <<ev.res.v>> /\ ev.res.exists = (ev.res.cur # 0)
  /\ ev.op \in {"Delete", "DeleteAndReturn"} => Got(ev.k) = <<>>
  /\ (ev.op = "DeleteIf" /\ ev.c) => Got(ev.k) = <<>>
  /\ (ev.op = "DeleteIf" /\ ~ev.c) => ev.res = FALSE
  /\ (ev.op = "Pop" /\ ev.res # <<>>) => Got(ev.res[1]) = <<>>
  /\ (ev.op = "Pop" /\ ev.res = <<>>) => ev.st.size = 0
  /\ ev.op = "Clear" => ev.st.size = 0

(* read laws: pure observers return what the state shows *)
ReadLaws ==
  /\ ev.op = "Get" => ev.res = Got(ev.k)
  /\ ev.op = "Has" => ev.res = (Got(ev.k) # <<>>)
  /\ ev.op = "Size" => ev.res = ev.st.size
  /\ ev.op = "IsEmpty" => ev.res = ev.st.empty
  /\ ev.op = "Keys" => ev.res = ev.st.keys
  /\ ev.op = "Values" => ev.res = ev.st.vals
  /\ ev.op = "AsMap" => ev.res = ev.st.items
  /\ (ev.op \in {"ForEach", "ForEachKey"} /\ ev.n = 0) => ev.res.calls = ev.st.size
  /\ ev.op = "ForEach" => \A i \in 1..Len(ev.res.seen) : Got(ev.res.seen[i][1]) = <<ev.res.seen[i][2]>>
  /\ ev.op = "ForEachKey" => \A i \in 1..Len(ev.res.seen) : Got(ev.res.seen[i]) # <<>>

(* shrinking is unobservable: Shrink and every read-only call leave the map as it was; no     *)
(* transition depends on cfg (checked as an action property on the full state).               *)
ReadOnlyOps == {"Get", "Has", "Keys", "Values", "AsMap", "Size", "IsEmpty", "Shrink", "ForEach", "ForEachKey"}
ShrinkUnobservable == [][ev'.op \in ReadOnlyOps => m' = m]_vars
=============================================================================
