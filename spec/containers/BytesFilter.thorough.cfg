CONSTANTS
  Sizes = {1, 2, 3, 4}
  NIds = 5
INVARIANTS TypeOK Remembers
PROPERTIES ExactlyLastN
