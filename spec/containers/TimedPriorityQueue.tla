---------------------------- MODULE TimedPriorityQueue ----------------------------
(* runtime/timed.PriorityQueue (priority_queue.go): a priority queue keyed by time.Time,     *)
(* ascending (oldest first) or descending (newest first, also the default when the optional  *)
(* flag is omitted) - "pops in priority order" (C12).  No clock is involved: the times are   *)
(* the fixed synthetic instants time.Unix(t, 0), t in 1..T.                                   *)
(*                                                                                            *)
(* Abstract model: elements 1..H, element h queued with time tm[h] (0 = not queued; Push(h,t) *)
(* only when h is not queued, which keeps the model finite).  The real queue stores the pair  *)
(* <<h, t>>.  Equal times: any of the first elements may be peeked / popped.                  *)
(* PopUntil(t) removes, in queue order, everything up to and including time t: ascending      *)
(* all elements with time <= t, descending all elements with time >= t.                       *)
EXTENDS Integers, Sequences, FiniteSets, TLC

CONSTANTS H, T
VARIABLES cfg, tm, ev
vars == <<cfg, tm, ev>>
View == <<cfg, tm>>

Hs == 1..H
Asc(c) == c.order = "asc"                      \* "desc" and "default" (flag omitted) are both descending
Key(c, t) == IF Asc(c) THEN t ELSE 0 - t       \* smaller key leaves first
Live(f) == {h \in Hs : f[h] # 0}
First(c, f) == {h \in Live(f) : \A g \in Live(f) : Key(c, f[h]) <= Key(c, f[g])}
El(f, h) == <<h, f[h]>>
Orders(c, f, S) == LET n == Cardinality(S) IN
  {q \in [1..n -> S] : /\ \A i, j \in 1..n : i # j => q[i] # q[j]
                       /\ \A i, j \in 1..n : i < j => Key(c, f[q[i]]) <= Key(c, f[q[j]])}
Els(f, q) == [i \in 1..Len(q) |-> El(f, q[i])]
(* time of the element on top (0 when empty): determined even when several elements share it *)
TopT(c, f) == IF Live(f) = {} THEN 0 ELSE f[CHOOSE h \in First(c, f) : TRUE]

Empty == [h \in Hs |-> 0]
\* clock: how the adapter turns the abstract instants 0..T+1 into time.Time values - "unix" = time.Unix(t, 0), "wide" = instants
\* spread over everything a time.Time can hold (the zero Time, years 1600, 1700, 1970, 2262, 2300, 9999: far outside what fits
\* into 64-bit nanoseconds since 1970).  Only the order of the instants matters; the model does not look at clock.
Cfgs == [order : {"asc", "desc", "default"}, clock : {"unix", "wide"}]
Init == /\ cfg \in Cfgs
        /\ tm = Empty
        /\ ev = [op |-> "reset", cfg |-> cfg]

Out(s, r, f) == /\ UNCHANGED cfg
                /\ tm' = f
                /\ ev' = [res |-> r, st |-> [size |-> Cardinality(Live(f)), empty |-> Live(f) = {}, top |-> TopT(cfg, f)]] @@ s

Do(s) ==
  CASE s.op = "reset" -> cfg' = s.cfg /\ tm' = Empty /\ ev' = s
    [] s.op = "Push" -> tm[s.h] = 0 /\ Out(s, "done", [tm EXCEPT ![s.h] = s.t])
    [] s.op = "Peek" ->
         IF Live(tm) = {} THEN Out(s, <<>>, tm)
         ELSE \E h \in First(cfg, tm) : Out(s, <<El(tm, h)>>, tm)
    [] s.op = "Pop" ->
         IF Live(tm) = {} THEN Out(s, <<>>, tm)
         ELSE \E h \in First(cfg, tm) : Out(s, <<El(tm, h)>>, [tm EXCEPT ![h] = 0])
    [] s.op = "PopUntil" ->
         LET S == {h \in Live(tm) : Key(cfg, tm[h]) <= Key(cfg, s.t)} IN
         \E q \in Orders(cfg, tm, S) : Out(s, Els(tm, q), [h \in Hs |-> IF h \in S THEN 0 ELSE tm[h]])
    [] s.op = "PopAll" ->
         \E q \in Orders(cfg, tm, Live(tm)) : Out(s, Els(tm, q), Empty)
    [] s.op = "Size" -> Out(s, Cardinality(Live(tm)), tm)
    [] s.op = "IsEmpty" -> Out(s, Live(tm) = {}, tm)

Stimuli == [op : {"Push"}, h : Hs, t : 1..T]
      \cup [op : {"PopUntil"}, t : 0..(T + 1)]
      \cup [op : {"Peek", "Pop", "PopAll", "Size", "IsEmpty"}]
Next == \E s \in Stimuli : Do(s)
Spec == Init /\ [][Next]_vars

-----------------------------------------------------------------------------
TypeOK == tm \in [Hs -> 0..T]

Popped == IF ev.op \in {"Pop", "PopUntil", "PopAll"} THEN ev.res ELSE <<>>
(* a <= b in queue order, stated directly on times for each direction *)
Before(a, b) == IF cfg.order = "asc" THEN a <= b ELSE a >= b

(* time order: what leaves is not after anything that stays; batches leave in order; PopUntil *)
(* takes exactly the elements up to and including the given time                              *)
TimeOrder ==
  /\ \A i \in 1..Len(Popped) : \A g \in Live(tm) : Before(Popped[i][2], tm[g])
  /\ \A i, j \in 1..Len(Popped) : i < j => Before(Popped[i][2], Popped[j][2])
  /\ ev.op = "PopUntil" => /\ \A i \in 1..Len(ev.res) : Before(ev.res[i][2], ev.t)
                           /\ \A g \in Live(tm) : ~Before(tm[g], ev.t)
  /\ ev.op = "PopAll" => Live(tm) = {}
  /\ (ev.op = "Pop" /\ ev.res = <<>>) => Live(tm) = {}
  /\ ev.op = "Peek" => \A i \in 1..Len(ev.res) : \A g \in Live(tm) : Before(ev.res[i][2], tm[g])
PoppedAreGone == \A i \in 1..Len(Popped) : tm[Popped[i][1]] = 0
SizeAgrees == ev.op # "reset" => /\ ev.st.size = Cardinality(Live(tm))
                                 /\ ev.st.empty = (ev.st.size = 0)
                                 /\ (ev.st.top = 0) = ev.st.empty
                                 /\ \A g \in Live(tm) : Before(ev.st.top, tm[g])
=============================================================================
