CONSTANTS
  Vals = {1, 2, 3}
  MaxDepth = 5
INVARIANTS TypeOK Observers
PROPERTIES LIFO
