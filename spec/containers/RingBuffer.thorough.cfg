CONSTANTS
  Caps = {1, 2, 3, 4}
  Vals = {1, 2, 3}
  Wraps = 4
INVARIANTS TypeOK Fill
PROPERTIES AddShifts ReadOnly
