CONSTANTS
  H = 4
  T = 3
INVARIANTS TypeOK TimeOrder PoppedAreGone SizeAgrees
