CONSTANTS
  Caps = {1, 2, 3}
  Vals = {1, 2, 3}
INVARIANTS TypeOK Bounded
