CONSTANTS
  Keys = {1, 2, 3, 4}
  Vals = {1, 2}
  Counts = {0, 1, 2}
  Ratios2 = {0, 1, 2}
  NMax = 5
INVARIANTS TypeOK ObserversAgree PicksAreMembers UniqueEntries MapLaws
