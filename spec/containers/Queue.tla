---------------------------- MODULE Queue ----------------------------
(* ds/queue.Queue: bounded FIFO (Offer drops when full, ForceOffer evicts the oldest).     *)
(* Convention shared by all sequential specs (see spec/README.md):                         *)
(*   cfg  - configuration record of the object under test (constant during a behaviour)    *)
(*   ev   - last event: stimulus fields + res (result) + st (projected state after)        *)
(*   Do(s) - the transition for stimulus record s (also handles op = "reset")              *)
EXTENDS Integers, Sequences, TLC

CONSTANTS Caps, Vals
VARIABLES cfg, q, ev
vars == <<cfg, q, ev>>
View == <<cfg, q>>

Opt(b, v) == IF b THEN <<v>> ELSE <<>>
St(qq, c) == [size |-> Len(qq), cap |-> c.cap]

Cfgs == [cap : Caps]
Init == /\ cfg \in Cfgs
        /\ q = <<>>
        /\ ev = [op |-> "reset", cfg |-> cfg]

Out(s, r, qq) == ev' = [s EXCEPT !.res = r, !.st = St(qq, cfg)]

Do(s) ==
  CASE s.op = "reset" -> cfg' = s.cfg /\ q' = <<>> /\ ev' = s
    [] s.op = "Offer" ->
         /\ UNCHANGED cfg
         /\ IF Len(q) = cfg.cap
              THEN q' = q /\ ev' = [op |-> "Offer", v |-> s.v, res |-> FALSE, st |-> St(q, cfg)]
              ELSE q' = Append(q, s.v) /\ ev' = [op |-> "Offer", v |-> s.v, res |-> TRUE, st |-> St(q', cfg)]
    [] s.op = "ForceOffer" ->
         /\ UNCHANGED cfg
         /\ IF Len(q) = cfg.cap
              THEN q' = Append(Tail(q), s.v) /\ ev' = [op |-> "ForceOffer", v |-> s.v, res |-> <<Head(q)>>, st |-> St(q', cfg)]
              ELSE q' = Append(q, s.v) /\ ev' = [op |-> "ForceOffer", v |-> s.v, res |-> <<>>, st |-> St(q', cfg)]
    [] s.op = "Poll" ->
         /\ UNCHANGED cfg
         /\ IF q = <<>>
              THEN q' = q /\ ev' = [op |-> "Poll", res |-> <<>>, st |-> St(q, cfg)]
              ELSE q' = Tail(q) /\ ev' = [op |-> "Poll", res |-> <<Head(q)>>, st |-> St(q', cfg)]

Stimuli == [op : {"Offer", "ForceOffer"}, v : Vals] \cup [op : {"Poll"}]
Next == \E s \in Stimuli : Do(s)
Spec == Init /\ [][Next]_vars

TypeOK == Len(q) <= cfg.cap
(* FIFO: every polled value is the oldest one offered and not yet polled/evicted - that is *)
(* what Do says by construction; the invariant below is the bounded-capacity half.         *)
Bounded == ev.op # "reset" => ev.st.size <= cfg.cap
=======================================================================
