CONSTANTS
  H = 3
  T = 2
INVARIANTS TypeOK TimeOrder PoppedAreGone SizeAgrees
