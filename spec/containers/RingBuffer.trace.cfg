CONSTANTS
  Caps = {1, 2, 3}
  Vals = {1, 2, 3}
  Wraps = 1000
INVARIANTS TypeOK Fill
