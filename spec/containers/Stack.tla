---------------------------- MODULE Stack ----------------------------
(* ds/stack: "LIFO" (C12).  One module, two SUTs: "StackSimple" (simple_stack.go) and         *)
(* "StackThreadSafe" (threadsafe_stack.go).  cfg.ctor says which form of the variadic         *)
(* constructor builds the object: "short" = New() resp. New(true), "long" = New(false) resp.  *)
(* New(true, false) (only the first flag counts).  Nothing else depends on cfg.               *)
(*                                                                                            *)
(* Abstract model: a sequence, top = last element.  Push is offered only below MaxDepth so    *)
(* that the model is finite (the real stacks are unbounded).                                  *)
EXTENDS Integers, Sequences, TLC

CONSTANTS Vals, MaxDepth
VARIABLES cfg, stk, ev
vars == <<cfg, stk, ev>>
View == <<cfg, stk>>

Opt(b, v) == IF b THEN <<v>> ELSE <<>>
Top(q) == Opt(q # <<>>, q[Len(q)])
St(q) == [size |-> Len(q), empty |-> q = <<>>, peek |-> Top(q)]

Cfgs == [ctor : {"short", "long"}]
Init == /\ cfg \in Cfgs
        /\ stk = <<>>
        /\ ev = [op |-> "reset", cfg |-> cfg]

Out(s, r, q) == /\ UNCHANGED cfg
                /\ stk' = q
                /\ ev' = [res |-> r, st |-> St(q)] @@ s

Do(s) ==
  CASE s.op = "reset" -> cfg' = s.cfg /\ stk' = <<>> /\ ev' = s
    [] s.op = "Push" -> Len(stk) < MaxDepth /\ Out(s, "done", Append(stk, s.v))
    [] s.op = "Pop" -> Out(s, Top(stk), IF stk = <<>> THEN stk ELSE SubSeq(stk, 1, Len(stk) - 1))
    [] s.op = "Peek" -> Out(s, Top(stk), stk)
    [] s.op = "Clear" -> Out(s, "done", <<>>)
    [] s.op = "Size" -> Out(s, Len(stk), stk)
    [] s.op = "IsEmpty" -> Out(s, stk = <<>>, stk)

Stimuli == [op : {"Push"}, v : Vals] \cup [op : {"Pop", "Peek", "Clear", "Size", "IsEmpty"}]
Next == \E s \in Stimuli : Do(s)
Spec == Init /\ [][Next]_vars

-----------------------------------------------------------------------------
TypeOK == stk \in Seq(Vals) /\ Len(stk) <= MaxDepth
Observers == ev.op # "reset" => /\ ev.st.size = Len(stk) /\ ev.st.empty = (ev.st.size = 0)
                                /\ (ev.st.peek = <<>>) = ev.st.empty
                                /\ ev.op = "Push" => ev.st.peek = <<ev.v>>
                                /\ ev.op = "Clear" => ev.st.size = 0
(* LIFO: a Pop directly after a Push returns the pushed element and restores the stack;       *)
(* Pop returns what Peek showed; Pop on empty returns nothing and changes nothing             *)
LIFO == [][/\ (ev.op = "Push" /\ ev'.op = "Pop") => (ev'.res = <<ev.v>> /\ ev'.st.size = ev.st.size - 1)
           /\ (ev.op # "reset" /\ ev'.op = "Pop") => ev'.res = ev.st.peek
           /\ (ev'.op = "Pop" /\ ev'.res = <<>>) => stk' = stk
           /\ (ev'.op = "Pop" /\ ev'.res # <<>>) => stk = Append(stk', ev'.res[1])
           /\ ev'.op \in {"Peek", "Size", "IsEmpty"} => stk' = stk]_vars
=======================================================================
