---------------------------- MODULE BytesFilter ----------------------------
(* ds/bytesfilter.BytesFilter: "remembers exactly the last N distinct identifiers" (C12).     *)
(*                                                                                            *)
(* Abstract model: q = the remembered identifiers, oldest first, pairwise distinct, at most   *)
(* cfg.size of them.  Adding a known identifier is refused (returns false, nothing changes);  *)
(* adding a new one remembers it and, when N are already remembered, forgets the oldest.      *)
(* Identifiers are 1..NIds; identifier i is the image of the byte string i under the          *)
(* identifier function the adapter installs (a hash; the byte strings include the empty one   *)
(* and 0xff bytes), so Add(bytes)/Contains(bytes) and AddIdentifier(id)/ContainsIdentifier(id)*)
(* address the same universe.  cfg.nids tells the adapter how many identifiers to observe.    *)
EXTENDS Integers, Sequences, FiniteSets, TLC

CONSTANTS Sizes, NIds
VARIABLES cfg, q, ev
vars == <<cfg, q, ev>>
View == <<cfg, q>>

Ids == 1..NIds
Range(s) == {s[i] : i \in 1..Len(s)}
Known(s) == [i \in Ids |-> i \in Range(s)]
(* both membership queries, for every identifier of the universe *)
St(s) == [byId |-> Known(s), byBytes |-> Known(s)]

Cfgs == [size : Sizes, nids : {NIds}]
Init == /\ cfg \in Cfgs
        /\ q = <<>>
        /\ ev = [op |-> "reset", cfg |-> cfg]

Out(s, r, qq) == /\ UNCHANGED cfg
                 /\ q' = qq
                 /\ ev' = [res |-> r, st |-> St(qq)] @@ s

Added(i) == IF i \in Range(q) THEN q
            ELSE IF Len(q) = cfg.size THEN Append(Tail(q), i) ELSE Append(q, i)

Do(s) ==
  CASE s.op = "reset" -> cfg' = s.cfg /\ q' = <<>> /\ ev' = s
    [] s.op = "Add" -> Out(s, [id |-> s.b, added |-> s.b \notin Range(q)], Added(s.b))
    [] s.op = "AddIdentifier" -> Out(s, s.id \notin Range(q), Added(s.id))
    [] s.op = "Contains" -> Out(s, s.b \in Range(q), q)
    [] s.op = "ContainsIdentifier" -> Out(s, s.id \in Range(q), q)

Stimuli == [op : {"Add", "Contains"}, b : Ids] \cup [op : {"AddIdentifier", "ContainsIdentifier"}, id : Ids]
Next == \E s \in Stimuli : Do(s)
Spec == Init /\ [][Next]_vars

-----------------------------------------------------------------------------
TypeOK == /\ q \in Seq(Ids) /\ Len(q) <= cfg.size
          /\ \A i, j \in 1..Len(q) : i # j => q[i] # q[j]
NKnown(e) == Cardinality({i \in Ids : e.st.byId[i]})
Arg(e) == IF e.op \in {"Add", "Contains"} THEN e.b ELSE e.id
Res(e) == IF e.op = "Add" THEN e.res.added ELSE e.res
(* never more than N remembered; what was just offered is remembered; both query forms agree *)
Remembers == ev.op # "reset" => /\ NKnown(ev) <= cfg.size
                                /\ ev.st.byId = ev.st.byBytes
                                /\ ev.op \in {"Add", "AddIdentifier"} => ev.st.byId[Arg(ev)]
                                /\ ev.op \in {"Contains", "ContainsIdentifier"} => ev.res = ev.st.byId[Arg(ev)]
                                /\ ev.op = "Add" => ev.res.id = ev.b
(* exactly the last N distinct: an add is accepted iff the identifier was not remembered; an  *)
(* accepted add forgets at most one identifier, and only when N were remembered, and then it  *)
(* is the one accepted longest ago (the head of q); a refused add and the queries change nothing *)
ExactlyLastN ==
  [][/\ ev'.op \in {"Add", "AddIdentifier"} =>
          /\ Res(ev') = (Arg(ev') \notin Range(q))
          /\ (~Res(ev') => q' = q)
          /\ (Res(ev') => /\ Range(q') = (Range(q) \cup {Arg(ev')}) \ (IF Len(q) = cfg.size THEN {Head(q)} ELSE {})
                          /\ q'[Len(q')] = Arg(ev'))
     /\ ev'.op \in {"Contains", "ContainsIdentifier"} => q' = q]_vars
=============================================================================
