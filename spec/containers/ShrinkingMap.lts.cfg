CONSTANTS
  Keys = {1, 2, 3}
  Vals = {1, 2}
  Counts = {0, 1, 2}
  Ratios2 = {0, 1, 2}
  AbortAt = {0, 1, 2}
INVARIANTS TypeOK ObserversAgree WriteLaws ReadLaws
