CONSTANTS
  Keys = {1, 2, 3}
  Vals = {1, 2}
  Counts = {0, 1}
  Ratios2 = {0, 1}
  NMax = 4
INVARIANTS TypeOK ObserversAgree PicksAreMembers UniqueEntries MapLaws
