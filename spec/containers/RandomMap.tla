---------------------------- MODULE RandomMap ----------------------------
(* ds/randommap.RandomMap: "a map whose random picks are always members and whose          *)
(* RandomUniqueEntries(n) returns min(n, size) distinct entries" (C12).                     *)
(*                                                                                          *)
(* Abstract model: partial map Keys -> Vals (m[k] = 0 = absent).  Random picks are          *)
(* nondeterministic: every member is allowed, nothing else.  To make "distinct entries"     *)
(* observable the adapter stores the pair (key, value) as the map's value, so an entry is   *)
(* reported as <<k, v>>; sets of entries are projected as sequences sorted by key.          *)
(* cfg = the shrink options handed through to the underlying ShrinkingMap (unobservable).   *)
EXTENDS Integers, Sequences, FiniteSets, TLC, SequencesExt

CONSTANTS Keys,      \* {1..n}
          Vals,      \* {1..v}
          Counts, Ratios2,   \* shrink options (ratio doubled)
          NMax       \* arguments of RandomUniqueEntries are -1..NMax (cfg files cannot hold negative numbers)
VARIABLES cfg, m, ev
vars == <<cfg, m, ev>>
View == <<cfg, m>>

Ns == -1..NMax
Dom(f) == {k \in Keys : f[k] # 0}
Opt(b, v) == IF b THEN <<v>> ELSE <<>>
Min2(a, b) == IF a < b THEN a ELSE b
KeySeq(S) == SetToSortSeq(S, <)
Items(f, S) == LET ks == KeySeq(S) IN [i \in 1..Len(ks) |-> <<ks[i], f[ks[i]]>>]
AllKeys == KeySeq(Keys)

St(f) == [size  |-> Cardinality(Dom(f)),
          items |-> Items(f, Dom(f)),                                                   \* ForEach
          gets  |-> [i \in 1..Len(AllKeys) |-> Opt(f[AllKeys[i]] # 0, <<AllKeys[i], f[AllKeys[i]]>>)],  \* Get(k), all k
          has   |-> [i \in 1..Len(AllKeys) |-> f[AllKeys[i]] # 0],                      \* Has(k), all k
          keys  |-> KeySeq(Dom(f)),                                                     \* Keys()
          vals  |-> Items(f, Dom(f))]                                                   \* Values()

Empty == [k \in Keys |-> 0]
(* nk tells the adapter how many keys the observation projections (gets, has) range over *)
Cfgs == [count : Counts, ratio2 : Ratios2, nk : {Cardinality(Keys)}]
Init == /\ cfg \in Cfgs
        /\ m = Empty
        /\ ev = [op |-> "reset", cfg |-> cfg]

Out(s, r, f) == /\ UNCHANGED cfg
                /\ m' = f
                /\ ev' = [res |-> r, st |-> St(f)] @@ s

Do(s) ==
  CASE s.op = "reset" -> cfg' = s.cfg /\ m' = Empty /\ ev' = s
    [] s.op = "Set" -> Out(s, "done", [m EXCEPT ![s.k] = s.v])
    [] s.op = "Get" -> Out(s, Opt(m[s.k] # 0, <<s.k, m[s.k]>>), m)
    [] s.op = "Has" -> Out(s, m[s.k] # 0, m)
    [] s.op = "Delete" -> Out(s, Opt(m[s.k] # 0, <<s.k, m[s.k]>>), [m EXCEPT ![s.k] = 0])
    [] s.op = "Size" -> Out(s, Cardinality(Dom(m)), m)
    [] s.op = "Keys" -> Out(s, KeySeq(Dom(m)), m)
    [] s.op = "Values" -> Out(s, Items(m, Dom(m)), m)
    [] s.op = "ForEach" ->      \* n = 0: full iteration; n >= 1: consumer returns false on its n-th call
         LET c == IF s.n = 0 THEN Cardinality(Dom(m)) ELSE Min2(s.n, Cardinality(Dom(m))) IN
         \E S \in SUBSET Dom(m) : /\ Cardinality(S) = c
                                  /\ Out(s, [calls |-> c, seen |-> Items(m, S)], m)
    [] s.op = "RandomKey" ->
         IF Dom(m) = {} THEN Out(s, <<>>, m)
         ELSE \E k \in Dom(m) : Out(s, <<k>>, m)
    [] s.op = "RandomEntry" ->
         IF Dom(m) = {} THEN Out(s, <<>>, m)
         ELSE \E k \in Dom(m) : Out(s, <<<<k, m[k]>>>>, m)
    [] s.op = "RandomUniqueEntries" ->
         LET c == IF s.n < 1 THEN 0 ELSE Min2(s.n, Cardinality(Dom(m))) IN
         \E S \in SUBSET Dom(m) : /\ Cardinality(S) = c
                                  /\ Out(s, Items(m, S), m)

Stimuli == [op : {"Set"}, k : Keys, v : Vals]
      \cup [op : {"Get", "Has", "Delete"}, k : Keys]
      \cup [op : {"Size", "Keys", "Values", "RandomKey", "RandomEntry"}]
      \cup [op : {"ForEach"}, n : {0, 1, 2}]
      \cup [op : {"RandomUniqueEntries"}, n : Ns]
Next == \E s \in Stimuli : Do(s)
Spec == Init /\ [][Next]_vars

-----------------------------------------------------------------------------
TypeOK == m \in [Keys -> Vals \cup {0}]
Obs == ev.op # "reset"
Got(k) == ev.st.gets[k]
Member(e) == e[1] \in Keys /\ Got(e[1]) = <<e>>          \* entry e = <<k, v>> is in the map after the call

ObserversAgree ==
  Obs => /\ ev.st.size = Len(ev.st.items) /\ ev.st.size = Len(ev.st.keys) /\ ev.st.vals = ev.st.items
         /\ \A i \in 1..Len(ev.st.items) : ev.st.items[i][1] = ev.st.keys[i] /\ Member(ev.st.items[i])
         /\ \A k \in Keys : ev.st.has[k] = (Got(k) # <<>>)
         /\ \A k \in Keys : ev.st.has[k] = (\E i \in 1..Len(ev.st.keys) : ev.st.keys[i] = k)

(* random picks are always members; nothing is picked from an empty map, something from a non-empty one *)
PicksAreMembers ==
  /\ ev.op = "RandomKey" => /\ (ev.res = <<>>) = (ev.st.size = 0)
                            /\ (ev.res # <<>> => ev.st.has[ev.res[1]])
  /\ ev.op = "RandomEntry" => /\ (ev.res = <<>>) = (ev.st.size = 0)
                              /\ (ev.res # <<>> => Member(ev.res[1]))

(* RandomUniqueEntries(n): min(n, size) entries (none for n < 1), all members, pairwise distinct *)
UniqueEntries ==
  ev.op = "RandomUniqueEntries" =>
    /\ Len(ev.res) = (IF ev.n < 1 THEN 0 ELSE Min2(ev.n, ev.st.size))
    /\ \A i \in 1..Len(ev.res) : Member(ev.res[i])
    /\ \A i, j \in 1..Len(ev.res) : i # j => ev.res[i][1] # ev.res[j][1]

MapLaws ==
  /\ ev.op = "Set" => Got(ev.k) = <<<<ev.k, ev.v>>>>
  /\ ev.op = "Delete" => Got(ev.k) = <<>>
  /\ ev.op = "Get" => ev.res = Got(ev.k)
  /\ ev.op = "Has" => ev.res = ev.st.has[ev.k]
  /\ ev.op = "Size" => ev.res = ev.st.size
  /\ ev.op = "Keys" => ev.res = ev.st.keys
  /\ ev.op = "Values" => ev.res = ev.st.vals
=============================================================================
