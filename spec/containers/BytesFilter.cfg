CONSTANTS
  Sizes = {1, 2, 3}
  NIds = 4
INVARIANTS TypeOK Remembers
PROPERTIES ExactlyLastN
