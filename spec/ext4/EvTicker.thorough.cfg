CONSTANTS
  Ids = {11, 12, 21, 22, 31}
  MaxIndex = 3
  Pairs = TRUE
  Variant = "contract"
INVARIANTS TypeOK SizeMatches
PROPERTIES EventsMatch EvictedStayOut
VIEW View
