CONSTANTS
  N = 1
  MaxT = 6
  Ops1 = 3
  Ops2 = 0
  Variant = "exists_only"
INVARIANTS OneChain RegisteredIsLive SizeMatches TickBudget
PROPERTIES NoResurrection FailedAfterBudget
