CONSTANTS
  Scenarios = {"closed"}
  Ivs = {0}
  Maxs = {0, 2}
  Precs = {0}
INVARIANTS Sane
PROPERTIES NothingAfterGraceful BlockIsFinal
VIEW View
