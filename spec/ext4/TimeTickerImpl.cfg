CONSTANTS
  Variant = "code"
  MaxHandlers = 3
INVARIANTS GracefulMeans NoLateHandler WgSane
PROPERTIES GracefulReturns
CONSTRAINT Bound
