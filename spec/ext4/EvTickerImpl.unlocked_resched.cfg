CONSTANTS
  N = 1
  MaxT = 5
  Ops1 = 2
  Ops2 = 0
  Variant = "unlocked_resched"
INVARIANTS OneChain RegisteredIsLive SizeMatches TickBudget
PROPERTIES NoResurrection FailedAfterBudget
