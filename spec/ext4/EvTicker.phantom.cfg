CONSTANTS
  Ids = {11, 21}
  MaxIndex = 2
  Pairs = FALSE
  Variant = "phantom"
INVARIANTS TypeOK SizeMatches
VIEW View
