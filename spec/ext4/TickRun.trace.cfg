CONSTANTS
  Scenarios = {"free", "free1", "stopHeld", "restartHeld", "shutdownHeld", "evictHeld", "startTickHeld", "doubleStart", "restartOnFail"}
  Ids = {11, 12, 21}
  Ivs = {1000, 2000, 3000}
  Thrs = {0, 1, 2, 3}
