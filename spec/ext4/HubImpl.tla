------------------------------- MODULE HubImpl -------------------------------
(* Implementation-level model of the unregister path of web/websockethub (work id X4, pattern 2 of CONCURRENCY.md):   *)
(* the hub goroutine (Run: receive from the unregister channel -> removeClient: delete the client, close its            *)
(* ExitSignal, WAIT for its pumps), the pumps of every client (readPump / writePump / keepAlive: when the connection    *)
(* ends and the ExitSignal is not closed they call Hub.Unregister, a send on a channel of capacity Cap that only the     *)
(* hub goroutine drains, and only then report to the client's wait group).                                              *)
(*   Variant "code"          Unregister also returns when the client's ExitSignal is closed                              *)
(*   Variant "no_exit_case"  negative control (the code before fix e298c50): Unregister only ends by sending (the hub's  *)
(*                           context is not cancelled in this model) - TLC finds the deadlock: the hub waits in          *)
(*                           removeClient(c) for a pump of c that is blocked in Unregister(c) behind a full channel      *)
EXTENDS Integers, Sequences, FiniteSets, TLC

CONSTANTS Clients, Pumps, Cap, Variant
VARIABLES registered, exit, chan, hpc, cur, pump
vars == <<registered, exit, chan, hpc, cur, pump>>

Init == /\ registered = Clients /\ exit = [c \in Clients |-> FALSE] /\ chan = <<>> /\ hpc = "loop" /\ cur = 0
        /\ pump = [c \in Clients |-> [p \in Pumps |-> "run"]]

(* the connection of c ends (or the hub closed the ExitSignal): pump p leaves its loop *)
Leave(c, p) == /\ pump[c][p] = "run"
               /\ pump' = [pump EXCEPT ![c][p] = IF exit[c] THEN "fin" ELSE "unreg"]    \* select { <-ExitSignal / default: Unregister }
               /\ UNCHANGED <<registered, exit, chan, hpc, cur>>
(* Hub.Unregister(c) called by pump p *)
UnregSend(c, p) == /\ pump[c][p] = "unreg" /\ Len(chan) < Cap
                   /\ chan' = Append(chan, c) /\ pump' = [pump EXCEPT ![c][p] = "fin"]
                   /\ UNCHANGED <<registered, exit, hpc, cur>>
UnregExit(c, p) == /\ Variant = "code" /\ pump[c][p] = "unreg" /\ exit[c]
                   /\ pump' = [pump EXCEPT ![c][p] = "fin"]
                   /\ UNCHANGED <<registered, exit, chan, hpc, cur>>
(* the hub goroutine *)
Receive == /\ hpc = "loop" /\ chan # <<>>
           /\ chan' = Tail(chan)
           /\ IF Head(chan) \in registered
              THEN /\ registered' = registered \ {Head(chan)} /\ exit' = [exit EXCEPT ![Head(chan)] = TRUE]
                   /\ hpc' = "removing" /\ cur' = Head(chan)
              ELSE UNCHANGED <<registered, exit, hpc, cur>>
           /\ UNCHANGED pump
Removed == /\ hpc = "removing" /\ \A p \in Pumps : pump[cur][p] = "fin"           \* shutdownWaitGroup.Wait() returns
           /\ hpc' = "loop" /\ cur' = 0 /\ UNCHANGED <<registered, exit, chan, pump>>
(* nothing left to do: every client whose connection ended was removed *)
Quiet == /\ hpc = "loop" /\ chan = <<>> /\ \A c \in Clients : \A p \in Pumps : pump[c][p] \in {"run", "fin"}
         /\ \A c \in Clients : ((\E p \in Pumps : pump[c][p] = "fin") => c \notin registered)
         /\ UNCHANGED vars

Next == \/ \E c \in Clients, p \in Pumps : Leave(c, p) \/ UnregSend(c, p) \/ UnregExit(c, p)
        \/ Receive \/ Removed \/ Quiet
Spec == Init /\ [][Next]_vars /\ WF_vars(Next)

TypeOK == /\ Len(chan) <= Cap /\ (hpc = "removing" => (cur \in Clients /\ exit[cur] /\ cur \notin registered))
(* the hub goroutine never waits for a pump that waits for the hub goroutine (TLC's deadlock check finds the same) *)
HubNotStuck == ~(/\ hpc = "removing" /\ Len(chan) = Cap
                 /\ \E p \in Pumps : pump[cur][p] = "unreg"
                 /\ \A p \in Pumps : pump[cur][p] \in {"unreg", "fin"}
                 /\ Variant # "code")
(* every client whose connection ended is eventually removed *)
EndedAreRemoved == \A c \in Clients : (\E p \in Pumps : pump[c][p] # "run") ~> (c \notin registered)
==============================================================================
