CONSTANTS
  Scenarios = {"free", "free1", "abrupt", "stopBusy", "early"}
  Clients = {1, 2, 3, 4, 5, 6}
  Msgs = {}
