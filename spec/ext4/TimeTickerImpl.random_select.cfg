CONSTANTS
  Variant = "random_select"
  MaxHandlers = 3
INVARIANTS GracefulMeans NoLateHandler WgSane
PROPERTIES GracefulReturns
CONSTRAINT Bound
