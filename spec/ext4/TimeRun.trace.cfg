CONSTANTS
  Scenarios = {"free", "free1", "gracefulEarly", "ctxBefore", "heldHandler", "heldCallback"}
  Ivs = {0, 500, 1000, 1500, 2000}
  Maxs = {0, 2, 3, 4, 5, 6, 7}
  Precs = {0, 100, 200}
