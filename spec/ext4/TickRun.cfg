CONSTANTS
  Scenarios = {"closed"}
  Ids = {11, 21}
  Ivs = {0}
  Thrs = {0}
INVARIANTS Sane
PROPERTIES FailedCloses QuietAfterShutdown
VIEW View
