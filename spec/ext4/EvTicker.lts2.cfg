CONSTANTS
  Ids = {11, 12, 21, 31}
  MaxIndex = 3
  Pairs = TRUE
  Variant = "contract"
