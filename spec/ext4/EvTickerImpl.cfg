CONSTANTS
  N = 1
  MaxT = 7
  Ops1 = 3
  Ops2 = 1
  Variant = "code"
INVARIANTS OneChain RegisteredIsLive SizeMatches TickBudget
PROPERTIES NoResurrection FailedAfterBudget
