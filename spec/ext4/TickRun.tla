------------------------------- MODULE TickRun -------------------------------
(* Trace specification for executions of core/eventticker.EventTicker with real (short) retry intervals (work id X4).  *)
(* The driver (harness/sut/ext4/tickrun.go) appends to ONE log under a mutex; every event carries t = microseconds on   *)
(* the log's monotonic clock.  Per identifier one goroutine issues StartTicker / StopTicker calls one after the other   *)
(* ("sb"/"se", "xb"/"xe" around the call); the four events of the EventTicker are logged inside their hooks ("started", *)
(* "tick" with src = "start" when the hook runs on the goroutine that is inside StartTicker(id), else "retry";          *)
(* "stopped"; "failed"); EvictUntil "eb"/"ee", Shutdown "db"/"de"; "final" = HasTicker of every id + QueueSize after    *)
(* everything was joined and the driver waited for the queue to drain (20 s at most).                                   *)
(* The guards are the contract (N = MaxRequestThreshold, I = RetryInterval; the repository's tests fix the number of    *)
(* ticks of a ticker that is never stopped to N + 2: the one of StartTicker and N + 1 retries):                         *)
(*   - TickerStarted once per StartTicker that finds no ticker, followed by the Tick of StartTicker itself;              *)
(*     nothing for a StartTicker that finds one / an evicted index / a shut down EventTicker                            *)
(*   - retry ticks only while the ticker is registered, never closer together than I (nor closer than I to the          *)
(*     StartTicker call), at most N + 2 ticks per run of a ticker; after StopTicker / EvictUntil returned at most ONE    *)
(*     more tick (the retry whose callback was already running), none at all after Shutdown returned                    *)
(*   - TickerFailed exactly once, right after the (N+2)-th tick, and only for a registered ticker; it unregisters it     *)
(*   - TickerStopped exactly for a StopTicker that finds the ticker; when StopTicker returns the ticker is gone          *)
(*   - at the end HasTicker / QueueSize list exactly the tickers that were started and neither stopped, failed nor       *)
(*     evicted; without a Shutdown every ticker has failed or was stopped by then                                       *)
(* Real-time LOWER bounds only (safe under load: timers never fire early).                                              *)
EXTENDS Integers, Sequences, FiniteSets, SequencesExt, TLC

CONSTANTS Ids, Ivs, Thrs, Scenarios
VARIABLES cfg, P, G, ev
vars == <<cfg, P, G, ev>>
View == <<cfg, P, G>>

Cfgs == [sc : Scenarios, iv : Ivs, thr : Thrs]
Idx(id) == id \div 10

P0 == [call |-> "none", on |-> FALSE, n |-> 0, lastT |-> 0, sbT |-> 0, may |-> FALSE, must |-> FALSE, sSeen |-> FALSE,
       kSeen |-> FALSE, early |-> FALSE, infl |-> 0, pendF |-> FALSE]
G0 == [evB |-> 0, evE |-> 0, downB |-> FALSE, downE |-> FALSE]
Init == /\ cfg \in Cfgs /\ P = [i \in Ids |-> P0] /\ G = G0 /\ ev = [op |-> "reset", cfg |-> cfg]

Max2(a, b) == IF a > b THEN a ELSE b
(* ticks of the current run of id's ticker, counting the Tick of a StartTicker that announced the ticker but has not ticked yet *)
Cnt(p) == p.n + (IF p.call = "S" /\ p.sSeen /\ ~p.kSeen THEN 1 ELSE 0)
Limit == cfg.thr + 2
AtLimit(p) == p.on /\ Cnt(p) = Limit
FinalOK(s) == /\ \A i \in Ids : (P[i].on /\ ~AtLimit(P[i])) => i \in ToSet(s.has)
              /\ \A i \in ToSet(s.has) : i \in Ids /\ P[i].on
              /\ s.has = SetToSortSeq(ToSet(s.has), <) /\ s.size = Len(s.has)
              /\ (~G.downB => s.has = <<>>)

(* retry tick: the three ways the contract allows one *)
RetryRegular(p, s) == /\ p.on /\ ~G.downE /\ Cnt(p) < Limit /\ s.t - p.lastT >= cfg.iv
RetryInFlight(p, s) == p.infl = 1 /\ ~G.downE
RetryBeforeAnnounced(p, s) == /\ p.call = "S" /\ p.may /\ ~p.on /\ ~p.sSeen /\ ~p.early /\ ~G.downE /\ s.t - p.sbT >= cfg.iv

Do(s) ==
  CASE s.op = "reset" -> cfg' = s.cfg /\ P' = [i \in Ids |-> P0] /\ G' = G0 /\ ev' = s
    [] s.op = "sb" -> LET p == P[s.id] IN
         /\ p.call = "none" /\ UNCHANGED <<cfg, G>> /\ ev' = s
         /\ P' = [P EXCEPT ![s.id] = [p EXCEPT !.call = "S", !.sbT = s.t, !.sSeen = FALSE, !.kSeen = FALSE, !.early = FALSE,
                                              !.may = (G.evE < Idx(s.id) /\ ~G.downE),
                                              !.must = (~p.on /\ G.evB < Idx(s.id) /\ ~G.downB)]]
    [] s.op = "started" -> LET p == P[s.id] IN
         \* (AtLimit: the ticker has ticked N + 2 times, so it may have failed already - TickerFailed is triggered after the
         \*  ticker was unregistered and its hook may be logged late; pendF remembers that this event is still to come)
         /\ p.call = "S" /\ p.may /\ ~p.sSeen /\ (~p.on \/ p.early \/ AtLimit(p)) /\ UNCHANGED <<cfg, G>> /\ ev' = s
         /\ P' = [P EXCEPT ![s.id] =
                    IF p.early THEN [p EXCEPT !.sSeen = TRUE]
                    ELSE IF G.evE >= Idx(s.id) THEN [p EXCEPT !.sSeen = TRUE, !.infl = 1]   \* registered, evicted meanwhile
                    ELSE [p EXCEPT !.sSeen = TRUE, !.on = TRUE, !.n = 0, !.lastT = p.sbT, !.pendF = (p.pendF \/ p.on)]]
    [] s.op = "tick" /\ s.src = "start" -> LET p == P[s.id] IN
         /\ p.call = "S" /\ p.sSeen /\ ~p.kSeen /\ UNCHANGED <<cfg, G>> /\ ev' = s
         /\ (p.on => p.n < Limit)
         /\ P' = [P EXCEPT ![s.id] = [p EXCEPT !.kSeen = TRUE, !.n = IF p.on THEN @ + 1 ELSE @]]
    [] s.op = "tick" /\ s.src = "retry" -> LET p == P[s.id] IN
         /\ UNCHANGED <<cfg, G>> /\ ev' = s
         /\ \/ RetryRegular(p, s) /\ P' = [P EXCEPT ![s.id] = [p EXCEPT !.n = @ + 1, !.lastT = s.t]]
            \/ RetryInFlight(p, s) /\ P' = [P EXCEPT ![s.id] = [p EXCEPT !.infl = 0]]
            \/ RetryBeforeAnnounced(p, s) /\ P' = [P EXCEPT ![s.id] =
                    IF G.evE >= Idx(s.id) THEN [p EXCEPT !.early = TRUE]      \* registered and evicted meanwhile: its last retry
                    ELSE [p EXCEPT !.on = TRUE, !.early = TRUE, !.n = 1, !.lastT = s.t]]
    [] s.op = "failed" -> LET p == P[s.id] IN
         /\ ~G.downE /\ UNCHANGED <<cfg, G>> /\ ev' = s
         /\ \/ /\ p.on /\ AtLimit(p)
               \* (inside a StartTicker call that already announced and ticked: the ticker may be registered once more by a
               \*  second caller of the same composite call, see doubleStart)
               /\ P' = [P EXCEPT ![s.id] = [p EXCEPT !.on = FALSE, !.infl = 0, !.must = FALSE,
                                                    !.sSeen = IF p.kSeen THEN FALSE ELSE @, !.kSeen = FALSE]]
            \/ /\ p.pendF /\ P' = [P EXCEPT ![s.id] = [p EXCEPT !.pendF = FALSE]]
    [] s.op = "se" -> LET p == P[s.id] IN
         /\ p.call = "S" /\ (p.must => p.sSeen) /\ (p.sSeen <=> p.kSeen) /\ (p.early => p.sSeen)
         /\ UNCHANGED <<cfg, G>> /\ ev' = s
         /\ P' = [P EXCEPT ![s.id] = [p EXCEPT !.call = "none", !.early = FALSE]]
    [] s.op = "xb" -> LET p == P[s.id] IN
         /\ p.call = "none" /\ UNCHANGED <<cfg, G>> /\ ev' = s
         /\ P' = [P EXCEPT ![s.id] = [p EXCEPT !.call = "X"]]
    [] s.op = "stopped" -> LET p == P[s.id] IN
         /\ p.call = "X" /\ p.on /\ UNCHANGED <<cfg, G>> /\ ev' = s
         /\ P' = [P EXCEPT ![s.id] = [p EXCEPT !.on = FALSE, !.infl = 1]]
    [] s.op = "xe" -> LET p == P[s.id] IN
         \* (a ticker that is still listed here was removed by an EvictUntil whose return is not logged yet, or it failed
         \*  after its last tick and the TickerFailed hook is not logged yet)
         /\ p.call = "X" /\ (~p.on \/ G.evB >= Idx(s.id) \/ AtLimit(p)) /\ UNCHANGED <<cfg, G>> /\ ev' = s
         /\ P' = [P EXCEPT ![s.id] = [p EXCEPT !.call = "none", !.on = FALSE,
                                              !.infl = IF p.on /\ ~AtLimit(p) THEN 1 ELSE @,
                                              !.pendF = (p.pendF \/ (p.on /\ G.evB < Idx(s.id)))]]
    \* (a StartTicker that is in progress when an eviction / the shutdown begins need not succeed any more)
    [] s.op = "eb" -> /\ UNCHANGED cfg /\ G' = [G EXCEPT !.evB = Max2(@, s.i)] /\ ev' = s
                      /\ P' = [i \in Ids |-> IF Idx(i) <= s.i THEN [P[i] EXCEPT !.must = FALSE] ELSE P[i]]
    [] s.op = "ee" -> /\ G.evB >= s.i /\ UNCHANGED cfg /\ G' = [G EXCEPT !.evE = Max2(@, s.i)] /\ ev' = s
                      \* (not the tickers whose StopTicker is in progress: that call may have removed the ticker first, its
                      \*  TickerStopped hook is then logged late - "xe" closes them; a ticker that had its last tick may have
                      \*  failed before the eviction, its TickerFailed hook is then still to come)
                      /\ P' = [i \in Ids |-> IF Idx(i) <= s.i /\ P[i].on /\ P[i].call # "X"
                                             THEN [P[i] EXCEPT !.on = FALSE, !.infl = 1, !.pendF = (@ \/ AtLimit(P[i]))] ELSE P[i]]
    [] s.op = "db" -> /\ UNCHANGED cfg /\ G' = [G EXCEPT !.downB = TRUE] /\ ev' = s
                      /\ P' = [i \in Ids |-> [P[i] EXCEPT !.must = FALSE]]
    [] s.op = "de" -> /\ G.downB /\ UNCHANGED <<cfg, P>> /\ G' = [G EXCEPT !.downE = TRUE] /\ ev' = s
    [] s.op = "final" ->
         /\ s.hung = <<>> /\ \A i \in Ids : P[i].call = "none"
         \* (a ticker that had its last tick may have failed although its TickerFailed hook was not logged in time)
         /\ (FinalOK(s) = TRUE)
         /\ UNCHANGED <<cfg, P, G>> /\ ev' = s
    [] OTHER -> FALSE /\ UNCHANGED vars     \* "panic" and anything unknown

(* --- a small closed system for checking the spec itself (all times 0, cfg.iv = 0) --- *)
Stimuli == [op : {"sb", "se", "xb", "xe", "started", "stopped", "failed"}, id : Ids, t : {0}]
             \cup [op : {"tick"}, id : Ids, src : {"start", "retry"}, t : {0}]
             \cup [op : {"eb", "ee"}, i : {1}, t : {0}] \cup [op : {"db", "de"}, t : {0}]
Next == \E s \in Stimuli : Do(s)
Spec == Init /\ [][Next]_vars
Sane == \A i \in Ids : /\ P[i].n <= Limit /\ P[i].infl \in {0, 1}
                       /\ ((P[i].on /\ P[i].call # "X") => (G.evE < Idx(i) /\ P[i].n >= 0))
                       /\ (P[i].early => P[i].call = "S")
(* whatever the spec accepts: a run of a ticker never has more than N + 2 ticks, TickerFailed closes the run, nothing    *)
(* happens to a ticker once Shutdown returned                                                                          *)
FailedCloses == [][ev'.op = "failed" => \/ (P[ev'.id].pendF /\ ~P'[ev'.id].pendF)
                                        \/ (P[ev'.id].on /\ ~P'[ev'.id].on /\ P[ev'.id].n + 1 >= Limit)]_vars
QuietAfterShutdown == [][G.downE => ~(ev'.op = "failed" \/ (ev'.op = "tick" /\ ev'.src = "retry"))]_vars
==============================================================================
