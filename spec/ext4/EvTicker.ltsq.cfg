CONSTANTS
  Ids = {11, 12, 21}
  MaxIndex = 2
  Pairs = TRUE
  Variant = "contract"
