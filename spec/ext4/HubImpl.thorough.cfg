CONSTANTS
  Clients = {1, 2, 3}
  Pumps = {"r", "w", "k"}
  Cap = 1
  Variant = "code"
INVARIANTS TypeOK HubNotStuck
PROPERTIES EndedAreRemoved
CHECK_DEADLOCK TRUE
