----------------------------- MODULE EvTickerImpl -----------------------------
(* Implementation-level model of core/eventticker.EventTicker for ONE identifier (work id X4, pattern 2 of             *)
(* CONCURRENCY.md): user goroutines calling StartTicker / StopTicker, the single worker of the timed executor running  *)
(* the retry callback (Tick, then "is the ticker still registered? -> count / fail / reschedule"), the task objects of  *)
(* the executor, the registered task and the counter behind QueueSize.  All interleavings of the steps that the code   *)
(* performs under different lock acquisitions.                                                                         *)
(*   Variant "code"            start / stop / the callback's decision are atomic (ticker mutex) and the callback only   *)
(*                             continues when the registered task is its own                                            *)
(*   negative controls (what the code did before the fixes 5184181 / 66741e3):                                          *)
(*   "exists_only"             the callback continues when ANY task is registered for the id                            *)
(*   "unlocked_start"          StartTicker: look-up and registration are two steps                                      *)
(*   "unlocked_resched"        the callback: look-up and reschedule are two steps (StopTicker fits in between)          *)
EXTENDS Integers, FiniteSets, TLC

CONSTANTS N,        \* MaxRequestThreshold
          MaxT,     \* tasks that may be created
          Ops1,     \* calls of user 1 (StartTicker / StopTicker, any order)
          Ops2,     \* calls of user 2 (StartTicker only)
          Variant

Tasks == 1..MaxT
VARIABLES reg,      \* registered task of the id (0: no ticker)
          task,     \* task -> [st : "none" | "pend" | "run" | "gone", c : retry counter captured by its callback]
          size,     \* the counter behind QueueSize
          upc, left, seen,   \* users: pc, calls left, what the unlocked look-up saw
          wt, wsaw, wpc,     \* worker: task whose callback runs (0: idle), what its unlocked look-up saw, pc
          ticks,    \* Tick events since the ticker was (last) registered
          act       \* label of the last step (for the action properties)
vars == <<reg, task, size, upc, left, seen, wt, wsaw, wpc, ticks, act>>

Users == {1, 2}
Init == /\ reg = 0 /\ task = [t \in Tasks |-> [st |-> "none", c |-> 0]] /\ size = 0
        /\ upc = [u \in Users |-> "idle"] /\ left = [u \in Users |-> IF u = 1 THEN Ops1 ELSE Ops2] /\ seen = [u \in Users |-> FALSE]
        /\ wt = 0 /\ wsaw = FALSE /\ wpc = "idle" /\ ticks = 0 /\ act = "init"

Fresh == IF \E t \in Tasks : task[t].st = "none" THEN CHOOSE t \in Tasks : task[t].st = "none" /\ \A x \in Tasks : (task[x].st = "none" => t <= x) ELSE 0

(* registration of a new task with retry counter c (ExecuteAfter + Set); does nothing when the task budget is used up *)
Register(c, lbl) == /\ Fresh # 0
                    /\ task' = [task EXCEPT ![Fresh] = [st |-> "pend", c |-> c]]
                    /\ reg' = Fresh /\ act' = lbl

(* ---- users ---- *)
StartAtomic(u) == /\ upc[u] = "idle" /\ left[u] > 0 /\ Variant # "unlocked_start"
                  /\ left' = [left EXCEPT ![u] = @ - 1]
                  /\ IF reg = 0 /\ Fresh # 0
                     THEN Register(0, "start") /\ size' = size + 1 /\ ticks' = 1      \* (TickerStarted, Tick)
                     ELSE UNCHANGED <<reg, task, size, ticks>> /\ act' = "nostart"
                  /\ UNCHANGED <<upc, seen, wt, wsaw, wpc>>
StartLook(u) == /\ upc[u] = "idle" /\ left[u] > 0 /\ Variant = "unlocked_start"
                /\ left' = [left EXCEPT ![u] = @ - 1] /\ seen' = [seen EXCEPT ![u] = (reg # 0)]
                /\ upc' = [upc EXCEPT ![u] = "s2"] /\ act' = "look"
                /\ UNCHANGED <<reg, task, size, wt, wsaw, wpc, ticks>>
StartSet(u) == /\ upc[u] = "s2" /\ upc' = [upc EXCEPT ![u] = "idle"]
               /\ IF ~seen[u] /\ Fresh # 0
                  THEN Register(0, "start") /\ size' = size + 1 /\ ticks' = 1
                  ELSE UNCHANGED <<reg, task, size, ticks>> /\ act' = "nostart"
               /\ UNCHANGED <<left, seen, wt, wsaw, wpc>>
Stop(u) == /\ u = 1 /\ upc[u] = "idle" /\ left[u] > 0
           /\ left' = [left EXCEPT ![u] = @ - 1]
           /\ IF reg # 0
              THEN /\ task' = [task EXCEPT ![reg].st = IF @ = "pend" THEN "gone" ELSE @]   \* Cancel: no effect on a running callback
                   /\ reg' = 0 /\ size' = size - 1 /\ act' = "stop"
              ELSE UNCHANGED <<reg, task, size>> /\ act' = "nostop"
           /\ UNCHANGED <<upc, seen, wt, wsaw, wpc, ticks>>

(* ---- the worker ---- *)
Poll == /\ wpc = "idle" /\ \E t \in Tasks : /\ task[t].st = "pend"
                                            /\ task' = [task EXCEPT ![t].st = "run"] /\ wt' = t
        /\ wpc' = "ticked" /\ ticks' = ticks + 1 /\ act' = "tick"                        \* Events.Tick.Trigger
        /\ UNCHANGED <<reg, size, upc, left, seen, wsaw>>
Mine == IF Variant = "exists_only" THEN reg # 0 ELSE reg = wt
Decide(ok) ==       \* the callback's decision, given the outcome of its look-up
        /\ wpc' = "idle" /\ wt' = 0 /\ wsaw' = FALSE
        /\ IF ~ok THEN /\ task' = [task EXCEPT ![wt].st = "gone"] /\ act' = "stale" /\ UNCHANGED <<reg, size>>
           ELSE IF task[wt].c + 1 > N
                THEN /\ task' = [task EXCEPT ![wt].st = "gone"] /\ reg' = 0 /\ size' = size - 1 /\ act' = "failed"
                ELSE IF Fresh # 0
                     THEN /\ task' = [task EXCEPT ![wt].st = "gone", ![Fresh] = [st |-> "pend", c |-> task[wt].c + 1]]
                          /\ reg' = Fresh /\ act' = "resched" /\ UNCHANGED size
                     ELSE /\ task' = [task EXCEPT ![wt].st = "gone"] /\ reg' = 0 /\ size' = size - 1 /\ act' = "budget"  \* (model bound reached: the run ends here)
        /\ UNCHANGED <<upc, left, seen, ticks>>
ReschedAtomic == wpc = "ticked" /\ Variant # "unlocked_resched" /\ Decide(Mine)
ReschedLook == /\ wpc = "ticked" /\ Variant = "unlocked_resched" /\ wsaw' = Mine /\ wpc' = "looked" /\ act' = "look"
               /\ UNCHANGED <<reg, task, size, upc, left, seen, wt, ticks>>
ReschedSet == wpc = "looked" /\ Decide(wsaw)

Next == \/ \E u \in Users : StartAtomic(u) \/ StartLook(u) \/ StartSet(u) \/ Stop(u)
        \/ Poll \/ ReschedAtomic \/ ReschedLook \/ ReschedSet
Spec == Init /\ [][Next]_vars

(* ---- properties ---- *)
Pending == {t \in Tasks : task[t].st = "pend"}
OneChain == Cardinality(Pending) <= 1                              \* never two retry chains for one identifier
RegisteredIsLive == reg # 0 => (task[reg].st \in {"pend", "run"})  \* the registered task is the one that will tick next
SizeMatches == (\A u \in Users : upc[u] = "idle") /\ wpc # "looked" => size = (IF reg = 0 THEN 0 ELSE 1)
TickBudget == ticks <= N + 2                                       \* N + 2 ticks per run of the ticker
(* only StartTicker registers a ticker: the callback never brings a stopped ticker back *)
NoResurrection == [][(reg = 0 /\ reg' # 0) => act' = "start"]_vars
(* TickerFailed ends a run that ticked N + 2 times *)
FailedAfterBudget == [][act' = "failed" => ticks >= N + 2]_vars
==============================================================================
