CONSTANTS
  N = 1
  MaxT = 5
  Ops1 = 1
  Ops2 = 1
  Variant = "unlocked_start"
INVARIANTS OneChain RegisteredIsLive SizeMatches TickBudget
PROPERTIES NoResurrection FailedAfterBudget
