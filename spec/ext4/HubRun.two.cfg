CONSTANTS
  Scenarios = {"closed"}
  Clients = {2}
  Msgs = {102, 103}
INVARIANTS Sane
PROPERTIES NoLateDelivery
VIEW View
CONSTRAINT Small
