CONSTANTS
  Scenarios = {"closed"}
  Clients = {1, 2}
  Msgs = {102}
INVARIANTS Sane
PROPERTIES NoLateDelivery
VIEW View
CONSTRAINT Small
