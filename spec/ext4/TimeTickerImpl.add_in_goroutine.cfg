CONSTANTS
  Variant = "add_in_goroutine"
  MaxHandlers = 3
INVARIANTS GracefulMeans NoLateHandler WgSane
PROPERTIES GracefulReturns
CONSTRAINT Bound
