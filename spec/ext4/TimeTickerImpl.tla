--------------------------- MODULE TimeTickerImpl ---------------------------
(* Implementation-level model of runtime/timeutil.Ticker (work id X4, pattern 2 of CONCURRENCY.md): NewTicker, the     *)
(* ticker goroutine (run: select on the context and the tick channel, handler), ticks arriving at any time, one caller  *)
(* of Shutdown and one of WaitForGracefulShutdown (sync.WaitGroup counter).                                             *)
(*   Variant "code"              the goroutine is added to the wait group by NewTicker (before `go`), and a received     *)
(*                               tick is dropped when the context is done                                               *)
(*   negative controls (the code before the fixes 99734de / 2957b12):                                                   *)
(*   "add_in_goroutine"          run() adds itself to the wait group: WaitForGracefulShutdown can pass before            *)
(*   "random_select"             no test of the context after a tick was received: with both ready the select picks     *)
(*                               randomly and the handler starts although Shutdown had returned                          *)
EXTENDS Integers, TLC

CONSTANTS Variant, MaxHandlers
VARIABLES created,   \* NewTicker returned
          wg,        \* counter of the graceful-shutdown wait group
          done,      \* the context is cancelled
          sdRet,     \* Shutdown() has returned
          tick,      \* a tick is waiting in the channel
          rpc,       \* ticker goroutine: "new" | "select" | "got" | "handler" | "end"
          dec,       \* Shutdown had returned when the select that led to the current tick / handler was taken
          gpc,       \* WaitForGracefulShutdown caller: "idle" | "waiting" | "returned"
          n          \* handler invocations
vars == <<created, wg, done, sdRet, tick, rpc, dec, gpc, n>>

Init == /\ created = FALSE /\ wg = 0 /\ done = FALSE /\ sdRet = FALSE /\ tick = FALSE /\ rpc = "new" /\ dec = FALSE
        /\ gpc = "idle" /\ n = 0

NewTicker == /\ ~created /\ created' = TRUE
             /\ wg' = IF Variant = "add_in_goroutine" THEN wg ELSE wg + 1
             /\ UNCHANGED <<done, sdRet, tick, rpc, dec, gpc, n>>
(* the goroutine starts running some time after `go` *)
RunStart == /\ created /\ rpc = "new" /\ rpc' = "select"
            /\ wg' = IF Variant = "add_in_goroutine" THEN wg + 1 ELSE wg
            /\ UNCHANGED <<created, done, sdRet, tick, dec, gpc, n>>
Tick == /\ rpc # "new" /\ rpc # "end" /\ ~tick /\ tick' = TRUE
        /\ UNCHANGED <<created, wg, done, sdRet, rpc, dec, gpc, n>>
SelectDone == /\ rpc = "select" /\ done /\ rpc' = "end" /\ wg' = wg - 1
              /\ UNCHANGED <<created, done, sdRet, tick, dec, gpc, n>>
SelectTick == /\ rpc = "select" /\ tick /\ tick' = FALSE /\ rpc' = "got" /\ dec' = sdRet
              /\ UNCHANGED <<created, wg, done, sdRet, gpc, n>>
Got == /\ rpc = "got"
       /\ IF Variant # "random_select" /\ done
          THEN rpc' = "end" /\ wg' = wg - 1 /\ UNCHANGED n
          ELSE rpc' = "handler" /\ n' = n + 1 /\ UNCHANGED wg
       /\ UNCHANGED <<created, done, sdRet, tick, dec, gpc>>
HandlerEnd == /\ rpc = "handler" /\ rpc' = "select"
              /\ UNCHANGED <<created, wg, done, sdRet, tick, dec, gpc, n>>
ShutdownCall == /\ created /\ ~done /\ done' = TRUE /\ UNCHANGED <<created, wg, sdRet, tick, rpc, dec, gpc, n>>
ShutdownRet == /\ done /\ ~sdRet /\ sdRet' = TRUE /\ UNCHANGED <<created, wg, done, tick, rpc, dec, gpc, n>>
GracefulCall == /\ created /\ gpc = "idle" /\ gpc' = "waiting" /\ UNCHANGED <<created, wg, done, sdRet, tick, rpc, dec, n>>
GracefulRet == /\ gpc = "waiting" /\ wg = 0 /\ gpc' = "returned" /\ UNCHANGED <<created, wg, done, sdRet, tick, rpc, dec, n>>

Next == NewTicker \/ RunStart \/ Tick \/ SelectDone \/ SelectTick \/ Got \/ HandlerEnd
          \/ ShutdownCall \/ ShutdownRet \/ GracefulCall \/ GracefulRet
Spec == Init /\ [][Next]_vars /\ WF_vars(SelectDone) /\ WF_vars(Got) /\ WF_vars(HandlerEnd) /\ WF_vars(RunStart) /\ WF_vars(GracefulRet)
Bound == n <= MaxHandlers

(* "WaitForGracefulShutdown waits until the Ticker was shut down and the last handler has terminated" *)
GracefulMeans == gpc = "returned" => (done /\ rpc = "end")
(* no handler invocation whose decision was taken after Shutdown had returned *)
NoLateHandler == rpc = "handler" => ~dec
WgSane == wg \in 0..1
(* after a shutdown the graceful wait returns *)
GracefulReturns == (done /\ gpc = "waiting") ~> (gpc = "returned")
==============================================================================
