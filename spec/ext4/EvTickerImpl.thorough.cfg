CONSTANTS
  N = 2
  MaxT = 9
  Ops1 = 4
  Ops2 = 2
  Variant = "code"
INVARIANTS OneChain RegisteredIsLive SizeMatches TickBudget
PROPERTIES NoResurrection FailedAfterBudget
