------------------------------- MODULE EvTicker -------------------------------
(* core/eventticker.EventTicker at the API level, between retries (work id X4; the retry interval of the replayed     *)
(* objects is one hour, so no retry fires - retries, thresholds and TickerFailed are the subject of TickRun.tla).      *)
(* Identifiers are numbers 10*index + n (IndexedID: Index() = id \div 10).                                            *)
(*   StartTicker(id)   registers a ticker for id unless one is registered or id's index is evicted: TickerStarted(id)  *)
(*                     then Tick(id) are triggered (synchronously); otherwise nothing happens                          *)
(*   StartTickers(ids) = StartTicker for each, in order                                                                *)
(*   StopTicker(id)    removes the ticker: TickerStopped(id); nothing happens if there is none                         *)
(*   HasTicker(id)     a ticker is registered (never for an evicted index);  QueueSize() = number of registered tickers *)
(*   EvictUntil(i)     drops (silently) all tickers with index <= i, later StartTicker calls for them do nothing        *)
(*   Clear()           StopTicker for every registered ticker (order unspecified)                                       *)
(*   Shutdown()        stops the executor; registered tickers stay listed.  A StartTicker afterwards cannot schedule    *)
(*                     anything: the contract leaves open whether it is refused (nothing happens) or the ticker is      *)
(*                     listed all the same - but QueueSize and HasTicker must keep agreeing (SizeMatches).              *)
EXTENDS Integers, Sequences, FiniteSets, SequencesExt, TLC

CONSTANTS Ids,        \* identifiers of the universe
          MaxIndex,   \* EvictUntil arguments are 1..MaxIndex
          Pairs,      \* BOOLEAN: StartTickers stimuli (two ids)
          Variant     \* "contract" | "phantom" (negative control: a refused start is counted all the same)

VARIABLES cfg, reg, evicted, down, phantom, ev
vars == <<cfg, reg, evicted, down, phantom, ev>>
View == <<cfg, reg, evicted, down, phantom>>

Cfgs == [thr : {0, 3}]
Idx(id) == id \div 10
E(e, id) == [e |-> e, id |-> id]
St(r, p) == [has |-> SetToSortSeq(r, <), size |-> Cardinality(r) + p]

Init == /\ cfg \in Cfgs /\ reg = {} /\ evicted = 0 /\ down = FALSE /\ phantom = 0
        /\ ev = [op |-> "reset", cfg |-> cfg]

(* outcome of StartTicker(id) on the set r of registered tickers: <<new set, events, phantom increment>> *)
StartOutcomes(r, id) ==
  IF Idx(id) <= evicted \/ id \in r THEN {<<r, <<>>, 0>>}
  ELSE IF down THEN (IF Variant = "phantom" THEN {<<r, <<E("started", id), E("tick", id)>>, 1>>}
                     ELSE {<<r, <<>>, 0>>, <<r \cup {id}, <<E("started", id), E("tick", id)>>, 0>>})
  ELSE {<<r \cup {id}, <<E("started", id), E("tick", id)>>, 0>>}

Do(s) ==
  CASE s.op = "reset" -> /\ cfg' = s.cfg /\ reg' = {} /\ evicted' = 0 /\ down' = FALSE /\ phantom' = 0 /\ ev' = s
    [] s.op = "Start" -> \E o \in StartOutcomes(reg, s.id) :
          /\ reg' = o[1] /\ phantom' = phantom + o[3] /\ UNCHANGED <<cfg, evicted, down>>
          /\ ev' = [op |-> "Start", id |-> s.id, res |-> o[2], st |-> St(o[1], phantom + o[3])]
    [] s.op = "Starts" -> \E o1 \in StartOutcomes(reg, s.a) : \E o2 \in StartOutcomes(o1[1], s.b) :
          /\ reg' = o2[1] /\ phantom' = phantom + o1[3] + o2[3] /\ UNCHANGED <<cfg, evicted, down>>
          /\ ev' = [op |-> "Starts", a |-> s.a, b |-> s.b, res |-> o1[2] \o o2[2], st |-> St(o2[1], phantom + o1[3] + o2[3])]
    [] s.op = "Stop" -> LET r == reg \ {s.id} IN
          /\ reg' = r /\ UNCHANGED <<cfg, evicted, down, phantom>>
          /\ ev' = [op |-> "Stop", id |-> s.id, res |-> (IF s.id \in reg THEN <<E("stopped", s.id)>> ELSE <<>>), st |-> St(r, phantom)]
    [] s.op = "Evict" -> LET r == {x \in reg : Idx(x) > s.i} IN
          /\ reg' = r /\ evicted' = (IF s.i > evicted THEN s.i ELSE evicted) /\ UNCHANGED <<cfg, down, phantom>>
          /\ ev' = [op |-> "Evict", i |-> s.i, res |-> <<>>, st |-> St(r, phantom)]
    [] s.op = "Clear" ->        \* res: the TickerStopped events sorted by identifier (the order is unspecified)
          /\ reg' = {} /\ UNCHANGED <<cfg, evicted, down, phantom>>
          /\ ev' = [op |-> "Clear", res |-> [i \in 1..Cardinality(reg) |-> E("stopped", SetToSortSeq(reg, <)[i])], st |-> St({}, phantom)]
    [] s.op = "Shutdown" ->
          /\ down' = TRUE /\ UNCHANGED <<cfg, reg, evicted, phantom>>
          /\ ev' = [op |-> "Shutdown", res |-> <<>>, st |-> St(reg, phantom)]

Stimuli == [op : {"Start", "Stop"}, id : Ids] \cup [op : {"Evict"}, i : 1..MaxIndex] \cup [op : {"Clear", "Shutdown"}]
             \cup (IF Pairs THEN [op : {"Starts"}, a : Ids, b : Ids] ELSE {})
Next == \E s \in Stimuli : Do(s)
Spec == Init /\ [][Next]_vars

(* --- the property --- *)
TypeOK == reg \subseteq Ids /\ evicted \in 0..MaxIndex /\ \A x \in reg : Idx(x) > evicted
SizeMatches == ev.op # "reset" => ev.st.size = Len(ev.st.has)            \* QueueSize() = number of ids with HasTicker
EventsOf(e) == {ev.res[i] : i \in {j \in 1..Len(ev.res) : ev.res[j].e = e}}
(* every call: TickerStarted exactly for the tickers that appear, TickerStopped exactly for those that disappear through *)
(* Stop/Clear (eviction is silent), a Tick right after each TickerStarted and nowhere else                              *)
EventsMatch == [][ev'.op # "reset" =>
                   /\ {x.id : x \in {y \in {ev'.res[i] : i \in 1..Len(ev'.res)} : y.e = "started"}} = reg' \ reg
                   /\ {x.id : x \in {y \in {ev'.res[i] : i \in 1..Len(ev'.res)} : y.e = "stopped"}}
                          = (IF ev'.op \in {"Stop", "Clear"} THEN reg \ reg' ELSE {})
                   /\ \A i \in 1..Len(ev'.res) :
                         /\ (ev'.res[i].e = "started" => (i < Len(ev'.res) /\ ev'.res[i + 1] = E("tick", ev'.res[i].id)))
                         /\ (ev'.res[i].e = "tick" => (i > 1 /\ ev'.res[i - 1] = E("started", ev'.res[i].id)))]_vars
EvictedStayOut == [][(ev'.op # "reset") => (evicted' >= evicted /\ \A x \in reg' : Idx(x) > evicted')]_vars
==============================================================================
