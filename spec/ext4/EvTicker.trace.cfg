CONSTANTS
  Ids = {11, 12, 13, 21, 22, 31, 32, 41}
  MaxIndex = 4
  Pairs = TRUE
  Variant = "contract"
