------------------------------- MODULE TimeRun -------------------------------
(* Trace specification for executions of runtime/timeutil (work id X4): one Ticker, one PrecisionTicker or one       *)
(* context with up to three Sleep calls per trace.  The driver (harness/sut/ext4/timerun.go) appends to ONE log under *)
(* a mutex: "..b" before a call, "..e" after it returned, "hb"/"he" as first/last statement INSIDE the handler; every   *)
(* event carries t = microseconds on the log's monotonic clock.  Each arm's guard is the documented contract:          *)
(*   Ticker           "task that gets executed repeatedly" every interval: invocations are sequential, the first one    *)
(*                    not before one interval after NewTicker was called; "Shutdown shuts down the Ticker": an          *)
(*                    invocation whose decision can only have been taken after Shutdown (or the cancel function of the  *)
(*                    external context) had returned never begins - that is one which begins after the previous one     *)
(*                    ended at a moment when the shutdown had returned, or the first one when the shutdown returned     *)
(*                    before the first tick was due; "WaitForShutdown waits until the Ticker was shut down";            *)
(*                    "WaitForGracefulShutdown waits until the Ticker was shut down and the last handler has            *)
(*                    terminated": it returns only after a shutdown began, while no handler runs, and none begins later *)
(*   PrecisionTicker  the callback runs sequentially, at most maxIterations times, the n-th one not before              *)
(*                    (n-1)*rate - minTimePrecision after the start, none whose decision was taken after Shutdown        *)
(*                    returned; WaitForShutdown returns only after Shutdown was called or maxIterations were performed, *)
(*                    WaitForGracefulShutdown in addition only when no callback runs; Iterations() = number of          *)
(*                    iterations performed (callbacks that returned; the last one's increment may be pending)           *)
(*   Sleep            true only after the whole duration elapsed, false only after the cancellation began; a context    *)
(*                    that was cancelled before the call with a duration of a minute or more gives false                *)
(* A real-time LOWER bound is safe under any machine load (Go timers never fire early); no upper bounds are used.       *)
EXTENDS Integers, Sequences, FiniteSets, TLC

VARIABLES cfg, S, ev
vars == <<cfg, S, ev>>
View == <<cfg, S>>

CONSTANTS Ivs,     \* intervals / rates in microseconds
          Maxs,    \* maxIterations (0 = unlimited)
          Precs,   \* minTimePrecision in microseconds
          Scenarios
Cfgs == [kind : {"ticker", "precision", "sleep"}, sc : Scenarios, iv : Ivs, max : Maxs, prec : Precs]
Long == 60000000   \* a duration that cannot elapse within an execution

Sleeper == [on |-> FALSE, t0 |-> 0, d |-> 0, pre |-> FALSE]
Start == [nbT |-> -1, ne |-> FALSE, inH |-> FALSE, hb |-> 0, he |-> 0, sdB |-> FALSE, sdE |-> FALSE, blockH |-> FALSE,
          gDone |-> FALSE, z |-> [i \in 1..3 |-> Sleeper]]
Init == /\ cfg \in Cfgs /\ S = Start /\ ev = [op |-> "reset", cfg |-> cfg]

Over(c) == S.sdB \/ (c.kind = "precision" /\ c.max > 0 /\ S.he = c.max)   \* the object shut down or was shut down

(* --- guard of every event kind (c = configuration, s = event) --- *)
Accept(c, s) ==
  CASE s.op = "nb" -> c.kind # "sleep" /\ S.nbT = -1
    [] s.op = "ne" -> S.nbT # -1 /\ ~S.ne
    [] s.op = "hb" -> /\ S.nbT # -1 /\ ~S.inH /\ ~S.blockH /\ s.n = S.hb + 1
                      /\ (c.kind = "ticker" => s.t >= S.nbT + c.iv)
                      /\ (c.kind = "precision" => /\ (c.max = 0 \/ S.hb < c.max)
                                                  /\ s.t >= S.nbT + (s.n - 1) * c.iv - c.prec)
    [] s.op = "he" -> S.inH /\ s.n = S.hb
    [] s.op = "sb" -> (s.via = "call" => S.ne)
    [] s.op = "se" -> S.sdB
    [] s.op = "wb" -> S.ne
    [] s.op = "we" -> Over(c)
    [] s.op = "gb" -> S.ne
    [] s.op = "ge" -> Over(c) /\ ~S.inH
    [] s.op = "it" -> /\ c.kind = "precision" /\ S.ne
                      /\ s.v <= S.he /\ s.v >= S.he - 1
                      /\ ((S.inH \/ S.gDone) => s.v = S.he)
    [] s.op = "zb" -> c.kind = "sleep" /\ s.z \in 1..3 /\ ~S.z[s.z].on /\ s.d >= 0
    [] s.op = "ze" -> /\ S.z[s.z].on
                      /\ (s.res => s.t - S.z[s.z].t0 >= S.z[s.z].d)
                      /\ (~s.res => S.sdB)
                      /\ ((S.z[s.z].pre /\ S.z[s.z].d >= Long) => ~s.res)
    [] s.op = "cb" -> c.kind = "sleep"
    [] s.op = "ce" -> S.sdB
    [] s.op = "final" -> /\ s.hung = <<>> /\ ~S.inH /\ \A i \in 1..3 : ~S.z[i].on
                         /\ (c.kind = "precision" => /\ s.v = S.he
                                                     /\ ((c.max > 0 /\ ~S.sdB) => S.he = c.max))
    [] OTHER -> FALSE      \* "panic" and anything unknown

Step(c, s) ==
  CASE s.op = "nb" -> [S EXCEPT !.nbT = s.t, !.blockH = @ \/ S.sdE]
    [] s.op = "ne" -> [S EXCEPT !.ne = TRUE]
    [] s.op = "hb" -> [S EXCEPT !.inH = TRUE, !.hb = @ + 1]
    [] s.op = "he" -> [S EXCEPT !.inH = FALSE, !.he = @ + 1, !.blockH = @ \/ S.sdE]
    [] s.op = "sb" -> [S EXCEPT !.sdB = TRUE]
    [] s.op = "se" -> [S EXCEPT !.sdE = TRUE,
                                !.blockH = @ \/ (c.kind = "ticker" /\ S.nbT # -1 /\ S.hb = 0 /\ s.t < S.nbT + c.iv)]
    [] s.op = "ge" -> [S EXCEPT !.blockH = TRUE, !.gDone = TRUE]
    [] s.op = "zb" -> [S EXCEPT !.z[s.z] = [on |-> TRUE, t0 |-> s.t, d |-> s.d, pre |-> S.sdE]]
    [] s.op = "ze" -> [S EXCEPT !.z[s.z].on = FALSE]
    [] s.op = "cb" -> [S EXCEPT !.sdB = TRUE]
    [] s.op = "ce" -> [S EXCEPT !.sdE = TRUE]
    [] OTHER -> S

Do(s) ==
  CASE s.op = "reset" -> cfg' = s.cfg /\ S' = Start /\ ev' = s
    [] OTHER -> UNCHANGED cfg /\ Accept(cfg, s) /\ S' = Step(cfg, s) /\ ev' = s

(* --- a small closed system for checking the spec itself (time = 0 everywhere, cfg.iv = 0) --- *)
Stimuli == [op : {"nb", "ne", "cb", "ce"}, t : {0}] \cup [op : {"hb", "he"}, n : 1..3, t : {0}]
             \cup [op : {"sb", "se"}, via : {"call", "ctx"}, t : {0}] \cup [op : {"wb", "we", "gb", "ge"}, w : {1}, t : {0}]
             \cup [op : {"it"}, v : 0..3, t : {0}] \cup [op : {"zb"}, z : {1}, d : {0, Long}, t : {0}]
             \cup [op : {"ze"}, z : {1}, res : BOOLEAN, t : {0}]
Next == \E s \in Stimuli : Do(s)
Spec == Init /\ [][Next]_vars
Sane == /\ S.he <= S.hb /\ S.hb <= S.he + 1 /\ (S.inH <=> S.hb = S.he + 1)
        /\ (S.gDone => (S.blockH /\ ~S.inH /\ Over(cfg)))
        /\ (S.sdE => S.sdB)
        /\ ((cfg.kind = "precision" /\ cfg.max > 0) => S.hb <= cfg.max)
(* whatever the spec accepts: no invocation begins after a graceful wait returned; handler counters only grow *)
NothingAfterGraceful == [][(S.gDone /\ ev'.op # "reset") => (S'.hb = S.hb /\ S'.gDone)]_vars
BlockIsFinal == [][(S.blockH /\ ev'.op # "reset") => (S'.blockH /\ S'.hb = S.hb)]_vars
==============================================================================
