------------------------------- MODULE HubRun -------------------------------
(* Trace specification for executions of web/websockethub (work id X4): one Hub behind an httptest server on the        *)
(* loopback interface, websocket clients that dial it, broadcasters, direct senders, clients closing their connection    *)
(* (orderly / abruptly), Unregister calls and the cancellation of the hub's context.  The driver                        *)
(* (harness/sut/ext4/hubrun.go) appends to ONE log under a mutex:                                                        *)
(*   rb               hub.Run is about to be started;  up: the driver saw Stopped() = false                              *)
(*   dial {c}         client c is about to dial;  conn {c} / disc {c}: logged inside the onConnect / onDisconnect hooks   *)
(*   bb {m,dd} / be {m,err}       BroadcastMsg(m, dontDrop = dd) called / returned (m = 100*sender + sequence number)     *)
(*   qb {c,m,dd} / qe {c,m,err}   Client.Send on client c called / returned                                               *)
(*   rx {c,m}         the dialling side of client c read message m;  rxend {c}: its read loop ended (connection closed)   *)
(*   cb {c} / ce {c}  the dialling side closes its connection;  ub {c} / ue {c,err}: hub.Unregister(client c)             *)
(*   sync             the driver waited (10 s at most) for all deliveries and removals that are due                      *)
(*   kb / ke          the hub's context is cancelled;  re: Run returned;  final {hung, clients}                           *)
(* Guards = the contract ("Hub maintains the set of active clients and broadcasts messages to the clients"):            *)
(*   - a client receives only messages that were broadcast / sent to it, each at most once, those of one sender in the    *)
(*     order sent, none that its FilterCallback rejects, and no broadcast that began after its onDisconnect hook ran      *)
(*   - a dontDrop message accepted (nil) while a client was registered is delivered to that client unless the client is   *)
(*     dropped (its connection ends); a dropped client is removed (onDisconnect) - both checked at "sync"                *)
(*   - BroadcastMsg / Send succeed while the hub runs, fail with ErrWebsocketServerUnavailable before Run and after the   *)
(*     cancellation returned; Send to a removed client fails                                                             *)
(*   - onConnect / onDisconnect at most once per client, in this order; when Run returns every client was removed;        *)
(*     nothing hangs (Run returns after the cancellation, every call returns)                                            *)
EXTENDS Integers, Sequences, FiniteSets, TLC

CONSTANTS Clients, Msgs, Scenarios
VARIABLES cfg, C, M, H, ev
vars == <<cfg, C, M, H, ev>>
View == <<cfg, C, M, H>>

Cfgs == [sc : Scenarios, bq : {1, 4, 64}, sq : {1, 4, 64}]
Sender(m) == m \div 100
Even(m) == m % 2 = 0
Flt(c) == c = 2                 \* client 2 has a FilterCallback that only lets even messages pass

C0 == [dial |-> FALSE, conn |-> FALSE, disc |-> FALSE, gone |-> FALSE, ended |-> FALSE, got |-> {}]
H0 == [rb |-> FALSE, up |-> FALSE, kb |-> FALSE, ke |-> FALSE, re |-> FALSE]
Init == /\ cfg \in Cfgs /\ C = [c \in Clients |-> C0] /\ M = {} /\ H = H0 /\ ev = [op |-> "reset", cfg |-> cfg]

Known(m) == \E x \in M : x.m = m
Msg(m) == CHOOSE x \in M : x.m = m
Running == H.up /\ ~H.kb
Down == ~H.rb \/ H.ke
Errs == {"nil", "unavailable", "disconnected", "canceled"}
(* the last message of sender g that client c has received so far *)
LastFrom(c, g) == LET s == {x \in C[c].got : Sender(x) = g} IN IF s = {} THEN 0 ELSE CHOOSE x \in s : \A y \in s : y <= x
Owed(x) == IF x.to = 0 THEN x.reg ELSE x.reg \cap {x.to}

SyncOK == /\ \A x \in M : (x.done /\ x.ok /\ x.dd) =>
                 \A c \in Owed(x) : \/ C[c].gone \/ C[c].disc
                                    \/ (Flt(c) /\ x.to = 0 /\ ~Even(x.m))
                                    \/ x.m \in C[c].got
          /\ \A c \in Clients : (C[c].conn /\ C[c].gone) => C[c].disc
AllRemoved == \A c \in Clients : C[c].conn => C[c].disc

Do(s) ==
  CASE s.op = "reset" -> cfg' = s.cfg /\ C' = [c \in Clients |-> C0] /\ M' = {} /\ H' = H0 /\ ev' = s
    [] s.op = "rb" -> ~H.rb /\ H' = [H EXCEPT !.rb = TRUE] /\ UNCHANGED <<cfg, C, M>> /\ ev' = s
    [] s.op = "up" -> H.rb /\ H' = [H EXCEPT !.up = TRUE] /\ UNCHANGED <<cfg, C, M>> /\ ev' = s
    [] s.op = "dial" -> ~C[s.c].dial /\ C' = [C EXCEPT ![s.c].dial = TRUE] /\ UNCHANGED <<cfg, M, H>> /\ ev' = s
    [] s.op = "conn" -> /\ C[s.c].dial /\ ~C[s.c].conn /\ H.rb /\ ~H.re
                        /\ C' = [C EXCEPT ![s.c].conn = TRUE] /\ UNCHANGED <<cfg, M, H>> /\ ev' = s
    [] s.op = "disc" -> /\ C[s.c].conn /\ ~C[s.c].disc /\ ~H.re
                        /\ C' = [C EXCEPT ![s.c].disc = TRUE] /\ UNCHANGED <<cfg, M, H>> /\ ev' = s
    [] s.op \in {"bb", "qb"} ->
         LET to == IF s.op = "qb" THEN s.c ELSE 0 IN
         /\ ~Known(s.m) /\ (to # 0 => C[to].conn)
         /\ M' = M \cup {[m |-> s.m, dd |-> s.dd, to |-> to, done |-> FALSE, ok |-> FALSE,
                          reg |-> {c \in Clients : C[c].conn /\ ~C[c].gone /\ ~C[c].disc},
                          late |-> {c \in Clients : C[c].disc},
                          run |-> Running, down |-> Down]}
         /\ UNCHANGED <<cfg, C, H>> /\ ev' = s
    [] s.op \in {"be", "qe"} ->
         /\ Known(s.m) /\ ~Msg(s.m).done /\ s.err \in Errs
         /\ LET x == Msg(s.m) IN
            /\ (s.err = "nil" => ~x.down)
            /\ (x.down => s.err # "nil")                                   \* (Send reports the cancelled client context or the stopped hub)
            /\ (s.op = "be" /\ x.down => s.err = "unavailable")
            /\ (s.op = "be" => s.err \in {"nil", "unavailable"})
            /\ (s.op = "be" /\ x.run /\ ~H.kb => s.err = "nil")
            /\ (s.op = "qe" /\ x.to \in x.late => s.err # "nil")                    \* Send to a removed client fails
            /\ M' = (M \ {x}) \cup {[x EXCEPT !.done = TRUE, !.ok = (s.err = "nil")]}
         /\ UNCHANGED <<cfg, C, H>> /\ ev' = s
    [] s.op = "rx" ->
         /\ C[s.c].conn /\ ~C[s.c].ended /\ Known(s.m)
         /\ LET x == Msg(s.m) IN
            /\ (x.to = 0 \/ x.to = s.c)
            /\ s.c \notin x.late                              \* nothing that was broadcast after the client's removal
            /\ s.m \notin C[s.c].got                          \* at most once
            /\ (Flt(s.c) /\ x.to = 0 => Even(s.m))            \* the FilterCallback is honoured
            /\ s.m > LastFrom(s.c, Sender(s.m))               \* the order of a sender is kept
         /\ C' = [C EXCEPT ![s.c].got = @ \cup {s.m}] /\ UNCHANGED <<cfg, M, H>> /\ ev' = s
    [] s.op = "rxend" -> /\ C[s.c].dial /\ ~C[s.c].ended
                         /\ C' = [C EXCEPT ![s.c].ended = TRUE, ![s.c].gone = TRUE] /\ UNCHANGED <<cfg, M, H>> /\ ev' = s
    [] s.op \in {"cb", "ub"} -> /\ C[s.c].dial /\ C' = [C EXCEPT ![s.c].gone = TRUE] /\ UNCHANGED <<cfg, M, H>> /\ ev' = s
    [] s.op = "ce" -> C[s.c].gone /\ UNCHANGED <<cfg, C, M, H>> /\ ev' = s
    [] s.op = "ue" -> /\ C[s.c].gone /\ s.err \in {"nil", "unavailable"} /\ (s.err = "unavailable" => H.kb)
                      /\ UNCHANGED <<cfg, C, M, H>> /\ ev' = s
    [] s.op = "sync" ->
         /\ ~H.kb /\ (SyncOK = TRUE)      \* ("= TRUE": TLC evaluates the quantified disjunctions as a value, not as an action)
         /\ UNCHANGED <<cfg, C, M, H>> /\ ev' = s
    [] s.op = "kb" -> H' = [H EXCEPT !.kb = TRUE] /\ UNCHANGED <<cfg, C, M>> /\ ev' = s
    [] s.op = "ke" -> H.kb /\ H' = [H EXCEPT !.ke = TRUE] /\ UNCHANGED <<cfg, C, M>> /\ ev' = s
    [] s.op = "re" -> /\ H.rb /\ H.kb /\ ~H.re /\ (AllRemoved = TRUE)
                      /\ H' = [H EXCEPT !.re = TRUE] /\ UNCHANGED <<cfg, C, M>> /\ ev' = s
    [] s.op = "final" -> /\ s.hung = <<>> /\ s.clients = 0 /\ (H.rb => H.re) /\ \A x \in M : x.done
                         /\ UNCHANGED <<cfg, C, M, H>> /\ ev' = s
    [] OTHER -> FALSE /\ UNCHANGED vars

(* --- a small closed system for checking the spec itself --- *)
Stimuli == [op : {"rb", "up", "sync", "kb", "ke", "re"}] \cup [op : {"dial", "conn", "disc", "rxend", "cb", "ce", "ub"}, c : Clients]
             \cup [op : {"ue"}, c : Clients, err : {"nil", "unavailable"}]
             \cup [op : {"bb"}, m : Msgs, dd : BOOLEAN] \cup [op : {"be"}, m : Msgs, err : {"nil", "unavailable"}]
             \cup [op : {"rx"}, c : Clients, m : Msgs]
Next == \E s \in Stimuli : Do(s)
Spec == Init /\ [][Next]_vars
Small == cfg.bq = 1 /\ cfg.sq = 1
Sane == /\ \A c \in Clients : /\ (C[c].disc => C[c].conn) /\ (C[c].conn => C[c].dial)
                              /\ \A m \in C[c].got : Known(m) /\ c \notin Msg(m).late
        /\ \A x \in M : (x.ok => (x.done /\ ~x.down))
        /\ (H.re => \A c \in Clients : C[c].conn => C[c].disc)
(* whatever the spec accepts: a removed client receives nothing that was broadcast afterwards; received sets only grow *)
NoLateDelivery == [][(ev'.op = "rx") => (ev'.c \notin Msg(ev'.m).late /\ ev'.m \notin C[ev'.c].got)]_vars
==============================================================================
