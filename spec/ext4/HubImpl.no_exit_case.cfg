CONSTANTS
  Clients = {1, 2}
  Pumps = {"r", "w", "k"}
  Cap = 1
  Variant = "no_exit_case"
INVARIANTS TypeOK HubNotStuck
PROPERTIES EndedAreRemoved
CHECK_DEADLOCK TRUE
