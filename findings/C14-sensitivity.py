#!/usr/bin/env python3
"""Sensitivity of the C14 check: apply one realistic breaking change to the /repo working tree, run
`python3 check.py C14`, expect VIOLATION, revert with git checkout.

usage: python3 findings/C14-sensitivity.py [name ...]      (default: all)
"""
import glob
import json
import os
import subprocess
import sys
import time

ENV = dict(os.environ, GOFLAGS="-mod=mod", GOPROXY="off", GOSUMDB="off", GOTOOLCHAIN="local")
R = "ds/reactive/"

MUT = {
    # Appendix B: Counter forgets conditionWasTrue = conditionIsTrue -> double count
    "counter-forgets-state": (R + "counter_impl.go", "\t\t\t\tconditionWasTrue = conditionIsTrue\n", ""),
    # Appendix B: SubtractedElementsCollector compares with threshold instead of threshold-1
    "collector-threshold": ("ds/set_impl.go", "== lo.Cond(increase, threshold, threshold-1)", "== lo.Cond(increase, threshold, threshold)"),
    # Appendix B: EvictionState hands out the pre-triggered event only for slot < last
    "evict-lt-last": (R + "eviction_state_impl.go", "if e.lastEvictedSlot == nil || slot > *e.lastEvictedSlot {", "if e.lastEvictedSlot == nil || slot >= *e.lastEvictedSlot {"),
    # EvictionState.evict starts collecting one slot too late
    "evict-skips-first": (R + "eviction_state_impl.go", "startingSlot = *e.lastEvictedSlot + Type(1)", "startingSlot = *e.lastEvictedSlot + Type(2)"),
    # Appendix B: WaitGroup increments after inserting (per element) -> early trigger
    "waitgroup-inc-after-insert": (R + "wait_group_impl.go", [
        ("\tw.pendingElementsCounter.Add(int32(len(elements)))\n", ""),
        ("\t\tif !w.pendingElements.Add(element) {\n\t\t\tverifYield(\"waitgroup-add-duplicate\")\n\n\t\t\tif w.pendingElementsCounter.Add(-1) == 0 {\n\t\t\t\tw.Trigger()\n\t\t\t}\n\t\t}\n",
         "\t\tif w.pendingElements.Add(element) {\n\t\t\tw.pendingElementsCounter.Add(1)\n\t\t}\n")]),
    # the fixes of this property taken back, one by one
    "revert-waitgroup-dup-trigger": (R + "wait_group_impl.go", "\t\t\tif w.pendingElementsCounter.Add(-1) == 0 {\n\t\t\t\tw.Trigger()\n\t\t\t}\n", "\t\t\tw.pendingElementsCounter.Add(-1)\n"),
    "revert-sorted-unsub-outside-mutex": (R + "sorted_set_impl.go",
                                          "\t\t// weight updates that are already on their way are ignored from now on\n\t\tdeletedElement.deleted = true\n",
                                          "\t\tdeletedElement.unsubscribeFromWeightUpdates()\n\t\tdeletedElement.unsubscribeFromWeightUpdates = func() {}\n"),
    "revert-sorted-initial-update-test": (R + "sorted_set_impl.go", "\t\t\tif initialUpdate {\n\t\t\t\tinitialUpdate = false\n\t\t\t} else {\n", "\t\t\tif _ = initialUpdate; listElement.unsubscribeFromWeightUpdates != nil {\n"),
    "sorted-no-deleted-flag": (R + "sorted_set_impl.go", "\t\tdeletedElement.deleted = true\n", ""),
    "revert-replace-added": (R + "set_impl.go", "\t\treturn !s.value.Has(element)\n", "\t\treturn true\n"),
    # DerivedVariable2: the second input's subscription computes with a stale first input
    "derived2-stale-input": (R + "variable.go",
                             "\t\t\tinput2.OnUpdate(func(_, input2 InputType2) {\n\t\t\t\td.Compute(func(currentValue Type) Type { return compute(currentValue, input1.Get(), input2) })\n\t\t\t}, true),\n\t\t)\n\t}, initialValue...)\n}\n\n// NewDerivedVariable3",
                             "\t\t\tinput2.OnUpdate(func(_, input2 InputType2) {\n\t\t\t\tstale := input1.Get()\n\t\t\t\td.Compute(func(currentValue Type) Type { return compute(currentValue, stale, input2) })\n\t\t\t}, true),\n\t\t)\n\t}, initialValue...)\n}\n\n// NewDerivedVariable3"),
    # InheritFrom does not copy a zero value of the new source
    "inherit-no-initial-zero": (R + "variable_impl.go", "\t\tv.Set(newValue)\n\t}, true)\n", "\t\tv.Set(newValue)\n\t})\n"),
    # DerivedSet forgets to remove a source's elements on unsubscribe
    "derivedset-unsub-keeps-elements": (R + "set_impl.go", "unsubscribeCallbacks = append(unsubscribeCallbacks, unsubscribeFromSource, removeSourceElements)", "_ = removeSourceElements\n\t\tunsubscribeCallbacks = append(unsubscribeCallbacks, unsubscribeFromSource)"),
    # SortedSet: ties are swapped (<=) - an element overtakes equal weights
    "sorted-heaviest-not-updated": (R + "sorted_set_impl.go", "\t\t\t// moved away from the heaviest element\n\t\t\ts.heaviestElement.Set(s.sortedElements[0].element)\n", "\t\t\t// moved away from the heaviest element\n"),
    "sorted-swap-direction": (R + "sorted_set_impl.go", "if swapped = left.weight < right.weight; !swapped && left.weight == right.weight {", "if swapped = left.weight > right.weight; !swapped && left.weight == right.weight {"),
}


def main():
    names = sys.argv[1:] or list(MUT)
    for name in names:
        path, pairs = MUT[name][0], MUT[name][1:]
        if isinstance(pairs[0], list):
            pairs = pairs[0]
        else:
            pairs = [tuple(pairs)]
        f = "/repo/" + path
        src = open(f).read()
        bad = [old for old, _ in pairs if src.count(old) != 1]
        if bad:
            print("%s: anchor not found exactly once - skipped: %r" % (name, bad[0][:60]))
            continue
        try:
            for old, new in pairs:
                src = src.replace(old, new)
            open(f, "w").write(src)
            t = time.time()
            p = subprocess.run(["timeout", "1500", "python3", "check.py", "C14"], cwd="/verif", env=ENV,
                               stdout=subprocess.PIPE, stderr=subprocess.STDOUT, text=True)
            wall = time.time() - t
        finally:
            subprocess.run(["git", "-C", "/repo", "checkout", "--", path], check=True)
        sigs = [json.load(open(v))["sig"] for v in sorted(glob.glob("/verif/out/C14/violation_*.json"))]
        nviol = p.stdout.count("\nVIOLATION ") + p.stdout.startswith("VIOLATION ")
        print("%-36s exit=%d VIOLATION lines=%d wall=%.0fs sigs=%s" % (name, p.returncode, nviol, wall, sorted(set(sigs))), flush=True)
        with open("/verif/out/C14.sens.%s.log" % name, "w") as fh:
            fh.write(p.stdout)
    dirty = subprocess.run(["git", "-C", "/repo", "status", "--short", "ds/"], stdout=subprocess.PIPE, text=True).stdout
    print("repo ds/ clean:", dirty.strip() == "")


if __name__ == "__main__":
    main()
