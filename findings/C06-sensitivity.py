import subprocess, sys, os, re
env=dict(os.environ, GOFLAGS="-mod=mod", GOPROXY="off", GOSUMDB="off", GOTOOLCHAIN="local")
TV='/repo/kvstore/typedvalue.go'; TS='/repo/kvstore/typedstore.go'
M=[
 ("M1 Set: cache updated before kv.Set", TV,
  '''	if valueBytes, err := t.vToBytes(value); err != nil {
		return ierrors.Wrap(err, "failed to encode value")
	} else if err = t.kv.Set(t.keyBytes, valueBytes); err != nil {
		return ierrors.Wrap(err, "failed to store value in KV store")
	}

	t.valueCached = &value
	t.hasCached = &truePtr

	return nil''',
  '''	valueBytes, err := t.vToBytes(value)
	if err != nil {
		return ierrors.Wrap(err, "failed to encode value")
	}

	t.valueCached = &value
	t.hasCached = &truePtr

	if err = t.kv.Set(t.keyBytes, valueBytes); err != nil {
		return ierrors.Wrap(err, "failed to store value in KV store")
	}

	return nil'''),
 ("M2 Delete returns nil instead of the store error", TV,
  '''		return ierrors.Wrap(err, "failed to delete entry from KV store")
	}

	t.valueCached = nil''','''		return nil
	}

	t.valueCached = nil'''),
 ("M3 Iterate continues past a value decode error", TS,
  '''		if valueErr != nil {
			innerErr = valueErr

			return false
		}''','''		if valueErr != nil {
			innerErr = valueErr

			return true
		}'''),
 ("M4 Iterate does not report the decode error", TS,
  '''		return ierrors.Wrap(iterationErr, "failed to iterate over KV store")
	}

	return innerErr''','''		return ierrors.Wrap(iterationErr, "failed to iterate over KV store")
	}
	_ = innerErr

	return nil'''),
 ("M5 Get caches 'absent' on any store error", TV,
  '''		if ierrors.Is(valueBytesErr, ErrKeyNotFound) {
			t.hasCached = &falsePtr
		}

		return value, ierrors.Wrap(valueBytesErr, "failed to retrieve value from KV store")''',
  '''		t.hasCached = &falsePtr

		return value, ierrors.Wrap(valueBytesErr, "failed to retrieve value from KV store")'''),
 ("M6 Has caches the answer of a failed store call", TV,
  '''	} else if has, err = t.kv.Has(t.keyBytes); err != nil {
		return false, ierrors.Wrap(err, "failed to check whether key exists")
	}

	t.hasCached = &has''','''	} else if has, err = t.kv.Has(t.keyBytes); err != nil {
		t.hasCached = &has

		return false, ierrors.Wrap(err, "failed to check whether key exists")
	}

	t.hasCached = &has'''),
 ("M7 Compute: cache updated before kv.Set", TV,
  '''	} else if err = t.kv.Set(t.keyBytes, newValueBytes); err != nil {
		return currentValue, ierrors.Wrap(err, "failed to store new value in KV store")
	}

	t.valueCached = &newValue
	t.hasCached = &truePtr
''','''	} else if t.valueCached, t.hasCached = &newValue, &truePtr; false {
	} else if err = t.kv.Set(t.keyBytes, newValueBytes); err != nil {
		return currentValue, ierrors.Wrap(err, "failed to store new value in KV store")
	}
'''),
 ("M8 TypedStore.Has swallows the store error", TS,
  '''	return t.kv.Has(keyBytes)''','''	has, _ = t.kv.Has(keyBytes)

	return has, nil'''),
 ("M9 Compute decode error of the current value ignored (treated as absent)", TV,
  '''		} else if currentValue, _, err = t.bytesToV(valueBytes); err != nil {
			return newValue, ierrors.Wrap(err, "failed to decode value")
		} else {''','''		} else if currentValue, _, err = t.bytesToV(valueBytes); err != nil {
			exists = false
		} else {'''),
 ("M10 the fixed defect re-introduced (Compute tests err instead of newValueBytesErr)", TV,
  '''newValueBytesErr := t.vToBytes(newValue); newValueBytesErr != nil {''','''newValueBytesErr := t.vToBytes(newValue); err != nil {'''),
 ("M11 TypedStore.Delete ignores the store error", TS,
  '''		return ierrors.Wrap(err, "failed to delete entry from KV store")
	}

	return nil
}

func (t *TypedStore[K, V]) Iterate''','''		return nil
	}

	return nil
}

func (t *TypedStore[K, V]) Iterate'''),
]
only = sys.argv[1:] 
for name, path, old, new in M:
    if only and name.split()[0] not in only: continue
    src=open(path).read()
    assert src.count(old)==1, (name, src.count(old))
    try:
        open(path,'w').write(src.replace(old,new))
        b=subprocess.run(['go','build','./...'],cwd='/repo/kvstore',env=env,capture_output=True,text=True)
        if b.returncode!=0:
            print(name,'DOES NOT COMPILE',b.stderr[-500:]); continue
        t=subprocess.run(['go','test','-vet=off','-count=1','.'],cwd='/repo/kvstore',env=env,capture_output=True,text=True)
        p=subprocess.run(['python3','check.py','C06'],cwd='/verif',env=env,capture_output=True,text=True,timeout=600)
        sigs=set()
        import glob,json
        for f in glob.glob('/verif/out/C06/violation_*.json'):
            sigs.add(json.load(open(f))['sig'])
        print("%s | repo tests %s | check exit %d | %s" % (name, 'pass' if t.returncode==0 else 'FAIL', p.returncode, sorted(sigs)), flush=True)
    finally:
        subprocess.run(['git','-C','/repo','checkout','--',path.replace('/repo/','')],check=True)
print(subprocess.run(['git','-C','/repo','status','--short'],capture_output=True,text=True).stdout or 'repo clean')
