"""C04 sensitivity: apply one realistic breaking change at a time to /repo/kvstore (working tree only), run\n`python3 check.py C04`, print the VIOLATION lines, revert with git checkout.  m10/m11/m12 are behaviourally\nequivalent changes (not detectable by any black-box check); all others were reported as VIOLATION.\nusage: python3 findings/C04-sensitivity.py [mutant ...]"""
import subprocess, sys, os, re, time
os.environ.update({"GOFLAGS":"-mod=mod","GOPROXY":"off","GOSUMDB":"off","GOTOOLCHAIN":"local"})
R="/repo/kvstore/"
MUTS = {
 "m1_strip_prefix_len": (R+"mapdb/synced_map.go",
    [("if !consume([]byte(key)[len(realm):], copiedElements[key]) {", "if !consume([]byte(key)[len(prefix):], copiedElements[key]) {")]),
 "m2_deleteprefix_no_realm": (R+"mapdb/mapdb.go",
    [("s.m.deletePrefix(byteutils.ConcatBytes(s.realm, prefix))", "s.m.deletePrefix(prefix)")]),
 "m3_get_no_copy": (R+"mapdb/synced_map.go",
    [("return byteutils.ConcatBytes(value), true", "return value, true")]),
 "m4_batched_ignores_closed": (R+"mapdb/mapdb.go",
    [("func (s *mapDB) Batched() (kvstore.BatchedMutations, error) {\n\tif s.closed.Load() {\n\t\treturn nil, kvstore.ErrStoreClosed\n\t}\n", "func (s *mapDB) Batched() (kvstore.BatchedMutations, error) {\n")]),
 "m5_flushkv_cancel_not_forwarded": (R+"flushkv/flushkv.go",
    [("func (b *batchedMutations) Cancel() {\n\tb.batched.Cancel()\n}", "func (b *batchedMutations) Cancel() {\n}")]),
 "m6_set_no_copy": (R+"mapdb/synced_map.go",
    [("s.m[string(key)] = byteutils.ConcatBytes(value)", "s.m[string(key)] = value")]),
 "m7_iteratekeys_ignores_direction": (R+"mapdb/synced_map.go",
    [("\tfor _, key := range utils.SortSlice(keysSlice, iterDirection...) {\n\t\tif !consume([]byte(key)[len(realm):]) {", "\tfor _, key := range utils.SortSlice(keysSlice) {\n\t\tif !consume([]byte(key)[len(realm):]) {")]),
 "m8_debug_withextendedrealm_replaces": (R+"debug/debug.go",
    [("return s.WithRealm(byteutils.ConcatBytes(s.Realm(), realm))", "return s.WithRealm(byteutils.ConcatBytes(realm))")]),
 "m9_commit_after_close_ok": (R+"mapdb/mapdb.go",
    [("func (b *batchedMutations) Commit() error {\n\tif b.closed.Load() {\n\t\treturn kvstore.ErrStoreClosed\n\t}\n", "func (b *batchedMutations) Commit() error {\n")]),
 "m10_iterate_stop_one_late": (R+"mapdb/synced_map.go",
    [("\t\tif !consume([]byte(key)[len(realm):], copiedElements[key]) {\n\t\t\tbreak\n\t\t}", "\t\tif !consume([]byte(key)[len(realm):], copiedElements[key]) {\n\t\t\treturn\n\t\t}")]),
 "m11_batch_delete_keeps_set": (R+"mapdb/mapdb.go",
    [("\tdelete(b.setOperations, stringKey)\n", "")]),
 "m12_flushkv_clear_is_deleteprefix_empty_on_root": (R+"flushkv/flushkv.go",
    [("if err := s.store.Clear(); err != nil {", "if err := s.store.DeletePrefix(nil); err != nil {")]),
}

MUTS.update({
 "m10b_iterate_ignores_stop": (R+"mapdb/synced_map.go",
    [("\t\tif !consume([]byte(key)[len(realm):], copiedElements[key]) {\n\t\t\tbreak\n\t\t}", "\t\tconsume([]byte(key)[len(realm):], copiedElements[key])")]),
 "m11b_batch_set_keeps_delete": (R+"mapdb/mapdb.go",
    [("\tdelete(b.deleteOperations, stringKey)\n", "")]),
 "m12b_flushkv_deleteprefix_is_delete": (R+"flushkv/flushkv.go",
    [("if err := s.store.DeletePrefix(prefix); err != nil {", "if err := s.store.Delete(prefix); err != nil {")]),
 "m13_clear_ignores_realm": (R+"mapdb/mapdb.go",
    [("\ts.m.deletePrefix(s.realm)\n", "\ts.m.deletePrefix(nil)\n")]),
 "m15_withrealm_extends": (R+"mapdb/mapdb.go",
    [("\t\trealm:  realm,\n", "\t\trealm:  byteutils.ConcatBytes(s.realm, realm),\n")]),
 "m16_has_ignores_closed": (R+"mapdb/mapdb.go",
    [("func (s *mapDB) Has(key kvstore.Key) (bool, error) {\n\tif s.closed.Load() {\n\t\treturn false, kvstore.ErrStoreClosed\n\t}\n", "func (s *mapDB) Has(key kvstore.Key) (bool, error) {\n")]),
})
which = sys.argv[1:] or list(MUTS)
for name in which:
    path, reps = MUTS[name]
    src = open(path).read()
    new = src
    for a, b in reps:
        assert a in new, (name, a)
        new = new.replace(a, b, 1)
    open(path, "w").write(new)
    t = time.time()
    try:
        p = subprocess.run(["timeout", "900", "python3", "check.py", "C04"], cwd="/verif", stdout=subprocess.PIPE, stderr=subprocess.STDOUT, text=True)
        out = p.stdout
        rc = p.returncode
    finally:
        subprocess.run(["git", "-C", "/repo", "checkout", "--", path[len("/repo/"):]], check=True)
    os.makedirs("/verif/out/C04-sens", exist_ok=True); open("/verif/out/C04-sens/%s.txt" % name, "w").write(out)
    vio = [l for l in out.splitlines() if l.startswith("VIOLATION") or l.startswith("  what") or l.startswith("INCONCLUSIVE")]
    print("==", name, "rc=%d" % rc, "%.0fs" % (time.time()-t))
    for l in vio: print("   ", l[:400])
    sys.stdout.flush()
print(subprocess.run(["git","-C","/repo","status","--short","kvstore"],stdout=subprocess.PIPE,text=True).stdout or "repo kvstore clean")
