#!/usr/bin/env python3
"""Sensitivity of check X3: realistic changes (they compile) are applied one at a time to a PRIVATE worktree of the repository
(/tmp/x3-wt, made with `git -C /repo worktree add --detach /tmp/x3-wt HEAD`, never /repo itself);
`VERIF_REPO=/tmp/x3-wt python3 check.py X3 --only <subsystem>` must report VIOLATION.
usage: python3 findings/X3-sensitivity.py [name-substring] [--tests] [--keep]
       --tests: also run the package's own tests on the mutant; --keep: leave the worktree in place
"""
import json
import os
import re
import subprocess
import sys

MUT = "/tmp/x3-wt"
LG = "log/logger_impl.go"
LV = "log/level.go"
VN = "runtime/valuenotifier/listener.go"
SD = "app/shutdown/shutdown.go"

CHANGES = [
    # ---- log ----
    ("L1-log-strictly-below", "Logger", LG,
     'func (l *logger) Log(msg string, level Level, args ...any) {\n\tif l != nil && l.level.Level() <= level {',
     'func (l *logger) Log(msg string, level Level, args ...any) {\n\tif l != nil && l.level.Level() < level {'),
    ("L2-path-joined-with-empty-root", "Logger", LG, 'if parentLogger.path != "" {', 'if parentLogger != nil {'),
    ("L3-child-shutdown-keeps-following", "Logger", LG, '\tcase true:\n\t\tl.unsubscribeFromParent()', '\tcase true:\n\t\t_ = l.unsubscribeFromParent'),
    ("L4-numbering-starts-at-1", "Logger", LG, 'return instanceCounter.(*atomic.Int64).Add(1) - 1', 'return instanceCounter.(*atomic.Int64).Add(1)'),
    ("L5-level-active-strictly-below", "Logger", LG, '\t\tif newLevel <= logLevel {', '\t\tif newLevel < logLevel {'),
    ("L6-unsubscribe-skips-shutdown-callback", "Logger", LG,
     '\t\tunsubscribeFromLevel()\n\n\t\tif shutdownEvent != nil {\n\t\t\tshutdownEvent.Trigger()\n\t\t}\n', '\t\tunsubscribeFromLevel()\n'),
    ("L7-logattrs-namespace-is-name", "Logger", LG,
     'append([]slog.Attr{{Key: namespaceKey, Value: slog.StringValue(l.path)}}, args...)',
     'append([]slog.Attr{{Key: namespaceKey, Value: slog.StringValue(l.name)}}, args...)'),
    ("L8-logdebugf-logs-at-info", "Logger", LG,
     'func (l *logger) LogDebugf(fmtString string, args ...any) {\n\tl.Logf(fmtString, LevelDebug, args...)',
     'func (l *logger) LogDebugf(fmtString string, args ...any) {\n\tl.Logf(fmtString, LevelInfo, args...)'),
    ("L9-levelname-warn", "Logger", LV, '\t\treturn "WARNING"', '\t\treturn "WARN"'),
    ("L10-emptylogger-level-debug", "Logger", LG, '\t\treturn LevelInfo\n\t}\n\n\treturn l.level.Level()', '\t\treturn LevelDebug\n\t}\n\n\treturn l.level.Level()'),
    ("L11-setloglevel-on-child-detaches", "Logger", LG,
     'func (l *logger) SetLogLevel(level Level) {\n\tif l != nil {',
     'func (l *logger) SetLogLevel(level Level) {\n\tif l != nil {\n\t\tif l.unsubscribeFromParent != nil {\n\t\t\tl.unsubscribeFromParent()\n\t\t}'),
    ("L12-logpanic-does-not-log", "Logger", LG,
     'func (l *logger) LogPanic(msg string, args ...any) {\n\tl.Log(msg, LevelPanic, args...)\n', 'func (l *logger) LogPanic(msg string, args ...any) {\n'),
    ("L13-root-shutdown-does-not-wait-for-the-writer", "Logger:text", LG,
     'asyncTextHandler.ioWorker.Shutdown().PendingTasksCounter.WaitIsZero()', 'asyncTextHandler.ioWorker.Shutdown()'),
    # ---- runtime/valuenotifier ----
    ("N1-wait-without-deregistration-priority (the fixed defect)", "ValueNotifier", VN,
     '\t\tselect {\n\t\tcase <-l.deregisteredChan:\n\t\t\tif !l.notifiedBeforeDeregistered {\n\t\t\t\treturn ErrListenerDeregistered\n\t\t\t}\n\t\tdefault:\n\t\t}\n\n\t\treturn nil',
     '\t\treturn nil'),
    ("N2-remove-by-value-and-close (the defect fixed by 33da508)", "ValueNotifier", VN,
     '\tif !exists || valueListeners.channel != channel {\n\t\treturn\n\t}\n\tvalueListeners.count--\n\n\tif valueListeners.count == 0 {',
     '\tif !exists {\n\t\treturn\n\t}\n\tvalueListeners.count--\n\n\tif valueListeners.count == 0 {\n\t\tclose(valueListeners.channel)'),
    ("N3-notify-keeps-entry", "ValueNotifier", VN, '\tclose(valueListener.channel)\n\n\tv.listeners.Delete(value)\n', '\tclose(valueListener.channel)\n'),
    ("N4-wait-does-not-deregister", "ValueNotifier", VN, '\tdefer l.Deregister()\n', ''),
    ("N5-deregister-does-not-wake", "ValueNotifier", VN, '\t\tclose(l.deregisteredChan)\n\t\tl.deregister()', '\t\tl.deregister()'),
    ("N6-wait-looks-at-context-first", "ValueNotifier", VN,
     '\tif l.deregistered.Load() {\n\t\treturn ErrListenerDeregistered\n\t}\n\n\t// always',
     '\tif err := ctx.Err(); err != nil {\n\t\treturn err\n\t}\n\n\tif l.deregistered.Load() {\n\t\treturn ErrListenerDeregistered\n\t}\n\n\t// always'),
    ("N7-shared-listener-not-counted", "ValueNotifier", VN, '\t\tvalueListener.count++\n', ''),
    ("N8-remove-without-identity", "ValueNotifier", VN, '\tif !exists || valueListeners.channel != channel {', '\tif !exists {'),
    # ---- app/shutdown ----
    ("S1-unbuffered-request-channel (the fixed defect)", "Shutdown", SD, 'make(chan selfShutdownRequest, 1)', 'make(chan selfShutdownRequest)'),
    ("S2-event-before-log-file", "Shutdown", SD,
     '\t\t\tgs.writeSelfShutdownLogFile(selfShutdownReq.message, selfShutdownReq.critical)\n\t\t\tgs.Events.AppSelfShutdown.Trigger(selfShutdownReq.message, selfShutdownReq.critical)',
     '\t\t\tgs.Events.AppSelfShutdown.Trigger(selfShutdownReq.message, selfShutdownReq.critical)\n\t\t\tgs.writeSelfShutdownLogFile(selfShutdownReq.message, selfShutdownReq.critical)'),
    ("S3-critical-does-not-exit", "Shutdown", SD, '\t\t\t\tshutdownMsg = fmt.Sprintf("Critical %s", shutdownMsg)\n\t\t\t\tcritical = true', '\t\t\t\tshutdownMsg = fmt.Sprintf("Critical %s", shutdownMsg)'),
    ("S4-log-file-without-critical-marker", "Shutdown", SD, '\t\tif critical {\n\t\t\tmessage += " (CRITICAL)"\n\t\t}\n', ''),
    ("S5-run-swallows-directory-error", "Shutdown", SD,
     '\t\tif err := gs.checkSelfShutdownLogsDirectory(); err != nil {\n\t\t\treturn err\n\t\t}', '\t\t_ = gs.checkSelfShutdownLogsDirectory()'),
    ("S6-signal-without-event", "Shutdown", SD, '\t\t\tgs.Events.AppShutdown.Trigger()\n', ''),
    ("S7-reporter-omits-workers", "Shutdown", SD, 'if len(runningBackgroundWorkers) >= 1 {', 'if len(runningBackgroundWorkers) > 2 {'),
    ("S8-daemon-shutdown-without-wait", "Shutdown", SD, '\t\tgs.daemon.ShutdownAndWait()\n', '\t\tgs.daemon.Shutdown()\n'),
    ("S9-grace-period-never-enforced", "Shutdown", SD, 'gs.LogFatal("Background processes did not terminate in time! Forcing shutdown ...")',
     'gs.LogError("Background processes did not terminate in time! Forcing shutdown ...")'),
    ("S10-critical-message-not-marked", "Shutdown", SD, '\t\t\t\tshutdownMsg = fmt.Sprintf("Critical %s", shutdownMsg)\n', ''),
]
ENV = dict(os.environ, GOFLAGS="-mod=mod", GOPROXY="off", GOSUMDB="off", GOTOOLCHAIN="local", VERIF_REPO=MUT)


def sh(cmd, **kw):
    return subprocess.run(cmd, shell=True, stdout=subprocess.PIPE, stderr=subprocess.STDOUT, text=True, **kw)


def main():
    args = [a for a in sys.argv[1:] if not a.startswith("--")]
    tests, keep = "--tests" in sys.argv, "--keep" in sys.argv
    only = args[0] if args else ""
    if not os.path.isdir(MUT):
        r = sh("git -C /repo worktree add --detach %s HEAD" % MUT)
        if r.returncode != 0:
            print(r.stdout)
            sys.exit(2)
    caught = missed = 0
    try:
        for name, unit, rel, old, new in CHANGES:
            if only not in name:
                continue
            sh("git -C %s checkout -- ." % MUT)
            p = os.path.join(MUT, rel)
            s = open(p).read()
            if s.count(old) != 1:
                print("%-62s PATTERN NOT FOUND (%d)" % (name, s.count(old)))
                continue
            open(p, "w").write(s.replace(old, new))
            mod = rel.split("/")[0]
            sub = os.path.dirname(rel)[len(mod):].lstrip("/")
            pkg = "./" + sub if sub else "."
            b = subprocess.run(["go", "build", pkg], cwd=os.path.join(MUT, mod), env=ENV, stdout=subprocess.PIPE, stderr=subprocess.STDOUT, text=True)
            if b.returncode != 0:
                print("%-62s DOES NOT COMPILE\n%s" % (name, b.stdout[-600:]))
                continue
            tst = ""
            if tests:
                t = subprocess.run(["go", "test", "-vet=off", "-count=1", pkg], cwd=os.path.join(MUT, mod), env=ENV,
                                   stdout=subprocess.PIPE, stderr=subprocess.STDOUT, text=True)
                tst = " own-tests=%s" % ("pass" if t.returncode == 0 else "FAIL")
            try:
                p = subprocess.run(["python3", "check.py", "X3", "--only", unit], cwd="/verif", env=ENV, stdout=subprocess.PIPE,
                                   stderr=subprocess.STDOUT, text=True, timeout=900)
            except subprocess.TimeoutExpired:
                print("%-62s TIMEOUT" % name)
                missed += 1
                continue
            sigs = set()
            for v in re.findall(r"replay=(\S+)", p.stdout):
                try:
                    sigs.add(json.load(open(v))["sig"])
                except Exception:
                    pass
            verdict = "CAUGHT" if p.returncode == 1 else ("exit %d" % p.returncode)
            caught += p.returncode == 1
            missed += p.returncode != 1
            print("%-62s %s%s  %s" % (name, verdict, tst, " ".join(sorted(sigs))), flush=True)
            if p.returncode not in (0, 1):
                print(p.stdout[-1500:])
    finally:
        sh("git -C %s checkout -- ." % MUT)
        if not keep:
            sh("git -C /repo worktree remove --force %s" % MUT)
    print("caught %d, not caught %d" % (caught, missed))


if __name__ == "__main__":
    main()
