"""Sensitivity of check C18: Appendix-B style changes of /repo/runtime/timed (each still compiles and passes the repo's
tests) are applied to the working tree one at a time, `python3 check.py C18` must print VIOLATION, the file is restored
with `git checkout`.  Usage: python3 findings/C18-sensitivity.py [only-substring]"""
import os
import re
import subprocess
import sys

Q = '/repo/runtime/timed/queue.go'
T = '/repo/runtime/timed/taskexecutor.go'
M = [
 ("M1 Poll's timer is shorter than the time until the scheduled time (early delivery)", Q,
  "timer := time.NewTimer(time.Until(time.Time(polledElement.Key)))",
  "timer := time.NewTimer(time.Until(time.Time(polledElement.Key)) / 2)"),
 ("M2 Cancel does not remove the element from the heap", Q,
  """	// remove element from queue
	timedQueueElement.timedQueue.removeElement(timedQueueElement)
""", """	// remove element from queue
"""),
 ("M3 Shutdown without flags drains the heap", Q,
  "queuedElementsCount != 0 && t.shutdownFlags.HasBits(CancelPendingElements) {",
  "queuedElementsCount != 0 {"),
 ("M4 Cancel does not close the cancel channel (a poller that already took the element still delivers it)", Q,
  """		// close the cancel channel to notify subscribers
		close(timedQueueElement.cancel)""", """		// close the cancel channel to notify subscribers"""),
 ("M5 TaskExecutor.ExecuteAt does not cancel the task it replaces", T,
  """	if queuedElement, queuedElementExists := t.queuedElements.Get(identifier); queuedElementExists {
		queuedElement.Cancel()
	}

	var scheduledTask""", """	var scheduledTask"""),
 ("M6 IgnorePendingTimeouts is not honoured (pending elements are waited out)", Q,
  """			if t.shutdownFlags.HasBits(IgnorePendingTimeouts) {
				timeutil.CleanupTimer(timer)""", """			if false {
				timeutil.CleanupTimer(timer)"""),
 ("M7 TaskExecutor.Cancel reports true without cancelling the element", T,
  """	queuedElement.Cancel()
	t.queuedElements.Delete(identifier)

	return true""", """	_ = queuedElement
	t.queuedElements.Delete(identifier)

	return true"""),
]

only = sys.argv[1] if len(sys.argv) > 1 else ""
env = dict(os.environ, GOFLAGS="-mod=mod", GOPROXY="off", GOSUMDB="off", GOTOOLCHAIN="local")
for name, path, old, new in M:
    if only and only not in name:
        continue
    src = open(path).read()
    assert src.count(old) == 1, (name, src.count(old))
    try:
        open(path, "w").write(src.replace(old, new))
        b = subprocess.run(["go", "build", "./timed/"], cwd="/repo/runtime", env=env, capture_output=True, text=True)
        if b.returncode != 0:
            print(name, "-> DOES NOT COMPILE", b.stderr[-300:])
            continue
        p = subprocess.run(["python3", "check.py", "C18"], cwd="/verif", env=env, capture_output=True, text=True, timeout=1500)
        sigs = []
        for m in re.finditer(r"replay=(\S+)", p.stdout):
            import json
            sigs.append(json.load(open(m.group(1)))["sig"])
        verdict = "CAUGHT" if "VIOLATION" in p.stdout else "MISSED"
        print("%s -> %s exit=%d %s" % (name, verdict, p.returncode, sigs), flush=True)
        if verdict == "MISSED":
            print(p.stdout[-1500:])
    finally:
        subprocess.run(["git", "-C", "/repo", "checkout", "--", os.path.relpath(path, "/repo")], check=True)
print(subprocess.run(["git", "-C", "/repo", "status", "--short", "runtime/timed"], capture_output=True, text=True).stdout or "runtime/timed clean")
