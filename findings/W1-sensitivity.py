#!/usr/bin/env python3
"""Sensitivity of the W1 check: realistic breaking changes of the serializer module (each still compiles and
passes the module's own tests) are applied to a PRIVATE COPY of /repo/serializer (so that builders working in
/repo in parallel are not disturbed), the W1 harness is built against the copy (go build -modfile) and
`check.py W1 --no-build` must print VIOLATION.  Usage: python3 findings/W1-sensitivity.py [name ...]"""
import os
import shutil
import subprocess
import sys
import tempfile

ENV = dict(os.environ, GOFLAGS="-mod=mod", GOPROXY="off", GOSUMDB="off", GOTOOLCHAIN="local")

MUTATIONS = {
    # C01
    "map-sort-dropped": ("serializer.go", """		sort.Slice(data, func(i, j int) bool {
			return bytes.Compare(data[i], data[j]) < 0
		})""", """		_ = sort.Slice"""),
    "optional-marker-unchecked": ("serix/decode.go", "			if bytesRead != int(payloadLength) {", "			if false && bytesRead != int(payloadLength) {"),
    # C02
    "readnum-guard-removed": ("serializer.go", """	dataSize := numSize(dest)
	if l < dataSize {""", """	dataSize := numSize(dest)
	if false && l < dataSize {"""),
    "alloc-before-check": ("serializer.go", """	if sliceLength == 0 {
		*slice = make([]byte, 0)

		return d
	}
""", """	dest0 := make([]byte, sliceLength)
	if sliceLength == 0 {
		*slice = dest0

		return d
	}
"""),
    # C03
    "uint16-prefix-big-endian": ("serializer.go", None, None),   # two edits, see below
    "bool-any-nonzero-true": ("serializer.go", """	case 1:
		*dest = true
	default:
		d.err = errProducer(ErrDeserializationInvalidBoolValue)

		return d
	}""", """	default:
		*dest = true
	}"""),
    "map-duplicate-check-dropped": ("serix/decode.go", "		if value.MapIndex(keyValue).IsValid() {", "		if false && value.MapIndex(keyValue).IsValid() {"),
    "decode-bounds-unchecked": ("serializer.go", """		if err := arrayRules.CheckBounds(uint(sliceLength)); err != nil {
			d.err = errProducer(err)

			return d
		}

		arrayElementValidator = arrayRules.ElementValidationFunc()""", """		arrayElementValidator = arrayRules.ElementValidationFunc()"""),
    "object-code-big-endian-uint32": ("serix/encode.go", None, None),
    "lexical-order-validator-off-by-one": ("serializable.go", "		case bytes.Compare(prev, next) > 0:", "		case bytes.Compare(prev, next) > 0 && index > 1:"),
}


def edit(path, old, new):
    s = open(path).read()
    if old not in s:
        raise SystemExit("mutation target not found in %s:\n%s" % (path, old))
    open(path, "w").write(s.replace(old, new, 1))


def apply(name, root):
    f, old, new = MUTATIONS[name]
    path = os.path.join(root, f)
    if name == "uint16-prefix-big-endian":
        edit(path, "		if err := binary.Write(&s.buf, binary.LittleEndian, uint16(l)); err != nil {",
             "		if err := binary.Write(&s.buf, binary.BigEndian, uint16(l)); err != nil {")
        edit(path, "		sliceLength = int(binary.LittleEndian.Uint16(d.src[d.offset : d.offset+UInt16ByteSize]))",
             "		sliceLength = int(binary.BigEndian.Uint16(d.src[d.offset : d.offset+UInt16ByteSize]))")
    elif name == "object-code-big-endian-uint32":
        # the uint32 object type code of structs written and checked big-endian, consistently
        edit(path, """	seri := serializer.NewSerializer()
	if objectType := ts.ObjectType(); objectType != nil {
		seri.WriteNum(objectType, func(err error) error {
			return ierrors.Wrap(err, "failed to write object type code into serializer")
		})
	}
	if err := api.encodeStructFields(""", """	seri := serializer.NewSerializer()
	if objectType := ts.ObjectType(); objectType != nil {
		if c, ok := objectType.(uint32); ok {
			objectType = c<<24 | c>>24 | (c&0xff00)<<8 | (c>>8)&0xff00
		}
		seri.WriteNum(objectType, func(err error) error {
			return ierrors.Wrap(err, "failed to write object type code into serializer")
		})
	}
	if err := api.encodeStructFields(""")
        edit(os.path.join(root, "serix/decode.go"), """		typeDen, objectCode, err := getTypeDenotationAndCode(objectType)
		if err != nil {
			return 0, ierrors.WithStack(err)
		}
		deseri.CheckTypePrefix(objectCode, typeDen, func(err error) error {
			return ierrors.Wrap(err, "failed to check object type")
		})
	}
	if err := api.decodeStructFields(""", """		typeDen, objectCode, err := getTypeDenotationAndCode(objectType)
		if err != nil {
			return 0, ierrors.WithStack(err)
		}
		if typeDen == serializer.TypeDenotationUint32 {
			c := objectCode
			objectCode = c<<24 | c>>24 | (c&0xff00)<<8 | (c>>8)&0xff00
		}
		deseri.CheckTypePrefix(objectCode, typeDen, func(err error) error {
			return ierrors.Wrap(err, "failed to check object type")
		})
	}
	if err := api.decodeStructFields(""")
    else:
        edit(path, old, new)


def main():
    names = sys.argv[1:] or list(MUTATIONS)
    results = {}
    for name in names:
        tmp = tempfile.mkdtemp(prefix="w1mut-")
        try:
            root = os.path.join(tmp, "serializer")
            shutil.copytree("/repo/serializer", root)
            apply(name, root)
            t = subprocess.run(["go", "test", "-vet=off", "-count=1", ".", "./serix/..."], cwd=root, env=ENV,
                               stdout=subprocess.PIPE, stderr=subprocess.STDOUT, text=True)
            tests = "pass" if t.returncode == 0 else "FAIL"
            mod = open("/verif/harness/go.mod").read().replace("=> /repo/serializer\n", "=> %s\n" % root)
            open(os.path.join(tmp, "go.mod"), "w").write(mod)
            shutil.copy("/verif/harness/go.sum", os.path.join(tmp, "go.sum"))
            b = subprocess.run(["go", "build", "-modfile", os.path.join(tmp, "go.mod"), "-tags", "verif", "-o", "bin/h-W1", "./cmd/w1"],
                               cwd="/verif/harness", env=ENV, stdout=subprocess.PIPE, stderr=subprocess.STDOUT, text=True)
            if b.returncode != 0:
                results[name] = "does not build: " + b.stdout[-300:]
                continue
            c = subprocess.run(["python3", "check.py", "W1", "--no-build"], cwd="/verif", env=ENV,
                               stdout=subprocess.PIPE, stderr=subprocess.STDOUT, text=True, timeout=3000)
            sigs = []
            for line in c.stdout.splitlines():
                if line.startswith("VIOLATION"):
                    import json
                    sigs.append(json.load(open(line.split("replay=")[1]))["sig"] + "@" + json.load(open(line.split("replay=")[1]))["unit"])
            results[name] = "repo tests %s; check exit %d; %s" % (tests, c.returncode, ", ".join(sigs) or "NOT CAUGHT")
            print(name, "->", results[name], flush=True)
        finally:
            shutil.rmtree(tmp, ignore_errors=True)
    # leave a harness built against the real tree behind
    subprocess.run(["go", "build", "-tags", "verif", "-o", "bin/h-W1", "./cmd/w1"], cwd="/verif/harness", env=ENV)
    print()
    for k, v in results.items():
        print("%-36s %s" % (k, v))


if __name__ == "__main__":
    main()
