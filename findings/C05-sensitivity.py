"""C05 sensitivity: apply one realistic concurrency bug at a time to /repo/kvstore/mapdb (working tree only), build the
C05 harness binaries against it, REVERT at once (git checkout), then run `python3 check.py C05 --no-build --only histories`
on the mutated binaries and print the VIOLATION lines.
usage: python3 findings/C05-sensitivity.py [mutant ...]      (env SEEDS="1 2 3" to try several seeds)"""
import subprocess, sys, os, time
os.environ.update({"GOFLAGS": "-mod=mod", "GOPROXY": "off", "GOSUMDB": "off", "GOTOOLCHAIN": "local"})
F = "/repo/kvstore/mapdb/synced_map.go"
ITER_OLD = """	// take a snapshot of the current elements
	s.RLock()
	copiedElements := make(map[string][]byte)
	prefix := byteutils.ConcatBytesToString(realm, keyPrefix)
	for key, value := range s.m {
		if strings.HasPrefix(key, prefix) {
			copiedElements[key] = byteutils.ConcatBytes(value)
		}
	}
	s.RUnlock()

	keysSlice := make([]string, 0, len(copiedElements))
	for k := range copiedElements {
		keysSlice = append(keysSlice, k)
	}

	// iterate through found elements
	for _, key := range utils.SortSlice(keysSlice, iterDirection...) {
		if !consume([]byte(key)[len(realm):], copiedElements[key]) {
			break
		}
	}
"""
KEYS_SNAPSHOT = """	s.RLock()
	prefix := byteutils.ConcatBytesToString(realm, keyPrefix)
	keysSlice := make([]string, 0)
	for key := range s.m {
		if strings.HasPrefix(key, prefix) {
			keysSlice = append(keysSlice, key)
		}
	}
	s.RUnlock()
"""
# the map's read lock is taken per entry, when the entry is handed to the consumer
ITER_LAZY = KEYS_SNAPSHOT + """
	for _, key := range utils.SortSlice(keysSlice, iterDirection...) {
		s.RLock()
		value, ok := s.m[key]
		value = byteutils.ConcatBytes(value)
		s.RUnlock()
		if !ok {
			continue
		}
		if !consume([]byte(key)[len(realm):], value) {
			break
		}
	}
"""
# the map's read lock is taken per entry while copying (before the first consumer call)
ITER_EAGER = KEYS_SNAPSHOT + """
	copiedElements := make(map[string][]byte)
	for _, key := range keysSlice {
		s.RLock()
		if value, ok := s.m[key]; ok {
			copiedElements[key] = byteutils.ConcatBytes(value)
		}
		s.RUnlock()
	}
	keysSlice = keysSlice[:0]
	for k := range copiedElements {
		keysSlice = append(keysSlice, k)
	}
	for _, key := range utils.SortSlice(keysSlice, iterDirection...) {
		if !consume([]byte(key)[len(realm):], copiedElements[key]) {
			break
		}
	}
"""
KEYS_OLD = """	// iterate through found elements
	for _, key := range utils.SortSlice(keysSlice, iterDirection...) {
		if !consume([]byte(key)[len(realm):]) {
			break
		}
	}
"""
KEYS_LAZY = """	for _, key := range utils.SortSlice(keysSlice, iterDirection...) {
		if !s.has([]byte(key)) { // skip what was deleted meanwhile
			continue
		}
		if !consume([]byte(key)[len(realm):]) {
			break
		}
	}
"""
DP_OLD = """	s.Lock()
	defer s.Unlock()
	prefix := string(keyPrefix)
	for key := range s.m {
		if strings.HasPrefix(key, prefix) {
			delete(s.m, key)
		}
	}
"""
DP_NOLOCK = """	prefix := string(keyPrefix)
	for key := range s.m {
		if strings.HasPrefix(key, prefix) {
			delete(s.m, key)
		}
	}
"""
DP_TWO_PHASE = """	prefix := string(keyPrefix)
	s.RLock()
	var keys []string
	for key := range s.m {
		if strings.HasPrefix(key, prefix) {
			keys = append(keys, key)
		}
	}
	s.RUnlock()
	for _, key := range keys {
		s.Lock()
		delete(s.m, key)
		s.Unlock()
	}
"""
MUTS = {
    "m1_iterate_rlock_per_entry_lazy": (F, [(ITER_OLD, ITER_LAZY)]),
    "m2_iterate_rlock_per_entry_copy": (F, [(ITER_OLD, ITER_EAGER)]),
    "m3_deleteprefix_no_lock": (F, [(DP_OLD, DP_NOLOCK)]),
    "m4_deleteprefix_not_atomic": (F, [(DP_OLD, DP_TWO_PHASE)]),
    "m5_get_no_rlock": (F, [("func (s *syncedKVMap) get(key []byte) ([]byte, bool) {\n\ts.RLock()\n\tdefer s.RUnlock()\n",
                             "func (s *syncedKVMap) get(key []byte) ([]byte, bool) {\n")]),
    "m6_iteratekeys_recheck_per_key": (F, [(KEYS_OLD, KEYS_LAZY)]),
    "m8_clear_keeps_view_lock": ("/repo/kvstore/mapdb/mapdb.go",
                                 [("\ts.Lock()\n\tdefer s.Unlock()\n\n\ts.m.deletePrefix(s.realm)\n", "\ts.Lock()\n\n\ts.m.deletePrefix(s.realm)\n")]),
    "m7_set_rlock_only": (F, [("func (s *syncedKVMap) set(key, value []byte) {\n\ts.Lock()\n\tdefer s.Unlock()\n",
                               "func (s *syncedKVMap) set(key, value []byte) {\n\ts.RLock()\n\tdefer s.RUnlock()\n")]),
}
which = sys.argv[1:] or list(MUTS)
seeds = os.environ.get("SEEDS", "1").split()
os.makedirs("/verif/out/C05-sens", exist_ok=True)
for name in which:
    path, reps = MUTS[name]
    src = open(path).read()
    new = src
    for a, b in reps:
        assert a in new, (name, a[:60])
        new = new.replace(a, b, 1)
    open(path, "w").write(new)
    try:
        for race in ([], ["-race"]):
            subprocess.run(["go", "build"] + race + ["-tags", "verif", "-o", "bin/h-C05" + ("-race" if race else ""), "./cmd/c05"],
                           cwd="/verif/harness", check=True)
    finally:
        subprocess.run(["git", "-C", "/repo", "checkout", "--", path[len("/repo/"):]], check=True)
    for seed in seeds:
        t = time.time()
        env = dict(os.environ, VERIF_SEED=seed)
        p = subprocess.run(["timeout", "900", "python3", "check.py", "C05", "--no-build", "--only", "histories"], cwd="/verif",
                           stdout=subprocess.PIPE, stderr=subprocess.STDOUT, text=True, env=env)
        open("/verif/out/C05-sens/%s.seed%s.txt" % (name, seed), "w").write(p.stdout)
        vio = [l for l in p.stdout.splitlines() if l.startswith(("VIOLATION", "  what", "INCONCLUSIVE", "OK "))]
        print("==", name, "seed", seed, "rc=%d" % p.returncode, "%.0fs" % (time.time() - t))
        for l in vio:
            print("   ", l[:600])
        sys.stdout.flush()
# rebuild against the unchanged tree
for race in ([], ["-race"]):
    subprocess.run(["go", "build"] + race + ["-tags", "verif", "-o", "bin/h-C05" + ("-race" if race else ""), "./cmd/c05"],
                   cwd="/verif/harness", check=True)
print(subprocess.run(["git", "-C", "/repo", "status", "--short", "kvstore"], stdout=subprocess.PIPE, text=True).stdout or "repo kvstore clean")
