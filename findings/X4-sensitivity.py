#!/usr/bin/env python3
"""Sensitivity of the X4 check: each realistic breaking change is applied to a private git worktree of /repo
(/tmp/x4-wt, HEAD; /repo itself is never touched), `VERIF_REPO=/tmp/x4-wt python3 check.py X4 --only <units>` is run
and a VIOLATION is expected.  The worktree is removed at the end.

usage: python3 findings/X4-sensitivity.py [name ...]      (default: all)
"""
import os
import subprocess
import sys
import time

ENV = dict(os.environ, GOFLAGS="-mod=mod", GOPROXY="off", GOSUMDB="off", GOTOOLCHAIN="local", VERIF_REPO="/tmp/x4-wt")
WT = "/tmp/x4-wt"
EVT = "core/eventticker/eventticker.go"
TIC = "runtime/timeutil/ticker.go"
PRE = "runtime/timeutil/precisionticker.go"
SLP = "runtime/timeutil/sleep.go"
HUB = "web/websockethub/hub.go"
CLI = "web/websockethub/client.go"

# name: (units filter for --only, file, old, new)
MUT = {
    # ---------------- core/eventticker ----------------
    # fix cda6a8e taken back: a StartTicker after Shutdown is counted and announced
    "evt-revert-start-after-shutdown": ("EvTicker", EVT, "\tif scheduledTask == nil {\n\t\t// the executor was shut down: there is no ticker to count or to announce\n\t\treturn false\n\t}\n\tqueue.Set(id, scheduledTask)\n",
                                        "\tif scheduledTask != nil {\n\t\tqueue.Set(id, scheduledTask)\n\t}\n"),
    # fix 66741e3 taken back: the retry callback continues whenever some ticker is registered for the id
    "evt-revert-own-task-check": ("TickRun:x4tick", EVT, "requestExists && currentTask == *ownTask {", "requestExists && currentTask != nil {"),
    # fix 5184181 taken back for StartTicker: look-up and registration are not atomic
    "evt-start-without-ticker-mutex": ("TickRun:x4tick", EVT, "\tr.tickerMutex.Lock()\n\tdefer r.tickerMutex.Unlock()\n\n\t// ignore already scheduled requests\n", "\t// ignore already scheduled requests\n"),
    # the threshold test is off by one: TickerFailed one retry early
    "evt-threshold-off-by-one": ("TickRun:x4tick", EVT, "if count > r.optsMaxRequestThreshold {", "if count >= r.optsMaxRequestThreshold {"),
    # a failed ticker stays listed
    "evt-failed-stays-listed": ("TickRun:x4tick", EVT, "\t\t\ttickerStorage.Delete(id)\n\n\t\t\tr.updateScheduledTickerCount(-1)\n\n\t\t\tr.tickerMutex.Unlock()", "\t\t\tr.tickerMutex.Unlock()"),
    # EvictUntil forgets the counter behind QueueSize
    "evt-evict-keeps-count": ("EvTicker", EVT, "\t\t\tr.updateScheduledTickerCount(-evictedStorage.Size())\n", ""),
    # StartTicker does not look at the evicted index: an evicted ticker can be started again
    "evt-start-ignores-eviction": ("TickRun:x4tick", EVT, "\tif id.Index() <= r.lastEvictedIndex {\n\t\treturn false\n\t}\n\n\tr.tickerMutex.Lock()", "\tr.tickerMutex.Lock()"),
    # StartTicker announces the ticker but does not tick
    "evt-start-without-tick": ("EvTicker", EVT, "\t\tr.Events.TickerStarted.Trigger(id)\n\t\tr.Events.Tick.Trigger(id)\n", "\t\tr.Events.TickerStarted.Trigger(id)\n"),
    # StopTicker of an unknown ticker announces a stop all the same
    "evt-stop-always-announces": ("EvTicker", EVT, "\tif r.stopTicker(id) {\n\t\tr.Events.TickerStopped.Trigger(id)\n\t}", "\tr.stopTicker(id)\n\tr.Events.TickerStopped.Trigger(id)"),
    # the jitter is subtracted: retries come earlier than the retry interval
    "evt-jitter-subtracted": ("TickRun:x4tick", EVT, "\t}, r.optsRetryInterval+time.Duration(crypto.Randomness.Float64()*float64(r.optsRetryJitter)))", "\t}, r.optsRetryInterval/2+time.Duration(crypto.Randomness.Float64()*float64(r.optsRetryJitter)))"),
    # the retry callback reschedules before it looks whether the ticker still exists (a stopped ticker keeps ticking)
    "evt-resched-ignores-stop": ("TickRun:x4tick", EVT, "requestExists && currentTask == *ownTask {", "requestExists || currentTask != *ownTask {"),
    # TickerFailed is triggered while the ticker mutex is held: a hook that restarts the ticker deadlocks
    "evt-failed-hook-under-mutex": ("TickRun:x4tick", EVT, "\t\t\tr.tickerMutex.Unlock()\n\n\t\t\tr.Events.TickerFailed.Trigger(id)\n", "\t\t\tr.Events.TickerFailed.Trigger(id)\n\n\t\t\tr.tickerMutex.Unlock()\n"),
    # ---------------- runtime/timeutil ----------------
    # fix 99734de taken back
    "time-revert-wg-add-before-go": ("TimeRun:x4time", TIC, "\tticker.gracefulShutdown.Add(1)\n\tgo ticker.run()\n", "\tgo func() {\n\t\tticker.gracefulShutdown.Add(1)\n\t\tticker.run()\n\t}()\n"),
    # fix 2957b12 taken back
    "time-revert-ctx-check-after-tick": ("TimeRun:x4time", TIC, "\t\t\tif t.ctx.Err() != nil {\n\t\t\t\treturn\n\t\t\t}\n\n", ""),
    # WaitForShutdown does not wait
    "time-waitforshutdown-does-not-wait": ("TimeRun:x4time", TIC, "\t<-t.ctx.Done()\n", "\t_ = t.ctx\n"),
    # the handler runs on its own goroutine (invocations overlap, the graceful wait does not cover them)
    "time-handler-async": ("TimeRun:x4time", TIC, "\t\t\tt.handler()\n", "\t\t\tgo t.handler()\n"),
    # PrecisionTicker never waits for the next tick
    "time-precision-never-waits": ("TimeRun:x4time", PRE, "tickerOffset > p.options.minTimePrecision {", "tickerOffset > time.Hour {"),
    # PrecisionTicker performs one iteration too many
    "time-precision-max-plus-one": ("TimeRun:x4time", PRE, "p.iterations < p.options.maxIterations {", "p.iterations <= p.options.maxIterations {"),
    # PrecisionTicker does not shut down after maxIterations (WaitForShutdown never returns)
    "time-precision-no-shutdown-after-max": ("TimeRun:x4time", PRE, "\tdefer p.shutdownWG.Done()\n\tdefer p.Shutdown()\n", "\tdefer p.shutdownWG.Done()\n"),
    # PrecisionTicker ignores Shutdown while it runs callbacks
    "time-precision-ignores-shutdown": ("TimeRun:x4time", PRE, "\t\tcase <-p.shutdownChan:\n\t\t\treturn\n\t\tdefault:", "\t\tdefault:"),
    # Iterations counts before the callback ran
    "time-precision-counts-early": ("TimeRun:x4time", PRE, "\t\t\tp.callback()\n\n\t\t\tp.waitIfNecessary(start)", "\t\t\tp.increaseIterations()\n\t\t\tp.callback()\n\t\t\tp.iterationsMutex.Lock()\n\t\t\tp.iterations--\n\t\t\tp.iterationsMutex.Unlock()\n\n\t\t\tp.waitIfNecessary(start)"),
    # Sleep reports completion when it was cancelled
    "time-sleep-true-on-cancel": ("TimeRun:x4time", SLP, "\tcase <-ctx.Done():\n\t\treturn false\n", "\tcase <-ctx.Done():\n\t\treturn true\n"),
    # Sleep ignores the context
    "time-sleep-ignores-context": ("TimeRun:x4time", SLP, "\tcase <-ctx.Done():\n\t\treturn false\n\n", ""),
    # Sleep sleeps only half the duration
    "time-sleep-half": ("TimeRun:x4time", SLP, "\tt := time.NewTimer(d)", "\tt := time.NewTimer(d / 2)"),
    # ---------------- web/websockethub ----------------
    # fix e298c50 taken back: Unregister blocks although the hub is removing the client
    "hub-revert-unregister-exit-case": ("HubRun:x4hub", HUB, "\t\tcase <-client.ExitSignal:\n\t\t\t// the hub is already removing the client: it waits for the pumps of the client to finish, which are the\n\t\t\t// callers that would otherwise block here if the unregister channel is full\n\t\t\treturn nil\n", ""),
    # the dontDrop path ignores the FilterCallback
    "hub-dontdrop-ignores-filter": ("HubRun:x4hub", HUB, "\t\t\t\tif message.dontDrop {\n\t\t\t\t\tfor client := range h.clients {\n\t\t\t\t\t\tif client.FilterCallback != nil {", "\t\t\t\tif message.dontDrop {\n\t\t\t\t\tfor client := range h.clients {\n\t\t\t\t\t\tif client.FilterCallback != nil && false {"),
    # dontDrop broadcasts are dropped when the client's send channel is full
    "hub-dontdrop-drops": ("HubRun:x4hub", HUB, "\t\t\t\t\t\t\tcase <-client.sendChanClosed:\n\t\t\t\t\t\t\tcase client.sendChan <- message.data:\n\t\t\t\t\t\t\t}", "\t\t\t\t\t\t\tcase <-client.sendChanClosed:\n\t\t\t\t\t\t\tcase client.sendChan <- message.data:\n\t\t\t\t\t\t\tdefault:\n\t\t\t\t\t\t\t}"),
    # a removed client stays in the client set
    "hub-remove-keeps-client": ("HubRun:x4hub", HUB, "\tdelete(h.clients, client)\n\tclose(client.ExitSignal)", "\tclose(client.ExitSignal)"),
    # onDisconnect is not called for clients removed through the unregister channel
    "hub-no-ondisconnect": ("HubRun:x4hub", HUB, "\tif client.onDisconnect != nil {\n\t\tclient.onDisconnect(client)\n\t}", "\tif client.onDisconnect != nil && h.shutdownFlag.Load() {\n\t\tclient.onDisconnect(client)\n\t}"),
    # every broadcast is queued twice
    "hub-broadcast-twice": ("HubRun:x4hub", HUB, "\t\t\tcase h.broadcast <- msg:\n\t\t\t\treturn nil\n\t\t\t}\n\t\t}\n\t}\n\n\t// we need to nest the broadcast", "\t\t\tcase h.broadcast <- msg:\n\t\t\t\th.broadcast <- msg\n\n\t\t\t\treturn nil\n\t\t\t}\n\t\t}\n\t}\n\n\t// we need to nest the broadcast"),
    # BroadcastMsg does not notice that the hub is not running (before Run: nil context)
    "hub-broadcast-no-running-check": ("HubRun:x4hub", HUB, "func (h *Hub) BroadcastMsg(ctx context.Context, data interface{}, dontDrop ...bool) error {\n\tif h.shutdownFlag.Load() {", "func (h *Hub) BroadcastMsg(ctx context.Context, data interface{}, dontDrop ...bool) error {\n\tif h.shutdownFlag.Load() && h.ctx != nil {"),
    # the shutdown does not remove the clients
    "hub-shutdown-keeps-clients": ("HubRun:x4hub", HUB, "\t\tfor client := range h.clients {\n\t\t\th.removeClient(client)\n\t\t}\n\t}", "\t}"),
    # Client.Send to a disconnected client reports success
    "hub-send-to-disconnected-ok": ("HubRun:x4hub", CLI, "\tif c.shutdownFlag.Load() {\n\t\t// client was already shutdown\n\t\treturn ErrClientDisconnected\n\t}", "\tif c.shutdownFlag.Load() {\n\t\t// client was already shutdown\n\t\treturn nil\n\t}"),
    # the write pump sends the messages of its channel in pairs, newest first
    "hub-writepump-reorders": ("HubRun:x4hub", CLI, "\t\t\t\tif err := sendMsg(msg); err != nil {", "\t\t\t\tselect {\n\t\t\t\tcase msg2 := <-c.sendChan:\n\t\t\t\t\tif err := sendMsg(msg2); err != nil {\n\t\t\t\t\t\treturn\n\t\t\t\t\t}\n\t\t\t\tdefault:\n\t\t\t\t}\n\n\t\t\t\tif err := sendMsg(msg); err != nil {"),
}


def sh(cmd, **kw):
    return subprocess.run(cmd, shell=True, stdout=subprocess.PIPE, stderr=subprocess.STDOUT, text=True, **kw)


def main():
    names = sys.argv[1:] or list(MUT)
    sh("git -C /repo worktree remove --force %s" % WT)
    r = sh("git -C /repo worktree add --detach %s HEAD" % WT)
    if r.returncode != 0:
        print(r.stdout)
        sys.exit(2)
    caught = 0
    try:
        for name in names:
            only, path, old, new = MUT[name]
            sh("git -C %s checkout -- ." % WT)
            f = os.path.join(WT, path)
            src = open(f).read()
            if src.count(old) != 1:
                print("%-40s anchor found %d times - skipped" % (name, src.count(old)))
                continue
            open(f, "w").write(src.replace(old, new))
            b = sh("go build ./...", cwd=os.path.join(WT, path.split("/")[0]), env=ENV)
            if b.returncode != 0:
                print("%-40s does not compile: %s" % (name, b.stdout[-300:]))
                continue
            t0 = time.time()
            try:
                r = sh("python3 check.py X4 --only %s" % only, cwd="/verif", env=ENV, timeout=900)
                out, rc = r.stdout, r.returncode
            except subprocess.TimeoutExpired:
                out, rc = "TIMEOUT", 2
            v = [l.strip() for l in out.splitlines() if l.startswith("VIOLATION") or l.strip().startswith("what:")]
            inc = [l for l in out.splitlines() if l.startswith("INCONCLUSIVE")]
            ok = rc == 1
            caught += ok
            print("%-40s %-10s %5.0fs  %s" % (name, "CAUGHT" if ok else ("rc=%d" % rc), time.time() - t0,
                                              (v[1][:170] if len(v) > 1 else (inc[0][:170] if inc else ""))), flush=True)
    finally:
        sh("git -C /repo worktree remove --force %s" % WT)
        sh("rm -f /verif/harness/go.alt-x4-wt.mod /verif/harness/go.alt-x4-wt.sum /verif/harness/bin/h-X4-alt-x4-wt")
        sh("rm -rf /verif/out/X4-alt-x4-wt")
    print("%d of %d caught" % (caught, len(names)))


if __name__ == "__main__":
    main()
