#!/usr/bin/env python3
"""Sensitivity of the X2 check: each realistic breaking change is applied to a scratch COPY of /repo (so /repo is never
touched and other builders are not disturbed), `VERIF_REPO=<copy> python3 check.py X2` is run, VIOLATION expected.

usage: python3 findings/X2-sensitivity.py [name ...]      (default: all)
"""
import glob
import json
import os
import shutil
import subprocess
import sys
import time

ENV = dict(os.environ, GOFLAGS="-mod=mod", GOPROXY="off", GOSUMDB="off", GOTOOLCHAIN="local")
COPY = "/tmp/x2mut"
CTX = "runtime/contextutils/merged_context.go"
UTL = "runtime/module/utils.go"
IMP = "runtime/module/module_impl.go"

MUT = {
    # ---- contextutils ----
    # the helper goroutine does not watch the merged context's own cancellation: it leaks after the cancel function
    "ctx-helper-ignores-own-cancel": (CTX, "\t\tcase <-mc.cancelCtx.Done():\n\t\t\tsetCtxDoneFunc(ierrors.Join(context.Canceled, ErrMergedContextCanceled))\n\t\tcase <-mc.ctxPrimary.Done():",
                                      "\t\tcase <-mc.ctxPrimary.Done():"),
    # Deadline: a secondary deadline is only taken if it is before the primary's (lost when the primary has none)
    "ctx-deadline-secondary-only-if-earlier": (CTX, "if min.IsZero() || dl.Before(min) {", "if dl.Before(min) {"),
    # Value: the secondary context is asked first
    "ctx-value-secondary-first": (CTX, "\tif value := mc.ctxPrimary.Value(key); value != nil {\n\t\treturn value\n\t}\n\n\treturn mc.ctxSecondary.Value(key)",
                                  "\tif value := mc.ctxSecondary.Value(key); value != nil {\n\t\treturn value\n\t}\n\n\treturn mc.ctxPrimary.Value(key)"),
    # the "already done" guard is dropped: a second cause closes the channel twice
    "ctx-no-already-done-guard": (CTX, "\t\tif mc.err != nil {\n\t\t\t// error already set\n\t\t\treturn\n\t\t}\n", ""),
    # the cancel function only cancels the inner context: Done/Err follow asynchronously
    "ctx-cancel-func-async": (CTX, "\tvar mergedCancelFunc context.CancelFunc = func() {\n\t\tsetCtxDoneFunc(ierrors.Join(context.Canceled, ErrMergedContextCanceled))\n\t}",
                              "\tvar mergedCancelFunc context.CancelFunc = func() {\n\t\tmainCancelFunc()\n\t}"),
    # the secondary context is not checked at merge time (done only once the helper goroutine got to run)
    "ctx-no-secondary-init-check": (CTX, "\tif mc.ctxSecondary.Err() != nil {\n\t\tsetCtxDoneFunc(mc.ctxSecondary.Err())\n\t}\n", ""),
    # a later cause overwrites the error
    "ctx-error-overwritten": (CTX, "\t\tif mc.err != nil {\n\t\t\t// error already set\n\t\t\treturn\n\t\t}\n\t\tmc.err = err\n",
                              "\t\tif mc.err != nil {\n\t\t\tmc.err = err\n\t\t\treturn\n\t\t}\n\t\tmc.err = err\n"),
    # ---- module ----
    # InitSimpleLifecycle triggers Initialized before Constructed
    "mod-init-before-constructed": (UTL, "\tm.ConstructedEvent().Trigger()\n\tm.InitializedEvent().Trigger()\n", "\tm.InitializedEvent().Trigger()\n\tm.ConstructedEvent().Trigger()\n"),
    # InitSimpleLifecycle forgets Initialized
    "mod-no-initialized": (UTL, "\tm.ConstructedEvent().Trigger()\n\tm.InitializedEvent().Trigger()\n", "\tm.ConstructedEvent().Trigger()\n"),
    # a custom shutdown function does not replace the default one (Stopped is triggered as well)
    "mod-custom-keeps-default-stop": (UTL, "\tif len(optShutdown) == 0 {\n\t\tm.ShutdownEvent().OnTrigger(func() {\n\t\t\tm.StoppedEvent().Trigger()\n\t\t})\n\t} else {",
                                      "\tm.ShutdownEvent().OnTrigger(func() {\n\t\tm.StoppedEvent().Trigger()\n\t})\n\tif len(optShutdown) != 0 {"),
    # TriggerAll walks the modules backwards
    "mod-triggerall-reverse": (UTL, "\tfor _, module := range modules {\n\t\tevent(module).Trigger()\n\t}", "\tfor i := len(modules) - 1; i >= 0; i-- {\n\t\tevent(modules[i]).Trigger()\n\t}"),
    # WaitAll adds a module to the group only after subscribing (an already triggered module is 'done' before it was added)
    "mod-waitall-add-after-subscribe": (UTL, "\twg := reactive.NewWaitGroup(modules...)\n\tfor _, module := range modules {\n",
                                        "\twg := reactive.NewWaitGroup[Module]()\n\tfor _, module := range modules {\n\t\tdefer wg.Add(module)\n"),
    # the fix of this work taken back
    "revert-waitall-empty": (UTL, "\tif len(modules) == 0 {\n\t\twg.Trigger()\n\t}\n", ""),
    # the sub-module's logger is shut down on the parent's Stopped instead of Shutdown event
    "mod-sublogger-detaches-on-stopped": (IMP, "\tm.shutdown.OnTrigger(childLogger.Shutdown)", "\tm.stopped.OnTrigger(childLogger.Shutdown)"),
    # the sub-module is built on the parent's logger
    "mod-submodule-gets-parent-logger": (IMP, "\treturn New(childLogger)", "\t_ = childLogger\n\n\treturn New(m.Logger)"),
    # the default lifecycle stops asynchronously
    "mod-default-stop-async": (UTL, "\t\tm.ShutdownEvent().OnTrigger(func() {\n\t\t\tm.StoppedEvent().Trigger()\n\t\t})\n\t} else {",
                               "\t\tm.ShutdownEvent().OnTrigger(func() {\n\t\t\tgo m.StoppedEvent().Trigger()\n\t\t})\n\t} else {"),
    # ---- reactive.Event as used by module ----
    # OnTrigger on an already triggered event does not call back
    "event-ontrigger-no-immediate-call": ("ds/reactive/event_impl.go", "\treturn e.OnUpdate(func(_, _ bool) {\n\t\thandler()\n\t})",
                                          "\tif e.Get() {\n\t\treturn func() {}\n\t}\n\n\treturn e.OnUpdate(func(_, _ bool) {\n\t\thandler()\n\t})"),
}


def main():
    names = sys.argv[1:] or list(MUT)
    for name in names:
        path, old, new = MUT[name]
        shutil.rmtree(COPY, ignore_errors=True)
        shutil.copytree("/repo", COPY, ignore=shutil.ignore_patterns(".git"))
        f = os.path.join(COPY, path)
        src = open(f).read()
        if src.count(old) != 1:
            print("%s: anchor not found exactly once - skipped" % name)
            continue
        open(f, "w").write(src.replace(old, new))
        t = time.time()
        p = subprocess.run(["timeout", "900", "python3", "check.py", "X2"], cwd="/verif", env=dict(ENV, VERIF_REPO=COPY),
                           stdout=subprocess.PIPE, stderr=subprocess.STDOUT, text=True)
        wall = time.time() - t
        out = "/verif/out/X2-alt-" + os.path.basename(COPY)
        sigs = [json.load(open(v))["sig"] for v in sorted(glob.glob(out + "/violation_*.json"))]
        nviol = p.stdout.count("\nVIOLATION ") + p.stdout.startswith("VIOLATION ")
        print("%-40s exit=%d VIOLATION lines=%d wall=%.0fs sigs=%s" % (name, p.returncode, nviol, wall, sorted(set(sigs))), flush=True)
        with open("/verif/out/X2.sens.%s.log" % name, "w") as fh:
            fh.write(p.stdout)
    shutil.rmtree(COPY, ignore_errors=True)
    shutil.rmtree("/verif/out/X2-alt-" + os.path.basename(COPY), ignore_errors=True)
    for g in glob.glob("/verif/harness/go.alt-%s.*" % os.path.basename(COPY)) + glob.glob("/verif/harness/bin/h-X2-alt-*"):
        os.remove(g)


if __name__ == "__main__":
    main()
