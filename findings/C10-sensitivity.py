#!/usr/bin/env python3
"""Sensitivity of the C10 check: apply one realistic breaking change to /repo/ds/list_impl.go
(working tree only), run `python3 check.py C10`, expect VIOLATION, revert with git checkout.

usage: python3 findings/C10-sensitivity.py [name ...]      (default: all)
"""
import glob
import json
import os
import subprocess
import sys
import time

F = "/repo/ds/list_impl.go"
ENV = dict(os.environ, GOFLAGS="-mod=mod", GOPROXY="off", GOSUMDB="off", GOTOOLCHAIN="local")

MUT = {
    # Appendix B: insert forgets e.next.prev = e  -> backward iteration / Prev() wrong
    "insert-no-backlink": ("\te.prev.Load().next.Store(e)\n\te.next.Load().prev.Store(e)\n\te.list.Store(l)\n",
                           "\te.prev.Load().next.Store(e)\n\te.list.Store(l)\n"),
    # Appendix B: remove does not clear e.list -> a removed handle still passes the ownership test
    "remove-keeps-owner": ("\te.prev.Store(nil) // avoid memory leaks\n\te.list.Store(nil)\n",
                           "\te.prev.Store(nil) // avoid memory leaks\n"),
    # Appendix B: PushFrontList iterates forwards -> values pushed in reverse order
    "pushfrontlist-forwards": ("for i, e := other.Len(), other.Back(); i > 0; i, e = i-1, e.Prev() {",
                               "for i, e := other.Len(), other.Front(); i > 0; i, e = i-1, e.Next() {"),
    # MoveToBack compares with the front element -> moving the front element to the back is skipped
    "movetoback-wrong-shortcut": ("typedElement.list.Load() != l || l.root.prev.Load() == element",
                                  "typedElement.list.Load() != l || l.root.next.Load() == element"),
    # InsertBefore accepts a handle of another list (only rejects removed handles)
    "insertbefore-foreign": ("\tif positionTyped.list.Load() != l {\n\t\treturn nil\n\t}\n\n\treturn l.insertValue(value, positionTyped.prev.Load())",
                             "\tif positionTyped.list.Load() == nil {\n\t\treturn nil\n\t}\n\n\treturn l.insertValue(value, positionTyped.prev.Load())"),
    # Len not maintained by remove
    "remove-keeps-len": ("\te.list.Store(nil)\n\tl.len--\n", "\te.list.Store(nil)\n"),
    # re-introduce the self-deadlock of the thread-safe PushBackList (exercises the HANG path)
    "threadsafe-self-deadlock": ("\tif other == List[T](t) {\n\t\tother = t.list\n\t}\n\n\tt.list.PushBackList(other)",
                                 "\tt.list.PushBackList(other)"),
}


def main():
    names = sys.argv[1:] or list(MUT)
    rows = []
    for name in names:
        old, new = MUT[name]
        src = open(F).read()
        if src.count(old) != 1:
            print("%s: anchor found %d times - skipped" % (name, src.count(old)))
            continue
        try:
            open(F, "w").write(src.replace(old, new))
            t = time.time()
            p = subprocess.run(["timeout", "1500", "python3", "check.py", "C10"], cwd="/verif", env=ENV,
                               stdout=subprocess.PIPE, stderr=subprocess.STDOUT, text=True)
            wall = time.time() - t
        finally:
            subprocess.run(["git", "-C", "/repo", "checkout", "--", "ds/list_impl.go"], check=True)
        sigs = []
        for v in sorted(glob.glob("/verif/out/C10/violation_*.json")):
            sigs.append(json.load(open(v))["sig"])
        nviol = p.stdout.count("\nVIOLATION ") + p.stdout.startswith("VIOLATION ")
        rows.append((name, p.returncode, nviol, wall, sigs))
        print("%-28s exit=%d VIOLATION lines=%d wall=%.0fs sigs=%s" % (name, p.returncode, nviol, wall, sorted(set(sigs))), flush=True)
        with open("/verif/out/C10.sens.%s.log" % name, "w") as fh:
            fh.write(p.stdout)
    dirty = subprocess.run(["git", "-C", "/repo", "status", "--short", "ds/list_impl.go"], stdout=subprocess.PIPE, text=True).stdout
    print("repo ds/list_impl.go clean:", dirty.strip() == "")


if __name__ == "__main__":
    main()
