import subprocess, sys, os, re
env=dict(os.environ, GOFLAGS="-mod=mod", GOPROXY="off", GOSUMDB="off", GOTOOLCHAIN="local")
CASES = {
 "S1-readbytes-single-read": ("serializer/stream/read.go", "nBytes, err := io.CopyN(&buffer, reader, int64(length))",
      "tmp := make([]byte, length)\n\tn0, err := reader.Read(tmp)\n\tbuffer.Write(tmp[:n0])\n\tnBytes := int64(n0)\n\tif err == nil && n0 != length {\n\t\terr = io.ErrUnexpectedEOF\n\t}", "Stream:table"),
 "S2-readnum-no-length-guard": ("serializer/serializer.go", "\tdataSize := numSize(dest)\n\tif l < dataSize {\n\t\td.err = errProducer(ErrDeserializationNotEnoughData)\n\n\t\treturn d\n\t}\n",
      "\tdataSize := numSize(dest)\n", "Deser:table"),
 "S3-varbytes-alloc-before-check": ("serializer/serializer.go", "\tif sliceLength == 0 {\n\t\t*slice = make([]byte, 0)\n",
      "\tearly := make([]byte, sliceLength)\n\t_ = early\n\tif sliceLength == 0 {\n\t\t*slice = make([]byte, 0)\n", "Deser:table"),
 "S4-json-int64-as-number": ("serializer/serix/map_encode.go", "\tcase reflect.Int64:\n\t\treturn strconv.FormatInt(value.Int(), 10), nil", "\tcase reflect.Int64:\n\t\treturn value.Int(), nil", "WireJson:table"),
 "S5-json-bool-guard-removed": ("serializer/serix/map_decode.go", "\t\tif _, ok := mapVal.(bool); !ok {\n\t\t\treturn ierrors.Errorf(\"non bool value for bool field, got %T instead\", mapVal)\n\t\t}\n", "", "WireJson:table"),
 "S6-readbool-any-nonzero": ("serializer/serializer.go", "\tdefault:\n\t\td.err = errProducer(ErrDeserializationInvalidBoolValue)\n\n\t\treturn d\n\t}\n\n\td.offset += OneByte", "\tdefault:\n\t\t*dest = true\n\t}\n\n\td.offset += OneByte", "Deser:table"),
 "S7-bytebuffer-seek-end": ("serializer/stream/byte_buffer.go", "\t\tnewPos = w.buf.Len() + offs", "\t\tnewPos = w.buf.Len() - offs", "StreamBuf"),
 "S8-json-field-order-key": ("serializer/serix/utils.go", "\treturn strings.ToLower(str[:1]) + str[1:]", "\treturn strings.ToLower(str[:2]) + str[2:]", "WireJson:table"),
 "S9-stream-bigendian": ("serializer/stream/read.go", "return result, binary.Read(reader, binary.LittleEndian, &result)", "return result, binary.Read(reader, binary.BigEndian, &result)", "Stream:table"),
 "S10-optional-nil-written": ("serializer/serix/map_decode.go", "\t\t\tif sField.settings.isOptional || sField.settings.omitEmpty {", "\t\t\tif sField.settings.omitEmpty {", "WireJson:table"),
}
which = sys.argv[1:] or list(CASES)
for name in which:
    path, old, new, only = CASES[name]
    full = "/repo/" + path
    src = open(full).read()
    if src.count(old) != 1:
        print(name, "PATTERN NOT FOUND (%d)" % src.count(old)); continue
    open(full, "w").write(src.replace(old, new))
    try:
        b = subprocess.run(["go", "build", "./..."], cwd="/repo/serializer", env=env, capture_output=True, text=True)
        if b.returncode != 0:
            print(name, "does not compile:", b.stderr[-400:]); continue
        t = subprocess.run(["go", "test", "-vet=off", "-count=1", "./..."], cwd="/repo/serializer", env=env, capture_output=True, text=True)
        tests = "repo tests pass" if t.returncode == 0 else "repo tests FAIL"
        e = dict(env, W2_ONLY=only)
        p = subprocess.run(["timeout", "900", "python3", "check.py", "W2"], cwd="/verif", env=e, capture_output=True, text=True)
        viol = re.findall(r"VIOLATION property=W2 replay=(\S+)", p.stdout)
        sigs = []
        import json
        for v in viol:
            sigs.append(json.load(open(v))["sig"])
        sigs = [s for s in sigs if "zero-width" not in s]
        print("%-32s [%s] exit %d: %d violations: %s" % (name, tests, p.returncode, len(sigs), sorted(set(sigs))[:6]))
        if not sigs: print(p.stdout[-1500:])
    finally:
        subprocess.run(["git", "-C", "/repo", "checkout", "--", path])
print(subprocess.run(["git", "-C", "/repo", "status", "--short", "--", "serializer"], capture_output=True, text=True).stdout)
