#!/usr/bin/env python3
"""Sensitivity of check X1: realistic changes (they compile and pass the packages' own tests) are applied one at a time to a
PRIVATE copy of the repository (/tmp/x1mut, never /repo); `VERIF_REPO=/tmp/x1mut python3 check.py X1` must report VIOLATION.
usage: python3 findings/X1-sensitivity.py [name-substring] [--tests]     (--tests: also run the package's own tests on the mutant)
"""
import os
import re
import shutil
import subprocess
import sys

MUT = "/tmp/x1mut"
HT = "kvstore/health_tracker.go"
BO = "runtime/backoff/backoff.go"
OP = "runtime/backoff/options.go"

CHANGES = [
    ("H1-markcorrupted-no-flush", HT,
     'failed to set store health status")\n\t}\n\n\treturn s.store.Flush()\n}\n\nfunc (s *StoreHealthTracker) MarkTainted',
     'failed to set store health status")\n\t}\n\n\treturn nil\n}\n\nfunc (s *StoreHealthTracker) MarkTainted'),
    ("H2-markhealthy-clears-tainted", HT,
     'if err := s.store.Delete([]byte("dbCorrupted")); err != nil {',
     '_ = s.store.Delete([]byte("dbTainted"))\n\tif err := s.store.Delete([]byte("dbCorrupted")); err != nil {'),
    ("H3-iscorrupted-false-on-error", HT,
     'contains, err := s.store.Has([]byte("dbCorrupted"))\n\tif err != nil {\n\t\treturn true,',
     'contains, err := s.store.Has([]byte("dbCorrupted"))\n\tif err != nil {\n\t\treturn false,'),
    ("H4-open-overwrites-version", HT,
     '\t_, err := s.store.Get([]byte("dbVersion"))\n\tif ierrors.Is(err, ErrKeyNotFound) {',
     '\t_, err := s.store.Get([]byte("dbVersion"))\n\tif err == nil || ierrors.Is(err, ErrKeyNotFound) {'),
    ("H5-update-writes-version-before-migration", HT,
     '\tif err := s.storeVersionUpdateFunc(storeVersion, s.storeVersion); err != nil {\n\t\treturn true, err\n\t}\n\n'
     '\tif err := s.store.Set([]byte("dbVersion"), []byte{s.storeVersion}); err != nil {\n\t\treturn true, ierrors.New("failed to set store health version")\n\t}\n',
     '\tif err := s.store.Set([]byte("dbVersion"), []byte{s.storeVersion}); err != nil {\n\t\treturn true, ierrors.New("failed to set store health version")\n\t}\n\n'
     '\tif err := s.storeVersionUpdateFunc(storeVersion, s.storeVersion); err != nil {\n\t\treturn true, err\n\t}\n'),
    ("H6-check-none-says-correct", HT,
     'return false, ErrStoreVersionCheckNotSupported', 'return true, nil'),
    ("H7-marktainted-writes-corrupted-key", HT,
     's.store.Set([]byte("dbTainted"), []byte{})', 's.store.Set([]byte("dbCorrupted"), []byte{})'),
    ("H8-open-swallows-read-error (the fixed defect)", HT,
     '\t} else if err != nil {\n\t\treturn ierrors.New("failed to read store health version")\n\t}\n', '\t}\n'),
    ("H9-update-func-args-swapped", HT,
     's.storeVersionUpdateFunc(storeVersion, s.storeVersion)', 's.storeVersionUpdateFunc(s.storeVersion, storeVersion)'),
    ("H10-istainted-reads-corrupted-key", HT,
     'contains, err := s.store.Has([]byte("dbTainted"))', 'contains, err := s.store.Has([]byte("dbCorrupted"))'),
    ("B1-maxretries-off-by-one", OP, 'if b.maxTries <= b.numTries {', 'if b.maxTries < b.numTries {'),
    ("B2-maxinterval-caps-stop", OP,
     '\t\tif duration > maxInterval {\n\t\t\treturn maxInterval', '\t\tif duration > maxInterval || duration < 0 {\n\t\t\treturn maxInterval'),
    ("B3-retry-returns-first-error", BO,
     '\tvar err error\n\tfor {\n\t\terr = f()\n\t\tif err == nil {\n\t\t\treturn nil\n\t\t}\n',
     '\tvar err, first error\n\tfor {\n\t\terr = f()\n\t\tif err == nil {\n\t\t\treturn nil\n\t\t}\n\t\tif first == nil {\n\t\t\tfirst = err\n\t\t}\n'),
    ("B4-retry-without-new", BO, '\tp = p.New()\n', ''),
    ("B5-retry-without-sleep", BO, '\t\ttime.Sleep(duration)\n', '\t\t_ = time.Sleep\n'),
    ("B6-retry-returns-permanent-wrapper", BO, 'return permanent.Unwrap()', 'return permanent'),
    ("B7-jitter-delta-doubled", OP, 'delta := randomFactor * float64(duration)', 'delta := 2 * randomFactor * float64(duration)'),
    ("B8-maxretries-new-keeps-count", OP,
     '\t\tdelegate: b.delegate.New(),\n\t\tmaxTries: b.maxTries,\n\t\tnumTries: 0,', '\t\tdelegate: b.delegate.New(),\n\t\tmaxTries: b.maxTries,\n\t\tnumTries: b.numTries,'),
    ("B9-exponential-new-copies-current (the fixed defect)", BO,
     '\t\tfactor:          b.factor,\n\t\tcurrentInterval: b.initialInterval,\n\t}\n}\n\n// Increments',
     '\t\tfactor:          b.factor,\n\t\tcurrentInterval: b.currentInterval,\n\t}\n}\n\n// Increments'),
    ("B10-exponential-overflow (the fixed defect)", BO, 'if next >= math.MaxInt64 {', 'if next >= math.MaxInt64 && next < 0 {'),
    ("B11-timeout-does-not-cut", OP,
     '\t\tif now.Add(duration).After(timeout) {\n\t\t\treturn timeout.Sub(now)\n\t\t}\n', ''),
    ("B12-with-applies-options-in-reverse", BO,
     '\tfor _, opt := range opts {\n\t\tp = opt.apply(p)\n\t}', '\tfor i := len(opts) - 1; i >= 0; i-- {\n\t\tp = opts[i].apply(p)\n\t}'),
    ("B13-stateless-new-shares-delegate", OP,
     'func (o *statelessOption) New() Policy {\n\treturn &statelessOption{\n\t\tdelegate: o.delegate.New(),',
     'func (o *statelessOption) New() Policy {\n\treturn &statelessOption{\n\t\tdelegate: o.delegate,'),
    ("B14-retry-last-error-lost-on-stop", BO,
     '\t\tif duration == Stop {\n\t\t\tbreak\n\t\t}', '\t\tif duration == Stop {\n\t\t\treturn ierrors.New("retries exhausted")\n\t\t}'),
    ("B15-exponential-increments-before-return", BO,
     '\tdefer b.incrementCurrentInterval()\n\n\treturn b.currentInterval', '\tb.incrementCurrentInterval()\n\n\treturn b.currentInterval'),
]
# (the last return statement of B3 must also change)
EXTRA = {"B3-retry-returns-first-error": (BO, '\t\ttime.Sleep(duration)\n\t}\n\n\treturn err\n}', '\t\ttime.Sleep(duration)\n\t}\n\n\treturn first\n}')}

ENV = dict(os.environ, GOFLAGS="-mod=mod", GOPROXY="off", GOSUMDB="off", GOTOOLCHAIN="local", VERIF_REPO=MUT)


def main():
    args = [a for a in sys.argv[1:] if not a.startswith("--")]
    tests = "--tests" in sys.argv
    only = args[0] if args else ""
    if not os.path.isdir(MUT):
        os.makedirs(MUT)
        subprocess.run("cd /repo && tar --exclude=.git -cf - . | (cd %s && tar xf -)" % MUT, shell=True, check=True)
    caught = missed = 0
    for name, rel, old, new in CHANGES:
        if only not in name:
            continue
        for r in (HT, BO, OP):
            shutil.copy(os.path.join("/repo", r), os.path.join(MUT, r))
        edits = [(rel, old, new)] + ([EXTRA[name]] if name in EXTRA else [])
        for r, o, n in edits:
            p = os.path.join(MUT, r)
            s = open(p).read()
            if s.count(o) != 1:
                print("%-70s PATTERN NOT FOUND (%d)" % (name, s.count(o)))
                break
            open(p, "w").write(s.replace(o, n))
        else:
            tst = ""
            if tests:
                mod = rel.split("/")[0]
                sub = os.path.dirname(rel)[len(mod):].lstrip("/")
                pkg = "./" + sub if sub else "."
                t = subprocess.run(["go", "test", "-vet=off", "-count=1", pkg], cwd=os.path.join(MUT, mod), env=ENV,
                                   stdout=subprocess.PIPE, stderr=subprocess.STDOUT, text=True)
                tst = " own-tests=%s" % ("pass" if t.returncode == 0 else "FAIL")
            p = subprocess.run(["python3", "check.py", "X1"], cwd="/verif", env=ENV, stdout=subprocess.PIPE,
                               stderr=subprocess.STDOUT, text=True, timeout=900)
            sigs = set()
            for v in re.findall(r"replay=(\S+)", p.stdout):
                try:
                    import json
                    sigs.add(json.load(open(v))["sig"])
                except Exception:
                    pass
            verdict = "CAUGHT" if p.returncode == 1 else ("exit %d" % p.returncode)
            caught += p.returncode == 1
            missed += p.returncode != 1
            print("%-70s %s%s  %s" % (name, verdict, tst, " ".join(sorted(sigs))), flush=True)
            if p.returncode not in (0, 1):
                print(p.stdout[-1500:])
    for r in (HT, BO, OP):
        shutil.copy(os.path.join("/repo", r), os.path.join(MUT, r))
    print("caught %d, not caught %d" % (caught, missed))


if __name__ == "__main__":
    main()
