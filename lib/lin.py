"""Trace validation with silent steps (linearizability): the trace module reads trace.ndjson itself, TLC searches
depth-first for a placement of the silent steps; acceptance = the invariant NotDone is 'violated' (end of log reached)."""
import re

from . import flows, tlc


def validate(specdir, module, tracepath, cfgkind="", timeout=600):
    """returns dict(accepted, high_water (1-based index of the furthest line reached), total, tlc)"""
    cfg = flows.read_cfg(specdir, module, cfgkind)
    with open(tracepath) as fh:
        total = len([x for x in fh.read().splitlines() if x.strip()])
    r = tlc.run(specdir, module, cfg, extra_files={"trace.ndjson": tracepath}, timeout=timeout, workers=1, dfs=True)
    res = {"tlc": r, "total": total, "accepted": False, "high_water": None}
    if r.status == "invariant" and r.violated == "NotDone":
        res["accepted"] = True
        res["high_water"] = total + 1
        return res
    for tag, payload in r.prints:
        if tag == "HW":
            try:
                res["high_water"] = int(payload)
            except ValueError:
                pass
    if r.status == "ok" and res["high_water"] is not None:
        return res          # search exhausted without reaching the end: rejected
    res["error"] = "TLC status %s" % r.status
    return res
