"""Trace validation with silent steps (linearizability): the trace module reads trace.ndjson itself, TLC searches
depth-first for a placement of the silent steps; acceptance = the invariant NotDone is 'violated' (end of log reached)."""
import json
import os

from . import flows, tlc
from .units import Unit, Inconclusive, run_h


def validate(specdir, module, tracepath, cfgkind="", timeout=600):
    """returns dict(accepted, high_water (1-based index of the furthest line reached), total, tlc)"""
    cfg = flows.read_cfg(specdir, module, cfgkind)
    with open(tracepath) as fh:
        total = len([x for x in fh.read().splitlines() if x.strip()])
    r = tlc.run(specdir, module, cfg, extra_files={"trace.ndjson": tracepath}, timeout=timeout, workers=1, dfs=True)
    res = {"tlc": r, "total": total, "accepted": False, "high_water": None}
    if r.status == "invariant" and r.violated == "NotDone":
        res["accepted"] = True
        res["high_water"] = total + 1
        return res
    for tag, payload in r.prints:
        if tag == "HW":
            try:
                res["high_water"] = int(payload)
            except ValueError:
                pass
    if r.status == "ok" and res["high_water"] is not None:
        return res          # search exhausted without reaching the end: rejected
    res["error"] = "TLC status %s" % r.status
    return res


class LinUnit(Unit):
    """code -> model with silent steps: a driver records concurrent histories of the real object (invoke/return events,
    forced schedules, mixes under a watchdog; histories separated by {"ev":"reset"}, each ending with a "final" event);
    TLC searches depth-first for a linearization of every history against the trace module."""
    def __init__(self, sub, module, command, quick_args, thorough_args, label, name=None):
        self.sub, self.module, self.command = sub, module, command
        self.quick_args, self.thorough_args, self.label = quick_args, thorough_args, label
        self.name = name or (module + ":" + command)
        self.info = {}

    def summary(self):
        return json.dumps(self.info)

    def run(self, ctx):
        tr = os.path.join(ctx.out, self.command + ".ndjson")
        args = self.thorough_args if ctx.thorough else self.quick_args
        p = run_h(ctx, [self.command, "-seed", str(ctx.seed), "-out", tr] + [str(a) for a in args], timeout=900)
        if p.returncode != 0:
            raise Inconclusive("%s died: %s" % (self.command, (p.stderr or p.stdout)[-1500:]))
        self.info["driver"] = p.stdout.strip()
        with open(tr) as fh:
            lines = [x for x in fh.read().splitlines() if x.strip()]
        hists = split_traces_ev(lines)
        total = len(hists)
        rejected = 0
        for rnd in range(8):
            cur = os.path.join(ctx.out, self.command + ".validate.ndjson")
            with open(cur, "w") as fh:
                for h in hists:
                    fh.write("\n".join(h) + "\n")
            v = validate(ctx.spec(self.sub), self.module, cur, timeout=900)
            ctx.bump("trace_validation_states", v["tlc"].distinct)
            if v.get("error"):
                save = os.path.join(ctx.out, self.module + ".out")
                open(save, "w").write(v["tlc"].out)
                raise Inconclusive("linearizability search did not run: %s (%s)" % (v["error"], save))
            if v["accepted"]:
                break
            hw = v["high_water"]          # 1-based index of the furthest line reached = first line that could not be consumed
            pos, bad = 0, None
            for i, h in enumerate(hists):
                if pos < hw <= pos + len(h):
                    bad = i
                    break
                pos += len(h)
            if bad is None:
                raise Inconclusive("cannot locate the rejected history (high water %s)" % hw)
            h = [json.loads(x) for x in hists[bad]]
            off = h[hw - pos - 1]
            if off.get("ev") == "final" and off.get("hung"):
                sig = self.label + ":deadlock:%s" % off.get("scenario", "history")
                what = self.label + ": calls never returned (threads %s hung) in schedule %s" % (off["hung"], off.get("scenario", "free-running history"))
            else:
                sig = self.label + ":lin:%s" % off.get("ev")
                what = self.label + ": history is not linearizable; no placement of the linearization points explains %s" % json.dumps(off)
            if not any(x["sig"] == sig for x in ctx.violations):
                ctx.violation(self.name, sig, what, {"kind": "history", "history": h})
            rejected += 1
            del hists[bad]
        else:
            ctx.inconclusive.append(self.module + ": more than 8 rejected histories, rest not validated")
        ctx.validated += total - rejected
        self.info["histories"] = total
        self.info["rejected"] = rejected
        if hists:
            ctx.sample({"unit": self.name, "flow": "code->model (concurrent history, first events)", "history": [json.loads(x) for x in hists[min(4, len(hists) - 1)][:10]]})

    def replay(self, ctx, data):
        tr = os.path.join(ctx.out, "replay.ndjson")
        with open(tr, "w") as fh:
            for e in data["history"]:
                fh.write(json.dumps(e) + "\n")
        v = validate(ctx.spec(self.sub), self.module, tr)
        print("accepted" if v["accepted"] else "rejected at line %s" % v["high_water"])
        return 0 if v["accepted"] else 1


def split_traces_ev(lines):
    out, cur = [], []
    for l in lines:
        if '"ev":"reset"' in l.replace(" ", "") and cur:
            out.append(cur)
            cur = []
        cur.append(l)
    if cur:
        out.append(cur)
    return out


