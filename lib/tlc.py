"""Run TLC in a scratch directory and parse what it reports.

Every call: own scratch dir (copy of the spec dir + generated modules), own -metadir, outer
timeout.  Returns a TLCResult; never raises on TLC failure (status tells).
"""
import json
import os
import re
import shutil
import subprocess
import tempfile
import time

JAR = "/opt/veriftools/tla/tla2tools.jar:/opt/veriftools/tla/CommunityModules-deps.jar"


class TLCResult:
    def __init__(self):
        self.status = "error"  # ok | invariant | property | deadlock | postcondition | assumption | error | timeout
        self.violated = None   # name of violated invariant/property
        self.generated = 0
        self.distinct = 0
        self.diameter = 0
        self.out = ""
        self.wall = 0.0
        self.prints = []       # decoded PrintT payloads: list of (tag, payload)
        self.coverage = {}     # action -> (distinct, total)
        self.cex = []          # counterexample states (text blocks)

    def ok(self):
        return self.status == "ok"


_PRINT_RE = re.compile(r'^<<"([A-Z_]+)", (.*)>>$')


def _unescape(s):
    # TLA+ string literal (without the quotes) -> python str
    out = []
    i = 0
    while i < len(s):
        c = s[i]
        if c == "\\" and i + 1 < len(s):
            n = s[i + 1]
            out.append({"n": "\n", "t": "\t", '"': '"', "\\": "\\"}.get(n, n))
            i += 2
        else:
            out.append(c)
            i += 1
    return "".join(out)


def parse_prints(text):
    res = []
    for line in text.splitlines():
        m = _PRINT_RE.match(line)
        if not m:
            continue
        tag, rest = m.group(1), m.group(2)
        rest = rest.strip()
        if rest.startswith('"') and rest.endswith('"'):
            res.append((tag, _unescape(rest[1:-1])))
        else:
            res.append((tag, rest))
    return res


def run(specdir, module, cfg_text, extra_modules=None, workers="auto", timeout=600, simulate=None,
        depth=None, seed=None, coverage=False, dfs=False, extra_files=None, deadlock=False,
        heap=None, keep=None, dump_trace=None):
    """specdir: directory with .tla files (copied). module: root module name. cfg_text: the cfg.
    extra_modules: {name: text} of generated modules. extra_files: {name: path} copied in.
    """
    r = TLCResult()
    scratch = tempfile.mkdtemp(prefix="verif-tlc-")
    try:
        for f in os.listdir(specdir):
            if f.endswith(".tla"):
                shutil.copy(os.path.join(specdir, f), scratch)
        for name, text in (extra_modules or {}).items():
            with open(os.path.join(scratch, name + ".tla"), "w") as fh:
                fh.write(text)
        for name, path in (extra_files or {}).items():
            shutil.copy(path, os.path.join(scratch, name))
        with open(os.path.join(scratch, module + ".cfg"), "w") as fh:
            fh.write(cfg_text)
        cmd = ["java", "-XX:+UseParallelGC"]
        if heap:
            cmd.append("-Xmx" + heap)
        cmd += ["-Xss64m", "-Djava.io.tmpdir=" + scratch]   # (TLC leaves an empty tlc-<n> directory per run in the tmpdir)
        if dfs:
            cmd.append("-Dtlc2.tool.queue.IStateQueue=StateDeque")
        cmd += ["-cp", JAR, "tlc2.TLC", "-metadir", os.path.join(scratch, "meta"),
                "-workers", str(workers), "-config", module + ".cfg"]
        if not deadlock:
            cmd.append("-deadlock")  # -deadlock DISABLES deadlock checking
        if simulate:
            cmd += ["-simulate", simulate]
        if depth:
            cmd += ["-depth", str(depth)]
        if seed is not None:
            cmd += ["-seed", str(seed)]
        if coverage:
            cmd += ["-coverage", "1"]
        if dump_trace:
            cmd += ["-dumpTrace", "json", os.path.join(scratch, "cex.json")]
        cmd.append(module + ".tla")
        t0 = time.time()
        try:
            p = subprocess.run(cmd, cwd=scratch, stdout=subprocess.PIPE, stderr=subprocess.STDOUT,
                               timeout=timeout, text=True, errors="replace")
            r.out = p.stdout
            rc = p.returncode
        except subprocess.TimeoutExpired as e:
            r.out = (e.stdout or b"").decode("utf8", "replace") if isinstance(e.stdout, bytes) else (e.stdout or "")
            r.status = "timeout"
            r.wall = time.time() - t0
            return r
        r.wall = time.time() - t0
        out = r.out
        m = re.search(r"(\d+) states generated, (\d+) distinct states found", out)
        if m:
            r.generated, r.distinct = int(m.group(1)), int(m.group(2))
        m = re.search(r"The depth of the complete state graph search is (\d+)", out)
        if m:
            r.diameter = int(m.group(1))
        r.prints = parse_prints(out)
        if "Model checking completed. No error has been found" in out or (simulate and rc == 0):
            r.status = "ok"
        elif re.search(r"Invariant (\S+) is violated", out):
            r.status = "invariant"
            r.violated = re.search(r"Invariant (\S+) is violated", out).group(1)
        elif re.search(r"Temporal property (\S+) was violated", out):
            r.status = "property"
            r.violated = re.search(r"Temporal property (\S+) was violated", out).group(1)
        elif "Temporal properties were violated" in out:
            r.status = "property"
        elif re.search(r"Action property (\S+) is violated", out):
            r.status = "property"
            r.violated = re.search(r"Action property (\S+) is violated", out).group(1)
        elif "Deadlock reached" in out:
            r.status = "deadlock"
        elif "post condition" in out.lower() and "violated" in out.lower() or "POSTCONDITION" in out and "false" in out.lower():
            r.status = "postcondition"
        elif "Assumption" in out and "is false" in out:
            r.status = "assumption"
        else:
            r.status = "error"
        if dump_trace and os.path.exists(os.path.join(scratch, "cex.json")):
            try:
                with open(os.path.join(scratch, "cex.json")) as fh:
                    r.cex = json.load(fh)
            except Exception:
                pass
        if coverage:
            for m in re.finditer(r"<(\w+) line \d+, col \d+ to line \d+, col \d+ of module (\w+)>: (\d+):(\d+)", out):
                r.coverage[m.group(2) + "." + m.group(1)] = (int(m.group(3)), int(m.group(4)))
        if keep:
            shutil.copytree(scratch, keep, dirs_exist_ok=True)
        return r
    finally:
        shutil.rmtree(scratch, ignore_errors=True)
