"""The three binding flows between a TLA+ module (sequential convention: cfg/ev/Do/View/Init)
and the Go harness.

  mc()        exhaustive TLC run of <M>.cfg                    (design check)
  lts()       TLC dumps the labelled transition system of <M>.lts.cfg (or <M>.cfg) as JSON edges
  validate()  TLC validates an NDJSON trace recorded from the real code against Do()
"""
import json
import os

from . import tlc

GEN_TMPL = """---- MODULE {m}Gen ----
EXTENDS {m}, Json, TLC
GenDump == PrintT(<<"E", ToJson([f |-> ToString(View), t |-> ToString(View'), i |-> (ev.op = "reset"), c |-> cfg, e |-> ev'])>>)
====
"""

TRACE_TMPL = """---- MODULE {m}Trace ----
EXTENDS {m}, Json, TLC
VARIABLE l
TraceLog == ndJsonDeserialize("trace.ndjson")
TInit == l = 2 /\\ Init /\\ cfg = TraceLog[1].cfg /\\ ev = TraceLog[1]
VerifTraceExplain(e) == PrintT(<<"EXPECTED", ToJson([l |-> l, model |-> e])>>) /\\ FALSE
TNext == /\\ l <= Len(TraceLog)
         /\\ l' = l + 1
         /\\ Do(TraceLog[l])
         /\\ (ev' = TraceLog[l] \\/ VerifTraceExplain(ev'))
TSpec == TInit /\\ [][TNext]_<<vars, l>>
TView == <<vars, l>>
VerifTraceAccepted == LET d == TLCGet("stats").diameter IN
            PrintT(<<"DEPTH", ToString(d)>>) /\\ d = Len(TraceLog)
====
"""


def read_cfg(specdir, module, kind):
    """kind: '' (mc), 'lts', 'trace' - falls back to the mc cfg."""
    for k in ([kind] if kind else []) + [""]:
        p = os.path.join(specdir, module + ("." + k if k else "") + ".cfg")
        if os.path.exists(p):
            with open(p) as fh:
                return fh.read()
    raise FileNotFoundError(module + " cfg")


def _strip_props(cfg):
    """drop PROPERTIES/PROPERTY (temporal) sections - not wanted when exporting / validating"""
    out, skip = [], False
    for line in cfg.splitlines():
        w = line.strip().split(" ")[0] if line.strip() else ""
        if w in ("PROPERTIES", "PROPERTY"):
            skip = True
            rest = line.strip()[len(w):].strip()
            continue
        if w in ("CONSTANTS", "CONSTANT", "INVARIANTS", "INVARIANT", "CONSTRAINT", "CONSTRAINTS",
                 "ACTION_CONSTRAINT", "ACTION_CONSTRAINTS", "SPECIFICATION", "INIT", "NEXT", "VIEW",
                 "SYMMETRY", "CHECK_DEADLOCK", "POSTCONDITION", "ALIAS"):
            skip = False
        if not skip:
            out.append(line)
    return "\n".join(out) + "\n"


def mc(specdir, module, cfgkind="", timeout=900, workers="auto", coverage=False, spec="Spec",
       deadlock=False, heap=None):
    cfg = read_cfg(specdir, module, cfgkind)
    if "SPECIFICATION" not in cfg and "INIT" not in cfg:
        cfg = "SPECIFICATION %s\n" % spec + cfg
    if "VIEW" not in cfg and "PROPERT" not in cfg:
        cfg += "\nVIEW View\n"
    return tlc.run(specdir, module, cfg, timeout=timeout, workers=workers, coverage=coverage,
                   deadlock=deadlock, heap=heap)


def lts(specdir, module, outpath, cfgkind="lts", timeout=900):
    """returns (TLCResult, nedges). Edges written to outpath as JSON lines."""
    cfg = _strip_props(read_cfg(specdir, module, cfgkind))
    cfg = "SPECIFICATION Spec\n" + cfg + "\nVIEW View\nACTION_CONSTRAINT GenDump\n"
    r = tlc.run(specdir, module + "Gen", cfg, extra_modules={module + "Gen": GEN_TMPL.format(m=module)},
                timeout=timeout, workers=1)
    n = 0
    seen = set()
    with open(outpath, "w") as fh:
        for tag, payload in r.prints:
            if tag == "E" and payload not in seen:
                seen.add(payload)
                fh.write(payload + "\n")
                n += 1
    return r, n


def validate(specdir, module, tracepath, cfgkind="trace", timeout=900):
    """Validate one NDJSON file (many traces, each starting with an op=reset line).
    returns dict(accepted, matched, total, offending(line dict or None), expected(list), tlc)"""
    cfg = _strip_props(read_cfg(specdir, module, cfgkind))
    cfg = "INIT TInit\nNEXT TNext\n" + cfg + "\nPOSTCONDITION VerifTraceAccepted\n"
    text = TRACE_TMPL.format(m=module)
    with open(tracepath) as fh:
        lines = [ln for ln in fh.read().splitlines() if ln.strip()]
    total = len(lines)
    r = tlc.run(specdir, module + "Trace", cfg, extra_modules={module + "Trace": text},
                extra_files={"trace.ndjson": tracepath}, timeout=timeout, workers=1)
    depth = None
    expected = []
    for tag, payload in r.prints:
        if tag == "DEPTH":
            depth = int(payload)
        if tag == "EXPECTED":
            try:
                expected.append(json.loads(payload))
            except Exception:
                expected.append(payload)
    res = {"tlc": r, "total": total, "matched": None, "accepted": False, "offending": None,
           "expected": [], "offending_index": None}
    if depth is None and r.status == "invariant":
        import re as _re
        ls = _re.findall(r"^/\\ l = (\d+)$", r.out, _re.M)
        if ls:
            res["invariant"] = r.violated
            res["matched"] = int(ls[-1]) - 2
            res["offending_index"] = int(ls[-1]) - 2
            res["offending"] = json.loads(lines[int(ls[-1]) - 2])
            return res
    if depth is None:
        res["error"] = "no DEPTH line (TLC status %s)" % r.status
        return res
    res["matched"] = depth
    if r.status == "ok" and depth == total:
        res["accepted"] = True
        return res
    if r.status in ("invariant",):
        res["invariant"] = r.violated
    if depth < total:
        res["offending_index"] = depth  # 0-based index of the first line not matched
        res["offending"] = json.loads(lines[depth])
        res["expected"] = [e["model"] for e in expected if isinstance(e, dict) and e.get("l") == depth + 1]
    return res
