"""Units of verification and the bookkeeping around them (violations, known findings, evidence)."""
import glob
import json
import os
import shutil
import subprocess
import time

from . import flows, tlc


class Inconclusive(Exception):
    pass


class Ctx:
    def __init__(self, root, pid, tier, seed, clean=True):
        self.root, self.pid, self.tier, self.seed = root, pid, tier, seed
        # VERIF_REPO=<dir>: build the harness against another checkout of hive.go (a scratch worktree holding a seeded
        # change) instead of /repo; binaries, outputs and evidence then go to separate places so that regular runs
        # are not disturbed.  Registered checks never set it.
        self.repo = os.environ.get("VERIF_REPO", "/repo").rstrip("/")
        self.alt = self.repo != "/repo"
        self.out = os.path.join(root, "out", pid + ("-alt-" + os.path.basename(self.repo) if self.alt else ""))
        if clean:
            shutil.rmtree(self.out, ignore_errors=True)
        os.makedirs(self.out, exist_ok=True)
        self.h = os.path.join(root, "harness", "bin", "h-" + pid + ("-alt-" + os.path.basename(self.repo) if self.alt else ""))
        self.violations = []     # dicts: unit, sig, what, replay
        self.inconclusive = []   # strings
        self.states = 0
        self.transitions = 0
        self.replayed = 0        # model->code: behaviours / tours / schedules replayed on the real code
        self.validated = 0       # code->model: recorded traces validated by TLC
        self.samples = []
        self.extra = {}
        self.assumptions = []
        self.thorough = tier == "thorough"

    def spec(self, sub):
        return os.path.join(self.root, "spec", sub)

    def add_tlc(self, r):
        self.states += r.distinct
        self.transitions += r.generated

    def violation(self, unit, sig, what, replay_obj):
        n = len(self.violations) + 1
        path = os.path.join(self.out, "violation_%d.json" % n)
        replay_obj = dict(replay_obj)
        replay_obj.update({"property": self.pid, "unit": unit, "sig": sig, "what": what})
        with open(path, "w") as fh:
            json.dump(replay_obj, fh, indent=1)
        self.violations.append({"unit": unit, "sig": sig, "what": what, "replay": path})

    def sample(self, s):
        if len(self.samples) < 6:
            self.samples.append(s)

    def bump(self, key, n=1):
        self.extra[key] = self.extra.get(key, 0) + n


GOENV = {"GOFLAGS": "-mod=mod", "GOPROXY": "off", "GOSUMDB": "off", "GOTOOLCHAIN": "local"}


def goenv():
    e = dict(os.environ)
    e.update(GOENV)
    return e


def build_harness(ctx, race=False):
    hdir = os.path.join(ctx.root, "harness")
    sums = set()
    for p in glob.glob("/repo/*/go.sum"):
        with open(p) as fh:
            sums.update(l for l in fh.read().splitlines() if l.strip())
    with open(os.path.join(hdir, "go.sum"), "w") as fh:
        fh.write("\n".join(sorted(sums)) + "\n")
    os.makedirs(os.path.join(hdir, "bin"), exist_ok=True)
    modflag = []
    if ctx.alt:
        tag = os.path.basename(ctx.repo)
        with open(os.path.join(hdir, "go.mod")) as fh:
            mod = fh.read().replace("=> /repo/", "=> " + ctx.repo + "/")
        with open(os.path.join(hdir, "go.alt-%s.mod" % tag), "w") as fh:
            fh.write(mod)
        shutil.copy(os.path.join(hdir, "go.sum"), os.path.join(hdir, "go.alt-%s.sum" % tag))
        modflag = ["-modfile", "go.alt-%s.mod" % tag]
    cmd = ["go", "build"] + modflag + ["-tags", "verif", "-o", ctx.h, "./cmd/" + ctx.pid.lower()]
    p = subprocess.run(cmd, cwd=hdir, env=goenv(), stdout=subprocess.PIPE, stderr=subprocess.STDOUT, text=True)
    if p.returncode != 0:
        print(p.stdout)
        raise Inconclusive("harness does not build against /repo (exit %d)" % p.returncode)
    if race:
        cmd = ["go", "build"] + modflag + ["-race", "-tags", "verif", "-o", ctx.h + "-race", "./cmd/" + ctx.pid.lower()]
        p = subprocess.run(cmd, cwd=hdir, env=goenv(), stdout=subprocess.PIPE, stderr=subprocess.STDOUT, text=True)
        if p.returncode != 0:
            print(p.stdout)
            raise Inconclusive("race harness does not build")


def run_h(ctx, args, timeout=600, race=False, env=None):
    exe = ctx.h + ("-race" if race else "")
    e = goenv()
    if env:
        e.update(env)
    try:
        p = subprocess.run([exe] + args, stdout=subprocess.PIPE, stderr=subprocess.PIPE, text=True, timeout=timeout, env=e)
    except subprocess.TimeoutExpired:
        raise Inconclusive("harness timed out: %s" % " ".join(args))
    return p


class Unit:
    name = "unit"

    def run(self, ctx):
        raise NotImplementedError

    def summary(self):
        return ""

    def replay(self, ctx, data):
        print("no replay for this unit")
        return 2


class SeqUnit(Unit):
    """A sequential subsystem under the cfg/ev/Do convention: exhaustive TLC, LTS tour on the real
    object (model -> code), recorded random histories validated by TLC (code -> model)."""

    def __init__(self, sub, module, sut=None, traces=(60, 80), thorough_traces=(600, 120), walks=(200, 30),
                 thorough_walks=(3000, 60), mc_timeout=900, do_mc=True, do_lts=True, do_trace=True,
                 thorough_cfg=None, coverage_gate=True, lts_kind="lts", name=None):
        self.sub, self.module, self.sut = sub, module, sut or module
        self.name = name or module
        self.lts_kind = lts_kind
        self.traces, self.thorough_traces = traces, thorough_traces
        self.walks, self.thorough_walks = walks, thorough_walks
        self.mc_timeout = mc_timeout
        self.do_mc, self.do_lts, self.do_trace = do_mc, do_lts, do_trace
        self.thorough_cfg = thorough_cfg
        self.info = {}

    def summary(self):
        return json.dumps(self.info)

    def run(self, ctx):
        sd = ctx.spec(self.sub)
        if self.do_mc:
            kind = ""
            if ctx.thorough and os.path.exists(os.path.join(sd, self.module + ".thorough.cfg")):
                kind = "thorough"
            r = flows.mc(sd, self.module, kind, timeout=self.mc_timeout, coverage=ctx.thorough)
            ctx.add_tlc(r)
            self.info["mc"] = [r.status, r.distinct, r.generated]
            if not r.ok():
                save = os.path.join(ctx.out, self.module + ".mc.out")
                with open(save, "w") as fh:
                    fh.write(r.out)
                raise Inconclusive("TLC on %s: %s %s (model problem, output in %s)" % (self.module, r.status, r.violated or "", save))
            if ctx.thorough and r.coverage:
                dead = [k for k, (d, t) in r.coverage.items() if t == 0 and not k.endswith(".Init")]
                if dead:
                    raise Inconclusive("vacuity: actions never taken in %s: %s" % (self.module, dead))
        if self.do_lts:
            self.run_lts(ctx, sd)
        if self.do_trace:
            self.run_trace(ctx, sd)

    def run_lts(self, ctx, sd):
        edges = os.path.join(ctx.out, self.name.replace(":", "_") + ".edges")
        kind = self.lts_kind
        if self.lts_kind == "lts" and ctx.thorough and os.path.exists(os.path.join(sd, self.module + ".thorough.cfg")):
            kind = "thorough"
        r, n = flows.lts(sd, self.module, edges, cfgkind=kind, timeout=self.mc_timeout)
        if not r.ok() or n == 0:
            save = os.path.join(ctx.out, self.module + ".lts.out")
            with open(save, "w") as fh:
                fh.write(r.out)
            raise Inconclusive("LTS export of %s failed: %s (%s)" % (self.module, r.status, save))
        walks, depth = self.thorough_walks if ctx.thorough else self.walks
        rep_path = os.path.join(ctx.out, self.name.replace(":", "_") + ".walk.json")
        p = run_h(ctx, ["lts", self.sut, edges, "-seed", str(ctx.seed), "-walks", str(walks), "-depth", str(depth), "-out", rep_path])
        if p.returncode != 0:
            raise Inconclusive("walker died on %s: %s" % (self.module, (p.stderr or p.stdout)[-2000:]))
        rep = json.load(open(rep_path))
        self.info["lts"] = {"states": rep["states"], "edges": rep["edges"], "covered": rep["edges_covered"],
                            "groups": rep["stimulus_groups"], "groups_covered": rep["stimulus_groups_covered"],
                            "steps": rep["steps"]}
        ctx.bump("lts_edges_total", rep["edges"])
        ctx.bump("lts_edges_covered", rep["edges_covered"])
        ctx.bump("lts_stimulus_groups_total", rep["stimulus_groups"])
        ctx.bump("lts_stimulus_groups_covered", rep["stimulus_groups_covered"])
        ctx.bump("replay_steps_on_real_code", rep["steps"])
        ctx.replayed += rep["resets"]
        for s in (rep.get("samples") or [])[:1]:
            ctx.sample({"unit": self.name, "flow": "model->code (LTS tour path)", "path": s})
        seen = set()
        for m in rep.get("mismatches") or []:
            sig = "%s:lts:%s" % (self.sut, m["op"])
            if "|panic:" in (m.get("class") or ""):
                sig = "%s:lts:%s" % (self.sut, m["class"].split("|", 1)[1].rstrip())
            if sig in seen:
                continue
            seen.add(sig)
            what = "%s.%s: real code gave %s, model allows %s (cfg %s, after %d steps)" % (
                self.sut, m["op"], json.dumps(m["observed"]), json.dumps(m["expected"]), json.dumps(m["cfg"]), len(m["path"]) - 1)
            ctx.violation(self.name, sig, what, {"kind": "path", "sut": self.sut, "mismatch": m})
        # coverage gate: every stimulus group in every state THIS implementation can reach (alternatives of nondeterministic
        # groups it never takes lead to states that cannot be visited) must have been exercised or have produced a mismatch
        reachable = rep.get("stimulus_groups_reachable", rep["stimulus_groups"])
        bad = rep.get("stimulus_groups_mismatched", 0)
        self.info["lts"]["groups_reachable"] = reachable
        ctx.bump("lts_stimulus_groups_reachable_by_impl", reachable)
        missing = reachable - rep["stimulus_groups_covered"] - bad
        ctx.bump("lts_stimulus_groups_unexercised", max(0, missing))
        # (states behind outcomes of nondeterministic groups that the implementation produces only now and then can stay
        #  unexercised in a run; up to 0.5 % of the groups is tolerated and reported, more fails the run as inconclusive)
        if missing > max(2, reachable // 200):
            raise Inconclusive("LTS tour of %s covered %d (+%d mismatched) of %d reachable stimulus groups" % (
                self.module, rep["stimulus_groups_covered"], bad, reachable))

    def run_trace(self, ctx, sd):
        ntr, ln = self.thorough_traces if ctx.thorough else self.traces
        tr = os.path.join(ctx.out, self.module + ".ndjson")
        p = run_h(ctx, ["record", self.sut, "-seed", str(ctx.seed), "-traces", str(ntr), "-len", str(ln), "-out", tr])
        if p.returncode != 0:
            raise Inconclusive("recorder died on %s: %s" % (self.module, (p.stderr or p.stdout)[-2000:]))
        validate_file(ctx, self, sd, self.module, tr)

    def replay(self, ctx, data):
        if data.get("kind") == "path":
            pth = os.path.join(ctx.out, "replay_path.json")
            json.dump(data["mismatch"], open(pth, "w"))
            p = run_h(ctx, ["path", data["sut"], pth])
            print(p.stdout, p.stderr)
            return 1 if p.returncode == 1 else (0 if p.returncode == 0 else 2)
        if data.get("kind") == "trace":
            tr = os.path.join(ctx.out, "replay.ndjson")
            with open(tr, "w") as fh:
                for l in data["trace"]:
                    fh.write(json.dumps(l) + "\n")
            v = flows.validate(ctx.spec(self.sub), self.module, tr)
            if v["accepted"]:
                print("trace accepted by", self.module)
                return 0
            print("trace rejected at line %s: recorded %s, model %s" % (v["offending_index"], json.dumps(v["offending"]), json.dumps(v["expected"])))
            return 1
        return 2


def split_traces(lines):
    traces, cur = [], []
    for l in lines:
        if '"op":"reset"' in l.replace(" ", "") and cur:
            traces.append(cur)
            cur = []
        cur.append(l)
    if cur:
        traces.append(cur)
    return traces


def validate_file(ctx, unit, sd, module, tr, cfgkind="trace", max_rounds=6, timeout=900):
    """TLC validates the NDJSON file; a rejected trace is reported, cut out, and the rest re-validated."""
    with open(tr) as fh:
        lines = [l for l in fh.read().splitlines() if l.strip()]
    traces = split_traces(lines)
    total_traces = len(traces)
    rejected = 0
    events = 0
    for rnd in range(max_rounds):
        cur = os.path.join(ctx.out, "%s.validate.ndjson" % module)
        with open(cur, "w") as fh:
            for t in traces:
                fh.write("\n".join(t) + "\n")
        v = flows.validate(sd, module, cur, cfgkind=cfgkind, timeout=timeout)
        ctx.bump("trace_validation_states", v["tlc"].distinct)
        if v.get("error"):
            save = os.path.join(ctx.out, module + ".trace.out")
            with open(save, "w") as fh:
                fh.write(v["tlc"].out)
            raise Inconclusive("trace validation of %s did not run: %s (%s)" % (module, v["error"], save))
        if v["accepted"]:
            events += v["total"]
            break
        # locate the trace containing the offending line
        idx = v["offending_index"]
        pos = 0
        bad = None
        for i, t in enumerate(traces):
            if pos <= idx < pos + len(t):
                bad = i
                break
            pos += len(t)
        if bad is None:
            raise Inconclusive("cannot locate rejected line %s" % idx)
        t = traces[bad]
        upto = [json.loads(x) for x in t[: idx - pos + 1]]
        off = v["offending"]
        op = off.get("op", "?")
        sig = "%s:trace:%s" % (getattr(unit, "sut", module), op)
        if v.get("invariant"):
            sig += ":" + v["invariant"]
            what = "%s: recorded execution of the real code violates invariant %s at %s" % (module, v["invariant"], json.dumps(off))
        else:
            what = "%s.%s: real code recorded %s, model requires %s" % (module, op, json.dumps(off), json.dumps(v["expected"]))
        if not any(x["sig"] == sig for x in ctx.violations):
            ctx.violation(unit.name, sig, what, {"kind": "trace", "module": module, "trace": upto, "expected": v["expected"]})
        rejected += 1
        events += pos
        del traces[bad]
        if not traces:
            break
    else:
        ctx.inconclusive.append("%s: more than %d rejected traces, rest not validated" % (module, max_rounds))
    if ctx.thorough and traces and rejected == 0:
        binding_control(ctx, unit, sd, module, traces[0], cfgkind, timeout)
    ctx.validated += total_traces - rejected if rejected < total_traces else 0
    ctx.bump("validated_trace_events", events)
    unit.info["trace"] = {"traces": total_traces, "rejected": rejected, "events": sum(len(t) for t in traces)}
    if traces:
        ctx.sample({"unit": unit.name, "flow": "code->model (recorded trace, first lines)",
                    "trace": [json.loads(x) for x in traces[0][:8]]})


def _corrupt(v):
    """alter the first boolean / integer leaf found (depth-first); returns (new value, changed?)"""
    if isinstance(v, bool):
        return (not v), True
    if isinstance(v, int):
        return v + 1, True
    if isinstance(v, list):
        for i, x in enumerate(v):
            nx, ch = _corrupt(x)
            if ch:
                return v[:i] + [nx] + v[i + 1:], True
    if isinstance(v, dict):
        for k in sorted(v):
            nx, ch = _corrupt(v[k])
            if ch:
                nv = dict(v)
                nv[k] = nx
                return nv, True
    return v, False


def binding_control(ctx, unit, sd, module, trace, cfgkind, timeout):
    """negative control of the code->model binding (thorough tier): one recorded observation of an ACCEPTED trace is
    corrupted; TLC must reject the trace at that line, otherwise the trace spec constrains nothing."""
    evs = [json.loads(x) for x in trace]
    accepted_corruptions = 0
    for i in range(len(evs) - 1, 0, -1):
        for field in ("res", "st"):
            if field in evs[i]:
                nv, ch = _corrupt(evs[i][field])
                if ch:
                    evs2 = [dict(e) for e in evs]
                    evs2[i][field] = nv
                    path = os.path.join(ctx.out, "%s.control.ndjson" % module)
                    with open(path, "w") as fh:
                        fh.write("\n".join(json.dumps(e) for e in evs2) + "\n")
                    v = flows.validate(sd, module, path, cfgkind=cfgkind, timeout=timeout)
                    if v.get("accepted"):
                        # (with nondeterministic specs the altered observation can be another allowed outcome: try elsewhere)
                        accepted_corruptions += 1
                        if accepted_corruptions >= 3:
                            raise Inconclusive("binding control: %s accepted 3 traces with a corrupted observation (last: %s at line %d)" % (module, field, i + 1))
                        continue
                    ctx.bump("binding_controls_rejected")
                    return
    ctx.bump("binding_controls_skipped")


class McUnit(Unit):
    """Exhaustive TLC run of a module (design-level check: all interleavings / histories of the
    bounded model).  expect='ok' or the name of an invariant/property that MUST be violated
    (negative control: the model of a defect the code had, or has as a known finding)."""

    def __init__(self, sub, module, cfgkind="", name=None, expect="ok", timeout=900, workers="auto",
                 deadlock=False, thorough_only=False, thorough_cfgkind=None, heap=None):
        self.sub, self.module, self.cfgkind = sub, module, cfgkind
        self.name = name or (module + (":" + cfgkind if cfgkind else ""))
        self.expect, self.timeout, self.workers, self.deadlock = expect, timeout, workers, deadlock
        self.thorough_only, self.thorough_cfgkind, self.heap = thorough_only, thorough_cfgkind, heap
        self.info = {}

    def summary(self):
        return json.dumps(self.info)

    def run(self, ctx):
        if self.thorough_only and not ctx.thorough:
            return
        kind = self.cfgkind
        if ctx.thorough and self.thorough_cfgkind:
            kind = self.thorough_cfgkind
        sd = ctx.spec(self.sub)
        cfg = flows.read_cfg(sd, self.module, kind)
        if "SPECIFICATION" not in cfg and "INIT" not in cfg:
            cfg = "SPECIFICATION Spec\n" + cfg
        r = tlc.run(sd, self.module, cfg, timeout=self.timeout, workers=self.workers, deadlock=self.deadlock,
                    coverage=False, heap=self.heap)
        ctx.add_tlc(r)
        self.info = {"status": r.status, "violated": r.violated, "distinct": r.distinct, "generated": r.generated,
                     "wall": round(r.wall, 1)}
        self.result = r
        exp_ok = self.expect == "ok"
        # a negative control is "TLC refutes the defect model"; with several workers TLC may report another of the
        # violated invariants/properties first, so the expected name is recorded but any refutation counts
        good = r.ok() if exp_ok else r.status in ("invariant", "property", "deadlock")
        if not exp_ok and good:
            self.info["expected"] = self.expect
        if not good:
            save = os.path.join(ctx.out, self.name.replace(":", "_") + ".mc.out")
            with open(save, "w") as fh:
                fh.write(r.out)
            raise Inconclusive("TLC on %s/%s: got %s %s, expected %s (output: %s)" % (self.module, kind, r.status, r.violated or "", self.expect, save))
        ctx.bump("tlc_exhaustive_runs")
        if not exp_ok:
            ctx.bump("negative_controls_passed")


def load_known(ctx):
    p = os.path.join(ctx.root, "known_findings.json")
    if not os.path.exists(p):
        return []
    with open(p) as fh:
        return [k for k in json.load(fh).get("findings", []) if isinstance(k, dict)]


def finish(ctx, wall):
    known = [k for k in load_known(ctx) if k.get("property") == ctx.pid and k.get("status") == "known"]
    new, matched = [], []
    for v in ctx.violations:
        k = next((k for k in known if k.get("sig") == v["sig"]), None)
        if k:
            matched.append((k, v))
        else:
            new.append(v)
    printed = set()
    for k, v in matched:
        if k["id"] in printed:
            continue
        printed.add(k["id"])
        print("KNOWN-FINDING: property=%s %s [%s]" % (ctx.pid, k["what"], k["id"]))
    for v in new:
        print("VIOLATION property=%s replay=%s" % (ctx.pid, v["replay"]))
        print("  what: %s" % v["what"])
    for s in ctx.inconclusive:
        print("INCONCLUSIVE %s" % s)
    coverage = {
        "states": ctx.states,
        "transitions": ctx.transitions,
        "traces_validated_against_impl": ctx.replayed + ctx.validated,
        "replayed_model_behaviours_on_code": ctx.replayed,
        "validated_code_traces_by_tlc": ctx.validated,
        "samples": ctx.samples or [{"note": "no sample collected"}],
        "exhaustive": False,
        "known_findings_observed": sorted(printed),
    }
    coverage.update(ctx.extra)
    ev = {
        "property_id": ctx.pid,
        "tier": ctx.tier,
        "seed": ctx.seed,
        "level": "model_checking",
        "coverage": coverage,
        "assumptions": ctx.assumptions + [
            "TLC explores the TLA+ modules exhaustively only for the small constants in the cfg files",
            "the real code is observed only on replayed model behaviours and recorded driver traces",
            "trusted base: TLC, the harness adapters' projection functions, Go runtime",
        ],
        "wall_s": round(wall, 2),
        "violations": len(new),
    }
    if ctx.inconclusive:
        ev["coverage"]["inconclusive"] = ctx.inconclusive
    os.makedirs(os.path.join(ctx.root, "evidence"), exist_ok=True)
    partial = ctx.alt or getattr(ctx, "partial", False)     # alternative checkout or --only: not the registered check's evidence
    evpath = os.path.join(ctx.out, "evidence.json") if partial else os.path.join(ctx.root, "evidence", ctx.pid + ".json")
    if ev["coverage"]["states"] == 0:   # no exhaustive run in this selection: the TLC states of the trace validations are what was explored
        ev["coverage"]["states"] = ev["coverage"].get("trace_validation_states", 0)
        ev["coverage"]["transitions"] = ev["coverage"].get("trace_validation_states", 0)
    with open(evpath, "w") as fh:
        json.dump(ev, fh, indent=1)
    if new:
        return 1
    if ctx.inconclusive:
        return 2
    print("OK property=%s tier=%s seed=%d states=%d transitions=%d replayed=%d validated=%d wall=%.1fs" % (
        ctx.pid, ctx.tier, ctx.seed, ctx.states, ctx.transitions, ctx.replayed, ctx.validated, wall))
    return 0


def replay(ctx, mod, path):
    with open(path) as fh:
        data = json.load(fh)
    for u in mod.units(ctx):
        if u.name == data.get("unit"):
            return u.replay(ctx, data)
    print("unit %s not found" % data.get("unit"))
    return 2


def classify_crash(stderr):
    """A Go 'fatal error:' / 'panic:' whose first frame outside the runtime/sync packages lies in hive.go is behaviour
    of the code under test (returns the message); if a harness frame comes first it is a harness problem (None)."""
    msg = None
    for line in stderr.splitlines():
        if msg is None:
            if line.startswith("fatal error:") or line.startswith("panic:"):
                msg = line.strip()
            continue
        l = line.strip()
        if l.startswith("github.com/iotaledger/hive.go/"):
            return msg
        if l.startswith("verifharness/") or l.startswith("main."):
            return None
        if l.startswith("goroutine ") and "[running]" not in l:
            return None       # next goroutine's stack: the panicking one had no hive.go frame
    return None


class TraceUnit(Unit):
    """code -> model with a custom recorder: a harness sub-command writes an NDJSON file (many traces, each
    starting with an op=reset line) which TLC validates against <module> (Do(Trace[l]) /\\ ev' = Trace[l])."""

    def __init__(self, sub, module, command, name=None, args=None, thorough_args=None, race=False, timeout=600,
                 cfgkind="trace", sut=None):
        self.sub, self.module, self.command = sub, module, command
        self.name = name or (module + ":" + command)
        self.args, self.thorough_args = args or [], thorough_args
        self.race, self.timeout, self.cfgkind = race, timeout, cfgkind
        self.sut = sut or command
        self.info = {}

    def summary(self):
        return json.dumps(self.info)

    def run(self, ctx):
        tr = os.path.join(ctx.out, self.name.replace(":", "_") + ".ndjson")
        args = self.thorough_args if (ctx.thorough and self.thorough_args is not None) else self.args
        p = run_h(ctx, [self.command, "-seed", str(ctx.seed), "-out", tr] + [str(a) for a in args], timeout=self.timeout, race=self.race)
        self.info["recorder"] = (p.stdout or "").strip()[-300:]
        if "WARNING: DATA RACE" in (p.stderr or ""):
            save = os.path.join(ctx.out, self.name.replace(":", "_") + ".race.txt")
            with open(save, "w") as fh:
                fh.write(p.stderr)
            ctx.violation(self.name, "%s:race" % self.sut, "data race reported by the Go race detector (see %s)" % save,
                          {"kind": "race", "report": p.stderr[-6000:]})
        elif p.returncode != 0:
            crash = classify_crash(p.stderr or "")
            if crash:
                save = os.path.join(ctx.out, self.name.replace(":", "_") + ".crash.txt")
                with open(save, "w") as fh:
                    fh.write(p.stderr)
                ctx.violation(self.name, "%s:crash:%s" % (self.sut, crash[:60]),
                              "the real code crashed under the driver: %s (first frame outside the Go runtime is in hive.go; see %s)" % (crash, save),
                              {"kind": "crash", "report": p.stderr[-6000:]})
                return
            raise Inconclusive("recorder %s died: %s" % (self.command, (p.stderr or p.stdout)[-2000:]))
        validate_file(ctx, self, ctx.spec(self.sub), self.module, tr, cfgkind=self.cfgkind, timeout=self.timeout)

    def replay(self, ctx, data):
        if data.get("kind") == "trace":
            tr = os.path.join(ctx.out, "replay.ndjson")
            with open(tr, "w") as fh:
                for l in data["trace"]:
                    fh.write(json.dumps(l) + "\n")
            v = flows.validate(ctx.spec(self.sub), self.module, tr, cfgkind=self.cfgkind)
            if v["accepted"]:
                print("trace accepted by", self.module)
                return 0
            print("trace rejected at line %s: recorded %s, model %s" % (v["offending_index"], json.dumps(v["offending"]), json.dumps(v["expected"])))
            return 1
        print(data.get("report", ""))
        return 1
