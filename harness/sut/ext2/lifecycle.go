package ext2

import (
	"fmt"
	"io"
	"log/slog"
	"math/rand"
	"sort"
	"time"

	"github.com/iotaledger/hive.go/ds/reactive"
	"github.com/iotaledger/hive.go/log"
	"github.com/iotaledger/hive.go/runtime/module"

	"verifharness/core"
)

func init() { core.Register("Lifecycle", func() core.SUT { return &lcSUT{} }) }

// lcEvent returns lifecycle event e (1 Constructed, 2 Initialized, 3 Shutdown, 4 Stopped) of m.
func lcEvent(m module.Module, e int) reactive.Event {
	switch e {
	case 1:
		return m.ConstructedEvent()
	case 2:
		return m.InitializedEvent()
	case 3:
		return m.ShutdownEvent()
	case 4:
		return m.StoppedEvent()
	}
	panic(fmt.Sprintf("no event %d", e))
}

// lcGetter returns the getter that TriggerAll / WaitAll take.
func lcGetter(e int) func(module.Module) reactive.Event {
	switch e {
	case 1:
		return module.Module.ConstructedEvent
	case 2:
		return module.Module.InitializedEvent
	case 3:
		return module.Module.ShutdownEvent
	case 4:
		return module.Module.StoppedEvent
	}
	panic(fmt.Sprintf("no event %d", e))
}

var lcLevels = []log.Level{0, log.LevelDebug, log.LevelInfo, log.LevelWarning}

func lcLevelRank(l log.Level) int {
	for i := 1; i < len(lcLevels); i++ {
		if lcLevels[i] == l {
			return i
		}
	}
	return -1
}

func newRootLogger(name string) log.Logger {
	// a handler that needs no worker goroutine; nothing is ever logged
	return log.NewLogger(log.WithName(name), log.WithHandler(slog.NewTextHandler(io.Discard, nil)))
}

type lcSUT struct {
	cfg    core.Ev
	nc     int
	cs     bool
	mods   []module.Module
	life   []int
	unsubs []func()
	wgs    []reactive.WaitGroup[module.Module]
	wgEv   []int
	calls  []int
}

func (s *lcSUT) Reset(cfg core.Ev) {
	*s = lcSUT{cfg: cfg, nc: core.Int(cfg, "nc"), cs: core.Bool(cfg, "cs")}
	s.mods = []module.Module{module.New(newRootLogger("m1"))}
	s.life = []int{0}
}

func (s *lcSUT) mod(m int) module.Module { return s.mods[m-1] }

type onTriggerer interface {
	OnTrigger(callback func()) (unsubscribe func())
}

// register subscribes a callback of the given kind to src (an event of a module or a wait group).
func (s *lcSUT) register(src onTriggerer, kind string, tm, te int) {
	id := len(s.unsubs) + 1
	s.unsubs = append(s.unsubs, nil)
	unsub := src.OnTrigger(func() {
		s.calls = append(s.calls, id)
		switch kind {
		case "trig":
			lcEvent(s.mod(tm), te).Trigger()
		case "reg":
			if len(s.unsubs) < s.nc {
				s.register(src, "plain", 0, 0)
			}
		}
	})
	s.unsubs[id-1] = unsub
}

func (s *lcSUT) modsOf(e core.Ev) []module.Module {
	out := []module.Module{}
	for _, m := range core.Ints(e, "ms") {
		out = append(out, s.mod(m))
	}
	return out
}

func (s *lcSUT) index(m module.Module) int {
	for i, x := range s.mods {
		if x == m {
			return i + 1
		}
	}
	return -1
}

func (s *lcSUT) st() any {
	ms := []any{}
	for i, m := range s.mods {
		t := []any{}
		for e := 1; e <= 4; e++ {
			ev := lcEvent(m, e)
			w := ev.WasTriggered()
			if ev.Get() != w { // the event is also a Variable[bool]: both views must agree
				panic(fmt.Sprintf("event %d of module %d: WasTriggered()=%v but Get()=%v", e, i+1, w, ev.Get()))
			}
			t = append(t, w)
		}
		par := 0
		if i > 0 {
			par = -1
			for j := 0; j < i; j++ {
				if m.LogPath() == s.mods[j].LogPath()+"."+m.LogName() {
					par = j + 1
				}
			}
		}
		if m.LogName() != fmt.Sprintf("m%d", i+1) {
			par = -2
		}
		ms = append(ms, core.Ev{"t": t, "lvl": lcLevelRank(m.LogLevel()), "par": par})
	}
	ws := []any{}
	for _, w := range s.wgs {
		p := []int{}
		for _, m := range w.PendingElements().ToSlice() {
			p = append(p, s.index(m))
		}
		sort.Ints(p)
		ws = append(ws, core.Ev{"t": w.WasTriggered(), "p": core.Seq(p)})
	}
	return core.Ev{"mods": ms, "wgs": ws}
}

func (s *lcSUT) Apply(e core.Ev) (any, any) {
	s.calls = nil
	r := ""
	switch op := core.Str(e, "op"); op {
	case "Trigger":
		r = fmt.Sprint(lcEvent(s.mod(core.Int(e, "m")), core.Int(e, "e")).Trigger())
	case "OnTrigger":
		s.register(lcEvent(s.mod(core.Int(e, "m")), core.Int(e, "e")), core.Str(e, "k"), core.Int(e, "tm"), core.Int(e, "te"))
	case "OnWg":
		s.register(s.wgs[core.Int(e, "w")-1], core.Str(e, "k"), core.Int(e, "tm"), core.Int(e, "te"))
	case "Unsub":
		s.unsubs[core.Int(e, "c")-1]()
	case "TriggerAll":
		module.TriggerAll(lcGetter(core.Int(e, "e")), s.modsOf(e)...)
	case "WaitAll":
		s.wgs = append(s.wgs, module.WaitAll(lcGetter(core.Int(e, "e")), s.modsOf(e)...))
		s.wgEv = append(s.wgEv, core.Int(e, "e"))
	case "InitLife":
		m := core.Int(e, "m")
		var ret module.Module
		if core.Int(e, "mode") == 1 {
			ret = module.InitSimpleLifecycle(s.mod(m))
		} else {
			ret = module.InitSimpleLifecycle(s.mod(m), func(mm module.Module) {
				if mm != s.mod(m) {
					panic("the shutdown function was called with another module")
				}
				s.calls = append(s.calls, 100+m)
				if s.cs {
					mm.StoppedEvent().Trigger()
				}
			})
		}
		if ret != s.mod(m) {
			panic("InitSimpleLifecycle returned another module")
		}
		s.life[m-1] = core.Int(e, "mode")
	case "NewSub":
		s.mods = append(s.mods, s.mod(core.Int(e, "p")).NewSubModule(fmt.Sprintf("m%d", len(s.mods)+1)))
		s.life = append(s.life, 0)
	case "SetLevel":
		s.mod(core.Int(e, "m")).SetLogLevel(lcLevels[core.Int(e, "l")])
	default:
		panic("unknown op " + op)
	}
	return core.Ev{"r": r, "calls": core.Seq(s.calls)}, s.st()
}

func (s *lcSUT) RandomCfg(r *rand.Rand) core.Ev {
	return core.Ev{"nm": 4, "nc": 8, "nw": 3, "cs": r.Intn(2) == 0}
}

// the module sequences offered to TriggerAll / WaitAll (spec: MSeqs, wide)
var lcSeqs = [][]int{{}, {1}, {2}, {1, 2}, {2, 1}, {1, 1}, {1, 2, 3}, {3, 1, 2}, {2, 3}, {4, 2}}

func (s *lcSUT) RandomStimulus(r *rand.Rand) core.Ev {
	n := len(s.mods)
	anyMod := func() int { return 1 + r.Intn(n) }
	kindAndTarget := func(targets [][2]int) (string, int, int) {
		k := core.Pick(r, "plain", "plain", "reg", "trig", "trig")
		if k == "trig" {
			if len(targets) == 0 {
				return "plain", 0, 0
			}
			t := targets[r.Intn(len(targets))]
			return k, t[0], t[1]
		}
		return k, 0, 0
	}
	for {
		switch k := r.Intn(20); {
		case k < 5:
			return core.Ev{"op": "Trigger", "m": anyMod(), "e": 1 + r.Intn(4)}
		case k < 9 && len(s.unsubs) < s.nc:
			m, e := anyMod(), 1+r.Intn(4)
			var targets [][2]int
			for e2 := e + 1; e2 <= 4; e2++ {
				targets = append(targets, [2]int{m, e2})
			}
			for i, c := range s.mods {
				if i+1 > m && c.LogPath() == s.mod(m).LogPath()+"."+c.LogName() {
					targets = append(targets, [2]int{i + 1, e})
				}
			}
			kind, tm, te := kindAndTarget(targets)
			return core.Ev{"op": "OnTrigger", "m": m, "e": e, "k": kind, "tm": tm, "te": te}
		case k == 9 && len(s.unsubs) < s.nc && len(s.wgs) > 0:
			w := 1 + r.Intn(len(s.wgs))
			var targets [][2]int
			if e := s.wgEv[w-1]; e < 4 {
				for m := 1; m <= n; m++ {
					targets = append(targets, [2]int{m, e + 1})
				}
			}
			kind, tm, te := kindAndTarget(targets)
			return core.Ev{"op": "OnWg", "w": w, "k": kind, "tm": tm, "te": te}
		case k == 10 && len(s.unsubs) > 0:
			return core.Ev{"op": "Unsub", "c": 1 + r.Intn(len(s.unsubs))}
		case k == 11 || k == 12:
			ms := lcSeqs[r.Intn(len(lcSeqs))]
			ok := true
			for _, m := range ms {
				ok = ok && m <= n
			}
			if !ok {
				continue
			}
			if k == 12 {
				if len(s.wgs) >= 3 {
					continue
				}
				return core.Ev{"op": "WaitAll", "e": 1 + r.Intn(4), "ms": core.Seq(ms)}
			}
			return core.Ev{"op": "TriggerAll", "e": 1 + r.Intn(4), "ms": core.Seq(ms)}
		case k == 13 || k == 14:
			m := anyMod()
			if s.life[m-1] != 0 {
				continue
			}
			return core.Ev{"op": "InitLife", "m": m, "mode": 1 + r.Intn(2)}
		case k == 15 || k == 16:
			if n >= 4 {
				continue
			}
			return core.Ev{"op": "NewSub", "p": anyMod()}
		case k >= 17:
			return core.Ev{"op": "SetLevel", "m": anyMod(), "l": 1 + r.Intn(3)}
		}
	}
}

// x2probe (manual, not part of the check): does Trigger of an event from inside one of its own callbacks return?
func init() {
	core.RegisterCommand("x2probe", func([]string) int {
		m := module.New(newRootLogger("probe"))
		done := make(chan bool, 1)
		go func() {
			m.ShutdownEvent().OnTrigger(func() { m.ShutdownEvent().Trigger() })
			done <- m.ShutdownEvent().Trigger()
		}()
		select {
		case r := <-done:
			fmt.Println("re-entrant Trigger returned; outer Trigger =", r)
		case <-time.After(2 * time.Second):
			fmt.Println("re-entrant Trigger of the same event from its own callback did not return within 2s (self-deadlock)")
		}
		return 0
	})
}
