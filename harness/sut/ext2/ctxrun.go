package ext2

import (
	"bufio"
	"context"
	"encoding/json"
	"flag"
	"fmt"
	"math/rand"
	"os"
	"runtime"
	"sync"
	"time"

	"github.com/iotaledger/hive.go/runtime/contextutils"

	"verifharness/core"
	"verifharness/sched"
)

// x2ctx: concurrent executions of MergeContexts (free-running goroutines and forced schedules through the gates in the
// fake parents' Done()/Err() methods); every execution is one trace validated by TLC against spec/ext2/CtxRun.tla.
func init() { core.RegisterCommand("x2ctx", ctxRunMain) }

type xlog struct {
	mu     sync.Mutex
	evs    []core.Ev
	closed bool // set by flush: what stragglers log afterwards is not part of the trace
}

func (l *xlog) add(e core.Ev) {
	l.mu.Lock()
	if !l.closed {
		l.evs = append(l.evs, e)
	}
	l.mu.Unlock()
}

// atomically runs f (which returns the event to append) while holding the log mutex.
func (l *xlog) atomically(f func() core.Ev) {
	l.mu.Lock()
	defer l.mu.Unlock()
	if e := f(); !l.closed {
		l.evs = append(l.evs, e)
	}
}

func (l *xlog) flush(enc *json.Encoder, cfg core.Ev) int {
	l.mu.Lock()
	defer l.mu.Unlock()
	_ = enc.Encode(core.Ev{"op": "reset", "cfg": cfg})
	for _, e := range l.evs {
		_ = enc.Encode(e)
	}
	l.closed = true
	return len(l.evs) + 1
}

func xsafely(lg *xlog, f func()) {
	defer func() {
		if r := recover(); r != nil {
			lg.add(core.Ev{"op": "panic", "msg": fmt.Sprint(r)})
		}
	}()
	f()
}

// xJoinWait bounds every wait for goroutines of one execution (generous: the machine may be heavily loaded; a real
// deadlock stays one for ever); after an execution with hung goroutines the driver stops producing further ones.
const xJoinWait = 20 * time.Second

func xyield(n int) {
	for ; n > 0; n-- {
		runtime.Gosched()
	}
}

// xjoin waits for the named goroutines; returns the names of those that did not finish in time.
type xgroup struct {
	mu      sync.Mutex
	pending map[string]bool
	wg      sync.WaitGroup
}

func newXgroup() *xgroup { return &xgroup{pending: map[string]bool{}} }

func (g *xgroup) run(name string, lg *xlog, f func()) {
	g.mu.Lock()
	g.pending[name] = true
	g.mu.Unlock()
	g.wg.Add(1)
	go func() {
		defer g.wg.Done()
		xsafely(lg, f)
		g.mu.Lock()
		delete(g.pending, name)
		g.mu.Unlock()
	}()
}

func (g *xgroup) join(d time.Duration) []any {
	ch := make(chan struct{})
	go func() { g.wg.Wait(); close(ch) }()
	select {
	case <-ch:
		return []any{}
	case <-time.After(d):
	}
	g.mu.Lock()
	defer g.mu.Unlock()
	out := []any{}
	for n := range g.pending {
		out = append(out, n)
	}
	return out
}

// xHung is set when an execution ended with hung goroutines.
var xHung bool

func ctxRunMain(args []string) int {
	fs := flag.NewFlagSet("x2ctx", flag.ExitOnError)
	seed := fs.Int64("seed", 1, "")
	out := fs.String("out", "", "")
	traces := fs.Int("traces", 60, "free-running traces")
	_ = fs.Parse(args)
	f, err := os.Create(*out)
	if err != nil {
		fmt.Fprintln(os.Stderr, err)
		return 2
	}
	defer f.Close()
	w := bufio.NewWriterSize(f, 1<<20)
	defer w.Flush()
	enc := json.NewEncoder(w)
	rd := rand.New(rand.NewSource(*seed))
	n := 0
	for _, sc := range []string{"initcheck", "heldPrimary", "heldSecondary"} {
		for v := 0; v < 4 && !xHung; v++ {
			n += ctxForced(enc, sc, v)
		}
	}
	for i := 0; i < *traces && !xHung; i++ {
		impl := core.Pick(rd, "std", "fake")
		switch {
		case i%10 == 9:
			n += ctxFree(enc, rd, "quiet", impl)
		case i%3 == 2:
			old := runtime.GOMAXPROCS(1)
			n += ctxFree(enc, rd, "free1", impl)
			runtime.GOMAXPROCS(old)
		default:
			n += ctxFree(enc, rd, "free", impl)
		}
	}
	fmt.Printf("{\"events\": %d}\n", n)
	return 0
}

func readEv(ctx context.Context, r int, first string) core.Ev {
	var d bool
	var e string
	if first == "done" {
		d = isDone(ctx)
		e = errClass(ctx.Err())
	} else {
		e = errClass(ctx.Err())
		d = isDone(ctx)
	}
	return core.Ev{"op": "rd", "r": r, "first": first, "done": d, "err": e}
}

func finalEv(ctx context.Context, baseline int, hung []any) core.Ev {
	xHung = xHung || len(hung) > 0
	_ = sched.Quiesce(3 * time.Second)
	return core.Ev{"op": "final", "done": isDone(ctx), "err": errClass(ctx.Err()), "g": runtime.NumGoroutine() - baseline, "hung": hung}
}

// ctxFree: the parents are ended, the cancel function is called and the pair (Done, Err) is read by free-running goroutines
// while (or after) MergeContexts runs.
func ctxFree(enc *json.Encoder, rd *rand.Rand, sc, impl string) int {
	settle()
	baseline := runtime.NumGoroutine()
	lg := &xlog{}
	a, b := newBase(impl, 1, rd.Intn(3)), newBase(impl, 2, rd.Intn(3))
	base := []*baseCtx{nil, a, b}
	var merged context.Context
	var mcancel context.CancelFunc
	ready := make(chan struct{})
	g := newXgroup()
	y := func() int { return rd.Intn(4) }

	// which actors take part
	enders := []int{}
	mcancels := 0
	if sc != "quiet" {
		for x := 1; x <= 2; x++ {
			if rd.Intn(2) == 0 {
				enders = append(enders, x)
			}
		}
		mcancels = rd.Intn(3)
		if len(enders) == 0 && mcancels == 0 {
			mcancels = 1
		}
	}
	early := rd.Intn(4) == 0 // a parent is ended (and that call returned) before MergeContexts is called
	if early && len(enders) > 0 {
		x := enders[0]
		enders = enders[1:]
		kind := "cancel"
		if impl == "fake" && rd.Intn(2) == 0 {
			kind = "expire"
		}
		lg.add(core.Ev{"op": "pb", "x": x, "kind": kind})
		if kind == "cancel" {
			base[x].cancel()
		} else {
			base[x].expire()
		}
		lg.add(core.Ev{"op": "pe", "x": x})
	}
	y0 := y()
	g.run("merge", lg, func() {
		xyield(y0)
		lg.add(core.Ev{"op": "gb"})
		merged, mcancel = contextutils.MergeContexts(a.ctx, b.ctx)
		lg.add(core.Ev{"op": "ge"})
		close(ready)
	})
	for _, x := range enders {
		x, kind, yy := x, "cancel", y()
		if impl == "fake" && rd.Intn(2) == 0 {
			kind = "expire"
		}
		g.run(fmt.Sprintf("end%d", x), lg, func() {
			xyield(yy)
			lg.add(core.Ev{"op": "pb", "x": x, "kind": kind})
			if kind == "cancel" {
				base[x].cancel()
			} else {
				base[x].expire()
			}
			lg.add(core.Ev{"op": "pe", "x": x})
		})
	}
	for i := 0; i < mcancels; i++ {
		i, yy := i, y()
		g.run(fmt.Sprintf("mcancel%d", i), lg, func() {
			<-ready
			xyield(yy)
			lg.add(core.Ev{"op": "mb", "i": i})
			mcancel()
			lg.add(core.Ev{"op": "me", "i": i})
		})
	}
	for r := 1; r <= 2; r++ {
		r, n, yy := r, 3+rd.Intn(6), y()
		g.run(fmt.Sprintf("reader%d", r), lg, func() {
			<-ready
			for i := 0; i < n; i++ {
				first := "done"
				if (i+r)%2 == 0 {
					first = "err"
				}
				lg.atomically(func() core.Ev { return readEv(merged, r, first) })
				xyield(yy)
			}
		})
	}
	hung := g.join(xJoinWait)
	if merged != nil {
		lg.add(finalEv(merged, baseline, hung))
	}
	n := lg.flush(enc, core.Ev{"sc": sc, "impl": impl})
	// release everything
	if mcancel != nil {
		mcancel()
	}
	for _, x := range base[1:] {
		x.cancel()
		if x.release != nil {
			x.release()
		}
	}
	return n
}

// ctxForced: schedules that free-running goroutines almost never produce, forced through the gates in the fake parents.
//
//	initcheck      MergeContexts is held in its "already cancelled?" check (primary.Err()) after the helper goroutine was
//	               started; meanwhile a parent is ended and the helper finishes the context; then the check goes on.
//	heldPrimary    the helper goroutine is held while it evaluates primary.Done(); MergeContexts returns, the context is read,
//	               the cancel function is called (must be synchronous although the helper never reached its select).
//	heldSecondary  the helper is held in secondary.Done(); the PRIMARY is ended meanwhile (nobody can notice yet: asynchronous
//	               is allowed); after the release the context must become done with the primary's error.
func ctxForced(enc *json.Encoder, sc string, variant int) int {
	settle()
	baseline := runtime.NumGoroutine()
	lg := &xlog{}
	gate := sched.NewGate()
	a, b := newBase("fake", 1, variant%3), newBase("fake", 2, (variant+1)%3)
	base := []*baseCtx{nil, a, b}
	fa, fb := a.ctx.(*fakeCtx), b.ctx.(*fakeCtx)
	fa.hook = func(m string) { gate.Wait("A." + m) }
	fb.hook = func(m string) { gate.Wait("B." + m) }
	var merged context.Context
	var mcancel context.CancelFunc
	g := newXgroup()
	waitParked := func(p string) bool {
		deadline := time.Now().Add(xJoinWait)
		for gate.Parked(p) == 0 {
			if time.Now().After(deadline) {
				return false
			}
			runtime.Gosched()
		}
		gate.Free(p)
		return true
	}
	end := func(x int, kind string) {
		lg.add(core.Ev{"op": "pb", "x": x, "kind": kind})
		if kind == "cancel" {
			base[x].cancel()
		} else {
			base[x].expire()
		}
		lg.add(core.Ev{"op": "pe", "x": x})
	}
	read := func(first string) { lg.atomically(func() core.Ev { return readEv(merged, 1, first) }) }
	merge := func() {
		lg.add(core.Ev{"op": "gb"})
		merged, mcancel = contextutils.MergeContexts(a.ctx, b.ctx)
		lg.add(core.Ev{"op": "ge"})
	}
	kind := "cancel"
	if variant%2 == 1 {
		kind = "expire"
	}
	ok := true
	switch sc {
	case "initcheck":
		gate.Hold("A.Err")
		g.run("merge", lg, merge)
		ok = waitParked("A.Err")
		x := 2
		if variant >= 2 {
			x = 1 // the very context whose Err() call is in flight
		}
		end(x, kind)
		_ = sched.Quiesce(2 * time.Second) // the helper goroutine notices the parent and finishes the context
		gate.Release("A.Err")
	case "heldPrimary":
		gate.Hold("A.Done")
		merge()
		ok = waitParked("A.Done")
		read("done")
		read("err")
		lg.add(core.Ev{"op": "mb", "i": 0})
		mcancel()
		lg.add(core.Ev{"op": "me", "i": 0})
		read("err")
		read("done")
		if variant >= 2 {
			end(2, kind) // a parent ends afterwards: the error must not change
			read("done")
		}
		gate.Release("A.Done")
	case "heldSecondary":
		gate.Hold("B.Done")
		merge()
		ok = waitParked("B.Done")
		read("done")
		end(1, kind)
		read("err") // may still be open: closing is asynchronous
		gate.Release("B.Done")
		_ = sched.Quiesce(2 * time.Second)
		read("done")
		if variant >= 2 {
			lg.add(core.Ev{"op": "mb", "i": 0})
			mcancel()
			lg.add(core.Ev{"op": "me", "i": 0})
			read("err")
		}
	}
	hung := g.join(xJoinWait)
	if !ok {
		hung = append(hung, "gate-never-reached")
	}
	gate.ReleaseAll()
	if sc == "initcheck" && merged != nil {
		read("done")
		read("err")
	}
	if merged != nil {
		lg.add(finalEv(merged, baseline, hung))
	}
	n := lg.flush(enc, core.Ev{"sc": sc, "impl": "fake"})
	if mcancel != nil {
		mcancel()
	}
	a.cancel()
	b.cancel()
	return n
}
