// Package ext2 binds the X2 extension specs (spec/ext2) to runtime/contextutils and runtime/module.
package ext2

import (
	"context"
	"errors"
	"fmt"
	"math/rand"
	"runtime"
	"sync"
	"time"

	"github.com/iotaledger/hive.go/runtime/contextutils"

	"verifharness/core"
	"verifharness/sched"
)

func init() { core.Register("MergeCtx", func() core.SUT { return &mcSUT{} }) }

// ctxKey values: plain strings, as in the package's own tests.
var mcKeys = []string{"ka", "kb", "kk", "kn"}

// fakeCtx is a hand-written context.Context: its deadline can be made to pass on demand, and every call the code under
// test makes on it can be observed / parked through hook (used by the forced schedules of ctxrun.go).
type fakeCtx struct {
	mu   sync.Mutex
	done chan struct{}
	err  error
	dl   time.Time
	has  bool
	vals map[string]int
	hook func(method string)
}

func (f *fakeCtx) Deadline() (time.Time, bool) { return f.dl, f.has }
func (f *fakeCtx) Done() <-chan struct{} {
	if f.hook != nil {
		f.hook("Done")
	}
	return f.done
}
func (f *fakeCtx) Err() error {
	if f.hook != nil {
		f.hook("Err")
	}
	f.mu.Lock()
	defer f.mu.Unlock()
	return f.err
}
func (f *fakeCtx) Value(key any) any {
	if k, ok := key.(string); ok {
		if v, ok := f.vals[k]; ok {
			return v
		}
	}
	return nil
}
func (f *fakeCtx) end(err error) {
	f.mu.Lock()
	defer f.mu.Unlock()
	if f.err == nil {
		f.err = err
		close(f.done)
	}
}

// baseCtx is one of the two base contexts A / B in either implementation.
type baseCtx struct {
	ctx     context.Context
	cancel  func()
	expire  func() // nil for std contexts
	release func()
}

var mcEpoch = time.Now().Add(1000 * time.Hour)

func mcDeadline(rank int) time.Time { return mcEpoch.Add(time.Duration(rank) * time.Hour) }

func baseVals(x int) map[string]int {
	if x == 1 {
		return map[string]int{"ka": 1, "kk": 3}
	}
	return map[string]int{"kb": 2, "kk": 4}
}

func newBase(impl string, x, rank int) *baseCtx {
	if impl == "fake" {
		f := &fakeCtx{done: make(chan struct{}), vals: baseVals(x), has: rank > 0}
		if rank > 0 {
			f.dl = mcDeadline(rank)
		}
		return &baseCtx{ctx: f, cancel: func() { f.end(context.Canceled) }, expire: func() { f.end(context.DeadlineExceeded) }}
	}
	ctx := context.Background()
	for k, v := range baseVals(x) {
		ctx = context.WithValue(ctx, k, v) //nolint:staticcheck // string keys as in the package's tests
	}
	release := func() {}
	if rank > 0 {
		c, cf := context.WithDeadline(ctx, mcDeadline(rank))
		ctx, release = c, cf
	}
	c, cf := context.WithCancel(ctx)
	// the inner deadline context is released on Reset only (after c itself was cancelled)
	return &baseCtx{ctx: c, cancel: cf, release: release}
}

type mergedCtx struct {
	ctx    context.Context
	cancel context.CancelFunc
	ch     <-chan struct{}
}

type mcSUT struct {
	cfg      core.Ev
	base     [3]*baseCtx
	mg       []*mergedCtx
	baseline int
}

func (s *mcSUT) Reset(cfg core.Ev) {
	// end everything of the previous run so that its helper goroutines exit, then take the goroutine baseline
	for _, m := range s.mg {
		m.cancel()
	}
	for _, b := range s.base {
		if b != nil {
			b.cancel()
			if b.release != nil {
				b.release()
			}
		}
	}
	s.mg = nil
	settle()
	s.baseline = runtime.NumGoroutine()
	s.cfg = cfg
	impl := core.Str(cfg, "impl")
	s.base[1] = newBase(impl, 1, core.Int(cfg, "da"))
	s.base[2] = newBase(impl, 2, core.Int(cfg, "db"))
}

func settle() {
	if !sched.Quiesce(20 * time.Second) {
		panic("process did not become quiescent within 20s")
	}
}

func (s *mcSUT) ref(r int) context.Context {
	if r <= 2 {
		return s.base[r].ctx
	}
	return s.mg[r-3].ctx
}

func errClass(err error) string {
	switch {
	case err == nil:
		return "nil"
	case errors.Is(err, contextutils.ErrMergedContextCanceled) && errors.Is(err, context.Canceled):
		return "MergedCanceled"
	case err == context.Canceled:
		return "Canceled"
	case err == context.DeadlineExceeded:
		return "DeadlineExceeded"
	}
	return "other:" + err.Error()
}

func isDone(ctx context.Context) bool {
	select {
	case <-ctx.Done():
		return true
	default:
		return false
	}
}

var errSentinel = errors.New("sentinel")

// doneAllWays reads "is it done" through the raw channel and through both helpers of contextutils/utils.go; they must agree.
func doneAllWays(ctx context.Context) (bool, string) {
	d := isDone(ctx)
	u1 := contextutils.ReturnErrIfCtxDone(ctx, errSentinel)
	u2 := contextutils.ReturnErrIfChannelClosed(ctx.Done(), errSentinel)
	if (u1 != nil) != d || (u2 != nil) != d || (u1 != nil && u1 != errSentinel) || (u2 != nil && u2 != errSentinel) {
		return d, fmt.Sprintf("helpers disagree: done=%v ReturnErrIfCtxDone=%v ReturnErrIfChannelClosed=%v", d, u1, u2)
	}
	return d, ""
}

func dlRank(ctx context.Context) int {
	t, ok := ctx.Deadline()
	if !ok {
		if !t.IsZero() {
			return -2
		}
		return 0
	}
	for r := 1; r <= 2; r++ {
		if t.Equal(mcDeadline(r)) {
			return r
		}
	}
	return -1
}

func (s *mcSUT) st() any {
	ms := []any{}
	live := 0
	for _, m := range s.mg {
		d, bad := doneAllWays(m.ctx)
		errc := errClass(m.ctx.Err())
		if bad != "" {
			errc = bad
		}
		if m.ctx.Done() != m.ch {
			errc = "Done() returned a different channel"
		}
		if !d {
			live++
		}
		vs := []any{}
		for _, k := range mcKeys {
			v := 0
			if x := m.ctx.Value(k); x != nil {
				v = x.(int)
			}
			vs = append(vs, v)
		}
		ms = append(ms, core.Ev{"done": d, "err": errc, "dl": dlRank(m.ctx), "v": vs})
	}
	_ = live
	return core.Ev{
		"b": []any{errClass(s.base[1].ctx.Err()), errClass(s.base[2].ctx.Err())},
		"g": runtime.NumGoroutine() - s.baseline,
		"m": ms,
	}
}

func (s *mcSUT) Apply(e core.Ev) (any, any) {
	before := make([]bool, len(s.mg))
	for i, m := range s.mg {
		before[i] = isDone(m.ctx)
	}
	k := 0
	switch op := core.Str(e, "op"); op {
	case "Merge":
		ctx, cancel := contextutils.MergeContexts(s.ref(core.Int(e, "p")), s.ref(core.Int(e, "q")))
		// "done when MergeContexts returns" is read before anything else may run
		pre := isDone(ctx)
		s.mg = append(s.mg, &mergedCtx{ctx: ctx, cancel: cancel, ch: ctx.Done()})
		k = len(s.mg)
		settle()
		if !pre && isDone(ctx) {
			// became done only later although nothing else happened: report it as not done at return
			return core.Ev{"k": k, "newly": []any{}, "late": true}, s.st()
		}
	case "Cancel":
		s.base[core.Int(e, "x")].cancel()
	case "Expire":
		s.base[core.Int(e, "x")].expire()
	case "MCancel":
		m := s.mg[core.Int(e, "k")-1]
		m.cancel()
		if !isDone(m.ctx) || m.ctx.Err() == nil { // synchronous: done and Err set when the cancel function returns
			return core.Ev{"k": 0, "newly": []any{}, "async": true}, s.st()
		}
	default:
		panic("unknown op " + op)
	}
	settle()
	newly := []int{}
	for i := range before {
		if !before[i] && isDone(s.mg[i].ctx) {
			newly = append(newly, i+1)
		}
	}
	return core.Ev{"k": k, "newly": core.SortedInts(newly)}, s.st()
}

func (s *mcSUT) RandomCfg(r *rand.Rand) core.Ev {
	return core.Ev{"impl": core.Pick(r, "std", "fake"), "da": r.Intn(3), "db": r.Intn(3)}
}

func (s *mcSUT) RandomStimulus(r *rand.Rand) core.Ev {
	fake := core.Str(s.cfg, "impl") == "fake"
	for {
		switch k := r.Intn(10); {
		case k < 4 && len(s.mg) < 6:
			n := 2 + len(s.mg)
			return core.Ev{"op": "Merge", "p": 1 + r.Intn(n), "q": 1 + r.Intn(n)}
		case k == 4:
			return core.Ev{"op": "Cancel", "x": 1 + r.Intn(2)}
		case k == 5 && fake:
			return core.Ev{"op": "Expire", "x": 1 + r.Intn(2)}
		case k >= 6 && k < 8 && len(s.mg) > 0:
			return core.Ev{"op": "MCancel", "k": 1 + r.Intn(len(s.mg))}
		}
	}
}
