package ext2

import (
	"bufio"
	"encoding/json"
	"flag"
	"fmt"
	"math/rand"
	"os"
	"runtime"
	"sort"
	"sync"
	"sync/atomic"
	"time"

	"github.com/iotaledger/hive.go/ds/reactive"
	"github.com/iotaledger/hive.go/runtime/module"

	"verifharness/core"
	"verifharness/sched"
)

// x2life: concurrent executions of runtime/module (free-running goroutines and forced schedules that hold a Trigger in flight
// inside a gate callback); every execution is one trace validated by TLC against spec/ext2/LifeRun.tla.
func init() { core.RegisterCommand("x2life", lifeRunMain) }

func lifeRunMain(args []string) int {
	fs := flag.NewFlagSet("x2life", flag.ExitOnError)
	seed := fs.Int64("seed", 1, "")
	out := fs.String("out", "", "")
	traces := fs.Int("traces", 60, "free-running traces")
	_ = fs.Parse(args)
	f, err := os.Create(*out)
	if err != nil {
		fmt.Fprintln(os.Stderr, err)
		return 2
	}
	defer f.Close()
	w := bufio.NewWriterSize(f, 1<<20)
	defer w.Flush()
	enc := json.NewEncoder(w)
	rd := rand.New(rand.NewSource(*seed))
	n := 0
	for v := 0; v < 4 && !xHung; v++ {
		n += lifeForced(enc, "shutdownHeld", v)
		n += lifeForced(enc, "constructHeld", v)
	}
	for i := 0; i < *traces && !xHung; i++ {
		if i%3 == 2 {
			old := runtime.GOMAXPROCS(1)
			n += lifeFree(enc, rd, "free1")
			runtime.GOMAXPROCS(old)
			continue
		}
		n += lifeFree(enc, rd, "free")
	}
	fmt.Printf("{\"events\": %d}\n", n)
	return 0
}

// lifeRun is the shared state of one execution.
type lifeRun struct {
	lg     *xlog
	mods   []module.Module
	cs     bool
	nextC  atomic.Int64
	nextT  atomic.Int64
	claim  []atomic.Bool // InitSimpleLifecycle at most once per module
	wmu    sync.Mutex
	wgs    []reactive.WaitGroup[module.Module]
	waited []*atomic.Bool
	unsubs sync.Map // callback id -> unsubscribe func
}

func newLifeRun(nmods int, chain bool, cs bool) *lifeRun {
	r := &lifeRun{lg: &xlog{}, cs: cs}
	r.mods = []module.Module{module.New(newRootLogger("m1"))}
	for i := 2; i <= nmods; i++ {
		p := r.mods[0]
		if chain {
			p = r.mods[i-2]
		}
		r.mods = append(r.mods, p.NewSubModule(fmt.Sprintf("m%d", i)))
	}
	r.claim = make([]atomic.Bool, nmods)
	return r
}

func (r *lifeRun) mod(m int) module.Module { return r.mods[m-1] }

func (r *lifeRun) trigger(m, e int) {
	id := int(r.nextT.Add(1))
	r.lg.add(core.Ev{"op": "tb", "id": id, "m": m, "e": e})
	res := lcEvent(r.mod(m), e).Trigger()
	r.lg.add(core.Ev{"op": "te", "id": id, "m": m, "e": e, "r": res})
}

// onTrigger registers a callback; body runs inside it after the "cb" event was logged. tm > 0: it triggers (tm, te).
func (r *lifeRun) onTrigger(m, e, tm, te int, body func()) int {
	c := int(r.nextC.Add(1))
	r.lg.add(core.Ev{"op": "ob", "c": c, "m": m, "e": e})
	unsub := lcEvent(r.mod(m), e).OnTrigger(func() {
		r.lg.add(core.Ev{"op": "cb", "c": c})
		if tm > 0 {
			r.lg.add(core.Ev{"op": "xb", "m": tm, "e": te})
			lcEvent(r.mod(tm), te).Trigger()
			r.lg.add(core.Ev{"op": "xe", "m": tm, "e": te})
		}
		if body != nil {
			body()
		}
	})
	r.lg.add(core.Ev{"op": "oe", "c": c})
	r.unsubs.Store(c, unsub)
	return c
}

func (r *lifeRun) unsub(c int) {
	u, ok := r.unsubs.Load(c)
	if !ok {
		return
	}
	r.lg.add(core.Ev{"op": "ub", "c": c})
	u.(func())()
	r.lg.add(core.Ev{"op": "ue", "c": c})
}

func (r *lifeRun) initLife(m, mode int) {
	if r.claim[m-1].Swap(true) {
		return
	}
	r.lg.add(core.Ev{"op": "ib", "m": m, "mode": mode})
	if mode == 1 {
		module.InitSimpleLifecycle(r.mod(m))
	} else {
		module.InitSimpleLifecycle(r.mod(m), func(mm module.Module) {
			r.lg.add(core.Ev{"op": "sd", "m": m})
			if r.cs {
				r.lg.add(core.Ev{"op": "xb", "m": m, "e": 4})
				mm.StoppedEvent().Trigger()
				r.lg.add(core.Ev{"op": "xe", "m": m, "e": 4})
			}
		})
	}
	r.lg.add(core.Ev{"op": "ie", "m": m})
}

func (r *lifeRun) triggerAll(e int, ms []int) {
	mods := []module.Module{}
	for _, m := range ms {
		mods = append(mods, r.mod(m))
		r.lg.add(core.Ev{"op": "xb", "m": m, "e": e})
	}
	module.TriggerAll(lcGetter(e), mods...)
	for _, m := range ms {
		r.lg.add(core.Ev{"op": "xe", "m": m, "e": e})
	}
}

// waitAll calls WaitAll, subscribes a callback to the group and starts a goroutine that calls Wait on it.
func (r *lifeRun) waitAll(e int, ms []int) {
	mods := []module.Module{}
	for _, m := range ms {
		mods = append(mods, r.mod(m))
	}
	r.wmu.Lock() // (the group number must be known before the call is logged; WaitAll calls are serialised among themselves)
	k := len(r.wgs) + 1
	r.lg.add(core.Ev{"op": "wb", "k": k, "e": e, "ms": core.Seq(ms)})
	wg := module.WaitAll(lcGetter(e), mods...)
	r.lg.add(core.Ev{"op": "we", "k": k})
	r.wgs = append(r.wgs, wg)
	done := &atomic.Bool{}
	r.waited = append(r.waited, done)
	r.wmu.Unlock()
	wg.OnTrigger(func() { r.lg.add(core.Ev{"op": "wt", "k": k, "how": "cb"}) })
	go func() {
		wg.Wait()
		r.lg.add(core.Ev{"op": "wt", "k": k, "how": "wait"})
		done.Store(true)
	}()
}

func (r *lifeRun) read(m int) {
	r.lg.atomically(func() core.Ev {
		t := []any{}
		for e := 1; e <= 4; e++ {
			t = append(t, lcEvent(r.mod(m), e).WasTriggered())
		}
		return core.Ev{"op": "rd", "m": m, "t": t}
	})
}

// finish joins, logs the final event and releases whatever still waits.
func (r *lifeRun) finish(enc *json.Encoder, sc string, hung []any) int {
	_ = sched.Quiesce(2 * time.Second)
	r.wmu.Lock()
	// a Wait on a triggered group must have returned
	deadline := time.Now().Add(xJoinWait)
	for k, wg := range r.wgs {
		for wg.WasTriggered() && !r.waited[k].Load() && time.Now().Before(deadline) {
			time.Sleep(200 * time.Microsecond)
		}
		if wg.WasTriggered() && !r.waited[k].Load() {
			hung = append(hung, fmt.Sprintf("wait%d", k+1))
		}
	}
	r.lg.atomically(func() core.Ev {
		ts := []any{}
		for _, m := range r.mods {
			t := []any{}
			for e := 1; e <= 4; e++ {
				t = append(t, lcEvent(m, e).WasTriggered())
			}
			ts = append(ts, t)
		}
		ws := []any{}
		for _, wg := range r.wgs {
			p := []int{}
			for _, m := range wg.PendingElements().ToSlice() {
				for i, x := range r.mods {
					if x == m {
						p = append(p, i+1)
					}
				}
			}
			sort.Ints(p)
			ws = append(ws, []any{wg.WasTriggered(), core.Seq(p)})
		}
		xHung = xHung || len(hung) > 0
		return core.Ev{"op": "final", "t": ts, "w": ws, "hung": hung}
	})
	r.wmu.Unlock()
	n := r.lg.flush(enc, core.Ev{"sc": sc})
	// release the goroutines that still wait on untriggered groups (the log is closed: not part of the trace)
	for _, m := range r.mods {
		for e := 1; e <= 4; e++ {
			lcEvent(m, e).Trigger()
		}
	}
	return n
}

func lifeFree(enc *json.Encoder, rd *rand.Rand, sc string) int {
	nm := 2 + rd.Intn(2)
	r := newLifeRun(nm, rd.Intn(2) == 0, rd.Intn(2) == 0)
	g := newXgroup()
	seqs := [][]int{{}, {1}, {1, 2}, {2, 1}, {1, 1}, {2}}
	if nm == 3 {
		seqs = append(seqs, []int{1, 2, 3}, []int{3, 2}, []int{3, 1, 2})
	}
	actors := 3 + rd.Intn(3)
	for a := 0; a < actors; a++ {
		// the script is drawn here (rd is not shared with the goroutines)
		type step struct {
			op            string
			m, e, tm, te  int
			ms            []int
			mode, yields  int
			unsubAfter    bool
			readAfterward bool
		}
		var script []step
		for i, n := 0, 2+rd.Intn(4); i < n; i++ {
			st := step{m: 1 + rd.Intn(nm), e: 1 + rd.Intn(4), yields: rd.Intn(4), mode: 1 + rd.Intn(2)}
			switch k := rd.Intn(12); {
			case k < 4:
				st.op = "trigger"
			case k < 7:
				st.op = "on"
				st.unsubAfter = rd.Intn(4) == 0
				if rd.Intn(3) == 0 { // a callback that triggers a later event: (event, module) strictly increases
					if st.e < 4 && rd.Intn(2) == 0 {
						st.tm, st.te = 1+rd.Intn(nm), st.e+1+rd.Intn(4-st.e)
					} else if st.m < nm {
						st.tm, st.te = st.m+1+rd.Intn(nm-st.m), st.e
					}
				}
			case k == 7:
				st.op = "life"
			case k == 8:
				st.op = "all"
				st.ms = seqs[rd.Intn(len(seqs))]
			case k == 9:
				st.op = "wait"
				st.ms = seqs[rd.Intn(len(seqs))]
			default:
				st.op = "read"
			}
			script = append(script, st)
		}
		g.run(fmt.Sprintf("actor%d", a), r.lg, func() {
			for _, st := range script {
				xyield(st.yields)
				switch st.op {
				case "trigger":
					r.trigger(st.m, st.e)
				case "on":
					c := r.onTrigger(st.m, st.e, st.tm, st.te, nil)
					if st.unsubAfter {
						xyield(st.yields)
						r.unsub(c)
					}
				case "life":
					r.initLife(st.m, st.mode)
				case "all":
					r.triggerAll(st.e, st.ms)
				case "wait":
					r.waitAll(st.e, st.ms)
				case "read":
					r.read(st.m)
				}
			}
		})
	}
	hung := g.join(xJoinWait)
	return r.finish(enc, sc, hung)
}

// lifeForced: a Trigger is held in flight inside a gate callback while other calls are made.
//
//	shutdownHeld   module 1 has the default lifecycle and a gate callback on Shutdown registered BEFORE InitSimpleLifecycle;
//	               Trigger(Shutdown) parks in it: Shutdown is triggered, Stopped is not yet.  Meanwhile: reads, a callback
//	               registered on Shutdown (runs at once), a sub-module created, a second Trigger(Shutdown) (waits), WaitAll on
//	               Stopped.  After the release Stopped follows, the group triggers, the first Trigger returns true, the second false.
//	constructHeld  WaitAll(Constructed, 1, 2) and a gate callback on module 1's Constructed (before or after WaitAll);
//	               InitSimpleLifecycle(2, custom) and TriggerAll(Constructed, 1, 2) run; TriggerAll parks in the gate.
func lifeForced(enc *json.Encoder, sc string, variant int) int {
	r := newLifeRun(2, true, variant%2 == 0)
	gate := sched.NewGate()
	g := newXgroup()
	parked := func() bool {
		deadline := time.Now().Add(xJoinWait)
		for gate.Parked("g") == 0 {
			if time.Now().After(deadline) {
				return false
			}
			runtime.Gosched()
		}
		return true
	}
	ok := true
	switch sc {
	case "shutdownHeld":
		gate.Hold("g")
		r.onTrigger(1, 3, 0, 0, func() { gate.Wait("g") })
		r.initLife(1, 1+variant/2) // variants 0,1: default lifecycle; 2,3: with a shutdown function
		r.waitAll(4, []int{1})
		g.run("t1", r.lg, func() { r.trigger(1, 3) })
		ok = parked()
		r.read(1)
		r.onTrigger(1, 3, 0, 0, nil)
		r.mods = append(r.mods, r.mod(1).NewSubModule("late"))
		g.run("t2", r.lg, func() { r.trigger(1, 3) })
		g.run("t3", r.lg, func() { r.trigger(1, 4) })
		_ = sched.Quiesce(2 * time.Second)
		r.read(1)
		gate.ReleaseAll()
	case "constructHeld":
		gate.Hold("g")
		if variant < 2 {
			r.onTrigger(1, 1, 0, 0, func() { gate.Wait("g") })
			r.waitAll(1, []int{1, 2})
		} else {
			r.waitAll(1, []int{2, 1})
			r.onTrigger(1, 1, 0, 0, func() { gate.Wait("g") })
		}
		r.initLife(2, 2)
		g.run("all", r.lg, func() { r.triggerAll(1, []int{1, 2}) })
		ok = parked()
		r.read(1)
		r.read(2)
		r.onTrigger(2, 1, 1, 2, nil) // runs at once and triggers Initialized of module 1
		g.run("t2", r.lg, func() { r.trigger(1, 1) })
		_ = sched.Quiesce(2 * time.Second)
		r.read(1)
		gate.ReleaseAll()
	}
	hung := g.join(xJoinWait)
	if !ok {
		hung = append(hung, "gate-never-reached")
	}
	return r.finish(enc, sc, hung)
}
