package wire

// code -> model: a seeded generator builds random values of the catalogue types (bigger than the model
// checker's small scope), the REAL serix code encodes them, decodes the bytes back, decodes mutated
// versions of the bytes; every observation becomes one NDJSON record that TLC judges with Wire.tla
// (spec/wire/WireTrace.tla).
//
//	{"k":"enc","s":name,"m":mode,"v":tree,"ok":..,"b":[..],"same":..,"rt":{"ok":..,"v":tree,"n":..}}
//	{"k":"dec","s":name,"m":mode,"b":[..],"ok":..,"v":tree,"n":..,"panic":..,"alloc":..,"re":{"ok":..,"b":[..]},"src":how}

import (
	"bufio"
	"bytes"
	"encoding/json"
	"flag"
	"fmt"
	"math/big"
	"math/rand"
	"os"
	"reflect"
	"sort"
)

type gen struct {
	r *rand.Rand
}

func (g *gen) bigBits(bits int) *big.Int {
	x := new(big.Int)
	for i := 0; i < (bits+14)/15; i++ {
		x.Lsh(x, 15)
		x.Or(x, big.NewInt(int64(g.r.Intn(32768))))
	}
	x.And(x, new(big.Int).Sub(new(big.Int).Lsh(big.NewInt(1), uint(bits)), big.NewInt(1)))

	return x
}

// num: boundary-biased number of w bytes
func (g *gen) num(w int, signed bool) *big.Int {
	bits := 8 * w
	max := new(big.Int).Sub(new(big.Int).Lsh(big.NewInt(1), uint(bits)), big.NewInt(1))
	var x *big.Int
	switch g.r.Intn(10) {
	case 8, 9:
		// IEEE 754 corner patterns (a float32/float64 field carries its bit pattern): signalling and quiet NaNs with
		// payloads, infinities, -0, smallest denormal - conversions between float widths do not preserve all of them
		switch {
		case w == 4:
			x = new(big.Int).SetUint64(uint64([]uint32{0x7f800001, 0x7fa00000, 0xff800001, 0x7fbfffff, 0x7fc00000, 0xffc00001, 0x7f800000,
				0xff800000, 0x80000000, 0x00000001, 0x807fffff}[g.r.Intn(11)]))
		case w == 8:
			x = new(big.Int).SetUint64([]uint64{0x7ff0000000000001, 0x7ff4000000000000, 0xfff0000000000001, 0x7ff7ffffffffffff,
				0x7ff8000000000000, 0xfff8000000000001, 0x7ff0000000000000, 0xfff0000000000000, 0x8000000000000000, 1, 0x800fffffffffffff}[g.r.Intn(11)])
		default:
			x = g.bigBits(bits)
		}
	case 0:
		x = big.NewInt(0)
	case 1:
		x = big.NewInt(1)
	case 2:
		x = new(big.Int).Set(max)
	case 3:
		x = new(big.Int).Lsh(big.NewInt(1), uint(g.r.Intn(bits)))
	case 4:
		x = new(big.Int).Sub(new(big.Int).Lsh(big.NewInt(1), uint(1+g.r.Intn(bits))), big.NewInt(1))
	default:
		x = g.bigBits(bits)
	}
	if signed {
		// reinterpret the bit pattern as two's complement
		if x.Bit(bits-1) == 1 {
			x.Sub(x, new(big.Int).Lsh(big.NewInt(1), uint(bits)))
		}
	}

	return x
}

var utf8Pool = []string{"a", "Z", "0", " ", "\x00", "é", "ß", "€", "→", "😀", "𐍈", "߿", "ࠀ", "￿", "\U00010000", "\U0010ffff"}

func (g *gen) str(n int, valid bool) []byte {
	var b []byte
	for len(b) < n {
		b = append(b, utf8Pool[g.r.Intn(len(utf8Pool))]...)
	}
	if len(b) > n {
		b = b[:n] // may cut a rune: then it is (deliberately) invalid
		if valid {
			for i := range b {
				b[i] = byte('a' + i%26)
			}
		}
	}
	if !valid && n > 0 {
		b[g.r.Intn(n)] = []byte{0xff, 0xc0, 0x80, 0xed, 0xf5}[g.r.Intn(5)]
	}

	return b
}

// count: a collection length, mostly inside [min,max]
func (g *gen) count(min, max, hi int) int {
	if g.r.Intn(10) == 0 {
		return g.r.Intn(hi + 3) // anything, may violate the bounds
	}
	lo := min
	up := hi
	if max != 0 && max < up {
		up = max
	}
	if up < lo {
		up = lo
	}

	return lo + g.r.Intn(up-lo+1)
}

// edge: now and then a collection length right at the range of its length prefix (2^(8*lp)-1, 2^(8*lp), 2^(8*lp)+1):
// the last one the prefix can say, and the first two it cannot.
func (g *gen) edge(s *Schema, depth, one int) (int, bool) {
	if depth > 1 || g.r.Intn(one) != 0 {
		return 0, false
	}
	switch s.Lp {
	case 1:
		return 255 + g.r.Intn(3), true
	case 2:
		if g.r.Intn(8) == 0 && depth == 0 {
			return 65535 + g.r.Intn(3), true
		}
	}

	return 0, false
}

func cheapElem(s *Schema) bool {
	return s.K == "bool" || (s.K == "num" && s.W <= 2) || (s.K == "struct" && len(s.F) == 0)
}

func (g *gen) tree(s *Schema, depth int) any {
	hi := 6
	if depth > 1 {
		hi = 3
	}
	switch s.K {
	case "bool":
		return g.r.Intn(2) == 0
	case "num":
		if s.Fl {
			return numTree(g.num(s.W, false), nlimbs(s.W))
		}

		return numTree(g.num(s.W, s.S), nlimbs(s.W))
	case "str":
		n := g.count(s.Min, s.Max, 3*hi)
		if e, ok := g.edge(s, depth, 30); ok && s.Lp == 1 {
			n = e
		}

		return bytesTree(g.str(n, g.r.Intn(8) != 0))
	case "bytes":
		n := g.count(s.Min, s.Max, 4*hi)
		if g.r.Intn(40) == 0 {
			n = 200 + g.r.Intn(200) // longer than a one-byte prefix can say
		}
		if e, ok := g.edge(s, depth, 30); ok {
			n = e
		}
		b := make([]byte, n)
		g.r.Read(b)

		return bytesTree(b)
	case "barr", "custom":
		b := make([]byte, s.N)
		g.r.Read(b)

		return bytesTree(b)
	case "slice", "arr":
		n := s.N
		if s.K == "slice" {
			n = g.count(s.Min, s.Max, hi)
			if e, ok := g.edge(s, depth, 30); ok && cheapElem(s.E) && s.Lp == 1 { // (65536 elements are beyond what TLC's recursive Flatten takes)
				n = e
			}
		}
		r := make([]any, n)
		for i := range r {
			r[i] = g.tree(s.E, depth+1)
		}
		if s.Nodup && g.r.Intn(6) == 0 && n > 1 {
			r[n-1] = r[0]
		}

		return r
	case "map":
		n := g.count(s.Min, s.Max, hi)
		if e, ok := g.edge(s, depth, 60); ok && s.Lp == 1 && s.Key.K == "num" && s.Key.W == 2 && cheapElem(s.Val) {
			n = e
		}
		seen := map[string]bool{}
		r := []any{}
		for tries := 0; len(r) < n && tries < 20*n; tries++ {
			k := g.tree(s.Key, depth+1)
			if c := canon(k); !seen[c] {
				seen[c] = true
				r = append(r, []any{k, g.tree(s.Val, depth+1)})
			}
		}

		return r
	case "struct":
		r := make([]any, len(s.F))
		for i, f := range s.F {
			r[i] = g.tree(f, depth+1)
		}

		return r
	case "eptr":
		if g.r.Intn(8) == 0 {
			return map[string]any{"some": false}
		}

		return map[string]any{"some": true, "v": g.tree(s.T, depth+1)}
	case "opt":
		if g.r.Intn(3) == 0 {
			return map[string]any{"some": false}
		}

		return map[string]any{"some": true, "v": g.tree(s.T, depth+1)}
	case "iface":
		a := s.Alts[g.r.Intn(len(s.Alts))]

		return map[string]any{"c": int(a.C), "v": g.tree(a.T, depth+1)}
	case "u256":
		switch g.r.Intn(12) {
		case 0:
			return numTree(big.NewInt(-int64(1+g.r.Intn(5))), nlimbs(32))
		case 1:
			return numTree(new(big.Int).Lsh(big.NewInt(1), uint(256+g.r.Intn(3))), nlimbs(32))
		case 2:
			return numTree(new(big.Int).Sub(new(big.Int).Lsh(big.NewInt(1), 256), big.NewInt(1)), nlimbs(32))
		case 3:
			return numTree(big.NewInt(int64(g.r.Intn(3))), nlimbs(32))
		}

		return numTree(g.bigBits(1+g.r.Intn(256)), nlimbs(32))
	case "time":
		x := g.num(8, false)
		x.And(x, new(big.Int).Sub(new(big.Int).Lsh(big.NewInt(1), 63), big.NewInt(1))) // inside [0, MaxInt64] ns

		return numTree(x, nlimbs(8))
	}
	panic("gen: kind " + s.K)
}

// arrange: with probability 1/2 put the elements of rule-ordered slices into the order the REAL encoder
// gives their encodings (so that a good share of the values passes validation; validity is judged by TLC).
func (g *gen) arrange(s *Schema, tree any, t reflect.Type) any {
	switch s.K {
	case "slice":
		xs := tree.([]any)
		et := t
		for et.Kind() == reflect.Ptr {
			et = et.Elem()
		}
		r := make([]any, len(xs))
		for i, x := range xs {
			r[i] = g.arrange(s.E, x, et.Elem())
		}
		if s.Vlex && !s.Sort && g.r.Intn(2) == 0 {
			keys := make([][]byte, len(r))
			for i, x := range r {
				if gv, err := toGo(s.E, x, et.Elem()); err == nil {
					keys[i] = encodeReal(gv, 0, false).B
				}
			}
			idx := make([]int, len(r))
			for i := range idx {
				idx[i] = i
			}
			sort.SliceStable(idx, func(a, b int) bool { return bytes.Compare(keys[idx[a]], keys[idx[b]]) < 0 })
			r2 := make([]any, len(r))
			for i, j := range idx {
				r2[i] = r[j]
			}
			r = r2
		}

		return r
	case "struct":
		st := t
		for st.Kind() == reflect.Ptr {
			st = st.Elem()
		}
		xs := tree.([]any)
		idx := serixFields(st)
		r := make([]any, len(xs))
		for i, x := range xs {
			r[i] = g.arrange(s.F[i], x, st.Field(idx[i]).Type)
		}

		return r
	}

	return tree
}

// mutate: hostile variants of a valid encoding
func (g *gen) mutate(b []byte) ([]byte, string) {
	m := append([]byte(nil), b...)
	switch k := g.r.Intn(9); {
	case k == 0 && len(m) > 0:
		return m[:g.r.Intn(len(m))], "truncated"
	case k == 1 && len(m) > 0:
		m[g.r.Intn(len(m))] ^= 1 << uint(g.r.Intn(8))
		return m, "bitflip"
	case k == 2 && len(m) > 0:
		m[g.r.Intn(len(m))] = 0xff
		return m, "byte=ff"
	case k == 3 && len(m) >= 4:
		// maximise a (possible) 32-bit length / optional marker / type code
		i := g.r.Intn(len(m) - 3)
		copy(m[i:], []byte{0xff, 0xff, 0xff, [3]byte{0xff, 0x7f, 0x3f}[g.r.Intn(3)]})
		return m, "len32=max"
	case k == 4 && len(m) >= 2:
		i := g.r.Intn(len(m) - 1)
		m[i], m[i+1] = 0xff, 0xff
		return m, "len16=max"
	case k == 5 && len(m) > 0:
		i := g.r.Intn(len(m))
		m[i] = byte(int(m[i]) + []int{1, -1, 2}[g.r.Intn(3)])
		return m, "byte+-1"
	case k == 6 && len(m) > 1:
		i, j := g.r.Intn(len(m)), g.r.Intn(len(m))
		m[i], m[j] = m[j], m[i]
		return m, "swap"
	case k == 7:
		t := make([]byte, 1+g.r.Intn(4))
		g.r.Read(t)
		return append(m, t...), "tail"
	default:
		if len(m) > 0 {
			m[g.r.Intn(len(m))] = 0
		}
		return m, "byte=0"
	}
}

type recSink struct {
	files []*os.File
	w     []*bufio.Writer
	n     int
}

func newRecSink(prefix string, parts int) (*recSink, error) {
	s := &recSink{}
	for i := 0; i < parts; i++ {
		f, err := os.Create(fmt.Sprintf("%s.%02d.ndjson", prefix, i))
		if err != nil {
			return nil, err
		}
		s.files = append(s.files, f)
		s.w = append(s.w, bufio.NewWriterSize(f, 1<<20))
	}

	return s, nil
}

func (s *recSink) put(rec map[string]any) {
	b, err := json.Marshal(rec)
	if err != nil {
		panic(err)
	}
	w := s.w[s.n%len(s.w)]
	s.n++
	w.Write(b)
	w.WriteByte('\n')
}

func (s *recSink) close() {
	for i := range s.w {
		s.w[i].Flush()
		s.files[i].Close()
	}
}

func capAlloc(a uint64) int {
	if a > 1<<30 {
		return 1 << 30
	}

	return int(a)
}

func decRecord(e *entry, s *Schema, b []byte, mode int, src string) map[string]any {
	o := decodeReal(e, s, b, mode)
	rec := map[string]any{"k": "dec", "s": e.name, "m": mode, "b": ints(b), "ok": o.Ok, "n": o.N,
		"panic": o.Panic != "", "alloc": capAlloc(o.Alloc), "src": src}
	if o.Panic != "" {
		rec["msg"] = o.Panic
	}
	if o.Ok {
		rec["v"] = o.V
		if mode == 1 && o.N <= len(b) {
			re := encodeReal(o.val, 1, true)
			rec["re"] = map[string]any{"ok": re.Ok, "b": ints(re.B)}
		}
	}

	return rec
}

// encRecord: Encode of the value built from tree, twice-encode under shuffled insertion order, round trip.
// Returns the record and the encoding (nil if Encode failed).
func encRecord(e *entry, s *Schema, tree any, mode int, ptr bool, rng *rand.Rand) (map[string]any, []byte, error) {
	gv, err := toGo(s, tree, e.typ)
	if err != nil {
		return nil, nil, err
	}
	enc := encodeReal(gv, mode, ptr)
	rec := map[string]any{"k": "enc", "s": e.name, "m": mode, "v": tree, "ok": enc.Ok, "b": ints(enc.B), "panic": enc.Panic != ""}
	if !enc.Ok {
		return rec, nil, nil
	}
	// C01: same bytes when the value is built again in another insertion order
	same := true
	for k := 0; k < 2; k++ {
		gv2, err := toGo(s, shuffle(s, tree, rng), e.typ)
		if err != nil {
			return nil, nil, err
		}
		if e2 := encodeReal(gv2, mode, true); !e2.Ok || !bytes.Equal(e2.B, enc.B) {
			same = false
		}
	}
	rec["same"] = same
	rt := decodeReal(e, s, enc.B, mode)
	rtj := map[string]any{"ok": rt.Ok, "n": rt.N, "panic": rt.Panic != ""}
	if rt.Ok {
		rtj["v"] = rt.V
	}
	rec["rt"] = rtj

	return rec, enc.B, nil
}

func cmdRecord(args []string) int {
	fs := flag.NewFlagSet("w1-record", flag.ExitOnError)
	catPath := fs.String("cat", "", "")
	seed := fs.Int64("seed", 1, "")
	n := fs.Int("n", 2000, "number of random values")
	out := fs.String("out", "", "")
	parts := fs.Int("parts", 1, "")
	_ = fs.Parse(args)
	cat, names, err := loadCatalogue(*catPath)
	if err != nil {
		fmt.Fprintln(os.Stderr, err)
		return 2
	}
	sink, err := newRecSink(*out, *parts)
	if err != nil {
		fmt.Fprintln(os.Stderr, err)
		return 2
	}
	watchdog()
	g := &gen{r: rand.New(rand.NewSource(*seed))}
	allocBad := map[string]int{}
	for i := 0; i < *n; i++ {
		name := names[i%len(names)]
		e, s := entries[name], cat[name]
		hangRow = fmt.Sprintf("record %d %s", i, name)
		tree := g.arrange(s, g.tree(s, 0), e.typ)
		rec, encB, err := encRecord(e, s, tree, g.r.Intn(2), g.r.Intn(2) == 0, g.r)
		if err != nil {
			fmt.Fprintf(os.Stderr, "generator built an unusable %s: %v\n", name, err)
			return 2
		}
		sink.put(rec)
		if encB == nil {
			continue
		}
		enc := encObs{Ok: true, B: encB}
		// hostile variants of the encoding
		for k := 0; k < 4; k++ {
			if allocBad[name] >= 4 {
				break
			}
			mb, how := g.mutate(enc.B)
			if g.r.Intn(3) == 0 {
				mb, how = g.mutate(mb)
				how = "double:" + how
			}
			r := decRecord(e, s, mb, g.r.Intn(2), how)
			if a, _ := r["alloc"].(int); a > AllocSlack+AllocPerByte*len(mb) {
				allocBad[name]++
			}
			sink.put(r)
		}
	}
	hangRow = ""
	sink.close()
	fmt.Printf("{\"records\": %d}\n", sink.n)

	return 0
}
