package wire

// Conversion between the value trees of Wire.tla (JSON) and Go values of the catalogue types, guided by
// the schema (spec/wire/catalogue.json) and by reflection.  Trusted base of the binding.
//
//	number            {"n": negative, "m": [little-endian base-2^15 limbs]}   (floats: their IEEE bits, unsigned)
//	string/bytes/...  [b0, b1, ...]
//	slice/array       [v...]            map   [[k, v]...]         struct  [field values in serix order]
//	optional          {"some": false} | {"some": true, "v": v}
//	interface         {"c": type code, "v": v}

import (
	"encoding/json"
	"fmt"
	"math"
	"math/big"
	"reflect"
	"sort"
	"time"
)

type Code struct {
	W int    `json:"w"`
	C uint32 `json:"c"`
}

type Alt struct {
	C uint32  `json:"c"`
	T *Schema `json:"t"`
}

type Schema struct {
	K     string    `json:"k"`
	W     int       `json:"w"`
	S     bool      `json:"s"`
	Fl    bool      `json:"fl"`
	Lp    int       `json:"lp"`
	Min   int       `json:"min"`
	Max   int       `json:"max"`
	N     int       `json:"n"`
	Code  Code      `json:"code"`
	E     *Schema   `json:"e"`
	Key   *Schema   `json:"key"`
	Val   *Schema   `json:"val"`
	F     []*Schema `json:"f"`
	T     *Schema   `json:"t"`
	Alts  []Alt     `json:"alts"`
	Sort  bool      `json:"sort"`
	Vlex  bool      `json:"vlex"`
	Nodup bool      `json:"nodup"`
	One   int       `json:"one"`
	Must  []int     `json:"must"`
	Mw    int       `json:"mw"`
}

type catEntry struct {
	Name string  `json:"name"`
	S    *Schema `json:"s"`
}

func nlimbs(w int) int {
	switch w {
	case 1:
		return 1
	case 2:
		return 2
	case 4:
		return 3
	case 8:
		return 5
	case 32:
		return 18
	}
	panic("nlimbs")
}

// numTree: big integer -> {"n","m"} with at least n limbs (more if the magnitude needs them).
func numTree(x *big.Int, limbs int) map[string]any {
	mag := new(big.Int).Abs(x)
	m := []any{}
	mask := big.NewInt(32767)
	for mag.Sign() > 0 || len(m) < limbs {
		m = append(m, int(new(big.Int).And(mag, mask).Int64()))
		mag.Rsh(mag, 15)
	}

	return map[string]any{"n": x.Sign() < 0, "m": m}
}

func treeNum(t any) (*big.Int, error) {
	o, ok := t.(map[string]any)
	if !ok {
		return nil, fmt.Errorf("number tree expected, got %T", t)
	}
	ls, ok := o["m"].([]any)
	if !ok {
		return nil, fmt.Errorf("number tree without limbs")
	}
	x := new(big.Int)
	for i := len(ls) - 1; i >= 0; i-- {
		x.Lsh(x, 15)
		x.Add(x, big.NewInt(int64(toInt(ls[i]))))
	}
	if neg, _ := o["n"].(bool); neg {
		x.Neg(x)
	}

	return x, nil
}

func toInt(v any) int {
	switch x := v.(type) {
	case float64:
		return int(x)
	case int:
		return x
	case json.Number:
		i, _ := x.Int64()
		return int(i)
	}
	panic(fmt.Sprintf("integer expected, got %T", v))
}

func treeBytes(t any) ([]byte, error) {
	xs, ok := t.([]any)
	if !ok {
		return nil, fmt.Errorf("byte sequence expected, got %T", t)
	}
	b := make([]byte, len(xs))
	for i, x := range xs {
		b[i] = byte(toInt(x))
	}

	return b, nil
}

func bytesTree(b []byte) []any {
	r := make([]any, len(b))
	for i, x := range b {
		r[i] = int(x)
	}

	return r
}

// serixFields: indices of the struct fields that carry a serix tag, in declaration (= wire) order.
func serixFields(t reflect.Type) []int {
	var idx []int
	for i := 0; i < t.NumField(); i++ {
		if _, ok := t.Field(i).Tag.Lookup("serix"); ok {
			idx = append(idx, i)
		}
	}

	return idx
}

var (
	bigPtrType = reflect.TypeOf((*big.Int)(nil))
	timeType   = reflect.TypeOf(time.Time{})
)

// float32frombitsOf reads a float32 out of a reflect.Value without converting it to float64 (which would
// quiet signalling NaNs).
func float32frombitsOf(v reflect.Value) float32 {
	p := reflect.New(v.Type())
	p.Elem().Set(v) // a memory copy

	return *(*float32)(p.UnsafePointer())
}

// errUntypable: the tree denotes a value the Go type cannot hold (the model then says Encode fails too).
type errUntypable struct{ msg string }

func (e errUntypable) Error() string { return "untypable: " + e.msg }

// toGo builds a Go value of type t from the tree.
func toGo(s *Schema, tree any, t reflect.Type) (reflect.Value, error) {
	// non-optional pointers are transparent on the wire
	if t.Kind() == reflect.Ptr && t != bigPtrType && s.K != "opt" && s.K != "eptr" {
		ev, err := toGo(s, tree, t.Elem())
		if err != nil {
			return reflect.Value{}, err
		}
		p := reflect.New(t.Elem())
		p.Elem().Set(ev)

		return p, nil
	}
	v := reflect.New(t).Elem()
	switch s.K {
	case "bool":
		b, ok := tree.(bool)
		if !ok {
			return v, fmt.Errorf("bool expected")
		}
		v.SetBool(b)
	case "num":
		x, err := treeNum(tree)
		if err != nil {
			return v, err
		}
		switch t.Kind() {
		case reflect.Uint8, reflect.Uint16, reflect.Uint32, reflect.Uint64:
			if x.Sign() < 0 || x.BitLen() > t.Bits() {
				return v, errUntypable{fmt.Sprintf("%s into %s", x, t)}
			}
			v.SetUint(x.Uint64())
		case reflect.Int8, reflect.Int16, reflect.Int32, reflect.Int64:
			if !x.IsInt64() || v.OverflowInt(x.Int64()) {
				return v, errUntypable{fmt.Sprintf("%s into %s", x, t)}
			}
			v.SetInt(x.Int64())
		case reflect.Float32:
			if x.Sign() < 0 || x.BitLen() > 32 {
				return v, errUntypable{"float32 bits"}
			}
			// no float64 detour: it would quiet a signalling NaN (the payload must survive bit for bit)
			*(*float32)(v.Addr().UnsafePointer()) = math.Float32frombits(uint32(x.Uint64()))
		case reflect.Float64:
			if x.Sign() < 0 || x.BitLen() > 64 {
				return v, errUntypable{"float64 bits"}
			}
			v.SetFloat(math.Float64frombits(x.Uint64()))
		default:
			return v, fmt.Errorf("num into %s", t)
		}
	case "str":
		b, err := treeBytes(tree)
		if err != nil {
			return v, err
		}
		v.SetString(string(b))
	case "bytes":
		b, err := treeBytes(tree)
		if err != nil {
			return v, err
		}
		v.SetBytes(b)
	case "barr":
		b, err := treeBytes(tree)
		if err != nil {
			return v, err
		}
		if len(b) != t.Len() {
			return v, errUntypable{"byte array length"}
		}
		reflect.Copy(v, reflect.ValueOf(b))
	case "custom":
		b, err := treeBytes(tree)
		if err != nil {
			return v, err
		}
		if len(b) != s.N {
			return v, errUntypable{"custom length"}
		}
		v.Addr().Interface().(opaque).setRaw(b)
	case "slice", "arr":
		xs, ok := tree.([]any)
		if !ok {
			return v, fmt.Errorf("sequence expected, got %T", tree)
		}
		if t.Kind() == reflect.Array {
			if len(xs) != t.Len() {
				return v, errUntypable{"array length"}
			}
		} else {
			v.Set(reflect.MakeSlice(t, len(xs), len(xs)))
		}
		for i, x := range xs {
			ev, err := toGo(s.E, x, t.Elem())
			if err != nil {
				return v, err
			}
			v.Index(i).Set(ev)
		}
	case "map":
		xs, ok := tree.([]any)
		if !ok {
			return v, fmt.Errorf("pair sequence expected, got %T", tree)
		}
		v.Set(reflect.MakeMapWithSize(t, len(xs)))
		for _, x := range xs {
			kv, ok := x.([]any)
			if !ok || len(kv) != 2 {
				return v, fmt.Errorf("pair expected")
			}
			k, err := toGo(s.Key, kv[0], t.Key())
			if err != nil {
				return v, err
			}
			e, err := toGo(s.Val, kv[1], t.Elem())
			if err != nil {
				return v, err
			}
			if v.MapIndex(k).IsValid() {
				return v, errUntypable{"duplicate map key"}
			}
			v.SetMapIndex(k, e)
		}
	case "struct":
		xs, ok := tree.([]any)
		if !ok {
			return v, fmt.Errorf("field sequence expected, got %T", tree)
		}
		idx := serixFields(t)
		if len(idx) != len(s.F) || len(xs) != len(s.F) {
			return v, fmt.Errorf("schema of %s has %d fields, Go type %d, value %d", t, len(s.F), len(idx), len(xs))
		}
		for j, i := range idx {
			fv, err := toGo(s.F[j], xs[j], t.Field(i).Type)
			if err != nil {
				return v, err
			}
			v.Field(i).Set(fv)
		}
	case "opt", "eptr":
		o, ok := tree.(map[string]any)
		if !ok {
			return v, fmt.Errorf("optional expected, got %T", tree)
		}
		if some, _ := o["some"].(bool); !some {
			return v, nil // nil pointer / nil interface
		}
		if t.Kind() == reflect.Interface {
			return toGo(s.T, o["v"], t)
		}
		ev, err := toGo(s.T, o["v"], t.Elem())
		if err != nil {
			return v, err
		}
		p := reflect.New(t.Elem())
		p.Elem().Set(ev)
		v.Set(p)
	case "iface":
		o, ok := tree.(map[string]any)
		if !ok {
			return v, fmt.Errorf("interface value expected, got %T", tree)
		}
		c := uint32(toInt(o["c"]))
		ct, ok := alts[t][c]
		if !ok {
			return v, errUntypable{fmt.Sprintf("no alternative %d of %s", c, t)}
		}
		var as *Schema
		for _, a := range s.Alts {
			if a.C == c {
				as = a.T
			}
		}
		if as == nil {
			return v, fmt.Errorf("schema of %s lacks alternative %d", t, c)
		}
		ev, err := toGo(as, o["v"], ct)
		if err != nil {
			return v, err
		}
		v.Set(ev)
	case "u256":
		x, err := treeNum(tree)
		if err != nil {
			return v, err
		}
		v.Set(reflect.ValueOf(x))
	case "time":
		x, err := treeNum(tree)
		if err != nil {
			return v, err
		}
		if x.Sign() < 0 || !x.IsInt64() {
			return v, errUntypable{"time outside the int64 nanosecond range"}
		}
		v.Set(reflect.ValueOf(time.Unix(0, x.Int64()).UTC()))
	default:
		return v, fmt.Errorf("schema kind %q", s.K)
	}

	return v, nil
}

// fromGo projects a Go value to its tree.
func fromGo(s *Schema, v reflect.Value) any {
	t := v.Type()
	if t.Kind() == reflect.Ptr && t != bigPtrType && s.K != "opt" && s.K != "eptr" {
		if v.IsNil() {
			return map[string]any{"nil": t.String()} // matches no model value
		}

		return fromGo(s, v.Elem())
	}
	switch s.K {
	case "bool":
		return v.Bool()
	case "num":
		switch t.Kind() {
		case reflect.Uint8, reflect.Uint16, reflect.Uint32, reflect.Uint64:
			return numTree(new(big.Int).SetUint64(v.Uint()), nlimbs(s.W))
		case reflect.Int8, reflect.Int16, reflect.Int32, reflect.Int64:
			return numTree(big.NewInt(v.Int()), nlimbs(s.W))
		case reflect.Float32:
			return numTree(new(big.Int).SetUint64(uint64(math.Float32bits(float32frombitsOf(v)))), nlimbs(4))
		case reflect.Float64:
			return numTree(new(big.Int).SetUint64(math.Float64bits(v.Float())), nlimbs(8))
		}
	case "str":
		return bytesTree([]byte(v.String()))
	case "bytes":
		return bytesTree(v.Bytes())
	case "barr":
		b := make([]byte, v.Len())
		reflect.Copy(reflect.ValueOf(b), v)

		return bytesTree(b)
	case "custom":
		p := reflect.New(t)
		p.Elem().Set(v)

		return bytesTree(p.Interface().(opaque).raw())
	case "slice", "arr":
		r := make([]any, v.Len())
		for i := range r {
			r[i] = fromGo(s.E, v.Index(i))
		}

		return r
	case "map":
		r := make([]any, 0, v.Len())
		it := v.MapRange()
		for it.Next() {
			r = append(r, []any{fromGo(s.Key, it.Key()), fromGo(s.Val, it.Value())})
		}
		sortPairs(r)

		return r
	case "struct":
		idx := serixFields(t)
		r := make([]any, len(idx))
		for j, i := range idx {
			if j < len(s.F) {
				r[j] = fromGo(s.F[j], v.Field(i))
			}
		}

		return r
	case "opt", "eptr":
		if v.IsNil() {
			return map[string]any{"some": false}
		}
		if t.Kind() == reflect.Interface {
			return map[string]any{"some": true, "v": fromGo(s.T, v)}
		}

		return map[string]any{"some": true, "v": fromGo(s.T, v.Elem())}
	case "iface":
		if v.IsNil() {
			return map[string]any{"nil": t.String()}
		}
		cv := v.Elem()
		for c, ct := range alts[t] {
			if ct == cv.Type() {
				for _, a := range s.Alts {
					if a.C == c {
						return map[string]any{"c": int(c), "v": fromGo(a.T, cv)}
					}
				}
			}
		}

		return map[string]any{"unknown": cv.Type().String()}
	case "u256":
		x, _ := v.Interface().(*big.Int)
		if x == nil {
			return map[string]any{"nil": "*big.Int"}
		}

		return numTree(x, nlimbs(32))
	case "time":
		tm := v.Interface().(time.Time)
		// the statement covers stamps inside [0, MaxInt64] ns; others are projected to what they are
		if tm.Unix() < 0 || tm.Unix() > math.MaxInt64/1_000_000_000 {
			return map[string]any{"n": true, "m": []any{0, 0, 0, 0, 0}}
		}

		return numTree(big.NewInt(tm.UnixNano()), nlimbs(8))
	}
	panic(fmt.Sprintf("fromGo: schema %q, type %s", s.K, t))
}

func sortPairs(r []any) {
	keys := make([]string, len(r))
	for i, p := range r {
		keys[i] = canon(p.([]any)[0])
	}
	sort.Sort(&pairSorter{r, keys})
}

type pairSorter struct {
	r    []any
	keys []string
}

func (p *pairSorter) Len() int           { return len(p.r) }
func (p *pairSorter) Less(i, j int) bool { return p.keys[i] < p.keys[j] }
func (p *pairSorter) Swap(i, j int) {
	p.r[i], p.r[j] = p.r[j], p.r[i]
	p.keys[i], p.keys[j] = p.keys[j], p.keys[i]
}

// norm: tree with the pairs of every map sorted by the JSON text of the key (a Go map has no order).
func norm(s *Schema, tree any) any {
	switch s.K {
	case "slice", "arr":
		xs, ok := tree.([]any)
		if !ok {
			return tree
		}
		r := make([]any, len(xs))
		for i, x := range xs {
			r[i] = norm(s.E, x)
		}

		return r
	case "map":
		xs, ok := tree.([]any)
		if !ok {
			return tree
		}
		r := make([]any, len(xs))
		for i, x := range xs {
			kv, ok := x.([]any)
			if !ok || len(kv) != 2 {
				return tree
			}
			r[i] = []any{norm(s.Key, kv[0]), norm(s.Val, kv[1])}
		}
		sortPairs(r)

		return r
	case "struct":
		xs, ok := tree.([]any)
		if !ok || len(xs) != len(s.F) {
			return tree
		}
		r := make([]any, len(xs))
		for i, x := range xs {
			r[i] = norm(s.F[i], x)
		}

		return r
	case "opt", "eptr":
		o, ok := tree.(map[string]any)
		if !ok {
			return tree
		}
		if some, _ := o["some"].(bool); some {
			return map[string]any{"some": true, "v": norm(s.T, o["v"])}
		}

		return tree
	case "iface":
		o, ok := tree.(map[string]any)
		if !ok || o["c"] == nil {
			return tree
		}
		c := uint32(toInt(o["c"]))
		for _, a := range s.Alts {
			if a.C == c {
				return map[string]any{"c": int(c), "v": norm(a.T, o["v"])}
			}
		}
	}

	return tree
}

// canon: canonical JSON text of a tree (object keys sorted by encoding/json, integers without exponent).
func canon(tree any) string {
	b, err := json.Marshal(tree)
	if err != nil {
		panic(err)
	}

	return string(b)
}

func sameTree(s *Schema, a, b any) bool { return canon(norm(s, a)) == canon(norm(s, b)) }

func loadCatalogue(path string) (map[string]*Schema, []string, error) {
	raw, err := readFile(path)
	if err != nil {
		return nil, nil, err
	}
	var es []catEntry
	if err := json.Unmarshal(raw, &es); err != nil {
		return nil, nil, err
	}
	m := map[string]*Schema{}
	var names []string
	for _, e := range es {
		m[e.Name] = e.S
		names = append(names, e.Name)
		if _, ok := entries[e.Name]; !ok {
			return nil, nil, fmt.Errorf("catalogue.json names %q, the harness registers no such type", e.Name)
		}
	}
	for _, n := range order {
		if _, ok := m[n]; !ok {
			return nil, nil, fmt.Errorf("harness type %q is missing in catalogue.json", n)
		}
	}

	return m, names, nil
}
