// Package wire binds the binary serix codec (hive.go/serializer/serix: API.Encode / API.Decode) to the
// TLA+ module Wire (spec/wire), work id W1 of properties C01, C02, C03.
//
// This file is the Go half of the hand-written catalogue: every type below is registered with one
// serix.API and listed under the same name in spec/wire/catalogue.json, where its wire layout is
// written down in the schema language of Wire.tla.  The two halves are written independently: the
// registrations here use the serix API the way its documentation describes (type settings, struct tags,
// array rules, interface objects), the schemas there spell out the bytes the documentation promises.
package wire

import (
	"sync"
	"context"
	"fmt"
	"math/big"
	"reflect"
	"time"

	"github.com/iotaledger/hive.go/serializer/v2"
	"github.com/iotaledger/hive.go/serializer/v2/serix"
)

// ---------------------------------------------------------------- strings, byte slices, byte arrays

type Str8 string
type Str16B string
type Str32 string
type Bytes8 []byte
type Bytes16B []byte
type Bytes32 []byte
type Bytes64 []byte
type SliceU16L64 []uint16
type Str64F struct {
	S string `serix:",lenPrefix=uint64"`
}
type Arr4 [4]byte
type Arr2C [2]byte
type Arr1W [1]byte

// ---------------------------------------------------------------- arrays, slices, maps

type ArrU16 [2]uint16
type ArrBool [3]bool
type ArrPair [2]Pair
type SliceU16B []uint16
type SliceBool16 []bool
type SliceU8L32 []int8
type SetStr []Str8
type SortedU16 []uint16
type VlexU16 []uint16
type NoDupBytes []Bytes8
type PtrSlice []*Pair
type Empty struct{}
type Empties []Empty
type MapU8Str map[uint8]Str8
type MapStrU16 map[Str8]uint16
type InnerMap map[uint8]bool
type MapNested map[int8]InnerMap
type MapPtr map[uint16]*Pair
type MapShape map[uint8]Shape
type MapArrKey map[Arr4]uint8
type SetU8 map[uint8]Empty
type Matrix []SliceU16B
type Bigs []*big.Int
type SortedBigs []*big.Int
type MapLexOff map[uint8]uint8
type MapU16U8 map[uint16]uint8
type Bytes16 []byte

// MapShared and SliceShared are registered from ONE base TypeSettings, i.e. they share one *ArrayRules (without any rule):
// using the one type must not change how the other is written or validated.
type MapShared map[uint8]uint8
type SliceShared []uint16
type Times []time.Time

// ---------------------------------------------------------------- structs

type Pair struct {
	A uint8  `serix:""`
	B uint16 `serix:""`
}

type Nums struct {
	B   bool    `serix:""`
	U8  uint8   `serix:""`
	I8  int8    `serix:""`
	U16 uint16  `serix:""`
	I16 int16   `serix:""`
	U32 uint32  `serix:""`
	I32 int32   `serix:""`
	U64 uint64  `serix:""`
	I64 int64   `serix:""`
	F32 float32 `serix:""`
	F64 float64 `serix:""`
	// not part of the wire format: no serix tag
	Ignored int
}

type Base struct {
	ID uint16 `serix:""`
}

type Inl struct {
	Z uint8 `serix:""`
}

// EmbS: Base is embedded (flattened, its object type code is not written), Inl is embedded and inlined
// (an ordinary nested field: its object type code is written).
type EmbS struct {
	Base `serix:""`
	Inl  `serix:",inlined"`
	K    bool `serix:""`
}

type PtrEmb struct {
	*Base `serix:""`
	K     uint8 `serix:""`
}

type EmbI struct {
	Shape `serix:",inlined"`
	K     uint8 `serix:""`
}

type OptEmpty struct {
	O *Empty `serix:",optional"`
}

type Flag bool
type Amount uint64
type Small int8
type Ratio float32

type Named struct {
	F Flag   `serix:""`
	A Amount `serix:""`
	S Small  `serix:""`
	R Ratio  `serix:""`
}

type OptU8 struct {
	O *uint8 `serix:",optional"`
	K uint8  `serix:""`
}

type Holder struct {
	P *Pair `serix:",optional"`
	K uint8 `serix:""`
}

type Tagged struct {
	A []uint16 `serix:",lenPrefix=uint8"`
	B []uint16 `serix:",lenPrefix=uint16,minLen=1"`
	C Str8     `serix:",lenPrefix=uint32"`
	D string   `serix:",lenPrefix=uint8,maxLen=2"`
	E []byte   `serix:",lenPrefix=uint8,minLen=1"`
}

// ---------------------------------------------------------------- interfaces

type Shape interface{ shape() }

type Dot struct {
	X uint8 `serix:""`
}
type Line struct {
	Y uint16 `serix:""`
	S Str8   `serix:""`
}
type Bag struct {
	Items []Holder `serix:",lenPrefix=uint8"`
}

func (Dot) shape()   {}
func (*Line) shape() {}
func (Arr2C) shape() {}
func (*Bag) shape()  {}
func (CustC) shape() {}

type Shapes []Shape

type OptShape struct {
	I Shape `serix:",optional"`
}

type Wide interface{ wide() }
type WA struct {
	V uint8 `serix:""`
}
type WB struct {
	F bool `serix:""`
}

func (*WA) wide() {}
func (WB) wide()  {}

type Wides []Wide

// ---------------------------------------------------------------- custom (de)serializables: opaque bytes

// Cust serializes itself (2 bytes, big-endian on purpose: the bytes are opaque to serix).
type Cust struct{ Hi, Lo byte }

// Encode hands out a view into an arena of interned encodings (as an implementation that avoids allocations would): the
// slice has spare capacity, and what lies behind it are the encodings of other values. Whoever receives it must not write to it.
func (c Cust) Encode() ([]byte, error) {
	k := [2]byte{c.Hi, c.Lo}
	custMu.Lock()
	defer custMu.Unlock()
	off, ok := custOff[k]
	if !ok {
		if len(custArena)+2 > cap(custArena) {
			custArena, custOff = make([]byte, 0, 1<<12), map[[2]byte]int{}
		}
		off = len(custArena)
		custArena = append(custArena, c.Hi, c.Lo)
		custOff[k] = off
	}
	return custArena[off : off+2], nil
}

var (
	custMu    sync.Mutex
	custArena = make([]byte, 0, 1<<12)
	custOff   = map[[2]byte]int{}
)

// MapCustKey: a map whose KEY is the custom Serializable (no object type).
type MapCustKey map[Cust]uint8
func (c *Cust) Decode(b []byte) (int, error) {
	if len(b) < 2 {
		return 0, fmt.Errorf("cust: need 2 bytes")
	}
	c.Hi, c.Lo = b[0], b[1]

	return 2, nil
}

// CustC: 1 opaque byte behind the object type code uint8(7).
type CustC struct{ X byte }

func (c CustC) Encode() ([]byte, error) { return []byte{c.X}, nil }
func (c *CustC) Decode(b []byte) (int, error) {
	if len(b) < 1 {
		return 0, fmt.Errorf("custc: need 1 byte")
	}
	c.X = b[0]

	return 1, nil
}

// opaque lets the tree conversion read/write the bytes of a custom type.
type opaque interface {
	raw() []byte
	setRaw([]byte)
}

func (c *Cust) raw() []byte      { return []byte{c.Hi, c.Lo} }
func (c *Cust) setRaw(b []byte)  { c.Hi, c.Lo = b[0], b[1] }
func (c *CustC) raw() []byte     { return []byte{c.X} }
func (c *CustC) setRaw(b []byte) { c.X = b[0] }

// ---------------------------------------------------------------- everything together

type Outer struct {
	Head  uint8 `serix:""`
	Base  `serix:""`
	Inl   `serix:",inlined"`
	Opt   *Pair     `serix:",optional"`
	Name  string    `serix:",lenPrefix=uint16,maxLen=4"`
	Raw   []byte    `serix:",lenPrefix=uint8,minLen=1"`
	Items []Shape   `serix:",lenPrefix=uint8,maxLen=2"`
	OptI  Shape     `serix:",optional"`
	P     *Pair     `serix:""`
	T     time.Time `serix:""`
	N     *big.Int  `serix:""`
	C     Cust      `serix:""`
	M     MapU8Str  `serix:""`
}

// ---------------------------------------------------------------- registry

type entry struct {
	name string
	typ  reflect.Type
}

var (
	api     = serix.NewAPI()
	ctx     = context.Background()
	entries = map[string]*entry{}
	order   []string
	// interface type -> type code -> concrete Go type held by the interface
	alts = map[reflect.Type]map[uint32]reflect.Type{}
)

func must(err error) {
	if err != nil {
		panic(err)
	}
}

func add(name string, zero any) {
	t := reflect.TypeOf(zero)
	if name == "Shape" || name == "Wide" {
		t = t.Elem() // (*Iface)(nil) -> Iface
	}
	entries[name] = &entry{name: name, typ: t}
	order = append(order, name)
}

func ts() serix.TypeSettings { return serix.TypeSettings{} }

func lp(t serix.LengthPrefixType) serix.TypeSettings { return ts().WithLengthPrefixType(t) }

func rules(mode serializer.ArrayValidationMode) *serix.ArrayRules {
	return &serix.ArrayRules{ValidationMode: mode}
}

func init() {
	const (
		b8  = serix.LengthPrefixTypeAsByte
		b16 = serix.LengthPrefixTypeAsUint16
		b32 = serix.LengthPrefixTypeAsUint32
	)
	// scalars need no settings
	add("Bool", false)
	add("U8", uint8(0))
	add("U16", uint16(0))
	add("U32", uint32(0))
	add("U64", uint64(0))
	add("I8", int8(0))
	add("I16", int16(0))
	add("I32", int32(0))
	add("I64", int64(0))
	add("F32", float32(0))
	add("F64", float64(0))
	add("Time", time.Time{})
	add("U256", (*big.Int)(nil))

	must(api.RegisterTypeSettings(Str8(""), lp(b8)))
	add("Str8", Str8(""))
	must(api.RegisterTypeSettings(Str16B(""), lp(b16).WithMinLen(1).WithMaxLen(3)))
	add("Str16B", Str16B(""))
	must(api.RegisterTypeSettings(Str32(""), lp(b32)))
	add("Str32", Str32(""))
	must(api.RegisterTypeSettings(Bytes8{}, lp(b8)))
	add("Bytes8", Bytes8{})
	must(api.RegisterTypeSettings(Bytes16B{}, lp(b16).WithMinLen(1).WithMaxLen(2)))
	add("Bytes16B", Bytes16B{})
	must(api.RegisterTypeSettings(Bytes32{}, lp(b32)))
	add("Bytes32", Bytes32{})

	must(api.RegisterTypeSettings(Bytes64{}, lp(serix.LengthPrefixTypeAsUint64)))
	add("Bytes64", Bytes64{})
	must(api.RegisterTypeSettings(SliceU16L64{}, lp(serix.LengthPrefixTypeAsUint64).WithMaxLen(2)))
	add("SliceU16L64", SliceU16L64{})
	add("Str64F", Str64F{})

	add("Arr4", Arr4{})
	must(api.RegisterTypeSettings(Arr2C{}, ts().WithObjectType(uint8(2))))
	add("Arr2C", Arr2C{})
	must(api.RegisterTypeSettings(Arr1W{}, ts().WithObjectType(uint32(1))))
	add("Arr1W", Arr1W{})
	must(api.RegisterTypeSettings(ArrU16{}, lp(b8)))
	add("ArrU16", ArrU16{})
	must(api.RegisterTypeSettings(ArrBool{}, lp(b16)))
	add("ArrBool", ArrBool{})
	must(api.RegisterTypeSettings(ArrPair{}, lp(b8)))
	add("ArrPair", ArrPair{})

	must(api.RegisterTypeSettings(SliceU16B{}, lp(b8).WithMinLen(1).WithMaxLen(3)))
	add("SliceU16B", SliceU16B{})
	must(api.RegisterTypeSettings(SliceBool16{}, lp(b16)))
	add("SliceBool16", SliceBool16{})
	must(api.RegisterTypeSettings(SliceU8L32{}, lp(b32)))
	add("SliceU8L32", SliceU8L32{})
	must(api.RegisterTypeSettings(SetStr{}, lp(b8).WithLexicalOrdering(true).WithArrayRules(
		rules(serializer.ArrayValidationModeLexicalOrdering|serializer.ArrayValidationModeNoDuplicates))))
	add("SetStr", SetStr{})
	must(api.RegisterTypeSettings(SortedU16{}, lp(b8).WithLexicalOrdering(true).WithArrayRules(
		rules(serializer.ArrayValidationModeLexicalOrdering))))
	add("SortedU16", SortedU16{})
	must(api.RegisterTypeSettings(VlexU16{}, lp(b8).WithArrayRules(rules(serializer.ArrayValidationModeLexicalOrdering))))
	add("VlexU16", VlexU16{})
	must(api.RegisterTypeSettings(NoDupBytes{}, lp(b8).WithArrayRules(rules(serializer.ArrayValidationModeNoDuplicates))))
	add("NoDupBytes", NoDupBytes{})
	must(api.RegisterTypeSettings(PtrSlice{}, lp(b8)))
	add("PtrSlice", PtrSlice{})
	must(api.RegisterTypeSettings(Matrix{}, lp(b16)))
	add("Matrix", Matrix{})
	must(api.RegisterTypeSettings(Bigs{}, lp(b8)))
	add("Bigs", Bigs{})
	must(api.RegisterTypeSettings(SortedBigs{}, lp(b8).WithLexicalOrdering(true).WithArrayRules(
		rules(serializer.ArrayValidationModeLexicalOrdering))))
	add("SortedBigs", SortedBigs{})
	must(api.RegisterTypeSettings(MapLexOff{}, lp(b8).WithLexicalOrdering(false)))
	add("MapLexOff", MapLexOff{})
	must(api.RegisterTypeSettings(MapU16U8{}, lp(b8)))
	add("MapU16U8", MapU16U8{})
	must(api.RegisterTypeSettings(Bytes16{}, lp(b16)))
	add("Bytes16", Bytes16{})
	sharedBase := lp(b8).WithArrayRules(&serix.ArrayRules{})
	must(api.RegisterTypeSettings(MapShared{}, sharedBase))
	must(api.RegisterTypeSettings(SliceShared{}, sharedBase))
	add("MapShared", MapShared{})
	add("SliceShared", SliceShared{})
	// (every process of the harness has encoded and decoded a MapShared before it looks at anything else)
	if b, err := api.Encode(ctx, MapShared{2: 1, 1: 2}); err == nil {
		var m MapShared
		_, _ = api.Decode(ctx, b, &m)
	}
	must(api.RegisterTypeSettings(Times{}, lp(b8).WithArrayRules(rules(
		serializer.ArrayValidationModeLexicalOrdering|serializer.ArrayValidationModeNoDuplicates))))
	add("Times", Times{})
	must(api.RegisterTypeSettings(Empties{}, lp(b8)))
	add("Empties", Empties{})

	must(api.RegisterTypeSettings(MapU8Str{}, lp(b8).WithMinLen(1).WithMaxLen(2)))
	add("MapU8Str", MapU8Str{})
	must(api.RegisterTypeSettings(MapStrU16{}, lp(b16)))
	add("MapStrU16", MapStrU16{})
	must(api.RegisterTypeSettings(InnerMap{}, lp(b8)))
	add("InnerMap", InnerMap{})
	must(api.RegisterTypeSettings(MapNested{}, lp(b8)))
	add("MapNested", MapNested{})
	must(api.RegisterTypeSettings(MapArrKey{}, lp(b8)))
	add("MapArrKey", MapArrKey{})
	must(api.RegisterTypeSettings(SetU8{}, lp(b8).WithMaxLen(3)))
	add("SetU8", SetU8{})
	must(api.RegisterTypeSettings(MapPtr{}, lp(b8)))
	add("MapPtr", MapPtr{})

	add("Pair", Pair{})
	add("Nums", Nums{})
	must(api.RegisterTypeSettings(Base{}, ts().WithObjectType(uint8(1))))
	add("Base", Base{})
	must(api.RegisterTypeSettings(Inl{}, ts().WithObjectType(uint8(2))))
	add("Inl", Inl{})
	add("EmbS", EmbS{})
	must(api.RegisterTypeSettings(PtrEmb{}, ts().WithObjectType(uint8(0))))
	add("PtrEmb", PtrEmb{})
	add("OptU8", OptU8{})
	add("OptEmpty", OptEmpty{})
	add("Named", Named{})
	add("Holder", Holder{})
	add("Tagged", Tagged{})

	must(api.RegisterTypeSettings(Dot{}, ts().WithObjectType(uint8(0))))
	add("Dot", Dot{})
	must(api.RegisterTypeSettings(Line{}, ts().WithObjectType(uint8(1))))
	add("Line", Line{})
	must(api.RegisterTypeSettings(Bag{}, ts().WithObjectType(uint8(255))))
	add("Bag", Bag{})
	must(api.RegisterTypeSettings(CustC{}, ts().WithObjectType(uint8(7))))
	must(api.RegisterInterfaceObjects((*Shape)(nil), Dot{}, (*Line)(nil), Arr2C{}, (*Bag)(nil), CustC{}))
	alts[reflect.TypeOf((*Shape)(nil)).Elem()] = map[uint32]reflect.Type{
		0: reflect.TypeOf(Dot{}), 1: reflect.TypeOf((*Line)(nil)), 2: reflect.TypeOf(Arr2C{}),
		255: reflect.TypeOf((*Bag)(nil)), 7: reflect.TypeOf(CustC{}),
	}
	add("Shape", (*Shape)(nil))
	must(api.RegisterTypeSettings(Shapes{}, lp(b8).WithArrayRules(&serix.ArrayRules{
		Max:            3,
		MustOccur:      serializer.TypePrefixes{0: struct{}{}},
		ValidationMode: serializer.ArrayValidationModeAtMostOneOfEachTypeByte,
	})))
	add("Shapes", Shapes{})
	add("EmbI", EmbI{})
	must(api.RegisterTypeSettings(MapShape{}, lp(b8)))
	add("MapShape", MapShape{})
	add("OptShape", OptShape{})

	must(api.RegisterTypeSettings(WA{}, ts().WithObjectType(uint32(1))))
	add("WA", WA{})
	must(api.RegisterTypeSettings(WB{}, ts().WithObjectType(uint32(2))))
	add("WB", WB{})
	must(api.RegisterInterfaceObjects((*Wide)(nil), (*WA)(nil), WB{}))
	alts[reflect.TypeOf((*Wide)(nil)).Elem()] = map[uint32]reflect.Type{
		1: reflect.TypeOf((*WA)(nil)), 2: reflect.TypeOf(WB{}),
	}
	add("Wide", (*Wide)(nil))
	must(api.RegisterTypeSettings(Wides{}, lp(b8).WithArrayRules(rules(
		serializer.ArrayValidationModeAtMostOneOfEachTypeUint32|serializer.ArrayValidationModeLexicalOrdering))))
	add("Wides", Wides{})

	add("Cust", Cust{})
	must(api.RegisterTypeSettings(MapCustKey{}, lp(b8)))
	add("MapCustKey", MapCustKey{})
	add("CustC", CustC{})

	must(api.RegisterTypeSettings(Outer{}, ts().WithObjectType(uint32(9))))
	add("Outer", Outer{})
}
