package wire

// Sub-commands (core.RegisterCommand):
//
//	h w1-names                                        names of the registered catalogue types
//	h w1-table rows.ndjson -cat C -out rep.json       model -> code: compare the real Encode/Decode with every ROW/VROW
//	h w1-record -cat C -seed S -n K -out P -parts N   code -> model: random values + mutated encodings -> P.NN.ndjson
//	h w1-one in.json -cat C                           perform one decode/encode again, print the observation

import (
	"bufio"
	"bytes"
	"encoding/json"
	"flag"
	"fmt"
	"math/rand"
	"os"
	"reflect"
	"runtime"
	"runtime/debug"
	"sort"
	"strings"
	"time"

	"github.com/iotaledger/hive.go/serializer/v2/serix"

	"verifharness/core"
)

func init() {
	core.RegisterCommand("w1-names", func([]string) int {
		for _, n := range order {
			fmt.Println(n)
		}

		return 0
	})
	core.RegisterCommand("w1-table", cmdTable)
	core.RegisterCommand("w1-record", cmdRecord)
	core.RegisterCommand("w1-one", cmdOne)
}

func readFile(p string) ([]byte, error) { return os.ReadFile(p) }

func opts(mode int) []serix.Option {
	if mode == 1 {
		return []serix.Option{serix.WithValidation()}
	}

	return nil
}

// AllocSlack / AllocPerByte: the C02 allocation bound per decode call.
const (
	AllocSlack   = 64 << 10
	AllocPerByte = 16
)

// decObs is what one real Decode call did.
type decObs struct {
	Ok    bool   `json:"ok"`
	V     any    `json:"v,omitempty"`
	N     int    `json:"n"`
	Panic string `json:"panic,omitempty"`
	Err   string `json:"err,omitempty"`
	Alloc uint64 `json:"alloc"`
	val   reflect.Value
}

var hangRow string // what the watchdog reports

func watchdog() {
	go func() {
		last := ""
		since := time.Now()
		for {
			time.Sleep(500 * time.Millisecond)
			cur := hangRow
			if cur != last {
				last, since = cur, time.Now()
				continue
			}
			if cur != "" && time.Since(since) > 20*time.Second {
				fmt.Fprintf(os.Stderr, "HANG %s\n", cur)
				os.Exit(4)
			}
		}
	}()
}

// decodeReal runs serix Decode of b into a fresh value of the entry's type under recover, measuring
// runtime.MemStats.TotalAlloc around the call.
// spareCap returns a private copy of b that is the front part of a larger buffer (a receive buffer cut to what was read):
// len = len(b), 24 more bytes of capacity holding plausible stale content. A decoder must never look behind len.
func spareCap(b []byte) []byte {
	buf := make([]byte, len(b)+24)
	copy(buf, b)
	for i := len(b); i < len(buf); i++ {
		buf[i] = byte(0x41 + (i-len(b))%3) // 'A','B','C': also valid UTF-8, small numbers, non-zero
	}
	return buf[:len(b)]
}

func decodeReal(e *entry, s *Schema, b []byte, mode int) (o decObs) {
	target := reflect.New(e.typ)
	in := spareCap(b)
	var m0, m1 runtime.MemStats
	o.val = target.Elem()
	func() {
		defer func() {
			if p := recover(); p != nil {
				runtime.ReadMemStats(&m1)
				o.Panic = firstLine(fmt.Sprint(p))
			}
		}()
		op := opts(mode)
		obj := target.Interface()
		runtime.ReadMemStats(&m0)
		n, err := api.Decode(ctx, in, obj, op...)
		runtime.ReadMemStats(&m1)
		o.N = n
		if err != nil {
			o.Err = firstLine(err.Error())
		} else {
			o.Ok = true
		}
	}()
	o.Alloc = m1.TotalAlloc - m0.TotalAlloc
	if o.Panic != "" {
		o.Ok = false
	}
	if o.Ok {
		func() {
			defer func() {
				if p := recover(); p != nil {
					o.V = map[string]any{"unprojectable": firstLine(fmt.Sprint(p))}
				}
			}()
			o.V = fromGo(s, target.Elem())
		}()
	}

	return o
}

type encObs struct {
	Ok    bool   `json:"ok"`
	B     []byte `json:"-"`
	Panic string `json:"panic,omitempty"`
	Err   string `json:"err,omitempty"`
}

// encodeReal: serix Encode of the value (structs are passed by pointer when ptr is set) under recover.
func encodeReal(v reflect.Value, mode int, ptr bool) (o encObs) {
	defer func() {
		if p := recover(); p != nil {
			o = encObs{Panic: firstLine(fmt.Sprint(p))}
		}
	}()
	var obj any
	if ptr && v.Kind() == reflect.Struct && v.Type() != timeType {
		p := reflect.New(v.Type())
		p.Elem().Set(v)
		obj = p.Interface()
	} else {
		obj = v.Interface()
	}
	b, err := api.Encode(ctx, obj, opts(mode)...)
	if err != nil {
		return encObs{Err: firstLine(err.Error())}
	}

	return encObs{Ok: true, B: append([]byte(nil), b...)}
}

func firstLine(s string) string {
	if i := strings.IndexByte(s, '\n'); i >= 0 {
		s = s[:i]
	}
	if len(s) > 300 {
		s = s[:300]
	}

	return s
}

// ---------------------------------------------------------------- model -> code

type mres struct {
	Ok bool            `json:"ok"`
	V  json.RawMessage `json:"v"`
	N  int             `json:"n"`
	B  []int           `json:"b"`
}

type row struct {
	S   string          `json:"s"`
	B   *[]int          `json:"b"`
	V   json.RawMessage `json:"v"`
	R0  mres            `json:"r0"`
	R1  mres            `json:"r1"`
	E0  mres            `json:"e0"`
	E1  mres            `json:"e1"`
	C   json.RawMessage `json:"c"`
	Oos bool            `json:"oos"`
}

type mismatch struct {
	Sig    string          `json:"sig"`
	WantOk bool            `json:"wantok"`
	Row    json.RawMessage `json:"row,omitempty"`
	What  string `json:"what"`
	S     string `json:"s"`
	Mode  int    `json:"mode"`
	B     []int  `json:"b,omitempty"`
	V     any    `json:"v,omitempty"`
	Want  any    `json:"want"`
	Got   any    `json:"got"`
	Count int    `json:"count"`
}

type report struct {
	Rows        int            `json:"rows"`
	VRows       int            `json:"vrows"`
	Decodes     int            `json:"decodes"`
	Encodes     int            `json:"encodes"`
	Accepted    [2]int         `json:"accepted"`
	Reencoded   int            `json:"reencoded"`
	Skipped     int            `json:"skipped"`
	Untypable   int            `json:"untypable"`
	MaxAlloc    uint64         `json:"max_alloc"`
	PerSchema   map[string]int `json:"per_schema"`
	Mismatches  []*mismatch    `json:"mismatches"`
	MismatchCnt int            `json:"mismatch_count"`
	bySig       map[string]*mismatch
	allocBad    map[string]int
	curRow      []byte
}

// bad records a disagreement; wantOk: the model accepts the input (a valid encoding / an encodable value).
func (r *report) bad(sig, what, s string, mode int, b []int, v any, want, got any, wantOk bool) {
	r.MismatchCnt++
	key := fmt.Sprintf("%s|%t", sig, wantOk)
	if m, ok := r.bySig[key]; ok {
		m.Count++
		return
	}
	m := &mismatch{Sig: sig, WantOk: wantOk, Row: append(json.RawMessage(nil), r.curRow...), What: what, S: s, Mode: mode, B: b, V: v, Want: want, Got: got, Count: 1}
	r.bySig[key] = m
	r.Mismatches = append(r.Mismatches, m)
}

func ints(b []byte) []int {
	r := make([]int, len(b))
	for i, x := range b {
		r[i] = int(x)
	}

	return r
}

func toBytes(xs []int) []byte {
	b := make([]byte, len(xs))
	for i, x := range xs {
		b[i] = byte(x)
	}

	return b
}

func raw(m json.RawMessage) any {
	if len(m) == 0 {
		return nil
	}
	var x any
	if err := json.Unmarshal(m, &x); err != nil {
		panic(err)
	}

	return x
}

func modeName(m int) string {
	if m == 1 {
		return "validation"
	}

	return "no-validation"
}

// checkDecode compares one real decode with the model's results (want = result for this mode, wantV = the
// validating decoder's result: in no-validation mode the real decoder may already enforce a validation rule).
func (r *report) checkDecode(e *entry, s *Schema, b []byte, mode int, want, wantV mres, oos bool) decObs {
	o := decodeReal(e, s, b, mode)
	r.Decodes++
	if o.Alloc > r.MaxAlloc {
		r.MaxAlloc = o.Alloc
	}
	pre := "serix:decode:" + s.K + ":"
	call := fmt.Sprintf("Decode(%v) into %s [%s, schema kind %s]", b, e.typ, modeName(mode), s.K)
	wantJ := map[string]any{"ok": want.Ok}
	if want.Ok {
		wantJ["v"], wantJ["n"] = raw(want.V), want.N
	}
	switch {
	case o.Panic != "":
		r.bad(pre+"panic", call+" panicked: "+o.Panic, e.name, mode, ints(b), nil, wantJ, o, want.Ok)
		return o
	case o.Ok && o.N > len(b):
		r.bad(pre+"over-consumed", fmt.Sprintf("%s reported %d bytes consumed of %d supplied", call, o.N, len(b)), e.name, mode, ints(b), nil, wantJ, o, want.Ok)
	}
	if o.Alloc > AllocSlack+AllocPerByte*uint64(len(b)) {
		r.allocBad[e.name]++
		r.bad(pre+"alloc", fmt.Sprintf("%s allocated %d bytes for %d input bytes (bound %d)", call, o.Alloc, len(b), AllocSlack+AllocPerByte*len(b)), e.name, mode, ints(b), nil, wantJ, o, want.Ok)
	}
	switch {
	case o.Ok && !want.Ok:
		r.bad(pre+"accepts-invalid", call+" accepted bytes the wire format rejects; value "+canon(o.V), e.name, mode, ints(b), nil, wantJ, o, want.Ok)
	case !o.Ok && want.Ok && !(mode == 0 && !wantV.Ok):
		r.bad(pre+"rejects-valid", call+" failed ("+o.Err+") on a valid encoding of "+string(want.V), e.name, mode, ints(b), nil, wantJ, o, want.Ok)
	case o.Ok && want.Ok:
		r.Accepted[mode]++
		if o.N != want.N {
			r.bad(pre+"wrong-length", fmt.Sprintf("%s consumed %d bytes, the encoding has %d", call, o.N, want.N), e.name, mode, ints(b), nil, wantJ, o, want.Ok)
		} else if !oos && !sameTree(s, o.V, raw(want.V)) {
			r.bad(pre+"wrong-value", call+" gave "+canon(o.V)+", the bytes encode "+string(want.V), e.name, mode, ints(b), nil, wantJ, o, want.Ok)
		}
	}
	// C03 reverse, on the real code alone: accepted with validation => re-encodes to the consumed prefix
	if mode == 1 && o.Ok && !oos && o.N <= len(b) {
		re := encodeReal(o.val, 1, true)
		r.Reencoded++
		if !re.Ok || !bytes.Equal(re.B, b[:o.N]) {
			r.bad(pre+"noncanonical-accepted", fmt.Sprintf("%s accepted %v, but re-encoding the result with validation gives %v %s%s",
				call, b[:o.N], re.B, re.Err, re.Panic), e.name, mode, ints(b), nil, map[string]any{"b": ints(b[:o.N])}, map[string]any{"ok": re.Ok, "b": ints(re.B), "err": re.Err}, want.Ok)
		}
	}

	return o
}

// checkEncode compares real Encode of the Go value with the model's bytes.
func (r *report) checkEncode(e *entry, s *Schema, gv reflect.Value, tree any, mode int, want, wantV mres, ptr bool) encObs {
	o := encodeReal(gv, mode, ptr)
	r.Encodes++
	pre := "serix:encode:" + s.K + ":"
	call := fmt.Sprintf("Encode(%s %s) [%s]", e.typ, canon(tree), modeName(mode))
	wantJ := map[string]any{"ok": want.Ok, "b": want.B}
	got := map[string]any{"ok": o.Ok, "b": ints(o.B), "err": o.Err, "panic": o.Panic}
	switch {
	case o.Panic != "":
		r.bad(pre+"panic", call+" panicked: "+o.Panic, e.name, mode, nil, tree, wantJ, got, want.Ok)
	case o.Ok && !want.Ok:
		r.bad(pre+"accepts-invalid", fmt.Sprintf("%s produced %v for a value the format cannot express / the rules forbid", call, o.B), e.name, mode, nil, tree, wantJ, got, want.Ok)
	case !o.Ok && want.Ok && !(mode == 0 && !wantV.Ok):
		r.bad(pre+"rejects-valid", call+" failed: "+o.Err, e.name, mode, nil, tree, wantJ, got, want.Ok)
	case o.Ok && want.Ok && !bytes.Equal(o.B, toBytes(want.B)):
		r.bad(pre+"wrong-bytes", fmt.Sprintf("%s = %v, the documented layout is %v", call, o.B, want.B), e.name, mode, nil, tree, wantJ, got, want.Ok)
	}

	return o
}

func cmdTable(args []string) int {
	if len(args) < 1 {
		fmt.Fprintln(os.Stderr, "usage: w1-table rows.ndjson -cat catalogue.full.json -out report.json")
		return 2
	}
	fs := flag.NewFlagSet("w1-table", flag.ExitOnError)
	catPath := fs.String("cat", "", "")
	out := fs.String("out", "", "")
	_ = fs.Parse(args[1:])
	cat, _, err := loadCatalogue(*catPath)
	if err != nil {
		fmt.Fprintln(os.Stderr, err)
		return 2
	}
	f, err := os.Open(args[0])
	if err != nil {
		fmt.Fprintln(os.Stderr, err)
		return 2
	}
	defer f.Close()
	debug.SetGCPercent(400)
	watchdog()
	rep := &report{PerSchema: map[string]int{}, bySig: map[string]*mismatch{}, allocBad: map[string]int{}}
	sc := bufio.NewScanner(f)
	sc.Buffer(make([]byte, 1<<20), 1<<26)
	rng := rand.New(rand.NewSource(1))
	for sc.Scan() {
		line := sc.Bytes()
		if len(bytes.TrimSpace(line)) == 0 {
			continue
		}
		var rw row
		if err := json.Unmarshal(line, &rw); err != nil {
			fmt.Fprintln(os.Stderr, "bad row:", err, string(line[:min(len(line), 200)]))
			return 2
		}
		e, s := entries[rw.S], cat[rw.S]
		if e == nil || s == nil {
			fmt.Fprintln(os.Stderr, "unknown schema", rw.S)
			return 2
		}
		rep.PerSchema[rw.S]++
		rep.curRow = line
		hangRow = string(line[:min(len(line), 400)])
		if rw.B != nil {
			rep.Rows++
			// after repeated huge allocations on one type, stop hammering it (a violation is on record)
			if rep.allocBad[rw.S] >= 6 {
				rep.Skipped++
				continue
			}
			b := toBytes(*rw.B)
			rep.checkDecode(e, s, b, 0, rw.R0, rw.R1, rw.Oos)
			rep.checkDecode(e, s, b, 1, rw.R1, rw.R1, rw.Oos)
			if rw.R0.Ok && !rw.Oos {
				tree := raw(rw.R0.V)
				gv, err := toGo(s, tree, e.typ)
				if err != nil {
					fmt.Fprintf(os.Stderr, "cannot build %s from %s: %v\n", rw.S, rw.R0.V, err)
					return 2
				}
				rep.checkEncode(e, s, gv, tree, 0, rw.E0, rw.E1, true)
				rep.checkEncode(e, s, gv, tree, 1, rw.E1, rw.E1, false)
			}
			continue
		}
		rep.VRows++
		tree := raw(rw.V)
		gv, err := toGo(s, tree, e.typ)
		if err != nil {
			if _, ok := err.(errUntypable); ok && !rw.E0.Ok {
				rep.Untypable++
				continue
			}
			fmt.Fprintf(os.Stderr, "cannot build %s from %s: %v\n", rw.S, rw.V, err)
			return 2
		}
		for mode := 0; mode <= 1; mode++ {
			want := rw.E0
			if mode == 1 {
				want = rw.E1
			}
			o := rep.checkEncode(e, s, gv, tree, mode, want, rw.E1, true)
			o2 := encodeReal(gv, mode, false)
			if o.Ok != o2.Ok || !bytes.Equal(o.B, o2.B) {
				rep.bad("serix:encode:"+s.K+":pointer-vs-value", fmt.Sprintf("Encode(%s %s) gives %v through a pointer and %v by value", e.typ, rw.V, o.B, o2.B),
					e.name, mode, nil, tree, nil, nil, true)
			}
			if !o.Ok || !want.Ok {
				continue
			}
			// C01: twice-encode equality, the second time from a value rebuilt with shuffled map insertion order
			for k := 0; k < 3; k++ {
				gv2, err := toGo(s, shuffle(s, tree, rng), e.typ)
				if err != nil {
					fmt.Fprintln(os.Stderr, "shuffle:", err)
					return 2
				}
				o3 := encodeReal(gv2, mode, true)
				if !o3.Ok || !bytes.Equal(o3.B, o.B) {
					rep.bad("serix:encode:"+s.K+":order-dependent", fmt.Sprintf("Encode(%s %s) gave %v, and %v for the same value built in another insertion order", e.typ, rw.V, o.B, o3.B),
						e.name, mode, nil, tree, ints(o.B), ints(o3.B), true)
				}
			}
			// C01: decode of the real bytes gives the canonical value and consumes everything
			wantDec := mres{Ok: true, V: rw.C, N: len(o.B)}
			rep.checkDecode(e, s, o.B, mode, wantDec, wantDec, false)
			// ... and ignores whatever follows
			tail := append(append([]byte(nil), o.B...), 0xff, 0x00, 0x01)
			rep.checkDecode(e, s, tail, mode, wantDec, wantDec, false)
		}
	}
	if err := sc.Err(); err != nil {
		fmt.Fprintln(os.Stderr, err)
		return 2
	}
	hangRow = ""
	sort.Slice(rep.Mismatches, func(i, j int) bool { return rep.Mismatches[i].Sig < rep.Mismatches[j].Sig })
	core.WriteJSON(*out, rep)

	return 0
}

// shuffle: the same value with the pairs of every map (and the elements of every encoder-sorted slice) permuted.
func shuffle(s *Schema, tree any, rng *rand.Rand) any {
	switch s.K {
	case "slice", "arr":
		xs := tree.([]any)
		r := make([]any, len(xs))
		for i, x := range xs {
			r[i] = shuffle(s.E, x, rng)
		}
		if s.Sort {
			rng.Shuffle(len(r), func(i, j int) { r[i], r[j] = r[j], r[i] })
		}

		return r
	case "map":
		xs := tree.([]any)
		r := make([]any, len(xs))
		for i, x := range xs {
			kv := x.([]any)
			r[i] = []any{shuffle(s.Key, kv[0], rng), shuffle(s.Val, kv[1], rng)}
		}
		rng.Shuffle(len(r), func(i, j int) { r[i], r[j] = r[j], r[i] })

		return r
	case "struct":
		xs := tree.([]any)
		r := make([]any, len(xs))
		for i, x := range xs {
			r[i] = shuffle(s.F[i], x, rng)
		}

		return r
	case "opt", "eptr":
		o := tree.(map[string]any)
		if some, _ := o["some"].(bool); some {
			return map[string]any{"some": true, "v": shuffle(s.T, o["v"], rng)}
		}
	case "iface":
		o := tree.(map[string]any)
		c := uint32(toInt(o["c"]))
		for _, a := range s.Alts {
			if a.C == c {
				return map[string]any{"c": int(c), "v": shuffle(a.T, o["v"], rng)}
			}
		}
	}

	return tree
}

// ---------------------------------------------------------------- one call again (replay)

// cmdOne performs the call of a recorded observation again ({"k":"enc","s","m","v"} or {"k":"dec","s","m","b"})
// and writes the fresh record to -out (NDJSON, one line) for TLC to judge.
func cmdOne(args []string) int {
	if len(args) < 1 {
		return 2
	}
	fs := flag.NewFlagSet("w1-one", flag.ExitOnError)
	catPath := fs.String("cat", "", "")
	out := fs.String("out", "", "")
	_ = fs.Parse(args[1:])
	cat, _, err := loadCatalogue(*catPath)
	if err != nil {
		fmt.Fprintln(os.Stderr, err)
		return 2
	}
	rawIn, err := os.ReadFile(args[0])
	if err != nil {
		fmt.Fprintln(os.Stderr, err)
		return 2
	}
	var in struct {
		K string          `json:"k"`
		S string          `json:"s"`
		M int             `json:"m"`
		B []int           `json:"b"`
		V json.RawMessage `json:"v"`
	}
	if err := json.Unmarshal(rawIn, &in); err != nil {
		fmt.Fprintln(os.Stderr, err)
		return 2
	}
	e, s := entries[in.S], cat[in.S]
	if e == nil || s == nil {
		fmt.Fprintln(os.Stderr, "unknown schema", in.S)
		return 2
	}
	var rec map[string]any
	if in.K == "dec" {
		rec = decRecord(e, s, toBytes(in.B), in.M, "replay")
	} else {
		rec, _, err = encRecord(e, s, raw(in.V), in.M, true, rand.New(rand.NewSource(1)))
		if err != nil {
			fmt.Fprintln(os.Stderr, err)
			return 2
		}
	}
	b, _ := json.Marshal(rec)
	if *out == "" {
		fmt.Println(string(b))
		return 0
	}
	if err := os.WriteFile(*out, append(b, '\n'), 0o644); err != nil {
		fmt.Fprintln(os.Stderr, err)
		return 2
	}

	return 0
}
