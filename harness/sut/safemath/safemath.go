// Package safemath binds hive.go/core/safemath (property C19) to the TLA+ module SafeMath.
//
// The functions are pure, so the sequential cfg/ev/Do convention does not apply; the package only
// registers sub-commands (core.RegisterCommand):
//
//	h sm-enum8   -out P -parts N              every int8/uint8 call (all pairs, all shifts) -> P.NN.ndjson
//	h sm-lat16   -out P -parts N -radius R    16-bit boundary lattice, all pairs             -> P.NN.ndjson
//	h sm-wide    -out P -parts N -seed S -n K 32/64-bit + 64-bit-only functions, boundary biased, limb encoded
//	h sm-table   rows.ndjson -out rep.json    compare the real functions with TLC's expectation table
//	h sm-one     in.json -out rec.ndjson      perform the call described by in.json, write its record
//
// One record per call: {"op","t","a","b",("c"),"ok","r","err"}; narrow types carry integers, wide
// types sign + little-endian base-2^15 limbs {"n":neg,"m":[..]} (TLC integers are 32 bit).
package safemath

import (
	"bufio"
	"encoding/json"
	"errors"
	"flag"
	"fmt"
	"math"
	"math/bits"
	"math/rand"
	"os"
	"sort"

	sm "github.com/iotaledger/hive.go/core/safemath"

	"verifharness/core"
)

func init() {
	core.RegisterCommand("sm-enum8", cmdEnum8)
	core.RegisterCommand("sm-lat16", cmdLat16)
	core.RegisterCommand("sm-wide", cmdWide)
	core.RegisterCommand("sm-table", cmdTable)
	core.RegisterCommand("sm-one", cmdOne)
}

var genericOps = []string{"Add", "Sub", "Mul", "Div"}

func errClass(err error) string {
	switch {
	case err == nil:
		return ""
	case errors.Is(err, sm.ErrIntegerOverflow):
		return "overflow"
	case errors.Is(err, sm.ErrIntegerDivisionByZero):
		return "divzero"
	}
	return "other"
}

// call performs one generic safemath call on the real code; a panic becomes error class "panic".
func call[T sm.Integer](op string, a, b T, s uint8) (r T, ec string) {
	defer func() {
		if p := recover(); p != nil {
			r, ec = 0, "panic"
		}
	}()
	var err error
	switch op {
	case "Add":
		r, err = sm.SafeAdd(a, b)
	case "Sub":
		r, err = sm.SafeSub(a, b)
	case "Mul":
		r, err = sm.SafeMul(a, b)
	case "Div":
		r, err = sm.SafeDiv(a, b)
	case "Shl":
		r, err = sm.SafeLeftShift(a, s)
	default:
		panic("op " + op)
	}
	return r, errClass(err)
}

// ---------------------------------------------------------------- output

type sink struct {
	files []*os.File
	w     []*bufio.Writer
	n     int
}

func newSink(prefix string, parts int) *sink {
	s := &sink{}
	for i := 0; i < parts; i++ {
		f, err := os.Create(fmt.Sprintf("%s.%02d.ndjson", prefix, i))
		if err != nil {
			fmt.Fprintln(os.Stderr, err)
			os.Exit(2)
		}
		s.files = append(s.files, f)
		s.w = append(s.w, bufio.NewWriterSize(f, 1<<20))
	}
	return s
}

func (s *sink) next() *bufio.Writer { w := s.w[s.n%len(s.w)]; s.n++; return w }

func (s *sink) close() {
	for i := range s.w {
		s.w[i].Flush()
		s.files[i].Close()
	}
}

func narrowRec[T sm.Integer](s *sink, op, t string, a, b T, sh uint8) {
	r, ec := call(op, a, b, sh)
	bv := int64(b)
	if op == "Shl" {
		bv = int64(sh)
	}
	fmt.Fprintf(s.next(), "{\"op\":%q,\"t\":%q,\"a\":%d,\"b\":%d,\"ok\":%t,\"r\":%d,\"err\":%q}\n",
		op, t, int64(a), bv, ec == "", int64(r), ec)
}

// all pairs of vals for the four binary functions, all (val, shift 0..255) for SafeLeftShift
func narrowAll[T sm.Integer](s *sink, t string, vals []T) {
	for _, op := range genericOps {
		for _, a := range vals {
			for _, b := range vals {
				narrowRec(s, op, t, a, b, 0)
			}
		}
	}
	for _, a := range vals {
		for sh := 0; sh < 256; sh++ {
			narrowRec(s, "Shl", t, a, 0, uint8(sh))
		}
	}
}

func cmdEnum8(args []string) int {
	fs := flag.NewFlagSet("sm-enum8", flag.ExitOnError)
	out := fs.String("out", "enum8", "")
	parts := fs.Int("parts", 1, "")
	_ = fs.Parse(args)
	s := newSink(*out, *parts)
	var i8 []int8
	var u8 []uint8
	for v := -128; v <= 127; v++ {
		i8 = append(i8, int8(v))
	}
	for v := 0; v <= 255; v++ {
		u8 = append(u8, uint8(v))
	}
	narrowAll(s, "int8", i8)
	narrowAll(s, "uint8", u8)
	s.close()
	fmt.Printf("{\"records\": %d}\n", s.n)
	return 0
}

// lattice returns the values of [min,max] within radius of 0, min, max and +-2^j.
func lattice(min, max int64, radius int64) []int64 {
	set := map[int64]bool{}
	add := func(p int64) {
		for d := -radius; d <= radius; d++ {
			if v := p + d; v >= min && v <= max {
				set[v] = true
			}
		}
	}
	add(0)
	add(min)
	add(max)
	for j := 0; j < 17; j++ {
		add(int64(1) << j)
		add(-(int64(1) << j))
	}
	var r []int64
	for v := range set {
		r = append(r, v)
	}
	sort.Slice(r, func(i, j int) bool { return r[i] < r[j] })
	return r
}

func cmdLat16(args []string) int {
	fs := flag.NewFlagSet("sm-lat16", flag.ExitOnError)
	out := fs.String("out", "lat16", "")
	parts := fs.Int("parts", 1, "")
	radius := fs.Int64("radius", 1, "")
	vals := fs.String("vals", "", "also write the lattice values (JSON {type: [..]}) to this file")
	_ = fs.Parse(args)
	s := newSink(*out, *parts)
	li := lattice(math.MinInt16, math.MaxInt16, *radius)
	lu := lattice(0, math.MaxUint16, *radius)
	var i16 []int16
	var u16 []uint16
	for _, v := range li {
		i16 = append(i16, int16(v))
	}
	for _, v := range lu {
		u16 = append(u16, uint16(v))
	}
	narrowAll(s, "int16", i16)
	narrowAll(s, "uint16", u16)
	s.close()
	if *vals != "" {
		core.WriteJSON(*vals, map[string]any{"int16": li, "uint16": lu})
	}
	fmt.Printf("{\"records\": %d, \"int16\": %d, \"uint16\": %d}\n", s.n, len(li), len(lu))
	return 0
}

// ---------------------------------------------------------------- wide values as limbs

type wval struct {
	N bool  `json:"n"`
	M []int `json:"m"`
}

func limbs(mag uint64) []int {
	m := []int{}
	for mag != 0 {
		m = append(m, int(mag&0x7fff))
		mag >>= 15
	}
	return m
}

func toW[T sm.Integer](x T) wval {
	if x < 0 {
		return wval{true, limbs(-uint64(int64(x)))} // two's complement magnitude (exact for MinInt64 too)
	}
	return wval{false, limbs(uint64(x))}
}

// fromW rebuilds the 64-bit pattern of a limb value (inverse of toW for every value of a 64-bit type).
func fromW(v wval) uint64 {
	var mag uint64
	for i := len(v.M) - 1; i >= 0; i-- {
		mag = mag<<15 | uint64(v.M[i])
	}
	if v.N {
		return -mag
	}
	return mag
}

type wrec struct {
	Op  string `json:"op"`
	T   string `json:"t"`
	A   wval   `json:"a"`
	B   any    `json:"b"`
	C   *wval  `json:"c,omitempty"`
	Ok  bool   `json:"ok"`
	R   wval   `json:"r"`
	Err string `json:"err"`
}

func emit(s *sink, r wrec) {
	b, err := json.Marshal(r)
	if err != nil {
		panic(err)
	}
	w := s.next()
	w.Write(b)
	w.WriteByte('\n')
}

func wideRec[T sm.Integer](s *sink, op, t string, a, b T, sh uint8) {
	r, ec := call(op, a, b, sh)
	rec := wrec{Op: op, T: t, A: toW(a), B: toW(b), Ok: ec == "", R: toW(r), Err: ec}
	if op == "Shl" {
		rec.B = int(sh)
	}
	emit(s, rec)
}

// guard runs one 64-bit-only call; a panic becomes error class "panic".
func guard[T sm.Integer](f func() (T, error)) (r T, ec string) {
	defer func() {
		if p := recover(); p != nil {
			r, ec = 0, "panic"
		}
	}()
	r, err := f()
	return r, errClass(err)
}

func mulU64(s *sink, a, b uint64) {
	r, ec := guard(func() (uint64, error) { return sm.SafeMulUint64(a, b) })
	emit(s, wrec{Op: "MulUint64", T: "uint64", A: toW(a), B: toW(b), Ok: ec == "", R: toW(r), Err: ec})
}

func mulI64(s *sink, a, b int64) {
	r, ec := guard(func() (int64, error) { return sm.SafeMulInt64(a, b) })
	emit(s, wrec{Op: "MulInt64", T: "int64", A: toW(a), B: toW(b), Ok: ec == "", R: toW(r), Err: ec})
}

func mulDiv64(s *sink, a, b, c uint64) {
	r, ec := guard(func() (uint64, error) { return sm.Safe64MulDiv(a, b, c) })
	cw := toW(c)
	emit(s, wrec{Op: "MulDiv64", T: "uint64", A: toW(a), B: toW(b), C: &cw, Ok: ec == "", R: toW(r), Err: ec})
}

// ---------------------------------------------------------------- boundary-biased operands

// pick returns a boundary-biased bit pattern for a type of w bits.
func pick(r *rand.Rand, w uint, signed bool) uint64 {
	mask := uint64(math.MaxUint64) >> (64 - w)
	d := uint64(r.Intn(5)) - 2 // -2..2 (mod 2^64)
	var v uint64
	switch r.Intn(10) {
	case 0: // around 0 (incl. small negatives)
		v = d
	case 1: // around the top of the unsigned range / -1
		v = mask + d
	case 2: // around the sign boundary (max signed / min signed)
		v = uint64(1)<<(w-1) + d
	case 3, 4: // around +-2^j
		v = uint64(1)<<uint(r.Intn(int(w))) + d
		if signed && r.Intn(2) == 0 {
			v = -v
		}
	case 5: // around the square root of the range (products on the edge)
		v = uint64(1)<<(w/2) + uint64(r.Intn(9)) - 4
		if r.Intn(3) == 0 {
			v = uint64(math.Sqrt(float64(mask>>1))) + uint64(r.Intn(9)) - 4
		}
		if signed && r.Intn(2) == 0 {
			v = -v
		}
	case 6: // random half width
		v = r.Uint64() & (mask >> (w / 2))
		if signed && r.Intn(2) == 0 {
			v = -v
		}
	case 7: // random of a random bit length
		v = r.Uint64() & (mask >> uint(r.Intn(int(w))))
		if signed && r.Intn(2) == 0 {
			v = -v
		}
	default: // uniformly random
		v = r.Uint64()
	}
	return v & mask
}

// partner returns a second factor that puts a*b next to the boundary of the type.
func partner(r *rand.Rand, a uint64, w uint, signed bool) uint64 {
	mask := uint64(math.MaxUint64) >> (64 - w)
	if !signed {
		if a == 0 {
			return pick(r, w, signed)
		}
		return (mask/a + uint64(r.Intn(3)) - 1) & mask
	}
	sa := int64(a<<(64-w)) >> (64 - w) // sign extend
	if sa == 0 || sa == -1 {
		return pick(r, w, signed)
	}
	lim := int64(mask >> 1) // max
	neg := r.Intn(2) == 0
	var q int64
	if neg == (sa < 0) { // product positive: bound max
		q = lim / sa
	} else { // product negative: bound min
		q = (-lim - 1) / sa
	}
	q += int64(r.Intn(3)) - 1
	return uint64(q) & mask
}

func wideGeneric[T sm.Integer](s *sink, r *rand.Rand, t string, w uint, signed bool) {
	a := T(pick(r, w, signed))
	b := T(pick(r, w, signed))
	switch k := r.Intn(12); {
	case k < 2:
		wideRec(s, "Add", t, a, b, 0)
	case k < 4:
		wideRec(s, "Sub", t, a, b, 0)
	case k < 6:
		wideRec(s, "Mul", t, a, b, 0)
	case k < 7:
		wideRec(s, "Mul", t, a, T(partner(r, uint64(a), w, signed)), 0)
	case k < 9:
		if r.Intn(8) == 0 {
			b = 0
		}
		wideRec(s, "Div", t, a, b, 0)
	default:
		sh := uint8(r.Intn(256))
		if r.Intn(3) != 0 { // shifts that put the top bit of |a| next to the top of the type
			mag := uint64(a)
			if a < 0 {
				mag = -uint64(int64(a))
			}
			sh = uint8(int(w) - bits.Len64(mag) + r.Intn(4) - 2)
		}
		wideRec(s, "Shl", t, a, 0, sh)
	}
}

// deterministic part: all pairs of a small anchor set per wide type
func anchors(w uint, signed bool) []uint64 {
	mask := uint64(math.MaxUint64) >> (64 - w)
	set := map[uint64]bool{}
	for _, p := range []uint64{0, mask, uint64(1) << (w - 1), uint64(1) << (w / 2), uint64(1) << (w/2 - 1), uint64(1) << (w - 2)} {
		for d := uint64(0); d < 3; d++ {
			set[(p+d-1)&mask] = true
			if signed {
				set[(-(p + d - 1))&mask] = true
			}
		}
	}
	var r []uint64
	for v := range set {
		r = append(r, v)
	}
	sort.Slice(r, func(i, j int) bool { return r[i] < r[j] })
	return r
}

func wideAnchors[T sm.Integer](s *sink, t string, w uint, signed bool) {
	an := anchors(w, signed)
	for _, op := range genericOps {
		for _, a := range an {
			for _, b := range an {
				wideRec(s, op, t, T(a), T(b), 0)
			}
		}
	}
	for _, a := range an {
		for _, sh := range []int{0, 1, 2, int(w)/2 - 1, int(w) / 2, int(w) - 2, int(w) - 1, int(w), int(w) + 1, 63, 64, 65, 128, 255} {
			wideRec(s, "Shl", t, T(a), 0, uint8(sh))
		}
	}
}

func cmdWide(args []string) int {
	fs := flag.NewFlagSet("sm-wide", flag.ExitOnError)
	out := fs.String("out", "wide", "")
	parts := fs.Int("parts", 1, "")
	seed := fs.Int64("seed", 1, "")
	n := fs.Int("n", 1000, "random records (on top of the deterministic anchor pairs)")
	_ = fs.Parse(args)
	s := newSink(*out, *parts)
	r := rand.New(rand.NewSource(*seed))

	wideAnchors[int32](s, "int32", 32, true)
	wideAnchors[uint32](s, "uint32", 32, false)
	wideAnchors[int64](s, "int64", 64, true)
	wideAnchors[uint64](s, "uint64", 64, false)
	for _, a := range anchors(64, false) {
		for _, b := range anchors(64, false) {
			mulU64(s, a, b)
			for _, c := range []uint64{0, 1, 2, a, b, a + 1, b - 1, math.MaxUint64} {
				mulDiv64(s, a, b, c)
			}
			hi, _ := bits.Mul64(a, b)
			mulDiv64(s, a, b, hi)
			mulDiv64(s, a, b, hi+1)
			mulDiv64(s, a, b, hi-1)
		}
	}
	for _, a := range anchors(64, true) {
		for _, b := range anchors(64, true) {
			mulI64(s, int64(a), int64(b))
		}
	}

	for i := 0; i < *n; i++ {
		switch k := r.Intn(16); {
		case k < 2:
			wideGeneric[int32](s, r, "int32", 32, true)
		case k < 4:
			wideGeneric[uint32](s, r, "uint32", 32, false)
		case k < 6:
			wideGeneric[int64](s, r, "int64", 64, true)
		case k < 8:
			wideGeneric[uint64](s, r, "uint64", 64, false)
		case k < 10:
			a := pick(r, 64, false)
			b := pick(r, 64, false)
			if r.Intn(2) == 0 {
				b = partner(r, a, 64, false)
			}
			mulU64(s, a, b)
		case k < 12:
			a := pick(r, 64, true)
			b := pick(r, 64, true)
			if r.Intn(2) == 0 {
				b = partner(r, a, 64, true)
			}
			mulI64(s, int64(a), int64(b))
		default:
			a := pick(r, 64, false)
			b := pick(r, 64, false)
			hi, _ := bits.Mul64(a, b)
			var c uint64
			switch r.Intn(8) {
			case 0:
				c = 0
			case 1:
				c = hi // first divisor that overflows
			case 2:
				c = hi + 1 // last divisor that does not
			case 3:
				c = hi - 1
			case 4:
				c = hi + uint64(r.Intn(5))
			case 5:
				c = a
			default:
				c = pick(r, 64, false)
			}
			mulDiv64(s, a, b, c)
		}
	}
	s.close()
	fmt.Printf("{\"records\": %d}\n", s.n)
	return 0
}

// ---------------------------------------------------------------- model -> code: expectation table

type row struct {
	Op string   `json:"op"`
	T  string   `json:"t"`
	A  int64    `json:"a"`
	B  []int64  `json:"b"`
	R  []int64  `json:"r"`
	E  []string `json:"e"`
}

type outcome struct {
	Ok  bool   `json:"ok"`
	R   int64  `json:"r"`
	Err string `json:"err"`
}

type mismatch struct {
	Op   string  `json:"op"`
	T    string  `json:"t"`
	A    int64   `json:"a"`
	B    int64   `json:"b"`
	Want outcome `json:"want"`
	Got  outcome `json:"got"`
}

func callNarrow(op, t string, a, b int64) (int64, string) {
	sh := uint8(0)
	if op == "Shl" {
		sh, b = uint8(b), 0
	}
	switch t {
	case "int8":
		r, ec := call(op, int8(a), int8(b), sh)
		return int64(r), ec
	case "uint8":
		r, ec := call(op, uint8(a), uint8(b), sh)
		return int64(r), ec
	case "int16":
		r, ec := call(op, int16(a), int16(b), sh)
		return int64(r), ec
	case "uint16":
		r, ec := call(op, uint16(a), uint16(b), sh)
		return int64(r), ec
	}
	panic("type " + t)
}

func cmdTable(args []string) int {
	fs := flag.NewFlagSet("sm-table", flag.ExitOnError)
	out := fs.String("out", "", "")
	_ = fs.Parse(args[1:])
	f, err := os.Open(args[0])
	if err != nil {
		fmt.Fprintln(os.Stderr, err)
		return 2
	}
	defer f.Close()
	sc := bufio.NewScanner(f)
	sc.Buffer(make([]byte, 1<<20), 1<<26)
	rows, entries, bad := 0, 0, 0
	perOpType := map[string]int{}
	var mm []mismatch
	for sc.Scan() {
		if len(sc.Bytes()) == 0 {
			continue
		}
		var rw row
		if err := json.Unmarshal(sc.Bytes(), &rw); err != nil || len(rw.B) != len(rw.R) || len(rw.B) != len(rw.E) {
			fmt.Fprintln(os.Stderr, "bad row", rows, err)
			return 2
		}
		rows++
		for k := range rw.B {
			entries++
			perOpType[rw.Op+":"+rw.T]++
			r, ec := callNarrow(rw.Op, rw.T, rw.A, rw.B[k])
			want := outcome{rw.E[k] == "", rw.R[k], rw.E[k]}
			got := outcome{ec == "", r, ec}
			same := want.Ok == got.Ok && want.Err == got.Err && (!want.Ok || want.R == got.R)
			if !same {
				bad++
				if len(mm) < 300000 {
					mm = append(mm, mismatch{rw.Op, rw.T, rw.A, rw.B[k], want, got})
				}
			}
		}
	}
	if mm == nil {
		mm = []mismatch{}
	}
	core.WriteJSON(*out, map[string]any{"rows": rows, "entries": entries, "mismatch_count": bad, "mismatches": mm, "per_op_type": perOpType})
	return 0
}

// ---------------------------------------------------------------- replay of one call

func cmdOne(args []string) int {
	fs := flag.NewFlagSet("sm-one", flag.ExitOnError)
	out := fs.String("out", "one", "")
	_ = fs.Parse(args[1:])
	b, err := os.ReadFile(args[0])
	if err != nil {
		fmt.Fprintln(os.Stderr, err)
		return 2
	}
	var in struct {
		Op string          `json:"op"`
		T  string          `json:"t"`
		A  json.RawMessage `json:"a"`
		B  json.RawMessage `json:"b"`
		C  json.RawMessage `json:"c"`
	}
	if err := json.Unmarshal(b, &in); err != nil {
		fmt.Fprintln(os.Stderr, err)
		return 2
	}
	s := newSink(*out, 1)
	defer s.close()
	num := func(m json.RawMessage) int64 { var v int64; _ = json.Unmarshal(m, &v); return v }
	wv := func(m json.RawMessage) uint64 {
		var v wval
		if json.Unmarshal(m, &v) != nil { // a plain number (shift count)
			return uint64(num(m))
		}
		return fromW(v)
	}
	sh := uint8(0)
	if in.Op == "Shl" {
		sh = uint8(num(in.B))
	}
	switch in.Op {
	case "MulUint64":
		mulU64(s, wv(in.A), wv(in.B))
		return 0
	case "MulInt64":
		mulI64(s, int64(wv(in.A)), int64(wv(in.B)))
		return 0
	case "MulDiv64":
		mulDiv64(s, wv(in.A), wv(in.B), wv(in.C))
		return 0
	}
	switch in.T {
	case "int8":
		narrowRec(s, in.Op, in.T, int8(num(in.A)), int8(num(in.B)), sh)
	case "uint8":
		narrowRec(s, in.Op, in.T, uint8(num(in.A)), uint8(num(in.B)), sh)
	case "int16":
		narrowRec(s, in.Op, in.T, int16(num(in.A)), int16(num(in.B)), sh)
	case "uint16":
		narrowRec(s, in.Op, in.T, uint16(num(in.A)), uint16(num(in.B)), sh)
	case "int32":
		wideRec(s, in.Op, in.T, int32(wv(in.A)), int32(wv(in.B)), sh)
	case "uint32":
		wideRec(s, in.Op, in.T, uint32(wv(in.A)), uint32(wv(in.B)), sh)
	case "int64":
		wideRec(s, in.Op, in.T, int64(wv(in.A)), int64(wv(in.B)), sh)
	case "uint64":
		wideRec(s, in.Op, in.T, wv(in.A), wv(in.B), sh)
	default:
		fmt.Fprintln(os.Stderr, "unknown type", in.T)
		return 2
	}
	return 0
}
