package wire2

// serializer.Serializer / serializer.Deserializer primitives <-> spec/wire/Deser.tla
//
//	h deser-table   -rt rt.ndjson -tot tot.ndjson -out rep.json      model -> code
//	h deser-records -seed S -n N -out recs.ndjson                    code -> model
//	h deser-one     case.json                                        replay of one case

import (
	"bytes"
	"encoding/json"
	"errors"
	"flag"
	"fmt"
	"math"
	"math/big"
	"math/rand"
	"os"
	"time"

	"github.com/iotaledger/hive.go/ds/serializableorderedmap"
	"github.com/iotaledger/hive.go/serializer/v2"
	"github.com/iotaledger/hive.go/serializer/v2/serix"

	"verifharness/core"
)

func init() {
	core.RegisterCommand("deser-table", cmdDeserTable)
	core.RegisterCommand("deser-records", cmdDeserRecords)
	core.RegisterCommand("deser-one", cmdDeserOne)
}

// dop mirrors Deser!O(kind, a, b, c).
type dop struct {
	Op string `json:"op"`
	A  int    `json:"a"`
	B  int    `json:"b"`
	C  int    `json:"c"`
}

func parseProg(v any) []dop {
	a := v.([]any)
	p := make([]dop, len(a))
	for i, x := range a {
		m := x.(map[string]any)
		p[i] = dop{m["op"].(string), int(m["a"].(float64)), int(m["b"].(float64)), int(m["c"].(float64))}
	}
	return p
}

var deserReader = map[string]string{"Num": "ReadNum", "Bool": "ReadBool", "Byte": "ReadByte", "Bytes": "ReadBytes", "InPlace": "ReadBytesInPlace",
	"VarBytes": "ReadVariableByteSlice", "String": "ReadString", "U256": "ReadUint256", "Time": "ReadTime", "PayLen": "ReadPayloadLength",
	"Skip": "Skip", "Prefix": "CheckTypePrefix", "Seq": "ReadSequenceOfObjects", "All": "ConsumedAll",
	"Obj": "ReadObject", "Payload": "ReadPayload", "Objs": "ReadSliceOfObjects"}

// fixObj is the Serializable of the Obj/Payload/Objs operations (Deser.tla): tw bytes of type denotation
// (little endian) followed by bw body bytes.
type fixObj struct {
	tw, bw int
	wire   []byte
}

var errUnknownType = errors.New("harness: unknown object type")

func (o *fixObj) Deserialize(data []byte, _ serializer.DeSerializationMode, _ interface{}) (int, error) {
	if len(data) < o.tw+o.bw {
		return 0, serializer.ErrDeserializationNotEnoughData
	}
	o.wire = append([]byte{}, data[:o.tw+o.bw]...)
	return o.tw + o.bw, nil
}
func (o *fixObj) Serialize(serializer.DeSerializationMode, interface{}) ([]byte, error) {
	return append([]byte{}, o.wire...), nil
}
func (o *fixObj) MarshalJSON() ([]byte, error) { return json.Marshal(o.wire) }
func (o *fixObj) UnmarshalJSON([]byte) error   { return errors.New("not used") }

// objGuard is the read guard: types 1 and 2 are known; without type denotation the guard is asked for 0.
func objGuard(tw, bw int) serializer.SerializableReadGuardFunc {
	return func(ty uint32) (serializer.Serializable, error) {
		if tw > 0 && ty != 1 && ty != 2 {
			return nil, errUnknownType
		}
		return &fixObj{tw: tw, bw: bw}, nil
	}
}

func typeDen(w int) serializer.TypeDenotationType {
	switch w {
	case 0:
		return serializer.TypeDenotationNone
	case 1:
		return serializer.TypeDenotationByte
	}
	return serializer.TypeDenotationUint32
}

func progString(p []dop) string {
	s := ""
	for i, o := range p {
		if i > 0 {
			s += "."
		}
		switch o.Op {
		case "Num":
			s += fmt.Sprintf("ReadNum(%d bytes)", o.A)
		case "Bytes", "InPlace", "Skip":
			s += fmt.Sprintf("%s(%d)", deserReader[o.Op], o.A)
		case "VarBytes", "String":
			s += fmt.Sprintf("%s(%d-byte prefix, min %d, max %d)", deserReader[o.Op], o.A, o.B, o.C)
		case "Prefix":
			s += fmt.Sprintf("CheckTypePrefix(%d, %d bytes)", o.B, o.A)
		case "Seq":
			s += fmt.Sprintf("ReadSequenceOfObjects(%d-byte prefix, %d-byte elements)", o.A, o.B)
		case "Obj":
			s += fmt.Sprintf("ReadObject(%d-byte type, %d-byte body)", o.A, o.B)
		case "Payload":
			s += fmt.Sprintf("ReadPayload(%d-byte body)", o.B)
		case "Objs":
			s += fmt.Sprintf("ReadSliceOfObjects(%d-byte prefix, %d-byte type, %d-byte body)", o.A, o.B, o.C)
		default:
			s += deserReader[o.Op] + "()"
		}
	}
	return s
}

func errProd(err error) error { return err }

func deserErrClass(err error) string {
	switch {
	case err == nil:
		return ""
	case errors.Is(err, serializer.ErrDeserializationNotEnoughData):
		return "NotEnoughData"
	case errors.Is(err, serializer.ErrDeserializationInvalidBoolValue):
		return "InvalidBool"
	case errors.Is(err, serializer.ErrDeserializationLengthMaxExceeded):
		return "MaxExceeded"
	case errors.Is(err, serializer.ErrDeserializationLengthMinNotReached):
		return "MinNotReached"
	case errors.Is(err, serializer.ErrDeserializationTypeMismatch):
		return "TypeMismatch"
	case errors.Is(err, serializer.ErrDeserializationNotAllConsumed):
		return "NotAllConsumed"
	case errors.Is(err, errUnknownType):
		return "UnknownType"
	case errors.Is(err, serializer.ErrInvalidBytes):
		return "InvalidBytes"
	}
	return "other: " + err.Error()
}

func prefixType(w int) serializer.SeriLengthPrefixType { return lenType(w) }

// ---------------------------------------------------------------- the real Serializer

// deserWrite runs the Serializer chain of prog over vals (JSON shapes). variant picks the Go number
// type of Num operations: 0 unsigned, 1 signed, 2 float (4/8 bytes).
func deserWrite(prog []dop, vals []any, variant int) ([]byte, error) {
	s := serializer.NewSerializer()
	for i, o := range prog {
		v := vals[i]
		switch o.Op {
		case "Num":
			x := leU64(leBytes(ints(v)))
			switch {
			case o.A == 1 && variant == 0:
				s.WriteNum(uint8(x), errProd)
			case o.A == 1:
				s.WriteNum(int8(x), errProd)
			case o.A == 2 && variant == 0:
				s.WriteNum(uint16(x), errProd)
			case o.A == 2:
				s.WriteNum(int16(x), errProd)
			case o.A == 4 && variant == 0:
				s.WriteNum(uint32(x), errProd)
			case o.A == 4 && variant == 1:
				s.WriteNum(int32(x), errProd)
			case o.A == 4:
				s.WriteNum(math.Float32frombits(uint32(x)), errProd)
			case o.A == 8 && variant == 0:
				s.WriteNum(x, errProd)
			case o.A == 8 && variant == 1:
				s.WriteNum(int64(x), errProd)
			default:
				s.WriteNum(math.Float64frombits(x), errProd)
			}
		case "Bool":
			s.WriteBool(ints(v)[0] != 0, errProd)
		case "Byte":
			s.WriteByte(byte(ints(v)[0]), errProd)
		case "Bytes", "InPlace":
			s.WriteBytes(toBytes(v), errProd)
		case "VarBytes":
			s.WriteVariableByteSlice(toBytes(v), prefixType(o.A), errProd, o.B, o.C)
		case "String":
			s.WriteString(string(toBytes(v)), prefixType(o.A), errProd, o.B, o.C)
		case "U256":
			be := toBytes(v) // most significant first
			s.WriteUint256(new(big.Int).SetBytes(be), errProd)
		case "Time":
			s.WriteTime(time.Unix(0, int64(leU64(leBytes(ints(v))))), errProd)
		case "PayLen":
			s.WritePayloadLength(int(leU64(leBytes(ints(v)))), errProd)
		case "Skip":
			s.WriteBytes(make([]byte, o.A), errProd)
		case "Prefix":
			if o.A == 1 {
				s.WriteNum(uint8(o.B), errProd)
			} else {
				s.WriteNum(uint32(o.B), errProd)
			}
		case "Seq":
			elems, _ := v.([]any)
			data := make([][]byte, len(elems))
			for j, e := range elems {
				data[j] = toBytes(e)
			}
			s.WriteSliceOfByteSlices(data, serializer.DeSeriModeNoValidation, prefixType(o.A), &serializer.ArrayRules{}, errProd)
		case "All":
		case "Obj":
			s.WriteObject(&fixObj{o.A, o.B, toBytes(v)}, serializer.DeSeriModeNoValidation, nil, func(serializer.Serializable) error { return nil }, errProd)
		case "Payload":
			if wire := toBytes(v); len(wire) == 0 {
				s.WritePayload(nil, serializer.DeSeriModeNoValidation, nil, nil, errProd)
			} else {
				s.WritePayload(&fixObj{4, o.B, wire}, serializer.DeSeriModeNoValidation, nil, nil, errProd)
			}
		case "Objs":
			elems, _ := v.([]any)
			seris := make(serializer.Serializables, len(elems))
			for j, e := range elems {
				seris[j] = &fixObj{o.B, o.C, toBytes(e)}
			}
			s.WriteSliceOfObjects(seris, serializer.DeSeriModeNoValidation, nil, prefixType(o.A), &serializer.ArrayRules{}, errProd)
		default:
			panic("op " + o.Op)
		}
	}
	b, err := s.Serialize()
	return append([]byte{}, b...), err
}

// ---------------------------------------------------------------- the real Deserializer

type deserGot struct {
	Ok    bool   `json:"ok"`
	Vals  []any  `json:"vals"`
	Off   int    `json:"off"`
	Err   string `json:"err"`
	Panic string `json:"panic,omitempty"`
	Hung  bool   `json:"hung,omitempty"`
	Alloc uint64 `json:"-"`
	Iters int    `json:"-"`
}

// deserRead runs the Deserializer chain of prog over src.
func deserRead(prog []dop, src []byte, variant int, iters *int, cap int) (vals []any, off int, err error) {
	// the input is the front part of a larger buffer (24 bytes of spare capacity with stale content): nothing behind len is input
	buf := make([]byte, len(src)+24)
	copy(buf, src)
	for i := len(src); i < len(buf); i++ {
		buf[i] = byte(0x41 + (i-len(src))%3)
	}
	src = buf[:len(src)]
	d := serializer.NewDeserializer(src)
	vals = []any{}
	add := func(v any) {
		if _, e := d.Done(); e == nil {
			vals = append(vals, v)
		}
	}
	for _, o := range prog {
		switch o.Op {
		case "Num":
			var le []byte
			switch {
			case o.A == 1 && variant == 0:
				var x uint8
				d.ReadNum(&x, errProd)
				le = u64LE(uint64(x), 1)
			case o.A == 1:
				var x int8
				d.ReadNum(&x, errProd)
				le = u64LE(uint64(x), 1)
			case o.A == 2 && variant == 0:
				var x uint16
				d.ReadNum(&x, errProd)
				le = u64LE(uint64(x), 2)
			case o.A == 2:
				var x int16
				d.ReadNum(&x, errProd)
				le = u64LE(uint64(x), 2)
			case o.A == 4 && variant == 0:
				var x uint32
				d.ReadNum(&x, errProd)
				le = u64LE(uint64(x), 4)
			case o.A == 4 && variant == 1:
				var x int32
				d.ReadNum(&x, errProd)
				le = u64LE(uint64(x), 4)
			case o.A == 4:
				var x float32
				d.ReadNum(&x, errProd)
				le = u64LE(uint64(math.Float32bits(x)), 4)
			case o.A == 8 && variant == 0:
				var x uint64
				d.ReadNum(&x, errProd)
				le = u64LE(x, 8)
			case o.A == 8 && variant == 1:
				var x int64
				d.ReadNum(&x, errProd)
				le = u64LE(uint64(x), 8)
			default:
				var x float64
				d.ReadNum(&x, errProd)
				le = u64LE(math.Float64bits(x), 8)
			}
			add(beDigits(le))
		case "Bool":
			var b bool
			d.ReadBool(&b, errProd)
			if b {
				add([]int{1})
			} else {
				add([]int{0})
			}
		case "Byte":
			var b byte
			d.ReadByte(&b, errProd)
			add([]int{int(b)})
		case "Bytes":
			var b []byte
			d.ReadBytes(&b, o.A, errProd)
			add(fromBytes(b))
		case "InPlace":
			b := make([]byte, o.A)
			d.ReadBytesInPlace(b, errProd)
			add(fromBytes(b))
		case "VarBytes":
			var b []byte
			d.ReadVariableByteSlice(&b, prefixType(o.A), errProd, o.B, o.C)
			add(fromBytes(b))
		case "String":
			var s string
			d.ReadString(&s, prefixType(o.A), errProd, o.B, o.C)
			add(fromBytes([]byte(s)))
		case "U256":
			var x *big.Int
			d.ReadUint256(&x, errProd)
			if x != nil {
				add(fromBytes(x.FillBytes(make([]byte, 32))))
			} else {
				add([]int{})
			}
		case "Time":
			var t time.Time
			d.ReadTime(&t, errProd)
			add(beDigits(u64LE(uint64(t.UnixNano()), 8)))
		case "PayLen":
			if _, e := d.Done(); e == nil {
				n, e := d.ReadPayloadLength()
				if e != nil {
					d.AbortIf(func(error) error { return e })
				}
				add(beDigits(u64LE(uint64(n), 4)))
			}
		case "Skip":
			d.Skip(o.A, errProd)
			add([]int{})
		case "Prefix":
			den := serializer.TypeDenotationByte
			if o.A == 4 {
				den = serializer.TypeDenotationUint32
			}
			d.CheckTypePrefix(uint32(o.B), den, errProd)
			add([]int{})
		case "Seq":
			elems := [][]int{}
			d.ReadSequenceOfObjects(func(b []byte) (int, error) {
				*iters++
				if *iters > cap {
					return 0, fmt.Errorf("harness: iteration cap %d exceeded", cap)
				}
				if len(b) < o.B {
					return 0, serializer.ErrDeserializationNotEnoughData
				}
				elems = append(elems, fromBytes(b[:o.B]))
				return o.B, nil
			}, serializer.DeSeriModeNoValidation, prefixType(o.A), &serializer.ArrayRules{}, errProd)
			add(elems)
		case "All":
			d.ConsumedAll(func(left int, err error) error { return err })
			add([]int{})
		case "Obj":
			var got serializer.Serializable
			d.ReadObject(&got, serializer.DeSeriModeNoValidation, nil, typeDen(o.A), objGuard(o.A, o.B), errProd)
			if fo, ok := got.(*fixObj); ok {
				add(fromBytes(fo.wire))
			} else {
				add([]int{})
			}
		case "Payload":
			var got serializer.Serializable
			d.ReadPayload(&got, serializer.DeSeriModeNoValidation, nil, objGuard(4, o.B), errProd)
			if fo, ok := got.(*fixObj); ok {
				add(fromBytes(fo.wire))
			} else {
				add([]int{}) // no payload
			}
		case "Objs":
			elems := [][]int{}
			rules := &serializer.ArrayRules{Guards: serializer.SerializableGuard{ReadGuard: func(ty uint32) (serializer.Serializable, error) {
				*iters++
				if *iters > cap {
					return nil, fmt.Errorf("harness: iteration cap %d exceeded", cap)
				}
				return objGuard(o.B, o.C)(ty)
			}}}
			d.ReadSliceOfObjects(func(seris serializer.Serializables) {
				for _, x := range seris {
					elems = append(elems, fromBytes(x.(*fixObj).wire))
				}
			}, serializer.DeSeriModeNoValidation, nil, prefixType(o.A), typeDen(o.B), rules, errProd)
			add(elems)
		default:
			panic("op " + o.Op)
		}
	}
	off, err = d.Done()
	return vals, off, err
}

func deserRun(prog []dop, src []byte, variant int, measure bool) deserGot {
	g := deserGot{Vals: []any{}}
	var vals []any
	var off int
	var err error
	iters := 0
	cap := len(src) + 8
	if hasZeroWidth(prog) {
		cap = 1024 // let a zero-width loop show that it follows the count, not the input
	}
	o := guarded(measure, false, func() { vals, off, err = deserRead(prog, src, variant, &iters, cap) })
	g.Alloc, g.Iters = o.alloc, iters
	switch {
	case o.panicked:
		g.Panic, g.Err = o.pmsg, "panic"
	case err != nil:
		g.Err, g.Off = deserErrClass(err), off
	default:
		g.Ok, g.Vals, g.Off = true, vals, off
	}
	return g
}

// deserAllocBound: the C02 bound for one chain. Object operations allocate a Serializable (plus, in a slice of objects, a
// sub-Deserializer and the harness' copy of the wire bytes) per object that IS in the input: 256 bytes per input byte on top.
func deserAllocBound(prog []dop, inputLen int) uint64 {
	b := allocBound(inputLen)
	for _, o := range prog {
		if o.Op == "Obj" || o.Op == "Payload" || o.Op == "Objs" {
			return b + 256*uint64(inputLen)
		}
	}
	return b
}

func hasZeroWidth(prog []dop) bool {
	for _, o := range prog {
		if o.Op == "Seq" && o.B == 0 {
			return true
		}
	}
	return false
}

// ---------------------------------------------------------------- ds/serializableorderedmap

// The wire form of SerializableOrderedMap[uint8,uint16] is the model program <<Seq(4,3)>>: a uint32
// count followed by count entries of 1 key byte + 2 value bytes (little endian).
func isSOMapProg(prog []dop) bool {
	return len(prog) == 1 && prog[0].Op == "Seq" && prog[0].A == 4 && prog[0].B == 3
}

var somapAPI = serix.NewAPI()

// somapExpect folds the model's element list the way an ordered map does (a repeated key keeps its
// first position and takes the last value).
func somapExpect(elems []any) [][]int {
	var out [][]int
	idx := map[int]int{}
	for _, e := range elems {
		b := ints(e)
		if i, ok := idx[b[0]]; ok {
			out[i] = b
			continue
		}
		idx[b[0]] = len(out)
		out = append(out, b)
	}
	if out == nil {
		out = [][]int{}
	}
	return out
}

func somapDecode(data []byte) (g deserGot) {
	g.Vals = []any{}
	o := guarded(true, false, func() {
		m := serializableorderedmap.New[uint8, uint16]()
		n, err := m.Decode(somapAPI, data)
		g.Off = n
		if err != nil {
			g.Err = "error: " + err.Error()
			return
		}
		entries := [][]int{}
		m.ForEach(func(k uint8, v uint16) bool {
			entries = append(entries, []int{int(k), int(v & 0xff), int(v >> 8)})
			return true
		})
		g.Ok, g.Vals = true, []any{entries}
	})
	g.Alloc = o.alloc
	if o.panicked {
		g.Panic, g.Err = o.pmsg, "panic"
	}
	return g
}

func somapEncode(elems []any) ([]byte, error) {
	m := serializableorderedmap.New[uint8, uint16]()
	for _, e := range elems {
		b := ints(e)
		m.Set(uint8(b[0]), uint16(b[1])|uint16(b[2])<<8)
	}
	return m.Encode(somapAPI)
}

// somapCheck compares SerializableOrderedMap.Decode with the model outcome of <<Seq(4,3)>> over data.
func somapCheck(rep *report, row map[string]any, data []byte, w deserWant) {
	g := somapDecode(data)
	rep.Calls++
	class, text := "", ""
	switch {
	case g.Panic != "":
		class, text = "panic", "panicked: "+g.Panic
	case g.Off > len(data):
		class, text = "over-consumed", fmt.Sprintf("reported %d consumed bytes of %d", g.Off, len(data))
	case g.Alloc > allocBound(len(data)):
		class, text = "alloc-from-prefix", fmt.Sprintf("allocated %d bytes for a %d-byte input", g.Alloc, len(data))
	case w.Ok && !g.Ok:
		class, text = "rejects-valid-input", "failed ("+g.Err+") on an encoding the model reads"
	case !w.Ok && g.Ok:
		class, text = "accepts-invalid-input", fmt.Sprintf("returned %s although the count exceeds what the input holds", canon(g.Vals))
	case w.Ok && canon(g.Vals[0]) != canon(somapExpect(w.Vals[0].([]any))):
		class, text = "wrong-value", fmt.Sprintf("returned entries %s, the model demands %s", canon(g.Vals[0]), canon(somapExpect(w.Vals[0].([]any))))
	case w.Ok && g.Off != w.Off:
		class, text = "wrong-consumed", fmt.Sprintf("reported %d consumed bytes, the model demands %d", g.Off, w.Off)
	}
	if class != "" {
		rep.bad("SerializableOrderedMap.Decode:"+class, fmt.Sprintf("SerializableOrderedMap[uint8,uint16].Decode over %v %s", data, text),
			deserCase{P: row["p"], Input: fromBytes(data), Want: row["w"]})
	}
}

// ---------------------------------------------------------------- model -> code

type deserWant struct {
	Ok   bool     `json:"ok"`
	Vals []any    `json:"vals"`
	Off  int      `json:"off"`
	Errs []string `json:"errs"`
}

func parseDeserWant(v any) deserWant {
	m := v.(map[string]any)
	w := deserWant{Ok: m["ok"].(bool), Off: int(m["off"].(float64))}
	w.Vals, _ = m["vals"].([]any)
	if es, ok := m["errs"].([]any); ok {
		for _, e := range es {
			w.Errs = append(w.Errs, e.(string))
		}
	}
	return w
}

func valsMatch(prog []dop, got []any, want []any) bool {
	if len(got) != len(want) {
		return false
	}
	for i := range want {
		if prog[i].Op == "Time" {
			if w := ints(jsonRound(want[i])); len(w) == 8 && w[0] >= 128 {
				continue // a timestamp beyond MaxInt64 ns has no demanded reading (DeserTrace!TimeWild)
			}
		}
		if canon(got[i]) != canon(want[i]) {
			return false
		}
	}
	return true
}

// culprit names the primitive a failing program's verdict is about (the last one for single-op programs,
// the first variable-length one otherwise).
func culprit(prog []dop) string {
	for _, o := range prog {
		if o.Op == "VarBytes" || o.Op == "String" || o.Op == "Seq" || o.Op == "Payload" || o.Op == "Objs" || o.Op == "Obj" {
			return deserReader[o.Op]
		}
	}
	return deserReader[prog[len(prog)-1].Op]
}

func deserJudge(prog []dop, g deserGot, w deserWant, inputLen int) (class, text string) {
	switch {
	case g.Panic != "":
		return "panic", "panicked: " + g.Panic
	case g.Hung:
		return "hang", "did not return"
	case hasZeroWidth(prog) && g.Iters > inputLen+1:
		return "iterates-count-times-for-zero-width-elements", fmt.Sprintf("called the element deserializer %s times for a %d-byte input (the count comes from the length prefix, the elements consume no input)", itersText(g.Iters), inputLen)
	case g.Iters > inputLen+1:
		return "iterates-beyond-input", fmt.Sprintf("ran %d element iterations on a %d-byte input", g.Iters, inputLen)
	case g.Off > inputLen:
		return "over-consumed", fmt.Sprintf("Done() reported %d consumed bytes of %d supplied", g.Off, inputLen)
	case w.Ok && !g.Ok:
		return "rejects-valid-input", fmt.Sprintf("failed with %s; the model reads %s and consumes %d bytes", g.Err, canon(w.Vals), w.Off)
	case !w.Ok && g.Ok:
		return "accepts-invalid-input", fmt.Sprintf("returned %s (consumed %d); the model demands an error %v", canon(g.Vals), g.Off, w.Errs)
	case w.Ok && !valsMatch(prog, g.Vals, w.Vals):
		return "wrong-value", fmt.Sprintf("returned %s, the model demands %s", canon(g.Vals), canon(w.Vals))
	case w.Ok && g.Off != w.Off:
		return "wrong-consumed", fmt.Sprintf("Done() reported %d consumed bytes, the model demands %d", g.Off, w.Off)
	case !w.Ok:
		for _, e := range w.Errs {
			if e == g.Err {
				return "", ""
			}
		}
		return "wrong-error-class", fmt.Sprintf("failed with %q, the model allows %v", g.Err, w.Errs)
	}
	return "", ""
}

type deserCase struct {
	P       any   `json:"p"`
	V       any   `json:"v,omitempty"`
	Input   []int `json:"input"`
	Variant int   `json:"variant"`
	Want    any   `json:"want"`
}

func cmdDeserTable(args []string) int {
	fs := flag.NewFlagSet("deser-table", flag.ExitOnError)
	rtPath := fs.String("rt", "", "")
	totPath := fs.String("tot", "", "")
	out := fs.String("out", "", "")
	_ = fs.Int64("seed", 1, "")
	_ = fs.Parse(args)
	rep := newReport()
	tails := [][]byte{{}, {255}}
	if *rtPath != "" {
		if err := forEachLine(*rtPath, func(m map[string]any) {
			prog := parseProg(m["p"])
			vals := m["v"].([]any)
			name := "Deserializer." + culprit(prog)
			rep.Rows++
			if _, isRT := m["bytes"]; !isRT { // WR row: the writer must refuse
				rep.PerKind["wr"]++
				var werr error
				o := guarded(false, false, func() { _, werr = deserWrite(prog, vals, 0) })
				rep.Calls++
				if o.panicked || werr == nil {
					rep.bad(name+":writer-accepts-out-of-range-length", fmt.Sprintf("the Serializer counterpart of %s accepted a value of %d bytes", progString(prog), len(toBytes(vals[0]))),
						deserCase{P: m["p"], V: m["v"], Input: []int{}, Want: "refuse"})
				}
				return
			}
			rep.PerKind["rt"]++
			model := toBytes(m["bytes"])
			if isSOMapProg(prog) {
				elems, _ := vals[0].([]any)
				if len(somapExpect(elems)) == len(elems) { // distinct keys: the map holds exactly these entries
					wb, err := somapEncode(elems)
					rep.Calls++
					if err != nil || !bytes.Equal(wb, model) {
						rep.bad("SerializableOrderedMap.Encode:bytes-differ-from-model", fmt.Sprintf("SerializableOrderedMap[uint8,uint16].Encode of %s wrote %v (err %v), the model's layout is %v", canon(elems), wb, err, model),
							deserCase{P: m["p"], V: m["v"], Input: fromBytes(model), Want: "encode"})
					}
					somapCheck(rep, map[string]any{"p": m["p"], "w": map[string]any{"ok": true, "vals": vals, "off": len(model), "errs": []any{}}}, model,
						deserWant{Ok: true, Vals: vals, Off: len(model)})
				}
			}
			for variant := 0; variant < 3; variant++ {
				var wb []byte
				var werr error
				o := guarded(false, false, func() { wb, werr = deserWrite(prog, vals, variant) })
				rep.Calls++
				c := deserCase{P: m["p"], V: m["v"], Input: fromBytes(model), Variant: variant, Want: map[string]any{"ok": true, "vals": vals, "off": len(model), "errs": []string{}}}
				switch {
				case o.panicked:
					rep.bad(name+":writer-panics", fmt.Sprintf("Serializer chain for %s panicked on %s: %s", progString(prog), canon(vals), o.pmsg), c)
				case werr != nil:
					rep.bad(name+":write-fails", fmt.Sprintf("Serializer chain for %s refused %s: %v", progString(prog), canon(vals), werr), c)
				case !bytes.Equal(wb, model):
					rep.bad(name+":bytes-differ-from-model", fmt.Sprintf("Serializer chain for %s wrote %v for %s, the model's layout is %v", progString(prog), wb, canon(vals), model), c)
				}
				for _, tail := range tails {
					if len(tail) > 0 && prog[len(prog)-1].Op == "All" {
						continue
					}
					data := append(append([]byte{}, model...), tail...)
					g := deserRun(prog, data, variant, false)
					rep.Calls++
					w := deserWant{Ok: true, Vals: vals, Off: len(model)}
					if class, text := deserJudge(prog, g, w, len(data)); class != "" {
						if class == "rejects-valid-input" || class == "wrong-value" || class == "wrong-consumed" {
							class = "round-trip:" + class
						}
						c.Input = fromBytes(data)
						rep.bad(name+":"+class, fmt.Sprintf("%s over %v (the bytes its Serializer counterpart writes for %s) %s", progString(prog), data, canon(vals), text), c)
					}
				}
			}
		}); err != nil {
			fmt.Fprintln(os.Stderr, err)
			return 2
		}
	}
	allocSeen := map[string]int{}
	var late []mismatch
	if *totPath != "" {
		if err := forEachLine(*totPath, func(m map[string]any) {
			prog := parseProg(m["p"])
			data := toBytes(m["s"])
			want := parseDeserWant(m["w"])
			name := "Deserializer." + culprit(prog)
			rep.Rows++
			rep.PerKind["tot:"+prog[0].Op]++
			key := progString(prog)
			if allocSeen[key] >= 3 && len(data) >= 4 && data[3] != 0 {
				rep.Skipped++ // three allocation findings for this program are enough; do not burn gigabytes
				return
			}
			if isSOMapProg(prog) {
				somapCheck(rep, m, data, want)
			}
			for variant := 0; variant < 3; variant++ {
				if variant > 0 && !hasNum(prog) {
					break
				}
				g := deserRun(prog, data, variant, variant == 0)
				rep.Calls++
				class, text := deserJudge(prog, g, want, len(data))
				if class == "accepts-invalid-input" && hasZeroWidth(prog) {
					// the model refuses a count the input cannot pay for; with zero-width elements the code
					// accepts it after iterating count times: reported by the iteration class above only
					class = ""
				}
				if class == "" && variant == 0 {
					if g.Alloc > rep.MaxAlloc {
						rep.MaxAlloc = g.Alloc
					}
					if g.Alloc > deserAllocBound(prog, len(data)) {
						class, text = "alloc-from-prefix", fmt.Sprintf("allocated %d bytes for a %d-byte input (bound %d)", g.Alloc, len(data), deserAllocBound(prog, len(data)))
						allocSeen[key]++
					}
				}
				if class != "" {
					what := fmt.Sprintf("%s over input %v %s", progString(prog), data, text)
					c := deserCase{P: m["p"], Input: fromBytes(data), Variant: variant, Want: m["w"]}
					if hasZeroWidth(prog) && g.Iters <= 1024 { // keep the small counts back: the example shown first should be a big one
						late = append(late, mismatch{name + ":" + class, what, c})
						continue
					}
					rep.bad(name+":"+class, what, c)
				}
			}
		}); err != nil {
			fmt.Fprintln(os.Stderr, err)
			return 2
		}
	}
	rep.write(*out)
	return 0
}

// itersText: the harness' element deserializer stops a zero-width loop after 1024 calls.
func itersText(n int) string {
	if n > 1024 {
		return "more than 1024 (stopped by the harness; the loop runs as often as the prefix says, up to 2^32-1)"
	}
	return fmt.Sprint(n)
}

func hasNum(prog []dop) bool {
	for _, o := range prog {
		if o.Op == "Num" {
			return true
		}
	}
	return false
}

// ---------------------------------------------------------------- code -> model

type deserRec struct {
	K       string   `json:"k"`
	P       []dop    `json:"p"`
	Variant int      `json:"variant"`
	V       []any    `json:"v"`
	W       []int    `json:"w"`
	Tail    []int    `json:"tail"`
	S       []int    `json:"s"`
	Got     deserGot `json:"got"`
	Alloc   uint64   `json:"alloc"`
	Iters   int      `json:"iters"`
	Werr    string   `json:"werr,omitempty"`
}

func randomOp(r *rand.Rand) dop {
	pw := []int{1, 2, 4}[r.Intn(3)]
	mm := func() (int, int) {
		switch r.Intn(4) {
		case 0:
			return 1 + r.Intn(3), 0
		case 1:
			return 0, 1 + r.Intn(40)
		case 2:
			a := 1 + r.Intn(5)
			return a, a + r.Intn(30)
		}
		return 0, 0
	}
	switch r.Intn(18) {
	case 14:
		return dop{"Obj", []int{0, 1, 4}[r.Intn(3)], r.Intn(6), 0}
	case 15, 16:
		return dop{"Payload", 0, r.Intn(6), 0}
	case 17:
		return dop{"Objs", pw, []int{1, 4}[r.Intn(2)], r.Intn(4)}
	case 0, 1:
		return dop{"Num", []int{1, 2, 4, 8}[r.Intn(4)], 0, 0}
	case 2:
		return dop{"Bool", 0, 0, 0}
	case 3:
		return dop{"Byte", 0, 0, 0}
	case 4:
		return dop{"Bytes", r.Intn(40), 0, 0}
	case 5:
		return dop{"InPlace", r.Intn(40), 0, 0}
	case 6:
		a, b := mm()
		return dop{"VarBytes", pw, a, b}
	case 7:
		a, b := mm()
		return dop{"String", pw, a, b}
	case 8:
		return dop{"U256", 0, 0, 0}
	case 9:
		return dop{"Time", 0, 0, 0}
	case 10:
		return dop{"PayLen", 0, 0, 0}
	case 11:
		return dop{"Skip", r.Intn(5), 0, 0}
	case 12:
		return dop{"Prefix", []int{1, 4}[r.Intn(2)], r.Intn(200), 0}
	}
	return dop{"Seq", pw, 1 + r.Intn(3), 0}
}

func randomOpValue(r *rand.Rand, o dop) any {
	n := 0
	switch r.Intn(4) {
	case 0:
		n = r.Intn(3)
	case 1:
		n = r.Intn(45)
	case 2:
		n = 250 + r.Intn(12) // around the one-byte prefix limit
	default:
		n = r.Intn(400)
	}
	switch o.Op {
	case "Num":
		return randBytes(r, o.A)
	case "Bool":
		return []int{r.Intn(2)}
	case "Byte":
		return randBytes(r, 1)
	case "Bytes", "InPlace":
		return randBytes(r, o.A)
	case "VarBytes", "String":
		if r.Intn(4) != 0 { // mostly inside the allowed range
			lo, hi := o.B, o.C
			if hi == 0 {
				hi = lo + 60
			}
			n = lo + r.Intn(hi-lo+1)
		}
		return randBytes(r, n)
	case "U256":
		return randBytes(r, 32)
	case "Time":
		b := randBytes(r, 8)
		b[0] &= 0x7f // 0 .. MaxInt64 ns: the range the encoder does not saturate
		return b
	case "PayLen":
		return randBytes(r, 4)
	case "Seq":
		if n > 300 {
			n = 300
		}
		e := make([][]int, n)
		for i := range e {
			e[i] = randBytes(r, o.B)
		}
		return e
	case "Obj":
		return randObj(r, o.A, o.B)
	case "Payload":
		if r.Intn(4) == 0 || o.B == 0 { // (a payload of only its type is below MinPayloadByteSize: written, but refused by ReadPayload)
			return []int{}
		}
		return randObj(r, 4, o.B)
	case "Objs":
		if n > 300 {
			n = 300
		}
		e := make([][]int, n)
		for i := range e {
			e[i] = randObj(r, o.B, o.C)
		}
		return e
	}
	return []int{}
}

func randObj(r *rand.Rand, tw, bw int) []int {
	w := make([]int, tw, tw+bw)
	if tw > 0 {
		w[0] = 1 + r.Intn(2)
	}
	return append(w, randBytes(r, bw)...)
}

func cmdDeserRecords(args []string) int {
	fs := flag.NewFlagSet("deser-records", flag.ExitOnError)
	seed := fs.Int64("seed", 1, "")
	n := fs.Int("n", 1000, "")
	out := fs.String("out", "", "")
	_ = fs.Parse(args)
	r := rand.New(rand.NewSource(*seed))
	s := newSink(*out)
	allocSeen := 0
	for i := 0; i < *n; i++ {
		prog := make([]dop, 1+r.Intn(4))
		vals := make([]any, len(prog))
		for j := range prog {
			prog[j] = randomOp(r)
			vals[j] = randomOpValue(r, prog[j])
		}
		if r.Intn(5) == 0 {
			prog = append(prog, dop{"All", 0, 0, 0})
			vals = append(vals, []int{})
		}
		variant := r.Intn(3)
		jv := jsonRound(vals).([]any)
		var wb []byte
		var werr error
		o := guarded(false, false, func() { wb, werr = deserWrite(prog, jv, variant) })
		if o.panicked {
			s.emit(deserRec{K: "rt", P: prog, Variant: variant, V: vals, W: []int{}, Tail: []int{}, S: []int{}, Got: deserGot{Vals: []any{}, Panic: o.pmsg, Err: "panic"}})
			continue
		}
		if werr != nil {
			s.emit(deserRec{K: "wr", P: prog, Variant: variant, V: vals, W: []int{}, Tail: []int{}, S: []int{}, Got: deserGot{Vals: []any{}}, Werr: werr.Error()})
			continue
		}
		if i%3 != 2 {
			tail := []byte{}
			if prog[len(prog)-1].Op != "All" {
				tail = toBytes(jsonRound(randBytes(r, r.Intn(4))))
			}
			data := append(append([]byte{}, wb...), tail...)
			g := deserRun(prog, data, variant, true)
			s.emit(deserRec{K: "rt", P: prog, Variant: variant, V: vals, W: fromBytes(wb), Tail: fromBytes(tail), S: []int{}, Got: g, Alloc: g.Alloc, Iters: g.Iters})
			continue
		}
		data := append([]byte{}, wb...)
		// offsets of the length prefixes inside the valid encoding
		type pfx struct{ off, w int }
		var pf []pfx
		off := 0
		for j, o := range prog {
			one, _ := deserWrite([]dop{o}, []any{jv[j]}, variant)
			if o.Op == "VarBytes" || o.Op == "String" || o.Op == "Seq" || o.Op == "Objs" {
				pf = append(pf, pfx{off, o.A})
			}
			if o.Op == "Payload" {
				pf = append(pf, pfx{off, 4})
			}
			off += len(one)
		}
		switch m := r.Intn(8); {
		case m == 7 && len(pf) > 0: // the largest lengths the prefix can express (offset+length arithmetic)
			p := pf[r.Intn(len(pf))]
			for j := 0; j < p.w; j++ {
				data[p.off+j] = 255
			}
			data[p.off] = byte(256 - 1 - r.Intn(10))
			if p.w == 8 && r.Intn(4) > 0 {
				data[p.off+7] = 0x7f // <= MaxInt64
			} else if r.Intn(2) == 0 {
				data[p.off+p.w-1] = 0x7f
			}
		case m >= 5 && len(pf) > 0: // a small length followed by a short tail
			p := pf[r.Intn(len(pf))]
			for j := 0; j < p.w; j++ {
				data[p.off+j] = 0
			}
			data[p.off] = byte(r.Intn(6))
			if end := p.off + p.w + r.Intn(6); end < len(data) {
				data = data[:end]
			}
		case m == 0 && len(data) > 0:
			data = data[:r.Intn(len(data))]
		case m == 1 && len(data) > 0:
			data[r.Intn(len(data))] ^= byte(1 << uint(r.Intn(8)))
		case m == 2 && len(pf) > 0 && allocSeen < 3:
			p := pf[r.Intn(len(pf))]
			for j := 0; j < p.w; j++ {
				data[p.off+j] = 255
			}
			if r.Intn(2) == 0 {
				data[p.off+p.w-1] = 0x3f
			}
		case m == 3 && len(pf) > 0:
			p := pf[r.Intn(len(pf))]
			for j := 0; j < p.w; j++ {
				data[p.off+j]++
				if data[p.off+j] != 0 {
					break
				}
			}
		default:
			data = toBytes(jsonRound(randBytes(r, r.Intn(12))))
		}
		g := deserRun(prog, data, variant, true)
		if g.Alloc > deserAllocBound(prog, len(data)) {
			allocSeen++
		}
		al := g.Alloc
		if al > 1<<30 {
			al = 1 << 30
		}
		s.emit(deserRec{K: "mut", P: prog, Variant: variant, V: []any{}, W: []int{}, Tail: []int{}, S: fromBytes(data), Got: g, Alloc: al, Iters: g.Iters})
	}
	s.close()
	fmt.Printf("{\"records\": %d}\n", s.n)
	return 0
}

func cmdDeserOne(args []string) int {
	b, err := os.ReadFile(args[0])
	if err != nil {
		fmt.Fprintln(os.Stderr, err)
		return 2
	}
	var c struct {
		P       any   `json:"p"`
		Input   []int `json:"input"`
		Variant int   `json:"variant"`
		Want    any   `json:"want"`
	}
	if err := json.Unmarshal(b, &c); err != nil {
		fmt.Fprintln(os.Stderr, err)
		return 2
	}
	prog := parseProg(c.P)
	data := toBytes(jsonRound(c.Input))
	g := deserRun(prog, data, c.Variant, true)
	fmt.Printf("%s over %v: ok=%v vals=%s off=%d err=%q panic=%q alloc=%d iters=%d\n", progString(prog), data, g.Ok, canon(g.Vals), g.Off, g.Err, g.Panic, g.Alloc, g.Iters)
	if ws, ok := c.Want.(string); ok && ws == "refuse" {
		fmt.Println("(writer case: replay through the table unit)")
		return 2
	}
	want := parseDeserWant(c.Want)
	class, text := deserJudge(prog, g, want, len(data))
	if class == "" && g.Alloc > deserAllocBound(prog, len(data)) {
		class, text = "alloc-from-prefix", fmt.Sprintf("allocated %d bytes for a %d-byte input", g.Alloc, len(data))
	}
	if class != "" {
		fmt.Printf("still disagrees with the model [%s]: %s\n", class, text)
		return 1
	}
	fmt.Println("conforms to the model")
	return 0
}
