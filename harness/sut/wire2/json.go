package wire2

// serix JSON / map form <-> spec/wire/WireJson.tla
//
//	h json-table   -rt rt.ndjson -tot tot.ndjson -out rep.json        model -> code
//	h json-records -types types.ndjson -seed S -n N -out recs.ndjson  code -> model
//	h json-one     case.json                                          replay of one case
//
// Trees (see the header of WireJson.tla): integers {n,d}, strings/bytes/floats = code sequences,
// structs/maps = JSON objects, optional = [] / [v], interfaces = {code,v}; documents {j:...}.

import (
	"bytes"
	"context"
	"encoding/json"
	"flag"
	"fmt"
	"math/big"
	"math/rand"
	"os"
	"reflect"
	"sort"
	"strconv"
	"strings"
	"time"

	"github.com/iotaledger/hive.go/serializer/v2/serix"

	"verifharness/core"
)

func init() {
	core.RegisterCommand("json-table", cmdJSONTable)
	core.RegisterCommand("json-records", cmdJSONRecords)
	core.RegisterCommand("json-one", cmdJSONOne)
}

// ---------------------------------------------------------------- schemas (as exported by TLC)

type jschema struct {
	T      string
	N      int
	E      *jschema
	Go     string
	Code   []int
	Key    string
	Fields []jfield
	Alts   []*jschema
}

type jfield struct {
	Key, Go        string
	S              *jschema
	Opt, Omit, Emb bool
}

func parseSchema(v any) *jschema {
	m := v.(map[string]any)
	s := &jschema{T: m["t"].(string)}
	if x, ok := m["n"].(float64); ok {
		s.N = int(x)
	}
	if x, ok := m["e"]; ok {
		s.E = parseSchema(x)
	}
	if x, ok := m["go"].(string); ok {
		s.Go = x
	}
	if x, ok := m["code"]; ok {
		s.Code = ints(x)
	}
	if x, ok := m["key"].(string); ok {
		s.Key = x
	}
	if x, ok := m["fields"].([]any); ok {
		for _, f := range x {
			fm := f.(map[string]any)
			s.Fields = append(s.Fields, jfield{Key: fm["key"].(string), Go: fm["go"].(string), S: parseSchema(fm["s"]),
				Opt: fm["opt"].(bool), Omit: fm["omit"].(bool), Emb: fm["emb"].(bool)})
		}
	}
	if x, ok := m["alts"].([]any); ok {
		for _, a := range x {
			s.Alts = append(s.Alts, parseSchema(a))
		}
	}
	return s
}

var intBits = map[string]int{"u8": 8, "u16": 16, "u32": 32, "u64": 64, "i8": 8, "i16": 16, "i32": 32, "i64": 64}

// ---------------------------------------------------------------- value trees <-> Go values

func numTree(x *big.Int) map[string]any {
	d := []int{}
	for _, c := range new(big.Int).Abs(x).String() {
		d = append(d, int(c-'0'))
	}
	return map[string]any{"n": x.Sign() < 0, "d": d}
}

func treeNum(v any) *big.Int {
	m := v.(map[string]any)
	var sb strings.Builder
	if m["n"].(bool) {
		sb.WriteByte('-')
	}
	for _, d := range ints(m["d"]) {
		sb.WriteByte(byte('0' + d))
	}
	x, ok := new(big.Int).SetString(sb.String(), 10)
	if !ok {
		panic("bad number tree " + canon(v))
	}
	return x
}

func obj(v any) map[string]any {
	if m, ok := v.(map[string]any); ok {
		return m
	}
	return map[string]any{} // TLC prints the empty function as []
}

// build makes a Go value of type t from the value tree (model -> code).
func build(s *jschema, tree any, t reflect.Type) reflect.Value {
	v := reflect.New(t).Elem()
	switch s.T {
	case "bool":
		v.SetBool(tree.(bool))
	case "u8", "u16", "u32", "u64":
		v.SetUint(treeNum(tree).Uint64())
	case "i8", "i16", "i32", "i64":
		v.SetInt(treeNum(tree).Int64())
	case "f32", "f64":
		f, err := strconv.ParseFloat(string(toBytes(tree)), t.Bits())
		if err != nil {
			panic(err)
		}
		v.SetFloat(f)
	case "string":
		v.SetString(string(toBytes(tree)))
	case "bytes":
		v.SetBytes(toBytes(tree))
	case "barray", "tbarray":
		for i, b := range toBytes(tree) {
			v.Index(i).SetUint(uint64(b))
		}
	case "bigint":
		v.Set(reflect.ValueOf(new(big.Int).SetBytes(toBytes(tree))))
	case "time":
		v.Set(reflect.ValueOf(time.Unix(0, treeNum(tree).Int64()).UTC()))
	case "slice":
		a, _ := tree.([]any)
		v.Set(reflect.MakeSlice(t, len(a), len(a)))
		for i, x := range a {
			v.Index(i).Set(build(s.E, x, t.Elem()))
		}
	case "array":
		a, _ := tree.([]any)
		for i, x := range a {
			v.Index(i).Set(build(s.E, x, t.Elem()))
		}
	case "map":
		v.Set(reflect.MakeMap(t))
		for k, x := range obj(tree) {
			v.SetMapIndex(reflect.ValueOf(k).Convert(t.Key()), build(s.E, x, t.Elem()))
		}
	case "struct":
		m := obj(tree)
		for _, f := range s.Fields {
			fv := v.FieldByName(f.Go)
			x := m[f.Key]
			if f.Opt && !f.Emb {
				a, _ := x.([]any)
				if len(a) == 0 {
					continue
				}
				x = a[0]
			}
			fv.Set(build(f.S, x, fv.Type()))
		}
	case "ptr":
		p := reflect.New(t.Elem())
		p.Elem().Set(build(s.E, tree, t.Elem()))
		v.Set(p)
	case "iface":
		m := tree.(map[string]any)
		alt := s.alt(int(m["code"].(float64)))
		gt := catTypes[alt.Go]
		p := reflect.New(gt)
		p.Elem().Set(build(alt, m["v"], gt))
		v.Set(p)
	default:
		panic("schema " + s.T)
	}
	return v
}

func (s *jschema) alt(code int) *jschema {
	for _, a := range s.Alts {
		if len(a.Code) == 1 && a.Code[0] == code {
			return a
		}
	}
	panic(fmt.Sprintf("no alternative with code %d", code))
}

// project turns a Go value into its value tree (code -> model).
func project(s *jschema, v reflect.Value) any {
	switch s.T {
	case "bool":
		return v.Bool()
	case "u8", "u16", "u32", "u64":
		return numTree(new(big.Int).SetUint64(v.Uint()))
	case "i8", "i16", "i32", "i64":
		return numTree(big.NewInt(v.Int()))
	case "f32", "f64":
		return fromBytes([]byte(strconv.FormatFloat(v.Float(), 'g', -1, 64)))
	case "string":
		return fromBytes([]byte(v.String()))
	case "bytes":
		return fromBytes(v.Bytes())
	case "barray", "tbarray":
		b := make([]int, v.Len())
		for i := range b {
			b[i] = int(v.Index(i).Uint())
		}
		return b
	case "bigint":
		x, _ := v.Interface().(*big.Int)
		if x == nil {
			return "nil"
		}
		if x.Sign() < 0 {
			return "negative"
		}
		return fromBytes(x.Bytes())
	case "time":
		return numTree(big.NewInt(v.Interface().(time.Time).UnixNano()))
	case "slice", "array":
		a := make([]any, v.Len())
		for i := range a {
			a[i] = project(s.E, v.Index(i))
		}
		return a
	case "map":
		m := map[string]any{}
		for _, k := range v.MapKeys() {
			m[k.String()] = project(s.E, v.MapIndex(k))
		}
		return m
	case "struct":
		m := map[string]any{}
		for _, f := range s.Fields {
			fv := v.FieldByName(f.Go)
			if f.Opt && !f.Emb {
				if fv.IsNil() {
					m[f.Key] = []any{}
				} else {
					m[f.Key] = []any{project(f.S, fv)}
				}
				continue
			}
			m[f.Key] = project(f.S, fv)
		}
		return m
	case "ptr":
		if v.IsNil() {
			return "nil"
		}
		return project(s.E, v.Elem())
	case "iface":
		if v.IsNil() {
			return "nil"
		}
		e := v.Elem()
		if e.Kind() == reflect.Ptr {
			if e.IsNil() {
				return "nil"
			}
			e = e.Elem()
		}
		for _, a := range s.Alts {
			if catTypes[a.Go] == e.Type() {
				return map[string]any{"code": a.Code[0], "v": project(a, e)}
			}
		}
		return "unregistered " + e.Type().String()
	}
	panic("schema " + s.T)
}

// ---------------------------------------------------------------- JSON documents <-> trees

func docFromJSON(text []byte) (any, error) {
	d := json.NewDecoder(bytes.NewReader(text))
	d.UseNumber()
	var x any
	if err := d.Decode(&x); err != nil {
		return nil, err
	}
	return docTree(x), nil
}

func docTree(x any) any {
	switch t := x.(type) {
	case nil:
		return map[string]any{"j": "null"}
	case bool:
		return map[string]any{"j": "bool", "b": t}
	case json.Number:
		lit := string(t)
		neg := strings.HasPrefix(lit, "-")
		lit = strings.TrimPrefix(lit, "-")
		exp := ""
		if i := strings.IndexAny(lit, "eE"); i >= 0 {
			lit, exp = lit[:i], lit[i+1:]
		}
		ip, fp := lit, ""
		if i := strings.Index(lit, "."); i >= 0 {
			ip, fp = lit[:i], lit[i+1:]
		}
		dg := func(s string) []int {
			r := make([]int, len(s))
			for i := range s {
				r[i] = int(s[i] - '0')
			}
			return r
		}
		m := map[string]any{"j": "num", "n": neg, "d": dg(ip), "f": dg(fp)}
		if exp != "" {
			m["e"] = exp
		}
		return m
	case string:
		return map[string]any{"j": "str", "s": fromBytes([]byte(t))}
	case []any:
		a := make([]any, len(t))
		for i := range t {
			a[i] = docTree(t[i])
		}
		return map[string]any{"j": "arr", "a": a}
	case map[string]any:
		o := map[string]any{}
		for k, v := range t {
			o[k] = docTree(v)
		}
		return map[string]any{"j": "obj", "o": o}
	}
	panic(fmt.Sprintf("docTree %T", x))
}

// docToGo turns a document tree into what encoding/json would hand to MapDecode.
func docToGo(tree any) any {
	m := tree.(map[string]any)
	switch m["j"].(string) {
	case "null":
		return nil
	case "bool":
		return m["b"].(bool)
	case "num":
		var sb strings.Builder
		if m["n"].(bool) {
			sb.WriteByte('-')
		}
		for _, d := range ints(m["d"]) {
			sb.WriteByte(byte('0' + d))
		}
		if f := ints(m["f"]); len(f) > 0 {
			sb.WriteByte('.')
			for _, d := range f {
				sb.WriteByte(byte('0' + d))
			}
		}
		x, err := strconv.ParseFloat(sb.String(), 64)
		if err != nil {
			panic(err)
		}
		return x
	case "str":
		return string(toBytes(m["s"]))
	case "arr":
		a, _ := m["a"].([]any)
		r := make([]any, len(a))
		for i := range a {
			r[i] = docToGo(a[i])
		}
		return r
	case "obj":
		r := map[string]any{}
		for k, v := range obj(m["o"]) {
			r[k] = docToGo(v)
		}
		return r
	}
	panic("doc " + canon(tree))
}

// normDoc rewrites the TLC spelling of the empty object ("o":[]) so that trees compare.
func normDoc(tree any) any {
	m, ok := tree.(map[string]any)
	if !ok {
		return tree
	}
	switch m["j"] {
	case "arr":
		a, _ := m["a"].([]any)
		r := make([]any, len(a))
		for i := range a {
			r[i] = normDoc(a[i])
		}
		return map[string]any{"j": "arr", "a": r}
	case "obj":
		r := map[string]any{}
		for k, v := range obj(m["o"]) {
			r[k] = normDoc(v)
		}
		return map[string]any{"j": "obj", "o": r}
	}
	return m
}

// normVal rewrites TLC's empty function ([]) inside value trees according to the schema.
func normVal(s *jschema, tree any) any {
	switch s.T {
	case "slice", "array":
		a, _ := tree.([]any)
		r := make([]any, len(a))
		for i := range a {
			r[i] = normVal(s.E, a[i])
		}
		return r
	case "map":
		r := map[string]any{}
		for k, v := range obj(tree) {
			r[k] = normVal(s.E, v)
		}
		return r
	case "struct":
		m := obj(tree)
		r := map[string]any{}
		for _, f := range s.Fields {
			x := m[f.Key]
			if f.Opt && !f.Emb {
				a, _ := x.([]any)
				if len(a) == 0 {
					r[f.Key] = []any{}
				} else {
					r[f.Key] = []any{normVal(f.S, a[0])}
				}
				continue
			}
			r[f.Key] = normVal(f.S, x)
		}
		return r
	case "ptr":
		return normVal(s.E, tree)
	case "iface":
		m, ok := tree.(map[string]any)
		if !ok {
			return tree
		}
		c := int(m["code"].(float64))
		return map[string]any{"code": c, "v": normVal(s.alt(c), m["v"])}
	}
	return tree
}

// ---------------------------------------------------------------- real calls

type jsonCat struct {
	api    *serix.API
	types  map[string]*jschema
	order  []string
	rawSch map[string]any
}

func newJSONCat() *jsonCat {
	return &jsonCat{api: newCatAPI(), types: map[string]*jschema{}, rawSch: map[string]any{}}
}

func (c *jsonCat) addType(m map[string]any) {
	id := m["id"].(string)
	if _, ok := c.types[id]; !ok {
		c.order = append(c.order, id)
	}
	c.types[id] = parseSchema(m["s"])
	c.rawSch[id] = m["s"]
}

type decOut struct {
	Ok    bool   `json:"ok"`
	V     any    `json:"v"`
	Err   string `json:"err,omitempty"`
	Panic string `json:"panic,omitempty"`
}

func opts(validation bool) []serix.Option {
	if validation {
		return []serix.Option{serix.WithValidation()}
	}
	return nil
}

// encode = JSONEncode of the Go value built from the tree; returns the text.
func (c *jsonCat) encode(id string, tree any, validation bool) (text []byte, err error, pmsg string) {
	s := c.types[id]
	o := guarded(false, false, func() {
		gv := build(s, tree, catTypes[id])
		p := reflect.New(catTypes[id])
		p.Elem().Set(gv)
		text, err = c.api.JSONEncode(context.Background(), p.Interface(), opts(validation)...)
	})
	if o.panicked {
		return nil, nil, o.pmsg
	}
	return text, err, ""
}

// mapDecode feeds a Go-side document (map[string]any) to MapDecode.
func (c *jsonCat) mapDecode(id string, m map[string]any, validation bool) decOut {
	s := c.types[id]
	var out decOut
	o := guarded(false, false, func() {
		p := reflect.New(catTypes[id])
		if err := c.api.MapDecode(context.Background(), m, p.Interface(), opts(validation)...); err != nil {
			out.Err = err.Error()
			return
		}
		out.Ok, out.V = true, project(s, p.Elem())
	})
	if o.panicked {
		out = decOut{Panic: o.pmsg}
	}
	return out
}

func (c *jsonCat) jsonDecode(id string, text []byte, validation bool) decOut {
	s := c.types[id]
	var out decOut
	o := guarded(false, false, func() {
		p := reflect.New(catTypes[id])
		if err := c.api.JSONDecode(context.Background(), text, p.Interface(), opts(validation)...); err != nil {
			out.Err = err.Error()
			return
		}
		out.Ok, out.V = true, project(s, p.Elem())
	})
	if o.panicked {
		out = decOut{Panic: o.pmsg}
	}
	return out
}

// ---------------------------------------------------------------- model -> code

type jsonCase struct {
	ID   string `json:"id"`
	S    any    `json:"s"`
	V    any    `json:"v,omitempty"`
	Doc  any    `json:"doc"`
	Want any    `json:"want,omitempty"`
	Val  bool   `json:"validation"`
}

func short(s string, n int) string {
	if len(s) > n {
		return s[:n] + "..."
	}
	return s
}

// panicClass names a decoder panic after what the model says about the document: the first
// (schema kind, JSON type) the model refuses, or "valid-document".
func panicClass(w map[string]any) string {
	if at, ok := w["at"].([]any); ok && len(at) == 2 {
		return fmt.Sprintf("%s<-%s", at[0], at[1])
	}
	return "valid-document"
}

func cmdJSONTable(args []string) int {
	fs := flag.NewFlagSet("json-table", flag.ExitOnError)
	rtPath := fs.String("rt", "", "")
	totPath := fs.String("tot", "", "")
	out := fs.String("out", "", "")
	_ = fs.Int64("seed", 1, "")
	_ = fs.Parse(args)
	rep := newReport()
	cat := newJSONCat()
	load := func(path string, f func(m map[string]any)) int {
		if path == "" {
			return 0
		}
		// TYPE rows first
		if err := forEachLine(path, func(m map[string]any) {
			if _, ok := m["s"]; ok && m["v"] == nil && m["doc"] == nil {
				cat.addType(m)
			}
		}); err != nil {
			fmt.Fprintln(os.Stderr, err)
			return 2
		}
		if err := forEachLine(path, func(m map[string]any) {
			if _, ok := m["doc"]; ok {
				f(m)
			}
		}); err != nil {
			fmt.Fprintln(os.Stderr, err)
			return 2
		}
		return 0
	}
	if rc := load(*rtPath, func(m map[string]any) {
		id := m["id"].(string)
		s := cat.types[id]
		rep.Rows++
		rep.PerKind["rt:"+id]++
		want := normVal(s, m["v"])
		wantDoc := normDoc(m["doc"])
		for _, val := range []bool{false, true} {
			c := jsonCase{ID: id, S: cat.rawSch[id], V: m["v"], Doc: m["doc"], Val: val}
			text, err, pmsg := cat.encode(id, m["v"], val)
			rep.Calls++
			switch {
			case pmsg != "":
				rep.bad("JSONEncode:panics:"+id, fmt.Sprintf("JSONEncode of %s value %s panicked: %s", id, short(canon(want), 200), pmsg), c)
				continue
			case err != nil:
				rep.bad("JSONEncode:refuses-value:"+id, fmt.Sprintf("JSONEncode of %s value %s failed: %v", id, short(canon(want), 200), err), c)
				continue
			}
			doc, derr := docFromJSON(text)
			if derr != nil || canon(doc) != canon(wantDoc) {
				rep.bad("JSONEncode:document-differs-from-model:"+id, fmt.Sprintf("JSONEncode of %s value %s produced %s, the model's document is %s",
					id, short(canon(want), 160), short(string(text), 300), short(canon(docToGo(wantDoc)), 300)), c)
			}
			text2, _, _ := cat.encode(id, m["v"], val)
			if !bytes.Equal(text, text2) {
				rep.Notes["JSONEncode:key-order-differs-between-two-encodings"]++
			}
			// decode what the real encoder produced (MapDecode via encoding/json, and JSONDecode), and the model's document
			var mm map[string]any
			_ = json.Unmarshal(text, &mm)
			modelText, _ := json.Marshal(docToGo(wantDoc))
			for _, d := range []struct {
				name string
				got  decOut
			}{{"MapDecode(MapEncode(v))", cat.mapDecode(id, mm, val)}, {"JSONDecode(JSONEncode(v))", cat.jsonDecode(id, text, val)},
				{"JSONDecode(model document)", cat.jsonDecode(id, modelText, val)}} {
				rep.Calls++
				fn := strings.SplitN(d.name, "(", 2)[0]
				switch {
				case d.got.Panic != "":
					rep.bad(fn+":round-trip-panics:"+id, fmt.Sprintf("%s of %s value %s panicked: %s (document %s)", d.name, id, short(canon(want), 120), d.got.Panic, short(string(text), 200)), c)
				case !d.got.Ok:
					rep.bad(fn+":round-trip-fails:"+id, fmt.Sprintf("%s of %s value %s failed: %s (document %s)", d.name, id, short(canon(want), 120), short(d.got.Err, 200), short(string(text), 200)), c)
				case canon(d.got.V) != canon(want):
					rep.bad(fn+":round-trip-wrong-value:"+id, fmt.Sprintf("%s of %s gave %s instead of %s", d.name, id, short(canon(d.got.V), 200), short(canon(want), 200)), c)
				}
			}
		}
	}); rc != 0 {
		return rc
	}
	if rc := load(*totPath, func(m map[string]any) {
		id := m["id"].(string)
		s := cat.types[id]
		rep.Rows++
		rep.PerKind["tot:"+id]++
		doc := normDoc(m["doc"])
		w := m["w"].(map[string]any)
		gdoc := docToGo(doc)
		text, _ := json.Marshal(gdoc)
		for _, val := range []bool{false, true} {
			c := jsonCase{ID: id, S: cat.rawSch[id], Doc: m["doc"], Want: w, Val: val}
			var outs []struct {
				fn  string
				got decOut
			}
			if mm, ok := gdoc.(map[string]any); ok {
				outs = append(outs, struct {
					fn  string
					got decOut
				}{"MapDecode", cat.mapDecode(id, mm, val)})
			}
			outs = append(outs, struct {
				fn  string
				got decOut
			}{"JSONDecode", cat.jsonDecode(id, text, val)})
			for _, d := range outs {
				rep.Calls++
				wok := w["ok"].(bool)
				switch {
				case d.got.Panic != "":
					rep.bad(d.fn+":wrong-type-panics:"+panicClass(w), fmt.Sprintf("%s into %s of the well-formed document %s panicked: %s", d.fn, id, short(string(text), 300), d.got.Panic), c)
				case wok && d.got.Ok:
					if canon(d.got.V) != canon(normVal(s, w["v"])) {
						rep.bad(d.fn+":valid-document-wrong-value:"+id, fmt.Sprintf("%s into %s of %s gave %s, the model reads %s", d.fn, id, short(string(text), 200), short(canon(d.got.V), 200), short(canon(normVal(s, w["v"])), 200)), c)
					}
					rep.Notes["agree:accept"]++
				case !wok && !d.got.Ok:
					rep.Notes["agree:reject"]++
				case wok:
					rep.Notes["code-stricter-than-model:"+id]++
				default:
					rep.Notes["code-more-lenient-than-model:"+panicClass(w)]++
				}
			}
		}
	}); rc != 0 {
		return rc
	}
	rep.write(*out)
	return 0
}

// ---------------------------------------------------------------- code -> model

type jsonRec struct {
	K    string `json:"k"`
	ID   string `json:"id"`
	Val  bool   `json:"validation"`
	V    any    `json:"v"`
	Doc  any    `json:"doc"`
	Enc  string `json:"enc"` // "ok" | "err" | "panic"
	Dec  decOut `json:"dec"`
	JDec decOut `json:"jdec"`
	Text string `json:"text,omitempty"`
}

func randNum(r *rand.Rand, kind string) any {
	bits := intBits[kind]
	var x uint64
	switch r.Intn(5) {
	case 0:
		x = 0
	case 1:
		x = ^uint64(0)
	case 2:
		x = uint64(1) << uint(r.Intn(bits))
	default:
		x = r.Uint64()
	}
	x &= ^uint64(0) >> uint(64-bits)
	if kind[0] == 'u' {
		return numTree(new(big.Int).SetUint64(x))
	}
	sx := int64(x<<uint(64-bits)) >> uint(64-bits)
	return numTree(big.NewInt(sx))
}

func randText(r *rand.Rand) []int {
	alphabet := []string{"a", "Z", "0", " ", "\"", "\\", "/", "ä", "€", "\n", "\u0001", "<", "0x", "日"}
	var sb strings.Builder
	for i, n := 0, r.Intn(6); i < n; i++ {
		sb.WriteString(alphabet[r.Intn(len(alphabet))])
	}
	return fromBytes([]byte(sb.String()))
}

func randVal(r *rand.Rand, s *jschema, depth int) any {
	switch s.T {
	case "bool":
		return r.Intn(2) == 0
	case "u8", "u16", "u32", "u64", "i8", "i16", "i32", "i64":
		return randNum(r, s.T)
	case "f32":
		fs := []float32{0, 1, -1, 0.5, 0.33, 1e6, -2.5e-7, 3.4028235e38, 1.4e-45, float32(r.NormFloat64())}
		return fromBytes([]byte(strconv.FormatFloat(float64(fs[r.Intn(len(fs))]), 'g', -1, 64)))
	case "f64":
		fs := []float64{0, 1, -1, 0.44, 1e21, 1e-7, -1.7976931348623157e308, 5e-324, r.NormFloat64() * 1e9}
		return fromBytes([]byte(strconv.FormatFloat(fs[r.Intn(len(fs))], 'g', -1, 64)))
	case "string":
		return randText(r)
	case "bytes":
		return randBytes(r, r.Intn(5))
	case "barray", "tbarray":
		return randBytes(r, s.N)
	case "bigint":
		b := toBytes(jsonRound(randBytes(r, []int{0, 1, 2, 31, 32}[r.Intn(5)])))
		return fromBytes(new(big.Int).SetBytes(b).Bytes())
	case "time":
		return numTree(new(big.Int).SetUint64(r.Uint64() >> uint(1+r.Intn(40))))
	case "slice":
		n := r.Intn(4)
		if depth > 2 {
			n = r.Intn(2)
		}
		a := make([]any, n)
		for i := range a {
			a[i] = randVal(r, s.E, depth+1)
		}
		return a
	case "array":
		a := make([]any, s.N)
		for i := range a {
			a[i] = randVal(r, s.E, depth+1)
		}
		return a
	case "map":
		m := map[string]any{}
		for i, n := 0, r.Intn(4); i < n; i++ {
			m[string(toBytes(jsonRound(randText(r))))+strconv.Itoa(i)] = randVal(r, s.E, depth+1)
		}
		return m
	case "struct":
		m := map[string]any{}
		for _, f := range s.Fields {
			if f.Opt && !f.Emb {
				if r.Intn(2) == 0 {
					m[f.Key] = []any{}
				} else {
					m[f.Key] = []any{randVal(r, f.S, depth+1)}
				}
				continue
			}
			m[f.Key] = randVal(r, f.S, depth+1)
		}
		return m
	case "ptr":
		return randVal(r, s.E, depth)
	case "iface":
		a := s.Alts[r.Intn(len(s.Alts))]
		return map[string]any{"code": a.Code[0], "v": randVal(r, a, depth+1)}
	}
	panic("schema " + s.T)
}

// mutateDoc replaces / removes / adds one node of the document (Go form).
func mutateDoc(r *rand.Rand, d any) any {
	junk := []any{nil, true, false, 0.0, 1.5, -1.0, 4294967296.0, "", "a", "0x00", "0x0", "0xzz", "18446744073709551616", "-1", "1e400", "NaN",
		[]any{}, map[string]any{}, []any{nil}, []any{1.0, "a"}, map[string]any{"type": "x"}, map[string]any{"type": 255.0}, map[string]any{"type": 1.0, "data": 5.0}}
	nodes := 0
	var count func(x any)
	count = func(x any) {
		nodes++
		switch t := x.(type) {
		case []any:
			for _, e := range t {
				count(e)
			}
		case map[string]any:
			for _, e := range t {
				count(e)
			}
		}
	}
	count(d)
	target, drop := r.Intn(nodes), r.Intn(4) == 0
	i := -1
	type dropped struct{}
	var walk func(x any) any
	walk = func(x any) any {
		i++
		if i == target {
			if drop {
				return dropped{}
			}
			return junk[r.Intn(len(junk))]
		}
		switch t := x.(type) {
		case []any:
			o := []any{}
			for _, e := range t {
				if w := walk(e); w != (dropped{}) {
					o = append(o, w)
				}
			}
			return o
		case map[string]any:
			keys := make([]string, 0, len(t))
			for k := range t {
				keys = append(keys, k)
			}
			sort.Strings(keys)
			o := map[string]any{}
			for _, k := range keys {
				if w := walk(t[k]); w != (dropped{}) {
					o[k] = w
				}
			}
			return o
		}
		return x
	}
	w := walk(d)
	if w == (dropped{}) {
		return map[string]any{}
	}
	return w
}

func cmdJSONRecords(args []string) int {
	fs := flag.NewFlagSet("json-records", flag.ExitOnError)
	seed := fs.Int64("seed", 1, "")
	n := fs.Int("n", 1000, "")
	out := fs.String("out", "", "")
	types := fs.String("types", "", "")
	_ = fs.Parse(args)
	r := rand.New(rand.NewSource(*seed))
	cat := newJSONCat()
	if err := forEachLine(*types, func(m map[string]any) { cat.addType(m) }); err != nil || len(cat.order) == 0 {
		fmt.Fprintln(os.Stderr, "no types", err)
		return 2
	}
	s := newSink(*out)
	for i := 0; i < *n; i++ {
		id := cat.order[r.Intn(len(cat.order))]
		sch := cat.types[id]
		val := r.Intn(2) == 0
		v := jsonRound(randVal(r, sch, 0))
		rec := jsonRec{K: "rt", ID: id, Val: val, V: v, Doc: map[string]any{"j": "null"}, Dec: decOut{V: []any{}}, JDec: decOut{V: []any{}}}
		text, err, pmsg := cat.encode(id, v, val)
		switch {
		case pmsg != "":
			rec.Enc, rec.Text = "panic", pmsg
			s.emit(rec)
			continue
		case err != nil:
			rec.Enc, rec.Text = "err", err.Error()
			s.emit(rec)
			continue
		}
		rec.Enc = "ok"
		doc, derr := docFromJSON(text)
		if derr != nil {
			rec.Enc, rec.Text = "err", "JSONEncode produced malformed JSON: "+derr.Error()
			s.emit(rec)
			continue
		}
		var mm map[string]any
		_ = json.Unmarshal(text, &mm)
		if i%3 != 2 {
			rec.Doc = doc
			rec.Dec = cat.mapDecode(id, mm, val)
			rec.JDec = cat.jsonDecode(id, text, val)
		} else {
			rec.K = "mut"
			md, _ := mutateDoc(r, mm).(map[string]any)
			if md == nil {
				md = map[string]any{}
			}
			mtext, _ := json.Marshal(md)
			mdoc, derr := docFromJSON(mtext)
			if derr != nil || bytes.Contains(mtext, []byte("e+")) { // numbers in exponent notation are outside the document model
				continue
			}
			var m2 map[string]any
			_ = json.Unmarshal(mtext, &m2)
			rec.Doc = mdoc
			rec.V = []any{}
			rec.Dec = cat.mapDecode(id, m2, val)
			rec.JDec = cat.jsonDecode(id, mtext, val)
			rec.Text = string(mtext)
		}
		if rec.Dec.V == nil {
			rec.Dec.V = []any{}
		}
		if rec.JDec.V == nil {
			rec.JDec.V = []any{}
		}
		s.emit(rec)
	}
	s.close()
	fmt.Printf("{\"records\": %d}\n", s.n)
	return 0
}

func cmdJSONOne(args []string) int {
	b, err := os.ReadFile(args[0])
	if err != nil {
		fmt.Fprintln(os.Stderr, err)
		return 2
	}
	var c map[string]any
	if err := json.Unmarshal(b, &c); err != nil {
		fmt.Fprintln(os.Stderr, err)
		return 2
	}
	cat := newJSONCat()
	id := c["id"].(string)
	if c["s"] != nil {
		cat.addType(map[string]any{"id": id, "s": c["s"]})
	} else if len(args) > 1 { // records carry no schema: take it from the TYPE rows
		_ = forEachLine(args[1], func(m map[string]any) { cat.addType(m) })
	}
	if cat.types[id] == nil {
		fmt.Fprintln(os.Stderr, "no schema for", id)
		return 2
	}
	val, _ := c["validation"].(bool)
	rc := 0
	if v, ok := c["v"]; ok && v != nil {
		text, err, pmsg := cat.encode(id, v, val)
		fmt.Printf("JSONEncode(%s): %s err=%v panic=%q\n", id, text, err, pmsg)
		if pmsg != "" || err != nil {
			return 1
		}
		var mm map[string]any
		_ = json.Unmarshal(text, &mm)
		for name, d := range map[string]decOut{"MapDecode": cat.mapDecode(id, mm, val), "JSONDecode": cat.jsonDecode(id, text, val)} {
			fmt.Printf("%s: ok=%v err=%q panic=%q value=%s\n", name, d.Ok, d.Err, d.Panic, short(canon(d.V), 300))
			if !d.Ok || canon(d.V) != canon(normVal(cat.types[id], v)) {
				rc = 1
			}
		}
		if doc, _ := docFromJSON(text); canon(doc) != canon(normDoc(c["doc"])) {
			fmt.Println("document differs from the model's")
			rc = 1
		}
		return rc
	}
	gdoc := docToGo(normDoc(c["doc"]))
	text, _ := json.Marshal(gdoc)
	if mm, ok := gdoc.(map[string]any); ok {
		d := cat.mapDecode(id, mm, val)
		fmt.Printf("MapDecode(%s <- %s): ok=%v err=%q panic=%q\n", id, text, d.Ok, short(d.Err, 200), d.Panic)
		if d.Panic != "" {
			rc = 1
		}
	}
	d := cat.jsonDecode(id, text, val)
	fmt.Printf("JSONDecode(%s <- %s): ok=%v err=%q panic=%q\n", id, text, d.Ok, short(d.Err, 200), d.Panic)
	if d.Panic != "" {
		rc = 1
	}
	return rc
}
