package wire2

// The catalogue of Go types behind spec/wire/WireJsonCat.tla (id = type name).  The JSON shape of each
// type is written down independently in the TLA+ module; this file only declares the types and
// registers them with a serix API the way an application would.

import (
	"math/big"
	"reflect"
	"time"

	"github.com/iotaledger/hive.go/serializer/v2/serix"
)

type Inner struct {
	A uint8  `serix:""`
	S string `serix:",lenPrefix=uint8"`
}

type Basic struct {
	Uint64    uint64  `serix:""`
	Uint32    uint32  `serix:""`
	Uint16    uint16  `serix:""`
	Uint8     uint8   `serix:""`
	Int64     int64   `serix:""`
	Int32     int32   `serix:""`
	Int16     int16   `serix:""`
	Int8      int8    `serix:""`
	ZeroInt32 int32   `serix:",omitempty"`
	Float32   float32 `serix:""`
	Float64   float64 `serix:""`
	String    string  `serix:",lenPrefix=uint8"`
	Bool      bool    `serix:""`
}

type Nested struct {
	Inner  Inner  `serix:""`
	Ptr    *Inner `serix:""`
	Opt    *Inner `serix:",optional"`
	NodeID uint16 `serix:""`
	Custom uint8  `serix:"myKey"`
}

type Slices struct {
	U16s   []uint16 `serix:",lenPrefix=uint8"`
	Blobs  [][]byte `serix:",lenPrefix=uint8"`
	Strs   []string `serix:",lenPrefix=uint8"`
	Inners []Inner  `serix:",lenPrefix=uint8"`
	Ptrs   []*Inner `serix:",lenPrefix=uint8"`
	OmitS  []uint16 `serix:",lenPrefix=uint8,omitempty"`
}

type Maps struct {
	M1 map[string]uint8 `serix:",lenPrefix=uint8"`
	M2 map[string]Inner `serix:",lenPrefix=uint8"`
}

type (
	Shape  interface{}
	Circle struct {
		R uint8 `serix:""`
	}
	Rect struct {
		W uint16 `serix:""`
		H uint16 `serix:""`
	}
	Tag [4]byte
)

type Ifaces struct {
	One  Shape   `serix:""`
	Many []Shape `serix:",lenPrefix=uint8"`
	OptI Shape   `serix:",optional"`
}

type TArr [2]byte

type ByteArrs struct {
	Arr   [4]byte   `serix:""`
	Typed *TArr     `serix:""`
	IDs   [][2]byte `serix:",lenPrefix=uint8"`
}

type Big struct {
	N *big.Int  `serix:""`
	T time.Time `serix:""`
}

type Embed struct {
	Inner `serix:""`
	Extra uint8 `serix:""`
}

type Inl struct {
	In Inner `serix:",inlined"`
	Z  bool  `serix:""`
}

type Arr16 struct {
	Pair [2]uint16 `serix:",lenPrefix=uint8"`
}

type (
	Shape2 interface{}
	Group  struct {
		Members []*Inner `serix:",lenPrefix=uint8"`
		Leader  *Inner   `serix:",optional"`
	}
)

// OmitPtrs: omitempty on a POINTER field. The key is left out for a nil pointer only - a pointer to a zero value is a value.
type OmitPtrs struct {
	P *Inner `serix:",optional,omitempty"`
	Z uint8  `serix:""`
}

type Deep struct {
	Sh Shape2 `serix:""`
}

var catTypes = map[string]reflect.Type{
	"Inner": reflect.TypeOf(Inner{}), "Basic": reflect.TypeOf(Basic{}), "Nested": reflect.TypeOf(Nested{}),
	"Slices": reflect.TypeOf(Slices{}), "Maps": reflect.TypeOf(Maps{}), "Circle": reflect.TypeOf(Circle{}),
	"Rect": reflect.TypeOf(Rect{}), "Tag": reflect.TypeOf(Tag{}), "Ifaces": reflect.TypeOf(Ifaces{}),
	"TArr": reflect.TypeOf(TArr{}), "ByteArrs": reflect.TypeOf(ByteArrs{}), "Big": reflect.TypeOf(Big{}),
	"Embed": reflect.TypeOf(Embed{}), "Inl": reflect.TypeOf(Inl{}), "Arr16": reflect.TypeOf(Arr16{}),
	"Group": reflect.TypeOf(Group{}), "Deep": reflect.TypeOf(Deep{}), "OmitPtrs": reflect.TypeOf(OmitPtrs{}),
}

func mustReg(err error) {
	if err != nil {
		panic(err)
	}
}

func newCatAPI() *serix.API {
	api := serix.NewAPI()
	ot := func(c uint8) serix.TypeSettings { return serix.TypeSettings{}.WithObjectType(c) }
	mustReg(api.RegisterTypeSettings(Basic{}, ot(42)))
	mustReg(api.RegisterTypeSettings(Nested{}, ot(1)))
	mustReg(api.RegisterTypeSettings(Slices{}, ot(2)))
	mustReg(api.RegisterTypeSettings(Maps{}, ot(3)))
	mustReg(api.RegisterTypeSettings(Ifaces{}, ot(4)))
	mustReg(api.RegisterTypeSettings(ByteArrs{}, ot(5)))
	mustReg(api.RegisterTypeSettings(Big{}, ot(6)))
	mustReg(api.RegisterTypeSettings(Embed{}, ot(8)))
	mustReg(api.RegisterTypeSettings(Inl{}, ot(9)))
	mustReg(api.RegisterTypeSettings(Arr16{}, ot(10)))
	mustReg(api.RegisterTypeSettings(Deep{}, ot(11)))
	mustReg(api.RegisterTypeSettings(OmitPtrs{}, ot(12)))
	mustReg(api.RegisterTypeSettings(Circle{}, ot(0)))
	mustReg(api.RegisterTypeSettings(Rect{}, ot(1)))
	mustReg(api.RegisterTypeSettings(Tag{}, ot(2)))
	mustReg(api.RegisterTypeSettings(Group{}, ot(3)))
	mustReg(api.RegisterTypeSettings(TArr{}, ot(7).WithFieldKey("otherObjKey")))
	mustReg(api.RegisterInterfaceObjects((*Shape)(nil), (*Circle)(nil), (*Rect)(nil), (*Tag)(nil)))
	mustReg(api.RegisterInterfaceObjects((*Shape2)(nil), (*Group)(nil), (*Circle)(nil)))
	return api
}
