package wire2

// stream.ByteBuffer / stream.ByteReader <-> spec/wire/StreamBuf.tla (sequential cfg/ev/Do convention).

import (
	"io"
	"math/rand"

	"github.com/iotaledger/hive.go/serializer/v2/stream"

	"verifharness/core"
)

type byteBufSUT struct{ b *stream.ByteBuffer }

func init() { core.Register("StreamBuf", func() core.SUT { return &byteBufSUT{} }) }

func (s *byteBufSUT) Reset(cfg core.Ev) { s.b = stream.NewByteBuffer(core.Int(cfg, "init")) }

func (s *byteBufSUT) st() any {
	content, _ := s.b.Bytes()
	pos, _ := stream.Offset(s.b)
	return core.Ev{"bytes": core.Seq(fromBytes(content)), "pos": int(pos), "len": len(content)}
}

func (s *byteBufSUT) Apply(e core.Ev) (any, any) {
	switch core.Str(e, "op") {
	case "Write":
		p := core.Ints(e, "p")
		b := make([]byte, len(p))
		for i := range p {
			b[i] = byte(p[i])
		}
		n, err := s.b.Write(b)
		return core.Ev{"n": n, "err": errName(err)}, s.st()
	case "Seek":
		pos, err := s.b.Seek(int64(core.Int(e, "off")), core.Int(e, "whence"))
		return core.Ev{"pos": int(pos), "err": errName(err)}, s.st()
	case "ReadAll":
		r := s.b.Reader()
		all, _ := io.ReadAll(r)
		return core.Ev{"bytes": core.Seq(fromBytes(all)), "read": r.BytesRead()}, s.st()
	}
	panic("unknown op")
}

func errName(err error) string {
	if err == nil {
		return "ok"
	}
	return "negative"
}

func (s *byteBufSUT) RandomCfg(r *rand.Rand) core.Ev { return core.Ev{"init": r.Intn(4)} }

func (s *byteBufSUT) RandomStimulus(r *rand.Rand) core.Ev {
	switch r.Intn(5) {
	case 0, 1:
		p := make([]any, 1+r.Intn(5))
		for i := range p {
			p[i] = r.Intn(256)
		}
		return core.Ev{"op": "Write", "p": p}
	case 2, 3:
		return core.Ev{"op": "Seek", "off": r.Intn(9) - 4, "whence": r.Intn(3)}
	}
	return core.Ev{"op": "ReadAll"}
}
