package wire2

// serializer/stream helpers <-> spec/wire/Stream.tla
//
//	h stream-table  -rt rt.ndjson -tot tot.ndjson -out rep.json [-seed S]   model -> code
//	h stream-records -seed S -n N -out recs.ndjson                           code -> model
//	h stream-one    in.json -out rec.ndjson                                  replay of one case

import (
	"bytes"
	"encoding/json"
	"flag"
	"fmt"
	"io"
	"math/rand"
	"os"
	"os/exec"
	"strings"
	"testing/iotest"

	"github.com/iotaledger/hive.go/serializer/v2"
	"github.com/iotaledger/hive.go/serializer/v2/stream"
	"github.com/iotaledger/hive.go/serializer/v2/typeutils"

	"verifharness/core"
)

func init() {
	core.RegisterCommand("stream-table", cmdStreamTable)
	core.RegisterCommand("stream-records", cmdStreamRecords)
	core.RegisterCommand("stream-one", cmdStreamOne)
}

// helper mirrors Stream!H(kind, a, b).
type helper struct {
	H string `json:"h"`
	A int    `json:"a"`
	B int    `json:"b"`
}

func parseHelper(v any) helper {
	m := v.(map[string]any)
	return helper{m["h"].(string), int(m["a"].(float64)), int(m["b"].(float64))}
}

var readerName = map[string]string{"Num": "Read", "Bool": "Read", "Bytes": "ReadBytes", "BytesSz": "ReadBytesWithSize",
	"Obj": "ReadObject", "ObjSz": "ReadObjectWithSize", "Coll": "ReadCollection", "Peek": "PeekSize"}

func (h helper) reader() string { return "stream." + readerName[h.H] }

func (h helper) String() string {
	switch h.H {
	case "Num":
		if h.A == 32 {
			return "Read[[32]byte]"
		}
		return fmt.Sprintf("Read[uint%d]", 8*h.A)
	case "Bool":
		return "Read[bool]"
	case "Bytes":
		return fmt.Sprintf("ReadBytes(%d)", h.A)
	case "Obj":
		return fmt.Sprintf("ReadObject(fixedLen %d)", h.A)
	case "Coll":
		return fmt.Sprintf("ReadCollection(%d-byte prefix, uint%d elements)", h.A, 8*h.B)
	}
	return fmt.Sprintf("%s(%d-byte prefix)", readerName[h.H], h.A)
}

func lenType(w int) serializer.SeriLengthPrefixType {
	switch w {
	case 1:
		return serializer.SeriLengthPrefixTypeAsByte
	case 2:
		return serializer.SeriLengthPrefixTypeAsUint16
	case 4:
		return serializer.SeriLengthPrefixTypeAsUint32
	case 8:
		return serializer.SeriLengthPrefixTypeAsUint64
	}
	panic("prefix width")
}

func hasPrefix(h helper) bool {
	return h.H == "BytesSz" || h.H == "ObjSz" || h.H == "Coll" || h.H == "Peek"
}

// ---------------------------------------------------------------- the real writer

// writeEnvs are the writer situations a helper is exercised in: a fresh buffer, a pre-sized one
// (stream.NewByteBuffer(n): n zero bytes, written from position 0) and a section of an already written
// buffer that is rewritten in place.  In all of them the helper has to write its encoding at the current
// position, leave the position right behind it and touch nothing else.
const writeEnvs = 3

// streamWrite writes v with the real stream.Write* helper into a stream.ByteBuffer.
func streamWrite(h helper, v any, signed bool) ([]byte, error) { return streamWriteEnv(h, v, signed, 0, 0) }

// streamWriteEnv does so in writer situation env; hint is the expected length of the encoding.  It returns
// the bytes between the position before and the position after the write.
func streamWriteEnv(h helper, v any, signed bool, env, hint int) ([]byte, error) {
	w := stream.NewByteBuffer()
	start := 0
	switch env {
	case 1:
		w = stream.NewByteBuffer(hint + 3)
	case 2:
		start = 2
		if _, err := w.Write(append([]byte{0xa1, 0xa2}, bytes.Repeat([]byte{0xcc}, hint+3)...)); err != nil {
			return nil, err
		}
		if _, err := w.Seek(int64(start), io.SeekStart); err != nil {
			return nil, err
		}
	}
	before, _ := w.Bytes()
	before = append([]byte{}, before...)
	var err error
	switch h.H {
	case "Num":
		x := leU64(leBytes(ints(v)))
		switch {
		case h.A == 1 && !signed:
			err = stream.Write(w, uint8(x))
		case h.A == 1:
			err = stream.Write(w, int8(x))
		case h.A == 2 && !signed:
			err = stream.Write(w, uint16(x))
		case h.A == 2:
			err = stream.Write(w, int16(x))
		case h.A == 4 && !signed:
			err = stream.Write(w, uint32(x))
		case h.A == 4:
			err = stream.Write(w, int32(x))
		case h.A == 8 && !signed:
			err = stream.Write(w, x)
		case h.A == 8:
			err = stream.Write(w, int64(x))
		case h.A == 32:
			var a [32]byte
			copy(a[:], leBytes(ints(v)))
			err = stream.Write(w, a)
		default:
			panic("num width")
		}
	case "Bool":
		err = stream.Write(w, ints(v)[0] != 0)
	case "Bytes":
		err = stream.WriteBytes(w, toBytes(v))
	case "BytesSz", "Peek":
		err = stream.WriteBytesWithSize(w, toBytes(v), lenType(h.A))
	case "Obj":
		switch h.A {
		case 8:
			err = stream.WriteObject(w, leU64(toBytes(v)), typeutils.Uint64ToBytes)
		case 32:
			var a [32]byte
			copy(a[:], toBytes(v))
			err = stream.WriteObject(w, a, typeutils.ByteArray32ToBytes)
		default:
			err = stream.WriteObject(w, toBytes(v), func(t []byte) ([]byte, error) { return t, nil })
		}
	case "ObjSz":
		err = stream.WriteObjectWithSize(w, toBytes(v), lenType(h.A), func(t []byte) ([]byte, error) { return t, nil })
	case "Coll":
		elems, _ := v.([]any)
		err = stream.WriteCollection(w, lenType(h.A), func() (int, error) {
			for _, e := range elems {
				x := leU64(leBytes(ints(e)))
				var err error
				if h.B == 1 {
					err = stream.Write(w, uint8(x))
				} else {
					err = stream.Write(w, uint16(x))
				}
				if err != nil {
					return 0, err
				}
			}
			return len(elems), nil
		})
	default:
		panic("helper " + h.H)
	}
	if err != nil {
		return nil, err
	}
	b, _ := w.Bytes()
	if env == 0 {
		return append([]byte{}, b...), nil
	}
	end64, err := stream.Offset(w)
	if err != nil {
		return nil, err
	}
	end := int(end64)
	if end < start || end > len(b) {
		return nil, fmt.Errorf("harness: writer position %d outside the buffer [%d,%d]", end, start, len(b))
	}
	res := append([]byte{}, b[start:end]...)
	// nothing outside [start,end) may have changed, and the next write continues at end
	wantLen := len(before)
	if end > wantLen {
		wantLen = end
	}
	if len(b) != wantLen || !bytes.Equal(b[:start], before[:start]) || (end < len(before) && !bytes.Equal(b[end:], before[end:])) {
		return append(res, 0xfd), nil // reported as a layout difference
	}
	if err := stream.Write(w, uint8(0xee)); err != nil {
		return nil, err
	}
	if b2, _ := w.Bytes(); len(b2) <= end || b2[end] != 0xee {
		return append(res, 0xfe), nil
	}
	return res, nil
}

// ---------------------------------------------------------------- the real reader

type readStats struct{ iters, cap int }

func readNum[T ~uint8 | ~uint16 | ~uint32 | ~uint64 | ~int8 | ~int16 | ~int32 | ~int64](r io.Reader, w int) (any, error) {
	x, err := stream.Read[T](r)
	if err != nil {
		return nil, err
	}
	return beDigits(u64LE(uint64(x), w)), nil
}

// streamRead reads with the real stream.Read* helper; the value comes back in the model's shape.
func streamRead(h helper, r io.Reader, signed bool, st *readStats) (any, error) {
	switch h.H {
	case "Num":
		switch {
		case h.A == 1 && !signed:
			return readNum[uint8](r, 1)
		case h.A == 1:
			return readNum[int8](r, 1)
		case h.A == 2 && !signed:
			return readNum[uint16](r, 2)
		case h.A == 2:
			return readNum[int16](r, 2)
		case h.A == 4 && !signed:
			return readNum[uint32](r, 4)
		case h.A == 4:
			return readNum[int32](r, 4)
		case h.A == 8 && !signed:
			return readNum[uint64](r, 8)
		case h.A == 8:
			return readNum[int64](r, 8)
		case h.A == 32:
			a, err := stream.Read[[32]byte](r)
			if err != nil {
				return nil, err
			}
			return beDigits(a[:]), nil
		}
		panic("num width")
	case "Bool":
		b, err := stream.Read[bool](r)
		if err != nil {
			return nil, err
		}
		if b {
			return []int{1}, nil
		}
		return []int{0}, nil
	case "Bytes":
		b, err := stream.ReadBytes(r, h.A)
		if err != nil {
			return nil, err
		}
		return fromBytes(b), nil
	case "BytesSz":
		b, err := stream.ReadBytesWithSize(r, lenType(h.A))
		if err != nil {
			return nil, err
		}
		return fromBytes(b), nil
	case "Obj":
		switch h.A {
		case 8:
			x, err := stream.ReadObject(r, 8, typeutils.Uint64FromBytes)
			if err != nil {
				return nil, err
			}
			return fromBytes(u64LE(x, 8)), nil
		case 32:
			a, err := stream.ReadObject(r, 32, typeutils.ByteArray32FromBytes)
			if err != nil {
				return nil, err
			}
			return fromBytes(a[:]), nil
		}
		b, err := stream.ReadObject(r, h.A, func(b []byte) ([]byte, int, error) { return append([]byte{}, b...), len(b), nil })
		if err != nil {
			return nil, err
		}
		return fromBytes(b), nil
	case "ObjSz":
		b, err := stream.ReadObjectWithSize(r, lenType(h.A), func(b []byte) ([]byte, int, error) { return append([]byte{}, b...), len(b), nil })
		if err != nil {
			return nil, err
		}
		return fromBytes(b), nil
	case "Coll":
		elems := [][]int{}
		err := stream.ReadCollection(r, lenType(h.A), func(int) error {
			st.iters++
			if st.iters > st.cap {
				return fmt.Errorf("harness: iteration cap %d exceeded", st.cap)
			}
			var e any
			var err error
			if h.B == 1 {
				e, err = readNum[uint8](r, 1)
			} else {
				e, err = readNum[uint16](r, 2)
			}
			if err != nil {
				return err
			}
			elems = append(elems, e.([]int))
			return nil
		})
		if err != nil {
			return nil, err
		}
		return elems, nil
	case "Peek":
		rs, ok := r.(io.ReadSeeker)
		if !ok {
			panic("PeekSize needs a ReadSeeker")
		}
		n, err := stream.PeekSize(rs, lenType(h.A))
		if err != nil {
			return nil, err
		}
		return beDigits(u64LE(uint64(n), h.A)), nil
	}
	panic("helper " + h.H)
}

// got is the observed outcome of one real read, in the shape of Stream!Parse.
type got struct {
	Ok    bool   `json:"ok"`
	V     any    `json:"v"`
	Used  int    `json:"used"`
	Panic string `json:"panic,omitempty"`
	Hung  bool   `json:"hung,omitempty"`
	Err   string `json:"-"`
	Alloc uint64 `json:"-"`
	Iters int    `json:"-"`
}

// readVia performs the real read of h from data through the reader built by mk; pos reports how many
// bytes the reader has handed out.
func readVia(h helper, signed bool, data []byte, measure bool, mk func() (io.Reader, func() int)) got {
	g := got{V: []int{}}
	st := &readStats{cap: len(data) + 8}
	var val any
	var err error
	var pos func() int
	o := guarded(measure, false, func() {
		var r io.Reader
		r, pos = mk()
		val, err = streamRead(h, r, signed, st)
	})
	g.Alloc, g.Iters = o.alloc, st.iters
	switch {
	case o.panicked:
		g.Panic = o.pmsg
	case err != nil:
		g.Err = err.Error()
	default:
		g.Ok, g.V, g.Used = true, val, pos() // (for PeekSize: the position after it seeked back)
	}
	return g
}

// claims returns the value of h's length prefix in data (0 if h has none / data is too short).
func claims(h helper, data []byte) uint64 {
	if !hasPrefix(h) || len(data) < h.A {
		return 0
	}
	return leU64(data[:h.A])
}

// readIsolated performs the read in a child process: a helper that allocates what a hostile prefix
// claims can kill the whole process ("fatal error: runtime: out of memory" cannot be recovered).
func readIsolated(h helper, signed bool, data []byte, chunks []int) got {
	f, err := os.CreateTemp("", "w2-case-*.json")
	if err != nil {
		panic(err)
	}
	defer os.Remove(f.Name())
	b, _ := json.Marshal(streamCase{H: h, Signed: signed, Input: fromBytes(data), Reader: "chunks", Chunks: chunks, Want: wantOutcome{V: []int{}}})
	f.Write(b)
	f.Close()
	out, err := exec.Command(os.Args[0], "stream-one", f.Name(), "-json").CombinedOutput()
	for _, line := range strings.Split(string(out), "\n") {
		if strings.HasPrefix(line, "GOT ") {
			var g struct {
				got
				Err   string
				Alloc uint64
			}
			if json.Unmarshal([]byte(line[4:]), &g) == nil {
				g.got.Err, g.got.Alloc = g.Err, g.Alloc
				if g.got.V == nil {
					g.got.V = []int{}
				}
				return g.got
			}
		}
	}
	msg := "child process died"
	if i := strings.Index(string(out), "fatal error:"); i >= 0 {
		msg = strings.SplitN(string(out)[i:], "\n", 2)[0] + " (not recoverable: the process dies)"
	}
	return got{V: []int{}, Panic: msg, Alloc: 1 << 30}
}

// dangerous: a byte-string helper whose prefix claims more than the address space can give.
func dangerous(h helper, data []byte) bool {
	return (h.H == "BytesSz" || h.H == "ObjSz") && claims(h, data) >= 1<<33
}

func viaChunks(data []byte, chunks []int) func() (io.Reader, func() int) {
	return func() (io.Reader, func() int) {
		c := newChunkReader(data, chunks)
		return c, func() int { return c.pos }
	}
}

func viaIotest(data []byte, wrap func(io.Reader) io.Reader) func() (io.Reader, func() int) {
	return func() (io.Reader, func() int) {
		br := bytes.NewReader(data)
		return zeroSafe{wrap(br)}, func() int { return len(data) - br.Len() }
	}
}

// zeroSafe answers zero-length reads itself (iotest.DataErrReader spins forever on them).
type zeroSafe struct{ r io.Reader }

func (z zeroSafe) Read(p []byte) (int, error) {
	if len(p) == 0 {
		return 0, nil
	}
	return z.r.Read(p)
}

// ---------------------------------------------------------------- model -> code

type wantOutcome struct {
	Ok   bool `json:"ok"`
	V    any  `json:"v"`
	Used int  `json:"used"`
}

func parseWant(v any) wantOutcome {
	m := v.(map[string]any)
	return wantOutcome{m["ok"].(bool), m["v"], int(m["used"].(float64))}
}

// judge compares one observed read with the model's outcome; returns "" or the failing class.
func judge(g got, w wantOutcome, inputLen int, chunked bool) (class, text string) {
	switch {
	case g.Panic != "":
		return "panic", "panicked: " + g.Panic
	case g.Hung:
		return "hang", "did not return"
	case w.Ok && !g.Ok:
		if chunked {
			return "short-read-fails", "failed (" + g.Err + ") although all bytes were available from the reader"
		}
		return "read-fails", "failed (" + g.Err + ") on bytes the model reads successfully"
	case !w.Ok && g.Ok:
		return "accepts-short-input", fmt.Sprintf("returned %s (consumed %d) although the input cannot hold what its length says", canon(g.V), g.Used)
	case w.Ok && canon(g.V) != canon(w.V):
		return "wrong-value", fmt.Sprintf("returned %s, the model demands %s", canon(g.V), canon(w.V))
	case w.Ok && w.Used >= 0 && g.Used != w.Used:
		return "wrong-consumed", fmt.Sprintf("consumed %d bytes, the model demands %d", g.Used, w.Used)
	case g.Used > inputLen:
		return "over-consumed", fmt.Sprintf("consumed %d of %d bytes", g.Used, inputLen)
	}
	return "", ""
}

type streamCase struct {
	H      helper `json:"h"`
	Signed bool   `json:"signed,omitempty"`
	V      any    `json:"v,omitempty"`
	Input  []int  `json:"input"`
	Reader string `json:"reader"`
	Chunks []int  `json:"chunks,omitempty"`
	Env    int    `json:"env,omitempty"`
	Want   any    `json:"want"`
}

func randomChunks(r *rand.Rand, n, mx int) []int {
	c := []int{}
	for n > 0 {
		k := 1 + r.Intn(mx)
		if k > n {
			k = n
		}
		c = append(c, k)
		n -= k
	}
	return c
}

func cmdStreamTable(args []string) int {
	fs := flag.NewFlagSet("stream-table", flag.ExitOnError)
	rtPath := fs.String("rt", "", "")
	totPath := fs.String("tot", "", "")
	out := fs.String("out", "", "")
	seed := fs.Int64("seed", 1, "")
	_ = fs.Parse(args)
	rnd := rand.New(rand.NewSource(*seed))
	rep := newReport()
	comps := map[int][][]int{}
	var rtRows []map[string]any
	if *rtPath != "" {
		if err := forEachLine(*rtPath, func(m map[string]any) {
			if c, ok := m["c"]; ok {
				n := int(m["n"].(float64))
				for _, x := range c.([]any) {
					comps[n] = append(comps[n], ints(x))
				}
				return
			}
			rtRows = append(rtRows, m)
		}); err != nil {
			fmt.Fprintln(os.Stderr, err)
			return 2
		}
	}
	tails := [][]byte{{}, {255}}
	for _, m := range rtRows {
		h := parseHelper(m["h"])
		rep.Rows++
		rep.PerKind["rt:"+h.H]++
		want := wantOutcome{true, m["res"], int(m["used"].(float64))}
		model := toBytes(m["bytes"])
		for _, signed := range []bool{false, true} {
			if signed && (h.H != "Num" || h.A == 32) {
				continue
			}
			// the real writer must produce the model's bytes, in every writer situation
			for env := 0; env < writeEnvs; env++ {
				var wb []byte
				var werr error
				o := guarded(false, false, func() { wb, werr = streamWriteEnv(h, m["v"], signed, env, len(model)) })
				rep.Calls++
				c := streamCase{H: h, Signed: signed, V: m["v"], Input: fromBytes(model), Reader: "writer", Env: env, Want: want}
				sit := [writeEnvs]string{"a fresh buffer", "a pre-sized buffer", "a rewritten section of a buffer"}[env]
				switch {
				case o.panicked:
					rep.bad(h.reader()+":writer-panics", fmt.Sprintf("writer of %s panicked on %s in %s: %s", h, canon(m["v"]), sit, o.pmsg), c)
				case werr != nil:
					rep.bad(h.reader()+":write-fails", fmt.Sprintf("writer of %s refused %s in %s: %v", h, canon(m["v"]), sit, werr), c)
				case !bytes.Equal(wb, model):
					rep.bad(h.reader()+":bytes-differ-from-model", fmt.Sprintf("writer of %s wrote %v for %s between its start and end position in %s (0xfd/0xfe: bytes outside changed / next write misplaced), the model's layout is %v", h, wb, canon(m["v"]), sit, model), c)
				}
			}
			// the real reader must return the value from every splitting of the model's bytes
			for _, tail := range tails {
				data := append(append([]byte{}, model...), tail...)
				type variant struct {
					name   string
					chunks []int
					mk     func() (io.Reader, func() int)
				}
				vs := []variant{{"whole", []int{len(data)}, viaChunks(data, []int{len(data)})}}
				if cs, ok := comps[len(data)]; ok {
					for _, ch := range cs {
						vs = append(vs, variant{"chunks", ch, viaChunks(data, ch)})
					}
				} else {
					for i := 0; i < 24; i++ {
						ch := randomChunks(rnd, len(data), 1+rnd.Intn(6))
						vs = append(vs, variant{"chunks", ch, viaChunks(data, ch)})
					}
				}
				if h.H != "Peek" {
					vs = append(vs,
						variant{"iotest.OneByteReader", nil, viaIotest(data, iotest.OneByteReader)},
						variant{"iotest.HalfReader", nil, viaIotest(data, iotest.HalfReader)},
						variant{"iotest.DataErrReader", nil, viaIotest(data, iotest.DataErrReader)},
						variant{"iotest.DataErrReader(OneByteReader)", nil, viaIotest(data, func(r io.Reader) io.Reader { return iotest.DataErrReader(iotest.OneByteReader(r)) })})
				}
				wholeOK := false
				for _, vr := range vs {
					g := readVia(h, signed, data, false, vr.mk)
					rep.Calls++
					if vr.name == "whole" {
						wholeOK = g.Ok
					}
					chunked := vr.name != "whole" && wholeOK
					w := want
					if len(vr.name) > 20 || vr.name == "iotest.DataErrReader" {
						w.Used = -1 // DataErrReader reads ahead: the position of the underlying reader says nothing
					}
					if class, text := judge(g, w, len(data), chunked); class != "" {
						c := streamCase{H: h, Signed: signed, V: m["v"], Input: fromBytes(data), Reader: vr.name, Chunks: vr.chunks, Want: want}
						rd := vr.name
						if vr.chunks != nil {
							rd = fmt.Sprintf("reader delivering chunks %v", vr.chunks)
						}
						rep.bad(h.reader()+":"+class, fmt.Sprintf("%s of %v (value %s written by its Write counterpart) through %s %s", h, data, canon(m["v"]), rd, text), c)
					}
				}
			}
		}
	}
	// totality rows
	allocSeen := map[string]int{}
	if *totPath != "" {
		if err := forEachLine(*totPath, func(m map[string]any) {
			h := parseHelper(m["h"])
			data := toBytes(m["s"])
			want := parseWant(m["w"])
			rep.Rows++
			rep.PerKind["tot:"+h.H]++
			key := fmt.Sprintf("%s/%d", h.H, h.A)
			if hasPrefix(h) && len(data) >= h.A && h.A <= 8 && leU64(data[:h.A]) > 1<<20 && allocSeen[key] >= 3 {
				rep.Skipped++ // this helper already allocated from the prefix three times; do not burn gigabytes
				return
			}
			type variant struct {
				name   string
				chunks []int
				signed bool
			}
			vs := []variant{{"whole", []int{len(data)}, false}}
			if len(data) > 1 {
				ones := make([]int, len(data))
				for i := range ones {
					ones[i] = 1
				}
				vs = append(vs, variant{"chunks", ones, false}, variant{"chunks", randomChunks(rnd, len(data), 3), false})
			}
			if h.H == "Num" && h.A != 32 {
				vs = append(vs, variant{"whole", []int{len(data)}, true})
			}
			wholeOK := false
			for i, vr := range vs {
				g := readVia(h, vr.signed, data, i == 0, viaChunks(data, vr.chunks))
				rep.Calls++
				if i == 0 {
					wholeOK = g.Ok
				}
				class, text := judge(g, want, len(data), vr.name != "whole" && wholeOK)
				if class == "" && i == 0 {
					if g.Alloc > rep.MaxAlloc {
						rep.MaxAlloc = g.Alloc
					}
					if g.Alloc > allocBound(len(data)) {
						class, text = "alloc-from-prefix", fmt.Sprintf("allocated %d bytes for a %d-byte input (bound %d)", g.Alloc, len(data), allocBound(len(data)))
						allocSeen[key]++
					}
					if g.Iters > len(data)+1 {
						class, text = "iterates-beyond-input", fmt.Sprintf("ran %d iterations on a %d-byte input", g.Iters, len(data))
					}
				}
				if class != "" {
					c := streamCase{H: h, Signed: vr.signed, Input: fromBytes(data), Reader: vr.name, Chunks: vr.chunks, Want: want}
					rep.bad(h.reader()+":"+class, fmt.Sprintf("%s of input %v (reader chunks %v) %s", h, data, vr.chunks, text), c)
				}
			}
		}); err != nil {
			fmt.Fprintln(os.Stderr, err)
			return 2
		}
	}
	rep.write(*out)
	return 0
}

// ---------------------------------------------------------------- code -> model

type streamRec struct {
	K      string `json:"k"`
	H      helper `json:"h"`
	Signed bool   `json:"signed"`
	V      any    `json:"v,omitempty"`
	W      []int  `json:"w"`
	Tail   []int  `json:"tail"`
	S      []int  `json:"s"`
	Chunks []int  `json:"chunks"`
	Got    got    `json:"got"`
	Alloc  uint64 `json:"alloc"`
	Werr   string `json:"werr,omitempty"`
}

func randBytes(r *rand.Rand, n int) []int {
	b := make([]int, n)
	for i := range b {
		switch r.Intn(4) {
		case 0:
			b[i] = 0
		case 1:
			b[i] = 255
		default:
			b[i] = r.Intn(256)
		}
	}
	return b
}

func randomHelper(r *rand.Rand) helper {
	pw := []int{1, 2, 4, 8}[r.Intn(4)]
	switch r.Intn(9) {
	case 0, 1:
		return helper{"Num", []int{1, 2, 4, 8, 32}[r.Intn(5)], 0}
	case 2:
		return helper{"Bool", 0, 0}
	case 3:
		return helper{"Bytes", r.Intn(40), 0}
	case 4:
		return helper{"BytesSz", pw, 0}
	case 5:
		return helper{"Obj", []int{0, 1, 2, 3, 8, 32}[r.Intn(6)], 0}
	case 6:
		return helper{"ObjSz", pw, 0}
	case 7:
		return helper{"Coll", pw, 1 + r.Intn(2)}
	}
	return helper{"Peek", pw, 0}
}

func randomValue(r *rand.Rand, h helper) any {
	n := 0
	switch r.Intn(4) {
	case 0:
		n = r.Intn(3)
	case 1:
		n = r.Intn(40)
	case 2:
		n = 200 + r.Intn(56) // up to 255: fits a one-byte prefix
	default:
		n = r.Intn(600)
	}
	if hasPrefix(h) && h.A == 1 && n > 255 {
		n = 255
	}
	switch h.H {
	case "Num":
		return randBytes(r, h.A)
	case "Bool":
		return []int{r.Intn(2)}
	case "Bytes", "Obj":
		return randBytes(r, h.A)
	case "Coll":
		if n > 300 {
			n = 300
		}
		if h.A == 1 && n > 255 {
			n = 255
		}
		e := make([][]int, n)
		for i := range e {
			e[i] = randBytes(r, h.B)
		}
		return e
	}
	return randBytes(r, n)
}

func cmdStreamRecords(args []string) int {
	fs := flag.NewFlagSet("stream-records", flag.ExitOnError)
	seed := fs.Int64("seed", 1, "")
	n := fs.Int("n", 1000, "")
	out := fs.String("out", "", "")
	_ = fs.Parse(args)
	r := rand.New(rand.NewSource(*seed))
	s := newSink(*out)
	allocSeen := 0
	for i := 0; i < *n; i++ {
		h := randomHelper(r)
		v := randomValue(r, h)
		signed := h.H == "Num" && h.A != 32 && r.Intn(2) == 0
		var wb []byte
		var werr error
		o := guarded(false, false, func() { wb, werr = streamWrite(h, jsonRound(v), signed) })
		if o.panicked || werr != nil {
			s.emit(streamRec{K: "rt", H: h, Signed: signed, V: v, W: []int{}, Tail: []int{}, S: []int{}, Chunks: []int{}, Got: got{V: []int{}, Panic: o.pmsg}, Werr: fmt.Sprint(werr)})
			continue
		}
		if env := i % writeEnvs; env != 0 { // the same write into a pre-sized / rewritten buffer: the record carries its bytes
			o := guarded(false, false, func() { wb, werr = streamWriteEnv(h, jsonRound(v), signed, env, len(wb)) })
			if o.panicked || werr != nil {
				s.emit(streamRec{K: "rt", H: h, Signed: signed, V: v, W: []int{}, Tail: []int{}, S: []int{}, Chunks: []int{}, Got: got{V: []int{}, Panic: o.pmsg}, Werr: fmt.Sprint(werr)})
				continue
			}
		}
		if i%3 != 2 {
			tail := toBytes(jsonRound(randBytes(r, r.Intn(4))))
			data := append(append([]byte{}, wb...), tail...)
			ch := randomChunks(r, len(data), 1+r.Intn(9))
			g := readVia(h, signed, data, true, viaChunks(data, ch))
			s.emit(streamRec{K: "rt", H: h, Signed: signed, V: v, W: fromBytes(wb), Tail: fromBytes(tail), S: []int{}, Chunks: ch, Got: g, Alloc: g.Alloc})
			continue
		}
		// hostile variant of the valid encoding
		data := append([]byte{}, wb...)
		switch m := r.Intn(5); {
		case m == 0 && len(data) > 0: // truncate
			data = data[:r.Intn(len(data))]
		case m == 1 && len(data) > 0: // flip one byte
			data[r.Intn(len(data))] ^= byte(1 << uint(r.Intn(8)))
		case m == 2 && hasPrefix(h) && allocSeen < 3: // maximise the length field
			for j := 0; j < h.A && j < len(data); j++ {
				data[j] = 255
			}
			if r.Intn(2) == 0 && h.A <= len(data) {
				data[h.A-1] = 0x7f
			}
		case m == 3 && hasPrefix(h): // length field one more than there is
			for j := 0; j < h.A && j < len(data); j++ {
				data[j]++
				if data[j] != 0 {
					break
				}
			}
		default: // garbage
			data = toBytes(jsonRound(randBytes(r, r.Intn(12))))
		}
		ch := randomChunks(r, len(data), 1+r.Intn(9))
		var g got
		if dangerous(h, data) {
			g = readIsolated(h, signed, data, ch)
		} else {
			g = readVia(h, signed, data, true, viaChunks(data, ch))
		}
		if g.Alloc > allocBound(len(data)) {
			allocSeen++
		}
		al := g.Alloc
		if al > 1<<30 {
			al = 1 << 30 // TLC integers are 32 bit
		}
		s.emit(streamRec{K: "mut", H: h, Signed: signed, W: []int{}, Tail: []int{}, S: fromBytes(data), Chunks: ch, Got: g, Alloc: al})
	}
	s.close()
	fmt.Printf("{\"records\": %d}\n", s.n)
	return 0
}

// jsonRound turns Go values into what encoding/json would decode them to ([]any of float64 ...).
func jsonRound(v any) any {
	b, _ := json.Marshal(v)
	var x any
	_ = json.Unmarshal(b, &x)
	return x
}

// cmdStreamOne repeats one case of a report / one record (violation replay): prints the fresh outcome.
func cmdStreamOne(args []string) int {
	b, err := os.ReadFile(args[0])
	if err != nil {
		fmt.Fprintln(os.Stderr, err)
		return 2
	}
	var c struct {
		H      any   `json:"h"`
		Signed bool  `json:"signed"`
		Input  []int `json:"input"`
		Reader string
		Chunks []int `json:"chunks"`
		Env    int   `json:"env"`
		V      any   `json:"v"`
		Want   any   `json:"want"`
	}
	if err := json.Unmarshal(b, &c); err != nil {
		fmt.Fprintln(os.Stderr, err)
		return 2
	}
	h := parseHelper(c.H)
	data := toBytes(jsonRound(c.Input))
	if c.Reader == "writer" {
		var wb []byte
		var werr error
		o := guarded(false, false, func() { wb, werr = streamWriteEnv(h, c.V, c.Signed, c.Env, len(data)) })
		fmt.Printf("writer of %s on %s in writer situation %d: bytes=%v err=%v panic=%q; the model's layout is %v\n", h, canon(c.V), c.Env, wb, werr, o.pmsg, data)
		if o.panicked || werr != nil || !bytes.Equal(wb, data) {
			fmt.Println("still disagrees with the model")
			return 1
		}
		fmt.Println("conforms to the model")
		return 0
	}
	if c.Chunks == nil {
		c.Chunks = []int{len(data)}
	}
	var g got
	switch c.Reader {
	case "iotest.OneByteReader":
		g = readVia(h, c.Signed, data, true, viaIotest(data, iotest.OneByteReader))
	case "iotest.HalfReader":
		g = readVia(h, c.Signed, data, true, viaIotest(data, iotest.HalfReader))
	case "iotest.DataErrReader":
		g = readVia(h, c.Signed, data, true, viaIotest(data, iotest.DataErrReader))
	case "iotest.DataErrReader(OneByteReader)":
		g = readVia(h, c.Signed, data, true, viaIotest(data, func(r io.Reader) io.Reader { return iotest.DataErrReader(iotest.OneByteReader(r)) }))
	default:
		g = readVia(h, c.Signed, data, true, viaChunks(data, c.Chunks))
	}
	if len(args) > 1 && args[1] == "-json" {
		b, _ := json.Marshal(struct {
			got
			Err   string
			Alloc uint64
		}{g, g.Err, g.Alloc})
		fmt.Println("GOT " + string(b))
		return 0
	}
	want := parseWant(c.Want)
	class, text := judge(g, want, len(data), len(c.Chunks) > 1 || c.Reader != "whole")
	if class == "" && g.Alloc > allocBound(len(data)) {
		class, text = "alloc-from-prefix", fmt.Sprintf("allocated %d bytes for a %d-byte input", g.Alloc, len(data))
	}
	fmt.Printf("%s on %v chunks %v: ok=%v value=%s used=%d err=%q alloc=%d\n", h, data, c.Chunks, g.Ok, canon(g.V), g.Used, g.Err, g.Alloc)
	if class != "" {
		fmt.Printf("still disagrees with the model [%s]: %s\n", class, text)
		return 1
	}
	fmt.Println("conforms to the model")
	return 0
}
