package ext4

import (
	"context"
	"flag"
	"fmt"
	"math/rand"
	"os"
	"runtime"
	"sync/atomic"
	"time"

	"github.com/iotaledger/hive.go/runtime/timeutil"

	"verifharness/core"
	"verifharness/sched"
)

// x4time: executions of runtime/timeutil (Ticker, PrecisionTicker, Sleep), free-running and through forced schedules
// (the handler / callback is a gate); every execution is one trace validated by TLC against spec/ext4/TimeRun.tla.
//
// Events (all carry "t", microseconds on the log's monotonic clock):
//
//	nb / ne        NewTicker / NewPrecisionTicker is about to be called / has returned
//	hb / he {n}    logged INSIDE the handler: first / last statement of its n-th invocation
//	sb / se {via}  Shutdown() (via "call") or the cancel function of the external context (via "ctx") called / returned
//	wb / we {w}    WaitForShutdown called / returned;  gb / ge {w}: WaitForGracefulShutdown called / returned
//	it {v}         PrecisionTicker.Iterations() = v (read while the log mutex is held)
//	zb {z,d} / ze {z,res}   Sleep(ctx, d us) called / returned res;  cb / ce: the context's cancel function called / returned
//	final {hung,v} everything joined (hung = goroutines that did not return within 20 s)
func init() { core.RegisterCommand("x4time", timeRunMain) }

func timeRunMain(args []string) int {
	fs := flag.NewFlagSet("x4time", flag.ExitOnError)
	seed := fs.Int64("seed", 1, "")
	out := fs.String("out", "", "")
	traces := fs.Int("traces", 40, "free-running traces")
	_ = fs.Parse(args)
	tf, err := openTrace(*out)
	if err != nil {
		fmt.Fprintln(os.Stderr, err)
		return 2
	}
	defer tf.close()
	rd := rand.New(rand.NewSource(*seed))
	n := 0
	for v := 0; v < 4 && !xHung; v++ {
		n += tickerForced(tf, "gracefulEarly", v)
		if !xHung {
			n += tickerForced(tf, "ctxBefore", v)
		}
		if !xHung {
			n += precisionForced(tf, "heldCallback", v)
		}
	}
	for v := 0; v < 12 && !xHung; v++ {
		n += tickerForced(tf, "heldHandler", v)
	}
	for i := 0; i < *traces && !xHung; i++ {
		one := i%4 == 3
		old := 0
		if one {
			old = runtime.GOMAXPROCS(1)
		}
		switch i % 3 {
		case 0:
			n += tickerFree(tf, rd, one)
		case 1:
			n += precisionFree(tf, rd, one)
		default:
			n += sleepFree(tf, rd, one)
		}
		if one {
			runtime.GOMAXPROCS(old)
		}
	}
	fmt.Printf("{\"events\": %d}\n", n)
	return 0
}

func scName(sc string, one bool) string {
	if one {
		return sc + "1"
	}
	return sc
}

// ---------------------------------------------------------------------------------------------------------------------
// Ticker

type tickerRun struct {
	lg     *xlog
	g      *xgroup
	ticker *timeutil.Ticker
	cancel context.CancelFunc // external context (nil: none)
	nh     atomic.Int64
	body   func(n int) // what the handler does between hb and he
}

func (r *tickerRun) handler() {
	n := int(r.nh.Add(1))
	r.lg.add(core.Ev{"op": "hb", "n": n})
	if r.body != nil {
		r.body(n)
	}
	r.lg.add(core.Ev{"op": "he", "n": n})
}

func (r *tickerRun) create(iv time.Duration, ctx context.Context) {
	r.lg.add(core.Ev{"op": "nb"})
	if ctx != nil {
		r.ticker = timeutil.NewTicker(r.handler, iv, ctx)
	} else {
		r.ticker = timeutil.NewTicker(r.handler, iv)
	}
	r.lg.add(core.Ev{"op": "ne"})
}

func (r *tickerRun) shutdown(via string) {
	r.lg.add(core.Ev{"op": "sb", "via": via})
	if via == "ctx" {
		r.cancel()
	} else {
		r.ticker.Shutdown()
	}
	r.lg.add(core.Ev{"op": "se", "via": via})
}

func (r *tickerRun) waitShutdown(w int) {
	r.lg.add(core.Ev{"op": "wb", "w": w})
	r.ticker.WaitForShutdown()
	r.lg.add(core.Ev{"op": "we", "w": w})
}

func (r *tickerRun) waitGraceful(w int) {
	r.lg.add(core.Ev{"op": "gb", "w": w})
	r.ticker.WaitForGracefulShutdown()
	r.lg.add(core.Ev{"op": "ge", "w": w})
}

func (r *tickerRun) finish(tf *traceFile, cfg core.Ev) int {
	hung := r.g.join(xJoinWait)
	xHung = xHung || len(hung) > 0
	r.lg.add(core.Ev{"op": "final", "hung": hung, "v": 0})
	n := r.lg.flush(tf.enc, cfg)
	if r.ticker != nil {
		r.ticker.Shutdown()
	}
	if r.cancel != nil {
		r.cancel()
	}
	return n
}

func tickerCfg(sc string, iv time.Duration) core.Ev {
	return core.Ev{"kind": "ticker", "sc": sc, "iv": int(iv / time.Microsecond), "max": 0, "prec": 0}
}

// tickerFree: a Ticker with a short interval and handlers of random length (some longer than the interval, so that a
// tick is already waiting when the handler returns); goroutines shut it down (Shutdown, twice, or the external context),
// wait for the shutdown and for the graceful shutdown.
func tickerFree(tf *traceFile, rd *rand.Rand, one bool) int {
	iv := time.Duration(1+rd.Intn(2)) * time.Millisecond
	r := &tickerRun{lg: newXlog(), g: newXgroup()}
	slow := rd.Intn(2) == 0
	seeds := make([]int, 64)
	for i := range seeds {
		seeds[i] = rd.Intn(3000)
	}
	r.body = func(n int) {
		if slow {
			time.Sleep(time.Duration(seeds[n%len(seeds)]) * time.Microsecond)
		} else {
			xyield(seeds[n%len(seeds)] % 5)
		}
	}
	var ctx context.Context
	via := "call"
	if rd.Intn(2) == 0 {
		ctx, r.cancel = context.WithCancel(context.Background())
		via = "ctx"
	}
	r.create(iv, ctx)
	delay := time.Duration(rd.Intn(9000)) * time.Microsecond
	early := rd.Intn(5) == 0 // the waiters start right away, the shutdown comes later
	r.g.run("shutdown", r.lg, func() {
		time.Sleep(delay)
		r.shutdown(via)
	})
	if rd.Intn(2) == 0 {
		d2 := time.Duration(rd.Intn(9000)) * time.Microsecond
		r.g.run("shutdown2", r.lg, func() {
			time.Sleep(d2)
			r.shutdown("call")
		})
	}
	for w := 1; w <= 2; w++ {
		w, d := w, time.Duration(rd.Intn(9000))*time.Microsecond
		if early {
			d = 0
		}
		r.g.run(fmt.Sprintf("wait%d", w), r.lg, func() {
			time.Sleep(d)
			if w == 1 {
				r.waitShutdown(w)
			}
			r.waitGraceful(w)
		})
	}
	return r.finish(tf, tickerCfg(scName("free", one), iv))
}

// tickerForced:
//
//	gracefulEarly  WaitForGracefulShutdown is called right after NewTicker returned (before the ticker's goroutine has
//	               run, GOMAXPROCS(1)); the Shutdown comes 3 ms later: the wait must not return before it.
//	ctxBefore      the external context is cancelled before NewTicker is called: no handler invocation at all.
//	heldHandler    the first handler invocation is held at a gate; Shutdown is called and returns; the next tick becomes
//	               due; the handler is released: no further invocation may begin (its decision would be taken after
//	               Shutdown returned).
func tickerForced(tf *traceFile, sc string, variant int) int {
	r := &tickerRun{lg: newXlog(), g: newXgroup()}
	iv := time.Duration(1+variant%2) * time.Millisecond
	switch sc {
	case "gracefulEarly":
		old := runtime.GOMAXPROCS(1)
		done := 0
		r.create(iv, nil)
		// (GOMAXPROCS(1): the goroutine started last runs first once this one blocks, i.e. before the ticker's own goroutine)
		_ = done
		r.g.run("graceful", r.lg, func() { r.waitGraceful(1) })
		time.Sleep(time.Duration(3+variant) * time.Millisecond)
		r.shutdown("call")
		runtime.GOMAXPROCS(old)
	case "ctxBefore":
		var ctx context.Context
		ctx, r.cancel = context.WithCancel(context.Background())
		r.lg.add(core.Ev{"op": "sb", "via": "ctx"})
		r.cancel()
		r.lg.add(core.Ev{"op": "se", "via": "ctx"})
		r.create(iv, ctx)
		r.g.run("wait", r.lg, func() { r.waitShutdown(1); r.waitGraceful(1) })
		time.Sleep(time.Duration(2+variant) * iv)
	case "heldHandler":
		gate := sched.NewGate()
		gate.Hold("h1")
		r.body = func(n int) {
			if n == 1 {
				gate.Wait("h1")
			} else if variant%3 == 2 {
				time.Sleep(2 * iv) // slow handlers: a tick is waiting again whenever one returns
			}
		}
		r.create(iv, nil)
		ok := waitFor(xJoinWait, func() bool { return gate.Parked("h1") > 0 })
		r.shutdown("call")
		time.Sleep(3 * iv) // the next tick is due now
		gate.ReleaseAll()
		r.g.run("wait", r.lg, func() { r.waitShutdown(1); r.waitGraceful(1) })
		if !ok {
			r.g.run("gate-never-reached", r.lg, func() { select {} })
		}
	}
	return r.finish(tf, tickerCfg(sc, iv))
}

// ---------------------------------------------------------------------------------------------------------------------
// PrecisionTicker

type precRun struct {
	lg   *xlog
	g    *xgroup
	p    *timeutil.PrecisionTicker
	nh   atomic.Int64
	body func(n int)
}

func (r *precRun) callback() {
	n := int(r.nh.Add(1))
	r.lg.add(core.Ev{"op": "hb", "n": n})
	if r.body != nil {
		r.body(n)
	}
	r.lg.add(core.Ev{"op": "he", "n": n})
}

func (r *precRun) create(rate, prec time.Duration, max int) {
	r.lg.add(core.Ev{"op": "nb"})
	opts := []timeutil.PrecisionTickerOption{timeutil.WithMinTimePrecision(prec)}
	if max > 0 {
		opts = append(opts, timeutil.WithMaxIterations(max))
	}
	r.p = timeutil.NewPrecisionTicker(r.callback, rate, opts...)
	r.lg.add(core.Ev{"op": "ne"})
}

func (r *precRun) shutdown() {
	r.lg.add(core.Ev{"op": "sb", "via": "call"})
	r.p.Shutdown()
	r.lg.add(core.Ev{"op": "se", "via": "call"})
}

func (r *precRun) iterations() {
	r.lg.atomically(func() core.Ev { return core.Ev{"op": "it", "v": r.p.Iterations()} })
}

func (r *precRun) finish(tf *traceFile, cfg core.Ev) int {
	hung := r.g.join(xJoinWait)
	xHung = xHung || len(hung) > 0
	v := -1
	if len(hung) == 0 {
		v = r.p.Iterations()
	}
	r.lg.add(core.Ev{"op": "final", "hung": hung, "v": v})
	n := r.lg.flush(tf.enc, cfg)
	r.p.Shutdown()
	return n
}

func precCfg(sc string, rate, prec time.Duration, max int) core.Ev {
	return core.Ev{"kind": "precision", "sc": sc, "iv": int(rate / time.Microsecond), "max": max, "prec": int(prec / time.Microsecond)}
}

func precisionFree(tf *traceFile, rd *rand.Rand, one bool) int {
	rate := time.Duration(500+500*rd.Intn(3)) * time.Microsecond
	prec := time.Duration(100*rd.Intn(3)) * time.Microsecond
	max := 0
	if rd.Intn(2) == 0 {
		max = 2 + rd.Intn(6)
	}
	r := &precRun{lg: newXlog(), g: newXgroup()}
	seeds := make([]int, 64)
	for i := range seeds {
		seeds[i] = rd.Intn(1500)
	}
	slow := rd.Intn(3) == 0
	r.body = func(n int) {
		if slow {
			time.Sleep(time.Duration(seeds[n%len(seeds)]) * time.Microsecond)
		}
	}
	r.create(rate, prec, max)
	withShutdown := max == 0 || rd.Intn(2) == 0
	if withShutdown {
		delay := time.Duration(rd.Intn(8000)) * time.Microsecond
		r.g.run("shutdown", r.lg, func() {
			time.Sleep(delay)
			r.shutdown()
			if delay%2 == 0 {
				r.shutdown()
			}
		})
	}
	for w := 1; w <= 2; w++ {
		w, d := w, time.Duration(rd.Intn(6000))*time.Microsecond
		r.g.run(fmt.Sprintf("wait%d", w), r.lg, func() {
			time.Sleep(d)
			r.iterations()
			if w == 1 {
				r.lg.add(core.Ev{"op": "wb", "w": w})
				r.p.WaitForShutdown()
				r.lg.add(core.Ev{"op": "we", "w": w})
				r.iterations()
			}
			r.lg.add(core.Ev{"op": "gb", "w": w})
			r.p.WaitForGracefulShutdown()
			r.lg.add(core.Ev{"op": "ge", "w": w})
			r.iterations()
		})
	}
	r.g.run("reader", r.lg, func() {
		for i := 0; i < 12; i++ {
			r.iterations()
			time.Sleep(300 * time.Microsecond)
		}
	})
	return r.finish(tf, precCfg(scName("free", one), rate, prec, max))
}

// precisionForced heldCallback: the second callback is held at a gate; Shutdown is called and returns, Iterations is
// read, WaitForShutdown returns although the callback still runs, WaitForGracefulShutdown does not; the callback is
// released: no further callback, the graceful wait returns.
func precisionForced(tf *traceFile, sc string, variant int) int {
	r := &precRun{lg: newXlog(), g: newXgroup()}
	rate := time.Duration(500*(1+variant%2)) * time.Microsecond
	max := 0
	if variant >= 2 {
		max = 4
	}
	gate := sched.NewGate()
	gate.Hold("c2")
	r.body = func(n int) {
		if n == 2 {
			gate.Wait("c2")
		}
	}
	r.create(rate, 100*time.Microsecond, max)
	ok := waitFor(xJoinWait, func() bool { return gate.Parked("c2") > 0 })
	r.iterations()
	r.g.run("graceful", r.lg, func() {
		r.lg.add(core.Ev{"op": "gb", "w": 2})
		r.p.WaitForGracefulShutdown()
		r.lg.add(core.Ev{"op": "ge", "w": 2})
		r.iterations()
	})
	r.shutdown()
	r.lg.add(core.Ev{"op": "wb", "w": 1})
	r.p.WaitForShutdown()
	r.lg.add(core.Ev{"op": "we", "w": 1})
	r.iterations()
	time.Sleep(2 * time.Millisecond)
	gate.ReleaseAll()
	if !ok {
		r.g.run("gate-never-reached", r.lg, func() { select {} })
	}
	return r.finish(tf, precCfg(sc, rate, 100*time.Microsecond, max))
}

// ---------------------------------------------------------------------------------------------------------------------
// Sleep

// sleepFree: up to three sleepers on one context (durations: short, medium, half an hour) and a canceller.
func sleepFree(tf *traceFile, rd *rand.Rand, one bool) int {
	lg, g := newXlog(), newXgroup()
	ctx, cancel := context.WithCancel(context.Background())
	before := rd.Intn(4) == 0 // cancelled before the sleepers start
	doCancel := func() {
		lg.add(core.Ev{"op": "cb"})
		cancel()
		lg.add(core.Ev{"op": "ce"})
	}
	if before {
		doCancel()
	}
	durs := []int{0, 300 + rd.Intn(3000), 2000 * 1000 * 1000, 200 + rd.Intn(500)}
	for z := 1; z <= 3; z++ {
		z, d, st := z, durs[rd.Intn(len(durs))], time.Duration(rd.Intn(2000))*time.Microsecond
		if z == 3 {
			d = 2000 * 1000 * 1000
		}
		if z == 1 { // a sleep of a few timer ticks (their resolution is about 1 ms here) that starts at once
			d, st = 3000+rd.Intn(3000), 0
		}
		g.run(fmt.Sprintf("sleep%d", z), lg, func() {
			time.Sleep(st)
			lg.add(core.Ev{"op": "zb", "z": z, "d": d})
			res := timeutil.Sleep(ctx, time.Duration(d)*time.Microsecond)
			lg.add(core.Ev{"op": "ze", "z": z, "res": res})
		})
	}
	if !before {
		delay := time.Duration(rd.Intn(10000)) * time.Microsecond
		g.run("cancel", lg, func() {
			time.Sleep(delay)
			doCancel()
		})
	}
	hung := g.join(xJoinWait)
	xHung = xHung || len(hung) > 0
	lg.add(core.Ev{"op": "final", "hung": hung, "v": 0})
	n := lg.flush(tf.enc, core.Ev{"kind": "sleep", "sc": scName("free", one), "iv": 0, "max": 0, "prec": 0})
	cancel()
	return n
}
