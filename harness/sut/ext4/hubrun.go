package ext4

import (
	"context"
	"errors"
	"flag"
	"fmt"
	"io"
	"log/slog"
	"math/rand"
	"net/http"
	"net/http/httptest"
	"os"
	"runtime"
	"strconv"
	"strings"
	"sync"
	"sync/atomic"
	"time"

	"nhooyr.io/websocket"
	"nhooyr.io/websocket/wsjson"

	"github.com/iotaledger/hive.go/log"
	"github.com/iotaledger/hive.go/web/websockethub"

	"verifharness/core"
)

// x4hub: executions of web/websockethub.Hub behind an httptest server on the loopback interface; every execution is one
// trace validated by TLC against spec/ext4/HubRun.tla (the events are described there).
func init() { core.RegisterCommand("x4hub", hubRunMain) }

func hubRunMain(args []string) int {
	fs := flag.NewFlagSet("x4hub", flag.ExitOnError)
	seed := fs.Int64("seed", 1, "")
	out := fs.String("out", "", "")
	traces := fs.Int("traces", 24, "traces")
	_ = fs.Parse(args)
	tf, err := openTrace(*out)
	if err != nil {
		fmt.Fprintln(os.Stderr, err)
		return 2
	}
	defer tf.close()
	rd := rand.New(rand.NewSource(*seed))
	n := 0
	for i := 0; i < *traces && !xHung; i++ {
		sc := []string{"free", "abrupt", "stopBusy", "free", "abrupt", "early"}[i%6]
		one := i%5 == 4 && sc == "free"
		old := 0
		if one {
			old = runtime.GOMAXPROCS(1)
			sc = "free1"
		}
		n += hubTrace(tf, rd, sc)
		if one {
			runtime.GOMAXPROCS(old)
		}
	}
	fmt.Printf("{\"events\": %d}\n", n)
	return 0
}

// hubWait bounds the waits for deliveries / removals before "sync" (a hub that is wedged stays wedged).
const hubWait = 10 * time.Second

type hubClient struct {
	c      int
	conn   *websocket.Conn // dialling side
	srv    atomic.Pointer[websockethub.Client]
	ended  atomic.Bool // the read loop of the dialling side ended
	gone   atomic.Bool // the driver closed / unregistered it
	closed atomic.Bool // the dialling side's Close / CloseNow was called (once per connection: the library does not tolerate two)
	conn2  atomic.Bool // onConnect ran
	disc   atomic.Bool // onDisconnect ran
	mu     sync.Mutex
	got    map[int]bool
	filter bool
}

type hubRun struct {
	lg      *xlog
	g       *xgroup
	hub     *websockethub.Hub
	srv     *httptest.Server
	cancel  context.CancelFunc
	clients []*hubClient // index c-1
	owedMu  sync.Mutex
	owed    map[int][]int // message -> clients that must get it (dontDrop, accepted, registered when the call began)
	seq     [4]atomic.Int64
}

func newDiscardLogger(name string) log.Logger {
	return log.NewLogger(log.WithName(name), log.WithHandler(slog.NewTextHandler(io.Discard, nil)))
}

func errName(err error) string {
	switch {
	case err == nil:
		return "nil"
	case errors.Is(err, websockethub.ErrWebsocketServerUnavailable):
		return "unavailable"
	case errors.Is(err, websockethub.ErrClientDisconnected):
		return "disconnected"
	case errors.Is(err, context.DeadlineExceeded):
		return "timeout" // the driver's own bound on a call (25 s): the call hung
	case errors.Is(err, context.Canceled):
		return "canceled"
	}
	return "other:" + err.Error()
}

func newHubRun(nc, bq, sq int) *hubRun {
	r := &hubRun{lg: newXlog(), g: newXgroup(), owed: map[int][]int{}}
	r.hub = websockethub.NewHub(newDiscardLogger("hub"), &websocket.AcceptOptions{InsecureSkipVerify: true}, bq, sq, 1<<16)
	for c := 1; c <= nc; c++ {
		r.clients = append(r.clients, &hubClient{c: c, got: map[int]bool{}, filter: c == 2})
	}
	r.srv = httptest.NewServer(http.HandlerFunc(func(w http.ResponseWriter, req *http.Request) {
		c, _ := strconv.Atoi(req.URL.Query().Get("c"))
		if c < 1 || c > len(r.clients) {
			http.Error(w, "bad client", http.StatusBadRequest)
			return
		}
		hc := r.clients[c-1]
		_ = r.hub.ServeWebsocket(w, req,
			func(cl *websockethub.Client) { // onCreate
				if hc.filter {
					cl.FilterCallback = func(_ *websockethub.Client, data interface{}) bool {
						m, ok := data.(int)
						return ok && m%2 == 0
					}
				}
				hc.srv.Store(cl)
			},
			func(*websockethub.Client) { // onConnect
				r.lg.atomically(func() core.Ev { hc.conn2.Store(true); return core.Ev{"op": "conn", "c": c} })
			},
			func(*websockethub.Client) { // onDisconnect
				r.lg.atomically(func() core.Ev { hc.disc.Store(true); return core.Ev{"op": "disc", "c": c} })
			})
	}))
	return r
}

func (r *hubRun) run() {
	var ctx context.Context
	ctx, r.cancel = context.WithCancel(context.Background())
	r.lg.add(core.Ev{"op": "rb"})
	r.g.run("hub.Run", r.lg, func() {
		r.hub.Run(ctx)
		r.lg.add(core.Ev{"op": "re"})
	})
	if waitFor(xJoinWait, func() bool { return !r.hub.Stopped() }) {
		r.lg.add(core.Ev{"op": "up"})
	}
}

// dial connects client c and starts the read loop of the dialling side; false if the hub refused.
func (r *hubRun) dial(c int) bool {
	hc := r.clients[c-1]
	r.lg.add(core.Ev{"op": "dial", "c": c})
	ctx, cancel := context.WithTimeout(context.Background(), xJoinWait)
	defer cancel()
	url := "ws" + strings.TrimPrefix(r.srv.URL, "http") + "/?c=" + strconv.Itoa(c)
	conn, _, err := websocket.Dial(ctx, url, nil)
	if err != nil {
		hc.ended.Store(true)
		r.lg.add(core.Ev{"op": "rxend", "c": c})
		return false
	}
	hc.conn = conn
	r.g.run(fmt.Sprintf("reader%d", c), r.lg, func() {
		for {
			var m int
			if err := wsjson.Read(context.Background(), conn, &m); err != nil {
				r.lg.atomically(func() core.Ev { hc.ended.Store(true); return core.Ev{"op": "rxend", "c": c} })
				return
			}
			r.lg.atomically(func() core.Ev {
				hc.mu.Lock()
				hc.got[m] = true
				hc.mu.Unlock()
				return core.Ev{"op": "rx", "c": c, "m": m}
			})
		}
	})
	return true
}

func (r *hubRun) nextMsg(sender int) int { return 100*sender + int(r.seq[sender].Add(1)) }

// registered returns the clients that are registered and not being dropped right now (called under the log mutex).
func (r *hubRun) registered() []int {
	var out []int
	for _, hc := range r.clients {
		if hc.conn2.Load() && !hc.disc.Load() && !hc.gone.Load() && !hc.ended.Load() {
			out = append(out, hc.c)
		}
	}
	return out
}

func (r *hubRun) broadcast(sender int, dd bool) {
	m := r.nextMsg(sender)
	var reg []int
	r.lg.atomically(func() core.Ev { reg = r.registered(); return core.Ev{"op": "bb", "m": m, "dd": dd} })
	ctx, cancel := context.WithTimeout(context.Background(), xJoinWait+5*time.Second)
	err := r.hub.BroadcastMsg(ctx, m, dd)
	cancel()
	if err == nil && dd {
		r.owedMu.Lock()
		r.owed[m] = reg
		r.owedMu.Unlock()
	}
	r.lg.add(core.Ev{"op": "be", "m": m, "err": errName(err)})
}

func (r *hubRun) send(sender, c int, dd bool) {
	hc := r.clients[c-1]
	cl := hc.srv.Load()
	if cl == nil || !hc.conn2.Load() {
		return
	}
	m := r.nextMsg(sender)
	var reg []int
	r.lg.atomically(func() core.Ev {
		for _, x := range r.registered() {
			if x == c {
				reg = []int{c}
			}
		}
		return core.Ev{"op": "qb", "c": c, "m": m, "dd": dd}
	})
	ctx, cancel := context.WithTimeout(context.Background(), xJoinWait+5*time.Second)
	err := cl.Send(ctx, m, dd)
	cancel()
	if err == nil && dd {
		r.owedMu.Lock()
		r.owed[m] = reg
		r.owedMu.Unlock()
	}
	r.lg.add(core.Ev{"op": "qe", "c": c, "m": m, "err": errName(err)})
}

// closeConn closes the dialling side of a connection.  (nhooyr.io/websocket v1.8.10: Close / CloseNow wait on the
// connection's WaitGroup while a concurrent reader that notices the end of the connection adds to it - now and then
// this panics with "WaitGroup is reused before previous Wait has returned" in the closing goroutine; that is a defect
// of the library on the TEST side of the connection, nothing the hub is judged by.)
func closeConn(conn *websocket.Conn, abrupt bool) {
	defer func() { _ = recover() }()
	if abrupt {
		_ = conn.CloseNow()
	} else {
		_ = conn.Close(websocket.StatusNormalClosure, "")
	}
}

func (r *hubRun) closeClient(c int, abrupt bool) {
	hc := r.clients[c-1]
	if hc.conn == nil || !hc.closed.CompareAndSwap(false, true) {
		return
	}
	r.lg.atomically(func() core.Ev { hc.gone.Store(true); return core.Ev{"op": "cb", "c": c} })
	closeConn(hc.conn, abrupt)
	r.lg.add(core.Ev{"op": "ce", "c": c})
}

func (r *hubRun) unregister(c int) {
	hc := r.clients[c-1]
	cl := hc.srv.Load()
	if cl == nil {
		return
	}
	r.lg.atomically(func() core.Ev { hc.gone.Store(true); return core.Ev{"op": "ub", "c": c} })
	err := r.hub.Unregister(cl)
	r.lg.add(core.Ev{"op": "ue", "c": c, "err": errName(err)})
}

// settled: every owed delivery arrived (or its client is on the way out) and every client on the way out was removed.
func (r *hubRun) settled() bool {
	r.owedMu.Lock()
	defer r.owedMu.Unlock()
	for m, cs := range r.owed {
		for _, c := range cs {
			hc := r.clients[c-1]
			if hc.gone.Load() || hc.ended.Load() || hc.disc.Load() || (hc.filter && m%2 == 1 && m/100 != 3) {
				continue
			}
			hc.mu.Lock()
			ok := hc.got[m]
			hc.mu.Unlock()
			if !ok {
				return false
			}
		}
	}
	for _, hc := range r.clients {
		if hc.conn2.Load() && (hc.gone.Load() || hc.ended.Load()) && !hc.disc.Load() {
			return false
		}
	}
	return true
}

func (r *hubRun) finish(tf *traceFile, cfg core.Ev, workers *xgroup, doSync bool) int {
	var hungW []any
	if doSync {
		if hungW = workers.join(xJoinWait + 10*time.Second); len(hungW) == 0 {
			if !waitFor(hubWait, r.settled) {
				xHung = true // deliveries / removals that never happen: "sync" shows it; no further executions
				if os.Getenv("X4_HUB_DUMP") != "" {
					buf := make([]byte, 1<<20)
					fmt.Fprintf(os.Stderr, "hub not settled after %v; goroutines:\n%s\n", hubWait, buf[:runtime.Stack(buf, true)])
				}
			}
			r.lg.add(core.Ev{"op": "sync"})
		}
	}
	r.lg.add(core.Ev{"op": "kb"})
	r.cancel()
	r.lg.add(core.Ev{"op": "ke"})
	if !doSync {
		hungW = workers.join(xJoinWait + 10*time.Second) // the busy callers: everything returns now
	}
	// after the cancellation nothing is accepted any more
	r.broadcast(1, false)
	// the dialling sides: close whatever is still open so that the read loops end
	closed := make(chan struct{})
	go func() {
		for _, hc := range r.clients {
			if hc.conn != nil && hc.closed.CompareAndSwap(false, true) {
				closeConn(hc.conn, true)
			}
		}
		close(closed)
	}()
	hung := r.g.join(xJoinWait)
	hung = append(hung, hungW...)
	xHung = xHung || len(hung) > 0
	clients := -1
	if len(hung) == 0 {
		clients = r.hub.Clients()
	}
	r.lg.add(core.Ev{"op": "final", "hung": hung, "clients": clients})
	n := r.lg.flush(tf.enc, cfg)
	select {
	case <-closed:
	case <-time.After(time.Second):
	}
	r.srv.CloseClientConnections()
	done := make(chan struct{})
	go func() { r.srv.Close(); close(done) }()
	select {
	case <-done:
	case <-time.After(5 * time.Second):
	}
	return n
}

// hubTrace: scenarios
//
//	free / free1  clients dial (some while messages already flow), two broadcasters (dontDrop and droppable messages), a
//	              direct sender, one client closes orderly, one is unregistered by the hub's owner
//	abrupt        as free, but several clients drop their connections abruptly at the same moment while dontDrop
//	              broadcasts are in flight (each of their pumps reports to the hub)
//	stopBusy      the hub's context is cancelled while broadcasters and senders are busy (no sync before)
//	early         BroadcastMsg before Run was started; then a short regular run
func hubTrace(tf *traceFile, rd *rand.Rand, sc string) int {
	nc := 3 + rd.Intn(4)
	bq := core.Pick(rd, 1, 4, 64)
	sq := core.Pick(rd, 1, 4, 64)
	r := newHubRun(nc, bq, sq)
	cfg := core.Ev{"sc": sc, "bq": bq, "sq": sq}
	w := newXgroup()
	if sc == "early" {
		r.broadcast(1, false)
		r.broadcast(1, true)
	}
	r.run()
	first := 1 + rd.Intn(nc)
	if sc == "abrupt" && first < 3 {
		first = 3
	}
	for c := 1; c <= first; c++ {
		r.dial(c)
	}
	waitFor(xJoinWait, func() bool {
		for c := 1; c <= first; c++ {
			if !r.clients[c-1].conn2.Load() && !r.clients[c-1].ended.Load() {
				return false
			}
		}
		return true
	})
	nmsg := 4 + rd.Intn(10)
	if sc == "abrupt" { // enough traffic for the write pumps to run into the closed connections
		nmsg = 16 + rd.Intn(10)
	}
	for s := 1; s <= 2; s++ {
		s, yields := s, rd.Intn(4)
		dds := make([]bool, nmsg)
		for i := range dds {
			dds[i] = s == 1 || rd.Intn(3) == 0
		}
		w.run(fmt.Sprintf("broadcaster%d", s), r.lg, func() {
			for i := 0; i < nmsg; i++ {
				r.broadcast(s, dds[i])
				xyield(yields)
				if i%3 == 2 {
					time.Sleep(200 * time.Microsecond)
				}
			}
		})
	}
	{
		targets := make([]int, 4)
		for i := range targets {
			targets[i] = 1 + rd.Intn(first)
		}
		w.run("sender", r.lg, func() {
			for i, c := range targets {
				r.send(3, c, i%2 == 0)
				time.Sleep(150 * time.Microsecond)
			}
		})
	}
	if first < nc {
		w.run("dialer", r.lg, func() {
			for c := first + 1; c <= nc; c++ {
				r.dial(c)
			}
		})
	}
	switch sc {
	case "abrupt":
		k := first - rd.Intn(2)
		d := time.Duration(rd.Intn(900)) * time.Microsecond
		start := make(chan struct{})
		for c := 1; c <= k; c++ {
			c := c
			w.run(fmt.Sprintf("closer%d", c), r.lg, func() {
				<-start
				r.closeClient(c, true)
			})
		}
		w.run("closers", r.lg, func() { time.Sleep(d); close(start) })
	case "stopBusy":
	default:
		d1, d2 := time.Duration(rd.Intn(2000))*time.Microsecond, time.Duration(rd.Intn(2000))*time.Microsecond
		c1, c2 := 1+rd.Intn(first), 1+rd.Intn(first)
		w.run("closer", r.lg, func() { time.Sleep(d1); r.closeClient(c1, false) })
		if c2 != c1 {
			w.run("unregister", r.lg, func() { time.Sleep(d2); r.unregister(c2) })
		}
	}
	if sc == "stopBusy" {
		time.Sleep(time.Duration(rd.Intn(1500)) * time.Microsecond)
		return r.finish(tf, cfg, w, false)
	}
	return r.finish(tf, cfg, w, true)
}
