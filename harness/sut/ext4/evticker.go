package ext4

import (
	"fmt"
	"math/rand"
	"sort"
	"sync"
	"time"

	"github.com/iotaledger/hive.go/core/eventticker"

	"verifharness/core"
)

// tIndex / tID: identifiers 10*index + n of the specs (core/index.IndexedID).
type tIndex uint32
type tID int

func (t tID) Index() tIndex  { return tIndex(int(t) / 10) }
func (t tID) String() string { return fmt.Sprintf("id%d", int(t)) }

type evTicker = eventticker.EventTicker[tIndex, tID]

func newEvTicker(interval, jitter time.Duration, threshold int) *evTicker {
	return eventticker.New(
		eventticker.RetryInterval[tIndex, tID](interval),
		eventticker.RetryJitter[tIndex, tID](jitter),
		eventticker.MaxRequestThreshold[tIndex, tID](threshold),
	)
}

// evTickerSUT: the EventTicker between retries (retry interval one hour), module EvTicker.
type evTickerSUT struct {
	t    *evTicker
	mu   sync.Mutex
	evs  []any
	univ []int
}

func init() {
	core.Register("EvTicker", func() core.SUT {
		return &evTickerSUT{univ: []int{11, 12, 13, 21, 22, 31, 32, 41}}
	})
}

func (s *evTickerSUT) hook(kind string) func(tID) {
	return func(id tID) {
		s.mu.Lock()
		s.evs = append(s.evs, core.Ev{"e": kind, "id": int(id)})
		s.mu.Unlock()
	}
}

func (s *evTickerSUT) Reset(cfg core.Ev) {
	if s.t != nil {
		s.t.Shutdown() // ends the worker goroutine of the abandoned object
	}
	s.t = newEvTicker(time.Hour, 0, core.Int(cfg, "thr"))
	s.t.Events.TickerStarted.Hook(s.hook("started"))
	s.t.Events.Tick.Hook(s.hook("tick"))
	s.t.Events.TickerStopped.Hook(s.hook("stopped"))
	s.t.Events.TickerFailed.Hook(s.hook("failed"))
}

func (s *evTickerSUT) state() core.Ev {
	has := []int{}
	for _, id := range s.univ {
		if s.t.HasTicker(tID(id)) {
			has = append(has, id)
		}
	}
	return core.Ev{"has": core.Seq(has), "size": s.t.QueueSize()}
}

func (s *evTickerSUT) Apply(st core.Ev) (any, any) {
	s.mu.Lock()
	s.evs = []any{}
	s.mu.Unlock()
	switch core.Str(st, "op") {
	case "Start":
		s.t.StartTicker(tID(core.Int(st, "id")))
	case "Starts":
		s.t.StartTickers([]tID{tID(core.Int(st, "a")), tID(core.Int(st, "b"))})
	case "Stop":
		s.t.StopTicker(tID(core.Int(st, "id")))
	case "Evict":
		s.t.EvictUntil(tIndex(core.Int(st, "i")))
	case "Clear":
		s.t.Clear()
	case "Shutdown":
		s.t.Shutdown()
	default:
		panic("unknown op")
	}
	s.mu.Lock()
	evs := s.evs
	s.evs = nil
	s.mu.Unlock()
	if core.Str(st, "op") == "Clear" { // the order of the TickerStopped events of Clear is unspecified: sorted by id
		sort.SliceStable(evs, func(i, j int) bool { return evs[i].(core.Ev)["id"].(int) < evs[j].(core.Ev)["id"].(int) })
	}
	return evs, s.state()
}

func (s *evTickerSUT) RandomCfg(r *rand.Rand) core.Ev { return core.Ev{"thr": core.Pick(r, 0, 3)} }

func (s *evTickerSUT) RandomStimulus(r *rand.Rand) core.Ev {
	id := func() int { return s.univ[r.Intn(len(s.univ))] }
	switch x := r.Intn(100); {
	case x < 40:
		return core.Ev{"op": "Start", "id": id()}
	case x < 52:
		return core.Ev{"op": "Starts", "a": id(), "b": id()}
	case x < 80:
		return core.Ev{"op": "Stop", "id": id()}
	case x < 90:
		return core.Ev{"op": "Evict", "i": 1 + r.Intn(4)}
	case x < 96:
		return core.Ev{"op": "Clear"}
	default:
		return core.Ev{"op": "Shutdown"}
	}
}
