package ext4

import (
	"flag"
	"fmt"
	"math/rand"
	"os"
	"runtime"
	"sort"
	"sync"
	"sync/atomic"
	"time"

	"verifharness/core"
	"verifharness/sched"
)

// x4tick: executions of core/eventticker.EventTicker with short real retry intervals, free-running and through forced
// schedules (the Tick hook is a gate); every execution is one trace validated by TLC against spec/ext4/TickRun.tla
// (the events are described there).
func init() { core.RegisterCommand("x4tick", tickRunMain) }

var tickIDs = []int{11, 12, 21}

func tickRunMain(args []string) int {
	fs := flag.NewFlagSet("x4tick", flag.ExitOnError)
	seed := fs.Int64("seed", 1, "")
	out := fs.String("out", "", "")
	traces := fs.Int("traces", 30, "free-running traces")
	forced := fs.Int("forced", 3, "variants per forced schedule")
	_ = fs.Parse(args)
	tf, err := openTrace(*out)
	if err != nil {
		fmt.Fprintln(os.Stderr, err)
		return 2
	}
	defer tf.close()
	rd := rand.New(rand.NewSource(*seed))
	n := 0
	for v := 0; v < *forced && !xHung; v++ {
		for _, sc := range []string{"stopHeld", "restartHeld", "shutdownHeld", "evictHeld", "startTickHeld", "restartOnFail"} {
			if !xHung {
				n += tickForced(tf, sc, v)
			}
		}
	}
	for v := 0; v < 4**forced && !xHung; v++ {
		n += tickDoubleStart(tf, rd, v)
	}
	for i := 0; i < *traces && !xHung; i++ {
		one := i%4 == 3
		old := 0
		if one {
			old = runtime.GOMAXPROCS(1)
		}
		n += tickFree(tf, rd, one)
		if one {
			runtime.GOMAXPROCS(old)
		}
	}
	fmt.Printf("{\"events\": %d}\n", n)
	return 0
}

// tickRun: one EventTicker with its hooks.
type tickRun struct {
	lg        *xlog
	g         *xgroup
	t         *evTicker
	iv        time.Duration
	thr       int
	startGid  sync.Map     // id -> goroutine id of the StartTicker caller (while the call runs)
	startGid2 atomic.Int64 // doubleStart: the second caller
	retries   sync.Map     // id -> *atomic.Int64: number of retry ticks seen
	gate      *sched.Gate
	down      atomic.Bool
}

func newTickRun(iv, jitter time.Duration, thr int) *tickRun {
	r := &tickRun{lg: newXlog(), g: newXgroup(), iv: iv, thr: thr, gate: sched.NewGate()}
	for _, id := range tickIDs {
		r.retries.Store(id, &atomic.Int64{})
	}
	r.t = newEvTicker(iv, jitter, thr)
	r.t.Events.TickerStarted.Hook(func(id tID) { r.lg.add(core.Ev{"op": "started", "id": int(id)}) })
	r.t.Events.TickerStopped.Hook(func(id tID) { r.lg.add(core.Ev{"op": "stopped", "id": int(id)}) })
	r.t.Events.TickerFailed.Hook(func(id tID) { r.lg.add(core.Ev{"op": "failed", "id": int(id)}) })
	r.t.Events.Tick.Hook(func(id tID) {
		src := "retry"
		me := sched.Gid()
		if g, ok := r.startGid.Load(int(id)); ok && (g.(int64) == me || r.startGid2.Load() == me) {
			src = "start"
		}
		k := 0
		if src == "retry" {
			c, _ := r.retries.Load(int(id))
			k = int(c.(*atomic.Int64).Add(1))
		}
		r.lg.add(core.Ev{"op": "tick", "id": int(id), "src": src})
		// gate points: "start:<id>" for the Tick of StartTicker, "retry:<id>:<k>" for the k-th retry tick of id
		if src == "start" {
			r.gate.Wait(fmt.Sprintf("start:%d", int(id)))
		} else {
			r.gate.Wait(fmt.Sprintf("retry:%d:%d", int(id), k))
		}
	})
	return r
}

func (r *tickRun) start(id int) {
	r.startGid.Store(id, sched.Gid())
	r.lg.add(core.Ev{"op": "sb", "id": id})
	r.t.StartTicker(tID(id))
	r.lg.add(core.Ev{"op": "se", "id": id})
	r.startGid.Delete(id)
}

func (r *tickRun) stop(id int) {
	r.lg.add(core.Ev{"op": "xb", "id": id})
	r.t.StopTicker(tID(id))
	r.lg.add(core.Ev{"op": "xe", "id": id})
}

func (r *tickRun) evict(i int) {
	r.lg.add(core.Ev{"op": "eb", "i": i})
	r.t.EvictUntil(tIndex(i))
	r.lg.add(core.Ev{"op": "ee", "i": i})
}

func (r *tickRun) shutdown() {
	r.lg.add(core.Ev{"op": "db"})
	r.down.Store(true)
	r.t.Shutdown()
	r.lg.add(core.Ev{"op": "de"})
}

func (r *tickRun) parked(p string) bool {
	return waitFor(xJoinWait, func() bool { return r.gate.Parked(p) > 0 })
}

// finish joins the goroutines, waits until the queue has drained (every ticker failed, was stopped or evicted; 20 s at
// most; not after a Shutdown, which freezes the queue), lets stray ticks arrive and logs the final observation.
func (r *tickRun) finish(tf *traceFile, sc string, extraHung ...string) int {
	hung := r.g.join(xJoinWait)
	for _, h := range extraHung {
		hung = append(hung, h)
	}
	r.gate.ReleaseAll()
	// drained = the queue is empty and still empty after the pause in which stray ticks would arrive (a TickerFailed hook
	// may start the ticker again right after the queue became empty)
	deadline := time.Now().Add(xJoinWait)
	for {
		drained := true
		if len(hung) == 0 && !r.down.Load() {
			drained = waitFor(time.Until(deadline), func() bool { return r.t.QueueSize() <= 0 })
		}
		time.Sleep(2*r.iv + time.Millisecond)
		if !drained {
			xHung = true // a ticker that never ends: the final observation shows it; no further executions
			break
		}
		if len(hung) > 0 || r.down.Load() || r.t.QueueSize() <= 0 {
			break
		}
	}
	xHung = xHung || len(hung) > 0
	has := []int{}
	for _, id := range tickIDs {
		if r.t.HasTicker(tID(id)) {
			has = append(has, id)
		}
	}
	sort.Ints(has)
	r.lg.add(core.Ev{"op": "final", "hung": hung, "has": core.Seq(has), "size": r.t.QueueSize()})
	n := r.lg.flush(tf.enc, core.Ev{"sc": sc, "iv": int(r.iv / time.Microsecond), "thr": r.thr})
	sd := make(chan struct{})
	go func() { r.t.Shutdown(); close(sd) }()
	select {
	case <-sd:
	case <-time.After(3 * time.Second):
		xHung = true // the executor's worker is stuck (e.g. inside a hook): leave it behind, no further executions
	}
	return n
}

// tickFree: per identifier one goroutine that starts / stops its ticker a few times (also redundantly); sometimes an
// EvictUntil(1) and / or a Shutdown at a random moment.
func tickFree(tf *traceFile, rd *rand.Rand, one bool) int {
	iv := time.Duration(1+rd.Intn(2)) * time.Millisecond
	thr := rd.Intn(4)
	r := newTickRun(iv, time.Duration(rd.Intn(400))*time.Microsecond, thr)
	span := int((time.Duration(thr+3) * iv) / time.Microsecond)
	for _, id := range tickIDs {
		id := id
		type step struct {
			op    string
			pause time.Duration
		}
		var plan []step
		for k, rounds := 0, 1+rd.Intn(3); k < rounds; k++ {
			plan = append(plan, step{"start", time.Duration(rd.Intn(span)) * time.Microsecond})
			if rd.Intn(4) == 0 {
				plan = append(plan, step{"start", time.Duration(rd.Intn(span/2+1)) * time.Microsecond})
			}
			if rd.Intn(3) > 0 {
				plan = append(plan, step{"stop", time.Duration(rd.Intn(span/2+1)) * time.Microsecond})
			}
			if rd.Intn(5) == 0 {
				plan = append(plan, step{"stop", 0})
			}
		}
		r.g.run(fmt.Sprintf("owner%d", id), r.lg, func() {
			for _, s := range plan {
				if s.op == "start" {
					r.start(id)
				} else {
					r.stop(id)
				}
				time.Sleep(s.pause)
			}
		})
	}
	if rd.Intn(3) == 0 {
		d := time.Duration(rd.Intn(span)) * time.Microsecond
		r.g.run("evict", r.lg, func() { time.Sleep(d); r.evict(1) })
	}
	if rd.Intn(4) == 0 {
		d := time.Duration(rd.Intn(2*span)) * time.Microsecond
		r.g.run("shutdown", r.lg, func() { time.Sleep(d); r.shutdown() })
	}
	return r.finish(tf, scName("free", one))
}

// tickForced: the schedules below hold a Tick hook (i.e. the retry callback of the executor's worker, or the
// StartTicker caller) at a gate while other calls are made.
//
//	stopHeld       retry tick k of 11 is held; StopTicker(11) returns; release: nothing more happens to 11
//	restartHeld    retry tick k of 11 is held; StopTicker(11), StartTicker(11) (a new run of the ticker); release: the new
//	               run ticks N + 2 times, never closer together than the interval, then fails - the held callback of
//	               the previous run must not go on rescheduling itself alongside (transcribes the counterexample of
//	               spec/ext4/EvTickerImpl.tla, variant exists_only)
//	shutdownHeld   retry tick 1 of 11 is held (21 is registered, too); Shutdown is called on another goroutine; release:
//	               Shutdown returns, nothing ticks afterwards, both tickers stay listed
//	evictHeld      retry tick 1 of 11 is held; EvictUntil(1) returns; release: 11 is gone, 21 runs until it fails
//	startTickHeld  the Tick of StartTicker(11) itself is held (inside StartTicker) until all retries happened and the
//	               ticker failed; release; then the ticker is started again
//	restartOnFail  (no gate) a TickerFailed hook asks HasTicker and starts the ticker again from inside the callback (once)
func tickForced(tf *traceFile, sc string, variant int) int {
	iv := time.Duration(1+variant%2) * time.Millisecond
	thr := 1 + (variant+1)%3
	r := newTickRun(iv, 0, thr)
	k := 1 + variant%2
	if k > thr+1 {
		k = thr + 1
	}
	held := fmt.Sprintf("retry:11:%d", k)
	var bad []string
	switch sc {
	case "stopHeld":
		r.gate.Hold(held)
		r.start(11)
		if !r.parked(held) {
			bad = append(bad, "gate-never-reached")
		}
		r.stop(11)
		time.Sleep(iv)
		r.gate.ReleaseAll()
	case "restartHeld":
		r.gate.Hold(held)
		r.start(11)
		if !r.parked(held) {
			bad = append(bad, "gate-never-reached")
		}
		r.stop(11)
		r.start(11)
		if variant >= 2 {
			time.Sleep(iv / 2)
		}
		r.gate.ReleaseAll()
	case "shutdownHeld":
		held = "retry:11:1"
		r.gate.Hold(held)
		r.start(21)
		r.start(11)
		if !r.parked(held) {
			bad = append(bad, "gate-never-reached")
		}
		r.g.run("shutdown", r.lg, r.shutdown)
		time.Sleep(2 * iv)
		r.gate.ReleaseAll()
	case "evictHeld":
		held = "retry:11:1"
		r.gate.Hold(held)
		r.start(21)
		r.start(11)
		if !r.parked(held) {
			bad = append(bad, "gate-never-reached")
		}
		r.evict(1)
		r.gate.ReleaseAll()
		if variant%2 == 1 {
			r.start(11) // evicted: nothing happens
			r.stop(11)
		}
	case "restartOnFail":
		var once atomic.Bool
		r.t.Events.TickerFailed.Hook(func(id tID) {
			if once.CompareAndSwap(false, true) {
				if !r.t.HasTicker(id) {
					r.start(int(id))
				}
			}
		})
		r.start(11)
		if variant%2 == 1 {
			r.start(21)
		}
	case "startTickHeld":
		r.gate.Hold("start:11")
		r.g.run("starter", r.lg, func() { r.start(11) })
		if !r.parked("start:11") {
			bad = append(bad, "gate-never-reached")
		}
		waitFor(xJoinWait, func() bool { return r.t.QueueSize() == 0 }) // all retries happened, the ticker failed
		r.gate.ReleaseAll()
		r.g.join(xJoinWait)
		r.start(11)
		if variant%2 == 1 {
			r.stop(11)
		}
	}
	return r.finish(tf, sc, bad...)
}

// tickDoubleStart: two goroutines call StartTicker(11) at the same moment (logged as ONE composite call: sb before
// both start, se after both returned): exactly one of them registers and announces the ticker.
func tickDoubleStart(tf *traceFile, rd *rand.Rand, variant int) int {
	iv := time.Duration(1+variant%2) * time.Millisecond
	r := newTickRun(iv, 0, variant%3)
	rounds := 5 + variant%3
	for k := 0; k < rounds; k++ {
		var wg, ready sync.WaitGroup
		startc := make(chan struct{})
		gids := make([]int64, 2)
		ys := []int{rd.Intn(3), rd.Intn(3)}
		r.lg.add(core.Ev{"op": "sb", "id": 11})
		for i := 0; i < 2; i++ {
			i := i
			wg.Add(1)
			ready.Add(1)
			go func() {
				defer wg.Done()
				gids[i] = sched.Gid()
				ready.Done()
				<-startc
				xyield(ys[i])
				r.t.StartTicker(tID(11))
			}()
		}
		ready.Wait()
		// the Tick hook recognises the Tick of StartTicker by the caller's goroutine: register both callers
		r.startGid.Store(11, gids[0])
		r.startGid2.Store(gids[1])
		close(startc)
		done := make(chan struct{})
		go func() { wg.Wait(); close(done) }()
		select {
		case <-done:
		case <-time.After(xJoinWait):
			return r.finish(tf, "doubleStart", "double-start-hung")
		}
		r.lg.add(core.Ev{"op": "se", "id": 11})
		r.startGid.Delete(11)
		r.startGid2.Store(int64(0))
		if k+1 < rounds {
			// wait for this run of the ticker to end
			if !waitFor(xJoinWait, func() bool { return r.t.QueueSize() <= 0 }) {
				break // the queue never drains: finish reports it
			}
			time.Sleep(iv)
		}
	}
	return r.finish(tf, "doubleStart")
}
