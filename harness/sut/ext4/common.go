// Package ext4 binds the X4 extension specs (spec/ext4) to the real code: core/eventticker, runtime/timeutil and
// web/websockethub.  Drivers run the real objects (free-running goroutines and forced schedules through gates in the
// user callbacks), append events to ONE log under a mutex and write NDJSON traces that TLC validates against the trace
// specs; the sequential API of the EventTicker is replayed through the cfg/ev/Do convention.
package ext4

import (
	"bufio"
	"encoding/json"
	"fmt"
	"os"
	"runtime"
	"sort"
	"sync"
	"time"

	"verifharness/core"
)

// xlog is the single event log of one execution.  Every event gets "t" = microseconds since the log was created
// (monotonic clock), taken while the log mutex is held, so "t" is non-decreasing along the log.
type xlog struct {
	mu     sync.Mutex
	t0     time.Time
	evs    []core.Ev
	closed bool // set by flush: what stragglers log afterwards is not part of the trace
}

func newXlog() *xlog { return &xlog{t0: time.Now()} }

func (l *xlog) add(e core.Ev) {
	l.mu.Lock()
	if !l.closed {
		e["t"] = int(time.Since(l.t0) / time.Microsecond)
		l.evs = append(l.evs, e)
	}
	l.mu.Unlock()
}

// atomically runs f (which returns the event to append) while holding the log mutex.
func (l *xlog) atomically(f func() core.Ev) {
	l.mu.Lock()
	defer l.mu.Unlock()
	e := f()
	if !l.closed && e != nil {
		e["t"] = int(time.Since(l.t0) / time.Microsecond)
		l.evs = append(l.evs, e)
	}
}

func (l *xlog) flush(enc *json.Encoder, cfg core.Ev) int {
	l.mu.Lock()
	defer l.mu.Unlock()
	_ = enc.Encode(core.Ev{"op": "reset", "cfg": cfg})
	for _, e := range l.evs {
		_ = enc.Encode(e)
	}
	l.closed = true
	return len(l.evs) + 1
}

func xsafely(lg *xlog, f func()) {
	defer func() {
		if r := recover(); r != nil {
			lg.add(core.Ev{"op": "panic", "msg": fmt.Sprint(r)})
		}
	}()
	f()
}

// xJoinWait bounds every wait for goroutines of one execution (generous: the machine may be heavily loaded; a real
// deadlock stays one for ever); after an execution with hung goroutines the driver stops producing further ones.
const xJoinWait = 20 * time.Second

func xyield(n int) {
	for ; n > 0; n-- {
		runtime.Gosched()
	}
}

type xgroup struct {
	mu      sync.Mutex
	pending map[string]bool
	wg      sync.WaitGroup
}

func newXgroup() *xgroup { return &xgroup{pending: map[string]bool{}} }

func (g *xgroup) run(name string, lg *xlog, f func()) {
	g.mu.Lock()
	g.pending[name] = true
	g.mu.Unlock()
	g.wg.Add(1)
	go func() {
		defer g.wg.Done()
		xsafely(lg, f)
		g.mu.Lock()
		delete(g.pending, name)
		g.mu.Unlock()
	}()
}

// join waits for the goroutines; returns the (sorted) names of those that did not finish in time.
func (g *xgroup) join(d time.Duration) []any {
	ch := make(chan struct{})
	go func() { g.wg.Wait(); close(ch) }()
	select {
	case <-ch:
		return []any{}
	case <-time.After(d):
	}
	g.mu.Lock()
	defer g.mu.Unlock()
	names := []string{}
	for n := range g.pending {
		names = append(names, n)
	}
	sort.Strings(names)
	return core.Seq(names)
}

// waitFor polls cond until it holds or d elapsed.
func waitFor(d time.Duration, cond func() bool) bool {
	deadline := time.Now().Add(d)
	for !cond() {
		if time.Now().After(deadline) {
			return false
		}
		time.Sleep(200 * time.Microsecond)
	}
	return true
}

// xHung is set when an execution ended with hung goroutines.
var xHung bool

type traceFile struct {
	f   *os.File
	w   *bufio.Writer
	enc *json.Encoder
}

func openTrace(path string) (*traceFile, error) {
	f, err := os.Create(path)
	if err != nil {
		return nil, err
	}
	w := bufio.NewWriterSize(f, 1<<20)
	return &traceFile{f: f, w: w, enc: json.NewEncoder(w)}, nil
}

func (t *traceFile) close() { _ = t.w.Flush(); _ = t.f.Close() }
