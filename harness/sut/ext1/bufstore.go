// Package ext1 binds kvstore.StoreHealthTracker and runtime/backoff (extension X1) to the TLA+ modules
// HealthTracker and Backoff (spec/ext1).
package ext1

import (
	"bytes"
	"errors"
	"sort"

	"github.com/iotaledger/hive.go/kvstore"
)

// bufRoot is a KVStore whose writes are visible at once but reach the "disc" only with Flush (the documented Flush
// contract: "Flush persists all outstanding write operations to disc").  It also counts the store operations of the
// current API call and executes that call's plan: at operation k it panics with a sentinel before/after executing the
// operation (= the process stops there) or returns an injected error without executing it.
type bufRoot struct {
	disk map[string][]byte // survives everything
	pend []wop             // outstanding writes, in order

	n    int    // store operations performed by the current call so far
	k    int    // plan: operation index (0 = no plan)
	mode string // "before" | "after" | "fail"
}

type wop struct {
	del bool
	key string
	val []byte
}

type crashSentinel struct{ op string }

var errInjected = errors.New("injected store failure")

func newBufRoot() *bufRoot { return &bufRoot{disk: map[string][]byte{}} }

func (r *bufRoot) arm(k int, mode string) { r.n, r.k, r.mode = 0, k, mode }

func (r *bufRoot) do(name string, f func() error) error {
	r.n++
	hit := r.k != 0 && r.n == r.k
	if hit && r.mode == "before" {
		panic(crashSentinel{name})
	}
	if hit && r.mode == "fail" {
		return errInjected
	}
	err := f()
	if hit && r.mode == "after" {
		panic(crashSentinel{name})
	}

	return err
}

// lookup reads through the outstanding writes (no operation counted: used by the projection too).
func (r *bufRoot) lookup(key string) ([]byte, bool) {
	for i := len(r.pend) - 1; i >= 0; i-- {
		if r.pend[i].key == key {
			if r.pend[i].del {
				return nil, false
			}
			return r.pend[i].val, true
		}
	}
	v, ok := r.disk[key]
	return v, ok
}

// merged returns what the running process sees.
func (r *bufRoot) merged() map[string][]byte {
	m := map[string][]byte{}
	for k, v := range r.disk {
		m[k] = v
	}
	for _, w := range r.pend {
		if w.del {
			delete(m, w.key)
		} else {
			m[w.key] = w.val
		}
	}
	return m
}

func (r *bufRoot) flush() {
	for _, w := range r.pend {
		if w.del {
			delete(r.disk, w.key)
		} else {
			r.disk[w.key] = w.val
		}
	}
	r.pend = nil
}

// lose drops the outstanding writes (the process was killed before they reached the disc).
func (r *bufRoot) lose() { r.pend = nil }

// bufView is the root seen through a realm.
type bufView struct {
	r     *bufRoot
	realm []byte
}

var _ kvstore.KVStore = &bufView{}

func (v *bufView) full(key []byte) string { return string(v.realm) + string(key) }

func (v *bufView) WithRealm(realm kvstore.Realm) (kvstore.KVStore, error) {
	return &bufView{r: v.r, realm: append([]byte(nil), realm...)}, nil
}

func (v *bufView) WithExtendedRealm(realm kvstore.Realm) (kvstore.KVStore, error) {
	return &bufView{r: v.r, realm: append(append([]byte(nil), v.realm...), realm...)}, nil
}

func (v *bufView) Realm() kvstore.Realm { return append([]byte(nil), v.realm...) }

func (v *bufView) keysWith(prefix []byte, backward bool) []string {
	p := v.full(prefix)
	var ks []string
	for k := range v.r.merged() {
		if len(k) >= len(p) && k[:len(p)] == p {
			ks = append(ks, k)
		}
	}
	sort.Strings(ks)
	if backward {
		for a, b := 0, len(ks)-1; a < b; a, b = a+1, b-1 {
			ks[a], ks[b] = ks[b], ks[a]
		}
	}
	return ks
}

func (v *bufView) Iterate(prefix kvstore.KeyPrefix, f kvstore.IteratorKeyValueConsumerFunc, d ...kvstore.IterDirection) error {
	return v.r.do("Iterate", func() error {
		m := v.r.merged()
		for _, k := range v.keysWith(prefix, kvstore.GetIterDirection(d...) == kvstore.IterDirectionBackward) {
			if !f([]byte(k[len(v.realm):]), append([]byte(nil), m[k]...)) {
				break
			}
		}
		return nil
	})
}

func (v *bufView) IterateKeys(prefix kvstore.KeyPrefix, f kvstore.IteratorKeyConsumerFunc, d ...kvstore.IterDirection) error {
	return v.r.do("IterateKeys", func() error {
		for _, k := range v.keysWith(prefix, kvstore.GetIterDirection(d...) == kvstore.IterDirectionBackward) {
			if !f([]byte(k[len(v.realm):])) {
				break
			}
		}
		return nil
	})
}

func (v *bufView) Clear() error { return v.DeletePrefix(kvstore.EmptyPrefix) }

func (v *bufView) Get(key kvstore.Key) (val kvstore.Value, err error) {
	err = v.r.do("Get", func() error {
		x, ok := v.r.lookup(v.full(key))
		if !ok {
			return kvstore.ErrKeyNotFound
		}
		val = append([]byte{}, x...)
		return nil
	})
	if err != nil {
		return nil, err
	}
	return val, nil
}

func (v *bufView) Set(key kvstore.Key, value kvstore.Value) error {
	return v.r.do("Set", func() error {
		v.r.pend = append(v.r.pend, wop{key: v.full(key), val: append([]byte{}, value...)})
		return nil
	})
}

func (v *bufView) Has(key kvstore.Key) (has bool, err error) {
	err = v.r.do("Has", func() error {
		_, has = v.r.lookup(v.full(key))
		return nil
	})
	if err != nil {
		return false, err
	}
	return has, nil
}

func (v *bufView) Delete(key kvstore.Key) error {
	return v.r.do("Delete", func() error {
		v.r.pend = append(v.r.pend, wop{del: true, key: v.full(key)})
		return nil
	})
}

func (v *bufView) DeletePrefix(prefix kvstore.KeyPrefix) error {
	return v.r.do("DeletePrefix", func() error {
		for _, k := range v.keysWith(prefix, false) {
			v.r.pend = append(v.r.pend, wop{del: true, key: k})
		}
		return nil
	})
}

func (v *bufView) Flush() error {
	return v.r.do("Flush", func() error {
		v.r.flush()
		return nil
	})
}

func (v *bufView) Close() error { return v.r.do("Close", func() error { return nil }) }

func (v *bufView) Batched() (kvstore.BatchedMutations, error) {
	return &bufBatch{v: v}, nil
}

type bufBatch struct {
	v   *bufView
	ops []wop
}

func (b *bufBatch) Set(key kvstore.Key, value kvstore.Value) error {
	b.ops = append(b.ops, wop{key: b.v.full(key), val: append([]byte{}, value...)})
	return nil
}

func (b *bufBatch) Delete(key kvstore.Key) error {
	b.ops = append(b.ops, wop{del: true, key: b.v.full(key)})
	return nil
}

func (b *bufBatch) Cancel() { b.ops = nil }

func (b *bufBatch) Commit() error {
	return b.v.r.do("Commit", func() error {
		b.v.r.pend = append(b.v.r.pend, b.ops...)
		b.ops = nil
		return nil
	})
}

// triple projects the three persistent facts of the tracker out of a raw key space.
func triple(get func(key string) ([]byte, bool), realm []byte) []any {
	ver := 0
	if v, ok := get(string(realm) + "dbVersion"); ok {
		switch {
		case len(v) != 1:
			ver = -3 // malformed version entry
		case v[0] == 0:
			ver = -2 // "None" written as a version
		default:
			ver = int(v[0])
		}
	}
	marker := func(name string) int {
		v, ok := get(string(realm) + name)
		switch {
		case !ok:
			return 0
		case len(v) != 0:
			return 2 // marker with an unexpected payload
		}
		return 1
	}
	return []any{ver, marker("dbCorrupted"), marker("dbTainted")}
}

func sameBytes(a, b []byte) bool { return bytes.Equal(a, b) }
