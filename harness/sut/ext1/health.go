package ext1

import (
	"errors"
	"fmt"
	"math/rand"

	"github.com/iotaledger/hive.go/kvstore"

	"verifharness/core"
)

// healthSUT adapts kvstore.StoreHealthTracker to module HealthTracker.  The tracker runs over bufRoot (see there);
// the projected state is read from the raw key space, never through the tracker.
type healthSUT struct {
	root  *bufRoot
	tr    *kvstore.StoreHealthTracker // nil = no usable object (crashed / constructor failed)
	state string                      // "up" | "crashed" | "noobj"
	myver int

	fnok    bool  // what the update function answers in the current call
	fnCalls []any // arguments the update function was called with in the current call
}

var (
	healthRealm = []byte("h\xff")
	// keys outside the tracker's realm that it must never touch (same key names without / with another realm)
	healthNeighbours = map[string]string{
		"dbCorrupted": "n1", "dbTainted": "n2", "dbVersion": "n3", "h": "n4", "h\xfe" + "dbCorrupted": "n5", "i": "n6",
	}
	errUpdateFunc = errors.New("update function failed")
)

func init() { core.Register("HealthTracker", func() core.SUT { return &healthSUT{} }) }

func hres(val int, err string, fn []any) core.Ev {
	if fn == nil {
		fn = []any{}
	}
	return core.Ev{"val": val, "err": err, "fn": fn}
}

func (s *healthSUT) st() any {
	intact := true
	known := map[string]bool{
		string(healthRealm) + "dbVersion": true, string(healthRealm) + "dbCorrupted": true, string(healthRealm) + "dbTainted": true,
	}
	for _, space := range []map[string][]byte{s.root.disk, s.root.merged()} {
		seen := 0
		for k, v := range space {
			if known[k] {
				continue
			}
			want, ok := healthNeighbours[k]
			if !ok || want != string(v) {
				intact = false
			}
			seen++
		}
		if seen != len(healthNeighbours) {
			intact = false
		}
	}
	disk := triple(func(k string) ([]byte, bool) { v, ok := s.root.disk[k]; return v, ok }, healthRealm)
	mem := triple(s.root.lookup, healthRealm)
	return core.Ev{"disk": disk, "mem": mem, "intact": intact}
}

// call runs f (one API call) under the plan (k, mode); "crashed" = the sentinel panic was raised inside the call.
func (s *healthSUT) call(k int, mode string, f func() error) (err error, crashed bool) {
	if mode == "none" {
		k = 0
	}
	s.root.arm(k, mode)
	s.fnCalls = nil
	defer func() {
		s.root.arm(0, "none")
		if r := recover(); r != nil {
			if _, ok := r.(crashSentinel); !ok {
				panic(r)
			}
			s.tr, s.state, crashed = nil, "crashed", true
		}
	}()
	return f(), false
}

func (s *healthSUT) open(v int, fn bool, k int, mode string) core.Ev {
	var uf kvstore.StoreVersionUpdateFunc
	if fn {
		uf = func(oldVersion, newVersion byte) error {
			s.fnCalls = append(s.fnCalls, int(oldVersion), int(newVersion))
			if !s.fnok {
				return errUpdateFunc
			}
			return nil
		}
	}
	s.tr, s.myver = nil, v
	var tr *kvstore.StoreHealthTracker
	err, crashed := s.call(k, mode, func() error {
		var e error
		tr, e = kvstore.NewStoreHealthTracker(&bufView{r: s.root}, append([]byte(nil), healthRealm...), byte(v), uf)
		return e
	})
	switch {
	case crashed:
		return hres(0, "crashed", nil)
	case err != nil:
		s.state = "noobj"
		return hres(0, "error", nil)
	}
	s.tr, s.state = tr, "up"
	return hres(0, "ok", nil)
}

func (s *healthSUT) Reset(cfg core.Ev) {
	s.root = newBufRoot()
	for k, v := range healthNeighbours {
		s.root.disk[k] = []byte(v)
	}
	if r := s.open(core.Int(cfg, "ver"), core.Bool(cfg, "fn"), 0, "none"); r["err"] != "ok" {
		panic(fmt.Sprintf("cannot open the first tracker: %v", r))
	}
}

func b2i(b bool) int {
	if b {
		return 1
	}
	return 0
}

func (s *healthSUT) Apply(e core.Ev) (any, any) {
	op := core.Str(e, "op")
	k, mode := core.Int(e, "k"), core.Str(e, "mode")
	if op == "Restart" {
		// fate of the outstanding writes of the abandoned process
		if core.Str(e, "fate") == "lose" {
			s.root.lose()
		} else if s.state == "crashed" {
			s.root.flush()
		}
		return s.open(core.Int(e, "v"), core.Bool(e, "fn"), k, mode), s.st()
	}
	if s.tr == nil {
		return hres(0, "dead", nil), s.st()
	}
	tr := s.tr
	val := 0
	cls := func(err error) string {
		switch {
		case err == nil:
			return "ok"
		case errors.Is(err, kvstore.ErrStoreVersionCheckNotSupported):
			return "unsupported"
		case errors.Is(err, kvstore.ErrStoreVersionUpdateFuncNotGiven):
			return "nofunc"
		case errors.Is(err, errUpdateFunc):
			return "fnerr"
		}
		return "error"
	}
	var f func() error
	switch op {
	case "MarkCorrupted":
		f = tr.MarkCorrupted
	case "MarkTainted":
		f = tr.MarkTainted
	case "MarkHealthy":
		f = tr.MarkHealthy
	case "Flush":
		f = tr.Flush
	case "IsCorrupted":
		f = func() error { b, err := tr.IsCorrupted(); val = b2i(b); return err }
	case "IsTainted":
		f = func() error { b, err := tr.IsTainted(); val = b2i(b); return err }
	case "StoreVersion":
		f = func() error { v, err := tr.StoreVersion(); val = int(v); return err }
	case "Check":
		f = func() error { b, err := tr.CheckCorrectStoreVersion(); val = b2i(b); return err }
	case "Update":
		s.fnok = core.Bool(e, "fnok")
		f = func() error { b, err := tr.UpdateStoreVersion(); val = b2i(b); return err }
	default:
		panic("unknown op " + op)
	}
	err, crashed := s.call(k, mode, f)
	if crashed {
		return hres(0, "crashed", s.fnCalls), s.st()
	}
	return hres(val, cls(err), s.fnCalls), s.st()
}

func (s *healthSUT) RandomCfg(r *rand.Rand) core.Ev {
	return core.Ev{"ver": r.Intn(4), "fn": r.Intn(2) == 0}
}

var healthModes = []string{"before", "after", "fail"}

func (s *healthSUT) RandomStimulus(r *rand.Rand) core.Ev {
	plan := func(e core.Ev, maxk int) core.Ev {
		if r.Intn(100) < 70 {
			e["k"], e["mode"] = 0, "none"
		} else {
			e["k"], e["mode"] = 1+r.Intn(maxk), core.Pick(r, healthModes...)
		}
		return e
	}
	restart := func() core.Ev {
		return plan(core.Ev{"op": "Restart", "v": r.Intn(4), "fn": r.Intn(3) != 0, "fate": core.Pick(r, "keep", "lose")}, 3)
	}
	if s.tr == nil || r.Intn(100) < 12 {
		return restart()
	}
	for {
		switch x := r.Intn(100); {
		case x < 14:
			return plan(core.Ev{"op": "MarkCorrupted"}, 3)
		case x < 24:
			return plan(core.Ev{"op": "MarkTainted"}, 3)
		case x < 38:
			return plan(core.Ev{"op": "MarkHealthy"}, 2)
		case x < 48:
			return plan(core.Ev{"op": "Flush"}, 2)
		case x < 58:
			return plan(core.Ev{"op": "IsCorrupted"}, 2)
		case x < 65:
			return plan(core.Ev{"op": "IsTainted"}, 2)
		case x < 72:
			return plan(core.Ev{"op": "StoreVersion"}, 2)
		case x < 82:
			return plan(core.Ev{"op": "Check"}, 2)
		default:
			if s.myver == 0 {
				continue // UpdateStoreVersion on a tracker opened with StoreVersionNone: outside the contract
			}
			return plan(core.Ev{"op": "Update", "fnok": r.Intn(4) != 0}, 3)
		}
	}
}
