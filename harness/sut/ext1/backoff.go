package ext1

import (
	"context"
	"errors"
	"fmt"
	"math"
	"math/rand"
	"time"

	"github.com/iotaledger/hive.go/runtime/backoff"

	"verifharness/core"
)

// backoffSUT adapts runtime/backoff to module Backoff: "orig" is the policy built from cfg through the public
// constructors and With, "der" the latest X.New().  Durations are reported in the unit of the configuration.
type backoffSUT struct {
	cfg    core.Ev
	unit   time.Duration
	huge   bool
	orig   backoff.Policy
	der    backoff.Policy
	cancel context.CancelFunc
	cancd  bool
	calls  map[string]int // recorder: NextBackOff calls per instance
}

const (
	boStop  = -1
	boTrunc = -2 // cut to the deadline
	boOdd   = -3 // not a whole number of units
	boNeg   = -4 // negative and not Stop
	boMax   = -5 // math.MaxInt64 in a configuration where that is not a whole number of units

	boMaxRun   = 6
	boMaxSleep = 50 * time.Millisecond
	soonAfter = time.Hour
)

func init() { core.Register("Backoff", func() core.SUT { return &backoffSUT{} }) }

func (s *backoffSUT) units(d time.Duration) int {
	switch {
	case d == backoff.Stop:
		return boStop
	case d == math.MaxInt64:
		if s.huge {
			return 8 // the largest duration: 2^63-1 ns, the top of the 2^60 ns scale
		}
		return boMax
	case d < 0:
		return boNeg
	case d%s.unit != 0:
		if s.huge && d <= soonAfter && d > soonAfter-time.Minute {
			return boTrunc
		}
		return boOdd
	}
	return int(d / s.unit)
}

func (s *backoffSUT) Reset(cfg core.Ev) {
	if s.cancel != nil {
		s.cancel()
	}
	s.cfg, s.cancd, s.der, s.calls = cfg, false, nil, map[string]int{}
	s.huge = false
	switch core.Str(cfg, "unit") {
	case "ns":
		s.unit = time.Nanosecond
	case "tick":
		s.unit = 100 * time.Microsecond
	case "huge":
		s.unit, s.huge = time.Duration(1)<<60, true
	default:
		panic("unknown unit")
	}
	var ctx context.Context
	ctx, s.cancel = context.WithCancel(context.Background())
	init := time.Duration(core.Int(cfg, "init")) * s.unit
	var b *backoff.BackOff
	switch core.Str(cfg, "base") {
	case "zero":
		b = backoff.ZeroBackOff()
	case "const":
		b = backoff.ConstantBackOff(init)
	case "exp":
		b = backoff.ExponentialBackOff(init, float64(core.Int(cfg, "fnum"))/2)
	default:
		panic("unknown base")
	}
	var opts []backoff.Option
	for _, x := range cfg["opts"].([]any) {
		o := x.(map[string]any)
		n := core.Int(o, "n")
		switch core.Str(o, "k") {
		case "maxRetries":
			opts = append(opts, backoff.MaxRetries(n))
		case "maxInterval":
			opts = append(opts, backoff.MaxInterval(time.Duration(n)*s.unit))
		case "jitter":
			rf := 0.0
			if n != 0 {
				rf = 1 / float64(n)
			}
			opts = append(opts, backoff.Jitter(rf))
		case "timeout":
			at := map[int]time.Duration{0: -time.Hour, 1: 1000 * time.Hour, 2: soonAfter}[n]
			opts = append(opts, backoff.Timeout(time.Now().Add(at)))
		case "cancel":
			opts = append(opts, backoff.Cancel(ctx))
		default:
			panic("unknown option")
		}
	}
	if core.Bool(cfg, "chain") {
		for _, o := range opts {
			b = b.With(o)
		}
	} else if len(opts) > 0 {
		b = b.With(opts...)
	}
	s.orig = b
}

func (s *backoffSUT) inst(name string) backoff.Policy {
	if name == "orig" {
		return s.orig
	}
	return s.der
}

func (s *backoffSUT) st() any { return core.Ev{"cancelled": s.cancd, "der": s.der != nil} }

func bres(v, calls int, err string, ivs []any, paced bool) core.Ev {
	if ivs == nil {
		ivs = []any{}
	}
	return core.Ev{"v": v, "calls": calls, "err": err, "ivs": ivs, "paced": paced}
}

// probe passes a policy through unchanged and logs what it yields (Retry's view of the policy).
type probe struct {
	inner backoff.Policy
	log   *[]time.Duration
}

func (p *probe) NextBackOff() time.Duration {
	d := p.inner.NextBackOff()
	*p.log = append(*p.log, d)
	if d > boMaxSleep {
		// no configuration makes Retry pause this long; the interval is on record, do not sit it out
		return backoff.Stop
	}
	return d
}

func (p *probe) New() backoff.Policy { return &probe{inner: p.inner.New(), log: p.log} }

var errRunaway = errors.New("runaway: f was called more often than any configuration allows")

func (s *backoffSUT) retry(p backoff.Policy, nfail int, final string) core.Ev {
	var (
		log    []time.Duration
		starts []time.Time // when f was entered
		ends   []time.Time // when f returned
		errs   []error     // what call j returned (the inner error for Permanent)
	)
	f := func() error {
		starts = append(starts, time.Now())
		defer func() { ends = append(ends, time.Now()) }()
		j := len(starts)
		if j > boMaxRun {
			starts = starts[:boMaxRun]
			return backoff.Permanent(errRunaway)
		}
		e := fmt.Errorf("failure of call %d", j)
		errs = append(errs, e)
		if j <= nfail || final == "fail" {
			return e
		}
		switch final {
		case "ok":
			errs[j-1] = nil
			return nil
		case "perm":
			return backoff.Permanent(e)
		}
		panic("unknown final " + final)
	}
	err := backoff.Retry(&probe{inner: p, log: &log}, f)
	calls := len(starts)
	cls := "other"
	switch {
	case err == nil:
		cls = "nil"
	case err == errRunaway: //nolint:errorlint // identity is the point
		cls = "runaway"
	case calls >= 1 && err == errs[calls-1]: //nolint:errorlint
		if calls > nfail && final == "perm" {
			cls = "inner"
		} else {
			cls = "last"
		}
	default:
		for j := 0; j < calls-1; j++ {
			if err == errs[j] { //nolint:errorlint
				cls = fmt.Sprintf("stale: the error of call %d of %d", j+1, calls)
			}
		}
		if cls == "other" {
			cls = fmt.Sprintf("other: %T %v", err, err)
		}
	}
	ivs := make([]any, len(log))
	for i, d := range log {
		ivs[i] = s.units(d)
	}
	// pacing: between the return of call j and the entry of call j+1 at least the j-th yielded interval passed
	paced := true
	for j := 0; j+1 < len(starts) && j < len(log) && j < len(ends); j++ {
		if log[j] > 0 && starts[j+1].Sub(ends[j]) < log[j] {
			paced = false
		}
	}
	return bres(0, calls, cls, ivs, paced)
}

func (s *backoffSUT) Apply(e core.Ev) (any, any) {
	switch core.Str(e, "op") {
	case "Next":
		p := s.inst(core.Str(e, "i"))
		if p == nil {
			return bres(0, 0, "no such instance", nil, true), s.st()
		}
		s.calls[core.Str(e, "i")]++
		return bres(s.units(p.NextBackOff()), 0, "", nil, true), s.st()
	case "New":
		p := s.inst(core.Str(e, "src"))
		if p == nil {
			return bres(0, 0, "no such instance", nil, true), s.st()
		}
		s.der = p.New()
		s.calls["der"] = 0
		return bres(0, 0, "", nil, true), s.st()
	case "Cancel":
		s.cancel()
		s.cancd = true
		return bres(0, 0, "", nil, true), s.st()
	case "Retry":
		p := s.inst(core.Str(e, "i"))
		if p == nil {
			return bres(0, 0, "no such instance", nil, true), s.st()
		}
		return s.retry(p, core.Int(e, "nfail"), core.Str(e, "final")), s.st()
	}
	panic("unknown op")
}

// ---- recorder: configurations and stimuli inside what Backoff.tla (Scope "trace") describes ----

func bo(k string, n int) core.Ev { return core.Ev{"k": k, "n": n} }

func (s *backoffSUT) RandomCfg(r *rand.Rand) core.Ev {
	cfg := core.Ev{"id": 100 + r.Intn(900), "chain": r.Intn(2) == 0, "fnum": 2, "init": 0}
	unit := core.Pick(r, "tick", "tick", "ns", "ns", "huge")
	cfg["unit"] = unit
	switch core.Pick(r, "zero", "const", "exp", "exp") {
	case "zero":
		cfg["base"] = "zero"
	case "const":
		cfg["base"], cfg["init"] = "const", 1+r.Intn(4)
	case "exp":
		cfg["base"], cfg["init"], cfg["fnum"] = "exp", 1+r.Intn(3), core.Pick(r, 2, 4, 4, 6)
		if unit == "ns" && r.Intn(2) == 0 {
			cfg["init"], cfg["fnum"] = core.Pick(r, 16, 32, 5, 7), core.Pick(r, 3, 1, 5)
		}
	}
	opts := []any{}
	jit := false
	for i, n := 0, r.Intn(4); i < n; i++ {
		switch x := r.Intn(100); {
		case x < 35:
			opts = append(opts, bo("maxRetries", core.Pick(r, -1, 0, 1, 2, 3, 4)))
		case x < 60:
			opts = append(opts, bo("maxInterval", 1+r.Intn(6)))
		case x < 75:
			if unit == "ns" && !jit {
				// whole nanoseconds: give the jitter room
				if cfg["base"] == "const" {
					cfg["init"] = 4 * (1 + r.Intn(4))
				}
				opts = append(opts, bo("jitter", core.Pick(r, 0, 2, 2, 4)))
				jit = true
			}
		case x < 88:
			n := core.Pick(r, 0, 1, 1)
			if unit == "huge" {
				n = core.Pick(r, 0, 2, 2) // on this scale every deadline is "soon"
			}
			opts = append(opts, bo("timeout", n))
		default:
			opts = append(opts, bo("cancel", 0))
		}
	}
	cfg["opts"] = opts
	return cfg
}

func (s *backoffSUT) bounded() bool {
	for _, x := range s.cfg["opts"].([]any) {
		o := x.(map[string]any)
		k, n := core.Str(o, "k"), core.Int(o, "n")
		if (k == "maxRetries" && n >= 0) || (k == "timeout" && n == 0) || (k == "cancel" && s.cancd) {
			return true
		}
	}
	return false
}

func (s *backoffSUT) has(kind string) bool {
	for _, x := range s.cfg["opts"].([]any) {
		if core.Str(x.(map[string]any), "k") == kind {
			return true
		}
	}
	return false
}

func (s *backoffSUT) RandomStimulus(r *rand.Rand) core.Ev {
	insts := []string{"orig"}
	if s.der != nil {
		insts = append(insts, "der", "der")
	}
	jitExp := s.has("jitter") && core.Str(s.cfg, "base") == "exp"
	for {
		i := core.Pick(r, insts...)
		switch x := r.Intn(100); {
		case x < 50:
			// the model's integers are 32 bit: keep exponential policies in range; under Jitter TLC enumerates the
			// whole interval range, so keep those intervals small
			limit := 12
			if jitExp {
				limit = 5
			}
			if s.calls[i] >= limit {
				continue
			}
			return core.Ev{"op": "Next", "i": i}
		case x < 65:
			return core.Ev{"op": "New", "src": i}
		case x < 72:
			if !s.has("cancel") || s.cancd {
				continue
			}
			return core.Ev{"op": "Cancel"}
		default:
			if s.huge {
				continue // Retry really sleeps
			}
			final := core.Pick(r, "ok", "ok", "perm", "fail")
			nfail := r.Intn(4)
			if jitExp {
				// (the alternatives multiply along the run)
				final, nfail = core.Pick(r, "ok", "perm"), r.Intn(3)
			}
			if final == "fail" {
				if !s.bounded() {
					continue
				}
				nfail = 0
			}
			return core.Ev{"op": "Retry", "i": i, "nfail": nfail, "final": final}
		}
	}
}
