package syncutils

import (
	"math/rand"

	hive "github.com/iotaledger/hive.go/runtime/syncutils"

	"verifharness/core"
	"verifharness/sched"
)

// dagSUT replays the quiescent-point LTS of DAGMutex.tla.
type dagSUT struct {
	m       *hive.DAGMutex[int]
	threads map[int]*sched.Thread
	nthr    int
	nent    int
	dead    bool
	// bookkeeping for the random driver and for draining (which thread holds what)
	heldW map[int]map[int]bool
	heldR map[int]map[int]bool
	pendW map[int]int
	pendR map[int][]int
}

func init() { core.Register("DAGMutex", func() core.SUT { return &dagSUT{nthr: 3, nent: 2} }) }

func (s *dagSUT) Dead() bool { return s.dead }

func (s *dagSUT) Reset(cfg core.Ev) {
	s.drain()
	for _, t := range s.threads {
		t.Abandon()
	}
	s.dead = false
	s.m = hive.NewDAGMutex[int]()
	s.threads = map[int]*sched.Thread{}
	s.heldW, s.heldR, s.pendW, s.pendR = map[int]map[int]bool{}, map[int]map[int]bool{}, map[int]int{}, map[int][]int{}
	for i := 1; i <= s.nthr; i++ {
		s.threads[i] = sched.NewThread(i)
		s.heldW[i], s.heldR[i] = map[int]bool{}, map[int]bool{}
	}
}

func (s *dagSUT) observe() (any, any) {
	settle()
	ret, blocked := []int{}, []int{}
	panicked := false
	for id := 1; id <= s.nthr; id++ {
		th := s.threads[id]
		if fin, _, pan := th.Take(); fin {
			if pan != nil {
				panicked = true
				s.dead = true
			} else {
				ret = append(ret, id)
				if e, ok := s.pendW[id]; ok {
					s.heldW[id][e] = true
					delete(s.pendW, id)
				}
				if ids, ok := s.pendR[id]; ok {
					for _, e := range ids {
						s.heldR[id][e] = true
					}
					delete(s.pendR, id)
				}
			}
		} else if th.Busy() {
			blocked = append(blocked, id)
		}
	}
	return core.Ev{"ret": core.SortedInts(ret), "panic": panicked}, core.Ev{"blocked": core.SortedInts(blocked)}
}

func (s *dagSUT) Apply(e core.Ev) (any, any) {
	tid := core.Int(e, "t")
	t := s.threads[tid]
	m := s.m
	switch core.Str(e, "op") {
	case "Lock":
		x := core.Int(e, "e")
		s.pendW[tid] = x
		t.Go(func() any { m.Lock(x); return nil })
	case "RLock":
		ids := core.Ints(e, "ids")
		s.pendR[tid] = ids
		t.Go(func() any { m.RLock(ids...); return nil })
	case "Unlock":
		x := core.Int(e, "e")
		delete(s.heldW[tid], x)
		t.Go(func() any { m.Unlock(x); return nil })
	case "RUnlock":
		x := core.Int(e, "e")
		delete(s.heldR[tid], x)
		t.Go(func() any { m.RUnlock(x); return nil })
	case "Misuse":
		x := core.Int(e, "e")
		if core.Bool(e, "w") {
			t.Go(func() any { m.Unlock(x); return nil })
		} else {
			t.Go(func() any { m.RUnlock(x); return nil })
		}
	default:
		panic("unknown op")
	}
	return s.observe()
}

// drain releases everything that is held so parked goroutines of an abandoned object finish.
func (s *dagSUT) drain() {
	if s.m == nil || s.dead {
		return
	}
	helper := sched.NewThread(99)
	defer helper.Abandon()
	for round := 0; round < 16; round++ {
		busy := false
		for _, t := range s.threads {
			if t.Busy() {
				busy = true
			}
		}
		if !busy {
			return
		}
		for tid := 1; tid <= s.nthr; tid++ {
			for e := range s.heldW[tid] {
				e := e
				helper.Go(func() any { s.m.Unlock(e); return nil })
				settle()
				if helper.Busy() {
					return // wedged object: give up (its goroutines stay parked)
				}
				helper.Take()
				delete(s.heldW[tid], e)
			}
			for e := range s.heldR[tid] {
				e := e
				helper.Go(func() any { s.m.RUnlock(e); return nil })
				settle()
				if helper.Busy() {
					return
				}
				helper.Take()
				delete(s.heldR[tid], e)
			}
		}
		s.observe()
	}
}

func (s *dagSUT) RandomCfg(r *rand.Rand) core.Ev { return core.Ev{"kind": "DAGMutex"} }

func maxHeld(w, rd map[int]bool) int {
	m := 0
	for e := range w {
		if e > m {
			m = e
		}
	}
	for e := range rd {
		if e > m {
			m = e
		}
	}
	return m
}

func (s *dagSUT) RandomStimulus(r *rand.Rand) core.Ev {
	for tries := 0; tries < 1000; tries++ {
		tid := 1 + r.Intn(s.nthr)
		if s.threads[tid].Busy() {
			continue
		}
		mh := maxHeld(s.heldW[tid], s.heldR[tid])
		switch r.Intn(6) {
		case 0, 1: // release something
			for e := range s.heldW[tid] {
				return core.Ev{"op": "Unlock", "t": tid, "e": e}
			}
			for e := range s.heldR[tid] {
				return core.Ev{"op": "RUnlock", "t": tid, "e": e}
			}
		case 2:
			if mh < s.nent {
				return core.Ev{"op": "Lock", "t": tid, "e": mh + 1 + r.Intn(s.nent-mh)}
			}
		case 3, 4:
			if mh < s.nent {
				a := mh + 1 + r.Intn(s.nent-mh)
				if a < s.nent && r.Intn(2) == 0 {
					return core.Ev{"op": "RLock", "t": tid, "ids": []any{a, a + 1 + r.Intn(s.nent-a)}}
				}
				return core.Ev{"op": "RLock", "t": tid, "ids": []any{a}}
			}
		}
	}
	// everything blocked or exhausted: a misuse ends the trace (entity 1 is never free here only by luck - prefer reset)
	return core.Ev{"op": "Lock", "t": 1, "e": 1}
}
