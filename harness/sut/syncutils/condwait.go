package syncutils

import (
	"fmt"
	"math/rand"
	"sort"
	"sync/atomic"

	hive "github.com/iotaledger/hive.go/runtime/syncutils"

	"verifharness/core"
	"verifharness/sched"
)

// ---- Counter ---------------------------------------------------------------------------------

type counterSUT struct {
	c       *hive.Counter
	threads map[int]*sched.Thread
	nthr    int
	gate    *sched.Gate  // an Update can be held at the Counter's yield point before its value lock (hook counter-lock)
	holdFor atomic.Int32 // the thread whose next arrival at the yield point is held
	held    map[int]int // thread -> delta of its held Update
}

func (s *counterSUT) releaseHeld() {
	if s.gate != nil {
		s.gate.ReleaseAll()
	}
}

func init() {
	core.Register("CounterWait", func() core.SUT { return &counterSUT{nthr: 3} })
	core.Register("StackWait", func() core.SUT { return &stackSUT{nthr: 3} })
}

func (s *counterSUT) Reset(cfg core.Ev) {
	if s.c != nil { // release waiters of the abandoned object
		for _, v := range []int{-1000, 1000} {
			busy := false
			for _, t := range s.threads {
				busy = busy || t.Busy()
			}
			if busy {
				s.c.Set(v)
				settle()
			}
		}
	}
	s.releaseHeld()
	for _, t := range s.threads {
		t.Abandon()
	}
	s.gate = sched.NewGate()
	s.held = map[int]int{}
	s.holdFor.Store(0)
	gate := s.gate
	hive.VerifHook = func(p string) {
		if p == "counter-lock" {
			if t := s.holdFor.Swap(0); t != 0 {
				gate.Wait(fmt.Sprintf("held-%d", t))
			}
		}
	}
	s.c = hive.NewCounter()
	s.threads = map[int]*sched.Thread{}
	for i := 1; i <= s.nthr; i++ {
		s.threads[i] = sched.NewThread(i)
	}
}

func (s *counterSUT) Apply(e core.Ev) (any, any) {
	tid := core.Int(e, "t")
	c := s.c
	var f func() any
	switch core.Str(e, "op") {
	case "Set":
		v := core.Int(e, "v")
		f = func() any { return c.Set(v) }
	case "Update":
		d := core.Int(e, "d")
		f = func() any { return c.Update(d) }
	case "UpdateHold":
		d := core.Int(e, "d")
		s.gate.Hold(fmt.Sprintf("held-%d", tid))
		s.holdFor.Store(int32(tid))
		s.held[tid] = d
		f = func() any { return c.Update(d) }
	case "UpdateGo":
		s.gate.Free(fmt.Sprintf("held-%d", tid))
		s.gate.Release(fmt.Sprintf("held-%d", tid))
		delete(s.held, tid)
	case "Get":
		f = func() any { return c.Get() }
	case "WaitIsZero":
		f = func() any { c.WaitIsZero(); return 0 }
	case "WaitIsBelow":
		th := core.Int(e, "th")
		f = func() any { c.WaitIsBelow(th); return 0 }
	case "WaitIsAbove":
		th := core.Int(e, "th")
		f = func() any { c.WaitIsAbove(th); return 0 }
	default:
		panic("unknown op")
	}
	if f != nil {
		s.threads[tid].Go(f)
	}
	settle()
	ret, blocked := []int{}, []int{}
	var r any = 0
	for id := 1; id <= s.nthr; id++ {
		th := s.threads[id]
		if fin, res, pan := th.Take(); fin {
			if pan != nil {
				panic(pan)
			}
			ret = append(ret, id)
			if id == tid {
				r = res
			}
		} else if th.Busy() {
			blocked = append(blocked, id)
		}
	}
	return core.Ev{"r": r, "ret": core.SortedInts(ret)}, core.Ev{"value": c.Get(), "blocked": core.SortedInts(blocked)}
}

func (s *counterSUT) RandomCfg(r *rand.Rand) core.Ev { return core.Ev{"kind": "Counter"} }

func (s *counterSUT) RandomStimulus(r *rand.Rand) core.Ev {
	if len(s.held) > 0 && r.Intn(3) == 0 { // let a held Update go on (if the value stays inside the model's range)
		ids := []int{}
		for t := range s.held {
			ids = append(ids, t)
		}
		sort.Ints(ids)
		t := ids[r.Intn(len(ids))]
		if v := s.c.Get() + s.held[t]; v >= -1 && v <= 2 {
			return core.Ev{"op": "UpdateGo", "t": t}
		}
	}
	var idle []int
	for id := 1; id <= s.nthr; id++ {
		if !s.threads[id].Busy() {
			idle = append(idle, id)
		}
	}
	t := idle[r.Intn(len(idle))]
	if len(idle) == 1 { // keep one thread free to change the value
		switch r.Intn(3) {
		case 0:
			return core.Ev{"op": "Set", "t": t, "v": r.Intn(4) - 1}
		case 1:
			return core.Ev{"op": "Get", "t": t}
		}
		v := s.c.Get()
		d := r.Intn(5) - 2
		if v+d < -1 || v+d > 2 {
			d = 0
		}
		return core.Ev{"op": "Update", "t": t, "d": d}
	}
	if r.Intn(6) == 0 {
		return core.Ev{"op": "UpdateHold", "t": t, "d": 1 - 2*r.Intn(2)}
	}
	switch r.Intn(7) {
	case 0:
		return core.Ev{"op": "Set", "t": t, "v": r.Intn(4) - 1}
	case 1, 2:
		v := s.c.Get()
		d := r.Intn(5) - 2
		if v+d < -1 || v+d > 2 {
			d = 0
		}
		return core.Ev{"op": "Update", "t": t, "d": d}
	case 3:
		return core.Ev{"op": "Get", "t": t}
	case 4:
		return core.Ev{"op": "WaitIsZero", "t": t}
	case 5:
		return core.Ev{"op": "WaitIsBelow", "t": t, "th": r.Intn(4) - 1}
	}
	return core.Ev{"op": "WaitIsAbove", "t": t, "th": r.Intn(4) - 1}
}

// ---- Stack -----------------------------------------------------------------------------------

type stackSUT struct {
	st      *hive.Stack[int]
	flag    atomic.Bool
	threads map[int]*sched.Thread
	nthr    int
}

func (s *stackSUT) Reset(cfg core.Ev) {
	if s.st != nil { // release waiters of the abandoned object
		s.flag.Store(false)
		s.st.SignalShutdown()
		settle()
		for i := 0; i < 4; i++ {
			busy := false
			for _, t := range s.threads {
				busy = busy || t.Busy()
			}
			if !busy {
				break
			}
			if i%2 == 0 {
				for s.st.Size() > 0 {
					s.st.Pop()
				}
			} else {
				for k := 0; k < 8; k++ {
					s.st.Push(0)
				}
			}
			settle()
		}
	}
	for _, t := range s.threads {
		t.Abandon()
	}
	s.st = hive.NewStack[int]()
	s.flag.Store(true)
	s.threads = map[int]*sched.Thread{}
	for i := 1; i <= s.nthr; i++ {
		s.threads[i] = sched.NewThread(i)
	}
}

type popRes struct {
	v  int
	ok bool
}

func (s *stackSUT) Apply(e core.Ev) (any, any) {
	tid := core.Int(e, "t")
	st := s.st
	var f func() any
	var r any = 0
	switch core.Str(e, "op") {
	case "Push":
		v := core.Int(e, "v")
		f = func() any { st.Push(v); return nil }
	case "Pop":
		f = func() any { v, ok := st.Pop(); return popRes{v, ok} }
	case "PopOrWait":
		f = func() any { v, ok := st.PopOrWait(s.flag.Load); return popRes{v, ok} }
	case "SetFlag":
		b := core.Bool(e, "b")
		f = func() any { s.flag.Store(b); return nil }
	case "SignalShutdown":
		f = func() any { st.SignalShutdown(); return nil }
	case "WaitSizeIsBelow":
		th := core.Int(e, "th")
		f = func() any { st.WaitSizeIsBelow(th); return nil }
	case "WaitSizeIsAbove":
		th := core.Int(e, "th")
		f = func() any { st.WaitSizeIsAbove(th); return nil }
	case "Size":
		f = func() any { return st.Size() }
	default:
		panic("unknown op")
	}
	s.threads[tid].Go(f)
	settle()
	ret := []any{}
	blocked := []int{}
	ids := make([]int, 0, s.nthr)
	for id := range s.threads {
		ids = append(ids, id)
	}
	sort.Ints(ids)
	for _, id := range ids {
		th := s.threads[id]
		if fin, res, pan := th.Take(); fin {
			if pan != nil {
				panic(pan)
			}
			var rr []any = []any{}
			switch x := res.(type) {
			case popRes:
				rr = core.Opt(x.ok, x.v)
			case int:
				if id == tid {
					r = x
				}
			}
			ret = append(ret, core.Ev{"t": id, "r": rr})
		} else if th.Busy() {
			blocked = append(blocked, id)
		}
	}
	return core.Ev{"r": r, "ret": ret}, core.Ev{"size": st.Size(), "blocked": core.SortedInts(blocked)}
}

func (s *stackSUT) RandomCfg(r *rand.Rand) core.Ev { return core.Ev{"kind": "Stack"} }

func (s *stackSUT) RandomStimulus(r *rand.Rand) core.Ev {
	var idle []int
	for id := 1; id <= s.nthr; id++ {
		if !s.threads[id].Busy() {
			idle = append(idle, id)
		}
	}
	t := idle[r.Intn(len(idle))]
	size := s.st.Size()
	n := 9
	if len(idle) == 1 {
		n = 5 // keep one thread free: no waits
	}
	switch r.Intn(n) {
	case 0, 1:
		if size < 2 {
			return core.Ev{"op": "Push", "t": t, "v": 1 + r.Intn(2)}
		}
		return core.Ev{"op": "Pop", "t": t}
	case 2:
		return core.Ev{"op": "Pop", "t": t}
	case 3:
		return core.Ev{"op": "SetFlag", "t": t, "b": r.Intn(2) == 0}
	case 4:
		return core.Ev{"op": core.Pick(r, "SignalShutdown", "Size"), "t": t}
	case 5, 6:
		return core.Ev{"op": "PopOrWait", "t": t}
	case 7:
		return core.Ev{"op": "WaitSizeIsBelow", "t": t, "th": r.Intn(3)}
	}
	return core.Ev{"op": "WaitSizeIsAbove", "t": t, "th": r.Intn(3)}
}
