package syncutils

import (
	"bufio"
	"encoding/json"
	"flag"
	"fmt"
	"math/rand"
	"os"
	"runtime"
	"sort"
	"sync"
	"sync/atomic"
	"time"

	hive "github.com/iotaledger/hive.go/runtime/syncutils"

	"verifharness/core"
	"verifharness/sched"
)

// stackrun: free-running rounds on syncutils.Stack for StackRun.tla (C17, condition waits / no lost wake-up).
// A round: some consumers are parked in PopOrWait on the empty stack (the process is brought to quiescence first),
// then producers and condition waiters are started together, a few microseconds apart; when the process is quiescent
// again the size and the still blocked calls are logged.
func init() { core.RegisterCommand("stackrun", stackRun) }

type srLog struct {
	mu  sync.Mutex
	evs []core.Ev
}

func (l *srLog) add(e core.Ev) { l.mu.Lock(); l.evs = append(l.evs, e); l.mu.Unlock() }

func stackRun(args []string) int {
	fs := flag.NewFlagSet("stackrun", flag.ExitOnError)
	seed := fs.Int64("seed", 1, "")
	traces := fs.Int("traces", 150, "")
	out := fs.String("out", "", "")
	_ = fs.Parse(args)
	f, err := os.Create(*out)
	if err != nil {
		fmt.Fprintln(os.Stderr, err)
		return 2
	}
	defer f.Close()
	w := bufio.NewWriter(f)
	defer w.Flush()
	enc := json.NewEncoder(w)
	rng := rand.New(rand.NewSource(*seed))
	hangs := 0
	for tr := 0; tr < *traces; tr++ {
		procs := []int{1, 2, 16}[tr%3]
		runtime.GOMAXPROCS(procs)
		lg := &srLog{}
		st := hive.NewStack[int]()
		var mu sync.Mutex
		var stop atomic.Bool
		blocked := map[int]bool{}
		call := func(c int, kind string, a int, delay time.Duration) {
			mu.Lock()
			blocked[c] = true
			mu.Unlock()
			go func() {
				if delay > 0 {
					t0 := time.Now()
					for time.Since(t0) < delay {
						runtime.Gosched()
					}
				}
				lg.add(core.Ev{"op": "begin", "c": c, "kind": kind, "a": a})
				x := 0
				switch kind {
				case "push":
					st.Push(a)
				case "pop":
					if v, ok := st.PopOrWait(func() bool { return !stop.Load() }); ok {
						x = v
					}
				case "empty":
					st.WaitIsEmpty()
				case "below":
					st.WaitSizeIsBelow(a)
				case "above":
					st.WaitSizeIsAbove(a)
				}
				mu.Lock()
				delete(blocked, c)
				lg.add(core.Ev{"op": "ret", "c": c, "x": x})
				mu.Unlock()
			}()
		}
		c := 0
		next := func() int { c++; return c }
		if tr%5 == 4 {
			// forced: a consumer is held INSIDE its wait condition (evaluated on the empty stack, under the stack's lock); a
			// producer arrives meanwhile; the condition says "wait". The consumer must come back with the element.
			gate := sched.NewGate()
			gate.Hold("cond")
			cc := next()
			mu.Lock()
			blocked[cc] = true
			mu.Unlock()
			go func() {
				lg.add(core.Ev{"op": "begin", "c": cc, "kind": "pop", "a": 0})
				first := true
				x := 0
				if v, ok := st.PopOrWait(func() bool {
					if first {
						first = false
						gate.Wait("cond")
					}
					return !stop.Load()
				}); ok {
					x = v
				}
				mu.Lock()
				delete(blocked, cc)
				lg.add(core.Ev{"op": "ret", "c": cc, "x": x})
				mu.Unlock()
			}()
			sched.QuiesceOpt(200*time.Millisecond, 2, false)
			call(next(), "push", 101, 0)
			sched.QuiesceOpt(200*time.Millisecond, 2, false)
			gate.ReleaseAll()
			if rng.Intn(2) == 0 {
				call(next(), "empty", 0, 0)
			}
		} else {
			// phase 1: consumers park on the empty stack
			ncons := 1 + rng.Intn(2)
			for i := 0; i < ncons; i++ {
				call(next(), "pop", 0, 0)
			}
			sched.QuiesceOpt(200*time.Millisecond, 2, false)
			// phase 2: producers and waiters start together
			npush := ncons + rng.Intn(2) - rng.Intn(2) // sometimes one element too few / too many
			if npush < 1 {
				npush = 1
			}
			for i := 0; i < npush; i++ {
				call(next(), "push", 101+i, time.Duration(rng.Intn(15))*time.Microsecond)
			}
			for i, n := 0, 1+rng.Intn(3); i < n; i++ {
				d := time.Duration(rng.Intn(40)) * time.Microsecond
				switch rng.Intn(4) {
				case 0, 1:
					call(next(), "empty", 0, d)
				case 2:
					call(next(), "below", 1+rng.Intn(2), d)
				default:
					call(next(), "above", rng.Intn(2), d)
				}
			}
			// phase 3 (sometimes): a late consumer / producer once things have settled
			if rng.Intn(3) == 0 {
				sched.QuiesceOpt(200*time.Millisecond, 2, false)
				if rng.Intn(2) == 0 {
					call(next(), "pop", 0, 0)
				} else {
					call(next(), "push", 101+npush, 0)
				}
			}
		}
		hung := !sched.QuiesceOpt(3*time.Second, 3, false)
		if hung {
			hangs++
		}
		mu.Lock()
		bl := []int{}
		for k := range blocked {
			bl = append(bl, k)
		}
		sort.Ints(bl)
		size := st.Size()
		lg.mu.Lock()
		_ = enc.Encode(core.Ev{"op": "reset", "cfg": core.Ev{"procs": procs}})
		for _, e := range lg.evs {
			_ = enc.Encode(e)
		}
		_ = enc.Encode(core.Ev{"op": "final", "hung": hung, "size": size, "blocked": core.Seq(bl)})
		lg.mu.Unlock()
		mu.Unlock()
		// let the parked goroutines of this round go (they would slow down the next rounds' quiescence detection)
		stop.Store(true)
		st.SignalShutdown()
		for {
			if _, ok := st.Pop(); !ok {
				break
			}
		}
		for i := 0; i < 3; i++ {
			st.Push(999)
		}
	}
	runtime.GOMAXPROCS(16)
	fmt.Printf("{\"traces\": %d, \"hangs\": %d}\n", *traces, hangs)
	return 0
}
