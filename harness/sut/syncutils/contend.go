package syncutils

import (
	"bufio"
	"encoding/json"
	"flag"
	"fmt"
	"math/rand"
	"os"
	"runtime"
	"sync"
	"time"

	hive "github.com/iotaledger/hive.go/runtime/syncutils"

	"verifharness/core"
)

// contend: free-running contention on StarvingMutex / DAGMutex; acq/rel events are appended to one log
// while the lock is held (global order = log order); written as NDJSON for LockHold.tla.
func init() { core.RegisterCommand("contend", contend) }

type clog struct {
	mu  sync.Mutex
	evs []core.Ev
}

func (l *clog) add(op string, t, e int) {
	l.mu.Lock()
	l.evs = append(l.evs, core.Ev{"op": op, "t": t, "e": e})
	l.mu.Unlock()
}

func contend(args []string) int {
	fs := flag.NewFlagSet("contend", flag.ExitOnError)
	seed := fs.Int64("seed", 1, "")
	traces := fs.Int("traces", 20, "")
	ops := fs.Int("ops", 30, "")
	out := fs.String("out", "", "")
	_ = fs.Parse(args)
	f, err := os.Create(*out)
	if err != nil {
		fmt.Fprintln(os.Stderr, err)
		return 2
	}
	defer f.Close()
	w := bufio.NewWriter(f)
	defer w.Flush()
	enc := json.NewEncoder(w)
	rng := rand.New(rand.NewSource(*seed))
	hangs := 0
	for tr := 0; tr < *traces; tr++ {
		kind := "StarvingMutex"
		if tr%2 == 1 {
			kind = "DAGMutex"
		}
		n := 2 + rng.Intn(7) // 2..8 goroutines
		if tr%5 == 4 {
			n = 16
		}
		lg := &clog{}
		sm := hive.NewStarvingMutex()
		dag := hive.NewDAGMutex[int]()
		var wg sync.WaitGroup
		var finished sync.Map
		for t := 1; t <= n; t++ {
			wg.Add(1)
			r := rand.New(rand.NewSource(rng.Int63()))
			go func(t int) {
				defer wg.Done()
				for i := 0; i < *ops; i++ {
					write := r.Intn(3) == 0
					if kind == "StarvingMutex" {
						if write {
							sm.Lock()
							lg.add("acqW", t, 1)
							spin(r)
							lg.add("relW", t, 1)
							sm.Unlock()
						} else {
							sm.RLock()
							lg.add("acqR", t, 1)
							spin(r)
							lg.add("relR", t, 1)
							sm.RUnlock()
						}
						continue
					}
					// DAGMutex: acquire along the order 1 < 2 < 3
					switch r.Intn(4) {
					case 0:
						e := 1 + r.Intn(3)
						dag.Lock(e)
						lg.add("acqW", t, e)
						spin(r)
						lg.add("relW", t, e)
						dag.Unlock(e)
					case 1: // write-lock a, then read-lock something above it
						a := 1 + r.Intn(2)
						b := a + 1 + r.Intn(3-a)
						dag.Lock(a)
						lg.add("acqW", t, a)
						dag.RLock(b)
						lg.add("acqR", t, b)
						spin(r)
						lg.add("relR", t, b)
						dag.RUnlock(b)
						lg.add("relW", t, a)
						dag.Unlock(a)
					default: // multi-entity read lock in ascending order
						ids := []int{1, 2, 3}[r.Intn(3):]
						if len(ids) > 1 && r.Intn(2) == 0 {
							ids = ids[:len(ids)-1]
						}
						dag.RLock(ids...)
						for _, e := range ids {
							lg.add("acqR", t, e)
						}
						spin(r)
						for _, e := range ids {
							lg.add("relR", t, e)
						}
						dag.RUnlock(ids...)
					}
				}
				finished.Store(t, true)
			}(t)
		}
		done := make(chan struct{})
		go func() { wg.Wait(); close(done) }()
		select {
		case <-done:
		case <-time.After(20 * time.Second):
			hangs++
		}
		fin := 0
		finished.Range(func(_, _ any) bool { fin++; return true })
		lg.mu.Lock()
		_ = enc.Encode(core.Ev{"op": "reset", "cfg": core.Ev{"kind": kind, "threads": n}})
		for _, e := range lg.evs {
			_ = enc.Encode(e)
		}
		if fin == n {
			_ = enc.Encode(core.Ev{"op": "end", "finished": fin})
		} else {
			// a hang: log what was recorded; the end line reports the number of finished workers (rejected by the spec)
			_ = enc.Encode(core.Ev{"op": "end", "finished": fin})
		}
		lg.mu.Unlock()
	}
	fmt.Printf("{\"traces\": %d, \"hangs\": %d}\n", *traces, hangs)
	return 0
}

func spin(r *rand.Rand) {
	for k := r.Intn(3); k > 0; k-- {
		runtime.Gosched()
	}
}
