// Package syncutils adapts runtime/syncutils (property C17) to its TLA+ modules.
package syncutils

import (
	"math/rand"
	"regexp"
	"strconv"
	"time"

	hive "github.com/iotaledger/hive.go/runtime/syncutils"

	"verifharness/core"
	"verifharness/sched"
)

// starvingSUT replays the quiescent-point LTS of StarvingMutex.tla: every stimulus starts one call on
// one harness thread, then the whole process is left to settle.
type starvingSUT struct {
	m       *hive.StarvingMutex
	threads map[int]*sched.Thread
	nthr    int
	dead    bool
}

// Dead: after a misuse panic the mutex is unusable (the panic fires while the internal mutex is held).
func (s *starvingSUT) Dead() bool { return s.dead }

func init() {
	core.Register("StarvingMutex", func() core.SUT { return &starvingSUT{nthr: 4} })
}

func (s *starvingSUT) Reset(cfg core.Ev) {
	s.drain()
	for _, t := range s.threads {
		t.Abandon()
	}
	s.dead = false
	s.m = hive.NewStarvingMutex()
	s.threads = map[int]*sched.Thread{}
	for i := 1; i <= s.nthr; i++ {
		s.threads[i] = sched.NewThread(i)
	}
}

var smRe = regexp.MustCompile(`WriterActive: (\w+)\s+ReadersActive: (\d+)\s+PendingWriters: (\d+)`)

func settle() {
	if !sched.Quiesce(5 * time.Second) {
		panic("process did not become quiescent within 5s")
	}
}

func (s *starvingSUT) Apply(e core.Ev) (any, any) {
	t := s.threads[core.Int(e, "t")]
	m := s.m
	var f func() any
	switch core.Str(e, "op") {
	case "RLock":
		f = func() any { m.RLock(); return nil }
	case "Lock":
		f = func() any { m.Lock(); return nil }
	case "RUnlock":
		f = func() any { m.RUnlock(); return nil }
	case "Unlock":
		f = func() any { m.Unlock(); return nil }
	default:
		panic("unknown op")
	}
	t.Go(f)
	settle()
	ret := []int{}
	blocked := []int{}
	panicked := false
	for id := 1; id <= s.nthr; id++ {
		th := s.threads[id]
		if fin, _, pan := th.Take(); fin {
			if pan != nil {
				panicked = true
				// a call that panicked inside the mutex's critical section leaves the internal
				// sync.Mutex locked (no defer in RUnlock/Unlock): the object is unusable afterwards;
				// the model treats the panic as "state unchanged", the walker resets after it
			} else {
				ret = append(ret, id)
			}
		} else if th.Busy() {
			blocked = append(blocked, id)
		}
	}
	st := core.Ev{"blocked": core.SortedInts(blocked)}
	if panicked {
		s.dead = true
	}
	mm := smRe.FindStringSubmatch(normalize(m.String()))
	if mm == nil {
		panic("cannot parse " + m.String())
	}
	st["writer"] = mm[1] == "true"
	st["readers"], _ = strconv.Atoi(mm[2])
	st["pending"], _ = strconv.Atoi(mm[3])
	return core.Ev{"ret": core.SortedInts(ret), "panic": panicked}, st
}

func normalize(s string) string {
	out := make([]rune, 0, len(s))
	for _, r := range s {
		if r == '\n' || r == '\t' {
			r = ' '
		}
		out = append(out, r)
	}
	return string(out)
}

func (s *starvingSUT) RandomCfg(r *rand.Rand) core.Ev { return core.Ev{"kind": "StarvingMutex"} }

func (s *starvingSUT) RandomStimulus(r *rand.Rand) core.Ev {
	// only idle threads may start a call
	var idle []int
	for id := 1; id <= s.nthr; id++ {
		if !s.threads[id].Busy() {
			idle = append(idle, id)
		}
	}
	if len(idle) == 0 {
		panic("all threads blocked")
	}
	t := idle[r.Intn(len(idle))]
	mm := smRe.FindStringSubmatch(normalize(s.m.String()))
	writer, readers := mm[1] == "true", mm[2] != "0"
	if r.Intn(40) == 0 { // rare misuse (ends the trace: the mutex is unusable after its panic)
		return core.Ev{"op": core.Pick(r, "RUnlock", "Unlock"), "t": t}
	}
	var ops []string
	if writer {
		ops = []string{"Unlock", "Unlock", "Unlock"}
	}
	if readers {
		ops = append(ops, "RUnlock", "RUnlock")
	}
	if len(idle) > 1 {
		ops = append(ops, "RLock", "Lock")
	}
	if len(ops) == 0 {
		ops = []string{"RLock"}
	}
	return core.Ev{"op": ops[r.Intn(len(ops))], "t": t}
}

// drain releases the old mutex until no harness thread is parked in it any more, so abandoned
// objects do not leave goroutines behind (stack dumps of the whole process stay small).
func (s *starvingSUT) drain() {
	if s.m == nil || s.dead {
		return
	}
	for i := 0; i < 64; i++ {
		busy := false
		for _, t := range s.threads {
			if t.Busy() {
				busy = true
			}
		}
		if !busy {
			return
		}
		mm := smRe.FindStringSubmatch(normalize(s.m.String()))
		func() {
			defer func() { _ = recover() }()
			if mm != nil && mm[1] == "true" {
				s.m.Unlock()
			} else {
				s.m.RUnlock()
			}
		}()
		settle()
	}
}
