// Package list adapts ds.List (property C10) to the TLA+ module List (spec/list/List.tla).
//
// Three SUTs are registered for the same module and the same transition system:
//
//	List.lockfree    ds.NewList[int](true)
//	List.threadsafe  ds.NewList[int]()
//	List.go          Go's container/list - the reference; its agreement validates the model
//
// Handles are the model's element ids (1..cfg.n); the adapter keeps the table id -> real element.
// A new element gets the smallest free id, exactly as the model does. Elements created by
// PushBackList/PushFrontList are discovered by walking in from the end they were pushed to.
package list

import (
	stdlist "container/list"
	"errors"
	"fmt"
	"math/rand"
	"regexp"
	"runtime"
	"strconv"
	"sync/atomic"
	"time"

	"github.com/iotaledger/hive.go/ds"

	"verifharness/core"
)

// elem is an element handle of either implementation (nil = no element); comparable by identity.
type elem = any

// lst is what both implementations offer (the reference lacks the iteration helpers; they are
// written out for it the way their documentation describes them).
type lst interface {
	Init() (same bool)
	Len() int
	Front() elem
	Back() elem
	PushFront(v int) elem
	PushBack(v int) elem
	InsertBefore(v int, p elem) elem
	InsertAfter(v int, p elem) elem
	Remove(e elem) int
	MoveToFront(e elem)
	MoveToBack(e elem)
	MoveBefore(e, p elem)
	MoveAfter(e, p elem)
	PushBackList(o lst)
	PushFrontList(o lst)
	ForEach(cb func(int) error) error
	ForEachReverse(cb func(int) error) error
	// Iterations returns what every whole-list iteration API yields (forwards or backwards).
	Iterations(fwd bool) [][]int
	Prev(e elem) elem
	Next(e elem) elem
	Value(e elem) int
}

// region hive.go ////////////////////////////////////////////////////////////////////////////////

type hiveList struct{ l ds.List[int] }

func hv(e ds.ListElement[int]) elem {
	if e == nil {
		return nil
	}
	return e
}
func he(e elem) ds.ListElement[int] { return e.(ds.ListElement[int]) }

func (h *hiveList) Init() bool                      { return h.l.Init() == h.l }
func (h *hiveList) Len() int                        { return h.l.Len() }
func (h *hiveList) Front() elem                     { return hv(h.l.Front()) }
func (h *hiveList) Back() elem                      { return hv(h.l.Back()) }
func (h *hiveList) PushFront(v int) elem            { return hv(h.l.PushFront(v)) }
func (h *hiveList) PushBack(v int) elem             { return hv(h.l.PushBack(v)) }
func (h *hiveList) InsertBefore(v int, p elem) elem { return hv(h.l.InsertBefore(v, he(p))) }
func (h *hiveList) InsertAfter(v int, p elem) elem  { return hv(h.l.InsertAfter(v, he(p))) }
func (h *hiveList) Remove(e elem) int               { return h.l.Remove(he(e)) }
func (h *hiveList) MoveToFront(e elem)              { h.l.MoveToFront(he(e)) }
func (h *hiveList) MoveToBack(e elem)               { h.l.MoveToBack(he(e)) }
func (h *hiveList) MoveBefore(e, p elem)            { h.l.MoveBefore(he(e), he(p)) }
func (h *hiveList) MoveAfter(e, p elem)             { h.l.MoveAfter(he(e), he(p)) }
func (h *hiveList) PushBackList(o lst)              { h.l.PushBackList(o.(*hiveList).l) }
func (h *hiveList) PushFrontList(o lst)             { h.l.PushFrontList(o.(*hiveList).l) }
func (h *hiveList) ForEach(cb func(int) error) error {
	return h.l.ForEach(cb)
}
func (h *hiveList) ForEachReverse(cb func(int) error) error {
	return h.l.ForEachReverse(cb)
}
func (h *hiveList) Iterations(fwd bool) [][]int {
	a, b := []int{}, []int{}
	if fwd {
		_ = h.l.ForEach(func(v int) error { a = append(a, v); return nil })
		h.l.Range(func(v int) { b = append(b, v) })
		vals := h.l.Values()
		if vals == nil {
			vals = []int{-8} // Values() of an empty list is an empty, non-nil slice
		}
		return [][]int{vals, a, b}
	}
	_ = h.l.ForEachReverse(func(v int) error { a = append(a, v); return nil })
	h.l.RangeReverse(func(v int) { b = append(b, v) })
	return [][]int{a, b}
}
func (h *hiveList) Prev(e elem) elem { return hv(he(e).Prev()) }
func (h *hiveList) Next(e elem) elem { return hv(he(e).Next()) }
func (h *hiveList) Value(e elem) int { return he(e).Value() }

// endregion /////////////////////////////////////////////////////////////////////////////////////

// region container/list /////////////////////////////////////////////////////////////////////////

type goList struct{ l *stdlist.List }

func gv(e *stdlist.Element) elem {
	if e == nil {
		return nil
	}
	return e
}
func ge(e elem) *stdlist.Element { return e.(*stdlist.Element) }
func gi(v any) int {
	i, _ := v.(int) // the sentinel's Value is nil
	return i
}

func (g *goList) Init() bool                      { return g.l.Init() == g.l }
func (g *goList) Len() int                        { return g.l.Len() }
func (g *goList) Front() elem                     { return gv(g.l.Front()) }
func (g *goList) Back() elem                      { return gv(g.l.Back()) }
func (g *goList) PushFront(v int) elem            { return gv(g.l.PushFront(v)) }
func (g *goList) PushBack(v int) elem             { return gv(g.l.PushBack(v)) }
func (g *goList) InsertBefore(v int, p elem) elem { return gv(g.l.InsertBefore(v, ge(p))) }
func (g *goList) InsertAfter(v int, p elem) elem  { return gv(g.l.InsertAfter(v, ge(p))) }
func (g *goList) Remove(e elem) int               { return gi(g.l.Remove(ge(e))) }
func (g *goList) MoveToFront(e elem)              { g.l.MoveToFront(ge(e)) }
func (g *goList) MoveToBack(e elem)               { g.l.MoveToBack(ge(e)) }
func (g *goList) MoveBefore(e, p elem)            { g.l.MoveBefore(ge(e), ge(p)) }
func (g *goList) MoveAfter(e, p elem)             { g.l.MoveAfter(ge(e), ge(p)) }
func (g *goList) PushBackList(o lst)              { g.l.PushBackList(o.(*goList).l) }
func (g *goList) PushFrontList(o lst)             { g.l.PushFrontList(o.(*goList).l) }
func (g *goList) ForEach(cb func(int) error) error {
	for e := g.l.Front(); e != nil; e = e.Next() {
		if err := cb(gi(e.Value)); err != nil {
			return err
		}
	}
	return nil
}
func (g *goList) ForEachReverse(cb func(int) error) error {
	for e := g.l.Back(); e != nil; e = e.Prev() {
		if err := cb(gi(e.Value)); err != nil {
			return err
		}
	}
	return nil
}
func (g *goList) Iterations(fwd bool) [][]int {
	a := []int{}
	if fwd {
		_ = g.ForEach(func(v int) error { a = append(a, v); return nil })
	} else {
		_ = g.ForEachReverse(func(v int) error { a = append(a, v); return nil })
	}
	return [][]int{a}
}
func (g *goList) Prev(e elem) elem { return gv(ge(e).Prev()) }
func (g *goList) Next(e elem) elem { return gv(ge(e).Next()) }
func (g *goList) Value(e elem) int { return gi(ge(e).Value) }

// endregion /////////////////////////////////////////////////////////////////////////////////////

// region guarded calls //////////////////////////////////////////////////////////////////////////

var (
	hangTimeout  = 2 * time.Second
	hangsSeen    atomic.Int32 // confirmed (full timeout) hangs in this process
	goroutineHdr = regexp.MustCompile(`(?m)^goroutine (\d+) \[([^\]]+)\]:`)
)

func curGoroutine() int {
	buf := make([]byte, 64)
	buf = buf[:runtime.Stack(buf, false)] // "goroutine N [running]:..."
	var id int
	_, _ = fmt.Sscanf(string(buf), "goroutine %d ", &id)
	return id
}

// lockParked reports whether goroutine id is parked on a sync (RW)Mutex.
func lockParked(id int) bool {
	buf := make([]byte, 1<<20)
	buf = buf[:runtime.Stack(buf, true)]
	for _, m := range goroutineHdr.FindAllSubmatch(buf, -1) {
		if g, _ := strconv.Atoi(string(m[1])); g == id {
			st := string(m[2])
			for _, p := range []string{"sync.RWMutex.RLock", "sync.RWMutex.Lock", "sync.Mutex.Lock", "semacquire"} {
				if len(st) >= len(p) && st[:len(p)] == p {
					return true
				}
			}
			return false
		}
	}
	return false
}

// guarded runs f in its own goroutine: "ok", "PANIC" (f panicked) or "HANG" (f does not return).
// A call is reported as hanging only when its goroutine is parked on a mutex (the harness drives
// each object from one goroutine, so nobody can ever release it) - never because the machine is
// slow: after the 2 s stall bound the goroutine's state is inspected, a goroutine that is still
// runnable is waited for (up to a minute, then it is an endless loop). Once one hang is confirmed,
// later calls seen parked on a mutex for 10 consecutive samples (>= 10 ms) are reported without
// the full wait (a self-deadlock hangs at every state of the transition system).
func guarded(f func()) string {
	done := make(chan string, 1)
	gid := make(chan int, 1)
	go func() {
		gid <- curGoroutine()
		defer func() {
			if r := recover(); r != nil {
				done <- "PANIC"
			}
		}()
		f()
		done <- "ok"
	}()
	id := <-gid
	start := time.Now()
	if hangsSeen.Load() > 0 {
		parked := 0
		tick := time.NewTicker(time.Millisecond)
		defer tick.Stop()
		for time.Since(start) < hangTimeout {
			select {
			case x := <-done:
				return x
			case <-tick.C:
				if lockParked(id) {
					parked++
				} else {
					parked = 0
				}
				if parked >= 10 {
					hangsSeen.Add(1)
					return "HANG"
				}
			}
		}
	}
	for {
		select {
		case x := <-done:
			return x
		case <-time.After(hangTimeout):
			if lockParked(id) || time.Since(start) > time.Minute {
				hangsSeen.Add(1)
				return "HANG"
			}
		}
	}
}

// endregion /////////////////////////////////////////////////////////////////////////////////////

// region SUT ////////////////////////////////////////////////////////////////////////////////////

type listSUT struct {
	threadsafe bool
	mk         func() lst
	n          int
	lists      [2]lst
	hs         []elem       // 1..n, nil = id free
	ids        map[elem]int // reverse table
	dead       bool         // a call hung: the object is abandoned

	// bookkeeping of the recorder only (chooses stimuli inside what the model explores; it never
	// influences what is observed): birth list, removed, orphaned by Init, list tainted
	born    []int
	removed []bool
	stale   []bool
	taint   [2]bool
}

func init() {
	core.Register("List.lockfree", func() core.SUT {
		return &listSUT{mk: func() lst { return &hiveList{ds.NewList[int](true)} }}
	})
	core.Register("List.threadsafe", func() core.SUT {
		return &listSUT{threadsafe: true, mk: func() lst { return &hiveList{ds.NewList[int]()} }}
	})
	core.Register("List.go", func() core.SUT {
		return &listSUT{mk: func() lst { return &goList{stdlist.New()} }}
	})
}

func (s *listSUT) Reset(cfg core.Ev) {
	s.n = core.Int(cfg, "n")
	s.lists = [2]lst{s.mk(), s.mk()}
	s.hs = make([]elem, s.n+1)
	s.ids = map[elem]int{}
	s.dead = false
	s.born = make([]int, s.n+1)
	s.removed = make([]bool, s.n+1)
	s.stale = make([]bool, s.n+1)
	s.taint = [2]bool{}
}

// id of an element: 0 = nil, -1 = not an element the caller ever got (a list's sentinel).
func (s *listSUT) id(e elem) int {
	if e == nil {
		return 0
	}
	if i, ok := s.ids[e]; ok {
		return i
	}
	return -1
}

// register gives a newly created element the smallest free id (0 for nil).
func (s *listSUT) register(e elem, l int) int {
	if e == nil {
		return 0
	}
	if i, ok := s.ids[e]; ok {
		return i // an element handed out twice: shows up as a wrong result
	}
	for i := 1; i <= s.n; i++ {
		if s.hs[i] == nil {
			s.hs[i], s.ids[e] = e, i
			s.born[i], s.removed[i], s.stale[i] = l, false, false
			return i
		}
	}
	panic("adapter: handle table full (stimulus outside the model's bounds)")
}

func (s *listSUT) free() int {
	k := 0
	for i := 1; i <= s.n; i++ {
		if s.hs[i] == nil {
			k++
		}
	}
	return k
}

func (s *listSUT) h(e core.Ev, k string) elem {
	i := core.Int(e, k)
	if i < 1 || i > s.n || s.hs[i] == nil {
		panic(fmt.Sprintf("adapter: handle %d not allocated", i))
	}
	return s.hs[i]
}

// owns: according to the bookkeeping, does handle i pass the ownership test of list l?
func (s *listSUT) owns(l, i int) bool { return s.born[i] == l && !s.removed[i] }

func (s *listSUT) useStale(l int, hs ...int) {
	for _, i := range hs {
		if s.owns(l, i) && s.stale[i] {
			s.taint[l-1] = true
		}
	}
}

var errStop = errors.New("stop")

func res(x string, r any) core.Ev { return core.Ev{"x": x, "r": r} }

func (s *listSUT) Apply(e core.Ev) (any, any) {
	if s.dead {
		panic("adapter: object abandoned after a hanging call")
	}
	op := core.Str(e, "op")
	if op == "Forget" {
		return res("ok", s.forget(core.Int(e, "h"))), s.st()
	}
	li := core.Int(e, "l")
	l := s.lists[li-1]
	switch op {
	case "PushFront":
		return res("ok", s.register(l.PushFront(core.Int(e, "v")), li)), s.st()
	case "PushBack":
		return res("ok", s.register(l.PushBack(core.Int(e, "v")), li)), s.st()
	case "InsertBefore":
		s.useStale(li, core.Int(e, "p"))
		return res("ok", s.register(l.InsertBefore(core.Int(e, "v"), s.h(e, "p")), li)), s.st()
	case "InsertAfter":
		s.useStale(li, core.Int(e, "p"))
		return res("ok", s.register(l.InsertAfter(core.Int(e, "v"), s.h(e, "p")), li)), s.st()
	case "Remove":
		i := core.Int(e, "h")
		s.useStale(li, i)
		v := l.Remove(s.h(e, "h"))
		if s.owns(li, i) {
			s.removed[i] = true
		}
		return res("ok", v), s.st()
	case "RangeMut":
		// an iteration whose callback removes element h at its k-th call
		i, k, cnt := core.Int(e, "h"), core.Int(e, "k"), 0
		vis := []int{}
		cb := func(v int) error {
			cnt++
			vis = append(vis, v)
			if cnt == k {
				l.Remove(s.h(e, "h"))
				if s.owns(li, i) {
					s.removed[i] = true
				}
			}
			if cnt > 64 {
				return errStop // (an iteration that does not end is cut off)
			}
			return nil
		}
		if core.Bool(e, "fwd") {
			_ = l.ForEach(cb)
		} else {
			_ = l.ForEachReverse(cb)
		}
		return res("ok", core.Seq(vis)), s.st()
	case "MoveToFront":
		s.useStale(li, core.Int(e, "h"))
		l.MoveToFront(s.h(e, "h"))
		return res("ok", 0), s.st()
	case "MoveToBack":
		s.useStale(li, core.Int(e, "h"))
		l.MoveToBack(s.h(e, "h"))
		return res("ok", 0), s.st()
	case "MoveBefore":
		if core.Int(e, "h") != core.Int(e, "p") && s.owns(li, core.Int(e, "h")) && s.owns(li, core.Int(e, "p")) {
			s.useStale(li, core.Int(e, "h"), core.Int(e, "p"))
		}
		l.MoveBefore(s.h(e, "h"), s.h(e, "p"))
		return res("ok", 0), s.st()
	case "MoveAfter":
		if core.Int(e, "h") != core.Int(e, "p") && s.owns(li, core.Int(e, "h")) && s.owns(li, core.Int(e, "p")) {
			s.useStale(li, core.Int(e, "h"), core.Int(e, "p"))
		}
		l.MoveAfter(s.h(e, "h"), s.h(e, "p"))
		return res("ok", 0), s.st()
	case "PushBackList", "PushFrontList":
		o := s.lists[core.Int(e, "o")-1]
		k := o.Len()
		back := op == "PushBackList"
		x := guarded(func() {
			if back {
				l.PushBackList(o)
			} else {
				l.PushFrontList(o)
			}
		})
		if x == "HANG" {
			s.dead = true
			return res(x, 0), core.Ev{"hang": true}
		}
		// the new elements sit at the end they were pushed to, newest outermost
		var fresh []elem
		cur := l.Front()
		if back {
			cur = l.Back()
		}
		for i := 0; i < k && cur != nil && s.id(cur) == -1; i++ {
			fresh = append(fresh, cur)
			if back {
				cur = l.Prev(cur)
			} else {
				cur = l.Next(cur)
			}
		}
		for i := len(fresh) - 1; i >= 0 && s.free() > 0; i-- {
			s.register(fresh[i], li)
		}
		return res(x, 0), s.st()
	case "Init":
		same := l.Init()
		for i := 1; i <= s.n; i++ {
			if s.hs[i] != nil && s.owns(li, i) {
				s.stale[i] = true
			}
		}
		r := 0
		if same {
			r = 1
		}
		return res("ok", r), s.st()
	case "ForEach", "ForEachReverse":
		k, cnt := core.Int(e, "k"), 0
		vis := []int{}
		cb := func(v int) error {
			cnt++
			vis = append(vis, v)
			if cnt == k {
				return errStop
			}
			return nil
		}
		var err error
		if op == "ForEach" {
			err = l.ForEach(cb)
		} else {
			err = l.ForEachReverse(cb)
		}
		x := "ok"
		if err == errStop {
			x = "err"
		} else if err != nil {
			x = "other error: " + err.Error()
		}
		return res(x, core.Seq(vis)), s.st()
	}
	panic("unknown op " + op)
}

// forget drops handle ids (harness-level): a removed element, or all elements orphaned by Init of
// an untainted list. Returns how many ids were freed.
func (s *listSUT) forget(i int) int {
	if i < 1 || i > s.n || s.hs[i] == nil {
		return 0
	}
	var g []int
	switch {
	case s.removed[i]:
		// model: only if nothing points at it - true whenever no list is tainted
		if !s.taint[0] && !s.taint[1] {
			g = []int{i}
		} else {
			return -1 // recorder never does this (unreferenced cannot be judged from outside)
		}
	case s.stale[i] && !s.taint[s.born[i]-1]:
		for j := 1; j <= s.n; j++ {
			if s.hs[j] != nil && s.stale[j] && !s.removed[j] && s.born[j] == s.born[i] {
				g = append(g, j)
			}
		}
	}
	for _, j := range g {
		delete(s.ids, s.hs[j])
		s.hs[j] = nil
		s.stale[j], s.removed[j], s.born[j] = false, false, 0
	}
	return len(g)
}

// walk is `for e := start; e != nil; e = step(e)` with the model's fuel (-9 = did not end).
func (s *listSUT) walk(l lst, start elem, fwd bool) ([]int, bool) {
	out := []int{}
	e := start
	for fuel := s.n + 2; e != nil; fuel-- {
		if fuel == 0 {
			return append(out, -9), false
		}
		out = append(out, l.Value(e))
		if fwd {
			e = l.Next(e)
		} else {
			e = l.Prev(e)
		}
	}
	return out, true
}

func same(a, b []int) bool {
	if len(a) != len(b) {
		return false
	}
	for i := range a {
		if a[i] != b[i] {
			return false
		}
	}
	return true
}

func (s *listSUT) lst(l lst) core.Ev {
	fwd, okf := s.walk(l, l.Front(), true)
	bwd, okb := s.walk(l, l.Back(), false)
	agree := true
	if okf { // the iteration helpers would not return on a list whose Next chain does not end
		for _, it := range l.Iterations(true) {
			agree = agree && same(it, fwd)
		}
	}
	if okb {
		for _, it := range l.Iterations(false) {
			agree = agree && same(it, bwd)
		}
	}
	return core.Ev{"len": l.Len(), "front": s.id(l.Front()), "back": s.id(l.Back()),
		"fwd": core.Seq(fwd), "bwd": core.Seq(bwd), "agree": agree}
}

func (s *listSUT) st() any {
	hs := make([]any, s.n)
	for i := 1; i <= s.n; i++ {
		if e := s.hs[i]; e == nil {
			hs[i-1] = core.Ev{"p": 0, "n": 0, "v": 0}
		} else {
			l := s.lists[0]
			hs[i-1] = core.Ev{"p": s.id(l.Prev(e)), "n": s.id(l.Next(e)), "v": l.Value(e)}
		}
	}
	return core.Ev{"l1": s.lst(s.lists[0]), "l2": s.lst(s.lists[1]), "h": hs}
}

// Scenario (thread-safe flavour): an iteration over a list during which ANOTHER goroutine calls a mutator of the
// same list (started from the callback's at-th call, which gives it 4 ms to finish).  Every call of the
// thread-safe list is one atomic step, so the iteration has seen the list either as it was before the mutator
// or as it is after it: the two calls are logged in that order (iteration first iff what it saw is the order
// the list had before), each with the state observed at that point, and the model decides.
func (s *listSUT) Scenario(r *rand.Rand) []core.Ev {
	if !s.threadsafe || s.dead || s.taint[0] || s.taint[1] {
		return nil
	}
	li := 1 + r.Intn(2)
	l := s.lists[li-1]
	var own []int
	for _, i := range s.handles() {
		if s.owns(li, i) && !s.stale[i] {
			own = append(own, i)
		}
	}
	if len(own) < 2 || l.Len() < 2 {
		return nil
	}
	h, p := own[r.Intn(len(own))], own[r.Intn(len(own))]
	var m core.Ev
	switch c := r.Intn(10); {
	case c < 4:
		m = core.Ev{"op": core.Pick(r, "MoveBefore", "MoveAfter"), "l": li, "h": h, "p": p}
	case c < 6:
		m = core.Ev{"op": core.Pick(r, "MoveToFront", "MoveToBack"), "l": li, "h": h}
	case c < 7:
		m = core.Ev{"op": "Remove", "l": li, "h": h}
	case c < 9 && s.free() > 0:
		m = core.Ev{"op": core.Pick(r, "InsertBefore", "InsertAfter", "PushFront", "PushBack"), "l": li, "v": 1 + r.Intn(2), "p": p}
	default:
		m = core.Ev{"op": "MoveBefore", "l": li, "h": h, "p": p}
	}
	fwd := r.Intn(2) == 0
	at := 1 + r.Intn(l.Len())
	iterate := func(cb func(int) error) {
		if fwd {
			_ = l.ForEach(cb)
		} else {
			_ = l.ForEachReverse(cb)
		}
	}
	before := []int{}
	iterate(func(v int) error { before = append(before, v); return nil })
	pre := s.st()
	var mres, mst any
	done := make(chan struct{})
	vis, cnt := []int{}, 0
	meanwhile := func() { // runs on the iterating goroutine, in the middle of the iteration
		go func() {
			defer close(done)
			defer func() {
				if r := recover(); r != nil {
					mres, mst = res("PANIC", 0), nil
				}
			}()
			mres, mst = s.Apply(m)
		}()
		select {
		case <-done:
		case <-time.After(4 * time.Millisecond):
		}
	}
	if _, ok := l.(*hiveList); ok && r.Intn(4) == 0 {
		// the list is pushed onto ITSELF (l.PushBackList(l) / l.PushFrontList(l)): reading the argument and inserting its
		// values is one step.  If the call reads the list through Range/Values (hook list-range-step) the mutator is started
		// at the at-th step; a mutator that finishes while the push is still reading took effect BEFORE the push (the push
		// cannot have inserted anything it has not read yet), so it is logged first.  A mutator that had to wait while the
		// push stood in the middle of its reading cannot be ordered from outside: the trace ends there.
		mnew := 0
		if op := core.Str(m, "op"); op == "PushFront" || op == "PushBack" || op == "InsertBefore" || op == "InsertAfter" {
			mnew = 1
		}
		if l.Len()+mnew+1 > s.free() {
			return nil
		}
		pbl := core.Ev{"op": core.Pick(r, "PushBackList", "PushFrontList"), "l": li, "o": li}
		armed, fired, during := true, false, false
		self := curGoroutine()
		preLen := l.Len()
		ds.VerifHook = func(p string) {
			// (Apply runs the push itself in a goroutine of its own and reads the state afterwards on this one)
			if armed && p == "list-range-step" && curGoroutine() != self {
				if cnt++; cnt == at {
					armed, fired = false, true
					meanwhile()
					select {
					case <-done:
						during = true
					default:
					}
				}
			}
		}
		pres, pst := s.Apply(pbl)
		armed = false
		ds.VerifHook = nil
		lenOf := func(st any) int {
			if ev, ok := st.(core.Ev); ok {
				if ls, ok := ev[fmt.Sprintf("l%d", li)].(core.Ev); ok {
					return core.Int(ls, "len")
				}
			}
			return -1
		}
		delta := mnew
		if core.Str(m, "op") == "Remove" {
			delta = -1
		}
		line := func(e core.Ev, res, st any) core.Ev {
			out := core.Ev{}
			for k, v := range e {
				out[k] = v
			}
			out["res"], out["st"] = res, st
			return out
		}
		switch {
		case !fired:
			meanwhile()
			<-done
			return []core.Ev{line(pbl, pres, pst), line(m, mres, mst)}
		case during:
			return []core.Ev{line(m, mres, mst), line(pbl, pres, pst)}
		}
		// the mutator had to wait while the push stood in the middle of its reading
		select {
		case <-done:
		case <-time.After(5 * time.Second):
			s.dead = true
			return nil
		}
		switch {
		case lenOf(mst) == preLen+delta: // what the mutator saw right after its call: its own effect, nothing pushed yet
			return []core.Ev{line(m, mres, mst), line(pbl, pres, pst)}
		case lenOf(pst) == 2*preLen && lenOf(mst) == 2*preLen+delta: // the push alone, then the mutator on top of it
			return []core.Ev{line(pbl, pres, pst), line(m, mres, mst)}
		}
		s.dead = true // (the observations overlap: the two calls cannot be ordered from outside; the trace ends here)
		return nil
	}
	var x string
	if hl, ok := l.(*hiveList); ok && r.Intn(2) == 0 {
		// the iteration APIs without a consumer that could stop them half-way (Values, Range, RangeReverse): the list's own
		// yield point (hook list-range-step, before each step) is where the mutator is started
		armed := true
		ds.VerifHook = func(p string) {
			if armed && p == "list-range-step" {
				if cnt++; cnt == at {
					armed = false
					meanwhile()
				}
			}
		}
		x = guarded(func() {
			switch {
			case fwd && r.Intn(2) == 0:
				vis = append(vis, hl.l.Values()...)
			case fwd:
				hl.l.Range(func(v int) { vis = append(vis, v) })
			default:
				hl.l.RangeReverse(func(v int) { vis = append(vis, v) })
			}
		})
		ds.VerifHook = nil
		if armed { // (the hook never reached its at-th step: nothing ran meanwhile)
			armed = false
			meanwhile()
		}
	} else {
		x = guarded(func() {
			iterate(func(v int) error {
				cnt++
				vis = append(vis, v)
				if cnt == at {
					meanwhile()
				}
				if cnt > 64 {
					return errStop // (an iteration that does not end is cut off)
				}
				return nil
			})
		})
	}
	select {
	case <-done:
	case <-time.After(5 * time.Second):
		x = "HANG"
	}
	op := "ForEachReverse"
	if fwd {
		op = "ForEach"
	}
	it := core.Ev{"op": op, "l": li, "k": 99, "res": res(x, core.Seq(vis))}
	if x != "ok" {
		s.dead = true
		it["st"] = core.Ev{"hang": true}
		return []core.Ev{it}
	}
	ml := core.Ev{}
	for k, v := range m {
		ml[k] = v
	}
	ml["res"], ml["st"] = mres, mst
	if fmt.Sprint(vis) == fmt.Sprint(before) {
		it["st"] = pre
		return []core.Ev{it, ml}
	}
	it["st"] = mst
	return []core.Ev{ml, it}
}

func (s *listSUT) Dead() bool { return s.dead }

// endregion /////////////////////////////////////////////////////////////////////////////////////

// region recorder ///////////////////////////////////////////////////////////////////////////////

func (s *listSUT) RandomCfg(r *rand.Rand) core.Ev { return core.Ev{"n": 6} }

func (s *listSUT) handles() []int {
	var hs []int
	for i := 1; i <= s.n; i++ {
		if s.hs[i] != nil {
			hs = append(hs, i)
		}
	}
	return hs
}

// RandomStimulus stays inside what Do models exactly: enough free ids for the elements a call
// creates, no whole-list push from/into a tainted list, Forget only where it frees something.
func (s *listSUT) RandomStimulus(r *rand.Rand) core.Ev {
	hs := s.handles()
	l := 1 + r.Intn(2)
	v := 1 + r.Intn(2)
	for try := 0; try < 100; try++ {
		c := r.Intn(100)
		switch {
		case c < 14:
			if s.free() > 0 {
				return core.Ev{"op": core.Pick(r, "PushFront", "PushBack"), "l": l, "v": v}
			}
		case c < 28:
			if len(hs) > 0 {
				p := hs[r.Intn(len(hs))]
				if s.free() > 0 || !s.owns(l, p) {
					return core.Ev{"op": core.Pick(r, "InsertBefore", "InsertAfter"), "l": l, "v": v, "p": p}
				}
			}
		case c < 40:
			if len(hs) > 0 {
				return core.Ev{"op": core.Pick(r, "MoveToFront", "MoveToBack"), "l": l, "h": hs[r.Intn(len(hs))]}
			}
		case c < 60:
			if len(hs) > 0 {
				return core.Ev{"op": core.Pick(r, "MoveBefore", "MoveAfter"), "l": l, "h": hs[r.Intn(len(hs))], "p": hs[r.Intn(len(hs))]}
			}
		case c < 70:
			if len(hs) > 0 {
				return core.Ev{"op": "Remove", "l": l, "h": hs[r.Intn(len(hs))]}
			}
		case c < 78:
			o := 1 + r.Intn(2)
			if !s.taint[l-1] && !s.taint[o-1] && !s.dead && s.lists[o-1].Len() <= s.free() {
				return core.Ev{"op": core.Pick(r, "PushBackList", "PushFrontList"), "l": l, "o": o}
			}
		case c < 80:
			return core.Ev{"op": "Init", "l": l}
		case c < 86:
			return core.Ev{"op": core.Pick(r, "ForEach", "ForEachReverse"), "l": l, "k": 1 + r.Intn(2)}
		default:
			if len(hs) > 0 {
				i := hs[r.Intn(len(hs))]
				if (s.removed[i] && !s.taint[0] && !s.taint[1]) || (!s.removed[i] && s.stale[i] && !s.taint[s.born[i]-1]) {
					return core.Ev{"op": "Forget", "h": i}
				}
			}
		}
	}
	return core.Ev{"op": "ForEach", "l": l, "k": 1}
}

// endregion /////////////////////////////////////////////////////////////////////////////////////
