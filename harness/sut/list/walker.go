package list

// A transition-tour walker for large transition systems (the List LTS has > 10^5 edges, far more
// than core.Walk's per-step search is built for). Same contract and same report format as
// core.Walk: every stimulus group (state, stimulus) of the exported LTS is applied to the real
// object at that state, the observation must equal the res/st of one of the group's edges;
// random walks follow. The LTS is loaded once and walked for several SUTs.
//
//	h-C10 listlts <edges> -suts List.go,List.lockfree,List.threadsafe -seed 1 -walks 200 -depth 30 -out <prefix>
//
// writes <prefix>.<sut>.walk.json (core.WalkReport) per SUT.

import (
	"bufio"
	"encoding/json"
	"flag"
	"fmt"
	"math/rand"
	"os"
	"sort"
	"strings"
	"sync"

	"verifharness/core"
)

type wEdge struct {
	to  int32
	obs string // canonical JSON of {"res":..,"st":..}
}

type wGroup struct {
	stimKey string
	stim    core.Ev
	edges   []wEdge
}

type wLTS struct {
	names  []string
	index  map[string]int32
	groups [][]wGroup // per state, sorted by stimKey
	inits  []int32
	cfgs   map[int32]core.Ev
	nEdges int
}

func loadLTS(path string) (*wLTS, error) {
	f, err := os.Open(path)
	if err != nil {
		return nil, err
	}
	defer f.Close()
	l := &wLTS{index: map[string]int32{}, cfgs: map[int32]core.Ev{}}
	state := func(name string) int32 {
		if i, ok := l.index[name]; ok {
			return i
		}
		i := int32(len(l.names))
		l.index[name] = i
		l.names = append(l.names, name)
		l.groups = append(l.groups, nil)
		return i
	}
	gidx := []map[string]int{}
	sc := bufio.NewScanner(f)
	sc.Buffer(make([]byte, 1<<20), 1<<28)
	for sc.Scan() {
		if len(sc.Bytes()) == 0 {
			continue
		}
		var raw struct {
			F string  `json:"f"`
			T string  `json:"t"`
			I bool    `json:"i"`
			C core.Ev `json:"c"`
			E core.Ev `json:"e"`
		}
		if err := json.Unmarshal(sc.Bytes(), &raw); err != nil {
			return nil, fmt.Errorf("edge: %w", err)
		}
		from, to := state(raw.F), state(raw.T)
		for len(gidx) < len(l.names) {
			gidx = append(gidx, nil)
		}
		stim := core.Stim(raw.E)
		key := core.Canon(stim)
		obs := core.Canon(core.Ev{"res": raw.E["res"], "st": raw.E["st"]})
		if gidx[from] == nil {
			gidx[from] = map[string]int{}
		}
		gi, ok := gidx[from][key]
		if !ok {
			gi = len(l.groups[from])
			gidx[from][key] = gi
			l.groups[from] = append(l.groups[from], wGroup{stimKey: key, stim: stim})
		}
		l.groups[from][gi].edges = append(l.groups[from][gi].edges, wEdge{to: to, obs: obs})
		l.nEdges++
		if raw.I {
			if _, seen := l.cfgs[from]; !seen {
				l.inits = append(l.inits, from)
			}
			l.cfgs[from] = raw.C
		}
	}
	for s := range l.groups {
		g := l.groups[s]
		sort.Slice(g, func(i, j int) bool { return g[i].stimKey < g[j].stimKey })
	}
	sort.Slice(l.inits, func(i, j int) bool { return l.names[l.inits[i]] < l.names[l.inits[j]] })
	return l, sc.Err()
}

type tour struct {
	lts     *wLTS
	sut     core.SUT
	name    string
	rep     *core.WalkReport
	cur     int32
	cfg     core.Ev
	path    []core.Ev
	covered [][][]bool // state, group, edge
	done    [][]bool   // state, group
	bad     [][]bool
	tries   [][]int
	pending []int   // per state: groups not done
	cursor  []int   // per state: first group that may be undone
	stamp   []int32 // BFS visit stamps
	prev    []int32
	via     []int32
	epoch   int32
	maxMis  int
	perOp   map[string]int
	hangs   map[string]int // stimulus -> calls that did not return
	skipped int
}

// hangCap: a stimulus that hung this often (a deterministic self-deadlock hangs at every state of
// the LTS) is not applied any more; its remaining groups count as failed, not as covered.
const hangCap = 5

func (t *tour) hung(s int32, g int) bool {
	return t.hangs[t.lts.groups[s][g].stimKey] >= hangCap
}

func observe(res, st any) string {
	b, err := json.Marshal(core.Ev{"res": res, "st": st})
	if err != nil {
		panic(err)
	}
	return string(b)
}

func (t *tour) reset(init int32) {
	t.cfg = t.lts.cfgs[init]
	t.sut.Reset(t.cfg)
	t.cur = init
	t.path = append(t.path[:0], core.Ev{"op": "reset", "cfg": t.cfg})
	t.rep.Resets++
}

func (t *tour) markDone(s int32, g int) {
	if !t.done[s][g] {
		t.done[s][g] = true
		t.pending[s]--
	}
}

// step applies group g at the current state; false = mismatch (caller resets).
func (t *tour) step(g int) bool {
	s := t.cur
	grp := &t.lts.groups[s][g]
	res, st, _ := core.SafeApply(t.sut, grp.stim)
	t.rep.Steps++
	obs := observe(res, st)
	t.path = append(t.path, core.Ev{"stim": grp.stim, "res": res, "st": st})
	t.tries[s][g]++
	for i, e := range grp.edges {
		if e.obs == obs {
			if !t.covered[s][g][i] {
				t.covered[s][g][i] = true
				t.rep.EdgesCovered++
			}
			all := true
			for _, c := range t.covered[s][g] {
				all = all && c
			}
			if all || t.tries[s][g] >= 8*len(grp.edges) {
				t.markDone(s, int(g))
			}
			t.cur = e.to
			return true
		}
	}
	t.bad[s][g] = true
	t.markDone(s, g)
	if r, ok := res.(core.Ev); ok && r["x"] == "HANG" {
		t.hangs[grp.stimKey]++
	}
	op, _ := grp.stim["op"].(string)
	t.perOp[op]++
	if len(t.rep.Mismatches) < t.maxMis && t.perOp[op] <= 3 { // a few per operation, so that every failing operation is reported
		var exp []any
		for _, e := range grp.edges {
			var x any
			_ = json.Unmarshal([]byte(e.obs), &x)
			exp = append(exp, x)
		}
		t.rep.Mismatches = append(t.rep.Mismatches, core.Mismatch{Sut: t.name, Flow: "lts", Op: op, Stimulus: grp.stim,
			Expected: exp, Observed: core.Ev{"res": res, "st": st}, Cfg: t.cfg, Path: append([]core.Ev(nil), t.path...)})
	}
	return false
}

// route finds the nearest state (from `from`, through deterministic, not-bad groups) that has an
// undone group; returns the groups to take.
func (t *tour) route(from int32) ([]int, bool) {
	t.epoch++
	queue := []int32{from}
	t.stamp[from] = t.epoch
	t.prev[from] = -1
	for qi := 0; qi < len(queue); qi++ {
		s := queue[qi]
		if t.pending[s] > 0 {
			var rev []int
			for x := s; t.prev[x] >= 0; x = t.prev[x] {
				rev = append(rev, int(t.via[x]))
			}
			for a, b := 0, len(rev)-1; a < b; a, b = a+1, b-1 {
				rev[a], rev[b] = rev[b], rev[a]
			}
			return rev, true
		}
		for g := range t.lts.groups[s] {
			grp := &t.lts.groups[s][g]
			if len(grp.edges) != 1 || t.bad[s][g] || t.hung(s, g) {
				continue
			}
			to := grp.edges[0].to
			if t.stamp[to] != t.epoch {
				t.stamp[to] = t.epoch
				t.prev[to] = s
				t.via[to] = int32(g)
				queue = append(queue, to)
			}
		}
	}
	return nil, false
}

func (t *tour) nextUndone(s int32) int {
	for g := t.cursor[s]; g < len(t.done[s]); g++ {
		if !t.done[s][g] {
			t.cursor[s] = g
			return g
		}
	}
	// nondeterministic groups may become undone again only never; rescan from 0 once
	for g := 0; g < len(t.done[s]); g++ {
		if !t.done[s][g] {
			return g
		}
	}
	return -1
}

func walkLTS(name string, sut core.SUT, l *wLTS, seed int64, walks, depth, maxMis int) *core.WalkReport {
	rep := &core.WalkReport{Sut: name, Edges: l.nEdges, States: len(l.names)}
	n := len(l.names)
	t := &tour{lts: l, sut: sut, name: name, rep: rep, maxMis: maxMis, perOp: map[string]int{}, hangs: map[string]int{},
		covered: make([][][]bool, n), done: make([][]bool, n), bad: make([][]bool, n), tries: make([][]int, n),
		pending: make([]int, n), cursor: make([]int, n), stamp: make([]int32, n), prev: make([]int32, n), via: make([]int32, n)}
	for s := range l.groups {
		k := len(l.groups[s])
		rep.Groups += k
		t.covered[s] = make([][]bool, k)
		for g := range l.groups[s] {
			t.covered[s][g] = make([]bool, len(l.groups[s][g].edges))
		}
		t.done[s], t.bad[s], t.tries[s] = make([]bool, k), make([]bool, k), make([]int, k)
		t.pending[s] = k
	}
	for _, init := range l.inits {
		t.reset(init)
		for {
			if g := t.nextUndone(t.cur); g >= 0 {
				if t.hung(t.cur, g) {
					t.bad[t.cur][g] = true
					t.markDone(t.cur, g)
					t.skipped++
					continue
				}
				if !t.step(g) {
					t.reset(init)
				}
				continue
			}
			r, ok := t.route(t.cur)
			if !ok {
				if r, ok = t.route(init); !ok {
					break
				}
				t.reset(init)
			}
			alive := true
			for _, g := range r {
				if !t.step(g) {
					alive = false
					break
				}
			}
			if !alive {
				t.reset(init)
			}
		}
		if len(rep.Samples) < 3 && len(t.path) > 1 {
			p := t.path
			if len(p) > 12 {
				p = p[:12]
			}
			rep.Samples = append(rep.Samples, append([]core.Ev(nil), p...))
		}
	}
	rng := rand.New(rand.NewSource(seed))
	for i := 0; i < walks && len(l.inits) > 0; i++ {
		t.reset(l.inits[rng.Intn(len(l.inits))])
		rep.RandomWalks++
		for d := 0; d < depth; d++ {
			var ok []int
			for g := range l.groups[t.cur] {
				if !t.bad[t.cur][g] && !t.hung(t.cur, g) {
					ok = append(ok, g)
				}
			}
			if len(ok) == 0 || !t.step(ok[rng.Intn(len(ok))]) {
				break
			}
		}
	}
	if t.skipped > 0 {
		fmt.Fprintf(os.Stderr, "%s: %d stimulus groups not applied (their stimulus hung %d times before)\n", name, t.skipped, hangCap)
	}
	for s := range l.groups {
		for g := range l.groups[s] {
			if t.bad[s][g] {
				continue
			}
			for _, c := range t.covered[s][g] {
				if c {
					rep.GroupsCovered++
					break
				}
			}
		}
	}
	return rep
}

func init() {
	core.RegisterCommand("listlts", func(args []string) int {
		if len(args) < 1 {
			fmt.Fprintln(os.Stderr, "usage: listlts <edges> -suts a,b -seed N -walks N -depth N -out prefix")
			return 2
		}
		fs := flag.NewFlagSet("listlts", flag.ExitOnError)
		suts := fs.String("suts", "List.go,List.lockfree,List.threadsafe", "")
		seed := fs.Int64("seed", 1, "")
		walks := fs.Int("walks", 200, "")
		depth := fs.Int("depth", 30, "")
		maxm := fs.Int("maxmismatch", 50, "")
		out := fs.String("out", "walk", "")
		_ = fs.Parse(args[1:])
		l, err := loadLTS(args[0])
		if err != nil {
			fmt.Fprintln(os.Stderr, err)
			return 2
		}
		// the LTS is read-only from here on: one goroutine per SUT
		var wg sync.WaitGroup
		for _, name := range strings.Split(*suts, ",") {
			wg.Add(1)
			go func(name string) {
				defer wg.Done()
				rep := walkLTS(name, core.New(name), l, *seed, *walks, *depth, *maxm)
				core.WriteJSON(*out+"."+name+".walk.json", rep)
			}(name)
		}
		wg.Wait()
		return 0
	})
}
