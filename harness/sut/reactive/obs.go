// Package reactive drives ds/reactive (properties C13, C14): free-running writers / subscribers / unsubscribers and
// forced schedules (subscriber callbacks are gates); what subscribers observe is logged in one global order and
// validated by TLC against spec/reactive/ReactiveObs.tla.
package reactive

import (
	"bufio"
	"encoding/json"
	"flag"
	"fmt"
	"math/rand"
	"os"
	"runtime"
	"sort"
	"sync"
	"time"

	"github.com/iotaledger/hive.go/ds"
	hive "github.com/iotaledger/hive.go/ds/reactive"

	"verifharness/core"
	"verifharness/sched"
)

func init() { core.RegisterCommand("reactobs", reactObs) }

type rlog struct {
	mu  sync.Mutex
	evs []core.Ev
}

func (l *rlog) add(e core.Ev) { l.mu.Lock(); l.evs = append(l.evs, e); l.mu.Unlock() }

type obsRun struct {
	kind    string
	lg      *rlog
	gate    *sched.Gate
	mu      sync.Mutex
	threads []chan struct{}
	names   []int
	gone    map[int]bool
}

func newObsRun(kind string) *obsRun {
	return &obsRun{kind: kind, lg: &rlog{}, gate: sched.NewGate(), gone: map[int]bool{}}
}

func (r *obsRun) spawn(id int, f func()) {
	ch := make(chan struct{})
	r.mu.Lock()
	r.threads = append(r.threads, ch)
	r.names = append(r.names, id)
	r.mu.Unlock()
	go func() { defer close(ch); f() }()
}

func (r *obsRun) wait(d time.Duration) []int {
	hung := []int{}
	deadline := time.After(d)
	r.mu.Lock()
	ths, names := append([]chan struct{}(nil), r.threads...), append([]int(nil), r.names...)
	r.mu.Unlock()
	for i, ch := range ths {
		select {
		case <-ch:
		case <-deadline:
			hung = append(hung, names[i])
			deadline = time.After(time.Millisecond)
		}
	}
	sort.Ints(hung)
	return hung
}

func (r *obsRun) emit(enc *json.Encoder, final core.Ev) {
	r.lg.mu.Lock()
	defer r.lg.mu.Unlock()
	_ = enc.Encode(core.Ev{"op": "reset", "cfg": core.Ev{"kind": r.kind}})
	for _, e := range r.lg.evs {
		_ = enc.Encode(e)
	}
	final["op"] = "final"
	_ = enc.Encode(final)
}

func (r *obsRun) active(subs []int) []any {
	out := []int{}
	r.mu.Lock()
	for _, s := range subs {
		if !r.gone[s] {
			out = append(out, s)
		}
	}
	r.mu.Unlock()
	return core.SortedInts(out)
}

func jitter(rg *rand.Rand) {
	switch rg.Intn(4) {
	case 0:
		runtime.Gosched()
	case 1:
		time.Sleep(time.Duration(rg.Intn(200)) * time.Microsecond)
	}
}

// varCallback returns the OnUpdate callback of subscriber s.
func (r *obsRun) varCallback(s int, rg *rand.Rand) func(prev, next int) {
	var mu sync.Mutex
	return func(prev, next int) {
		r.lg.add(core.Ev{"op": "cb", "s": s, "prev": prev, "new": next})
		r.gate.Wait(fmt.Sprintf("cb-%d", s))
		mu.Lock()
		if rg != nil {
			jitter(rg)
		}
		mu.Unlock()
		r.lg.add(core.Ev{"op": "cbEnd", "s": s})
	}
}

func (r *obsRun) subscribeVar(v hive.Variable[int], s int, rg *rand.Rand) (unsub func()) {
	r.lg.add(core.Ev{"op": "subBegin", "s": s})
	u := v.OnUpdate(r.varCallback(s, rg), true)
	r.lg.add(core.Ev{"op": "subEnd", "s": s})
	return func() {
		r.lg.add(core.Ev{"op": "unsubBegin", "s": s})
		u()
		r.mu.Lock()
		r.gone[s] = true
		r.mu.Unlock()
		r.lg.add(core.Ev{"op": "unsubEnd", "s": s})
	}
}

func (r *obsRun) write(v hive.Variable[int], val int, compute bool) {
	var prev int
	if compute {
		prev = v.Compute(func(int) int { return val })
	} else {
		prev = v.Set(val)
	}
	if prev != val {
		r.lg.add(core.Ev{"op": "write", "prev": prev, "new": val})
	}
}

// writeInit: a write through Variable.Init.  Init does not return the previous value; it is read before the call (the
// scenarios that use it have no other writer that could change the value in between: none at all, or one whose update is
// already applied and who is held while it notifies).
func (r *obsRun) writeInit(v hive.Variable[int], val int) {
	prev := v.Get()
	v.Init(val)
	if prev != val {
		r.lg.add(core.Ev{"op": "write", "prev": prev, "new": val})
	}
}

func freeVar(enc *json.Encoder, rng *rand.Rand, tr int) int {
	r := newObsRun("var")
	v := hive.NewVariable[int]()
	if tr%5 == 4 {
		runtime.GOMAXPROCS(1)
	} else {
		runtime.GOMAXPROCS(16)
	}
	nw, ns, per := 2+rng.Intn(3), 2+rng.Intn(4), 3+rng.Intn(10)
	subs := []int{}
	for w := 1; w <= nw; w++ {
		w := w
		rg := rand.New(rand.NewSource(rng.Int63()))
		r.spawn(100+w, func() {
			for i := 1; i <= per; i++ {
				r.write(v, w*1000+i, rg.Intn(3) == 0)
				jitter(rg)
			}
		})
	}
	for s := 1; s <= ns; s++ {
		s := s
		subs = append(subs, s)
		rg := rand.New(rand.NewSource(rng.Int63()))
		r.spawn(s, func() {
			time.Sleep(time.Duration(rg.Intn(400)) * time.Microsecond)
			unsub := r.subscribeVar(v, s, rand.New(rand.NewSource(rg.Int63())))
			if rg.Intn(2) == 0 {
				time.Sleep(time.Duration(rg.Intn(400)) * time.Microsecond)
				unsub()
			}
		})
	}
	hung := r.wait(10 * time.Second)
	r.emit(enc, core.Ev{"hung": core.Seq(hung), "value": v.Get(), "active": r.active(subs), "contents": []any{}})
	return len(hung)
}

// forcedVar replays arrival orders with subscriber callbacks as gates.
func forcedVar(enc *json.Encoder, scenario int) int {
	r := newObsRun("var")
	v := hive.NewVariable[int]()
	q := func() { sched.Quiesce(2 * time.Second) }
	subs := []int{1, 2}
	switch scenario {
	case 0: // initial callback of s1 held; two writers and a second subscriber arrive meanwhile
		r.gate.Hold("cb-1")
		r.spawn(1, func() { r.subscribeVar(v, 1, nil) })
		q()
		r.spawn(101, func() { r.write(v, 1001, false) })
		q()
		r.spawn(102, func() { r.write(v, 2001, true) })
		q()
		r.spawn(2, func() { r.subscribeVar(v, 2, nil) })
		q()
		r.gate.ReleaseAll()
	case 1: // unsubscribe arrives while a callback of the same subscription runs; another write is queued behind
		u1 := r.subscribeVar(v, 1, nil)
		r.subscribeVar(v, 2, nil)
		r.gate.Hold("cb-1")
		r.spawn(101, func() { r.write(v, 1001, false) })
		q()
		r.spawn(1, func() { u1() })
		q()
		r.spawn(102, func() { r.write(v, 2001, false) })
		q()
		r.gate.ReleaseAll()
	case 2: // a subscriber arrives while an update is being delivered to an earlier subscriber
		r.subscribeVar(v, 1, nil)
		r.gate.Hold("cb-1")
		r.spawn(101, func() { r.write(v, 1001, false) })
		q()
		r.spawn(2, func() { r.subscribeVar(v, 2, nil) })
		q()
		r.spawn(102, func() { r.write(v, 2001, false) })
		q()
		r.gate.ReleaseAll()
	case 3: // callback of the LAST subscriber held; unsubscribe of the first and a new subscription meanwhile
		u1 := r.subscribeVar(v, 1, nil)
		r.subscribeVar(v, 2, nil)
		r.gate.Hold("cb-2")
		r.spawn(101, func() { r.write(v, 1001, false) })
		q()
		r.spawn(1, func() { u1() })
		r.spawn(3, func() { r.subscribeVar(v, 3, nil) })
		q()
		r.spawn(102, func() { r.write(v, 2001, false) })
		q()
		r.gate.ReleaseAll()
		subs = []int{1, 2, 3}
	case 4: // (TLC: sub_unlock_before_exec) OnUpdate held right after it registered its callback; a writer arrives
		hive.VerifHook = func(p string) { r.gate.Wait("hook:" + p) }
		r.gate.Hold("hook:variable-onupdate-registered")
		r.spawn(1, func() { r.subscribeVar(v, 1, nil) })
		q()
		r.gate.Free("hook:variable-onupdate-registered")
		r.spawn(101, func() { r.write(v, 1001, false) })
		q()
		r.gate.ReleaseAll()
		subs = []int{1}
	case 5: // (TLC: no_order_mutex) a writer held between its value update and the notification; a second writer arrives
		hive.VerifHook = func(p string) { r.gate.Wait("hook:" + p) }
		r.subscribeVar(v, 1, nil)
		r.subscribeVar(v, 2, nil)
		r.gate.Hold("hook:variable-after-update")
		r.spawn(101, func() { r.write(v, 1001, false) })
		q()
		r.gate.Free("hook:variable-after-update")
		r.spawn(102, func() { r.write(v, 2001, false) })
		q()
		r.gate.ReleaseAll()
	case 6: // (TLC: unsub_no_exec_lock) a writer held between the execution-lock check and the callback; unsubscribe arrives
		hive.VerifHook = func(p string) { r.gate.Wait("hook:" + p) }
		u1 := r.subscribeVar(v, 1, nil)
		r.gate.Hold("hook:variable-before-invoke")
		r.spawn(101, func() { r.write(v, 1001, false) })
		q()
		r.gate.Free("hook:variable-before-invoke")
		r.spawn(1, func() { u1() })
		q()
		r.gate.ReleaseAll()
		subs = []int{1}
	case 7: // the less used writer Init (Set under another name) on a variable that already has subscribers, then as the last write
		r.subscribeVar(v, 1, nil)
		r.subscribeVar(v, 2, nil)
		r.writeInit(v, 1001)
		r.write(v, 2001, false)
		r.writeInit(v, 3001)
	case 9: // a writer is held in the middle of its walk over the subscriber list (hook list-range-step of ds.List, first step)
		// while the FIRST subscriber unsubscribes (it has to wait for the walk); the later subscriber must still get the update
		u1 := r.subscribeVar(v, 1, nil)
		r.subscribeVar(v, 2, nil)
		ds.VerifHook = func(p string) { r.gate.Wait("hook:" + p) }
		r.gate.Hold("hook:list-range-step")
		r.spawn(101, func() { r.write(v, 1001, false) })
		q()
		r.gate.Free("hook:list-range-step")
		r.spawn(1, func() { u1() })
		q()
		r.gate.ReleaseAll()
	case 8: // Init arrives while another writer's notification is still being delivered (it has to queue behind it)
		r.subscribeVar(v, 1, nil)
		r.subscribeVar(v, 2, nil)
		r.gate.Hold("cb-1")
		r.spawn(101, func() { r.write(v, 1001, false) })
		q()
		r.spawn(102, func() { r.writeInit(v, 2001) })
		q()
		r.gate.ReleaseAll()
	}
	hung := r.wait(5 * time.Second)
	hive.VerifHook, ds.VerifHook = nil, nil
	r.emit(enc, core.Ev{"hung": core.Seq(hung), "value": v.Get(), "active": r.active(subs), "contents": []any{}})
	return len(hung)
}

// forcedSet: the same three windows on the reactive Set.
func forcedSet(enc *json.Encoder, scenario int) int {
	r := newObsRun("set")
	set := hive.NewSet[int]()
	var src hive.Set[int]
	if scenario == 3 { // a DerivedSet that inherits from src and is written directly too
		d := hive.NewDerivedSet[int]()
		src = hive.NewSet[int]()
		d.InheritFrom(src)
		set = d
	}
	q := func() { sched.Quiesce(2 * time.Second) }
	hive.VerifHook = func(p string) { r.gate.Wait("hook:" + p) }
	gone := func(s int) { r.mu.Lock(); r.gone[s] = true; r.mu.Unlock() }
	sub := func(s int) func() {
		r.lg.add(core.Ev{"op": "subBegin", "s": s})
		u := set.OnUpdate(func(m ds.SetMutations[int]) {
			r.lg.add(core.Ev{"op": "cbSet", "s": s, "added": sortedSet(m.AddedElements()), "deleted": sortedSet(m.DeletedElements())})
			r.lg.add(core.Ev{"op": "cbEnd", "s": s})
		}, true)
		r.lg.add(core.Ev{"op": "subEnd", "s": s})
		return func() {
			r.lg.add(core.Ev{"op": "unsubBegin", "s": s})
			u()
			gone(s)
			r.lg.add(core.Ev{"op": "unsubEnd", "s": s})
		}
	}
	subs := []int{1, 2}
	switch scenario {
	case 0:
		set.Add(1)
		r.gate.Hold("hook:set-onupdate-registered")
		r.spawn(1, func() { sub(1) })
		q()
		r.gate.Free("hook:set-onupdate-registered")
		r.spawn(101, func() { set.Delete(1) })
		q()
		r.gate.ReleaseAll()
		subs = []int{1}
	case 1:
		sub(1)
		sub(2)
		r.gate.Hold("hook:set-after-update")
		r.spawn(101, func() { set.Add(1) })
		q()
		r.gate.Free("hook:set-after-update")
		r.spawn(102, func() { set.Delete(1) })
		q()
		r.gate.ReleaseAll()
	case 2:
		u1 := sub(1)
		r.gate.Hold("hook:set-before-invoke")
		r.spawn(101, func() { set.Add(1) })
		q()
		r.gate.Free("hook:set-before-invoke")
		r.spawn(1, func() { u1() })
		q()
		r.gate.ReleaseAll()
		subs = []int{1}
	case 3:
		// a direct write is held between its update of the value and the notifications while the source removes and adds
		// the element again (an inherited write of the same set): the subscribers must still be told in the order of the updates
		src.Add(1)
		sub(1)
		sub(2)
		r.gate.Hold("hook:set-after-update")
		r.spawn(101, func() { set.Delete(1) })
		q()
		r.gate.Free("hook:set-after-update")
		r.spawn(102, func() { src.Delete(1); src.Add(1) })
		q()
		r.gate.ReleaseAll()
	}
	hung := r.wait(5 * time.Second)
	hive.VerifHook = nil
	r.emit(enc, core.Ev{"hung": core.Seq(hung), "value": 0, "active": r.active(subs), "contents": sortedSet(set)})
	return len(hung)
}

// controlledVar / controlledSet: every verif yield point and every subscriber callback is a stopping point; a random
// scheduler releases one parked goroutine at a time whenever the process is quiescent (arrival orders that free running
// practically never produces: a writer held between its value update and the notification while others write, subscribe
// and unsubscribe; an unsubscribe arriving between the execution-lock check and the callback; ...).
func controlled(enc *json.Encoder, rng *rand.Rand, kind string) int {
	r := newObsRun(kind)
	set, src := derivedOrPlain(rng)
	r.gate.HoldAll()
	hive.VerifHook = func(p string) { r.gate.Wait("hook:" + p) }
	ds.VerifHook = hive.VerifHook // (the subscriber lists are ds.Lists: a writer's snapshot of the list is a sequence of stopping points too)
	defer func() { hive.VerifHook, ds.VerifHook = nil, nil }()
	v := hive.NewVariable[int]()
	nw, ns := 1+rng.Intn(3), 1+rng.Intn(3)
	subs := []int{}
	for w := 1; w <= nw; w++ {
		w := w
		rg := rand.New(rand.NewSource(rng.Int63()))
		r.spawn(100+w, func() {
			for i := 1; i <= 2; i++ {
				if kind == "var" {
					r.write(v, w*1000+i, rg.Intn(2) == 0)
				} else {
					x := 1 + rg.Intn(4)
					set := set
					if src != nil && rg.Intn(2) == 0 {
						set = src // an inherited write
					}
					switch rg.Intn(4) {
					case 0:
						set.Add(x)
					case 1:
						set.Delete(x)
					case 2:
						set.Replace(ds.NewSet(x, 1+rg.Intn(4)))
					case 3:
						set.Apply(ds.NewSetMutations[int]().WithAddedElements(ds.NewSet(x)).WithDeletedElements(ds.NewSet(1 + rg.Intn(4))))
					}
				}
			}
		})
	}
	for s := 1; s <= ns; s++ {
		s := s
		subs = append(subs, s)
		rg := rand.New(rand.NewSource(rng.Int63()))
		unsubToo := rg.Intn(2) == 0
		r.spawn(s, func() {
			var unsub func()
			if kind == "var" {
				unsub = r.subscribeVar(v, s, nil)
			} else {
				r.lg.add(core.Ev{"op": "subBegin", "s": s})
				u := set.OnUpdate(func(m ds.SetMutations[int]) {
					r.lg.add(core.Ev{"op": "cbSet", "s": s, "added": sortedSet(m.AddedElements()), "deleted": sortedSet(m.DeletedElements())})
					r.gate.Wait(fmt.Sprintf("cb-%d", s))
					r.lg.add(core.Ev{"op": "cbEnd", "s": s})
				}, true)
				r.lg.add(core.Ev{"op": "subEnd", "s": s})
				unsub = func() {
					r.lg.add(core.Ev{"op": "unsubBegin", "s": s})
					u()
					r.mu.Lock()
					r.gone[s] = true
					r.mu.Unlock()
					r.lg.add(core.Ev{"op": "unsubEnd", "s": s})
				}
			}
			if unsubToo {
				unsub()
			}
		})
	}
	allDone := func() bool {
		r.mu.Lock()
		defer r.mu.Unlock()
		for _, ch := range r.threads {
			select {
			case <-ch:
			default:
				return false
			}
		}
		return true
	}
	for step := 0; step < 2000; step++ {
		sched.QuiesceOpt(50*time.Millisecond, 2, false)
		pts := r.gate.ParkedPoints()
		if len(pts) == 0 {
			if allDone() {
				break
			}
			continue
		}
		r.gate.Release(pts[rng.Intn(len(pts))])
	}
	r.gate.ReleaseAll()
	hung := r.wait(5 * time.Second)
	if kind == "var" {
		r.emit(enc, core.Ev{"hung": core.Seq(hung), "value": v.Get(), "active": r.active(subs), "contents": []any{}})
	} else {
		r.emit(enc, core.Ev{"hung": core.Seq(hung), "value": 0, "active": r.active(subs), "contents": sortedSet(set)})
	}
	return len(hung)
}

func freeEvent(enc *json.Encoder, rng *rand.Rand, tr int) int {
	r := newObsRun("event")
	e := hive.NewEvent()
	if tr%5 == 4 {
		runtime.GOMAXPROCS(1)
	} else {
		runtime.GOMAXPROCS(16)
	}
	ns := 2 + rng.Intn(5)
	subs := []int{}
	trigger := rng.Intn(6) != 0
	if trigger {
		for t := 1; t <= 1+rng.Intn(3); t++ {
			rg := rand.New(rand.NewSource(rng.Int63()))
			r.spawn(100+t, func() {
				time.Sleep(time.Duration(rg.Intn(300)) * time.Microsecond)
				e.Trigger()
			})
		}
	}
	for s := 1; s <= ns; s++ {
		s := s
		subs = append(subs, s)
		rg := rand.New(rand.NewSource(rng.Int63()))
		r.spawn(s, func() {
			time.Sleep(time.Duration(rg.Intn(400)) * time.Microsecond)
			r.lg.add(core.Ev{"op": "subBegin", "s": s})
			e.OnTrigger(func() {
				r.lg.add(core.Ev{"op": "cb", "s": s, "prev": 0, "new": 1})
				jitter(rg)
				r.lg.add(core.Ev{"op": "cbEnd", "s": s})
			})
			r.lg.add(core.Ev{"op": "subEnd", "s": s})
		})
	}
	hung := r.wait(10 * time.Second)
	val := 0
	if e.WasTriggered() {
		val = 1
	}
	r.emit(enc, core.Ev{"hung": core.Seq(hung), "value": val, "active": r.active(subs), "contents": []any{}})
	return len(hung)
}

func sortedSet(s ds.ReadableSet[int]) []any {
	xs := s.ToSlice()
	sort.Ints(xs)
	return core.Seq(xs)
}

// derivedOrPlain: the observed set is a plain Set, or (every other time) a DerivedSet that inherits from the Set src and
// is written directly as well: both kinds of write change one set and are reported to one list of subscribers.
func derivedOrPlain(rng *rand.Rand) (set, src hive.Set[int]) {
	if rng.Intn(2) == 0 {
		return hive.NewSet[int](), nil
	}
	d := hive.NewDerivedSet[int]()
	src = hive.NewSet[int]()
	d.InheritFrom(src)
	return d, src
}

func freeSet(enc *json.Encoder, rng *rand.Rand, tr int) int {
	r := newObsRun("set")
	set, src := derivedOrPlain(rng)
	if tr%5 == 4 {
		runtime.GOMAXPROCS(1)
	} else {
		runtime.GOMAXPROCS(16)
	}
	nw, ns, per := 2+rng.Intn(3), 2+rng.Intn(4), 3+rng.Intn(10)
	subs := []int{}
	pick := func(rg *rand.Rand) ds.Set[int] {
		out := ds.NewSet[int]()
		for k := rg.Intn(4); k > 0; k-- {
			out.Add(1 + rg.Intn(6))
		}
		return out
	}
	for w := 1; w <= nw; w++ {
		rg := rand.New(rand.NewSource(rng.Int63()))
		r.spawn(100+w, func() {
			for i := 0; i < per; i++ {
				set := set
				if src != nil && rg.Intn(2) == 0 {
					set = src // an inherited write
				}
				switch rg.Intn(7) {
				case 0:
					set.Add(1 + rg.Intn(6))
				case 1:
					set.Delete(1 + rg.Intn(6))
				case 2:
					set.AddAll(pick(rg))
				case 3:
					set.DeleteAll(pick(rg))
				case 4:
					set.Apply(ds.NewSetMutations[int]().WithAddedElements(pick(rg)).WithDeletedElements(pick(rg)))
				case 5:
					set.Replace(pick(rg))
				case 6:
					set.Compute(func(cur ds.ReadableSet[int]) ds.SetMutations[int] {
						m := ds.NewSetMutations[int]()
						if x := 1 + rg.Intn(6); cur.Has(x) {
							m.WithDeletedElements(ds.NewSet(x))
						} else {
							m.WithAddedElements(ds.NewSet(x))
						}
						return m
					})
				}
				jitter(rg)
			}
		})
	}
	for s := 1; s <= ns; s++ {
		s := s
		subs = append(subs, s)
		rg := rand.New(rand.NewSource(rng.Int63()))
		r.spawn(s, func() {
			time.Sleep(time.Duration(rg.Intn(400)) * time.Microsecond)
			r.lg.add(core.Ev{"op": "subBegin", "s": s})
			u := set.OnUpdate(func(m ds.SetMutations[int]) {
				r.lg.add(core.Ev{"op": "cbSet", "s": s, "added": sortedSet(m.AddedElements()), "deleted": sortedSet(m.DeletedElements())})
				jitter(rg)
				r.lg.add(core.Ev{"op": "cbEnd", "s": s})
			}, true)
			r.lg.add(core.Ev{"op": "subEnd", "s": s})
			if rg.Intn(3) == 0 {
				time.Sleep(time.Duration(rg.Intn(400)) * time.Microsecond)
				r.lg.add(core.Ev{"op": "unsubBegin", "s": s})
				u()
				r.mu.Lock()
				r.gone[s] = true
				r.mu.Unlock()
				r.lg.add(core.Ev{"op": "unsubEnd", "s": s})
			}
		})
	}
	hung := r.wait(10 * time.Second)
	r.emit(enc, core.Ev{"hung": core.Seq(hung), "value": 0, "active": r.active(subs), "contents": sortedSet(set)})
	return len(hung)
}

func reactObs(args []string) int {
	fs := flag.NewFlagSet("reactobs", flag.ExitOnError)
	seed := fs.Int64("seed", 1, "")
	traces := fs.Int("traces", 60, "")
	ctl := fs.Int("controlled", 40, "runs under the random controlled scheduler")
	out := fs.String("out", "", "")
	_ = fs.Parse(args)
	f, err := os.Create(*out)
	if err != nil {
		fmt.Fprintln(os.Stderr, err)
		return 2
	}
	defer f.Close()
	w := bufio.NewWriter(f)
	defer w.Flush()
	enc := json.NewEncoder(w)
	rng := rand.New(rand.NewSource(*seed))
	hangs, n := 0, 0
	for sc := 0; sc < 10; sc++ {
		hangs += forcedVar(enc, sc)
		n++
	}
	for sc := 0; sc < 4; sc++ {
		hangs += forcedSet(enc, sc)
		n++
	}
	runtime.GOMAXPROCS(16)
	for tr := 0; tr < *ctl; tr++ {
		hangs += controlled(enc, rng, []string{"var", "set"}[tr%2])
		n++
	}
	for tr := 0; tr < *traces; tr++ {
		switch tr % 3 {
		case 0:
			hangs += freeVar(enc, rng, tr)
		case 1:
			hangs += freeSet(enc, rng, tr)
		case 2:
			hangs += freeEvent(enc, rng, tr)
		}
		n++
	}
	runtime.GOMAXPROCS(16)
	fmt.Printf("{\"traces\": %d, \"hangs\": %d}\n", n, hangs)
	return 0
}
