package ads

import (
	"crypto/sha256"
	"encoding/hex"
	"fmt"
	"math/bits"
	"sort"

	"verifharness/core"
)

// The sparse merkle trie of ads (pokt-network/smt, path hasher = the trie hasher = sha256, see
// smt.newTrieSpec and ads/map_impl.go) stores a key at path sha256(keyBytes).  Keys whose paths share
// a long prefix force extension nodes (compressed chains of inner nodes) that are created, split,
// absorbed and joined by Update/Delete - code the two or three one-byte keys of the repo's tests
// never reach.  The alphabet below is found by brute force over all 2^16 two-byte keys:
//
//	id 1, id 2 : the pair with the longest common path prefix (>= 24 bits) that also has a
//	             third key sharing >= 16 (but fewer) bits with it
//	id 3       : a key whose path differs from id 1's in the very first bit (root is an inner node)
//	id 4       : the third key (shares >= 16 bits with id 1 and id 2, splits their extension)
var keyAlphabet [4][]byte

func lcpBits(a, b [32]byte) int {
	for i := 0; i < 32; i++ {
		if x := a[i] ^ b[i]; x != 0 {
			return i*8 + bits.LeadingZeros8(x)
		}
	}
	return 256
}

func init() {
	type kh struct {
		key [2]byte
		h   [32]byte
	}
	all := make([]kh, 0, 1<<16)
	for i := 0; i < 1<<16; i++ {
		k := [2]byte{byte(i >> 8), byte(i)}
		all = append(all, kh{k, sha256.Sum256(k[:])})
	}
	sort.Slice(all, func(i, j int) bool {
		for b := 0; b < 32; b++ {
			if all[i].h[b] != all[j].h[b] {
				return all[i].h[b] < all[j].h[b]
			}
		}
		return false
	})
	best, bestThird, bestScore := -1, -1, -1
	for i := 0; i+1 < len(all); i++ {
		l := lcpBits(all[i].h, all[i+1].h)
		if l < 24 {
			continue
		}
		// the sorted neighbours are the keys sharing the longest prefix with the pair
		for _, j := range []int{i - 1, i + 2} {
			if j < 0 || j >= len(all) {
				continue
			}
			t := lcpBits(all[i].h, all[j].h)
			if t2 := lcpBits(all[i+1].h, all[j].h); t2 < t {
				t = t2
			}
			if t >= 16 && t < l && l+t > bestScore {
				best, bestThird, bestScore = i, j, l+t
			}
		}
	}
	if best < 0 {
		panic("ads key alphabet: no key triple with the required common path prefixes")
	}
	keyAlphabet[0] = append([]byte(nil), all[best].key[:]...)
	keyAlphabet[1] = append([]byte(nil), all[best+1].key[:]...)
	keyAlphabet[3] = append([]byte(nil), all[bestThird].key[:]...)
	first := all[best].h[0] & 0x80
	for i := 0; i < 1<<16; i++ { // smallest two-byte key on the other side of the root
		k := [2]byte{byte(i >> 8), byte(i)}
		if h := sha256.Sum256(k[:]); h[0]&0x80 != first {
			keyAlphabet[2] = k[:]
			break
		}
	}

	core.RegisterCommand("c09-keys", func([]string) int {
		var hs [4][32]byte
		for i, k := range keyAlphabet {
			hs[i] = sha256.Sum256(k)
			fmt.Printf("key id %d = %s  path %s\n", i+1, hex.EncodeToString(k), hex.EncodeToString(hs[i][:8]))
		}
		for i := 0; i < 4; i++ {
			for j := i + 1; j < 4; j++ {
				fmt.Printf("common path prefix of id %d and id %d: %d bits\n", i+1, j+1, lcpBits(hs[i], hs[j]))
			}
		}
		return 0
	})
}
