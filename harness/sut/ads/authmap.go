// Package ads adapts ads.Map / ads.Set (property C09) to the TLA+ module AuthMap.
package ads

import (
	"errors"
	"fmt"
	"math/rand"
	"sort"

	"github.com/iotaledger/hive.go/ads"
	"github.com/iotaledger/hive.go/kvstore"
	"github.com/iotaledger/hive.go/kvstore/mapdb"
	"github.com/iotaledger/hive.go/serializer/v2/typeutils"

	"verifharness/core"
)

type keyT string

func keyToBytes(k keyT) ([]byte, error)        { return []byte(k), nil }
func keyFromBytes(b []byte) (keyT, int, error) { return keyT(b), len(b), nil }

// valT is the value type of the map flavour: raw bytes with the identity serializer (the shape of the
// repo's own test value type).  The empty value can be handed to Set as an empty or as a nil slice.
type valT []byte

func valToBytes(v valT) ([]byte, error) {
	if len(v) > 0 && v[0] == refusedMark {
		return nil, errRefused
	}
	return v, nil
}

// a value starting with refusedMark is one the value serializer returns an error for (enc "refused")
const refusedMark = 0xfe

var errRefused = errors.New("refused")

func valFromBytes(b []byte) (valT, int, error) { return b, len(b), nil }

func encode(v, enc string) valT {
	if enc == "refused" {
		return append(valT{refusedMark}, v...)
	}
	if enc == "nil" {
		if v != "" {
			panic("enc nil is for the empty value")
		}
		return nil
	}
	return valT(v) // non-nil also for ""
}

// instance is what both flavours offer (the set flavour's value is always the empty value).
type instance interface {
	set(k keyT, v valT) error
	get(k keyT) (string, bool, error)
	has(k keyT) (bool, error)
	del(k keyT) (bool, error)
	stream(func(k keyT, v string) error) error
	commit() error
	root() [32]byte
	size() int
	restored() bool
}

type mapInst struct {
	m ads.Map[[32]byte, keyT, valT]
}

func (i mapInst) set(k keyT, v valT) error { return i.m.Set(k, v) }
func (i mapInst) get(k keyT) (string, bool, error) {
	v, exists, err := i.m.Get(k)
	return string(v), exists, err
}
func (i mapInst) has(k keyT) (bool, error) { return i.m.Has(k) }
func (i mapInst) del(k keyT) (bool, error) { return i.m.Delete(k) }
func (i mapInst) stream(f func(k keyT, v string) error) error {
	return i.m.Stream(func(k keyT, v valT) error { return f(k, string(v)) })
}
func (i mapInst) commit() error  { return i.m.Commit() }
func (i mapInst) root() [32]byte { return i.m.Root() }
func (i mapInst) size() int      { return i.m.Size() }
func (i mapInst) restored() bool { return i.m.WasRestoredFromStorage() }

type setInst struct {
	s ads.Set[[32]byte, keyT]
}

func (i setInst) set(k keyT, _ valT) error         { return i.s.Add(k) }
func (i setInst) get(k keyT) (string, bool, error) { panic("ads.Set has no Get") }
func (i setInst) has(k keyT) (bool, error)         { return i.s.Has(k) }
func (i setInst) del(k keyT) (bool, error)         { return i.s.Delete(k) }
func (i setInst) stream(f func(k keyT, v string) error) error {
	return i.s.Stream(func(k keyT) error { return f(k, "") })
}
func (i setInst) commit() error  { return i.s.Commit() }
func (i setInst) root() [32]byte { return i.s.Root() }
func (i setInst) size() int      { return i.s.Size() }
func (i setInst) restored() bool { return i.s.WasRestoredFromStorage() }

// Root interning ------------------------------------------------------------------------------
//
// Process-wide (survives Reset): root bytes <-> canonical contents at which they were first seen.
// The *root id* reported to the model is that contents list; rootOK says the table is still a
// bijection, i.e. (1) equal contents gave equal root bytes in every history / on every instance so
// far and (2) different contents gave different root bytes.
var (
	contentsByRoot = map[[32]byte][]any{}
	rootByContents = map[string][32]byte{}
)

func internRoot(items []any, r [32]byte) (id []any, ok bool) {
	c := core.Canon(items)
	if curAlphabet == &nestedAlphabet { // the ids name other real keys: a table of its own
		c = "nested:" + c
	}
	ok = true
	if known, seen := rootByContents[c]; !seen {
		rootByContents[c] = r
	} else if known != r {
		ok = false // same contents, another root
	}
	id, seen := contentsByRoot[r]
	if !seen {
		contentsByRoot[r] = items
		id = items
	} else if core.Canon(id) != core.Canon(items) {
		ok = false // same root, other contents
	}
	return id, ok
}

// SUT -----------------------------------------------------------------------------------------

func must(st kvstore.KVStore, err error) kvstore.KVStore {
	if err != nil {
		panic(err)
	}
	return st
}

type authSUT struct {
	sibStore kvstore.KVStore // realm of the sibling instance (churnSibling)
	cfg     core.Ev
	flavour string
	nk      int
	lazy    bool
	store   kvstore.KVStore
	m       instance
	// ground truth of the stimuli applied so far (only used to key the root table and to pick
	// Reopen vs ProbeReopen in the recorder)
	shadow, committed map[int]string
	ever              bool
}

func init() { core.Register("AuthMap", func() core.SUT { return &authSUT{} }) }

func (s *authSUT) open() instance { return s.openOver(s.store) }

func (s *authSUT) openOver(st kvstore.KVStore) instance {
	if s.flavour == "set" {
		return setInst{ads.NewSet[[32]byte, keyT](st, typeutils.ByteArray32ToBytes, typeutils.ByteArray32FromBytes, keyToBytes, keyFromBytes)}
	}
	return mapInst{ads.NewMap[[32]byte, keyT, valT](st, typeutils.ByteArray32ToBytes, typeutils.ByteArray32FromBytes, keyToBytes, keyFromBytes, valToBytes, valFromBytes)}
}

// churnSibling: a SECOND map (set) lives in a sibling realm of the same database. Around every Commit of the instance under
// test it is given the same contents and committed, and afterwards emptied and committed again: what one instance writes,
// deletes or prunes in its realm must never touch the other's (each keeps its trie, its mirror and its root in its own realm).
func (s *authSUT) churnSibling(fill bool) {
	sib := s.openOver(s.sibStore)
	if fill {
		for k, v := range s.shadow {
			_ = sib.set(key(k), valT(v))
		}
	} else {
		for i := 1; i <= s.nk; i++ {
			_, _ = sib.del(key(i))
		}
	}
	_ = sib.commit()
}

func (s *authSUT) Reset(cfg core.Ev) {
	s.cfg = cfg
	s.flavour = core.Str(cfg, "flavour")
	s.nk = core.Int(cfg, "nk")
	s.lazy = core.Str(cfg, "obs") == "lazy"
	if s.nk < 1 || s.nk > len(keyAlphabet) {
		panic("nk outside the key alphabet")
	}
	curAlphabet = &keyAlphabet
	if ka, _ := cfg["ka"].(string); ka == "nested" {
		curAlphabet = &nestedAlphabet
	}
	db := mapdb.NewMapDB()
	s.store = must(db.WithExtendedRealm([]byte{0xa1}))    // the instance under test and its sibling live in sibling realms
	s.sibStore = must(db.WithExtendedRealm([]byte{0xb2})) // of one database
	s.m = s.open()
	s.shadow, s.committed, s.ever = map[int]string{}, map[int]string{}, false
}

// nestedAlphabet: raw keys that are byte prefixes of one another, the empty key included (cfg ka = "nested").
var nestedAlphabet = [4][]byte{[]byte("a"), []byte("ab"), {}, []byte("abc")}

// curAlphabet is the alphabet of the current instance (set by Reset; the walker is single-threaded).
var curAlphabet = &keyAlphabet

func key(id int) keyT { return keyT(curAlphabet[id-1]) }

func keyID(k keyT) int {
	for i, b := range curAlphabet {
		if string(b) == string(k) {
			return i + 1
		}
	}
	return 0
}

func errStr(err error) string {
	if err == nil {
		return "ok"
	}
	if errors.Is(err, errRefused) {
		return "refused"
	}
	return err.Error()
}

func itemsOf(m map[int]string) []any {
	ids := make([]int, 0, len(m))
	for k := range m {
		ids = append(ids, k)
	}
	sort.Ints(ids)
	out := make([]any, 0, len(ids))
	for _, k := range ids {
		out = append(out, core.Ev{"k": k, "v": m[k]})
	}
	return out
}

// streamItems collects what Stream yields, ordered by key id (the order of Stream is not part of
// the contract); duplicates stay duplicates, foreign keys get id 0.
func streamItems(m instance) ([]any, error) {
	type kv struct {
		k int
		v string
	}
	var got []kv
	err := m.stream(func(k keyT, v string) error {
		got = append(got, kv{keyID(k), v})
		return nil
	})
	sort.SliceStable(got, func(i, j int) bool { return got[i].k < got[j].k })
	out := make([]any, 0, len(got))
	for _, e := range got {
		out = append(out, core.Ev{"k": e.k, "v": e.v})
	}
	return out, err
}

var errStop = errors.New("stop")

func streamStop(m instance) core.Ev {
	n := 0
	err := m.stream(func(keyT, string) error {
		n++
		return errStop
	})
	switch {
	case err == nil:
		return core.Ev{"n": n, "err": "ok"}
	case errors.Is(err, errStop):
		return core.Ev{"n": n, "err": "stop"}
	}
	return core.Ev{"n": n, "err": err.Error()}
}

func (s *authSUT) st() any {
	id, ok := internRoot(itemsOf(s.shadow), s.m.root())
	st := core.Ev{"size": s.m.size(), "root": id, "rootOK": ok, "restored": s.m.restored()}
	if s.lazy {
		return st
	}
	errs := []any{}
	has := make([]any, s.nk)
	get := make([]any, s.nk)
	for i := 1; i <= s.nk; i++ {
		h, err := s.m.has(key(i))
		if err != nil {
			errs = append(errs, fmt.Sprintf("Has(%d): %v", i, err))
		}
		has[i-1] = h
		if s.flavour == "map" {
			v, exists, err := s.m.get(key(i))
			if err != nil {
				errs = append(errs, fmt.Sprintf("Get(%d): %v", i, err))
			}
			get[i-1] = core.Opt(exists, v)
		}
	}
	items, err := streamItems(s.m)
	if err != nil {
		errs = append(errs, fmt.Sprintf("Stream: %v", err))
	}
	st["has"], st["items"], st["stop"], st["errs"] = has, items, streamStop(s.m), errs
	if s.flavour == "map" {
		st["get"] = get
	}
	return st
}

func (s *authSUT) clean() bool {
	if !s.ever || len(s.shadow) != len(s.committed) {
		return false
	}
	for k, v := range s.shadow {
		if c, ok := s.committed[k]; !ok || c != v {
			return false
		}
	}
	return true
}

// probe opens a throw-away instance over the store as it is now and exercises every reader.
func (s *authSUT) probe() (res core.Ev) {
	res = core.Ev{"restored": false, "err": "ok"}
	defer func() {
		if r := recover(); r != nil {
			res["err"] = fmt.Sprint("panic: ", r)
		}
	}()
	p := s.open()
	res["restored"] = p.restored()
	_ = p.root()
	_ = p.size()
	for i := 1; i <= s.nk; i++ {
		_, _ = p.has(key(i))
		if s.flavour == "map" {
			_, _, _ = p.get(key(i))
		}
	}
	_, _ = streamItems(p)
	_ = streamStop(p)
	return res
}

func (s *authSUT) Apply(e core.Ev) (any, any) {
	switch op := core.Str(e, "op"); op {
	case "Set", "Add":
		k, v, enc := core.Int(e, "k"), "", "empty"
		if op == "Set" {
			v, enc = core.Str(e, "v"), core.Str(e, "enc")
		}
		err := s.m.set(key(k), encode(v, enc))
		if err == nil {
			s.shadow[k] = v
		}
		return core.Ev{"err": errStr(err)}, s.st()
	case "Delete":
		k := core.Int(e, "k")
		deleted, err := s.m.del(key(k))
		if err == nil {
			delete(s.shadow, k)
		}
		return core.Ev{"deleted": deleted, "err": errStr(err)}, s.st()
	case "Get":
		v, exists, err := s.m.get(key(core.Int(e, "k")))
		return core.Ev{"v": core.Opt(exists, v), "err": errStr(err)}, s.st()
	case "Has":
		h, err := s.m.has(key(core.Int(e, "k")))
		return core.Ev{"has": h, "err": errStr(err)}, s.st()
	case "Stream":
		items, err := streamItems(s.m)
		return core.Ev{"items": items, "err": errStr(err)}, s.st()
	case "StreamStop":
		return streamStop(s.m), s.st()
	case "Commit":
		s.churnSibling(true)
		err := s.m.commit()
		s.churnSibling(false)
		if err == nil {
			s.ever = true
			s.committed = map[int]string{}
			for k, v := range s.shadow {
				s.committed[k] = v
			}
		}
		return core.Ev{"err": errStr(err)}, s.st()
	case "Reopen":
		s.m = s.open()
		return core.Ev{"err": "ok"}, s.st()
	case "ProbeReopen":
		return s.probe(), s.st()
	}
	panic("unknown op")
}

// Recorder ------------------------------------------------------------------------------------

var traceVals = []string{"", "a", "b"}

func (s *authSUT) RandomCfg(r *rand.Rand) core.Ev {
	cfg := core.Ev{"flavour": "map", "nk": 4, "obs": core.Pick(r, "full", "lazy"), "ka": core.Pick(r, "trie", "nested")}
	if r.Intn(3) == 0 {
		cfg["flavour"] = "set"
	}
	return cfg
}

func (s *authSUT) RandomStimulus(r *rand.Rand) core.Ev {
	k := 1 + r.Intn(s.nk)
	n := r.Intn(100)
	if s.lazy && n >= 75 {
		switch r.Intn(5) {
		case 0:
			if s.flavour == "map" {
				return core.Ev{"op": "Get", "k": k}
			}
			return core.Ev{"op": "Has", "k": k}
		case 1, 2:
			return core.Ev{"op": "Has", "k": k}
		case 3:
			return core.Ev{"op": "Stream"}
		}
		return core.Ev{"op": "StreamStop"}
	}
	n = r.Intn(100)
	switch {
	case n < 45:
		if s.flavour == "set" {
			return core.Ev{"op": "Add", "k": k}
		}
		v, enc := core.Pick(r, traceVals...), "bytes"
		if v == "" {
			enc = core.Pick(r, "empty", "nil")
		}
		if r.Intn(6) == 0 {
			enc = "refused"
		}
		return core.Ev{"op": "Set", "k": k, "v": v, "enc": enc}
	case n < 75:
		return core.Ev{"op": "Delete", "k": k}
	case n < 88:
		return core.Ev{"op": "Commit"}
	}
	if s.clean() {
		return core.Ev{"op": "Reopen"}
	}
	if r.Intn(2) == 0 { // make clean reopens frequent: commit first
		return core.Ev{"op": "Commit"}
	}
	return core.Ev{"op": "ProbeReopen"}
}
