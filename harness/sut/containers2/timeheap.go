package containers2

import (
	"fmt"
	"math"
	"math/rand"
	"os"
	"runtime/debug"
	"time"

	"github.com/iotaledger/hive.go/ds/timeheap"

	"verifharness/core"
)

// timeHeapSUT binds ds/timeheap.TimeHeap (real clock) to TimeHeap.tla (integer epochs).
//
// An epoch change ("Tick") is a real sleep of cfg.tickMs (>= 30 ms).  The "short" window (cfg.shortMs =
// 15 ms) therefore never contains an entry of an earlier epoch, and contains every entry of the current
// epoch as long as all calls of one epoch finish within the window.  The adapter supervises that margin
// itself: if a short-window query finishes later than marginMs after the epoch began, the run's timing
// assumption failed; this is reported out-of-band (file named by VERIF_TIMEHEAP_MARGIN) so that the
// python unit re-runs / declares the run inconclusive instead of raising a false alarm.
type timeHeapSUT struct {
	h          *timeheap.TimeHeap
	short      time.Duration
	long       time.Duration
	tick       time.Duration
	epochStart time.Time
}

// a short-window query that finished (measured after the call) less than this long after the epoch began saw every
// entry of the epoch younger than the 15 ms window
const timeHeapMarginMs = 14

func init() { core.Register("TimeHeap", func() core.SUT { return &timeHeapSUT{} }) }

func (s *timeHeapSUT) Reset(cfg core.Ev) {
	debug.SetGCPercent(-1) // short-lived process with a tiny heap: no collector pauses inside an epoch
	s.h = timeheap.NewTimeHeap()
	s.short = time.Duration(core.Int(cfg, "shortMs")) * time.Millisecond
	s.long = time.Duration(core.Int(cfg, "longMs")) * time.Millisecond
	s.tick = time.Duration(core.Int(cfg, "tickMs")) * time.Millisecond
	s.epochStart = time.Now()
}

func marginFailed(what string) {
	if p := os.Getenv("VERIF_TIMEHEAP_MARGIN"); p != "" {
		if f, err := os.OpenFile(p, os.O_APPEND|os.O_CREATE|os.O_WRONLY, 0o644); err == nil {
			fmt.Fprintln(f, what)
			f.Close()
		}
	}
}

// sum converts the reported average back into the windowed sum; a non-integral value is returned as is
// (and then matches no model edge).
func (s *timeHeapSUT) sum(w time.Duration) any {
	avg := float64(s.h.AveragePerSecond(w))
	x := avg * w.Seconds()
	r := math.Round(x)
	if math.IsNaN(x) || math.IsInf(x, 0) || math.Abs(x-r) > 1e-3 {
		return fmt.Sprintf("non-integral sum %v (avg %v)", x, avg)
	}
	return int(r)
}

func (s *timeHeapSUT) st() any { return core.Ev{"sum": s.sum(s.long)} }

func (s *timeHeapSUT) Apply(e core.Ev) (any, any) {
	switch core.Str(e, "op") {
	case "Add":
		s.h.Add(uint64(core.Int(e, "n")))
		return true, s.st()
	case "Clear":
		s.h.Clear()
		return true, s.st()
	case "Avg":
		if core.Str(e, "w") == "long" {
			return s.sum(s.long), s.st()
		}
		r := s.sum(s.short)
		if d := time.Since(s.epochStart); d > timeHeapMarginMs*time.Millisecond {
			marginFailed(fmt.Sprintf("short-window query finished %v after the epoch began", d))
		}
		return r, s.st()
	case "Tick":
		t0 := time.Now()
		time.Sleep(s.tick)
		if time.Since(t0) < 30*time.Millisecond {
			marginFailed("sleep returned early")
		}
		s.epochStart = time.Now()
		return true, s.st()
	}
	panic("unknown op")
}

func (s *timeHeapSUT) RandomCfg(r *rand.Rand) core.Ev {
	return core.Ev{"shortMs": 15, "longMs": 3600000, "tickMs": 32}
}

func (s *timeHeapSUT) RandomStimulus(r *rand.Rand) core.Ev {
	switch x := r.Intn(100); {
	case x < 45:
		return core.Ev{"op": "Add", "n": 1 + r.Intn(3)}
	case x < 65:
		return core.Ev{"op": "Avg", "w": "short"}
	case x < 80:
		return core.Ev{"op": "Avg", "w": "long"}
	case x < 90:
		return core.Ev{"op": "Clear"}
	}
	return core.Ev{"op": "Tick"}
}
