package containers2

import (
	"errors"
	"fmt"
	"math/rand"
	"sort"
	"strings"

	"github.com/iotaledger/hive.go/ds/onchangemap"
	"github.com/iotaledger/hive.go/runtime/options"

	"verifharness/core"
)

type ocmID int

func (i ocmID) Key() int       { return int(i) }
func (i ocmID) String() string { return fmt.Sprintf("item-%d", int(i)) }

type ocmItem struct {
	id  ocmID
	val int
}

func (i *ocmItem) ID() ocmID { return i.id }
func (i *ocmItem) Clone() onchangemap.Item[int, ocmID] {
	return &ocmItem{id: i.id, val: i.val}
}

type ocmMap = onchangemap.OnChangeMap[int, ocmID, *ocmItem]

var (
	errOcmChanged = errors.New("changed callback refuses")
	errOcmItem    = errors.New("item callback refuses")
)

type onChangeMapSUT struct {
	m    *ocmMap
	nids int
	cbs  []any // callback invocations of the current call
}

func init() { core.Register("OnChangeMap", func() core.SUT { return &onChangeMapSUT{} }) }

func itemRec(i *ocmItem) core.Ev { return core.Ev{"id": int(i.id), "val": i.val} }

func sortedItems(items []*ocmItem) []any {
	c := append([]*ocmItem(nil), items...)
	sort.SliceStable(c, func(a, b int) bool { return c[a].id < c[b].id })
	out := make([]any, 0, len(c))
	for _, i := range c {
		out = append(out, itemRec(i))
	}
	return out
}

func (s *onChangeMapSUT) Reset(cfg core.Ev) {
	s.nids = core.Int(cfg, "nids")
	fail := core.Str(cfg, "fail")
	var opts []options.Option[ocmMap]
	if core.Bool(cfg, "changed") {
		opts = append(opts, onchangemap.WithChangedCallback[int, ocmID](func(items []*ocmItem) error {
			s.cbs = append(s.cbs, core.Ev{"k": "changed", "items": sortedItems(items)})
			if fail == "changed" {
				return errOcmChanged
			}
			return nil
		}))
	}
	if core.Bool(cfg, "item") {
		itemCb := func(kind string) func(*ocmItem) error {
			return func(i *ocmItem) error {
				s.cbs = append(s.cbs, core.Ev{"k": kind, "items": []any{itemRec(i)}})
				if fail == "item" {
					return errOcmItem
				}
				return nil
			}
		}
		opts = append(opts,
			onchangemap.WithItemAddedCallback[int, ocmID](itemCb("added")),
			onchangemap.WithItemModifiedCallback[int, ocmID](itemCb("modified")),
			onchangemap.WithItemDeletedCallback[int, ocmID](itemCb("deleted")),
		)
	}
	s.m = onchangemap.NewOnChangeMap[int, ocmID, *ocmItem](opts...)
	s.cbs = nil
}

func classify(err error) string {
	switch {
	case err == nil:
		return "ok"
	case errors.Is(err, errOcmChanged):
		return "ErrChangedCallback"
	case errors.Is(err, errOcmItem):
		return "ErrItemCallback"
	case strings.Contains(err.Error(), "already exists"):
		return "ErrExists"
	case strings.Contains(err.Error(), "does not exist"):
		return "ErrNotFound"
	}
	return "Err? " + err.Error()
}

func (s *onChangeMapSUT) st() any {
	all := s.m.All()
	items := make([]*ocmItem, 0, len(all))
	for k, i := range all {
		if k != int(i.id) {
			items = append(items, &ocmItem{id: -1, val: k}) // key/id mismatch: visible as a bogus item
		}
		items = append(items, i)
	}
	res := sortedItems(items)
	for _, i := range all {
		i.val = 77 // All returns copies: scribbling on them must not reach the store
	}
	get := make([]any, 0, s.nids)
	for id := 1; id <= s.nids; id++ {
		i, err := s.m.Get(ocmID(id))
		if err != nil {
			get = append(get, []any{})
			continue
		}
		get = append(get, []any{i.val})
		i.val = 78
	}
	return core.Ev{"all": res, "get": get}
}

func (s *onChangeMapSUT) res(err error, item []any) any {
	cbs := s.cbs
	if cbs == nil {
		cbs = []any{}
	}
	return core.Ev{"ret": classify(err), "item": item, "cbs": cbs}
}

func (s *onChangeMapSUT) Apply(e core.Ev) (any, any) {
	s.cbs = nil
	var r any
	switch core.Str(e, "op") {
	case "Add":
		r = s.res(s.m.Add(&ocmItem{id: ocmID(core.Int(e, "id")), val: core.Int(e, "v")}), []any{})
	case "Modify":
		v, write, report := core.Int(e, "v"), core.Bool(e, "write"), core.Bool(e, "report")
		it, err := s.m.Modify(ocmID(core.Int(e, "id")), func(i *ocmItem) bool {
			if write {
				i.val = v
			}
			return report
		})
		if it == nil {
			r = s.res(err, []any{})
		} else {
			r = s.res(err, []any{itemRec(it)})
			it.val = 79 // the returned item is a copy
		}
	case "Delete":
		r = s.res(s.m.Delete(ocmID(core.Int(e, "id"))), []any{})
	case "Get":
		it, err := s.m.Get(ocmID(core.Int(e, "id")))
		if it == nil {
			r = s.res(err, []any{})
		} else {
			r = s.res(err, []any{itemRec(it)})
			it.val = 80
		}
	case "All":
		all := s.m.All()
		items := make([]*ocmItem, 0, len(all))
		for _, i := range all {
			items = append(items, i)
		}
		r = s.res(nil, sortedItems(items))
	case "Enable":
		s.m.CallbacksEnabled(core.Bool(e, "on"))
		r = s.res(nil, []any{})
	case "ExecChanged":
		r = s.res(s.m.ExecuteChangedCallback(), []any{})
	default:
		panic("unknown op")
	}
	s.cbs = nil
	st := s.st()
	if len(s.cbs) != 0 { // observers must not fire callbacks
		return core.Ev{"ret": "callback fired by Get/All", "item": []any{}, "cbs": s.cbs}, st
	}
	return r, st
}

func (s *onChangeMapSUT) RandomCfg(r *rand.Rand) core.Ev {
	c := core.Ev{"changed": r.Intn(4) != 0, "item": r.Intn(4) != 0, "fail": "none", "nids": 3}
	switch r.Intn(5) {
	case 0:
		if c["changed"].(bool) {
			c["fail"] = "changed"
		}
	case 1:
		if c["item"].(bool) {
			c["fail"] = "item"
		}
	}
	return c
}

func (s *onChangeMapSUT) RandomStimulus(r *rand.Rand) core.Ev {
	id, v := 1+r.Intn(3), 1+r.Intn(2)
	switch x := r.Intn(100); {
	case x < 25:
		return core.Ev{"op": "Add", "id": id, "v": v}
	case x < 50:
		return core.Ev{"op": "Modify", "id": id, "v": v, "write": r.Intn(4) != 0, "report": r.Intn(4) != 0}
	case x < 65:
		return core.Ev{"op": "Delete", "id": id}
	case x < 72:
		return core.Ev{"op": "Get", "id": id}
	case x < 78:
		return core.Ev{"op": "All"}
	case x < 92:
		return core.Ev{"op": "Enable", "on": r.Intn(3) != 0}
	}
	return core.Ev{"op": "ExecChanged"}
}
