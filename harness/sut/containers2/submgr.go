package containers2

import (
	"errors"
	"math/rand"
	"sort"

	"github.com/iotaledger/hive.go/runtime/options"
	"github.com/iotaledger/hive.go/web/subscriptionmanager"

	"verifharness/core"
)

type subMgr = subscriptionmanager.SubscriptionManager[int, int]

type subMgrSUT struct {
	m        *subMgr
	nclients int
	ntopics  int
	evs      []smEvent
}

type smEvent struct {
	k    string
	c, t int
}

func init() { core.Register("SubMgr", func() core.SUT { return &subMgrSUT{} }) }

func (s *subMgrSUT) Reset(cfg core.Ev) {
	s.nclients, s.ntopics = core.Int(cfg, "nclients"), core.Int(cfg, "ntopics")
	var opts []options.Option[subMgr]
	// max = 0 is also the default: exercise both spellings
	if max := core.Int(cfg, "max"); max != 0 || core.Bool(cfg, "cleanup") {
		opts = append(opts, subscriptionmanager.WithMaxTopicSubscriptionsPerClient[int, int](max))
	}
	if core.Bool(cfg, "cleanup") {
		// shrink the internal maps after every single deletion (ratio check off, count threshold 1)
		opts = append(opts,
			subscriptionmanager.WithCleanupThresholdRatio[int, int](0.0),
			subscriptionmanager.WithCleanupThresholdCount[int, int](1))
	}
	s.m = subscriptionmanager.New[int, int](opts...)
	s.evs = nil
	add := func(k string, c, t int) { s.evs = append(s.evs, smEvent{k, c, t}) }
	e := s.m.Events()
	e.ClientConnected.Hook(func(x *subscriptionmanager.ClientEvent[int]) { add("ClientConnected", x.ClientID, 0) })
	e.ClientDisconnected.Hook(func(x *subscriptionmanager.ClientEvent[int]) { add("ClientDisconnected", x.ClientID, 0) })
	e.TopicSubscribed.Hook(func(x *subscriptionmanager.ClientTopicEvent[int, int]) { add("TopicSubscribed", x.ClientID, x.Topic) })
	e.TopicUnsubscribed.Hook(func(x *subscriptionmanager.ClientTopicEvent[int, int]) { add("TopicUnsubscribed", x.ClientID, x.Topic) })
	e.TopicAdded.Hook(func(x *subscriptionmanager.TopicEvent[int]) { add("TopicAdded", 0, x.Topic) })
	e.TopicRemoved.Hook(func(x *subscriptionmanager.TopicEvent[int]) { add("TopicRemoved", 0, x.Topic) })
	e.DropClient.Hook(func(x *subscriptionmanager.DropClientEvent[int]) {
		if errors.Is(x.Reason, subscriptionmanager.ErrMaxTopicSubscriptionsPerClientReached) {
			add("DropClient", x.ClientID, 0)
		} else {
			add("DropClient(unexpected reason)", x.ClientID, 0)
		}
	})
}

// events of the current call; the order among different topics inside one block of equal-kind events comes
// from map iteration and is unspecified: each such block is sorted by (client, topic).
func (s *subMgrSUT) takeEvents() []any {
	evs := s.evs
	s.evs = nil
	for i := 0; i < len(evs); {
		j := i
		for j < len(evs) && evs[j].k == evs[i].k {
			j++
		}
		blk := evs[i:j]
		sort.SliceStable(blk, func(a, b int) bool {
			if blk[a].c != blk[b].c {
				return blk[a].c < blk[b].c
			}
			return blk[a].t < blk[b].t
		})
		i = j
	}
	out := make([]any, 0, len(evs))
	for _, e := range evs {
		out = append(out, core.Ev{"k": e.k, "c": e.c, "t": e.t})
	}
	return out
}

func (s *subMgrSUT) st() any {
	has := make([]any, 0, s.ntopics)
	for t := 1; t <= s.ntopics; t++ {
		has = append(has, s.m.TopicHasSubscribers(t))
	}
	sub := make([]any, 0, s.nclients)
	for c := 1; c <= s.nclients; c++ {
		row := make([]any, 0, s.ntopics)
		for t := 1; t <= s.ntopics; t++ {
			row = append(row, s.m.ClientSubscribedToTopic(c, t))
		}
		sub = append(sub, row)
	}
	return core.Ev{"subscribers": s.m.SubscribersSize(), "topics": s.m.TopicsSize(), "topicsAll": s.m.TopicsSizeAll(),
		"has": has, "sub": sub}
}

func (s *subMgrSUT) Apply(e core.Ev) (any, any) {
	s.evs = nil
	c := core.Int(e, "c")
	var ret bool
	switch core.Str(e, "op") {
	case "Connect":
		s.m.Connect(c)
		ret = true
	case "Disconnect":
		ret = s.m.Disconnect(c)
	case "Subscribe":
		ret = s.m.Subscribe(c, core.Int(e, "t"))
	case "Unsubscribe":
		ret = s.m.Unsubscribe(c, core.Int(e, "t"))
	default:
		panic("unknown op")
	}
	evs := s.takeEvents()
	st := s.st()
	if len(s.evs) != 0 { // getters must not emit events
		evs = append(evs, core.Ev{"k": "event emitted by a getter", "c": 0, "t": 0})
	}
	return core.Ev{"ret": ret, "evs": evs}, st
}

func (s *subMgrSUT) RandomCfg(r *rand.Rand) core.Ev {
	return core.Ev{"max": core.Pick(r, 0, 2, 3, 3, 4), "cleanup": r.Intn(2) == 0, "nclients": 2, "ntopics": 3}
}

func (s *subMgrSUT) RandomStimulus(r *rand.Rand) core.Ev {
	c, t := 1+r.Intn(2), 1+r.Intn(3)
	switch x := r.Intn(100); {
	case x < 18:
		return core.Ev{"op": "Connect", "c": c}
	case x < 28:
		return core.Ev{"op": "Disconnect", "c": c}
	case x < 72:
		return core.Ev{"op": "Subscribe", "c": c, "t": t}
	}
	return core.Ev{"op": "Unsubscribe", "c": c, "t": t}
}
