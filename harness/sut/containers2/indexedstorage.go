package containers2

import (
	"math/rand"
	"sort"

	"github.com/iotaledger/hive.go/core/memstorage"
	"github.com/iotaledger/hive.go/ds/shrinkingmap"

	"verifharness/core"
)

type indexedStorageSUT struct {
	s    *memstorage.IndexedStorage[uint32, int, int]
	nidx int
}

func init() { core.Register("IndexedStorage", func() core.SUT { return &indexedStorageSUT{} }) }

func (s *indexedStorageSUT) Reset(cfg core.Ev) {
	s.s = memstorage.NewIndexedStorage[uint32, int, int]()
	s.nidx = core.Int(cfg, "nidx")
}

// pairs = contents of one sub-storage as [k, v] records sorted by k.
func pairs(m *shrinkingmap.ShrinkingMap[int, int]) []any {
	am := m.AsMap()
	keys := make([]int, 0, len(am))
	for k := range am {
		keys = append(keys, k)
	}
	sort.Ints(keys)
	out := make([]any, 0, len(keys))
	for _, k := range keys {
		out = append(out, core.Ev{"k": k, "v": am[k]})
	}
	return out
}

type idxEntry struct {
	i  uint32
	kv []any
}

func sortedEntries(es []idxEntry) []any {
	sort.SliceStable(es, func(a, b int) bool { return es[a].i < es[b].i })
	out := make([]any, 0, len(es))
	for _, e := range es {
		out = append(out, core.Ev{"i": int(e.i), "kv": e.kv})
	}
	return out
}

func (s *indexedStorageSUT) forEach() []any {
	var es []idxEntry
	s.s.ForEach(func(i uint32, st *shrinkingmap.ShrinkingMap[int, int]) {
		es = append(es, idxEntry{i, pairs(st)})
	})
	return sortedEntries(es)
}

func (s *indexedStorageSUT) st() any {
	get := make([]any, 0, s.nidx)
	for i := 1; i <= s.nidx; i++ {
		st := s.s.Get(uint32(i))
		get = append(get, optPairs(st))
	}
	return core.Ev{"all": s.forEach(), "get": get}
}

func optPairs(st *shrinkingmap.ShrinkingMap[int, int]) []any {
	if st == nil {
		return []any{}
	}
	return []any{pairs(st)}
}

// poison writes into a storage that left the IndexedStorage: nothing of it may ever show up again.
func poison(st *shrinkingmap.ShrinkingMap[int, int]) {
	if st != nil {
		st.Set(99, 99)
		st.Delete(1)
	}
}

func (s *indexedStorageSUT) Apply(e core.Ev) (any, any) {
	switch core.Str(e, "op") {
	case "Get":
		i := uint32(core.Int(e, "i"))
		var st *shrinkingmap.ShrinkingMap[int, int]
		switch core.Str(e, "mode") {
		case "none":
			st = s.s.Get(i)
		case "false":
			st = s.s.Get(i, false)
		default:
			st = s.s.Get(i, true)
		}
		return optPairs(st), s.st()
	case "Put":
		st := s.s.Get(uint32(core.Int(e, "i")), true)
		return st.Set(core.Int(e, "k"), core.Int(e, "v")), s.st()
	case "Del":
		st := s.s.Get(uint32(core.Int(e, "i")))
		if st == nil {
			return "nostorage", s.st()
		}
		if st.Delete(core.Int(e, "k")) {
			return "deleted", s.st()
		}
		return "absent", s.st()
	case "Evict":
		st := s.s.Evict(uint32(core.Int(e, "i")))
		res := optPairs(st)
		poison(st)
		return res, s.st()
	case "Clear":
		keys, sts := s.s.Clear()
		if len(keys) != len(sts) {
			return "Clear returned slices of different lengths", s.st()
		}
		es := make([]idxEntry, 0, len(keys))
		for j := range keys {
			es = append(es, idxEntry{keys[j], pairs(sts[j])})
		}
		for _, st := range sts {
			poison(st)
		}
		return sortedEntries(es), s.st()
	case "ForEach":
		return s.forEach(), s.st()
	}
	panic("unknown op")
}

func (s *indexedStorageSUT) RandomCfg(r *rand.Rand) core.Ev { return core.Ev{"nidx": 3} }

func (s *indexedStorageSUT) RandomStimulus(r *rand.Rand) core.Ev {
	i, k, v := 1+r.Intn(3), 1+r.Intn(2), 1+r.Intn(2)
	switch x := r.Intn(100); {
	case x < 20:
		return core.Ev{"op": "Get", "i": i, "mode": core.Pick(r, "none", "false", "true")}
	case x < 55:
		return core.Ev{"op": "Put", "i": i, "k": k, "v": v}
	case x < 70:
		return core.Ev{"op": "Del", "i": i, "k": k}
	case x < 85:
		return core.Ev{"op": "Evict", "i": i}
	case x < 92:
		return core.Ev{"op": "Clear"}
	}
	return core.Ev{"op": "ForEach"}
}
