// Package containers2 adapts the second half of the small hive.go containers (property C12, part B:
// Walker, TimeHeap, IndexedStorage, OnChangeMap, SubscriptionManager) to their TLA+ modules in
// spec/containers2.
package containers2

import (
	"math/rand"

	"github.com/iotaledger/hive.go/ds/walker"

	"verifharness/core"
)

type walkerSUT struct {
	w      *walker.Walker[int]
	resets int
}

func init() { core.Register("Walker", func() core.SUT { return &walkerSUT{} }) }

func (s *walkerSUT) Reset(cfg core.Ev) {
	s.resets++
	if core.Bool(cfg, "revisit") {
		s.w = walker.New[int](true)
	} else if s.resets%2 == 0 { // both spellings of "no revisiting"
		s.w = walker.New[int]()
	} else {
		s.w = walker.New[int](false)
	}
}

func (s *walkerSUT) st() any {
	pushed := []int{}
	for v := 1; v <= 3; v++ {
		if s.w.Pushed(v) {
			pushed = append(pushed, v)
		}
	}
	return core.Ev{"hasNext": s.w.HasNext(), "stopped": s.w.WalkStopped(), "pushed": core.SortedInts(pushed)}
}

func (s *walkerSUT) Apply(e core.Ev) (any, any) {
	switch core.Str(e, "op") {
	case "Push":
		return s.w.Push(core.Int(e, "v")) == s.w, s.st()
	case "PushAll":
		return s.w.PushAll(core.Ints(e, "vs")...) == s.w, s.st()
	case "PushFront":
		return s.w.PushFront(core.Ints(e, "vs")...) == s.w, s.st()
	case "Next":
		return s.w.Next(), s.st()
	case "HasNext":
		return s.w.HasNext(), s.st()
	case "WalkStopped":
		return s.w.WalkStopped(), s.st()
	case "Pushed":
		return s.w.Pushed(core.Int(e, "v")), s.st()
	case "StopWalk":
		s.w.StopWalk()
		return true, s.st()
	case "Reset":
		s.w.Reset()
		return true, s.st()
	}
	panic("unknown op")
}

func (s *walkerSUT) RandomCfg(r *rand.Rand) core.Ev { return core.Ev{"revisit": r.Intn(2) == 0} }

func randVals(r *rand.Rand, maxn int) []any {
	n := r.Intn(maxn + 1)
	out := make([]any, n)
	for i := range out {
		out[i] = 1 + r.Intn(3)
	}
	return out
}

func (s *walkerSUT) RandomStimulus(r *rand.Rand) core.Ev {
	switch r.Intn(14) {
	case 0, 1:
		return core.Ev{"op": "Push", "v": 1 + r.Intn(3)}
	case 2, 3:
		return core.Ev{"op": "PushAll", "vs": randVals(r, 3)}
	case 4, 5, 6:
		return core.Ev{"op": "PushFront", "vs": randVals(r, 3)}
	case 7, 8, 9:
		// Next on an empty queue is outside the contract: only when HasNext (or stopped with a queue we
		// cannot see - then fall through to HasNext)
		if s.w.HasNext() {
			return core.Ev{"op": "Next"}
		}
		return core.Ev{"op": "HasNext"}
	case 10:
		return core.Ev{"op": "Pushed", "v": 1 + r.Intn(3)}
	case 11:
		return core.Pick(r, core.Ev{"op": "WalkStopped"}, core.Ev{"op": "HasNext"})
	case 12:
		if r.Intn(3) == 0 {
			return core.Ev{"op": "StopWalk"}
		}
		return core.Ev{"op": "HasNext"}
	}
	if r.Intn(3) == 0 {
		return core.Ev{"op": "Reset"}
	}
	return core.Ev{"op": "Push", "v": 1 + r.Intn(3)}
}
