package containers

import (
	"container/heap"
	"math/rand"

	"github.com/iotaledger/hive.go/ds/generalheap"
	"github.com/iotaledger/hive.go/ds/priorityqueue"

	"verifharness/core"
)

// prio is the Priority type (smaller pops first).
type prio int

func (p prio) CompareTo(o prio) int {
	switch {
	case p < o:
		return -1
	case p > o:
		return 1
	}
	return 0
}

// pqElem is the element stored in the real queue: (handle id, priority it was pushed with).
type pqElem [2]int

func elemJSON(e pqElem) []any { return []any{e[0], e[1]} }

func elemsJSON(es []pqElem) []any {
	out := make([]any, 0, len(es))
	for _, e := range es {
		out = append(out, elemJSON(e))
	}
	return out
}

const pqH, pqP = 4, 3 // universe of the trace cfg

// pqDriver is what both SUTs of module PriorityQueue implement; pqSUT holds the common part.
type pqDriver interface {
	reset()
	push(h, p int)
	remove(h int)
	peek() (pqElem, bool)
	pop() (pqElem, bool)
	popUntil(p int) []pqElem
	popAll() []pqElem
	size() int
	isEmpty() bool
	ok() bool
}

type pqSUT struct {
	d    pqDriver
	live map[int]bool // the recorder's own bookkeeping (to respect Push's precondition)
}

func init() {
	core.Register("PriorityQueue", func() core.SUT { return &pqSUT{d: &pqReal{}} })
	core.Register("GeneralHeap", func() core.SUT { return &pqSUT{d: &ghReal{}} })
}

func (s *pqSUT) Reset(core.Ev) { s.d.reset(); s.live = map[int]bool{} }

func (s *pqSUT) st() any {
	minp := 0
	if e, ok := s.d.peek(); ok {
		minp = e[1]
	}
	return core.Ev{"size": s.d.size(), "empty": s.d.isEmpty(), "minp": minp, "ok": s.d.ok()}
}

func (s *pqSUT) gone(es ...pqElem) {
	for _, e := range es {
		delete(s.live, e[0])
	}
}

func (s *pqSUT) Apply(e core.Ev) (any, any) {
	switch core.Str(e, "op") {
	case "Push":
		s.d.push(core.Int(e, "h"), core.Int(e, "p"))
		s.live[core.Int(e, "h")] = true
		return "handle", s.st()
	case "Remove":
		before := s.d.size()
		s.d.remove(core.Int(e, "h"))
		delete(s.live, core.Int(e, "h"))
		return before - s.d.size(), s.st()
	case "Peek":
		el, ok := s.d.peek()
		return core.Opt(ok, elemJSON(el)), s.st()
	case "Pop":
		el, ok := s.d.pop()
		if ok {
			s.gone(el)
		}
		return core.Opt(ok, elemJSON(el)), s.st()
	case "PopUntil":
		es := s.d.popUntil(core.Int(e, "p"))
		s.gone(es...)
		return elemsJSON(es), s.st()
	case "PopAll":
		es := s.d.popAll()
		s.gone(es...)
		return elemsJSON(es), s.st()
	case "Size":
		return s.d.size(), s.st()
	case "IsEmpty":
		return s.d.isEmpty(), s.st()
	}
	panic("unknown op")
}

func (s *pqSUT) RandomCfg(*rand.Rand) core.Ev { return core.Ev{"kind": "min-first"} }

func (s *pqSUT) RandomStimulus(r *rand.Rand) core.Ev {
	switch c := r.Intn(16); {
	case c < 7:
		free := []int{}
		for h := 1; h <= pqH; h++ {
			if !s.live[h] {
				free = append(free, h)
			}
		}
		if len(free) > 0 {
			return core.Ev{"op": "Push", "h": free[r.Intn(len(free))], "p": 1 + r.Intn(pqP)}
		}
		return core.Ev{"op": "Pop"}
	case c < 10:
		return core.Ev{"op": "Remove", "h": 1 + r.Intn(pqH)}
	case c < 12:
		return core.Ev{"op": "Pop"}
	case c == 12:
		return core.Ev{"op": "PopUntil", "p": r.Intn(pqP + 2)}
	case c == 13:
		return core.Ev{"op": "Peek"}
	case c == 14:
		return core.Ev{"op": core.Pick(r, "Size", "IsEmpty")}
	}
	if r.Intn(3) == 0 {
		return core.Ev{"op": "PopAll"}
	}
	return core.Ev{"op": "Remove", "h": 1 + r.Intn(pqH)}
}

// pqReal drives the public priorityqueue.PriorityQueue.
type pqReal struct {
	q       *priorityqueue.PriorityQueue[pqElem, prio]
	handles map[int]func()
}

func (d *pqReal) reset() {
	d.q, d.handles = priorityqueue.New[pqElem, prio](), map[int]func(){}
}
func (d *pqReal) push(h, p int) { d.handles[h] = d.q.Push(pqElem{h, p}, prio(p)) }
func (d *pqReal) remove(h int) {
	if f := d.handles[h]; f != nil {
		f()
	}
}
func (d *pqReal) peek() (pqElem, bool)    { return d.q.Peek() }
func (d *pqReal) pop() (pqElem, bool)     { return d.q.Pop() }
func (d *pqReal) popUntil(p int) []pqElem { return d.q.PopUntil(prio(p)) }
func (d *pqReal) popAll() []pqElem        { return d.q.PopAll() }
func (d *pqReal) size() int               { return d.q.Size() }
func (d *pqReal) isEmpty() bool           { return d.q.IsEmpty() }
func (d *pqReal) ok() bool                { return true } // internals not visible through the public type

// ghReal drives generalheap.Heap through container/heap exactly the way PriorityQueue uses it, keeping every
// handle's latest element so that the index bookkeeping can be checked after every call.
type ghReal struct {
	h       generalheap.Heap[prio, pqElem]
	current map[int]*generalheap.HeapElement[prio, pqElem] // latest element per handle id (queued or stale)
}

func (d *ghReal) reset() {
	d.h = make(generalheap.Heap[prio, pqElem], 0)
	d.current = map[int]*generalheap.HeapElement[prio, pqElem]{}
}

func (d *ghReal) push(h, p int) {
	el := &generalheap.HeapElement[prio, pqElem]{Key: prio(p), Value: pqElem{h, p}}
	heap.Push(&d.h, el)
	d.current[h] = el
}

func (d *ghReal) remove(h int) {
	if el := d.current[h]; el != nil && el.Index() != -1 {
		heap.Remove(&d.h, el.Index())
	}
}

func (d *ghReal) peek() (e pqElem, ok bool) {
	if d.h.Len() == 0 {
		return e, false
	}
	return d.h[0].Value, true
}

func (d *ghReal) pop() (e pqElem, ok bool) {
	if d.h.Len() == 0 {
		return e, false
	}
	//nolint:forcetypeassert
	return heap.Pop(&d.h).(*generalheap.HeapElement[prio, pqElem]).Value, true
}

func (d *ghReal) popUntil(p int) []pqElem {
	out := []pqElem{}
	for d.h.Len() != 0 && d.h[0].Key.CompareTo(prio(p)) <= 0 {
		e, _ := d.pop()
		out = append(out, e)
	}
	return out
}

func (d *ghReal) popAll() []pqElem {
	out := []pqElem{}
	for d.h.Len() != 0 {
		e, _ := d.pop()
		out = append(out, e)
	}
	return out
}

func (d *ghReal) size() int     { return d.h.Len() }
func (d *ghReal) isEmpty() bool { return d.h.Len() == 0 }

func (d *ghReal) ok() bool {
	in := map[*generalheap.HeapElement[prio, pqElem]]bool{}
	for i, el := range d.h {
		if el == nil || el.Index() != i || in[el] {
			return false
		}
		in[el] = true
		if i > 0 && d.h.Less(i, (i-1)/2) {
			return false
		}
	}
	for _, el := range d.current {
		if !in[el] && el.Index() != -1 {
			return false
		}
	}
	return true
}
