package containers

import (
	"math/rand"

	"github.com/iotaledger/hive.go/ds/ringbuffer"

	"verifharness/core"
)

// ringBufferSUT binds ds/ringbuffer.RingBuffer[int] to module RingBuffer.
type ringBufferSUT struct {
	r *ringbuffer.RingBuffer[int]
}

func init() { core.Register("RingBuffer", func() core.SUT { return &ringBufferSUT{} }) }

func (s *ringBufferSUT) Reset(cfg core.Ev) { s.r = ringbuffer.NewRingBuffer[int](core.Int(cfg, "cap")) }

func (s *ringBufferSUT) st() any { return core.Ev{"slice": core.Seq(s.r.ToSlice())} }

func (s *ringBufferSUT) Apply(e core.Ev) (any, any) {
	switch core.Str(e, "op") {
	case "Add":
		return s.r.Add(core.Int(e, "v")), s.st()
	case "ToSlice":
		return core.Seq(s.r.ToSlice()), s.st()
	}
	panic("unknown op")
}

func (s *ringBufferSUT) RandomCfg(r *rand.Rand) core.Ev { return core.Ev{"cap": 1 + r.Intn(3)} }

func (s *ringBufferSUT) RandomStimulus(r *rand.Rand) core.Ev {
	if r.Intn(5) == 0 {
		return core.Ev{"op": "ToSlice"}
	}
	return core.Ev{"op": "Add", "v": 1 + r.Intn(3)}
}
