package containers

import (
	"math/rand"
	"sort"

	"github.com/iotaledger/hive.go/ds/randommap"

	"verifharness/core"
)

// rmEntry is the value stored in the real RandomMap: the pair (key, value), so that the entries returned by the
// random picks identify themselves ("distinct entries", "always members").
type rmEntry [2]int

// randomMapSUT binds ds/randommap.RandomMap[int, rmEntry] to module RandomMap.
type randomMapSUT struct {
	m  *randommap.RandomMap[int, rmEntry]
	nk int // keys 1..nk are observed after every call (cfg.nk = Cardinality(Keys) of the cfg file in use)
}

func init() { core.Register("RandomMap", func() core.SUT { return &randomMapSUT{} }) }

const rmKeys, rmVals = 3, 2

func (s *randomMapSUT) Reset(cfg core.Ev) {
	s.m, s.nk = randommap.New[int, rmEntry](shrinkOpts(cfg)...), core.Int(cfg, "nk")
}

func entry(e rmEntry) []any { return []any{e[0], e[1]} }

// entriesSorted projects a list of entries sorted by (key, value).
func entriesSorted(es []rmEntry) []any {
	c := append([]rmEntry(nil), es...)
	sort.Slice(c, func(i, j int) bool {
		if c[i][0] != c[j][0] {
			return c[i][0] < c[j][0]
		}
		return c[i][1] < c[j][1]
	})
	out := make([]any, 0, len(c))
	for _, e := range c {
		out = append(out, entry(e))
	}
	return out
}

func (s *randomMapSUT) st() any {
	gets, has := make([]any, 0, s.nk), make([]any, 0, s.nk)
	for k := 1; k <= s.nk; k++ {
		v, ok := s.m.Get(k)
		gets = append(gets, core.Opt(ok, entry(v)))
		has = append(has, s.m.Has(k))
	}
	items := []rmEntry{}
	s.m.ForEach(func(k int, v rmEntry) bool {
		// the key the map reports for an entry is part of the observation: a wrong key shows up as a foreign entry
		items = append(items, rmEntry{k, v[1]})
		if v[0] != k {
			items = append(items, v)
		}
		return true
	})
	return core.Ev{
		"size":  s.m.Size(),
		"items": entriesSorted(items),
		"gets":  gets,
		"has":   has,
		"keys":  core.SortedInts(s.m.Keys()),
		"vals":  entriesSorted(s.m.Values()),
	}
}

func (s *randomMapSUT) Apply(e core.Ev) (any, any) {
	switch core.Str(e, "op") {
	case "Set":
		k := core.Int(e, "k")
		s.m.Set(k, rmEntry{k, core.Int(e, "v")})
		return "done", s.st()
	case "Get":
		v, ok := s.m.Get(core.Int(e, "k"))
		return core.Opt(ok, entry(v)), s.st()
	case "Has":
		return s.m.Has(core.Int(e, "k")), s.st()
	case "Delete":
		v, ok := s.m.Delete(core.Int(e, "k"))
		return core.Opt(ok, entry(v)), s.st()
	case "Size":
		return s.m.Size(), s.st()
	case "Keys":
		return core.SortedInts(s.m.Keys()), s.st()
	case "Values":
		return entriesSorted(s.m.Values()), s.st()
	case "ForEach":
		n, calls := core.Int(e, "n"), 0
		seen := []rmEntry{}
		s.m.ForEach(func(k int, v rmEntry) bool {
			calls++
			seen = append(seen, rmEntry{k, v[1]})
			return calls != n
		})
		return core.Ev{"calls": calls, "seen": entriesSorted(seen)}, s.st()
	case "RandomKey":
		k, ok := s.m.RandomKey()
		return core.Opt(ok, k), s.st()
	case "RandomEntry":
		v, ok := s.m.RandomEntry()
		return core.Opt(ok, entry(v)), s.st()
	case "RandomUniqueEntries":
		return entriesSorted(s.m.RandomUniqueEntries(core.Int(e, "n"))), s.st()
	}
	panic("unknown op")
}

func (s *randomMapSUT) RandomCfg(r *rand.Rand) core.Ev {
	return core.Ev{"count": r.Intn(2), "ratio2": r.Intn(2), "nk": rmKeys}
}

func (s *randomMapSUT) RandomStimulus(r *rand.Rand) core.Ev {
	k := 1 + r.Intn(rmKeys)
	switch r.Intn(16) {
	case 0, 1, 2, 3:
		return core.Ev{"op": "Set", "k": k, "v": 1 + r.Intn(rmVals)}
	case 4, 5, 6, 7:
		return core.Ev{"op": "Delete", "k": k}
	case 8:
		return core.Ev{"op": core.Pick(r, "Get", "Has"), "k": k}
	case 9:
		return core.Ev{"op": core.Pick(r, "Size", "Keys", "Values")}
	case 10:
		return core.Ev{"op": "ForEach", "n": r.Intn(3)}
	case 11:
		return core.Ev{"op": "RandomKey"}
	case 12:
		return core.Ev{"op": "RandomEntry"}
	}
	return core.Ev{"op": "RandomUniqueEntries", "n": r.Intn(6) - 1}
}
