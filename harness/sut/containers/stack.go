package containers

import (
	"math/rand"

	"github.com/iotaledger/hive.go/ds/stack"

	"verifharness/core"
)

// stackSUT binds ds/stack.Stack[int] to module Stack; two registrations, one per flavour.
type stackSUT struct {
	threadSafe bool
	s          stack.Stack[int]
}

const stackMaxDepth, stackVals = 3, 3

func init() {
	core.Register("StackSimple", func() core.SUT { return &stackSUT{threadSafe: false} })
	core.Register("StackThreadSafe", func() core.SUT { return &stackSUT{threadSafe: true} })
}

func (s *stackSUT) Reset(cfg core.Ev) {
	long := core.Str(cfg, "ctor") == "long"
	switch {
	case s.threadSafe && long:
		s.s = stack.New[int](true, false)
	case s.threadSafe:
		s.s = stack.New[int](true)
	case long:
		s.s = stack.New[int](false)
	default:
		s.s = stack.New[int]()
	}
}

func (s *stackSUT) st() any {
	v, ok := s.s.Peek()
	return core.Ev{"size": s.s.Size(), "empty": s.s.IsEmpty(), "peek": core.Opt(ok, v)}
}

func (s *stackSUT) Apply(e core.Ev) (any, any) {
	switch core.Str(e, "op") {
	case "Push":
		s.s.Push(core.Int(e, "v"))
		return "done", s.st()
	case "Pop":
		v, ok := s.s.Pop()
		return core.Opt(ok, v), s.st()
	case "Peek":
		v, ok := s.s.Peek()
		return core.Opt(ok, v), s.st()
	case "Clear":
		s.s.Clear()
		return "done", s.st()
	case "Size":
		return s.s.Size(), s.st()
	case "IsEmpty":
		return s.s.IsEmpty(), s.st()
	}
	panic("unknown op")
}

func (s *stackSUT) RandomCfg(r *rand.Rand) core.Ev {
	return core.Ev{"ctor": core.Pick(r, "short", "long")}
}

func (s *stackSUT) RandomStimulus(r *rand.Rand) core.Ev {
	switch c := r.Intn(12); {
	case c < 5:
		if s.s.Size() < stackMaxDepth { // Push's precondition in the (bounded) model
			return core.Ev{"op": "Push", "v": 1 + r.Intn(stackVals)}
		}
		return core.Ev{"op": "Pop"}
	case c < 9:
		return core.Ev{"op": "Pop"}
	case c == 9:
		return core.Ev{"op": "Peek"}
	case c == 10:
		return core.Ev{"op": core.Pick(r, "Size", "IsEmpty")}
	}
	return core.Ev{"op": "Clear"}
}
