package containers

import (
	"math/rand"
	"time"

	"github.com/iotaledger/hive.go/runtime/timed"

	"verifharness/core"
)

// timedPQSUT binds runtime/timed.PriorityQueue[pqElem] to module TimedPriorityQueue.  Times are the fixed
// synthetic instants time.Unix(t, 0); no clock is read.
type timedPQSUT struct {
	wide bool
	q    timed.PriorityQueue[pqElem]
	live map[int]bool // recorder bookkeeping for Push's precondition
}

func init() { core.Register("TimedPriorityQueue", func() core.SUT { return &timedPQSUT{} }) }

func synthTime(t int) time.Time { return time.Unix(int64(t), 0) }

// wideTimes: the abstract instants 0,1,2,... as instants spread over the whole range of time.Time (clock "wide")
var wideTimes = []time.Time{
	{}, // the zero Time (year 1)
	time.Date(1600, 1, 1, 0, 0, 0, 0, time.UTC),
	time.Date(1970, 1, 1, 0, 0, 0, 0, time.UTC),
	time.Date(2262, 4, 11, 23, 47, 16, 0, time.UTC),
	time.Date(2262, 4, 12, 0, 0, 0, 0, time.UTC),
	time.Date(9999, 12, 31, 23, 59, 59, 0, time.UTC),
	time.Date(9999, 12, 31, 23, 59, 59, 1, time.UTC),
}

func (s *timedPQSUT) time(t int) time.Time {
	if s.wide && t >= 0 && t < len(wideTimes) {
		return wideTimes[t]
	}
	return synthTime(t)
}

func (s *timedPQSUT) Reset(cfg core.Ev) {
	switch core.Str(cfg, "order") {
	case "asc":
		s.q = timed.NewPriorityQueue[pqElem](true)
	case "desc":
		s.q = timed.NewPriorityQueue[pqElem](false)
	default:
		s.q = timed.NewPriorityQueue[pqElem]()
	}
	s.live = map[int]bool{}
	s.wide = core.Str(cfg, "clock") == "wide"
}

func (s *timedPQSUT) st() any {
	top := 0
	if e, ok := s.q.Peek(); ok {
		top = e[1]
	}
	return core.Ev{"size": s.q.Size(), "empty": s.q.IsEmpty(), "top": top}
}

func (s *timedPQSUT) gone(es ...pqElem) {
	for _, e := range es {
		delete(s.live, e[0])
	}
}

func (s *timedPQSUT) Apply(e core.Ev) (any, any) {
	switch core.Str(e, "op") {
	case "Push":
		h, t := core.Int(e, "h"), core.Int(e, "t")
		s.q.Push(pqElem{h, t}, s.time(t))
		s.live[h] = true
		return "done", s.st()
	case "Peek":
		el, ok := s.q.Peek()
		return core.Opt(ok, elemJSON(el)), s.st()
	case "Pop":
		el, ok := s.q.Pop()
		if ok {
			s.gone(el)
		}
		return core.Opt(ok, elemJSON(el)), s.st()
	case "PopUntil":
		es := s.q.PopUntil(s.time(core.Int(e, "t")))
		s.gone(es...)
		return elemsJSON(es), s.st()
	case "PopAll":
		es := s.q.PopAll()
		s.gone(es...)
		return elemsJSON(es), s.st()
	case "Size":
		return s.q.Size(), s.st()
	case "IsEmpty":
		return s.q.IsEmpty(), s.st()
	}
	panic("unknown op")
}

func (s *timedPQSUT) RandomCfg(r *rand.Rand) core.Ev {
	return core.Ev{"order": core.Pick(r, "asc", "desc", "default"), "clock": core.Pick(r, "unix", "wide")}
}

func (s *timedPQSUT) RandomStimulus(r *rand.Rand) core.Ev {
	switch c := r.Intn(16); {
	case c < 8:
		free := []int{}
		for h := 1; h <= pqH; h++ {
			if !s.live[h] {
				free = append(free, h)
			}
		}
		if len(free) > 0 {
			return core.Ev{"op": "Push", "h": free[r.Intn(len(free))], "t": 1 + r.Intn(pqP)}
		}
		return core.Ev{"op": "Pop"}
	case c < 11:
		return core.Ev{"op": "Pop"}
	case c < 13:
		return core.Ev{"op": "PopUntil", "t": r.Intn(pqP + 2)}
	case c == 13:
		return core.Ev{"op": "Peek"}
	case c == 14:
		return core.Ev{"op": core.Pick(r, "Size", "IsEmpty")}
	}
	if r.Intn(3) == 0 {
		return core.Ev{"op": "PopAll"}
	}
	return core.Ev{"op": "Peek"}
}
