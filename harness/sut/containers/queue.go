// Package containers adapts the small hive.go containers (property C12) to their TLA+ modules.
package containers

import (
	"math/rand"

	"github.com/iotaledger/hive.go/ds/queue"

	"verifharness/core"
)

type queueSUT struct {
	q *queue.Queue[int]
}

func init() { core.Register("Queue", func() core.SUT { return &queueSUT{} }) }

func (s *queueSUT) Reset(cfg core.Ev) { s.q = queue.New[int](core.Int(cfg, "cap")) }

func (s *queueSUT) st() any { return core.Ev{"size": s.q.Size(), "cap": s.q.Capacity()} }

func (s *queueSUT) Apply(e core.Ev) (any, any) {
	switch core.Str(e, "op") {
	case "Offer":
		return s.q.Offer(core.Int(e, "v")), s.st()
	case "ForceOffer":
		v, ok := s.q.ForceOffer(core.Int(e, "v"))
		return core.Opt(ok, v), s.st()
	case "Poll":
		v, ok := s.q.Poll()
		return core.Opt(ok, v), s.st()
	}
	panic("unknown op")
}

func (s *queueSUT) RandomCfg(r *rand.Rand) core.Ev { return core.Ev{"cap": 1 + r.Intn(3)} }

func (s *queueSUT) RandomStimulus(r *rand.Rand) core.Ev {
	switch r.Intn(3) {
	case 0:
		return core.Ev{"op": "Offer", "v": 1 + r.Intn(3)}
	case 1:
		return core.Ev{"op": "ForceOffer", "v": 1 + r.Intn(3)}
	}
	return core.Ev{"op": "Poll"}
}
