package containers

import (
	"crypto/sha256"
	"math/rand"

	"github.com/iotaledger/hive.go/ds/bytesfilter"

	"verifharness/core"
)

// bfID is the identifier type ([32]byte) of the filter under test.
type bfID [32]byte

func bfNewID(b []byte) bfID { return sha256.Sum256(b) }

// bfBytes maps the spec's identifier number to the byte string whose hash is that identifier: the empty string,
// single 0xff / 0x00 bytes and multi-byte strings are part of the universe.
func bfBytes(i int) []byte {
	switch i {
	case 1:
		return []byte{}
	case 2:
		return []byte{0xff}
	case 3:
		return []byte{0x00}
	case 4:
		return []byte{0xff, 0xff}
	case 5:
		return []byte{0x00, 0xff}
	}
	return []byte{byte(i), 0x01, byte(i)}
}

// bytesFilterSUT binds ds/bytesfilter.BytesFilter[bfID] to module BytesFilter.
type bytesFilterSUT struct {
	f    *bytesfilter.BytesFilter[bfID]
	nids int
	ids  map[bfID]int
}

const bfNIds = 4

func init() { core.Register("BytesFilter", func() core.SUT { return &bytesFilterSUT{} }) }

func (s *bytesFilterSUT) Reset(cfg core.Ev) {
	s.f = bytesfilter.New[bfID](bfNewID, core.Int(cfg, "size"))
	s.nids = core.Int(cfg, "nids")
	s.ids = map[bfID]int{}
	for i := 1; i <= s.nids; i++ {
		s.ids[bfNewID(bfBytes(i))] = i
	}
}

func (s *bytesFilterSUT) st() any {
	byID, byBytes := make([]any, 0, s.nids), make([]any, 0, s.nids)
	for i := 1; i <= s.nids; i++ {
		byID = append(byID, s.f.ContainsIdentifier(bfNewID(bfBytes(i))))
		b := bfBytes(i)
		if len(b) == 0 {
			b = nil // nil and empty bytes are the same byte string
		}
		byBytes = append(byBytes, s.f.Contains(b))
	}
	return core.Ev{"byId": byID, "byBytes": byBytes}
}

func (s *bytesFilterSUT) Apply(e core.Ev) (any, any) {
	switch core.Str(e, "op") {
	case "Add":
		id, added := s.f.Add(bfBytes(core.Int(e, "b")))
		return core.Ev{"id": s.ids[id], "added": added}, s.st() // unknown identifier -> 0, matches nothing
	case "AddIdentifier":
		return s.f.AddIdentifier(bfNewID(bfBytes(core.Int(e, "id")))), s.st()
	case "Contains":
		return s.f.Contains(bfBytes(core.Int(e, "b"))), s.st()
	case "ContainsIdentifier":
		return s.f.ContainsIdentifier(bfNewID(bfBytes(core.Int(e, "id")))), s.st()
	}
	panic("unknown op")
}

func (s *bytesFilterSUT) RandomCfg(r *rand.Rand) core.Ev {
	return core.Ev{"size": 1 + r.Intn(3), "nids": bfNIds}
}

func (s *bytesFilterSUT) RandomStimulus(r *rand.Rand) core.Ev {
	i := 1 + r.Intn(bfNIds)
	switch c := r.Intn(10); {
	case c < 4:
		return core.Ev{"op": "Add", "b": i}
	case c < 8:
		return core.Ev{"op": "AddIdentifier", "id": i}
	case c == 8:
		return core.Ev{"op": "Contains", "b": i}
	}
	return core.Ev{"op": "ContainsIdentifier", "id": i}
}
