package containers

import (
	"math/rand"
	"sort"

	"github.com/iotaledger/hive.go/ds/shrinkingmap"

	"verifharness/core"
)

// shrinkingMapSUT binds ds/shrinkingmap.ShrinkingMap[int,int] to module ShrinkingMap.
type shrinkingMapSUT struct {
	m *shrinkingmap.ShrinkingMap[int, int]
}

func init() { core.Register("ShrinkingMap", func() core.SUT { return &shrinkingMapSUT{} }) }

const smKeys, smVals = 3, 3 // universe of the trace cfg (keys 1..3, values 1..3)

func shrinkOpts(cfg core.Ev) []shrinkingmap.Option {
	return []shrinkingmap.Option{
		shrinkingmap.WithShrinkingThresholdCount(core.Int(cfg, "count")),
		shrinkingmap.WithShrinkingThresholdRatio(float32(core.Int(cfg, "ratio2")) / 2),
	}
}

func (s *shrinkingMapSUT) Reset(cfg core.Ev) { s.m = shrinkingmap.New[int, int](shrinkOpts(cfg)...) }

// pairsSorted projects a map as [[k,v]...] sorted by key.
func pairsSorted(m map[int]int) []any {
	ks := make([]int, 0, len(m))
	for k := range m {
		ks = append(ks, k)
	}
	sort.Ints(ks)
	out := make([]any, 0, len(ks))
	for _, k := range ks {
		out = append(out, []any{k, m[k]})
	}
	return out
}

func (s *shrinkingMapSUT) st() any {
	gets := make([]any, 0, smKeys)
	for k := 1; k <= smKeys; k++ {
		v, ok := s.m.Get(k)
		gets = append(gets, core.Opt(ok, v))
	}
	return core.Ev{
		"size":  s.m.Size(),
		"empty": s.m.IsEmpty(),
		"items": pairsSorted(s.m.AsMap()),
		"gets":  gets,
		"keys":  core.SortedInts(s.m.Keys()),
		"vals":  core.SortedInts(s.m.Values()),
	}
}

// computeFn is the update function family of the spec: fn = 0 toggles (1 -> 2, anything else or absent -> 1),
// fn = v is the constant v.
func computeFn(fn int) func(cur int) int {
	return func(cur int) int {
		if fn == 0 {
			if cur == 1 {
				return 2
			}
			return 1
		}
		return fn
	}
}

func (s *shrinkingMapSUT) Apply(e core.Ev) (any, any) {
	switch core.Str(e, "op") {
	case "Set":
		return s.m.Set(core.Int(e, "k"), core.Int(e, "v")), s.st()
	case "Get":
		v, ok := s.m.Get(core.Int(e, "k"))
		return core.Opt(ok, v), s.st()
	case "Has":
		return s.m.Has(core.Int(e, "k")), s.st()
	case "GetOrCreate":
		calls := 0
		v, created := s.m.GetOrCreate(core.Int(e, "k"), func() int { calls++; return core.Int(e, "v") })
		return core.Ev{"v": v, "created": created, "calls": calls}, s.st()
	case "Compute":
		var gotCur int
		var gotExists bool
		f := computeFn(core.Int(e, "fn"))
		v := s.m.Compute(core.Int(e, "k"), func(cur int, exists bool) int {
			gotCur, gotExists = cur, exists
			return f(cur)
		})
		return core.Ev{"v": v, "cur": gotCur, "exists": gotExists}, s.st()
	case "Delete":
		return s.m.Delete(core.Int(e, "k")), s.st()
	case "DeleteIf":
		c := core.Bool(e, "c")
		return s.m.Delete(core.Int(e, "k"), func() bool { return c }), s.st()
	case "DeleteAndReturn":
		v, ok := s.m.DeleteAndReturn(core.Int(e, "k"))
		return core.Opt(ok, v), s.st()
	case "Pop":
		k, v, ok := s.m.Pop()
		if !ok {
			return []any{}, s.st()
		}
		return []any{k, v}, s.st()
	case "Keys":
		return core.SortedInts(s.m.Keys()), s.st()
	case "Values":
		return core.SortedInts(s.m.Values()), s.st()
	case "AsMap":
		return pairsSorted(s.m.AsMap()), s.st()
	case "Size":
		return s.m.Size(), s.st()
	case "IsEmpty":
		return s.m.IsEmpty(), s.st()
	case "Clear":
		s.m.Clear()
		return "done", s.st()
	case "Shrink":
		s.m.Shrink()
		return "done", s.st()
	case "ForEach":
		n, calls := core.Int(e, "n"), 0
		seen := [][2]int{}
		s.m.ForEach(func(k, v int) bool {
			calls++
			seen = append(seen, [2]int{k, v})
			return calls != n
		})
		sort.Slice(seen, func(i, j int) bool {
			if seen[i][0] != seen[j][0] {
				return seen[i][0] < seen[j][0]
			}
			return seen[i][1] < seen[j][1]
		})
		out := make([]any, 0, len(seen))
		for _, p := range seen {
			out = append(out, []any{p[0], p[1]})
		}
		return core.Ev{"calls": calls, "seen": out}, s.st()
	case "ForEachKey":
		n, calls := core.Int(e, "n"), 0
		seen := []int{}
		s.m.ForEachKey(func(k int) bool {
			calls++
			seen = append(seen, k)
			return calls != n
		})
		return core.Ev{"calls": calls, "seen": core.SortedInts(seen)}, s.st()
	}
	panic("unknown op")
}

func (s *shrinkingMapSUT) RandomCfg(r *rand.Rand) core.Ev {
	return core.Ev{"count": r.Intn(3), "ratio2": r.Intn(3)}
}

func (s *shrinkingMapSUT) RandomStimulus(r *rand.Rand) core.Ev {
	k, v := 1+r.Intn(smKeys), 1+r.Intn(smVals)
	switch r.Intn(20) {
	case 0, 1, 2, 3:
		return core.Ev{"op": "Set", "k": k, "v": v}
	case 4:
		return core.Ev{"op": "GetOrCreate", "k": k, "v": v}
	case 5:
		return core.Ev{"op": "Compute", "k": k, "fn": r.Intn(smVals + 1)}
	case 6, 7, 8:
		return core.Ev{"op": "Delete", "k": k}
	case 9:
		return core.Ev{"op": "DeleteIf", "k": k, "c": r.Intn(2) == 0}
	case 10:
		return core.Ev{"op": "DeleteAndReturn", "k": k}
	case 11, 12:
		return core.Ev{"op": "Pop"}
	case 13:
		return core.Ev{"op": core.Pick(r, "Get", "Has"), "k": k}
	case 14:
		return core.Ev{"op": core.Pick(r, "ForEach", "ForEachKey"), "n": r.Intn(4)}
	case 15:
		return core.Ev{"op": core.Pick(r, "Keys", "Values", "AsMap", "Size", "IsEmpty")}
	case 16:
		if r.Intn(4) == 0 {
			return core.Ev{"op": "Clear"}
		}
		return core.Ev{"op": "Shrink"}
	}
	return core.Ev{"op": "Set", "k": k, "v": v}
}
