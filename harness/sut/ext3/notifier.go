package ext3

import (
	"context"
	"errors"
	"fmt"
	"math/rand"
	"runtime"
	"time"

	"github.com/iotaledger/hive.go/runtime/valuenotifier"

	"verifharness/core"
	"verifharness/sched"
)

func init() { core.Register("ValueNotifier", func() core.SUT { return &vnSUT{} }) }

const vnThreads = 3

func spinUntil(cond func() bool) bool {
	deadline := time.Now().Add(5 * time.Second)
	for i := 0; !cond(); i++ {
		if i%64 == 63 && time.Now().After(deadline) {
			return false
		}
		runtime.Gosched()
	}
	return true
}

// gatedCtx is a context whose Done() parks the caller at a gate first: Listener.Wait evaluates the channel operands of
// its select in source order, so a Wait called with it has looked at the deregistered flag but has not entered the select.
type gatedCtx struct {
	context.Context
	gate  *sched.Gate
	point string
}

func (g *gatedCtx) Done() <-chan struct{} {
	g.gate.Wait(g.point)
	return g.Context.Done()
}

// vnRun is the state of one history (closures of an abandoned history keep their own run).
type vnRun struct {
	cfg       core.Ev
	n         *valuenotifier.Notifier[int]
	listeners []*valuenotifier.Listener
	threads   map[int]*sched.Thread
	cancel    map[int]context.CancelFunc
	on        map[int]int // thread -> listener it called Wait on
	gate      *sched.Gate
	gated     map[int]bool // thread is held inside Done()
	cancelled map[int]bool // Cancel was applied to the thread's current Wait
}

type vnSUT struct{ r *vnRun }

func (s *vnSUT) Reset(cfg core.Ev) {
	if old := s.r; old != nil {
		old.gate.ReleaseAll()
		for t, th := range old.threads {
			if c := old.cancel[t]; c != nil {
				c()
			}
			spinUntil(func() bool { return !th.Busy() })
			th.Abandon()
		}
	}
	s.r = &vnRun{cfg: cfg, n: valuenotifier.New[int](), threads: map[int]*sched.Thread{}, cancel: map[int]context.CancelFunc{}, on: map[int]int{},
		gate: sched.NewGate(), gated: map[int]bool{}, cancelled: map[int]bool{}}
}

func (r *vnRun) thread(i int) *sched.Thread {
	if t := r.threads[i]; t != nil {
		return t
	}
	t := sched.NewThread(i)
	r.threads[i] = t
	return t
}

func (r *vnRun) busy(i int) bool { t := r.threads[i]; return t != nil && t.Busy() }

// quiesce waits until every harness thread has either returned from Wait or is parked in Wait's select (goroutine
// state), stable over consecutive polls; nothing else runs in this subsystem.
func (r *vnRun) quiesce() {
	prev, same := "", 0
	ok := spinUntil(func() bool {
		var busy [vnThreads + 1]bool
		any := false
		for i := 1; i <= vnThreads; i++ {
			busy[i] = r.busy(i)
			any = any || busy[i]
		}
		fp := fmt.Sprint(busy)
		if any {
			snap := sched.Snapshot() // taken AFTER looking at who is inside Wait
			for i := 1; i <= vnThreads; i++ {
				if busy[i] && r.gated[i] {
					if r.gate.Parked(fmt.Sprint("t", i)) != 1 {
						prev, same = "", 0
						return false
					}
					continue
				}
				if busy[i] && snap[r.threads[i].GID()] != "select" {
					prev, same = "", 0
					return false
				}
			}
		}
		if fp == prev {
			same++
		} else {
			prev, same = fp, 1
		}
		return same >= 2
	})
	if !ok {
		panic("a Wait neither returned nor parked within 5s")
	}
}

func vnResult(err error) string {
	switch {
	case err == nil:
		return "ok"
	case errors.Is(err, valuenotifier.ErrListenerDeregistered):
		return "deregistered"
	case errors.Is(err, context.Canceled):
		return "canceled"
	case errors.Is(err, context.DeadlineExceeded):
		return "deadline"
	}
	return "error:" + err.Error()
}

func (s *vnSUT) Apply(e core.Ev) (any, any) {
	r := s.r
	id := 0
	switch op := core.Str(e, "op"); op {
	case "Listener":
		r.listeners = append(r.listeners, r.n.Listener(core.Int(e, "v")))
		id = len(r.listeners)
	case "Notify":
		r.n.Notify(core.Int(e, "v"))
	case "Deregister":
		r.listeners[core.Int(e, "l")-1].Deregister()
	case "Wait":
		t := 0
		for i := 1; i <= vnThreads && t == 0; i++ {
			if !r.busy(i) {
				t = i
			}
		}
		if t == 0 {
			panic("no idle thread")
		}
		l := r.listeners[core.Int(e, "l")-1]
		var ctx context.Context
		var cancel context.CancelFunc
		switch c := core.Str(e, "c"); c {
		case "live":
			ctx, cancel = context.WithCancel(context.Background())
		case "canceled":
			ctx, cancel = context.WithCancel(context.Background())
			cancel()
		case "expired":
			ctx, cancel = context.WithDeadline(context.Background(), time.Now().Add(-time.Second))
		case "gated":
			ctx, cancel = context.WithCancel(context.Background())
			pt := fmt.Sprint("t", t)
			r.gate.Hold(pt)
			ctx = &gatedCtx{Context: ctx, gate: r.gate, point: pt}
			r.gated[t] = true
		default:
			panic("unknown context kind " + c)
		}
		r.cancel[t] = cancel
		r.cancelled[t] = false
		r.on[t] = core.Int(e, "l")
		r.thread(t).Go(func() any { return vnResult(l.Wait(ctx)) })
	case "Cancel":
		r.cancelled[core.Int(e, "t")] = true
		r.cancel[core.Int(e, "t")]()
	case "Release":
		t := core.Int(e, "t")
		pt := fmt.Sprint("t", t)
		r.gated[t] = false
		r.gate.Free(pt)
		if !r.gate.Release(pt) {
			panic("nobody is held at the gate of thread " + pt)
		}
	default:
		panic("unknown op " + op)
	}
	r.quiesce()
	rets := []any{}
	blocked := []int{}
	on := make([]any, vnThreads)
	for i := 1; i <= vnThreads; i++ {
		on[i-1] = 0
		th := r.threads[i]
		if th == nil {
			continue
		}
		if fin, v, pan := th.Take(); fin {
			if pan != nil {
				panic(pan)
			}
			rets = append(rets, []any{i, v})
			r.gated[i] = false
			if c := r.cancel[i]; c != nil {
				c()
				delete(r.cancel, i)
			}
		} else if th.Busy() {
			blocked = append(blocked, i)
			on[i-1] = r.on[i]
		}
	}
	return core.Ev{"id": id, "rets": rets}, core.Ev{"blocked": core.SortedInts(blocked), "on": on}
}

func (s *vnSUT) RandomCfg(rd *rand.Rand) core.Ev { return core.Ev{"nl": 8, "nv": 3} }

func (s *vnSUT) RandomStimulus(rd *rand.Rand) core.Ev {
	r := s.r
	var idle, busy, gated []int
	for i := 1; i <= vnThreads; i++ {
		if r.busy(i) && r.gated[i] {
			gated = append(gated, i)
		}
		if r.busy(i) {
			busy = append(busy, i)
		} else {
			idle = append(idle, i)
		}
	}
	n := len(r.listeners)
	nv := core.Int(r.cfg, "nv")
	for tries := 0; tries < 200; tries++ {
		switch k := rd.Intn(14); {
		case k < 3 && n < core.Int(r.cfg, "nl"):
			return core.Ev{"op": "Listener", "v": 1 + rd.Intn(nv)}
		case k < 5:
			return core.Ev{"op": "Notify", "v": 1 + rd.Intn(nv)}
		case k == 5 && n > 0:
			return core.Ev{"op": "Deregister", "l": 1 + rd.Intn(n)}
		case k < 10 && n > 0 && len(idle) > 0:
			return core.Ev{"op": "Wait", "l": 1 + rd.Intn(n), "c": core.Pick(rd, "live", "live", "live", "canceled", "expired", "gated", "gated")}
		case k >= 10 && k < 12 && len(busy) > 0:
			t := busy[rd.Intn(len(busy))]
			if r.cancelled[t] {
				continue
			}
			return core.Ev{"op": "Cancel", "t": t}
		case k >= 12 && len(gated) > 0:
			return core.Ev{"op": "Release", "t": gated[rd.Intn(len(gated))]}
		}
	}
	return core.Ev{"op": "Notify", "v": 1}
}
