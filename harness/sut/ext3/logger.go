// Package ext3 binds the X3 extension specs (spec/ext3) to the real objects: the hierarchical logger of hive.go/log,
// runtime/valuenotifier and app/shutdown.ShutdownHandler.
package ext3

import (
	"context"
	"fmt"
	"log/slog"
	"math/rand"
	"runtime"
	"sort"
	"strings"
	"sync"
	"time"

	"github.com/iotaledger/hive.go/log"

	"verifharness/core"
)

func init() { core.Register("Logger", func() core.SUT { return &lgSUT{} }) }

// capHandler is a slog.Handler that keeps every record it is given (kind "capture").
type capHandler struct {
	mu   sync.Mutex
	recs [][]any
}

func (h *capHandler) Enabled(context.Context, slog.Level) bool { return true }
func (h *capHandler) WithAttrs([]slog.Attr) slog.Handler {
	panic("WithAttrs is not used by the logger")
}
func (h *capHandler) WithGroup(string) slog.Handler { panic("WithGroup is not used by the logger") }
func (h *capHandler) Handle(_ context.Context, r slog.Record) error {
	ns, nsSeen := "", 0
	var attrs []string
	r.Attrs(func(a slog.Attr) bool {
		if a.Key == "namespace" {
			ns = a.Value.String()
			nsSeen++
		} else {
			attrs = append(attrs, a.String())
		}
		return true
	})
	if nsSeen != 1 {
		ns = fmt.Sprintf("%s<namespace attributes: %d>", ns, nsSeen)
	}
	h.mu.Lock()
	h.recs = append(h.recs, []any{log.LevelName(r.Level), ns, r.Message, strings.Join(attrs, " "), 0})
	h.mu.Unlock()
	return nil
}

// textSink is the io.Writer given to the default text handler (kind "text").
type textSink struct {
	mu    sync.Mutex
	lines []string
	part  string
}

func (t *textSink) Write(p []byte) (int, error) {
	t.mu.Lock()
	defer t.mu.Unlock()
	t.part += string(p)
	for {
		i := strings.IndexByte(t.part, '\n')
		if i < 0 {
			break
		}
		t.lines = append(t.lines, t.part[:i])
		t.part = t.part[i+1:]
	}
	return len(p), nil
}

func (t *textSink) take() []string {
	t.mu.Lock()
	defer t.mu.Unlock()
	l := t.lines
	t.lines = nil
	return l
}

const lgSentinel = "§sync"

type lgHook struct {
	count int // setups minus shutdowns
	unsub func()
}

type lgSUT struct {
	cfg     core.Ev
	kind    string
	loggers []log.Logger
	hooks   []*lgHook
	calls   [][]any
	cap     *capHandler
	sink    *textSink
	shut    bool
	early   []string // what the sink held at the moment the root's Shutdown returned
	seq     int
}

func lvlOf(i int) log.Level { return log.Level(-8 + 4*i) }
func idxOf(l log.Level) int {
	if (int(l)+8)%4 != 0 {
		return 100 + int(l)
	}
	return (int(l) + 8) / 4
}

func (s *lgSUT) Reset(cfg core.Ev) {
	if s.kind == "text" && !s.shut && len(s.loggers) > 0 {
		s.loggers[0].Shutdown() // stops the worker of the abandoned text handler
	}
	*s = lgSUT{cfg: cfg, kind: core.Str(cfg, "kind")}
	opts := log.WithName(core.Str(cfg, "root"))
	lvl := log.WithLevel(lvlOf(core.Int(cfg, "lvl")))
	switch s.kind {
	case "capture":
		s.cap = &capHandler{}
		s.loggers = []log.Logger{log.NewLogger(opts, lvl, log.WithHandler(s.cap))}
	case "text":
		s.sink = &textSink{}
		s.loggers = []log.Logger{log.NewLogger(opts, lvl, log.WithOutput(s.sink), log.WithTimeFormat("T"))}
	case "nil":
		s.loggers = []log.Logger{log.EmptyLogger}
	default:
		panic("unknown kind " + s.kind)
	}
}

// records returns what the handler received since the last call.
func (s *lgSUT) records() []any {
	out := []any{}
	switch s.kind {
	case "capture":
		s.cap.mu.Lock()
		for _, r := range s.cap.recs {
			out = append(out, r)
		}
		s.cap.recs = nil
		s.cap.mu.Unlock()
	case "text":
		var lines []string
		if s.shut {
			// the handler's worker has been shut down and drained by Shutdown: nothing is in flight
			flushStep := s.early != nil
			lines, s.early = s.early, nil
			time.Sleep(200 * time.Microsecond)
			for _, l := range s.sink.take() {
				if flushStep {
					l = "written after Shutdown returned: " + l
				}
				lines = append(lines, l)
			}
		} else {
			// the handler writes asynchronously on ONE worker in submission order: a marker record logged through the root
			// at the highest level comes out after everything that was logged before
			s.seq++
			mark := fmt.Sprintf("%s%d", lgSentinel, s.seq)
			s.loggers[0].Log(mark, log.LevelPanic)
			deadline := time.Now().Add(5 * time.Second)
			done := false
			for spins := 0; !done; spins++ {
				for _, l := range s.sink.take() {
					if strings.Contains(l, mark+" ") {
						done = true
						continue
					}
					lines = append(lines, l)
				}
				if !done {
					if time.Now().After(deadline) {
						panic("text handler: the synchronisation record logged through the root at PANIC level was not written within 5s")
					}
					if spins < 2000 {
						runtime.Gosched()
					} else {
						time.Sleep(50 * time.Microsecond)
					}
				}
			}
		}
		for _, l := range lines {
			out = append(out, parseTextLine(l))
		}
	}
	return out
}

func parseTextLine(l string) []any {
	p := strings.SplitN(l, "\t", 4)
	if len(p) != 4 {
		return []any{"malformed line: " + l, "", "", "", 0}
	}
	lvl := strings.TrimRight(p[1], " ")
	if p[0] != "T" {
		lvl = "bad time column " + p[0] + ": " + lvl
	}
	if len(p[1]) != 7 {
		lvl = fmt.Sprintf("level column of width %d: %s", len(p[1]), lvl)
	}
	msg, attrs := p[3], ""
	if i := strings.IndexByte(p[3], ' '); i >= 0 {
		msg, attrs = p[3][:i], p[3][i+1:]
	} else {
		msg = "no separator after message: " + msg
	}
	return []any{lvl, strings.TrimRight(p[2], " "), msg, attrs, len(p[2])}
}

func (s *lgSUT) emit(l log.Logger, lv int, how string) {
	L := lvlOf(lv)
	switch how {
	case "log":
		l.Log("m", L, "k", 1)
	case "logf":
		l.Logf("%s-%d", L, "m", 7)
	case "attrs":
		l.LogAttrs("m", L, slog.Int("k", 1))
	case "named":
		[]func(string, ...any){l.LogTrace, l.LogDebug, l.LogInfo, l.LogWarn, l.LogError, nil, l.LogPanic}[lv]("m", "k", 1)
	case "namedf":
		[]func(string, ...any){l.LogTracef, l.LogDebugf, l.LogInfof, l.LogWarnf, l.LogErrorf, nil, l.LogPanicf}[lv]("%s-%d", "m", 7)
	case "namedattrs":
		[]func(string, ...slog.Attr){l.LogTraceAttrs, l.LogDebugAttrs, l.LogInfoAttrs, l.LogWarnAttrs, l.LogErrorAttrs, nil, l.LogPanicAttrs}[lv]("m", slog.Int("k", 1))
	default:
		panic("unknown how " + how)
	}
}

func (s *lgSUT) Apply(e core.Ev) (any, any) {
	id, name, path, panicked := 0, "", "", false
	s.calls = nil
	switch op := core.Str(e, "op"); op {
	case "Child":
		c := s.loggers[core.Int(e, "p")-1].NewChildLogger(core.Str(e, "name"), core.Bool(e, "enum"))
		s.loggers = append(s.loggers, c)
		id, name, path = len(s.loggers), c.LogName(), c.LogPath()
	case "SetLevel":
		s.loggers[core.Int(e, "i")-1].SetLogLevel(lvlOf(core.Int(e, "lvl")))
	case "Log":
		func() {
			defer func() {
				if r := recover(); r != nil {
					if _, isRuntime := r.(interface{ RuntimeError() }); isRuntime {
						panic(r)
					}
					panicked = true
				}
			}()
			s.emit(s.loggers[core.Int(e, "i")-1], core.Int(e, "lvl"), core.Str(e, "how"))
		}()
	case "Shutdown":
		i := core.Int(e, "i")
		flush := i == 1 && s.kind == "text" && !s.shut
		if flush {
			s.loggers[0].Log("bye", log.LevelPanic) // must have been written when Shutdown returns
		}
		s.loggers[i-1].Shutdown()
		if flush {
			s.early = append([]string{}, s.sink.take()...) // no waiting: Shutdown has returned
		}
		if i == 1 {
			s.shut = true
		}
	case "Hook":
		h := &lgHook{}
		s.hooks = append(s.hooks, h)
		id = len(s.hooks)
		l := s.loggers[core.Int(e, "i")-1]
		hid := id
		h.unsub = l.OnLogLevelActive(lvlOf(core.Int(e, "lvl")), func() func() {
			h.count++
			s.calls = append(s.calls, []any{hid, "setup", idxOf(l.LogLevel())})
			return func() {
				h.count--
				s.calls = append(s.calls, []any{hid, "shutdown", idxOf(l.LogLevel())})
			}
		})
	case "Unhook":
		s.hooks[core.Int(e, "h")-1].unsub()
	default:
		panic("unknown op " + op)
	}
	recs := s.records()
	sort.SliceStable(s.calls, func(a, b int) bool { return s.calls[a][0].(int) < s.calls[b][0].(int) })
	calls := []any{}
	for _, c := range s.calls {
		calls = append(calls, c)
	}
	res := core.Ev{"id": id, "name": name, "path": path, "recs": recs, "calls": calls, "panicked": panicked}
	lgs := []any{}
	for _, l := range s.loggers {
		par := 0
		if p := l.ParentLogger(); p != nil {
			par = -1
			for j, x := range s.loggers {
				if x == p {
					par = j + 1
					break
				}
			}
		}
		lgs = append(lgs, []any{l.LogName(), l.LogPath(), idxOf(l.LogLevel()), par})
	}
	hks := []any{}
	for _, h := range s.hooks {
		hks = append(hks, h.count)
	}
	return res, core.Ev{"loggers": lgs, "hooks": hks}
}

// recorder: constants of Logger.trace.cfg
const (
	lgTraceLoggers = 6
	lgTraceHooks   = 4
)

func (s *lgSUT) RandomCfg(r *rand.Rand) core.Ev {
	return core.Ev{"kind": core.Pick(r, "capture", "capture", "text", "text", "nil"), "root": core.Pick(r, "", "r", "node"),
		"lvl": r.Intn(7)}
}

func (s *lgSUT) RandomStimulus(r *rand.Rand) core.Ev {
	n := len(s.loggers)
	for {
		switch k := r.Intn(20); {
		case k < 3 && n < lgTraceLoggers:
			return core.Ev{"op": "Child", "p": 1 + r.Intn(n), "name": core.Pick(r, "a", "b"), "enum": r.Intn(2) == 0}
		case k < 8:
			return core.Ev{"op": "SetLevel", "i": 1 + r.Intn(n), "lvl": r.Intn(7)}
		case k < 14:
			how := core.Pick(r, "log", "logf", "attrs", "named", "namedf", "namedattrs")
			lv := r.Intn(7)
			if lv == 5 && strings.HasPrefix(how, "named") {
				continue
			}
			return core.Ev{"op": "Log", "i": 1 + r.Intn(n), "lvl": lv, "how": how}
		case k == 14:
			i := 1 + r.Intn(n)
			if i == 1 && r.Intn(4) != 0 {
				continue
			}
			return core.Ev{"op": "Shutdown", "i": i}
		case k < 17 && len(s.hooks) < lgTraceHooks:
			return core.Ev{"op": "Hook", "i": 1 + r.Intn(n), "lvl": r.Intn(7)}
		case k >= 17 && len(s.hooks) > 0:
			return core.Ev{"op": "Unhook", "h": 1 + r.Intn(len(s.hooks))}
		}
	}
}
