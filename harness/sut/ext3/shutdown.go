package ext3

import (
	"bufio"
	"context"
	"encoding/json"
	"fmt"
	"log/slog"
	"math/rand"
	"os"
	"os/exec"
	"os/signal"
	"path/filepath"
	"regexp"
	"runtime"
	"strings"
	"sync"
	"syscall"
	"time"

	"github.com/iotaledger/hive.go/app/daemon"
	"github.com/iotaledger/hive.go/app/shutdown"
	"github.com/iotaledger/hive.go/log"

	"verifharness/core"
	"verifharness/sched"
)

// The ShutdownHandler calls os.Exit and listens to the signals of its process, so the real handler lives in a child process
// of the harness (`h x3sdchild`, one per history).  The child reads one JSON command per line on stdin, performs it, waits
// until the whole process is quiescent and answers on stdout: {"o": "<observation>"} lines written at the moment things
// happen (they survive an os.Exit) and a final {"done": ...} line.  The parent (sdSUT) turns that into res / st.

func init() {
	core.Register("Shutdown", func() core.SUT { return &sdSUT{} })
	core.RegisterCommand("x3sdchild", sdChild)
}

// ---------------------------------------------------------------- child

type sdOut struct {
	mu sync.Mutex
}

func (o *sdOut) line(v any) {
	b, _ := json.Marshal(v)
	o.mu.Lock()
	os.Stdout.Write(append(b, '\n'))
	o.mu.Unlock()
}

// sdDaemon is the daemon handed to the handler: ShutdownAndWait blocks until the harness lets it return.
type sdDaemon struct {
	daemon.Daemon // the other methods are not used by the handler (nil: a call would panic)
	out           *sdOut
	workers       []string
	release       chan struct{}
	mu            sync.Mutex
	waiting       bool
}

func (d *sdDaemon) GetRunningBackgroundWorkers() []string { return d.workers }
func (d *sdDaemon) Shutdown()                             { d.out.line(map[string]any{"o": "daemon:Shutdown"}) }
func (d *sdDaemon) ShutdownAndWait() {
	d.out.line(map[string]any{"o": "daemon:ShutdownAndWait"})
	d.mu.Lock()
	d.waiting = true
	d.mu.Unlock()
	<-d.release
	d.mu.Lock()
	d.waiting = false
	d.mu.Unlock()
}

// sdHandler captures the handler's log records; records of the once-a-second reporter goroutine are kept apart.
type sdHandler struct {
	out   *sdOut
	mu    sync.Mutex
	ticks []string
}

var sdRemaining = regexp.MustCompile(`\(max \d+ seconds\)`)

func (h *sdHandler) Enabled(context.Context, slog.Level) bool { return true }
func (h *sdHandler) WithAttrs([]slog.Attr) slog.Handler       { return h }
func (h *sdHandler) WithGroup(string) slog.Handler            { return h }
func (h *sdHandler) Handle(_ context.Context, r slog.Record) error {
	msg := r.Message
	if strings.HasPrefix(msg, "self-shutdown log can't be opened") {
		msg = "self-shutdown log can't be opened" // (the rest is the operating system's error text)
	}
	pcs := make([]uintptr, 32)
	n := runtime.Callers(2, pcs)
	frames := runtime.CallersFrames(pcs[:n])
	ticker := false
	for {
		f, more := frames.Next()
		if strings.Contains(f.Function, "shutdown.(*ShutdownHandler).Run.func1.1") {
			ticker = true
		}
		if !more {
			break
		}
	}
	if ticker {
		t := "tick:" + log.LevelName(r.Level) + ":" + sdRemaining.ReplaceAllString(msg, "(max N seconds)")
		if r.Level >= log.LevelFatal {
			// the process is about to exit: report right away
			h.out.line(map[string]any{"o": t})
			return nil
		}
		h.mu.Lock()
		h.ticks = append(h.ticks, t)
		h.mu.Unlock()
		return nil
	}
	h.out.line(map[string]any{"o": "log:" + log.LevelName(r.Level) + ":" + msg})
	return nil
}

func sdPaths(logs string) (enabled bool, path string) {
	switch logs {
	case "off":
		return false, "unused/shutdown.log"
	case "file":
		return true, "shutdown.log"
	case "dir":
		return true, "logs/sub/shutdown.log"
	case "baddir":
		return true, "blocker/sub/shutdown.log"
	case "isdir":
		return true, "shutdown.log"
	}
	panic("unknown logs " + logs)
}

func sdChild(args []string) int {
	in := bufio.NewReader(os.Stdin)
	out := &sdOut{}
	readCmd := func() core.Ev {
		line, err := in.ReadString('\n')
		if err != nil {
			os.Exit(0) // the parent is gone
		}
		var c core.Ev
		if err := json.Unmarshal([]byte(line), &c); err != nil {
			panic(err)
		}
		return c
	}
	cfg := readCmd()
	logs := core.Str(cfg, "logs")
	enabled, path := sdPaths(logs)
	switch logs {
	case "baddir":
		if err := os.WriteFile("blocker", []byte("x"), 0o600); err != nil {
			panic(err)
		}
	case "isdir":
		if err := os.Mkdir("shutdown.log", 0o700); err != nil {
			panic(err)
		}
	}
	mine := make(chan os.Signal, 8)
	signal.Notify(mine, syscall.SIGTERM, syscall.SIGINT)
	h := &sdHandler{out: out}
	lvl := log.LevelInfo
	if core.Str(cfg, "lvl") == "error" {
		lvl = log.LevelError
	}
	logger := log.NewLogger(log.WithName("app"), log.WithLevel(lvl), log.WithHandler(h))
	d := &sdDaemon{out: out, release: make(chan struct{}, 1)}
	if core.Int(cfg, "workers") == 2 {
		d.workers = []string{"w1", "w2"}
	}
	sh := shutdown.NewShutdownHandler(logger, d,
		shutdown.WithStopGracePeriod(time.Duration(core.Int(cfg, "grace"))*time.Second),
		shutdown.WithSelfShutdownLogsEnabled(enabled), shutdown.WithSelfShutdownLogsFilePath(path))
	fileLines := func() []any {
		lines := []any{}
		b, err := os.ReadFile(path)
		if err != nil {
			return lines
		}
		for _, l := range strings.Split(strings.TrimRight(string(b), "\n"), "\n") {
			if l == "" {
				continue
			}
			// "<RFC3339 time>: <message>"
			if i := strings.Index(l, ": "); i > 0 {
				if _, err := time.Parse(time.RFC3339, l[:i]); err == nil {
					lines = append(lines, l[i+2:])
					continue
				}
			}
			lines = append(lines, "malformed: "+l)
		}
		return lines
	}
	sh.Events.AppSelfShutdown.Hook(func(msg string, critical bool) {
		out.line(map[string]any{"o": fmt.Sprintf("event:self:%s:%v:file=%d", msg, critical, len(fileLines()))})
	})
	sh.Events.AppShutdown.Hook(func() { out.line(map[string]any{"o": "event:shutdown"}) })
	time.Sleep(time.Millisecond)
	sched.IgnoreCurrentNonBlocked()
	out.line(map[string]any{"ready": true})
	ticksSeen := 0
	for {
		c := readCmd()
		errStr := ""
		switch op := core.Str(c, "op"); op {
		case "Run":
			if err := sh.Run(); err != nil {
				errStr = "mkdir"
			}
		case "RunSelf":
			// Run() and the request back to back on one goroutine, with a single P: the goroutine that Run starts has not
			// been scheduled when SelfShutdown is called
			prev := runtime.GOMAXPROCS(1)
			if err := sh.Run(); err != nil {
				errStr = "mkdir"
			}
			sh.SelfShutdown(core.Str(c, "m"), core.Bool(c, "c"))
			runtime.GOMAXPROCS(prev)
		case "SelfShutdown":
			sh.SelfShutdown(core.Str(c, "m"), core.Bool(c, "c"))
		case "Signal":
			sig := syscall.SIGTERM
			if core.Str(c, "sig") == "INT" {
				sig = syscall.SIGINT
			}
			if err := syscall.Kill(os.Getpid(), sig); err != nil {
				panic(err)
			}
			select {
			case <-mine: // the runtime has distributed the signal to the registered channels
			case <-time.After(5 * time.Second):
				panic("the signal did not arrive")
			}
			time.Sleep(2 * time.Millisecond)
		case "DaemonDone":
			d.release <- struct{}{}
		case "Tick":
			deadline := time.Now().Add(6 * time.Second)
			for {
				h.mu.Lock()
				n := len(h.ticks)
				var last string
				if n > 0 {
					last = h.ticks[n-1]
				}
				h.mu.Unlock()
				if n > ticksSeen {
					ticksSeen = n
					out.line(map[string]any{"o": last})
					break
				}
				if time.Now().After(deadline) {
					out.line(map[string]any{"o": "tick:none within 6s"})
					break
				}
				time.Sleep(5 * time.Millisecond)
			}
		default:
			panic("unknown op " + op)
		}
		if !sched.QuiesceOpt(5*time.Second, 3, true) {
			out.line(map[string]any{"o": "harness: process not quiescent within 5s"})
		}
		h.mu.Lock()
		if core.Str(c, "op") != "Tick" {
			ticksSeen = len(h.ticks) // reports that came while other calls were made are not what a later Tick waits for
		}
		h.mu.Unlock()
		_, derr := os.Stat(filepath.Dir(path))
		d.mu.Lock()
		waiting := d.waiting
		d.mu.Unlock()
		out.line(map[string]any{"done": true, "err": errStr, "file": fileLines(), "dir": derr == nil && filepath.Dir(path) != ".", "waiting": waiting})
	}
}

// ---------------------------------------------------------------- parent

type sdSUT struct {
	cfg   core.Ev
	cmd   *exec.Cmd
	stdin *bufio.Writer
	out   *bufio.Reader
	dir   string
	dead  bool
	last  core.Ev // last st of a living child
	// recorder bookkeeping (what the model's guards need)
	phase   string
	pending int
}

func (s *sdSUT) kill() {
	if s.cmd != nil {
		_ = s.cmd.Process.Kill()
		_ = s.cmd.Wait()
		s.cmd = nil
	}
	if s.dir != "" {
		_ = os.RemoveAll(s.dir)
		s.dir = ""
	}
}

func (s *sdSUT) Reset(cfg core.Ev) {
	s.kill()
	*s = sdSUT{cfg: cfg, phase: "new"}
	dir, err := os.MkdirTemp("", "x3sd-")
	if err != nil {
		panic(err)
	}
	s.dir = dir
	exe, err := os.Executable()
	if err != nil {
		panic(err)
	}
	s.cmd = exec.Command(exe, "x3sdchild")
	s.cmd.Dir = dir
	s.cmd.Stderr = os.Stderr
	in, _ := s.cmd.StdinPipe()
	outp, _ := s.cmd.StdoutPipe()
	if err := s.cmd.Start(); err != nil {
		panic(err)
	}
	s.stdin, s.out = bufio.NewWriter(in), bufio.NewReader(outp)
	s.send(cfg)
	if m, eof := s.read(); eof || m["ready"] != true {
		panic(fmt.Sprint("child did not start: ", m))
	}
	s.last = core.Ev{"file": []any{}, "dir": false, "waiting": false, "alive": true}
}

func (s *sdSUT) send(v any) {
	b, _ := json.Marshal(v)
	s.stdin.Write(append(b, '\n'))
	s.stdin.Flush()
}

func (s *sdSUT) read() (core.Ev, bool) {
	type res struct {
		line string
		err  error
	}
	ch := make(chan res, 1)
	go func() { l, e := s.out.ReadString('\n'); ch <- res{l, e} }()
	select {
	case r := <-ch:
		if r.err != nil {
			return nil, true
		}
		var m core.Ev
		if err := json.Unmarshal([]byte(r.line), &m); err != nil {
			panic("child wrote " + r.line)
		}
		return m, false
	case <-time.After(20 * time.Second):
		panic("child does not answer")
	}
}

func (s *sdSUT) Dead() bool { return s.dead }

func (s *sdSUT) Apply(e core.Ev) (any, any) {
	if s.dead {
		panic("the process has exited")
	}
	s.send(e)
	obs := []any{}
	for {
		m, eof := s.read()
		if eof {
			err := s.cmd.Wait()
			code := 0
			if ee, ok := err.(*exec.ExitError); ok {
				code = ee.ExitCode()
			} else if err != nil {
				code = -2
			}
			s.cmd = nil
			s.dead = true
			s.phase = "exited"
			// the files outlive the process
			file := []any{}
			_, path := sdPaths(core.Str(s.cfg, "logs"))
			if b, err := os.ReadFile(filepath.Join(s.dir, path)); err == nil {
				for _, l := range strings.Split(strings.TrimRight(string(b), "\n"), "\n") {
					if i := strings.Index(l, ": "); i > 0 {
						file = append(file, l[i+2:])
					}
				}
			}
			return core.Ev{"err": "", "obs": obs, "exit": code}, core.Ev{"file": file, "dir": s.last["dir"], "waiting": false, "alive": false}
		}
		if o, ok := m["o"]; ok {
			obs = append(obs, o)
			continue
		}
		if m["done"] == true {
			st := core.Ev{"file": m["file"], "dir": m["dir"], "waiting": m["waiting"], "alive": true}
			s.last = st
			s.track(e, m, obs)
			return core.Ev{"err": m["err"], "obs": obs, "exit": -1}, st
		}
	}
}

// track keeps what the recorder needs to stay inside the stimuli the model offers.
func (s *sdSUT) track(e core.Ev, m core.Ev, obs []any) {
	began := false
	for _, o := range obs {
		if o == "daemon:ShutdownAndWait" {
			began = true
		}
	}
	op := core.Str(e, "op")
	switch {
	case began:
		s.phase = "stopping"
		s.pending = 0
	case (op == "Run" || op == "RunSelf") && m["err"] == "mkdir":
		s.phase = "failed"
	case op == "Run" || op == "RunSelf":
		s.phase = "wait"
		s.pending = 0
	case op == "DaemonDone":
		s.phase = "stopped"
	}
	if (op == "SelfShutdown" || op == "RunSelf") && (s.phase == "new" || s.phase == "failed") {
		s.pending++
	}
}

func (s *sdSUT) RandomCfg(r *rand.Rand) core.Ev {
	return core.Ev{"grace": core.Pick(r, 0, 7, 7, 300, 300, 300, 300, 300), "logs": core.Pick(r, "off", "file", "file", "dir", "baddir", "isdir"),
		"lvl": core.Pick(r, "info", "info", "error"), "workers": core.Pick(r, 0, 2)}
}

func (s *sdSUT) RandomStimulus(r *rand.Rand) core.Ev {
	stopping := s.phase == "stopping" || s.phase == "stopped"
	tickOK := stopping && (core.Int(s.cfg, "grace") == 0 || core.Str(s.cfg, "lvl") == "info")
	if stopping && core.Int(s.cfg, "grace") == 0 {
		return core.Ev{"op": "Tick"}
	}
	for {
		switch k := r.Intn(16); {
		case k < 3 && s.phase == "new":
			return core.Ev{"op": "Run"}
		case k == 3 && s.phase == "new":
			return core.Ev{"op": "RunSelf", "m": core.Pick(r, "m1", "m2"), "c": r.Intn(3) == 0}
		case k < 8:
			return core.Ev{"op": "SelfShutdown", "m": core.Pick(r, "m1", "m2"), "c": r.Intn(3) == 0}
		case k < 11:
			return core.Ev{"op": "Signal", "sig": core.Pick(r, "TERM", "INT")}
		case k < 15 && s.phase == "stopping":
			return core.Ev{"op": "DaemonDone"}
		case k == 15 && tickOK && r.Intn(6) == 0:
			return core.Ev{"op": "Tick"}
		}
	}
}
