package timed

import (
	"fmt"
	"runtime"
	"sync/atomic"
	"time"

	hive "github.com/iotaledger/hive.go/runtime/timed"

	"verifharness/core"
	"verifharness/sched"
)

func init() { core.RegisterCommand("c18probe", probe) }

func probe(args []string) int {
	gate := sched.NewGate()
	hive.VerifHook = func(p string) { gate.Wait(p) }

	// P1
	{
		te := hive.NewTaskExecutor[int](1)
		var ran [4]atomic.Int32
		gate.Hold("cb1")
		te.ExecuteAt(1, func() { ran[1].Add(1); gate.Wait("cb1") }, time.Now())
		sched.Quiesce(time.Second)
		te.ExecuteAt(1, func() { ran[2].Add(1) }, time.Now().Add(time.Hour))
		c := te.Cancel(1) // k1 is running, k2 pending -> should be true and prevent k2
		fmt.Println("P1a cancel during running cb (k2 pending):", c, "size", te.Size())
		te.ExecuteAt(1, func() { ran[2].Add(1) }, time.Now().Add(time.Hour))
		gate.Release("cb1")
		sched.Quiesce(time.Second)
		fmt.Println("P1b after release, size", te.Size(), "cancel(1) =", te.Cancel(1), "size", te.Size())
		te.ExecuteAt(1, func() { ran[2].Add(1) }, time.Now().Add(time.Hour))
		te.ExecuteAt(1, func() { ran[3].Add(1) }, time.Now().Add(time.Hour))
		sched.Quiesce(time.Second)
		fmt.Println("P1c two schedules of same id -> size", te.Size())
		te.Shutdown(hive.CancelPendingElements)
	}
	// P1d: cancel during running callback with nothing else pending
	{
		te := hive.NewTaskExecutor[int](1)
		gate.Hold("cb1")
		te.ExecuteAt(1, func() { gate.Wait("cb1") }, time.Now())
		sched.Quiesce(time.Second)
		fmt.Println("P1d cancel(1) while its callback runs, nothing pending:", te.Cancel(1))
		gate.Release("cb1")
		te.Shutdown(hive.CancelPendingElements)
	}
	// P2: select race
	{
		deliv := 0
		for i := 0; i < 20; i++ {
			ex := hive.NewExecutor(1)
			gate.Hold("poll-after-pop")
			var ran atomic.Int32
			el := ex.ExecuteAt(func() { ran.Add(1) }, time.Now().Add(20*time.Millisecond))
			sched.Quiesce(time.Second)
			el.Cancel()
			time.Sleep(30 * time.Millisecond)
			gate.ReleaseAll()
			time.Sleep(5 * time.Millisecond)
			if ran.Load() > 0 {
				deliv++
			}
			ex.Shutdown(hive.CancelPendingElements)
		}
		fmt.Println("P2 cancelled-before-time elements delivered:", deliv, "/ 20")
	}
	// P3: add / shutdown window
	{
		ex := hive.NewExecutor(1)
		gate.Hold("add-after-shutdown-check")
		var ran atomic.Int32
		var el *hive.ScheduledTask
		done := make(chan struct{})
		go func() { el = ex.ExecuteAt(func() { ran.Add(1) }, time.Now()); close(done) }()
		sched.Quiesce(time.Second)
		ex.Shutdown()
		gate.ReleaseAll()
		<-done
		time.Sleep(20 * time.Millisecond)
		fmt.Println("P3 add accepted:", el != nil, "ran:", ran.Load(), "size", ex.Size())
	}
	// P4: lost broadcast
	{
		old := runtime.GOMAXPROCS(1)
		ex := hive.NewExecutor(2)
		time.Sleep(10 * time.Millisecond)
		var ran atomic.Int32
		ret := make(chan struct{})
		go func() {
			ex.ExecuteAt(func() { ran.Add(1) }, time.Now())
			ex.Shutdown()
			close(ret)
		}()
		select {
		case <-ret:
			fmt.Println("P4 shutdown returned, ran", ran.Load())
		case <-time.After(2 * time.Second):
			fmt.Println("P4 shutdown HUNG, ran", ran.Load())
		}
		runtime.GOMAXPROCS(old)
	}
	return 0
}
