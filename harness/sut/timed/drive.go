// Package timed binds runtime/timed (property C18) to its TLA+ modules.
//
// drive.go: command `timeddrive` - recorded executions of the REAL Executor / TaskExecutor with monotonic time
// stamps (µs since the start of the trace), validated by TLC against spec/timed/Timed.tla (now' = ts).
// Forced schedules are hand transcriptions of TLC counterexamples of spec/timed/TimedImpl.tla and
// TaskExecImpl.tla (named in the comments); free-running scenarios run in parallel goroutines.
// Scheduled times are multiples of a coarse unit; only claims that are exact by construction are checked
// on the stamps; a run during which the process itself was not scheduled for longer than one
// unit (the end-of-run quiet window is three units) is discarded (never an alarm).
package timed

import (
	"bufio"
	"encoding/json"
	"flag"
	"fmt"
	"math/rand"
	"os"
	"runtime"
	"sync"
	"sync/atomic"
	"time"

	hive "github.com/iotaledger/hive.go/runtime/timed"

	"verifharness/core"
	"verifharness/sched"
)

func init() { core.RegisterCommand("timeddrive", drive) }

const (
	unit       = 40 * time.Millisecond
	stallBound = 2 * time.Second
)

// tlog is the single event log of one run; the time stamp is taken inside the mutex, so stamps are
// non-decreasing in log order.
type tlog struct {
	mu   sync.Mutex
	base time.Time
	evs  []core.Ev
	nadd int
	last time.Time
}

func (l *tlog) add(e core.Ev) {
	l.mu.Lock()
	now := time.Now()
	e["ts"] = int(now.Sub(l.base) / time.Microsecond)
	l.evs = append(l.evs, e)
	l.last = now
	l.mu.Unlock()
}

// addNew logs the `add` event of a new element and returns its number (numbers follow the log order).
func (l *tlog) addNew(key int, at time.Duration) int {
	l.mu.Lock()
	defer l.mu.Unlock()
	l.nadd++
	now := time.Now()
	l.evs = append(l.evs, core.Ev{"op": "add", "k": l.nadd, "key": key, "at": int(at / time.Microsecond), "ts": int(now.Sub(l.base) / time.Microsecond)})
	l.last = now
	return l.nadd
}

func (l *tlog) quietFor() time.Duration {
	l.mu.Lock()
	defer l.mu.Unlock()
	return time.Since(l.last)
}

type run struct {
	name    string
	lg      *tlog
	cfg     core.Ev
	ex      *hive.Executor
	te      *hive.TaskExecutor[int]
	gate    *sched.Gate // callback gates of this run
	mu      sync.Mutex
	handles map[int]*hive.ScheduledTask
	threads map[int]chan struct{}
	maxAt   time.Duration
	ndeliv  atomic.Int32
	book    map[int]*elBook // the driver's own idea of what is still owed (only used to decide how long to wait at the end)
	sdDrop  bool
}

type elBook struct {
	key            int
	accepted, gone bool // gone: delivered, cancelled or replaced
}

// owed counts accepted elements that have neither run nor been cancelled / replaced / dropped by a cancel-flag shutdown.
func (r *run) owed() int {
	r.mu.Lock()
	defer r.mu.Unlock()
	if r.sdDrop {
		return 0
	}
	n := 0
	for _, b := range r.book {
		if b.accepted && !b.gone {
			n++
		}
	}
	return n
}

func (r *run) mark(f func()) { r.mu.Lock(); f(); r.mu.Unlock() }

func newRun(name, kind string, workers, maxsize int) *run {
	r := &run{name: name, lg: &tlog{}, gate: sched.NewGate(), handles: map[int]*hive.ScheduledTask{}, threads: map[int]chan struct{}{},
		book: map[int]*elBook{}, cfg: core.Ev{"kind": kind, "workers": workers, "maxsize": maxsize}}
	if kind == "task" {
		r.te = hive.NewTaskExecutor[int](workers, hive.WithMaxQueueSize(maxsize))
		r.ex = r.te.Executor
	} else {
		r.ex = hive.NewExecutor(workers, hive.WithMaxQueueSize(maxsize))
	}
	r.lg.base = time.Now()
	r.lg.last = r.lg.base
	return r
}

func (r *run) goThread(id int, f func()) {
	ch := make(chan struct{})
	r.mu.Lock()
	r.threads[id] = ch
	r.mu.Unlock()
	go func() { defer close(ch); f() }()
}

func (r *run) join(id int, max time.Duration) bool {
	r.mu.Lock()
	ch := r.threads[id]
	r.mu.Unlock()
	select {
	case <-ch:
		return true
	case <-time.After(max):
		return false
	}
}

func waitParked(g *sched.Gate, p string) bool {
	for i := 0; i < 2000; i++ {
		if g.Parked(p) > 0 {
			return true
		}
		time.Sleep(500 * time.Microsecond)
	}
	return false
}

func cbPoint(k int) string { return fmt.Sprintf("cb-%d", k) }

// add schedules a new element at base+at (key 0: Executor.ExecuteAt, else TaskExecutor.ExecuteAt(key)).
// The callback logs `deliver`, parks at its gate if held, sleeps if asked, logs `cbEnd`.
func (r *run) add(key int, at time.Duration, hold bool, sleep time.Duration) int {
	k := r.lg.addNew(key, at)
	if hold {
		r.gate.Hold(cbPoint(k))
	}
	r.mu.Lock()
	if at > r.maxAt {
		r.maxAt = at
	}
	r.book[k] = &elBook{key: key}
	r.mu.Unlock()
	cb := func() {
		r.lg.add(core.Ev{"op": "deliver", "k": k})
		r.ndeliv.Add(1)
		r.mark(func() { r.book[k].gone = true })
		r.gate.Wait(cbPoint(k))
		if sleep > 0 {
			time.Sleep(sleep)
		}
		r.lg.add(core.Ev{"op": "cbEnd", "k": k})
	}
	when := r.lg.base.Add(at)
	var h *hive.ScheduledTask
	if key == 0 {
		h = r.ex.ExecuteAt(cb, when)
	} else {
		h = r.te.ExecuteAt(key, cb, when)
	}
	r.mu.Lock()
	r.handles[k] = h
	r.book[k].accepted = h != nil
	if key != 0 {
		for j, b := range r.book {
			if j < k && b.key == key {
				b.gone = true // replaced (or released by a refused replacement)
			}
		}
	}
	r.mu.Unlock()
	r.lg.add(core.Ev{"op": "addEnd", "k": k, "ok": h != nil})
	return k
}

func (r *run) cancel(k int) {
	r.mu.Lock()
	h := r.handles[k]
	r.mu.Unlock()
	if h == nil {
		return
	}
	h.Cancel()
	r.mark(func() { r.book[k].gone = true })
	r.lg.add(core.Ev{"op": "cancelEnd", "k": k})
}

func (r *run) kcancel(t, key int) bool {
	r.lg.add(core.Ev{"op": "kcancel", "t": t, "key": key})
	res := r.te.Cancel(key)
	if res {
		r.mark(func() {
			for _, b := range r.book {
				if b.key == key {
					b.gone = true
				}
			}
		})
	}
	r.lg.add(core.Ev{"op": "kcancelEnd", "t": t, "key": key, "res": res})
	return res
}

func (r *run) shutdown(cancel, ignore, wait bool) {
	var fl []hive.ShutdownFlag
	if cancel {
		fl = append(fl, hive.CancelPendingElements)
	}
	if ignore {
		fl = append(fl, hive.IgnorePendingTimeouts)
	}
	if !wait {
		fl = append(fl, hive.DontWaitForShutdown)
	}
	if cancel {
		r.mark(func() { r.sdDrop = true })
	}
	r.lg.add(core.Ev{"op": "sdBegin", "cancel": cancel, "ignore": ignore, "wait": wait})
	r.ex.Shutdown(fl...)
	r.lg.add(core.Ev{"op": "sdEnd"})
}

func (r *run) sleepUntil(at time.Duration) { time.Sleep(time.Until(r.lg.base.Add(at))) }
func (r *run) since() time.Duration        { return time.Since(r.lg.base) }

// finish waits until the latest scheduled time has passed, every element that is still owed has run and the log has been
// quiet for two units (all bounded by the stall bound), reports threads that did not return, and emits the trace.
func (r *run) finish(out *output) (kept bool) {
	r.mu.Lock()
	maxAt := r.maxAt
	ids := make([]int, 0, len(r.threads))
	for id := range r.threads {
		ids = append(ids, id)
	}
	r.mu.Unlock()
	r.sleepUntil(maxAt + unit/2)
	deadline := time.Now().Add(stallBound)
	hung := []int{}
	for _, id := range ids {
		if !r.join(id, time.Until(deadline)) {
			hung = append(hung, id)
		}
	}
	// everything the driver believes is owed has run (a size bound may drop some: then a quiet log decides), or the stall bound passed
	maxsize := core.Int(r.cfg, "maxsize")
	for time.Now().Before(deadline) {
		if o := r.owed(); o == 0 || (maxsize > 0 && r.lg.quietFor() > 6*unit) {
			break
		}
		time.Sleep(unit / 8)
	}
	for r.lg.quietFor() < 2*unit && time.Now().Before(deadline) { // nothing else (a second delivery...) shows up
		time.Sleep(unit / 4)
	}
	r.lg.add(core.Ev{"op": "final", "hung": core.SortedInts(hung)})
	// let whatever is still parked go, and end the executor if the scenario did not (best effort, not part of the trace)
	r.gate.ReleaseAll()
	r.mu.Lock()
	hs := r.handles
	r.handles = map[int]*hive.ScheduledTask{}
	r.mu.Unlock()
	for _, h := range hs {
		if h != nil {
			h.Cancel()
		}
	}
	go r.ex.Shutdown(hive.CancelPendingElements, hive.DontWaitForShutdown)
	r.lg.mu.Lock()
	evs := r.lg.evs
	r.lg.mu.Unlock()
	return out.emit(r, evs, len(hung))
}

// output serialises finished runs; a stall watchdog decides whether a run's own timing was disturbed.
type output struct {
	mu        sync.Mutex
	enc       *json.Encoder
	traces    int
	hangs     int
	discarded int
	events    int
	wd        *watchdog
}

func (o *output) emit(r *run, evs []core.Ev, hung int) (kept bool) {
	o.mu.Lock()
	defer o.mu.Unlock()
	if gap := o.wd.maxGapSince(r.lg.base); gap > unit {
		o.discarded++ // the process itself was not scheduled for a while: the run's margins are void
		return false
	}
	_ = o.enc.Encode(core.Ev{"op": "reset", "cfg": r.cfg})
	_ = o.enc.Encode(core.Ev{"op": "note", "name": r.name})
	for _, e := range evs {
		_ = o.enc.Encode(e)
	}
	o.traces++
	o.hangs += hung
	o.events += len(evs) + 2
	return true
}

// watchdog measures how late a 2 ms ticker is served: a large gap means the process (or machine) stalled.
type watchdog struct {
	mu   sync.Mutex
	last time.Time
	gaps []struct {
		at  time.Time
		gap time.Duration
	}
	stop chan struct{}
}

func newWatchdog() *watchdog {
	w := &watchdog{stop: make(chan struct{})}
	go func() {
		last := time.Now()
		for {
			select {
			case <-w.stop:
				return
			default:
			}
			time.Sleep(2 * time.Millisecond)
			now := time.Now()
			w.mu.Lock()
			if g := now.Sub(last); g > 10*time.Millisecond {
				w.gaps = append(w.gaps, struct {
					at  time.Time
					gap time.Duration
				}{now, g})
			}
			w.last = now
			w.mu.Unlock()
			last = now
		}
	}()
	return w
}

func (w *watchdog) maxGapSince(t time.Time) time.Duration {
	w.mu.Lock()
	defer w.mu.Unlock()
	m := time.Since(w.last) // a stall that is still going on
	if w.last.IsZero() {
		m = 0
	}
	for _, g := range w.gaps {
		if g.at.After(t) && g.gap > m {
			m = g.gap
		}
	}
	return m
}

func drive(args []string) int {
	fs := flag.NewFlagSet("timeddrive", flag.ExitOnError)
	seed := fs.Int64("seed", 1, "")
	traces := fs.Int("traces", 24, "free-running scenarios")
	reps := fs.Int("reps", 6, "repetitions of the forced schedules that depend on a select choice")
	forced := fs.Bool("forced", true, "")
	outp := fs.String("out", "", "")
	_ = fs.Parse(args)
	f, err := os.Create(*outp)
	if err != nil {
		fmt.Fprintln(os.Stderr, err)
		return 2
	}
	defer f.Close()
	w := bufio.NewWriter(f)
	defer w.Flush()
	out := &output{enc: json.NewEncoder(w), wd: newWatchdog()}
	rng := rand.New(rand.NewSource(*seed))

	if *forced {
		// phase 1: schedules that need the package-wide yield hook or GOMAXPROCS(1) - one at a time
		hook := sched.NewGate()
		hive.VerifHook = func(p string) { hook.Wait(p) }
		for i := 0; i < *reps; i++ {
			for try := 0; try < 3 && !forcedSelectRace(out, hook, i%2 == 1); try++ {
			}
		}
		for i := 0; i < *reps; i++ {
			for try := 0; try < 3 && !forcedStaleTick(out, hook); try++ {
			}
		}
		for try := 0; try < 3 && !forcedAddWindow(out, hook); try++ {
		}
		for try := 0; try < 3 && !forcedReplaceWhileStarting(out, hook); try++ {
		}
		hive.VerifHook = nil
		for i := 0; i < 3; i++ {
			if forcedLostWakeup(out) {
				break
			}
		}
		for try := 0; try < 3 && !forcedBurstAdd(out); try++ {
		}
	}
	// phase 2: everything else in parallel (callback gates are per run)
	var wg sync.WaitGroup
	sem := make(chan struct{}, 12)
	spawn := func(f func() bool) {
		wg.Add(1)
		sem <- struct{}{}
		go func() {
			defer wg.Done()
			defer func() { <-sem }()
			for try := 0; try < 3 && !f(); try++ { // a discarded run (process stalled) is repeated
			}
		}()
	}
	if *forced {
		for _, v := range []string{"cancel-false", "two-pending", "cancel-true-running", "cancel-true-running-pending"} {
			v := v
			spawn(func() bool { return forcedReschedule(out, v) })
		}
		for i := 0; i < *reps; i++ {
			spawn(func() bool { return forcedCancelWhileBusy(out) })
		}
		for _, wk := range []int{1, 2} {
			for fl := 0; fl < 4; fl++ {
				wk, fl := wk, fl
				spawn(func() bool { return forcedShutdownFlags(out, wk, fl&1 != 0, fl&2 != 0) })
			}
		}
		spawn(func() bool { return forcedMaxSize(out) })
	}
	for i := 0; i < *traces; i++ {
		s := rng.Int63()
		i := i
		spawn(func() bool { return freeRun(out, rand.New(rand.NewSource(s)), i) })
	}
	wg.Wait()
	close(out.wd.stop)
	fmt.Printf("{\"traces\": %d, \"events\": %d, \"hangs\": %d, \"discarded\": %d}\n", out.traces, out.events, out.hangs, out.discarded)
	if out.traces == 0 {
		fmt.Fprintln(os.Stderr, "every run was discarded (machine too busy)")
		return 2
	}
	return 0
}

// forcedSelectRace - TimedImpl.select_race counterexample: Add(e, t+1); the poller pops e and creates its timer, is held
// before the select; Cancel(e) returns before t+1; the clock passes t+1 (timer fires); the poller goes on: the select
// sees both the cancel channel and the timer ready.  With ignore = true the same with an ignore-timeouts Shutdown
// in place of the timer.
func forcedSelectRace(out *output, hook *sched.Gate, ignore bool) bool {
	r := newRun("forced-select-race", "exec", 1, 0)
	hook.Hold("poll-before-select")
	k := r.add(0, r.since()+unit, false, 0)
	waitParked(hook, "poll-before-select") // the worker has popped the element, created its timer and is parked at the yield point
	r.cancel(k)
	if ignore {
		r.goThread(1, func() { r.shutdown(false, true, true) })
		time.Sleep(unit / 4)
	} else {
		r.sleepUntil(r.maxAt + unit/4)
	}
	hook.ReleaseAll()
	return r.finish(out)
}

// forcedStaleTick: the worker has popped a due-soon element X and is parked right before its select; a second element Y is
// queued for much later; X is cancelled and its time passes (cancel and timer are both ready when the worker goes on: the
// select picks one at random, hence the repetitions).  Whichever way X is dropped, Y must not be delivered before its time.
func forcedStaleTick(out *output, hook *sched.Gate) bool {
	r := newRun("forced-stale-tick", "exec", 1, 0)
	hook.Hold("poll-before-select")
	k := r.add(0, r.since()+unit, false, 0)
	waitParked(hook, "poll-before-select")
	hook.Free("poll-before-select") // (only this visit is held: the worker's next look at the queue passes)
	r.add(0, r.since()+8*unit, false, 0)
	r.cancel(k)
	time.Sleep(unit + unit/4) // X's time has passed: its timer has fired
	hook.ReleaseAll()
	return r.finish(out)
}

// forcedAddWindow - TimedImpl.add_unguarded counterexample: Add passes its shutdown check, Shutdown() runs to the end
// (workers leave), Add pushes: the element was accepted and is never delivered.
func forcedAddWindow(out *output, hook *sched.Gate) bool {
	r := newRun("forced-add-window", "exec", 1, 0)
	hook.Hold("add-after-shutdown-check")
	r.goThread(1, func() { r.add(0, r.since(), false, 0) })
	waitParked(hook, "add-after-shutdown-check")
	r.goThread(2, func() { r.shutdown(false, false, true) })
	r.join(2, 3*unit)
	hook.ReleaseAll()
	return r.finish(out)
}

// forcedReplaceWhileStarting: task A of identifier 1 is due, has left the queue and stands at the start of its wrapper
// (yield point taskexec-wrapper-start, before the executor's mutex); ExecuteAt(1, B) runs to the end meanwhile: B is the
// tracked task of the identifier now. A goes on: it was replaced before its callback began and must not run; B must.
func forcedReplaceWhileStarting(out *output, hook *sched.Gate) bool {
	r := newRun("forced-replace-while-starting", "task", 1, 0)
	hook.Hold("taskexec-wrapper-start")
	r.add(1, r.since(), false, 0) // A, due at once
	ok := waitParked(hook, "taskexec-wrapper-start")
	hook.Free("taskexec-wrapper-start") // (B's wrapper passes; A stays parked until it is released)
	r.add(1, r.since()+2*unit, false, 0) // B replaces A
	hook.ReleaseAll()
	return r.finish(out) && ok
}

// forcedBurstAdd: three idle workers; two far-future elements are added back to back by one goroutine under GOMAXPROCS(1)
// (no worker runs between the two Adds); a little later a due element is added. Two workers have nothing to wait for: the
// due element has to be delivered promptly, not when a far-future timer happens to fire. After 25 units the driver logs `probe`.
func forcedBurstAdd(out *output) bool {
	old := runtime.GOMAXPROCS(1)
	r := newRun("forced-burst-add", "exec", 3, 0)
	time.Sleep(5 * time.Millisecond) // the workers reach their wait
	var far1, far2 int
	r.goThread(1, func() {
		far1 = r.add(0, r.since()+3000*unit, false, 0)
		far2 = r.add(0, r.since()+3001*unit, false, 0)
	})
	r.join(1, stallBound/2)
	runtime.GOMAXPROCS(old)
	time.Sleep(10 * time.Millisecond) // one worker waits for the first far-future element, the second one is queued
	r.add(0, r.since(), false, 0)     // a due element: an idle worker has to take it
	time.Sleep(25 * unit)
	r.lg.add(core.Ev{"op": "probe", "slack": int64(20 * unit / time.Microsecond)})
	r.cancel(far1)
	r.cancel(far2)
	r.mu.Lock()
	r.maxAt = r.since()
	r.mu.Unlock()
	return r.finish(out)
}

// forcedLostWakeup - TimedImpl.broadcast_if_empty counterexample: two idle workers wait for elements; Add wakes one;
// Shutdown runs before the woken worker has taken the element (GOMAXPROCS(1): nobody else runs in between): the heap
// is not empty, nobody wakes the second worker, Executor.Shutdown waits for it for ever.
func forcedLostWakeup(out *output) (hung bool) {
	old := runtime.GOMAXPROCS(1)
	r := newRun("forced-lost-wakeup", "exec", 2, 0)
	time.Sleep(5 * time.Millisecond) // both workers reach waitCond.Wait()
	r.goThread(1, func() {
		r.add(0, r.since(), false, 0)
		r.shutdown(false, false, true)
	})
	ok := r.join(1, stallBound/2)
	runtime.GOMAXPROCS(old)
	before := out.hangs
	r.finish(out)
	return !ok || out.hangs > before
}

// forcedReschedule - TaskExecImpl.delete_after_* counterexamples: identifier 1 is scheduled again / cancelled while
// its previous callback is still running (the callback is the gate).
func forcedReschedule(out *output, variant string) bool {
	r := newRun("forced-reschedule-"+variant, "task", 1, 0)
	k1 := r.add(1, r.since(), true, 0)
	for i := 0; i < 200 && r.ndeliv.Load() == 0; i++ {
		time.Sleep(time.Millisecond)
	}
	switch variant {
	case "cancel-true-running": // nothing pending, callback running: Cancel must say false
		r.kcancel(1, 1)
		r.gate.Release(cbPoint(k1))
	case "cancel-true-running-pending": // k2 pending while k1 runs: Cancel must prevent k2 (true), later Cancel false
		r.add(1, r.since()+2*unit, false, 0)
		r.kcancel(1, 1)
		r.gate.Release(cbPoint(k1))
		time.Sleep(unit / 4)
		r.kcancel(1, 1)
	case "cancel-false": // k2 scheduled while k1 runs; k1 returns; Cancel(1) must prevent k2 and say true
		r.add(1, r.since()+3*unit, false, 0)
		r.gate.Release(cbPoint(k1))
		time.Sleep(unit / 4)
		r.kcancel(1, 1)
	case "two-pending": // k2 scheduled while k1 runs; k1 returns; k3 replaces k2: only k3 may run
		r.add(1, r.since()+2*unit, false, 0)
		r.gate.Release(cbPoint(k1))
		time.Sleep(unit / 4)
		r.add(1, r.since()+2*unit, false, 0)
	}
	return r.finish(out)
}

// forcedCancelWhileBusy: the only worker is held inside a callback; an element that is already due waits in the heap
// and is cancelled; the worker is released: the cancelled element must not run (Appendix B: Cancel not removing from the heap).
func forcedCancelWhileBusy(out *output) bool {
	r := newRun("forced-cancel-while-busy", "exec", 1, 0)
	k1 := r.add(0, r.since(), true, 0)
	for i := 0; i < 200 && r.ndeliv.Load() == 0; i++ {
		time.Sleep(time.Millisecond)
	}
	k2 := r.add(0, r.since(), false, 0)
	k3 := r.add(0, r.since()+unit, false, 0)
	r.cancel(k2)
	r.cancel(k3)
	r.sleepUntil(r.maxAt + unit/4)
	r.gate.Release(cbPoint(k1))
	return r.finish(out)
}

// forcedShutdownFlags: elements due at +1, +2, +3 units (one cancelled), Shutdown(flags) at +1.5 units.
func forcedShutdownFlags(out *output, workers int, cancel, ignore bool) bool {
	r := newRun(fmt.Sprintf("forced-shutdown-w%d-c%v-i%v", workers, cancel, ignore), "exec", workers, 0)
	t0 := r.since()
	r.add(0, t0, false, 0)
	r.add(0, t0+unit, false, 0)
	r.add(0, t0+2*unit, false, 0)
	kc := r.add(0, t0+2*unit, false, 0)
	r.add(0, t0+3*unit, false, 0)
	r.cancel(kc)
	r.sleepUntil(t0 + unit + unit/2)
	r.goThread(1, func() { r.shutdown(cancel, ignore, true) })
	time.Sleep(unit / 8)
	r.add(0, r.since()+unit, false, 0) // refused (or, racing, accepted and then owed)
	return r.finish(out)
}

// forcedMaxSize: more elements than the size bound.
func forcedMaxSize(out *output) bool {
	r := newRun("forced-maxsize", "exec", 1, 2)
	t0 := r.since()
	for i := 0; i < 5; i++ {
		r.add(0, t0+time.Duration(1+(i*2)%3)*unit, false, 0)
	}
	return r.finish(out)
}

// freeRun: two or three goroutines issue random ExecuteAt / Cancel calls with times of 0..3 units ahead; callbacks
// sometimes take a while; the run ends with a Shutdown with random flags (or none at all).
func freeRun(out *output, rng *rand.Rand, i int) bool {
	kind := core.Pick(rng, "exec", "task")
	workers := 1 + rng.Intn(3)
	maxsize := core.Pick(rng, 0, 0, 0, 3)
	r := newRun(fmt.Sprintf("free-%d", i), kind, workers, maxsize)
	nthr := 2 + rng.Intn(2)
	var sdOnce sync.Once
	var sdDone atomic.Bool
	for t := 1; t <= nthr; t++ {
		t := t
		pr := rand.New(rand.NewSource(rng.Int63()))
		nops := 4 + pr.Intn(8)
		r.goThread(t, func() {
			mine := []int{}
			for j := 0; j < nops; j++ {
				switch c := pr.Intn(10); {
				case c < 6:
					key := 0
					if kind == "task" {
						key = t // one goroutine per identifier: calls on one identifier are sequential
					}
					var sl time.Duration
					if pr.Intn(4) == 0 {
						sl = time.Duration(pr.Intn(int(unit)))
					}
					at := r.since() + time.Duration(pr.Intn(4))*unit - time.Duration(pr.Intn(2))*unit/2
					mine = append(mine, r.add(key, at, false, sl))
				case c < 8 && kind == "exec" && len(mine) > 0:
					r.cancel(mine[pr.Intn(len(mine))])
				case c < 8 && kind == "task" && !sdDone.Load():
					r.kcancel(t, t)
				case c == 8:
					time.Sleep(time.Duration(pr.Intn(int(unit))))
				default:
					runtime.Gosched()
				}
			}
		})
	}
	if fl := rng.Intn(6); fl < 5 {
		delay := time.Duration(rng.Intn(int(3 * unit)))
		cancel, ignore, wait := fl&1 != 0 && fl < 4, fl&2 != 0 && fl < 4, rng.Intn(4) != 0
		r.goThread(9, func() {
			time.Sleep(delay)
			sdOnce.Do(func() { sdDone.Store(true); r.shutdown(cancel, ignore, wait) })
		})
	}
	return r.finish(out)
}
