package timed

import (
	"fmt"
	"math/rand"
	"time"

	hive "github.com/iotaledger/hive.go/runtime/timed"

	"verifharness/core"
	"verifharness/sched"
)

// queue.go: quiescent-point adapter of the real timed.Queue[int] for spec/timed/TimedQueue.tla (pattern 1).
// Values are the Add numbers; abstract time t maps to base + (t - LastDue)·1h - 30min + k·1ms.

func init() { core.Register("TimedQueue", func() core.SUT { return &queueSUT{nthr: 2} }) }

type queueSUT struct {
	q       *hive.Queue[int]
	base    time.Time
	lastDue int
	n       int
	max     int
	handles []*hive.QueueElement[int]
	threads map[int]*sched.Thread
	nthr    int
	sd      bool
}

func (s *queueSUT) Reset(cfg core.Ev) {
	s.drain()
	ms := core.Int(cfg, "maxsize")
	if ms > 0 {
		s.q = hive.NewQueue[int](hive.WithMaxSize[int](ms))
	} else {
		s.q = hive.NewQueue[int]()
	}
	s.base = time.Now()
	s.n, s.handles, s.sd = 0, nil, false
	if s.max == 0 {
		s.max, s.lastDue = 2, 1
	}
	s.threads = map[int]*sched.Thread{}
	for i := 1; i <= s.nthr; i++ {
		s.threads[i] = sched.NewThread(i)
	}
}

func (s *queueSUT) drain() {
	if s.q == nil {
		return
	}
	for _, h := range s.handles {
		if h != nil {
			h.Cancel()
		}
	}
	s.q.Shutdown(hive.CancelPendingElements)
	if !sched.QuiesceOpt(10*time.Second, 3, false) {
		panic("abandoned queue: pollers did not return")
	}
	for _, t := range s.threads {
		t.Abandon()
	}
	s.q = nil
}

func (s *queueSUT) when(t, k int) time.Time {
	return s.base.Add(time.Duration(t-s.lastDue)*time.Hour - 30*time.Minute + time.Duration(k)*time.Millisecond)
}

func (s *queueSUT) returned() int {
	c := 0
	for _, t := range s.threads {
		if !t.Busy() {
			c++
		}
	}
	return c
}

func (s *queueSUT) Apply(e core.Ev) (any, any) {
	r := ""
	q := s.q
	switch op := core.Str(e, "op"); op {
	case "Add":
		s.n++
		h := q.Add(s.n, s.when(core.Int(e, "t"), s.n))
		s.handles = append(s.handles, h)
		if h != nil {
			r = "ok"
		} else {
			r = "refused"
		}
	case "Poll":
		w := core.Bool(e, "w")
		s.threads[core.Int(e, "th")].Go(func() any { return q.Poll(w) })
	case "Cancel":
		if h := s.handles[core.Int(e, "k")-1]; h != nil {
			h.Cancel()
		}
	case "Shutdown":
		s.sd = true
		switch core.Str(e, "fl") {
		case "none":
			q.Shutdown()
		case "cancel":
			q.Shutdown(hive.CancelPendingElements)
		case "ignore":
			q.Shutdown(hive.IgnorePendingTimeouts)
		case "both":
			q.Shutdown(hive.CancelPendingElements, hive.IgnorePendingTimeouts)
		}
	default:
		panic("unknown op " + op)
	}
	settle(func() string { return fmt.Sprint(s.returned(), "/", q.Size()) })
	ret, blocked := []any{}, []int{}
	for id := 1; id <= s.nthr; id++ {
		th := s.threads[id]
		if fin, v, pan := th.Take(); fin {
			if pan != nil {
				panic(pan)
			}
			ret = append(ret, []any{id, v})
		} else if th.Busy() {
			blocked = append(blocked, id)
		}
	}
	return core.Ev{"r": r, "ret": ret}, core.Ev{"size": q.Size(), "blocked": core.SortedInts(blocked)}
}

func (s *queueSUT) RandomCfg(r *rand.Rand) core.Ev {
	s.max, s.lastDue = 8, 2 // TimedQueue.trace.cfg
	return core.Ev{"maxsize": 0}
}

func (s *queueSUT) RandomStimulus(r *rand.Rand) core.Ev {
	var idle []int
	for id := 1; id <= s.nthr; id++ {
		if !s.threads[id].Busy() {
			idle = append(idle, id)
		}
	}
	for tries := 0; tries < 100; tries++ {
		switch c := r.Intn(10); {
		case c < 4 && s.n < s.max:
			t := 1 + r.Intn(4)
			if len(idle) == 0 && t > s.lastDue {
				t = 1 + r.Intn(s.lastDue) // two blocked pollers: which of them takes an element that is not due could not be observed
			}
			return core.Ev{"op": "Add", "t": t}
		case c < 7 && len(idle) > 0:
			return core.Ev{"op": "Poll", "th": idle[r.Intn(len(idle))], "w": r.Intn(2) == 0}
		case c < 9 && s.n > 0:
			return core.Ev{"op": "Cancel", "k": 1 + r.Intn(s.n)}
		case c == 9 && !s.sd && s.n >= 2:
			return core.Ev{"op": "Shutdown", "fl": core.Pick(r, "none", "cancel", "ignore", "both")}
		}
	}
	if s.n < s.max {
		return core.Ev{"op": "Add", "t": 1}
	}
	return core.Ev{"op": "Cancel", "k": 1}
}

// Dead: all Add calls are used up and nobody is blocked (only no-op stimuli would remain).
func (s *queueSUT) Dead() bool {
	return s.n >= s.max && s.returned() == s.nthr && s.q.Size() == 0
}
