package timed

import (
	"fmt"
	"math/rand"
	"sort"
	"sync"
	"time"

	hive "github.com/iotaledger/hive.go/runtime/timed"

	"verifharness/core"
	"verifharness/sched"
)

// taskexec.go: quiescent-point adapter of the real TaskExecutor for spec/timed/TaskExec.tla (pattern 1).
// Abstract time t maps to base + (t - LastDue)·1h - 30min + k·1ms: t <= LastDue lies in the past (due at once),
// later times are never reached during a run.  Callbacks park at a gate when they begin.

func init() { core.Register("TaskExec", func() core.SUT { return &taskSUT{} }) }

const lastDueTrace = 2 // LastDue of TaskExec.trace.cfg (recorder); the LTS configurations carry their own in the stimulus times

// settle waits for a quiescent process.  A poller whose element is already due waits in its select for a timer that
// has expired but must still be run by the Go scheduler; a thread that spins with Gosched never gets to run the
// expired timers of other Ps, a thread that sleeps does (its M looks for work, which includes those timers).  So
// "everybody parked" is confirmed across short real sleeps until the observable counters (fingerprint) stop moving.
func settle(fingerprint func() string) {
	prev := ""
	for i := 0; i < 200; i++ {
		time.Sleep(150 * time.Microsecond)
		if !sched.QuiesceOpt(10*time.Second, 3, false) {
			panic("process did not become quiescent within 10s")
		}
		cur := fingerprint()
		if i > 0 && cur == prev {
			return
		}
		prev = cur
	}
	panic("observable state keeps changing")
}

// cbCount is the per-run record of callback executions (closures of an abandoned run must not touch the next run's).
type cbCount struct {
	mu      sync.Mutex
	started map[int]int
	ended   map[int]int
}

func (c *cbCount) fingerprint() string {
	c.mu.Lock()
	defer c.mu.Unlock()
	a, b := 0, 0
	for k, n := range c.started {
		a += (k + 1) * 31 * n
	}
	for k, n := range c.ended {
		b += (k + 1) * 37 * n
	}
	return fmt.Sprint(a, "/", b)
}

type taskSUT struct {
	pf      bool // Shutdown is also given PanicOnModificationsAfterShutdown
	te      *hive.TaskExecutor[int]
	gate    *sched.Gate
	base    time.Time
	lastDue int
	n       int
	max     int
	ids     int
	handles []*hive.ScheduledTask
	sdT     *sched.Thread
	sdBusy  bool
	sd      bool

	cb *cbCount
}

func (s *taskSUT) Reset(cfg core.Ev) {
	s.drain()
	if mq := core.Int(cfg, "mq"); mq > 0 {
		s.te = hive.NewTaskExecutor[int](core.Int(cfg, "workers"), hive.WithMaxQueueSize(mq))
	} else {
		s.te = hive.NewTaskExecutor[int](core.Int(cfg, "workers"))
	}
	s.gate = sched.NewGate()
	s.base = time.Now()
	s.n, s.max, s.ids = 0, core.Int(cfg, "max"), core.Int(cfg, "ids")
	s.pf = core.Bool(cfg, "pf")
	s.lastDue = 1
	if s.max > 4 {
		s.lastDue = lastDueTrace
	}
	s.handles = nil
	s.sdT = sched.NewThread(1)
	s.sdBusy, s.sd = false, false
	s.cb = &cbCount{started: map[int]int{}, ended: map[int]int{}}
}

// drain lets everything of the abandoned executor finish.
func (s *taskSUT) drain() {
	if s.te == nil {
		return
	}
	s.gate.ReleaseAll()
	for _, h := range s.handles {
		if h != nil {
			h.Cancel()
		}
	}
	te := s.te
	go func() {
		defer func() { _ = recover() }() // (a second Shutdown panics when the first one carried PanicOnModificationsAfterShutdown)
		te.Shutdown(hive.CancelPendingElements, hive.DontWaitForShutdown)
	}()
	s.sdT.Abandon()
	s.te = nil
}

func (s *taskSUT) when(t, k int) time.Time {
	return s.base.Add(time.Duration(t-s.lastDue)*time.Hour - 30*time.Minute + time.Duration(k)*time.Millisecond)
}

func (s *taskSUT) Apply(e core.Ev) (any, any) {
	r := ""
	switch op := core.Str(e, "op"); op {
	case "Exec":
		s.n++
		k := s.n
		gate, cb := s.gate, s.cb
		gate.Hold(cbPoint(k))
		panicked := false
		var h *hive.ScheduledTask
		func() {
			defer func() {
				if rec := recover(); rec != nil {
					panicked = true // (Shutdown was given PanicOnModificationsAfterShutdown)
				}
			}()
			h = s.te.ExecuteAt(core.Int(e, "id"), func() {
				cb.mu.Lock()
				cb.started[k]++
				cb.mu.Unlock()
				gate.Wait(cbPoint(k))
				cb.mu.Lock()
				cb.ended[k]++
				cb.mu.Unlock()
			}, s.when(core.Int(e, "t"), k))
		}()
		s.handles = append(s.handles, h)
		if h != nil {
			r = "ok"
		} else {
			r = "refused"
		}
		if panicked {
			r = "panic"
		}
	case "Cancel":
		r = fmt.Sprint(s.te.Cancel(core.Int(e, "id")))
	case "Release":
		if !s.gate.Release(cbPoint(core.Int(e, "k"))) {
			panic(fmt.Sprintf("callback %d is not running", core.Int(e, "k")))
		}
	case "Shutdown":
		var fl []hive.ShutdownFlag
		switch core.Str(e, "fl") {
		case "cancel":
			fl = []hive.ShutdownFlag{hive.CancelPendingElements}
		case "ignore":
			fl = []hive.ShutdownFlag{hive.IgnorePendingTimeouts}
		case "both":
			fl = []hive.ShutdownFlag{hive.CancelPendingElements, hive.IgnorePendingTimeouts}
		}
		if s.pf {
			fl = append(fl, hive.PanicOnModificationsAfterShutdown)
		}
		te := s.te
		s.sd, s.sdBusy = true, true
		s.sdT.Go(func() any { te.Shutdown(fl...); return nil })
	default:
		panic("unknown op " + op)
	}
	settle(func() string { return s.cb.fingerprint() + fmt.Sprint(s.te.Size()) })
	sdret := false
	if s.sdBusy {
		if fin, _, pan := s.sdT.Take(); fin {
			if pan != nil {
				panic(pan)
			}
			sdret, s.sdBusy = true, false
		}
	}
	s.cb.mu.Lock()
	running, done := []int{}, []int{}
	for k, n := range s.cb.started {
		e := s.cb.ended[k]
		for i := 0; i < n-e; i++ {
			running = append(running, k) // a callback that runs twice at once shows up twice
		}
		for i := 0; i < e; i++ {
			done = append(done, k)
		}
	}
	s.cb.mu.Unlock()
	sort.Ints(running)
	sort.Ints(done)
	return core.Ev{"r": r, "sdret": sdret},
		core.Ev{"size": s.te.Size(), "running": core.Seq(running), "done": core.Seq(done), "sdwait": s.sdBusy}
}

func (s *taskSUT) RandomCfg(r *rand.Rand) core.Ev {
	if r.Intn(3) == 0 {
		return core.Ev{"workers": 1 + r.Intn(3), "ids": 1, "max": 8, "pf": r.Intn(2) == 0, "mq": 0}
	}
	return core.Ev{"workers": 1 + r.Intn(3), "ids": 2, "max": 7, "pf": r.Intn(2) == 0, "mq": 0}
}

func (s *taskSUT) RandomStimulus(r *rand.Rand) core.Ev {
	s.cb.mu.Lock()
	var running []int
	for k, n := range s.cb.started {
		if n > s.cb.ended[k] {
			running = append(running, k)
		}
	}
	s.cb.mu.Unlock()
	sort.Ints(running)
	for tries := 0; tries < 100; tries++ {
		switch c := r.Intn(10); {
		case c < 4 && s.n < s.max && !s.sd:
			return core.Ev{"op": "Exec", "id": 1 + r.Intn(s.ids), "t": 1 + r.Intn(4)}
		case c < 6 && !s.sd:
			return core.Ev{"op": "Cancel", "id": 1 + r.Intn(s.ids)}
		case c < 9 && len(running) > 0:
			return core.Ev{"op": "Release", "k": running[r.Intn(len(running))]}
		case c == 9 && !s.sd && s.n >= 2:
			return core.Ev{"op": "Shutdown", "fl": core.Pick(r, "none", "cancel", "ignore", "both")}
		}
	}
	if len(running) > 0 {
		return core.Ev{"op": "Release", "k": running[0]}
	}
	return core.Ev{"op": "Dead"}
}

// Dead: nothing more can be done on this object (shut down, nothing running, or all calls used up).
func (s *taskSUT) Dead() bool {
	s.cb.mu.Lock()
	defer s.cb.mu.Unlock()
	running := 0
	for k, n := range s.cb.started {
		if n > s.cb.ended[k] {
			running++
		}
	}
	return running == 0 && (s.sd || s.n >= s.max)
}
