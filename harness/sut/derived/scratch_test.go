package derived

import (
	"fmt"
	"testing"
	"time"

	"github.com/iotaledger/hive.go/ds"
	hive "github.com/iotaledger/hive.go/ds/reactive"
)

func TestScratchSubtract(t *testing.T) {
	src := hive.NewSet[int]()
	o := hive.NewSet[int]()
	sub := src.SubtractReactive(o)
	src.Add(1)
	src.Add(2)
	rem := src.Replace(ds.NewSet(2, 3))
	fmt.Println("replace removed", rem.ToSlice(), "src", src.ToSlice(), "sub", sub.ToSlice())
	src.Delete(2)
	fmt.Println("after delete 2: src", src.ToSlice(), "sub", sub.ToSlice())

	d := hive.NewDerivedSet[int]()
	s1 := hive.NewSet[int]()
	s2 := hive.NewSet[int]()
	un := d.InheritFrom(s1, s2)
	s1.Add(1); s1.Add(2); s2.Add(2)
	s1.Replace(ds.NewSet(2, 3))
	fmt.Println("derived", d.ToSlice(), "s1", s1.ToSlice())
	s1.Delete(2)
	fmt.Println("derived", d.ToSlice(), "s1", s1.ToSlice())
	s2.Delete(2)
	fmt.Println("derived", d.ToSlice(), "s1", s1.ToSlice())
	un()
	fmt.Println("derived after unsub", d.ToSlice())
}

func TestScratchCounter(t *testing.T) {
	c := hive.NewCounter[int]()
	a := hive.NewVariable[int]()
	b := hive.NewVariable[int]()
	ua := c.Monitor(a)
	c.Monitor(b)
	a.Set(1); b.Set(1)
	fmt.Println("count", c.Get())
	ua()
	fmt.Println("count after unmonitor a", c.Get())
	a.Set(0)
	fmt.Println("count after a=0", c.Get())
}

type gatedVar struct {
	hive.Variable[int]
	hold chan struct{}
	in   chan struct{}
	armed bool
}

func (g *gatedVar) OnUpdate(cb func(o, n int), trig ...bool) func() {
	return g.Variable.OnUpdate(func(o, n int) {
		if g.armed {
			g.in <- struct{}{}
			<-g.hold
		}
		cb(o, n)
	}, trig...)
}

func TestScratchSortedDeadlock(t *testing.T) {
	ws := map[int]*gatedVar{}
	for i := 1; i <= 3; i++ {
		ws[i] = &gatedVar{Variable: hive.NewVariable[int](), hold: make(chan struct{}), in: make(chan struct{}, 1)}
	}
	s := hive.NewSortedSet[int, int](func(e int) hive.Variable[int] { return ws[e] })
	s.Add(1); s.Add(2)
	ws[1].armed = true
	d1 := make(chan struct{}); d2 := make(chan struct{})
	go func() { ws[1].Set(2); close(d1) }()
	<-ws[1].in
	go func() { s.Delete(1); close(d2) }()
	time.Sleep(50 * time.Millisecond)
	ws[1].armed = false
	close(ws[1].hold)
	select {
	case <-d1:
		fmt.Println("writer returned")
	case <-time.After(time.Second):
		fmt.Println("writer HUNG")
	}
	select {
	case <-d2:
		fmt.Println("delete returned")
	case <-time.After(time.Second):
		fmt.Println("delete HUNG")
	}
}
