// Package derived binds the derived reactive values of ds/reactive (property C14) to spec/reactive/Derived*.tla:
// seq.go is the sequential adapter (stimulus = one input write / structural change, st = the derived getters of the
// real objects after the call returned), run.go the free-running / forced-schedule driver whose executions TLC validates.
package derived

import (
	"math/rand"
	"sort"

	"github.com/iotaledger/hive.go/ds"
	hive "github.com/iotaledger/hive.go/ds/reactive"

	"verifharness/core"
)

func init() { core.Register("Derived", func() core.SUT { return &seqSUT{} }) }

// the defining functions handed to the real constructors (the model states the same functions, see Derived.tla F1/F2)
func f1(_ int, a int) int        { return a + 1 }
func f2(_ int, a int, b int) int { return 10*a + b + 1 }

type kindImpl interface {
	apply(s core.Ev) (any, any)
}

type seqSUT struct {
	cfg core.Ev
	k   kindImpl
}

func (s *seqSUT) Reset(cfg core.Ev) {
	s.cfg = cfg
	switch core.Str(cfg, "kind") {
	case "var1", "var2", "inherit":
		s.k = newVarK(core.Str(cfg, "kind"))
	case "union":
		s.k = &unionK{src: [2]hive.Set[int]{hive.NewSet[int](), hive.NewSet[int]()}, d: hive.NewDerivedSet[int](), unsub: map[int][]func(){}}
	case "subtract":
		s.k = &subtractK{s: [3]hive.Set[int]{hive.NewSet[int](), hive.NewSet[int](), hive.NewSet[int]()}}
	case "counter":
		s.k = newCounterK(core.Int(cfg, "n"), core.Str(cfg, "cond"))
	case "sorted":
		if core.Bool(cfg, "tie") {
			s.k = newSortedK[lessInt](core.Int(cfg, "n"))
		} else {
			s.k = newSortedK[int](core.Int(cfg, "n"))
		}
	case "waitgroup":
		s.k = &waitGroupK{wg: hive.NewWaitGroup[int](core.Ints(cfg, "init")...)}
	case "evict":
		s.k = &evictK{slots: core.Int(cfg, "slots"), es: hive.NewEvictionState[int](), held: map[int]hive.Event{}}
	default:
		panic("unknown kind")
	}
}

func (s *seqSUT) Apply(e core.Ev) (any, any) { return s.k.apply(e) }

func sortedInts(xs []int) []any { return core.SortedInts(xs) }

func setOf(xs []int) ds.Set[int] { return ds.NewSet(xs...) }

// setOp applies Add / Del / Replace to a reactive set; ok=false for other ops.
func setOp(set hive.Set[int], e core.Ev) (res any, ok bool) {
	switch core.Str(e, "op") {
	case "Add":
		return set.Add(core.Int(e, "e")), true
	case "Del":
		return set.Delete(core.Int(e, "e")), true
	case "Replace":
		return sortedInts(set.Replace(setOf(core.Ints(e, "es"))).ToSlice()), true
	}
	return nil, false
}

// ---------------------------------------------------------------- DerivedVariable / InheritFrom

type varK struct {
	kind  string
	in    [2]hive.Variable[int]
	d     hive.Variable[int]
	dv    hive.DerivedVariable[int]
	unsub func()
}

func newVarK(kind string) *varK {
	k := &varK{kind: kind, in: [2]hive.Variable[int]{hive.NewVariable[int](), hive.NewVariable[int]()}}
	switch kind {
	case "var1":
		k.dv = hive.NewDerivedVariable[int](f1, k.in[0])
		k.d = k.dv
	case "var2":
		k.dv = hive.NewDerivedVariable2[int](f2, k.in[0], k.in[1])
		k.d = k.dv
	default:
		k.d = hive.NewVariable[int]()
	}
	return k
}

func (k *varK) st() any {
	return core.Ev{"in": []any{k.in[0].Get(), k.in[1].Get()}, "d": k.d.Get()}
}

func (k *varK) apply(e core.Ev) (any, any) {
	switch core.Str(e, "op") {
	case "Set":
		i, v := core.Int(e, "i"), core.Int(e, "v")
		var prev int
		if (i+v)%2 == 1 { // both write paths of the API
			prev = k.in[i-1].Compute(func(int) int { return v })
		} else {
			prev = k.in[i-1].Set(v)
		}
		return prev, k.st()
	case "Unsub":
		if k.dv != nil {
			k.dv.Unsubscribe()
		} else if k.unsub != nil {
			k.unsub()
			k.unsub = nil
		}
		return 0, k.st()
	case "Point":
		if k.unsub != nil {
			k.unsub()
		}
		k.unsub = k.d.InheritFrom(k.in[core.Int(e, "i")-1])
		return 0, k.st()
	}
	panic("unknown op")
}

// ---------------------------------------------------------------- DerivedSet (union of its current sources)

type unionK struct {
	src   [2]hive.Set[int]
	d     hive.DerivedSet[int]
	grp   [2]int
	unsub map[int][]func()
}

func (k *unionK) st() any {
	return core.Ev{"s": []any{sortedInts(k.src[0].ToSlice()), sortedInts(k.src[1].ToSlice())}, "d": sortedInts(k.d.ToSlice())}
}

func (k *unionK) apply(e core.Ev) (any, any) {
	switch core.Str(e, "op") {
	case "Add", "Del", "Replace":
		res, _ := setOp(k.src[core.Int(e, "i")-1], e)
		return res, k.st()
	case "Sub":
		i := core.Int(e, "i")
		if i == 0 { // one InheritFrom call with every source that is not inherited yet
			var srcs []hive.ReadableSet[int]
			for j := 0; j < 2; j++ {
				if k.grp[j] == 0 {
					srcs = append(srcs, k.src[j])
					k.grp[j] = 3
				}
			}
			if len(srcs) > 0 {
				k.unsub[3] = append(k.unsub[3], k.d.InheritFrom(srcs...))
			}
		} else if k.grp[i-1] == 0 {
			k.grp[i-1] = i
			k.unsub[i] = append(k.unsub[i], k.d.InheritFrom(k.src[i-1]))
		}
		return 0, k.st()
	case "Unsub":
		i := core.Int(e, "i")
		if g := k.grp[i-1]; g != 0 {
			for _, u := range k.unsub[g] {
				u()
			}
			delete(k.unsub, g)
			for j := 0; j < 2; j++ {
				if k.grp[j] == g {
					k.grp[j] = 0
				}
			}
		}
		return 0, k.st()
	}
	panic("unknown op")
}

// ---------------------------------------------------------------- SubtractReactive (source minus the others)

type subtractK struct {
	s [3]hive.Set[int]
	d hive.Set[int]
}

func (k *subtractK) st() any {
	d := []any{}
	if k.d != nil {
		d = sortedInts(k.d.ToSlice())
	}
	return core.Ev{"s": []any{sortedInts(k.s[0].ToSlice()), sortedInts(k.s[1].ToSlice()), sortedInts(k.s[2].ToSlice())}, "d": d}
}

func (k *subtractK) apply(e core.Ev) (any, any) {
	switch core.Str(e, "op") {
	case "Add", "Del", "Replace":
		res, _ := setOp(k.s[core.Int(e, "i")-1], e)
		return res, k.st()
	case "Derive":
		if k.d == nil {
			k.d = k.s[0].SubtractReactive(k.s[1], k.s[2])
		}
		return 0, k.st()
	}
	panic("unknown op")
}

// ---------------------------------------------------------------- Counter

type counterK struct {
	in    []hive.Variable[int]
	unmon []func()
	c     hive.Counter[int]
}

func newCounter(cond string) hive.Counter[int] {
	if cond == "ge2" {
		return hive.NewCounter[int](func(v int) bool { return v >= 2 })
	}
	return hive.NewCounter[int]()
}

func newCounterK(n int, cond string) *counterK {
	k := &counterK{c: newCounter(cond), unmon: make([]func(), n)}
	for i := 0; i < n; i++ {
		k.in = append(k.in, hive.NewVariable[int]())
	}
	return k
}

func (k *counterK) st() any {
	in := []any{}
	for _, v := range k.in {
		in = append(in, v.Get())
	}
	return core.Ev{"in": in, "d": k.c.Get()}
}

func (k *counterK) apply(e core.Ev) (any, any) {
	i := core.Int(e, "i") - 1
	switch core.Str(e, "op") {
	case "Set":
		return k.in[i].Set(core.Int(e, "v")), k.st()
	case "Mon":
		if k.unmon[i] == nil {
			k.unmon[i] = k.c.Monitor(k.in[i])
		}
		return 0, k.st()
	case "Unmon":
		if k.unmon[i] != nil {
			k.unmon[i]()
			k.unmon[i] = nil
		}
		return 0, k.st()
	}
	panic("unknown op")
}

// ---------------------------------------------------------------- SortedSet

// lessInt is an element type with the optional tie-break method (Less = "is lighter").
type lessInt int

func (l lessInt) Less(o lessInt) bool { return l < o }

type intLike interface {
	~int
	comparable
}

type sortedK[E intLike] struct {
	w []hive.Variable[int]
	s hive.SortedSet[E]
}

func newSortedK[E intLike](n int) *sortedK[E] {
	k := &sortedK[E]{}
	for i := 0; i < n; i++ {
		k.w = append(k.w, hive.NewVariable[int]())
	}
	k.s = hive.NewSortedSet[E, int](func(e E) hive.Variable[int] { return k.w[int(e)-1] })
	return k
}

func plain[E intLike](xs []E) []any {
	out := make([]any, len(xs))
	for i, x := range xs {
		out[i] = int(x)
	}
	return out
}

func sortedSt[E intLike](s hive.SortedSet[E], w []hive.Variable[int]) core.Ev {
	mem := []int{}
	for _, x := range s.ToSlice() {
		mem = append(mem, int(x))
	}
	sort.Ints(mem)
	ws := []any{}
	for _, v := range w {
		ws = append(ws, v.Get())
	}
	return core.Ev{"mem": core.Seq(mem), "w": ws, "desc": plain(s.Descending()), "asc": plain(s.Ascending()),
		"hi": int(s.HeaviestElement().Get()), "lo": int(s.LightestElement().Get())}
}

func (k *sortedK[E]) apply(e core.Ev) (any, any) {
	switch core.Str(e, "op") {
	case "SetW":
		return k.w[core.Int(e, "e")-1].Set(core.Int(e, "v")), sortedSt(k.s, k.w)
	case "Add":
		return k.s.Add(E(core.Int(e, "e"))), sortedSt(k.s, k.w)
	case "Del":
		return k.s.Delete(E(core.Int(e, "e"))), sortedSt(k.s, k.w)
	case "Replace":
		n := ds.NewSet[E]()
		for _, x := range core.Ints(e, "es") {
			n.Add(E(x))
		}
		rem := []int{}
		for _, x := range k.s.Replace(n).ToSlice() {
			rem = append(rem, int(x))
		}
		return sortedInts(rem), sortedSt(k.s, k.w)
	}
	panic("unknown op")
}

// ---------------------------------------------------------------- WaitGroup

type waitGroupK struct{ wg hive.WaitGroup[int] }

func (k *waitGroupK) apply(e core.Ev) (any, any) {
	switch core.Str(e, "op") {
	case "Add":
		k.wg.Add(core.Ints(e, "es")...)
	case "Done":
		k.wg.Done(core.Ints(e, "es")...)
	default:
		panic("unknown op")
	}
	return 0, core.Ev{"pend": sortedInts(k.wg.PendingElements().ToSlice()), "trig": k.wg.WasTriggered()}
}

// ---------------------------------------------------------------- EvictionState

type evictK struct {
	slots int
	es    hive.EvictionState[int]
	held  map[int]hive.Event // the FIRST handle requested for each slot
}

func (k *evictK) st() any {
	held := []any{}
	for s := 0; s <= k.slots; s++ {
		switch h := k.held[s]; {
		case h == nil:
			held = append(held, 0)
		case h.WasTriggered():
			held = append(held, 2)
		default:
			held = append(held, 1)
		}
	}
	return core.Ev{"last": k.es.LastEvictedSlot(), "held": held}
}

func (k *evictK) apply(e core.Ev) (any, any) {
	switch core.Str(e, "op") {
	case "Req":
		s := core.Int(e, "s")
		h := k.es.EvictionEvent(s)
		if k.held[s] == nil {
			k.held[s] = h
		}
		return h.WasTriggered(), k.st()
	case "Evict":
		k.es.Evict(core.Int(e, "s"))
		return 0, k.st()
	case "Probe":
		res := []any{}
		for s := 0; s <= k.slots; s++ {
			res = append(res, k.es.EvictionEvent(s).WasTriggered())
		}
		return res, k.st()
	}
	panic("unknown op")
}

// ---------------------------------------------------------------- recorder (inside Derived.trace.cfg's constants)

var recKinds = []string{"var1", "var2", "inherit", "union", "subtract", "counter", "sorted", "waitgroup", "evict"}

func (s *seqSUT) RandomCfg(r *rand.Rand) core.Ev {
	switch k := recKinds[r.Intn(len(recKinds))]; k {
	case "counter":
		return core.Ev{"kind": k, "n": 3, "cond": core.Pick(r, "nz", "ge2")}
	case "sorted":
		return core.Ev{"kind": k, "n": 4, "tie": r.Intn(2) == 0}
	case "waitgroup":
		return core.Ev{"kind": k, "init": core.Pick(r, []any{}, []any{1}, []any{1, 2}, []any{1, 1})}
	case "evict":
		return core.Ev{"kind": k, "slots": 5}
	default:
		return core.Ev{"kind": k}
	}
}

func subsetSeq(r *rand.Rand, n int) []any {
	out := []any{}
	for e := 1; e <= n; e++ {
		if r.Intn(2) == 0 {
			out = append(out, e)
		}
	}
	return out
}

func (s *seqSUT) RandomStimulus(r *rand.Rand) core.Ev {
	val, elem := r.Intn(5), 1+r.Intn(4)
	setStim := func(nsrc int) core.Ev {
		switch r.Intn(5) {
		case 0, 1:
			return core.Ev{"op": "Add", "i": 1 + r.Intn(nsrc), "e": elem}
		case 2:
			return core.Ev{"op": "Del", "i": 1 + r.Intn(nsrc), "e": elem}
		}
		return core.Ev{"op": "Replace", "i": 1 + r.Intn(nsrc), "es": subsetSeq(r, 4)}
	}
	switch core.Str(s.cfg, "kind") {
	case "var1":
		if r.Intn(25) == 0 {
			return core.Ev{"op": "Unsub"}
		}
		return core.Ev{"op": "Set", "i": 1, "v": val}
	case "var2":
		if r.Intn(25) == 0 {
			return core.Ev{"op": "Unsub"}
		}
		return core.Ev{"op": "Set", "i": 1 + r.Intn(2), "v": val}
	case "inherit":
		switch r.Intn(8) {
		case 0:
			return core.Ev{"op": "Unsub"}
		case 1, 2:
			return core.Ev{"op": "Point", "i": 1 + r.Intn(2)}
		}
		return core.Ev{"op": "Set", "i": 1 + r.Intn(2), "v": val}
	case "union":
		switch r.Intn(8) {
		case 0, 1:
			return core.Ev{"op": "Sub", "i": r.Intn(3)}
		case 2:
			return core.Ev{"op": "Unsub", "i": 1 + r.Intn(2)}
		}
		return setStim(2)
	case "subtract":
		if r.Intn(6) == 0 {
			return core.Ev{"op": "Derive"}
		}
		return setStim(3)
	case "counter":
		switch r.Intn(8) {
		case 0, 1:
			return core.Ev{"op": "Mon", "i": 1 + r.Intn(3)}
		case 2:
			return core.Ev{"op": "Unmon", "i": 1 + r.Intn(3)}
		}
		return core.Ev{"op": "Set", "i": 1 + r.Intn(3), "v": val}
	case "sorted":
		switch r.Intn(8) {
		case 0, 1:
			return core.Ev{"op": "Add", "e": elem}
		case 2:
			return core.Ev{"op": "Del", "e": elem}
		case 3:
			return core.Ev{"op": "Replace", "es": subsetSeq(r, 4)}
		}
		return core.Ev{"op": "SetW", "e": elem, "v": val}
	case "waitgroup":
		es := []any{elem}
		if r.Intn(2) == 0 {
			es = append(es, 1+r.Intn(4))
		}
		return core.Ev{"op": core.Pick(r, "Add", "Done", "Done"), "es": es}
	case "evict":
		switch r.Intn(6) {
		case 0:
			return core.Ev{"op": "Evict", "s": r.Intn(6)}
		case 1:
			return core.Ev{"op": "Probe"}
		}
		return core.Ev{"op": "Req", "s": r.Intn(6)}
	}
	panic("unknown kind")
}
