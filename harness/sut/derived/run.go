package derived

// run.go: pattern 3 of spec/CONCURRENCY.md for property C14.  Concurrent writers on DIFFERENT inputs and structural
// changers (subscribe/unsubscribe a source, add/delete an element, monitor/unmonitor an input, re-point InheritFrom)
// run freely on the real objects (2-8 goroutines, GOMAXPROCS(1) variants) or through forced schedules (callbacks of
// subscribers, a gated weight Variable and the verif yield points of WaitGroup.Add are gates).  Every call is logged
// when it returned; a watchdog waits for all threads (a hang = `final` with hung threads); at quiescence the inputs and
// the derived getters are read.  TLC validates each execution against spec/reactive/DerivedRun.tla.

import (
	"bufio"
	"encoding/json"
	"flag"
	"fmt"
	"math/rand"
	"os"
	"runtime"
	"sort"
	"strings"
	"sync"
	"time"

	"github.com/iotaledger/hive.go/ds"
	hive "github.com/iotaledger/hive.go/ds/reactive"

	"verifharness/core"
	"verifharness/sched"
)

func init() { core.RegisterCommand("derivedrun", derivedRun) }

type run struct {
	cfg     core.Ev
	mu      sync.Mutex
	evs     []core.Ev
	threads []chan struct{}
	names   []int
	gate    *sched.Gate
}

func newRun(cfg core.Ev) *run { return &run{cfg: cfg, gate: sched.NewGate()} }

func (r *run) log(e core.Ev) { r.mu.Lock(); r.evs = append(r.evs, e); r.mu.Unlock() }

func (r *run) note(s string) { r.log(core.Ev{"op": "note", "what": s}) }

func (r *run) spawn(id int, f func()) {
	ch := make(chan struct{})
	r.mu.Lock()
	r.threads = append(r.threads, ch)
	r.names = append(r.names, id)
	r.mu.Unlock()
	go func() { defer close(ch); f() }()
}

// wait is the watchdog: the ids of the threads that have not returned within d.
func (r *run) wait(d time.Duration) []int {
	hung := []int{}
	deadline := time.After(d)
	r.mu.Lock()
	ths, names := append([]chan struct{}(nil), r.threads...), append([]int(nil), r.names...)
	r.mu.Unlock()
	for i, ch := range ths {
		select {
		case <-ch:
		case <-deadline:
			hung = append(hung, names[i])
			deadline = time.After(time.Millisecond)
		}
	}
	sort.Ints(hung)
	return hung
}

// finish waits for the threads and emits the trace; getters are only read when nobody hangs (a getter may need a lock
// that a hung thread holds).
func (r *run) finish(enc *json.Encoder, d time.Duration, getters func() core.Ev) int {
	hung := r.wait(d)
	r.gate.ReleaseAll()
	final := core.Ev{}
	if len(hung) == 0 {
		final = getters()
	}
	final["op"] = "final"
	final["hung"] = core.Seq(hung)
	r.mu.Lock()
	defer r.mu.Unlock()
	_ = enc.Encode(core.Ev{"op": "reset", "cfg": r.cfg})
	for _, e := range r.evs {
		_ = enc.Encode(e)
	}
	_ = enc.Encode(final)
	return len(hung)
}

func jitter(rg *rand.Rand) {
	switch rg.Intn(4) {
	case 0:
		runtime.Gosched()
	case 1:
		time.Sleep(time.Duration(rg.Intn(150)) * time.Microsecond)
	}
}

func sub(rng *rand.Rand) *rand.Rand { return rand.New(rand.NewSource(rng.Int63())) }

func quiesce() { sched.Quiesce(2 * time.Second) }

// writeVar performs one logged write through one of the two write paths.
func (r *run) writeVar(v hive.Variable[int], i, val int, compute bool) {
	if compute {
		v.Compute(func(int) int { return val })
	} else {
		v.Set(val)
	}
	r.log(core.Ev{"op": "set", "i": i, "v": val})
}

// varWriter: `per` random writes to input i.
func (r *run) varWriter(id int, v hive.Variable[int], i, per, maxVal int, rg *rand.Rand) {
	r.spawn(id, func() {
		for k := 0; k < per; k++ {
			r.writeVar(v, i, rg.Intn(maxVal+1), rg.Intn(3) == 0)
			jitter(rg)
		}
	})
}

// setWriter: `per` random Add / Delete / Replace on source i.
func (r *run) setWriter(id int, s hive.Set[int], i, per int, rg *rand.Rand) {
	r.spawn(id, func() {
		for k := 0; k < per; k++ {
			r.setWrite(s, i, rg)
			jitter(rg)
		}
	})
}

func (r *run) setWrite(s hive.Set[int], i int, rg *rand.Rand) {
	switch e := 1 + rg.Intn(5); rg.Intn(6) {
	case 0, 1, 2:
		s.Add(e)
		r.log(core.Ev{"op": "sadd", "i": i, "e": e})
	case 3, 4:
		s.Delete(e)
		r.log(core.Ev{"op": "sdel", "i": i, "e": e})
	default:
		es := subsetSeq(rg, 5)
		xs := []int{}
		for _, x := range es {
			xs = append(xs, x.(int))
		}
		s.Replace(ds.NewSet(xs...))
		r.log(core.Ev{"op": "srep", "i": i, "es": es})
	}
}

func procs(tr int) {
	if tr%4 == 3 {
		runtime.GOMAXPROCS(1)
	} else {
		runtime.GOMAXPROCS(16)
	}
}

// ------------------------------------------------------------------------------------------------ DerivedVariable

// slowGet is an input whose Get() can be held AFTER it has read the value (a reader that is descheduled right after its
// read): the derived variable must not publish a value computed from that stale read after a newer one.
type slowGet struct {
	hive.Variable[int]
	gate *sched.Gate
}

func (g *slowGet) Get() int {
	v := g.Variable.Get()
	g.gate.Wait("a-get")

	return v
}

func freeVar2(enc *json.Encoder, rng *rand.Rand, forced int) int {
	r := newRun(core.Ev{"kind": "var2"})
	a, b := hive.NewVariable[int](), hive.NewVariable[int]()
	var d hive.DerivedVariable[int]
	if forced == 2 {
		d = hive.NewDerivedVariable2[int](f2, &slowGet{Variable: a, gate: r.gate}, b)
	} else {
		d = hive.NewDerivedVariable2[int](f2, a, b)
	}
	d2 := hive.NewDerivedVariable[int](f1, d)
	getters := func() core.Ev { return core.Ev{"vals": []any{a.Get(), b.Get()}, "d": d.Get(), "d2": d2.Get()} }
	if forced == 2 {
		// writer 2 (input b) is held right after its recomputation has read input a; writer 1 then changes input a
		r.gate.Hold("a-get")
		r.note("thread 2 writes input 2 and is held after its recomputation read input 1; thread 1 then writes input 1")
		r.spawn(2, func() { r.writeVar(b, 2, 4, false) })
		quiesce()
		r.gate.Free("a-get")
		r.spawn(1, func() { r.writeVar(a, 1, 3, false) })
		quiesce()
		r.gate.ReleaseAll()
		return r.finish(enc, 5*time.Second, getters)
	}
	if forced >= 0 {
		// a subscriber of the derived variable is the gate: writer 1's update is in flight (parked inside the derived
		// variable's notification) while writer 2 changes the other input (forced 0) or the same writer order reversed (1)
		d.OnUpdate(func(_, _ int) { r.gate.Wait("d-cb") })
		r.gate.Hold("d-cb")
		first, second := a, b
		if forced == 1 {
			first, second = b, a
		}
		r.spawn(1, func() { r.writeVar(first, 1+forced, 3, false) })
		quiesce()
		r.gate.Free("d-cb")
		r.spawn(2, func() { r.writeVar(second, 2-forced, 4, true) })
		quiesce()
		r.gate.ReleaseAll()
		return r.finish(enc, 5*time.Second, getters)
	}
	per := 3 + rng.Intn(12)
	r.varWriter(1, a, 1, per, 9, sub(rng))
	r.varWriter(2, b, 2, per, 9, sub(rng))
	for t := 0; t < rng.Intn(4); t++ { // readers / late subscribers add load, they do not write
		rg := sub(rng)
		r.spawn(10+t, func() {
			for k := 0; k < per; k++ {
				_ = d.Get()
				if rg.Intn(4) == 0 {
					u := d2.OnUpdate(func(_, _ int) { jitter(rg) }, true)
					jitter(rg)
					u()
				}
				jitter(rg)
			}
		})
	}
	return r.finish(enc, 10*time.Second, getters)
}

func freeInherit(enc *json.Encoder, rng *rand.Rand, forced int) int {
	r := newRun(core.Ev{"kind": "inherit"})
	src := []hive.Variable[int]{hive.NewVariable[int](), hive.NewVariable[int]()}
	d := hive.NewVariable[int]()
	getters := func() core.Ev { return core.Ev{"vals": []any{src[0].Get(), src[1].Get()}, "d": d.Get()} }
	var unsub func()
	point := func(k int) {
		if unsub != nil {
			unsub()
			unsub = nil
		}
		if k != 0 {
			unsub = d.InheritFrom(src[k-1])
		}
		r.log(core.Ev{"op": "point", "i": k})
	}
	if forced >= 0 {
		// the inheriting variable's subscriber holds source 1's update in flight while the re-pointer moves to source 2
		point(1)
		d.OnUpdate(func(_, _ int) { r.gate.Wait("d-cb") })
		r.gate.Hold("d-cb")
		r.spawn(1, func() { r.writeVar(src[0], 1, 5, false) })
		quiesce()
		r.gate.Free("d-cb")
		r.spawn(2, func() { r.writeVar(src[1], 2, 7, false) })
		r.spawn(3, func() { point(2) })
		quiesce()
		r.gate.ReleaseAll()
		return r.finish(enc, 5*time.Second, getters)
	}
	per := 3 + rng.Intn(12)
	r.varWriter(1, src[0], 1, per, 9, sub(rng))
	r.varWriter(2, src[1], 2, per, 9, sub(rng))
	rg := sub(rng)
	r.spawn(3, func() {
		for k := 0; k < per; k++ {
			point(rg.Intn(3))
			jitter(rg)
		}
		point(1 + rg.Intn(2)) // ends inheriting from a source, so that the final value is determined
	})
	return r.finish(enc, 10*time.Second, getters)
}

// ------------------------------------------------------------------------------------------------ DerivedSet / SubtractReactive

func sortedSet(s ds.ReadableSet[int]) []any { return core.SortedInts(s.ToSlice()) }

func freeUnion(enc *json.Encoder, rng *rand.Rand, forced int) int {
	n := 2 + rng.Intn(2)
	if forced >= 0 {
		n = 2
	}
	r := newRun(core.Ev{"kind": "union", "n": n})
	srcs := []hive.Set[int]{}
	for i := 0; i < n; i++ {
		srcs = append(srcs, hive.NewSet[int]())
	}
	d := hive.NewDerivedSet[int]()
	getters := func() core.Ev {
		sets := []any{}
		for _, s := range srcs {
			sets = append(sets, sortedSet(s))
		}
		return core.Ev{"sets": sets, "d": sortedSet(d)}
	}
	unsubs := make([]func(), n)
	toggle := func(i int) { // subscribe source i if it is not inherited, else unsubscribe it
		if unsubs[i-1] == nil {
			unsubs[i-1] = d.InheritFrom(srcs[i-1])
			r.log(core.Ev{"op": "flag", "i": i, "on": true})
		} else {
			unsubs[i-1]()
			unsubs[i-1] = nil
			r.log(core.Ev{"op": "flag", "i": i, "on": false})
		}
	}
	if forced >= 0 {
		// a subscriber of the derived set holds source 1's update in flight; meanwhile source 1 is unsubscribed and
		// source 2 (overlapping elements) is written / replaced
		toggle(1)
		toggle(2)
		srcs[0].Add(1)
		r.log(core.Ev{"op": "sadd", "i": 1, "e": 1})
		srcs[1].Add(2)
		r.log(core.Ev{"op": "sadd", "i": 2, "e": 2})
		d.OnUpdate(func(ds.SetMutations[int]) { r.gate.Wait("d-cb") })
		r.gate.Hold("d-cb")
		r.spawn(1, func() { srcs[0].Add(2); r.log(core.Ev{"op": "sadd", "i": 1, "e": 2}); srcs[0].Add(3); r.log(core.Ev{"op": "sadd", "i": 1, "e": 3}) })
		quiesce()
		r.gate.Free("d-cb")
		r.spawn(3, func() { toggle(1) })
		quiesce()
		r.spawn(2, func() {
			srcs[1].Replace(ds.NewSet(2, 3))
			r.log(core.Ev{"op": "srep", "i": 2, "es": []any{2, 3}})
			if forced == 1 {
				srcs[1].Delete(2)
				r.log(core.Ev{"op": "sdel", "i": 2, "e": 2})
			}
		})
		quiesce()
		r.gate.ReleaseAll()
		return r.finish(enc, 5*time.Second, getters)
	}
	per := 3 + rng.Intn(12)
	for i := 1; i <= n; i++ {
		i := i
		r.setWriter(i, srcs[i-1], i, per, sub(rng))
		rg := sub(rng)
		r.spawn(10+i, func() {
			for k := 0; k < 1+per/2; k++ {
				toggle(i)
				jitter(rg)
			}
		})
	}
	return r.finish(enc, 10*time.Second, getters)
}

func freeSubtract(enc *json.Encoder, rng *rand.Rand, forced int) int {
	r := newRun(core.Ev{"kind": "subtract"})
	s := []hive.Set[int]{hive.NewSet[int](), hive.NewSet[int](), hive.NewSet[int]()}
	var d hive.Set[int]
	getters := func() core.Ev {
		return core.Ev{"sets": []any{sortedSet(s[0]), sortedSet(s[1]), sortedSet(s[2])}, "d": sortedSet(d)}
	}
	per := 3 + rng.Intn(12)
	if rng.Intn(2) == 0 { // derived from the start, or while the writers are running
		d = s[0].SubtractReactive(s[1], s[2])
	}
	for i := 1; i <= 3; i++ {
		r.setWriter(i, s[i-1], i, per, sub(rng))
	}
	if d == nil {
		rg := sub(rng)
		r.spawn(10, func() {
			jitter(rg)
			d = s[0].SubtractReactive(s[1], s[2])
		})
	}
	return r.finish(enc, 10*time.Second, getters)
}

// ------------------------------------------------------------------------------------------------ Counter

func freeCounter(enc *json.Encoder, rng *rand.Rand, forced int) int {
	n, cond := 2+rng.Intn(2), core.Pick(rng, "nz", "ge2")
	if forced >= 0 {
		n = 2
	}
	r := newRun(core.Ev{"kind": "counter", "n": n, "cond": cond})
	c := newCounter(cond)
	in := []hive.Variable[int]{}
	for i := 0; i < n; i++ {
		in = append(in, hive.NewVariable[int]())
	}
	getters := func() core.Ev {
		vals := []any{}
		for _, v := range in {
			vals = append(vals, v.Get())
		}
		return core.Ev{"vals": vals, "d": c.Get()}
	}
	unmon := make([]func(), n)
	toggle := func(i int) {
		if unmon[i-1] == nil {
			unmon[i-1] = c.Monitor(in[i-1])
			r.log(core.Ev{"op": "flag", "i": i, "on": true})
		} else {
			unmon[i-1]()
			unmon[i-1] = nil
			r.log(core.Ev{"op": "flag", "i": i, "on": false})
		}
	}
	if forced >= 0 {
		// a subscriber of the counter holds input 1's update in flight; input 1 is un-monitored and input 2 written meanwhile
		toggle(1)
		toggle(2)
		c.OnUpdate(func(_, _ int) { r.gate.Wait("c-cb") })
		r.gate.Hold("c-cb")
		r.spawn(1, func() { r.writeVar(in[0], 1, 2, false) })
		quiesce()
		r.gate.Free("c-cb")
		r.spawn(3, func() { toggle(1) })
		r.spawn(2, func() { r.writeVar(in[1], 2, 2, true) })
		quiesce()
		r.gate.ReleaseAll()
		return r.finish(enc, 5*time.Second, getters)
	}
	per := 3 + rng.Intn(12)
	for i := 1; i <= n; i++ {
		i := i
		r.varWriter(i, in[i-1], i, per, 3, sub(rng))
		rg := sub(rng)
		r.spawn(10+i, func() {
			for k := 0; k < 1+per/2; k++ {
				toggle(i)
				jitter(rg)
			}
		})
	}
	return r.finish(enc, 10*time.Second, getters)
}

// ------------------------------------------------------------------------------------------------ SortedSet

// gatedVar wraps the weight Variable handed to the SortedSet by the weightVariable factory: the SortedSet's weight
// callback and the return of its OnUpdate call become gates (no hook inside the library is needed).
type gatedVar struct {
	hive.Variable[int]
	gate *sched.Gate
	name string
}

func (g *gatedVar) OnUpdate(cb func(o, n int), trig ...bool) func() {
	u := g.Variable.OnUpdate(func(o, n int) {
		g.gate.Wait("w-cb-" + g.name)
		cb(o, n)
	}, trig...)
	g.gate.Wait("w-sub-" + g.name)

	return u
}

type sortedRun[E intLike] struct {
	r *run
	w []hive.Variable[int]
	s hive.SortedSet[E]
}

func newSortedRun[E intLike](n int, tie bool) *sortedRun[E] {
	x := &sortedRun[E]{r: newRun(core.Ev{"kind": "sorted", "n": n, "tie": tie})}
	gated := []*gatedVar{}
	for i := 1; i <= n; i++ {
		v := hive.NewVariable[int]()
		x.w = append(x.w, v)
		gated = append(gated, &gatedVar{Variable: v, gate: x.r.gate, name: fmt.Sprint(i)})
	}
	x.s = hive.NewSortedSet[E, int](func(e E) hive.Variable[int] { return gated[int(e)-1] })
	return x
}

func (x *sortedRun[E]) getters() core.Ev {
	st := sortedSt(x.s, x.w)
	st["vals"] = st["w"]
	delete(st, "w")
	return st
}

func (x *sortedRun[E]) member(e int, on bool) {
	if on {
		x.s.Add(E(e))
	} else {
		x.s.Delete(E(e))
	}
	x.r.log(core.Ev{"op": "flag", "i": e, "on": on})
}

// freeSorted: one weight writer and one member toggler per element.  sameThread: an element's weight is only written
// by the thread that also adds/deletes it (no weight update concurrent with the Delete of the same element).
func freeSorted[E intLike](enc *json.Encoder, rng *rand.Rand, tie bool, sameThread bool) int {
	n := 2 + rng.Intn(3)
	x := newSortedRun[E](n, tie)
	r := x.r
	per := 3 + rng.Intn(10)
	for e := 1; e <= n; e++ {
		e := e
		rg := sub(rng)
		if sameThread {
			r.spawn(e, func() {
				on := false
				for k := 0; k < 2*per; k++ {
					if rg.Intn(3) == 0 {
						on = !on
						x.member(e, on)
					} else {
						r.writeVar(x.w[e-1], e, rg.Intn(3), false)
					}
					jitter(rg)
				}
			})
			continue
		}
		r.varWriter(e, x.w[e-1], e, per, 2, rg)
		rg2 := sub(rng)
		r.spawn(10+e, func() {
			on := false
			for k := 0; k < 1+per/2; k++ {
				on = !on
				x.member(e, on)
				jitter(rg2)
			}
		})
	}
	return r.finish(enc, 10*time.Second, x.getters)
}

// forcedSorted 0: (TLC: DerivedSortedImpl, variant unsub_under_mutex) the weight callback of element 1 is held (it owns
// the callback's execution lock), Delete(1) arrives on another thread (takes the set mutex, then needs the execution
// lock to unsubscribe), then the callback is released (needs the set mutex).
// forcedSorted 1: the same with the Delete of ANOTHER element and a weight change of a removed element (no lock cycle).
// forcedSorted 2: a weight update arrives in the window in which addSorted has subscribed but not yet stored its
// unsubscribe function (the callback then runs without the set mutex).
func forcedSorted(enc *json.Encoder, sc int) int {
	x := newSortedRun[int](3, false)
	r := x.r
	x.member(1, true)
	x.member(2, true)
	r.writeVar(x.w[0], 1, 1, false)
	switch sc {
	case 0, 1:
		r.gate.Hold("w-cb-1")
		r.note("thread 1 calls weight(1).Set(2); the SortedSet's weight callback is held before it runs (it owns the callback's execution lock)")
		r.spawn(1, func() { r.writeVar(x.w[0], 1, 2, false) })
		quiesce()
		r.gate.Free("w-cb-1")
		if sc == 0 {
			r.note("thread 2 calls SortedSet.Delete(1); then the callback is released")
			r.spawn(2, func() { x.member(1, false) })
		} else {
			r.spawn(2, func() { x.member(2, false); r.writeVar(x.w[1], 2, 2, false) })
		}
		quiesce()
		r.gate.ReleaseAll()
	case 3:
		// as 2, but the unlocked callback is itself held (by a subscriber of HeaviestElement) between moving the element
		// and updating LightestElement; Add(3) returns, Delete(3) runs under the mutex, then the callback finishes
		x.s.HeaviestElement().OnUpdate(func(_, _ int) { r.gate.Wait("hi-cb") })
		r.gate.Hold("w-sub-3")
		r.note("thread 1 calls SortedSet.Add(3) and is held when its OnUpdate on weight(3) returns (before the unsubscribe function is stored)")
		r.spawn(1, func() { x.member(3, true) })
		quiesce()
		r.gate.Free("w-sub-3")
		r.gate.Hold("hi-cb")
		r.note("thread 2 calls weight(3).Set(2): its callback runs WITHOUT the set mutex and is held inside HeaviestElement's notification")
		r.spawn(2, func() { r.writeVar(x.w[2], 3, 2, false) })
		quiesce()
		r.gate.Free("hi-cb")
		r.note("Add(3) continues and returns; thread 3 calls SortedSet.Delete(3); then thread 2's callback continues")
		r.gate.Release("w-sub-3")
		_ = sched.Quiesce(2 * time.Second)
		r.spawn(3, func() { x.member(3, false) })
		quiesce()
		r.gate.ReleaseAll()
	case 6:
		// a Delete queues for the set mutex (held by a weight update that is stuck in HeaviestElement's notification), then a
		// weight change of the element that is being deleted queues behind the Delete: it must not touch the removed element
		x.member(3, true)
		r.writeVar(x.w[0], 1, 30, false)
		r.writeVar(x.w[1], 2, 20, false)
		r.writeVar(x.w[2], 3, 10, false)
		x.s.HeaviestElement().OnUpdate(func(_, _ int) { r.gate.Wait("hi-cb") })
		r.gate.Hold("hi-cb")
		r.note("thread 1 calls weight(3).Set(40) and is held inside HeaviestElement's notification (it holds the set mutex)")
		r.spawn(1, func() { r.writeVar(x.w[2], 3, 40, false) })
		quiesce()
		r.gate.Free("hi-cb")
		r.note("thread 2 calls SortedSet.Delete(2) and waits for the mutex; thread 3 then calls weight(2).Set(50) and waits behind it")
		r.spawn(2, func() { x.member(2, false) })
		quiesce()
		r.spawn(3, func() { r.writeVar(x.w[1], 2, 50, false) })
		quiesce()
		r.gate.ReleaseAll()
	case 4, 5:
		// two modifications that both change the LIGHTEST element: the first one (which also changes the heaviest) is held inside
		// HeaviestElement's notification, the second one (a weight change / a Delete of another element) arrives meanwhile
		x.member(3, true)
		r.writeVar(x.w[0], 1, 30, false)
		r.writeVar(x.w[1], 2, 20, false)
		r.writeVar(x.w[2], 3, 10, false)
		x.s.HeaviestElement().OnUpdate(func(_, _ int) { r.gate.Wait("hi-cb") })
		r.gate.Hold("hi-cb")
		r.note("thread 1 calls weight(3).Set(40) - element 3 becomes the heaviest, 2 the lightest - and is held inside HeaviestElement's notification")
		r.spawn(1, func() { r.writeVar(x.w[2], 3, 40, false) })
		quiesce()
		r.gate.Free("hi-cb")
		if sc == 4 {
			r.note("thread 2 calls weight(2).Set(35): 1 becomes the lightest")
			r.spawn(2, func() { r.writeVar(x.w[1], 2, 35, false) })
		} else {
			r.note("thread 2 calls SortedSet.Delete(2): 1 becomes the lightest")
			r.spawn(2, func() { x.member(2, false) })
		}
		quiesce()
		r.gate.ReleaseAll()
	case 2:
		r.gate.Hold("w-sub-3")
		r.note("thread 1 calls SortedSet.Add(3) and is held when its OnUpdate on weight(3) returns; thread 2 then calls weight(3).Set(2)")
		r.spawn(1, func() { x.member(3, true) })
		quiesce()
		r.gate.Free("w-sub-3")
		r.spawn(2, func() { r.writeVar(x.w[2], 3, 2, false) })
		quiesce()
		r.gate.ReleaseAll()
	}
	return r.finish(enc, 3*time.Second, x.getters)
}

// ------------------------------------------------------------------------------------------------ WaitGroup

type wgRun struct {
	r      *run
	wg     hive.WaitGroup[int]
	waited chan struct{}
	owned  bool
}

func newWgRun(owned bool) *wgRun {
	x := &wgRun{r: newRun(core.Ev{"kind": "waitgroup"}), wg: hive.NewWaitGroup[int](), waited: make(chan struct{}), owned: owned}
	x.wg.OnTrigger(func() { x.r.log(core.Ev{"op": "trig"}) })
	go func() { x.wg.Wait(); close(x.waited) }()
	return x
}

func (x *wgRun) add(t int, es ...int) {
	x.r.log(core.Ev{"op": "addB", "t": t, "es": core.Seq(es)})
	x.wg.Add(es...)
	x.r.log(core.Ev{"op": "addE", "t": t})
}

func (x *wgRun) done(t int, es ...int) {
	x.r.log(core.Ev{"op": "doneB", "t": t, "es": core.Seq(es)})
	x.wg.Done(es...)
	x.r.log(core.Ev{"op": "doneE", "t": t})
}

func (x *wgRun) getters() core.Ev {
	trig := x.wg.WasTriggered()
	waited := false
	d := 30 * time.Millisecond
	if trig {
		d = 3 * time.Second
	}
	select {
	case <-x.waited:
		waited = true
	case <-time.After(d):
	}
	return core.Ev{"pend": sortedSet(x.wg.PendingElements()), "trig": trig, "waited": waited, "owned": x.owned}
}

func freeWaitGroup(enc *json.Encoder, rng *rand.Rand, partner bool) int {
	x := newWgRun(!partner)
	r := x.r
	nt := 2 + rng.Intn(3)
	per := 2 + rng.Intn(6)
	for t := 1; t <= nt; t++ {
		t := t
		rg := sub(rng)
		own := []int{10*t + 1, 10*t + 2, 10*t + 3}
		pick := func() []int {
			es := []int{own[rg.Intn(3)]}
			for rg.Intn(2) == 0 && len(es) < 3 {
				es = append(es, own[rg.Intn(3)]) // duplicates inside one call happen
			}
			return es
		}
		if !partner {
			r.spawn(t, func() {
				for k := 0; k < per; k++ {
					if rg.Intn(2) == 0 {
						x.add(t, pick()...)
					} else {
						x.done(t, pick()...)
					}
					jitter(rg)
				}
				if rg.Intn(3) != 0 {
					x.done(t, own...)
				}
			})
			continue
		}
		// the owner adds all its elements in ONE call; its partner marks the first one done as soon as it sees it pending
		r.spawn(t, func() {
			jitter(rg)
			x.add(t, own...)
			jitter(rg)
			x.done(t, own[1], own[2])
		})
		r.spawn(4+t, func() {
			for i := 0; i < 2_000_000 && !x.wg.PendingElements().Has(own[0]); i++ {
				runtime.Gosched()
			}
			if x.wg.PendingElements().Has(own[0]) {
				r.log(core.Ev{"op": "seen", "e": own[0]})
			}
			x.done(4+t, own[0])
		})
	}
	return r.finish(enc, 10*time.Second, x.getters)
}

// forcedWaitGroup 0: (TLC: DerivedWaitGroupImpl, variant inc_after_insert) Add(1,2) is held after it inserted element 1;
// Done(1) arrives; then Add continues; later Done(2).   The trigger must not come before Done(2).
// forcedWaitGroup 1: (TLC: DerivedWaitGroupImpl, variant dup_no_trigger) element 1 is pending; a second Add(1) is held
// between the failed insertion and the correction of the counter; Done(1) arrives; then Add continues.
func forcedWaitGroup(enc *json.Encoder, sc int) int {
	x := newWgRun(false)
	r := x.r
	hive.VerifHook = func(p string) { r.gate.Wait("hook:" + p) }
	defer func() { hive.VerifHook = nil }()
	switch sc {
	case 0:
		r.gate.Hold("hook:waitgroup-add-inserted")
		r.note("thread 1 calls Add(1,2) and is held after inserting 1; thread 2 calls Done(1); Add continues; thread 3 calls Done(2)")
		r.spawn(1, func() { x.add(1, 1, 2) })
		quiesce()
		r.gate.Free("hook:waitgroup-add-inserted")
		if x.wg.PendingElements().Has(1) {
			r.log(core.Ev{"op": "seen", "e": 1})
		}
		r.spawn(2, func() { x.done(2, 1) })
		quiesce()
		r.gate.ReleaseAll()
		_ = r.wait(3 * time.Second)
		r.spawn(3, func() { x.done(3, 2) })
	case 1:
		x.add(3, 1)
		r.gate.Hold("hook:waitgroup-add-duplicate")
		r.note("1 is pending; thread 1 calls Add(1) again and is held before it corrects the counter for the duplicate; thread 2 calls Done(1); Add continues")
		r.spawn(1, func() { x.add(1, 1) })
		quiesce()
		r.gate.Free("hook:waitgroup-add-duplicate")
		r.spawn(2, func() { x.done(2, 1) })
		quiesce()
		r.gate.ReleaseAll()
	}
	return r.finish(enc, 3*time.Second, x.getters)
}

// ------------------------------------------------------------------------------------------------ EvictionState

func freeEvict(enc *json.Encoder, rng *rand.Rand) int {
	r := newRun(core.Ev{"kind": "evict"})
	es := hive.NewEvictionState[int]()
	type handle struct {
		slot int
		ev   hive.Event
	}
	var hmu sync.Mutex
	handles := []handle{}
	maxSlot := 3 + rng.Intn(6)
	for t := 1; t <= 1+rng.Intn(2); t++ { // evictors (their slots interleave)
		rg := sub(rng)
		r.spawn(t, func() {
			for s := rg.Intn(2); s <= maxSlot; s += 1 + rg.Intn(3) {
				jitter(rg)
				r.log(core.Ev{"op": "evictB", "s": s})
				es.Evict(s)
				r.log(core.Ev{"op": "evict", "s": s})
			}
		})
	}
	for t := 3; t <= 4+rng.Intn(3); t++ { // requesters keep their handles
		t := t
		rg := sub(rng)
		r.spawn(t, func() {
			for k := 0; k < 4+rg.Intn(8); k++ {
				s := rg.Intn(maxSlot + 2)
				r.log(core.Ev{"op": "reqB", "t": t, "s": s})
				h := es.EvictionEvent(s)
				trig := 0
				if h.WasTriggered() {
					trig = 1
				}
				r.log(core.Ev{"op": "req", "t": t, "s": s, "trig": trig})
				hmu.Lock()
				handles = append(handles, handle{s, h})
				hmu.Unlock()
				jitter(rg)
			}
		})
	}
	return r.finish(enc, 10*time.Second, func() core.Ev {
		hs := []any{}
		for _, h := range handles {
			trig := 0
			if h.ev.WasTriggered() {
				trig = 1
			}
			hs = append(hs, []any{h.slot, trig})
		}
		return core.Ev{"last": es.LastEvictedSlot(), "handles": hs}
	})
}

// ctlEvict: evictors and requesters under a controlled random scheduler: every acquisition of the EvictionState mutex is
// a stopping point (hook evictionstate-lock); between two quiescent points exactly one parked goroutine is released, so a
// requester can be run to completion while an evictor stands between two of its critical sections (if it has two).
func ctlEvict(enc *json.Encoder, rng *rand.Rand) int {
	r := newRun(core.Ev{"kind": "evict"})
	r.gate.HoldAll()
	hive.VerifHook = func(p string) {
		if p == "evictionstate-lock" {
			r.gate.Wait("hook:" + p)
		}
	}
	defer func() { hive.VerifHook = nil }()
	es := hive.NewEvictionState[int]()
	type handle struct {
		slot int
		ev   hive.Event
	}
	var hmu sync.Mutex
	handles := []handle{}
	maxSlot := 1 + rng.Intn(3)
	var done sync.WaitGroup
	spawn := func(id int, f func()) {
		done.Add(1)
		r.spawn(id, func() { defer done.Done(); f() })
	}
	for t := 1; t <= 1+rng.Intn(2); t++ {
		rg := sub(rng)
		spawn(t, func() {
			for s := rg.Intn(2); s <= maxSlot; s += 1 + rg.Intn(2) {
				r.log(core.Ev{"op": "evictB", "s": s})
				es.Evict(s)
				r.log(core.Ev{"op": "evict", "s": s})
			}
		})
	}
	for t := 3; t <= 3+rng.Intn(2); t++ {
		t := t
		rg := sub(rng)
		spawn(t, func() {
			for k := 0; k < 2+rg.Intn(3); k++ {
				s := rg.Intn(maxSlot + 1)
				r.log(core.Ev{"op": "reqB", "t": t, "s": s})
				h := es.EvictionEvent(s)
				trig := 0
				if h.WasTriggered() {
					trig = 1
				}
				r.log(core.Ev{"op": "req", "t": t, "s": s, "trig": trig})
				hmu.Lock()
				handles = append(handles, handle{s, h})
				hmu.Unlock()
			}
		})
	}
	allDone := make(chan struct{})
	go func() { done.Wait(); close(allDone) }()
	sticky := ""
	for step := 0; step < 400; step++ {
		sched.QuiesceOpt(50*time.Millisecond, 2, false)
		n := r.gate.Parked("hook:evictionstate-lock")
		if n == 0 {
			select {
			case <-allDone:
				step = 1 << 30
			default:
			}
			continue
		}
		_ = sticky
		// release one of the parked goroutines: the oldest or (as often) a random later one
		r.gate.ReleaseNth("hook:evictionstate-lock", rng.Intn(n))
	}
	r.gate.ReleaseAll()
	return r.finish(enc, 5*time.Second, func() core.Ev {
		hs := []any{}
		for _, h := range handles {
			trig := 0
			if h.ev.WasTriggered() {
				trig = 1
			}
			hs = append(hs, []any{h.slot, trig})
		}
		return core.Ev{"last": es.LastEvictedSlot(), "handles": hs}
	})
}

// ------------------------------------------------------------------------------------------------ command

// derivedrun -seed S -traces N -out F [-kinds a,b,...] [-forced name,...|all|none]
func derivedRun(args []string) int {
	fs := flag.NewFlagSet("derivedrun", flag.ExitOnError)
	seed := fs.Int64("seed", 1, "")
	traces := fs.Int("traces", 60, "")
	out := fs.String("out", "", "")
	kinds := fs.String("kinds", "var2,inherit,union,subtract,counter,sorted,sortedtie,waitgroup,waitgroup2,evict,evictctl", "")
	forced := fs.String("forced", "all", "")
	_ = fs.Parse(args)
	f, err := os.Create(*out)
	if err != nil {
		fmt.Fprintln(os.Stderr, err)
		return 2
	}
	defer f.Close()
	w := bufio.NewWriter(f)
	defer w.Flush()
	enc := json.NewEncoder(w)
	rng := rand.New(rand.NewSource(*seed))
	hangs, n := 0, 0
	want := func(name string) bool {
		if *forced == "all" {
			return !strings.HasPrefix(name, "known-")
		}
		for _, x := range strings.Split(*forced, ",") {
			if x == name {
				return true
			}
		}
		return false
	}
	runtime.GOMAXPROCS(16)
	type fsc struct {
		name string
		f    func() int
	}
	for _, sc := range []fsc{
		{"var2-0", func() int { return freeVar2(enc, rng, 0) }},
		{"var2-1", func() int { return freeVar2(enc, rng, 1) }},
		{"var2-2", func() int { return freeVar2(enc, rng, 2) }},
		{"inherit-0", func() int { return freeInherit(enc, rng, 0) }},
		{"union-0", func() int { return freeUnion(enc, rng, 0) }},
		{"union-1", func() int { return freeUnion(enc, rng, 1) }},
		{"counter-0", func() int { return freeCounter(enc, rng, 0) }},
		{"sorted-0", func() int { return forcedSorted(enc, 0) }},
		{"sorted-1", func() int { return forcedSorted(enc, 1) }},
		{"sorted-2", func() int { return forcedSorted(enc, 2) }},
		{"sorted-3", func() int { return forcedSorted(enc, 3) }},
		{"sorted-4", func() int { return forcedSorted(enc, 4) }},
		{"sorted-5", func() int { return forcedSorted(enc, 5) }},
		{"sorted-6", func() int { return forcedSorted(enc, 6) }},
		{"waitgroup-0", func() int { return forcedWaitGroup(enc, 0) }},
		{"waitgroup-1", func() int { return forcedWaitGroup(enc, 1) }},
	} {
		if want(sc.name) {
			hangs += sc.f()
			n++
		}
	}
	ks := strings.Split(*kinds, ",")
	if *kinds == "" || *traces == 0 {
		ks = nil
	}
	for tr := 0; tr < *traces && len(ks) > 0; tr++ {
		procs(tr / len(ks))
		switch ks[tr%len(ks)] {
		case "var2":
			hangs += freeVar2(enc, rng, -1)
		case "inherit":
			hangs += freeInherit(enc, rng, -1)
		case "union":
			hangs += freeUnion(enc, rng, -1)
		case "subtract":
			hangs += freeSubtract(enc, rng, -1)
		case "counter":
			hangs += freeCounter(enc, rng, -1)
		case "sorted":
			hangs += freeSorted[int](enc, rng, false, false)
		case "sortedtie":
			hangs += freeSorted[lessInt](enc, rng, true, false)
		case "sortedsame":
			hangs += freeSorted[int](enc, rng, false, true)
		case "waitgroup":
			hangs += freeWaitGroup(enc, rng, false)
		case "waitgroup2":
			hangs += freeWaitGroup(enc, rng, true)
		case "evict":
			hangs += freeEvict(enc, rng)
		case "evictctl":
			hangs += ctlEvict(enc, rng)
		default:
			fmt.Fprintln(os.Stderr, "unknown kind", ks[tr%len(ks)])
			return 2
		}
		n++
	}
	runtime.GOMAXPROCS(16)
	fmt.Printf("{\"traces\": %d, \"hangs\": %d}\n", n, hangs)
	return 0
}
