// Package kvstore adapts the in-memory KVStore (mapdb) seen through a tree of realm views and the
// flushkv / debug wrappers (property C04) to the TLA+ module KVStore.
package kvstore

import (
	"bytes"
	"errors"
	"fmt"
	"math/rand"

	hkv "github.com/iotaledger/hive.go/kvstore"
	"github.com/iotaledger/hive.go/kvstore/debug"
	"github.com/iotaledger/hive.go/kvstore/flushkv"
	"github.com/iotaledger/hive.go/kvstore/mapdb"

	"verifharness/core"
)

// the fixed view tree of the spec: view id -> realm (RealmOf in KVStore.tla).
var realmOf = [][]byte{nil, {}, {0}, {0, 0}, {0, 255}, {1}}

const (
	nViews      = 5
	maxBatches  = 2
	maxBatchOps = 8 // KVStore.trace.cfg
	poolMax     = 16
)

var alphabet = []byte{0, 1, 255}
var values = [][]byte{{}, {1}, {2}}

type batchSlot struct {
	bm   hkv.BatchedMutations
	bufs [][]byte // every buffer handed to the batch (scribbled over after Commit when mut)
	nops int
	view int
}

type pair struct {
	v int
	k []byte
}

type kvSUT struct {
	root    hkv.KVStore // the wrapped root view made at reset; the observer for st
	views   [nViews + 1]hkv.KVStore
	batches [maxBatches + 1]*batchSlot
	closed  bool
	cbCalls int

	// recorder only
	pairs   []pair // (view, key) whose full key lies in the per-trace pool of <= 16 full keys
	step    int
	closeAt int
}

func init() { core.Register("KVStore", func() core.SUT { return &kvSUT{} }) }

func cp(b []byte) []byte { return append(make([]byte, 0, len(b)+8), b...) }

func scribble(b []byte) {
	for i := range b {
		b[i] = 0x77
	}
}

func bs(b []byte) []any {
	out := make([]any, len(b))
	for i, x := range b {
		out[i] = int(x)
	}
	return out
}

func getBytes(e core.Ev, k string) []byte {
	xs := core.Ints(e, k)
	out := make([]byte, len(xs)) // non-nil also when empty
	for i, x := range xs {
		out[i] = byte(x)
	}
	return out
}

func errName(err error) string {
	switch {
	case err == nil:
		return "ok"
	case errors.Is(err, hkv.ErrStoreClosed):
		return "ErrStoreClosed"
	case errors.Is(err, hkv.ErrKeyNotFound):
		return "ErrKeyNotFound"
	}
	return "error: " + err.Error()
}

func must(s hkv.KVStore, err error) hkv.KVStore {
	if err != nil {
		panic(err)
	}
	return s
}

func (s *kvSUT) Reset(cfg core.Ev) {
	cb := func(debug.Command, ...[]byte) { s.cbCalls++ }
	base := mapdb.NewMapDB()
	switch core.Str(cfg, "wrap") {
	case "none":
		s.root = base
	case "flush":
		s.root = flushkv.New(base)
	case "debug":
		s.root = debug.New(base, cb)
	case "flushdebug": // flushkv over debug
		s.root = flushkv.New(debug.New(base, cb))
	case "debugflush": // debug over flushkv
		s.root = debug.New(flushkv.New(base), cb)
	default:
		panic("unknown wrap")
	}
	s.views[1] = s.root
	// realm arguments are slices with spare capacity (cp), as a caller's []byte("...") conversion or append result has:
	// sibling views made from one parent must not end up sharing the parent's backing array
	s.views[2] = must(s.root.WithRealm(cp([]byte{0})))
	s.views[3] = must(s.views[2].WithExtendedRealm(cp([]byte{0})))
	s.views[4] = must(s.views[2].WithExtendedRealm(cp([]byte{255})))
	s.views[5] = must(s.views[3].WithRealm(cp([]byte{1})))
	for i := range s.batches {
		s.batches[i] = nil
	}
	s.closed = false
	s.step = 0
}

type item struct{ k, v []byte }

// listing iterates view with the consumer stopping after n (> 0) entries; values handed to the consumer are
// scribbled over after they were copied (reads return private copies).
func listing(view hkv.KVStore, prefix []byte, dir string, n int) ([]item, error) {
	var out []item
	consume := func(k hkv.Key, v hkv.Value) bool {
		out = append(out, item{cp(k), cp(v)})
		scribble(v)
		return n == 0 || len(out) < n
	}
	var err error
	switch {
	case dir == "bwd":
		err = view.Iterate(prefix, consume, hkv.IterDirectionBackward)
	case n == 0:
		err = view.Iterate(prefix, consume) // default direction
	default:
		err = view.Iterate(prefix, consume, hkv.IterDirectionForward)
	}
	return out, err
}

func listKeys(view hkv.KVStore, prefix []byte, dir string, n int) ([][]byte, error) {
	var out [][]byte
	consume := func(k hkv.Key) bool {
		out = append(out, cp(k))
		return n == 0 || len(out) < n
	}
	var err error
	switch {
	case dir == "bwd":
		err = view.IterateKeys(prefix, consume, hkv.IterDirectionBackward)
	case n == 0:
		err = view.IterateKeys(prefix, consume)
	default:
		err = view.IterateKeys(prefix, consume, hkv.IterDirectionForward)
	}
	return out, err
}

func kvSeq(items []item) []any {
	out := make([]any, len(items))
	for i, it := range items {
		out[i] = core.Ev{"k": bs(it.k), "v": bs(it.v)}
	}
	return out
}

// st = everything the root view shows, in both directions.
func (s *kvSUT) st() any {
	fwd, err := listing(s.root, hkv.EmptyPrefix, "fwd", 0)
	if errors.Is(err, hkv.ErrStoreClosed) {
		return core.Ev{"closed": true, "fwd": []any{}, "bwd": []any{}}
	}
	if err != nil {
		panic(err)
	}
	bwd, err := listing(s.root, []byte{}, "bwd", 0)
	if err != nil {
		panic(err)
	}
	// cheap cross-checks of the other read paths against the listing
	keys, err := listKeys(s.root, nil, "fwd", 0)
	if err != nil || len(keys) != len(fwd) {
		panic(fmt.Sprintf("IterateKeys(root) disagrees with Iterate(root): %v vs %v (%v)", keys, fwd, err))
	}
	for i, it := range fwd {
		if !bytes.Equal(keys[i], it.k) {
			panic(fmt.Sprintf("IterateKeys(root) disagrees with Iterate(root) at %d", i))
		}
		has, err := s.root.Has(cp(it.k))
		val, err2 := s.root.Get(cp(it.k))
		if err != nil || err2 != nil || !has || !bytes.Equal(val, it.v) {
			panic(fmt.Sprintf("Has/Get(root, %v) disagree with Iterate(root): %v %v %v %v", it.k, has, val, err, err2))
		}
	}
	return core.Ev{"closed": false, "fwd": kvSeq(fwd), "bwd": kvSeq(bwd)}
}

func (s *kvSUT) Apply(e core.Ev) (any, any) {
	op := core.Str(e, "op")
	var view hkv.KVStore
	if _, ok := e["v"]; ok {
		view = s.views[core.Int(e, "v")]
	}
	var slot *batchSlot
	if _, ok := e["b"]; ok {
		slot = s.batches[core.Int(e, "b")]
		if slot == nil {
			panic("batch slot not open")
		}
	}
	mut := false
	if m, ok := e["mut"]; ok {
		mut = m.(bool)
	}
	switch op {
	case "Get":
		key := getBytes(e, "k")
		val, err := view.Get(key)
		res := core.Ev{"err": errName(err), "val": bs(val)}
		if mut {
			scribble(val)
			scribble(key)
		}
		return res, s.st()
	case "Has":
		has, err := view.Has(getBytes(e, "k"))
		return core.Ev{"err": errName(err), "has": has}, s.st()
	case "Set":
		key, val := getBytes(e, "k"), getBytes(e, "val")
		err := view.Set(key, val)
		if mut {
			scribble(key)
			scribble(val)
		}
		return core.Ev{"err": errName(err)}, s.st()
	case "Delete":
		return core.Ev{"err": errName(view.Delete(getBytes(e, "k")))}, s.st()
	case "DeletePrefix":
		return core.Ev{"err": errName(view.DeletePrefix(getBytes(e, "k")))}, s.st()
	case "Clear":
		return core.Ev{"err": errName(view.Clear())}, s.st()
	case "Flush":
		return core.Ev{"err": errName(view.Flush())}, s.st()
	case "Iterate":
		items, err := listing(view, getBytes(e, "k"), core.Str(e, "dir"), core.Int(e, "n"))
		return core.Ev{"err": errName(err), "kv": kvSeq(items)}, s.st()
	case "IterMut":
		// an iteration whose consumer, at its first entry, writes through another handle
		var out []item
		inner := "none"
		mview := s.views[core.Int(e, "mv")]
		consume := func(k hkv.Key, v hkv.Value) bool {
			out = append(out, item{cp(k), cp(v)})
			scribble(v)
			if len(out) == 1 {
				if core.Bool(e, "del") {
					inner = errName(mview.Delete(getBytes(e, "mk")))
				} else {
					inner = errName(mview.Set(getBytes(e, "mk"), getBytes(e, "val")))
				}
			}
			return true
		}
		dir := hkv.IterDirectionForward
		if core.Str(e, "dir") == "bwd" {
			dir = hkv.IterDirectionBackward
		}
		var err error
		if core.Bool(e, "keys") {
			err = view.IterateKeys(getBytes(e, "k"), func(k hkv.Key) bool { return consume(k, []byte{}) }, dir)
		} else {
			err = view.Iterate(getBytes(e, "k"), consume, dir)
		}
		return core.Ev{"err": errName(err), "kv": kvSeq(out), "inner": inner}, s.st()
	case "IterateKeys":
		keys, err := listKeys(view, getBytes(e, "k"), core.Str(e, "dir"), core.Int(e, "n"))
		out := make([]any, len(keys))
		for i, k := range keys {
			out[i] = bs(k)
		}
		return core.Ev{"err": errName(err), "keys": out}, s.st()
	case "Realm":
		return core.Ev{"err": "ok", "realm": bs(view.Realm())}, s.st()
	case "WithRealm", "WithExtendedRealm":
		to := core.Int(e, "to")
		var nv hkv.KVStore
		var err error
		if op == "WithRealm" {
			nv, err = view.WithRealm(cp(realmOf[to]))
		} else {
			nv, err = view.WithExtendedRealm(cp(realmOf[to][len(realmOf[core.Int(e, "v")]):]))
		}
		if err != nil {
			if nv != nil {
				panic("view returned together with an error")
			}
			return core.Ev{"err": errName(err), "realm": []any{}}, s.st()
		}
		s.views[to] = nv // from now on view `to` is used through the new handle
		return core.Ev{"err": "ok", "realm": bs(nv.Realm())}, s.st()
	case "Close":
		err := view.Close()
		s.closed = true
		for _, b := range s.batches {
			if b != nil {
				b.nops = 0
			}
		}
		return core.Ev{"err": errName(err)}, s.st()
	case "Batched":
		bm, err := view.Batched()
		if err != nil {
			if bm != nil {
				panic("batch returned together with an error")
			}
			return core.Ev{"err": errName(err), "b": 0}, s.st()
		}
		for i := 1; i <= maxBatches; i++ {
			if s.batches[i] == nil {
				s.batches[i] = &batchSlot{bm: bm, view: core.Int(e, "v")}
				return core.Ev{"err": "ok", "b": i}, s.st()
			}
		}
		panic("no free batch slot")
	case "BSet":
		key, val := getBytes(e, "k"), getBytes(e, "val")
		slot.bufs = append(slot.bufs, key, val)
		err := slot.bm.Set(key, val)
		if !s.closed {
			slot.nops++
		}
		return core.Ev{"err": errName(err)}, s.st()
	case "BDelete":
		key := getBytes(e, "k")
		slot.bufs = append(slot.bufs, key)
		err := slot.bm.Delete(key)
		if !s.closed {
			slot.nops++
		}
		return core.Ev{"err": errName(err)}, s.st()
	case "Cancel":
		slot.bm.Cancel()
		slot.nops = 0
		return core.Ev{"err": "ok"}, s.st()
	case "Commit":
		err := slot.bm.Commit()
		if mut {
			for _, b := range slot.bufs {
				scribble(b)
			}
		}
		if err == nil {
			s.batches[core.Int(e, "b")] = nil
		}
		return core.Ev{"err": errName(err)}, s.st()
	}
	panic("unknown op " + op)
}

// ---------------------------------------------------------------------------------- recorder

func randKey(r *rand.Rand) []byte {
	k := make([]byte, r.Intn(3))
	for i := range k {
		k[i] = alphabet[r.Intn(len(alphabet))]
	}
	return k
}

func (s *kvSUT) RandomCfg(r *rand.Rand) core.Ev {
	// the pool of full keys that may ever be written in this trace (<= 16 distinct, MaxLive of KVStore.trace.cfg)
	size := core.Pick(r, 3, 6, 12, poolMax, poolMax)
	pool := map[string]bool{}
	for len(pool) < size {
		v := 1 + r.Intn(nViews)
		pool[string(realmOf[v])+string(randKey(r))] = true
	}
	s.pairs = s.pairs[:0]
	for v := 1; v <= nViews; v++ {
		for l := 0; l <= 2; l++ {
			n := 1
			for i := 0; i < l; i++ {
				n *= len(alphabet)
			}
			for c := 0; c < n; c++ {
				k := make([]byte, l)
				for i, x := 0, c; i < l; i, x = i+1, x/len(alphabet) {
					k[i] = alphabet[x%len(alphabet)]
				}
				if pool[string(realmOf[v])+string(k)] {
					s.pairs = append(s.pairs, pair{v, k})
				}
			}
		}
	}
	s.closeAt = -1
	if r.Intn(2) == 0 {
		s.closeAt = 80 + r.Intn(120)
	}
	return core.Ev{"wrap": core.Pick(r, "none", "flush", "debug", "flushdebug", "debugflush")}
}

func (s *kvSUT) poolPair(r *rand.Rand) pair { return s.pairs[r.Intn(len(s.pairs))] }

// anyPair: mostly a written (view,key), sometimes the same full key seen from another view, sometimes random.
func (s *kvSUT) anyPair(r *rand.Rand) pair {
	if r.Intn(10) < 7 {
		return s.poolPair(r)
	}
	return pair{1 + r.Intn(nViews), randKey(r)}
}

func (s *kvSUT) prefixPair(r *rand.Rand) pair {
	p := s.anyPair(r)
	return pair{p.v, p.k[:r.Intn(len(p.k)+1)]}
}

func (s *kvSUT) openSlots() (open []int, free bool, pending int) {
	for i := 1; i <= maxBatches; i++ {
		if s.batches[i] != nil {
			open = append(open, i)
			pending += s.batches[i].nops
		} else {
			free = true
		}
	}
	return
}

func (s *kvSUT) RandomStimulus(r *rand.Rand) core.Ev {
	s.step++
	open, free, pending := s.openSlots()
	v := 1 + r.Intn(nViews)
	val := bs(values[r.Intn(len(values))])
	mut := r.Intn(2) == 0
	dir := core.Pick(r, "fwd", "bwd")
	n := core.Pick(r, 0, 0, 1, 2, 3)
	if !s.closed && s.step == s.closeAt {
		return core.Ev{"op": "Close", "v": v}
	}
	for {
		x := r.Intn(100)
		if s.closed {
			x = r.Intn(60) + 40*r.Intn(2) // after Close: every kind of call equally often
		}
		switch {
		case x < 22:
			p := s.poolPair(r)
			return core.Ev{"op": "Set", "v": p.v, "k": bs(p.k), "val": val, "mut": mut}
		case x < 30:
			p := s.anyPair(r)
			return core.Ev{"op": "Get", "v": p.v, "k": bs(p.k), "mut": mut}
		case x < 34:
			p := s.anyPair(r)
			return core.Ev{"op": "Has", "v": p.v, "k": bs(p.k)}
		case x < 39:
			p := s.anyPair(r)
			return core.Ev{"op": "Delete", "v": p.v, "k": bs(p.k)}
		case x < 42:
			p := s.prefixPair(r)
			return core.Ev{"op": "DeletePrefix", "v": p.v, "k": bs(p.k)}
		case x < 43:
			return core.Ev{"op": "Clear", "v": v}
		case x < 53:
			p := s.prefixPair(r)
			return core.Ev{"op": "Iterate", "v": p.v, "k": bs(p.k), "dir": dir, "n": n}
		case x < 57:
			p := s.prefixPair(r)
			return core.Ev{"op": "IterateKeys", "v": p.v, "k": bs(p.k), "dir": dir, "n": n}
		case x < 59:
			p, q := s.prefixPair(r), s.poolPair(r)
			if len(p.k) > 1 { // (the model's IterMut stimuli use prefixes and keys of at most one byte)
				p.k = p.k[:1]
			}
			if len(q.k) > 1 {
				q.k = q.k[:1]
			}
			if r.Intn(2) == 0 {
				return core.Ev{"op": "IterMut", "keys": r.Intn(2) == 0, "v": p.v, "k": bs(p.k), "dir": dir, "mv": q.v, "mk": bs(q.k), "del": true, "val": []any{}}
			}
			return core.Ev{"op": "IterMut", "keys": r.Intn(2) == 0, "v": p.v, "k": bs(p.k), "dir": dir, "mv": q.v, "mk": bs(q.k), "del": false, "val": bs([]byte{2})}
		case x < 61:
			return core.Ev{"op": "Flush", "v": v}
		case x < 62:
			return core.Ev{"op": "Realm", "v": v}
		case x < 65:
			return core.Ev{"op": "WithRealm", "v": v, "to": 1 + r.Intn(nViews)}
		case x < 68:
			to := 1 + r.Intn(nViews)
			if bytes.HasPrefix(realmOf[to], realmOf[v]) {
				return core.Ev{"op": "WithExtendedRealm", "v": v, "to": to}
			}
		case x < 73:
			if free || s.closed {
				return core.Ev{"op": "Batched", "v": s.anyPair(r).v}
			}
		case x < 85:
			if len(open) > 0 && (pending < maxBatchOps || s.closed) {
				b := open[r.Intn(len(open))]
				var cand []pair // keys whose full key, seen from the batch's view, lies in the pool
				for _, p := range s.pairs {
					if p.v == s.batches[b].view {
						cand = append(cand, p)
					}
				}
				if len(cand) == 0 {
					continue
				}
				return core.Ev{"op": "BSet", "b": b, "k": bs(cand[r.Intn(len(cand))].k), "val": val}
			}
		case x < 91:
			if len(open) > 0 && (pending < maxBatchOps || s.closed) {
				return core.Ev{"op": "BDelete", "b": open[r.Intn(len(open))], "k": bs(s.anyPair(r).k)}
			}
		case x < 93:
			if len(open) > 0 {
				return core.Ev{"op": "Cancel", "b": open[r.Intn(len(open))]}
			}
		case x < 99:
			if len(open) > 0 {
				return core.Ev{"op": "Commit", "b": open[r.Intn(len(open))], "mut": mut}
			}
		default:
			if s.closed {
				return core.Ev{"op": "Close", "v": v}
			}
		}
	}
}
