package events

import (
	"context"
	"errors"
	"fmt"
	"math/rand"

	"github.com/iotaledger/hive.go/runtime/valuenotifier"

	"verifharness/core"
	"verifharness/sched"
)

func init() { core.Register("Notifier", func() core.SUT { return &ntSUT{} }) }

type ntRun struct {
	cfg       core.Ev
	n         *valuenotifier.Notifier[int]
	listeners []*valuenotifier.Listener
	threads   map[int]*sched.Thread
	gid       map[int]int64
	cancel    map[int]context.CancelFunc
	on        map[int]int // thread -> listener it called Wait on
}

type ntSUT struct{ r *ntRun }

func (s *ntSUT) Reset(cfg core.Ev) {
	if old := s.r; old != nil {
		for t, th := range old.threads {
			if c := old.cancel[t]; c != nil {
				c()
			}
			spinUntil(func() bool { return !th.Busy() })
			th.Abandon()
		}
	}
	s.r = &ntRun{cfg: cfg, n: valuenotifier.New[int](), threads: map[int]*sched.Thread{}, gid: map[int]int64{},
		cancel: map[int]context.CancelFunc{}, on: map[int]int{}}
}

func (r *ntRun) thread(i int) *sched.Thread {
	if t := r.threads[i]; t != nil {
		return t
	}
	t := sched.NewThread(i)
	r.threads[i] = t
	t.Go(func() any { return sched.Gid() })
	spinUntil(func() bool { return !t.Busy() })
	_, g, _ := t.Take()
	r.gid[i] = g.(int64)
	return t
}

func (r *ntRun) busy(i int) bool { t := r.threads[i]; return t != nil && t.Busy() }

// quiesce waits until every harness thread has returned from Wait or is parked in Wait's select (park detection on
// the goroutine states); nothing else runs in this subsystem.
func (r *ntRun) quiesce() {
	prev, same := "", 0
	ok := spinUntil(func() bool {
		// who is inside Wait - then one snapshot of the goroutine states, taken AFTER that
		busy := [3]bool{false, r.busy(1), r.busy(2)}
		fp := fmt.Sprint(busy)
		if busy[1] || busy[2] {
			snap := sched.Snapshot()
			for i := 1; i <= 2; i++ {
				if busy[i] && snap[r.gid[i]] != "select" {
					prev, same = "", 0
					return false
				}
			}
		}
		// stable over consecutive polls (a returning Wait may have woken the other thread meanwhile)
		if fp == prev {
			same++
		} else {
			prev, same = fp, 1
		}
		return same >= 2
	})
	if !ok {
		panic("a Wait neither returned nor parked within 5s")
	}
}

func waitResult(err error) string {
	switch {
	case err == nil:
		return "ok"
	case errors.Is(err, valuenotifier.ErrListenerDeregistered):
		return "deregistered"
	case errors.Is(err, context.Canceled):
		return "canceled"
	}
	return "error:" + err.Error()
}

func (s *ntSUT) Apply(e core.Ev) (any, any) {
	r := s.r
	id := 0
	switch op := core.Str(e, "op"); op {
	case "Listener":
		r.listeners = append(r.listeners, r.n.Listener(core.Int(e, "v")))
		id = len(r.listeners)
	case "Notify":
		r.n.Notify(core.Int(e, "v"))
	case "Deregister":
		r.listeners[core.Int(e, "l")-1].Deregister()
	case "Wait":
		t := 0
		for i := 1; i <= 2 && t == 0; i++ {
			if !r.busy(i) {
				t = i
			}
		}
		if t == 0 {
			panic("no idle thread")
		}
		l := r.listeners[core.Int(e, "l")-1]
		ctx, cancel := context.WithCancel(context.Background())
		r.cancel[t] = cancel
		r.on[t] = core.Int(e, "l")
		r.thread(t).Go(func() any { return waitResult(l.Wait(ctx)) })
	case "Cancel":
		r.cancel[core.Int(e, "t")]()
	default:
		panic("unknown op " + op)
	}
	r.quiesce()
	rets := []any{}
	blocked := []int{}
	on := []any{0, 0}
	for i := 1; i <= 2; i++ {
		th := r.threads[i]
		if th == nil {
			continue
		}
		if fin, v, pan := th.Take(); fin {
			if pan != nil {
				panic(pan)
			}
			rets = append(rets, []any{i, v})
			if c := r.cancel[i]; c != nil {
				c()
				delete(r.cancel, i)
			}
		} else if th.Busy() {
			blocked = append(blocked, i)
			on[i-1] = r.on[i]
		}
	}
	return core.Ev{"id": id, "rets": rets}, core.Ev{"blocked": core.SortedInts(blocked), "on": on}
}

func (s *ntSUT) RandomCfg(rd *rand.Rand) core.Ev { return core.Ev{"nl": 8, "nv": 3} }

func (s *ntSUT) RandomStimulus(rd *rand.Rand) core.Ev {
	r := s.r
	var idle, busy []int
	for i := 1; i <= 2; i++ {
		if r.busy(i) {
			busy = append(busy, i)
		} else {
			idle = append(idle, i)
		}
	}
	n := len(r.listeners)
	nv := core.Int(r.cfg, "nv")
	for tries := 0; tries < 200; tries++ {
		switch k := rd.Intn(10); {
		case k < 3 && n < core.Int(r.cfg, "nl"):
			return core.Ev{"op": "Listener", "v": 1 + rd.Intn(nv)}
		case k < 5:
			return core.Ev{"op": "Notify", "v": 1 + rd.Intn(nv)}
		case k == 5 && n > 0:
			return core.Ev{"op": "Deregister", "l": 1 + rd.Intn(n)}
		case k < 9 && n > 0 && len(idle) > 0:
			return core.Ev{"op": "Wait", "l": 1 + rd.Intn(n)}
		case k == 9 && len(busy) > 0:
			return core.Ev{"op": "Cancel", "t": busy[rd.Intn(len(busy))]}
		}
	}
	return core.Ev{"op": "Notify", "v": 1}
}
