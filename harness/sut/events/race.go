package events

import (
	"bufio"
	"context"
	"encoding/json"
	"flag"
	"fmt"
	"math/rand"
	"os"
	"runtime"
	"sync"
	"sync/atomic"
	"time"

	"github.com/iotaledger/hive.go/runtime/event"
	"github.com/iotaledger/hive.go/runtime/promise"
	"github.com/iotaledger/hive.go/runtime/valuenotifier"
	"github.com/iotaledger/hive.go/runtime/workerpool"

	"verifharness/core"
	"verifharness/sched"
)

// c15race: free-running concurrent executions of the three subsystems; every execution is logged as one trace and
// validated by TLC against spec/events/Races.tla (pattern 3 of spec/CONCURRENCY.md).
func init() { core.RegisterCommand("c15race", raceMain) }

type rlog struct {
	mu  sync.Mutex
	evs []core.Ev
}

func (l *rlog) add(e core.Ev) { l.mu.Lock(); l.evs = append(l.evs, e); l.mu.Unlock() }

func (l *rlog) flush(enc *json.Encoder, kind string) int {
	l.mu.Lock()
	defer l.mu.Unlock()
	_ = enc.Encode(core.Ev{"op": "reset", "cfg": core.Ev{"kind": kind}})
	for _, e := range l.evs {
		_ = enc.Encode(e)
	}
	n := len(l.evs) + 1
	l.evs = nil
	return n
}

// join waits for wg at most d; returns false on time-out.
func join(wg *sync.WaitGroup, d time.Duration) bool {
	ch := make(chan struct{})
	go func() { wg.Wait(); close(ch) }()
	select {
	case <-ch:
		return true
	case <-time.After(d):
		return false
	}
}

// safely runs f; a panic of the code under test becomes a log event (which the trace spec rejects).
func safely(lg *rlog, f func()) {
	defer func() {
		if r := recover(); r != nil {
			lg.add(core.Ev{"op": "panic", "msg": fmt.Sprint(r)})
		}
	}()
	f()
}

func yield(rd *rand.Rand) {
	for i := rd.Intn(3); i > 0; i-- {
		runtime.Gosched()
	}
}

func raceMain(args []string) int {
	fs := flag.NewFlagSet("c15race", flag.ExitOnError)
	seed := fs.Int64("seed", 1, "")
	out := fs.String("out", "", "")
	rounds := fs.Int("rounds", 4000, "evmax rounds")
	traces := fs.Int("traces", 40, "traces per free-running kind")
	_ = fs.Parse(args)
	f, err := os.Create(*out)
	if err != nil {
		fmt.Fprintln(os.Stderr, err)
		return 2
	}
	defer f.Close()
	w := bufio.NewWriterSize(f, 1<<20)
	defer w.Flush()
	enc := json.NewEncoder(w)
	rd := rand.New(rand.NewSource(*seed))
	n := 0
	n += evmax(enc, rd, *rounds)
	for i := 0; i < 12; i++ {
		n += poolQueue(enc, rd, i)
	}
	for i := 0; i < *traces; i++ {
		if i%4 == 3 {
			old := runtime.GOMAXPROCS(2)
			n += evchurn(enc, rd)
			n += promiseRace(enc, rd)
			n += notifierRace(enc, rd)
			runtime.GOMAXPROCS(old)
			continue
		}
		n += evchurn(enc, rd)
		n += promiseRace(enc, rd)
		n += notifierRace(enc, rd)
	}
	fmt.Printf("{\"events\": %d}\n", n)
	return 0
}

// ---------------------------------------------------------------------------------------------------------------
// poolQueue (forced schedule, kind "poolq"): hooks run on a one-worker pool; the first call is held at a gate, so the calls
// of the following Triggers wait in the pool's queue; then hooks are unhooked (explicitly, or by a Trigger that uses up a
// max trigger count); the gate opens and the pool drains.
func poolQueue(enc *json.Encoder, rd *rand.Rand, variant int) int {
	lg := &rlog{}
	pool := workerpool.New("c15q", workerpool.WithWorkerCount(1)).Start()
	defer pool.Shutdown()
	e := event.New1[int]()
	gate := sched.NewGate()
	gate.Hold("first")
	first := true
	type hk struct {
		id int
		h  *event.Hook[func(int)]
	}
	var hooks []hk
	nh := 2 + rd.Intn(2)
	for id := 1; id <= nh; id++ {
		id := id
		m := 0
		if variant%3 == 1 && id == nh {
			m = 2 // the last hook has a max trigger count of 2
		}
		opts := []event.Option{event.WithWorkerPool(pool)}
		if m > 0 {
			opts = append(opts, event.WithMaxTriggerCount(uint64(m)))
		}
		h := e.Hook(func(a int) {
			lg.add(core.Ev{"op": "qcall", "h": id, "a": a})
			if first { // (only the pool's single worker gets here)
				first = false
				gate.Wait("first")
			}
		}, opts...)
		lg.add(core.Ev{"op": "qhook", "h": id, "m": m})
		hooks = append(hooks, hk{id, h})
	}
	safely(lg, func() {
		ntr := 2 + rd.Intn(3)
		for a := 1; a <= ntr; a++ {
			e.Trigger(a)
			lg.add(core.Ev{"op": "qtrig", "a": a})
			if a == 1 {
				sched.QuiesceOpt(300*time.Millisecond, 2, false) // the worker is inside the first call
			}
			if variant%3 != 1 && a >= 2 && rd.Intn(2) == 0 {
				k := hooks[rd.Intn(len(hooks))]
				k.h.Unhook()
				lg.add(core.Ev{"op": "qunhook", "h": k.id})
			}
		}
		if variant%3 == 2 {
			for _, k := range hooks {
				k.h.Unhook()
				lg.add(core.Ev{"op": "qunhook", "h": k.id})
			}
		}
	})
	gate.ReleaseAll()
	done := make(chan struct{})
	go func() { pool.PendingTasksCounter.WaitIsZero(); close(done) }()
	hung := false
	select {
	case <-done:
	case <-time.After(5 * time.Second):
		hung = true
	}
	sched.QuiesceOpt(300*time.Millisecond, 2, false)
	lg.add(core.Ev{"op": "qdrained", "hung": hung})
	return lg.flush(enc, "poolq")
}

// ---------------------------------------------------------------------------------------------------------------
// evmax: K goroutines, released together by a spinning barrier, call Trigger once each on a fresh event whose
// event-level / hook-level WithMaxTriggerCount are drawn at random; one log line per round.
func evmax(enc *json.Encoder, rd *rand.Rand, rounds int) int {
	const maxK = 4
	type job struct {
		e *event.Event1[int]
		k int
	}
	var cur atomic.Pointer[job]
	var round, done atomic.Int64
	var stop atomic.Bool
	var wg sync.WaitGroup
	lg := &rlog{}
	for g := 1; g <= maxK; g++ {
		wg.Add(1)
		go func(g int) {
			runtime.LockOSThread()
			defer wg.Done()
			for r := int64(1); ; r++ {
				for round.Load() < r {
					if stop.Load() {
						return
					}
				}
				j := cur.Load()
				if g <= j.k {
					safely(lg, func() { j.e.Trigger(g) })
				}
				done.Add(1)
			}
		}(g)
	}
	for r := int64(1); r <= int64(rounds); r++ {
		k := 2 + rd.Intn(maxK-1)
		em := rd.Intn(4)
		nh := 1 + rd.Intn(3)
		var opts []event.Option
		if em > 0 {
			opts = append(opts, event.WithMaxTriggerCount(uint64(em)))
		}
		e := event.New1[int](opts...)
		hm := make([]any, nh)
		cnt := make([][]atomic.Int32, nh)
		for h := 0; h < nh; h++ {
			m := rd.Intn(4)
			hm[h] = m
			cnt[h] = make([]atomic.Int32, k+1)
			c := cnt[h]
			var hopts []event.Option
			if m > 0 {
				hopts = append(hopts, event.WithMaxTriggerCount(uint64(m)))
			}
			e.Hook(func(a int) {
				if a >= 1 && a < len(c) {
					c[a].Add(1)
				} else {
					c[0].Add(1000)
				}
			}, hopts...)
		}
		cur.Store(&job{e: e, k: k})
		done.Store(0)
		round.Store(r)
		for done.Load() < maxK {
		}
		cs := make([]any, nh)
		for h := 0; h < nh; h++ {
			row := make([]any, k)
			for a := 1; a <= k; a++ {
				row[a-1] = int(cnt[h][a].Load()) + int(cnt[h][0].Load())
			}
			cs[h] = row
		}
		lg.add(core.Ev{"op": "round", "k": k, "em": em, "hm": hm, "cnt": cs, "tc": e.TriggerCount()})
	}
	stop.Store(true)
	wg.Wait()
	return lg.flush(enc, "evmax")
}

// ---------------------------------------------------------------------------------------------------------------
// evchurn: Hook / Unhook / Trigger from several goroutines.
func evchurn(enc *json.Encoder, rd *rand.Rand) int {
	lg := &rlog{}
	e := event.New1[int]()
	var hid, aid atomic.Int64
	var wg sync.WaitGroup
	type hk struct {
		id int
		h  *event.Hook[func(int)]
	}
	var hmu sync.Mutex
	var hooks []hk
	doHook := func() {
		id := int(hid.Add(1))
		lg.add(core.Ev{"op": "hb", "h": id})
		h := e.Hook(func(a int) { lg.add(core.Ev{"op": "call", "h": id, "a": a}) })
		lg.add(core.Ev{"op": "he", "h": id})
		hmu.Lock()
		hooks = append(hooks, hk{id, h})
		hmu.Unlock()
	}
	for i := rd.Intn(3); i > 0; i-- {
		doHook()
	}
	ntrig, nhook := 2+rd.Intn(2), 1+rd.Intn(2)
	for g := 0; g < ntrig; g++ {
		r := rand.New(rand.NewSource(rd.Int63()))
		wg.Add(1)
		go func() {
			defer wg.Done()
			safely(lg, func() {
				for i := 0; i < 3; i++ {
					yield(r)
					a := int(aid.Add(1))
					lg.add(core.Ev{"op": "tb", "a": a})
					e.Trigger(a)
					lg.add(core.Ev{"op": "te", "a": a})
				}
			})
		}()
	}
	for g := 0; g < nhook; g++ {
		r := rand.New(rand.NewSource(rd.Int63()))
		wg.Add(1)
		go func() {
			defer wg.Done()
			defer func() {
				if x := recover(); x != nil {
					lg.add(core.Ev{"op": "panic", "msg": fmt.Sprint(x)})
				}
			}()
			for i := 0; i < 4; i++ {
				yield(r)
				if r.Intn(2) == 0 {
					doHook()
					continue
				}
				hmu.Lock()
				var x *hk
				if len(hooks) > 0 {
					j := r.Intn(len(hooks))
					c := hooks[j]
					x = &c
					hooks = append(hooks[:j], hooks[j+1:]...)
				}
				hmu.Unlock()
				if x != nil {
					lg.add(core.Ev{"op": "ub", "h": x.id})
					x.h.Unhook()
					lg.add(core.Ev{"op": "ue", "h": x.id})
				}
			}
		}()
	}
	if !join(&wg, 5*time.Second) {
		lg.add(core.Ev{"op": "call", "h": -1, "a": -1}) // a hung call: rejected by the spec
	}
	return lg.flush(enc, "evchurn")
}

// ---------------------------------------------------------------------------------------------------------------
// promise: OnTrigger / unsubscribe / Trigger from several goroutines on one promise event.
func promiseRace(enc *json.Encoder, rd *rand.Rand) int {
	lg := &rlog{}
	var p prom
	if rd.Intn(2) == 0 {
		p = prom0{promise.NewEvent()}
	} else {
		p = prom1{promise.NewEvent1[int]()}
	}
	_, zero := p.(prom0)
	var cid atomic.Int64
	var wg sync.WaitGroup
	var register func(r *rand.Rand, nested bool)
	register = func(r *rand.Rand, nested bool) {
		c := int(cid.Add(1))
		spawn := !nested && r.Intn(4) == 0
		lg.add(core.Ev{"op": "rb", "c": c})
		unsub := p.OnTrigger(func(v int) {
			lg.add(core.Ev{"op": "run", "c": c, "v": v})
			if spawn {
				register(rand.New(rand.NewSource(int64(c))), true) // registered during / after Trigger, from inside a callback
			}
		})
		lg.add(core.Ev{"op": "re", "c": c})
		if !nested && r.Intn(4) == 0 {
			yield(r)
			lg.add(core.Ev{"op": "pub", "c": c})
			unsub()
			lg.add(core.Ev{"op": "pue", "c": c})
		}
	}
	for g := 0; g < 3; g++ {
		r := rand.New(rand.NewSource(rd.Int63()))
		wg.Add(1)
		go func() {
			defer wg.Done()
			safely(lg, func() {
				for i := 0; i < 3; i++ {
					yield(r)
					register(r, false)
				}
			})
		}()
	}
	for t := 1; t <= 2; t++ {
		r := rand.New(rand.NewSource(rd.Int63()))
		wg.Add(1)
		go func(t int) {
			defer wg.Done()
			for i := r.Intn(6); i > 0; i-- {
				runtime.Gosched()
			}
			v := t
			if zero {
				v = 0
			}
			safely(lg, func() {
				lg.add(core.Ev{"op": "ptb", "t": t, "v": v})
				res := p.Trigger(t)
				lg.add(core.Ev{"op": "pte", "t": t, "r": res})
			})
		}(t)
	}
	hung := []any{}
	if !join(&wg, 5*time.Second) {
		hung = append(hung, 1)
	}
	lg.add(core.Ev{"op": "pfinal", "hung": hung})
	return lg.flush(enc, "promise")
}

// ---------------------------------------------------------------------------------------------------------------
// notifier: Listener / Notify / Deregister / Wait from several goroutines on two values (values are re-used after
// they were notified; several listeners per value; Deregister races Wait).
func notifierRace(enc *json.Encoder, rd *rand.Rand) int {
	lg := &rlog{}
	n := valuenotifier.New[int]()
	var lid, nid, wid atomic.Int64
	var workers, waiters sync.WaitGroup
	var cmu sync.Mutex
	cancels := map[int]context.CancelFunc{}
	wait := func(l *valuenotifier.Listener, id int) {
		t := int(wid.Add(1))
		ctx, cancel := context.WithCancel(context.Background())
		cmu.Lock()
		cancels[t] = cancel
		cmu.Unlock()
		safely(lg, func() {
			lg.add(core.Ev{"op": "wb", "t": t, "l": id})
			err := l.Wait(ctx)
			lg.add(core.Ev{"op": "we", "t": t, "l": id, "r": waitResult(err)})
		})
		cmu.Lock()
		delete(cancels, t)
		cmu.Unlock()
		cancel()
	}
	for g := 0; g < 3; g++ {
		r := rand.New(rand.NewSource(rd.Int63()))
		workers.Add(1)
		go func() {
			defer workers.Done()
			defer func() {
				if x := recover(); x != nil {
					lg.add(core.Ev{"op": "panic", "msg": fmt.Sprint(x)})
				}
			}()
			for i := 0; i < 4; i++ {
				yield(r)
				id, v := int(lid.Add(1)), 1+r.Intn(2)
				lg.add(core.Ev{"op": "lb", "l": id, "v": v})
				l := n.Listener(v)
				lg.add(core.Ev{"op": "le", "l": id})
				switch r.Intn(4) {
				case 0: // wait in the background, deregister concurrently
					waiters.Add(1)
					go func() { defer waiters.Done(); wait(l, id) }()
					yield(r)
					lg.add(core.Ev{"op": "db", "l": id})
					l.Deregister()
					lg.add(core.Ev{"op": "de", "l": id})
				case 1: // deregister without waiting
					yield(r)
					lg.add(core.Ev{"op": "db", "l": id})
					l.Deregister()
					lg.add(core.Ev{"op": "de", "l": id})
				default: // wait in the background (one or two waiters)
					for k := 1 + r.Intn(2); k > 0; k-- {
						waiters.Add(1)
						go func() { defer waiters.Done(); wait(l, id) }()
					}
				}
			}
		}()
	}
	for g := 0; g < 2; g++ {
		r := rand.New(rand.NewSource(rd.Int63()))
		workers.Add(1)
		go func() {
			defer workers.Done()
			safely(lg, func() {
				for i := 0; i < 4; i++ {
					yield(r)
					id, v := int(nid.Add(1)), 1+r.Intn(2)
					lg.add(core.Ev{"op": "nb", "n": id, "v": v})
					n.Notify(v)
					lg.add(core.Ev{"op": "ne", "n": id})
				}
			})
		}()
	}
	hung := []any{}
	if !join(&workers, 5*time.Second) {
		hung = append(hung, 0)
	}
	// everything that can wake a waiter has returned; give the woken ones time to return, then cancel the rest
	// (park detection: every waiter goroutine has returned or sits in Wait's select - a waiter that has not reached its
	// select yet could otherwise see "notified" and "cancelled" together and legitimately pick either)
	sched.Quiesce(2 * time.Second)
	cmu.Lock()
	for t, c := range cancels {
		lg.add(core.Ev{"op": "cancel", "t": t})
		c()
	}
	cmu.Unlock()
	if !join(&waiters, 5*time.Second) {
		hung = append(hung, 1)
	}
	lg.add(core.Ev{"op": "nfinal", "hung": hung})
	return lg.flush(enc, "notifier")
}
