package events

import (
	"fmt"
	"runtime"
	"sync"
	"sync/atomic"
	"testing"

	"github.com/iotaledger/hive.go/runtime/event"
)

func TestRace(t *testing.T) {
	const K = 3
	const R = 200000
	var cur atomic.Pointer[event.Event1[int]]
	var round, done atomic.Int64
	var n atomic.Int64
	var wg sync.WaitGroup
	bad := 0
	for g := 0; g < K; g++ {
		wg.Add(1)
		go func(g int) {
			runtime.LockOSThread()
			defer wg.Done()
			for r := int64(1); r <= R; r++ {
				for round.Load() < r {
				}
				cur.Load().Trigger(g)
				done.Add(1)
			}
		}(g)
	}
	for r := int64(1); r <= R; r++ {
		e := event.New1[int](event.WithMaxTriggerCount(1))
		n.Store(0)
		e.Hook(func(int) { n.Add(1) })
		cur.Store(e)
		done.Store(0)
		round.Store(r)
		for done.Load() < K {
		}
		if n.Load() != 1 {
			bad++
		}
	}
	wg.Wait()
	fmt.Println("bad rounds", bad)
}
