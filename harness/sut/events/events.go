// Package events adapts runtime/event, runtime/promise and runtime/valuenotifier (property C15) to their TLA+ modules
// (spec/events).  Quiescent-point replay: a Trigger / OnTrigger / Wait runs on a harness thread, user callbacks are the
// gates, every step lasts until the whole process is parked.
package events

import (
	"fmt"
	"math/rand"
	"runtime"
	"sort"
	"sync"
	"sync/atomic"
	"time"

	"github.com/iotaledger/hive.go/runtime/event"
	"github.com/iotaledger/hive.go/runtime/workerpool"

	"verifharness/core"
	"verifharness/sched"
)

func init() { core.Register("Events", func() core.SUT { return &evSUT{} }) }

func settle() {
	if !sched.Quiesce(5 * time.Second) {
		panic("process did not become quiescent within 5s")
	}
}

// spinUntil polls cond (yielding) for at most 5 s.
func spinUntil(cond func() bool) bool {
	deadline := time.Now().Add(5 * time.Second)
	for i := 0; !cond(); i++ {
		if i%64 == 63 && time.Now().After(deadline) {
			return false
		}
		runtime.Gosched()
	}
	return true
}

type call struct {
	h, a int
	gid  int64
}

// evRun is the state of one history (one Reset).
type evRun struct {
	cfg     core.Ev
	fam     string
	nh      int
	ev      map[string]*event.Event1[int]
	pool    *workerpool.WorkerPool
	gate    *sched.Gate
	threads map[int]*sched.Thread
	gids    map[int64]bool // goroutines on which synchronous hooks run (harness threads)
	dead    atomic.Bool

	mu       sync.Mutex
	hooks    []*event.Hook[func(int)]
	kinds    []string
	attached []bool // harness' own view, only used to generate sensible random stimuli
	log      []call
	parkedAt map[int]int // trigger argument -> gate hook in which that trigger is parked
	flArg    map[int]int // thread -> argument of its Trigger in flight
	ntrig    int
	nlink    int
	gates    int
}

type evSUT struct{ r *evRun }

func (s *evSUT) Reset(cfg core.Ev) {
	if old := s.r; old != nil {
		old.dead.Store(true)
		if len(old.threads) > 0 {
			old.gate.ReleaseAll()
			for _, t := range old.threads {
				spinUntil(func() bool { return !t.Busy() })
				t.Abandon()
			}
		}
		if old.pool != nil {
			old.pool.Shutdown()
		}
	}
	r := &evRun{cfg: cfg, fam: core.Str(cfg, "fam"), nh: core.Int(cfg, "nh"), ev: map[string]*event.Event1[int]{},
		gate: sched.NewGate(), threads: map[int]*sched.Thread{}, gids: map[int64]bool{}, parkedAt: map[int]int{}, flArg: map[int]int{}}
	var aopts, copts []event.Option
	if m := core.Int(cfg, "ma"); m > 0 {
		aopts = append(aopts, event.WithMaxTriggerCount(uint64(m)))
	}
	if m := core.Int(cfg, "mc"); m > 0 {
		copts = append(copts, event.WithMaxTriggerCount(uint64(m)))
	}
	if r.fam == "pool" {
		r.pool = workerpool.New("c15", workerpool.WithWorkerCount(1)).Start()
		if core.Bool(cfg, "ep") {
			aopts = append(aopts, event.WithWorkerPool(r.pool))
		}
	}
	r.ev["a"] = event.New1[int](aopts...)
	r.ev["b"] = event.New1[int]()
	r.ev["c"] = event.New1[int](copts...)
	r.gids[sched.Gid()] = true // sequential histories run on the walker's own goroutine
	s.r = r
}

// thread returns harness thread i (created on first use).
func (r *evRun) thread(i int) *sched.Thread {
	if t := r.threads[i]; t != nil {
		return t
	}
	t := sched.NewThread(i)
	r.threads[i] = t
	t.Go(func() any { return sched.Gid() })
	for t.Busy() {
		runtime.Gosched()
	}
	_, g, _ := t.Take()
	r.gids[g.(int64)] = true
	return t
}

func (r *evRun) busy(i int) bool { t := r.threads[i]; return t != nil && t.Busy() }

// concurrent: can a Trigger park or run hooks on other goroutines?  If not it is called inline (much faster).
func (r *evRun) concurrent() bool {
	r.mu.Lock()
	defer r.mu.Unlock()
	return r.gates > 0 || r.pool != nil
}

func gpoint(h, a int) string { return fmt.Sprintf("h%d-a%d", h, a) }

func (r *evRun) unhook(h int) {
	r.mu.Lock()
	var hk *event.Hook[func(int)]
	if h >= 1 && h <= len(r.hooks) {
		hk = r.hooks[h-1]
		r.attached[h-1] = false
	}
	r.mu.Unlock()
	if hk != nil {
		hk.Unhook()
	}
}

// hook attaches a callback of the given kind; returns its id.
func (r *evRun) hook(e, kind string, m int, p string) int {
	var opts []event.Option
	if m > 0 {
		opts = append(opts, event.WithMaxTriggerCount(uint64(m)))
	}
	switch p {
	case "pool":
		opts = append(opts, event.WithWorkerPool(r.pool))
	case "sync":
		opts = append(opts, event.WithWorkerPool(nil))
	}
	r.mu.Lock()
	id := len(r.hooks) + 1
	r.hooks = append(r.hooks, nil)
	r.kinds = append(r.kinds, kind)
	r.attached = append(r.attached, true)
	if kind == "gate" {
		r.gates++
	}
	r.mu.Unlock()
	cb := func(arg int) {
		gid := sched.Gid()
		r.mu.Lock()
		r.log = append(r.log, call{id, arg, gid})
		r.mu.Unlock()
		switch kind {
		case "gate":
			if r.dead.Load() {
				return
			}
			p := gpoint(id, arg)
			r.mu.Lock()
			r.parkedAt[arg] = id
			r.mu.Unlock()
			r.gate.Hold(p)
			if r.dead.Load() {
				return
			}
			r.gate.Wait(p)
		case "unSelf":
			r.unhook(id)
		case "unNext":
			r.unhook(id + 1)
		case "unSelfNext":
			r.unhook(id)
			r.unhook(id + 1)
		case "unNextSelf":
			r.unhook(id + 1)
			r.unhook(id)
		case "unPrev":
			r.unhook(id - 1)
		case "hookNew":
			r.mu.Lock()
			room := len(r.hooks) < r.nh
			r.mu.Unlock()
			if room {
				r.hook(e, "plain", 0, "inherit")
			}
		}
	}
	hk := r.ev[e].Hook(cb, opts...)
	r.mu.Lock()
	r.hooks[id-1] = hk
	r.mu.Unlock()
	return id
}

func (s *evSUT) Apply(e core.Ev) (any, any) {
	r := s.r
	switch op := core.Str(e, "op"); op {
	case "Hook":
		id := r.hook(core.Str(e, "e"), core.Str(e, "k"), core.Int(e, "m"), core.Str(e, "p"))
		return core.Ev{"id": id}, r.obs()
	case "Unhook":
		r.unhook(core.Int(e, "h"))
		return core.Ev{"id": 0}, r.obs()
	case "LinkTo":
		var target *event.Event1[int]
		if to := core.Str(e, "to"); to != "none" {
			target = r.ev[to]
			r.nlink++
		}
		r.ev["c"].LinkTo(target)
		return core.Ev{"id": 0}, r.obs()
	case "Trigger":
		t := 0
		for i := 1; i <= 2; i++ {
			if !r.busy(i) {
				t = i
				break
			}
		}
		if t == 0 {
			panic("no idle thread")
		}
		r.ntrig++
		arg := r.ntrig
		r.flArg[t] = arg
		target := r.ev[core.Str(e, "e")]
		if !r.concurrent() {
			return r.step(t, func() { target.Trigger(arg) }, true)
		}
		return r.step(t, func() { r.thread(t).Go(func() any { target.Trigger(arg); return nil }) }, false)
	case "Release":
		t := core.Int(e, "t")
		arg := r.flArg[t]
		r.mu.Lock()
		h := r.parkedAt[arg]
		delete(r.parkedAt, arg)
		r.mu.Unlock()
		return r.step(t, func() {
			if !r.gate.Release(gpoint(h, arg)) {
				panic(fmt.Sprintf("thread %d is not parked in a gate hook", t))
			}
		}, false)
	default:
		panic("unknown op " + op)
	}
}

// step performs one stimulus that runs hooks on thread t and observes the calls made until quiescence.
func (r *evRun) step(t int, do func(), inline bool) (any, any) {
	r.mu.Lock()
	from := len(r.log)
	r.mu.Unlock()
	do()
	done := inline
	if inline {
		delete(r.flArg, t)
	} else {
		r.await(t)
	}
	if inline {
	} else if fin, _, pan := r.thread(t).Take(); fin {
		if pan != nil {
			panic(pan)
		}
		done = true
		delete(r.flArg, t)
	}
	r.mu.Lock()
	calls, pooled := []any{}, [][2]int{}
	for _, c := range r.log[from:] {
		if r.gids[c.gid] {
			calls = append(calls, []any{c.h, c.a})
		} else {
			pooled = append(pooled, [2]int{c.h, c.a})
		}
	}
	r.mu.Unlock()
	sort.Slice(pooled, func(i, j int) bool {
		if pooled[i][0] != pooled[j][0] {
			return pooled[i][0] < pooled[j][0]
		}
		return pooled[i][1] < pooled[j][1]
	})
	ps := []any{}
	for _, c := range pooled {
		ps = append(ps, []any{c[0], c[1]})
	}
	return core.Ev{"t": t, "done": done, "calls": calls, "pooled": ps}, r.obs()
}

// await waits for the quiescent point of a step that runs on thread t: the thread has returned (and the pool has
// drained) or it is parked in a gate hook.  (The event package starts no goroutines of its own; waiting for exactly
// these conditions is ~100x cheaper than dumping all stacks.)
func (r *evRun) await(t int) {
	th := r.thread(t)
	arg := r.flArg[t]
	ok := spinUntil(func() bool {
		if !th.Busy() {
			return true
		}
		r.mu.Lock()
		h := r.parkedAt[arg]
		r.mu.Unlock()
		return h != 0 && r.gate.Parked(gpoint(h, arg)) > 0
	})
	if !ok {
		panic(fmt.Sprintf("thread %d neither returned nor parked in a gate hook within 5s", t))
	}
	if r.pool != nil {
		done := make(chan struct{})
		go func() { r.pool.PendingTasksCounter.WaitIsZero(); close(done) }()
		select {
		case <-done:
		case <-time.After(5 * time.Second):
			panic("pool did not drain within 5s")
		}
	}
}

func (r *evRun) obs() core.Ev {
	blocked := []int{}
	at := []any{0, 0}
	for i := 1; i <= 2; i++ {
		if r.busy(i) {
			blocked = append(blocked, i)
			r.mu.Lock()
			at[i-1] = r.parkedAt[r.flArg[i]]
			r.mu.Unlock()
		}
	}
	return core.Ev{"blocked": core.SortedInts(blocked), "at": at,
		"tc": []any{r.ev["a"].TriggerCount(), r.ev["b"].TriggerCount(), r.ev["c"].TriggerCount()}}
}

// ---- recorder (code -> model): cfgs and stimuli inside Events.trace.cfg's scope ----

func (s *evSUT) RandomCfg(rd *rand.Rand) core.Ev {
	fam := core.Pick(rd, "reent", "gate", "link", "max", "pool")
	cfg := core.Ev{"fam": fam, "ma": 0, "mc": 0, "ep": false, "nh": 6, "nl": 4, "tr": 8}
	switch fam {
	case "link":
		cfg["mc"] = rd.Intn(2)
	case "max":
		cfg["ma"] = rd.Intn(3)
	case "pool":
		cfg["ep"] = rd.Intn(2) == 0
	}
	return cfg
}

func hookStim(e, k string, m int, p string) core.Ev {
	return core.Ev{"op": "Hook", "e": e, "k": k, "m": m, "p": p}
}

func (s *evSUT) RandomStimulus(rd *rand.Rand) core.Ev {
	r := s.r
	var idle, busy []int
	for i := 1; i <= 2; i++ {
		if r.busy(i) {
			busy = append(busy, i)
		} else {
			idle = append(idle, i)
		}
	}
	r.mu.Lock()
	nh := len(r.hooks)
	r.mu.Unlock()
	for tries := 0; tries < 200; tries++ {
		switch k := rd.Intn(12); {
		case k < 3 && nh < r.nh:
			switch r.fam {
			case "reent":
				if rd.Intn(8) == 0 {
					return hookStim("a", "plain", 1, "inherit")
				}
				return hookStim("a", core.Pick(rd, "plain", "unSelf", "unNext", "unSelfNext", "unNextSelf", "unPrev", "hookNew"), 0, "inherit")
			case "gate":
				return hookStim("a", core.Pick(rd, "plain", "gate"), rd.Intn(2), "inherit")
			case "link":
				return core.Pick(rd, hookStim("a", "plain", 0, "inherit"), hookStim("c", "plain", 0, "inherit"), hookStim("c", "gate", 0, "inherit"),
					hookStim("a", "gate", 0, "inherit"), hookStim("b", "plain", 0, "inherit"), hookStim("c", "plain", 1, "inherit"))
			case "max":
				if rd.Intn(4) == 0 {
					return hookStim("a", "gate", 0, "inherit")
				}
				return hookStim("a", "plain", rd.Intn(3), "inherit")
			case "pool":
				return core.Pick(rd, hookStim("a", "plain", 0, "inherit"), hookStim("a", "plain", 0, "pool"), hookStim("a", "plain", 0, "sync"),
					hookStim("a", "plain", 1, "inherit"), hookStim("a", "plain", 1, "pool"), hookStim("c", "plain", 0, "inherit"), hookStim("c", "plain", 0, "pool"))
			}
		case k == 3 && nh > 0:
			return core.Ev{"op": "Unhook", "h": 1 + rd.Intn(nh)}
		case k == 4 && (r.fam == "link" || r.fam == "pool"):
			to := core.Pick(rd, "a", "a", "b", "none")
			if r.fam == "pool" && to == "b" {
				to = "a"
			}
			if to != "none" && r.nlink >= core.Int(r.cfg, "nl") {
				continue
			}
			return core.Ev{"op": "LinkTo", "to": to}
		case k >= 5 && k < 9 && len(idle) > 0 && r.ntrig < core.Int(r.cfg, "tr"):
			ev := "a"
			if r.fam == "link" {
				ev = core.Pick(rd, "a", "a", "b", "c")
			} else if r.fam == "pool" {
				ev = core.Pick(rd, "a", "a", "c")
			}
			return core.Ev{"op": "Trigger", "e": ev}
		case k >= 9 && len(busy) > 0:
			return core.Ev{"op": "Release", "t": busy[rd.Intn(len(busy))]}
		}
	}
	if len(busy) > 0 {
		return core.Ev{"op": "Release", "t": busy[0]}
	}
	if nh > 0 {
		return core.Ev{"op": "Unhook", "h": 1}
	}
	return hookStim("a", "plain", 0, "inherit")
}
