package events

import (
	"fmt"
	"math/rand"
	"sort"
	"sync"
	"sync/atomic"

	"github.com/iotaledger/hive.go/runtime/promise"

	"verifharness/core"
	"verifharness/sched"
)

func init() { core.Register("Promise", func() core.SUT { return &prSUT{} }) }

// prom is the common face of promise.Event (value 0) and promise.Event1[int].
type prom interface {
	Trigger(v int) bool
	OnTrigger(cb func(v int)) func()
	WasTriggered() bool
}

type prom0 struct{ e *promise.Event }

func (p prom0) Trigger(int) bool                { return p.e.Trigger() }
func (p prom0) OnTrigger(cb func(v int)) func() { return p.e.OnTrigger(func() { cb(0) }) }
func (p prom0) WasTriggered() bool              { return p.e.WasTriggered() }

type prom1 struct{ e *promise.Event1[int] }

func (p prom1) Trigger(v int) bool              { return p.e.Trigger(v) }
func (p prom1) OnTrigger(cb func(v int)) func() { return p.e.OnTrigger(cb) }
func (p prom1) WasTriggered() bool              { return p.e.WasTriggered() }

type prRun struct {
	cfg     core.Ev
	nc      int
	p       prom
	gate    *sched.Gate
	threads map[int]*sched.Thread
	gidT    map[int64]int // goroutine -> harness thread
	dead    atomic.Bool

	mu     sync.Mutex
	unsubs []func()
	log    [][2]int
	at     map[int]int // thread -> gate callback it is parked in
	ntr    int
	gates  int
}

type prSUT struct{ r *prRun }

func (s *prSUT) Reset(cfg core.Ev) {
	if old := s.r; old != nil {
		old.dead.Store(true)
		if len(old.threads) > 0 {
			old.gate.ReleaseAll()
			for _, t := range old.threads {
				spinUntil(func() bool { return !t.Busy() })
				t.Abandon()
			}
		}
	}
	r := &prRun{cfg: cfg, nc: core.Int(cfg, "nc"), gate: sched.NewGate(), threads: map[int]*sched.Thread{}, gidT: map[int64]int{}, at: map[int]int{}}
	if core.Int(cfg, "ar") == 0 {
		r.p = prom0{promise.NewEvent()}
	} else {
		r.p = prom1{promise.NewEvent1[int]()}
	}
	s.r = r
}

func (r *prRun) thread(i int) *sched.Thread {
	if t := r.threads[i]; t != nil {
		return t
	}
	t := sched.NewThread(i)
	r.threads[i] = t
	t.Go(func() any { return sched.Gid() })
	spinUntil(func() bool { return !t.Busy() })
	_, g, _ := t.Take()
	r.gidT[g.(int64)] = i
	return t
}

func (r *prRun) busy(i int) bool { t := r.threads[i]; return t != nil && t.Busy() }

func cpoint(c int) string { return fmt.Sprintf("c%d", c) }

// onTrigger registers a callback of the given kind (from a stimulus or from inside a "reg" callback).
func (r *prRun) onTrigger(kind string) {
	r.mu.Lock()
	id := len(r.unsubs) + 1
	r.unsubs = append(r.unsubs, nil)
	r.mu.Unlock()
	unsub := r.p.OnTrigger(func(v int) {
		r.mu.Lock()
		r.log = append(r.log, [2]int{id, v})
		r.mu.Unlock()
		switch kind {
		case "gate":
			if r.dead.Load() {
				return
			}
			t := r.gidT[sched.Gid()]
			r.mu.Lock()
			r.at[t] = id
			r.mu.Unlock()
			r.gate.Hold(cpoint(id))
			if r.dead.Load() {
				return
			}
			r.gate.Wait(cpoint(id))
		case "reg":
			r.mu.Lock()
			room := len(r.unsubs) < r.nc
			r.mu.Unlock()
			if room {
				r.onTrigger("plain")
			}
		case "trig":
			if r.p.Trigger(99) {
				r.mu.Lock()
				r.log = append(r.log, [2]int{id, -1}) // an inner Trigger must not succeed
				r.mu.Unlock()
			}
		}
	})
	r.mu.Lock()
	r.unsubs[id-1] = unsub
	r.mu.Unlock()
}

func (r *prRun) lowIdle() int {
	for i := 1; i <= 2; i++ {
		if !r.busy(i) {
			return i
		}
	}
	panic("no idle thread")
}

func (s *prSUT) Apply(e core.Ev) (any, any) {
	r := s.r
	switch op := core.Str(e, "op"); op {
	case "OnTrigger":
		k := core.Str(e, "k")
		if k == "gate" {
			r.gates++
		}
		return r.step(r.lowIdle(), func() any { r.onTrigger(k); return "" }, "")
	case "Unsub":
		r.mu.Lock()
		u := r.unsubs[core.Int(e, "c")-1]
		r.mu.Unlock()
		u()
		return core.Ev{"t": 0, "done": true, "r": "", "calls": []any{}}, r.obs()
	case "Trigger":
		r.ntr++
		v := r.ntr
		return r.step(r.lowIdle(), func() any { return fmt.Sprint(r.p.Trigger(v)) }, "")
	case "Release":
		t := core.Int(e, "t")
		r.mu.Lock()
		id := r.at[t]
		r.at[t] = 0
		r.mu.Unlock()
		return r.step(t, nil, cpoint(id))
	default:
		panic("unknown op " + op)
	}
}

// step runs call on thread t (inline when nothing can park), or releases the gate point, and observes until quiescence.
func (r *prRun) step(t int, call func() any, release string) (any, any) {
	r.mu.Lock()
	from := len(r.log)
	r.mu.Unlock()
	done, res := false, any("")
	switch {
	case release != "":
		if !r.gate.Release(release) {
			panic(fmt.Sprintf("thread %d is not parked in a gate callback", t))
		}
	case r.gates == 0:
		res, done = call(), true
	default:
		r.thread(t).Go(call)
	}
	if !done {
		th := r.thread(t)
		ok := spinUntil(func() bool {
			if !th.Busy() {
				return true
			}
			r.mu.Lock()
			c := r.at[t]
			r.mu.Unlock()
			return c != 0 && r.gate.Parked(cpoint(c)) > 0
		})
		if !ok {
			panic(fmt.Sprintf("thread %d neither returned nor parked in a gate callback within 5s", t))
		}
		if fin, v, pan := th.Take(); fin {
			if pan != nil {
				panic(pan)
			}
			done, res = true, v
		}
	}
	if res == nil || !done {
		res = ""
	}
	r.mu.Lock()
	cs := append([][2]int(nil), r.log[from:]...)
	r.mu.Unlock()
	sort.Slice(cs, func(i, j int) bool {
		if cs[i][0] != cs[j][0] {
			return cs[i][0] < cs[j][0]
		}
		return cs[i][1] < cs[j][1]
	})
	calls := []any{}
	for _, c := range cs {
		calls = append(calls, []any{c[0], c[1]})
	}
	return core.Ev{"t": t, "done": done, "r": res, "calls": calls}, r.obs()
}

func (r *prRun) obs() core.Ev {
	blocked := []int{}
	at := []any{0, 0}
	for i := 1; i <= 2; i++ {
		if r.busy(i) {
			blocked = append(blocked, i)
			r.mu.Lock()
			at[i-1] = r.at[i]
			r.mu.Unlock()
		}
	}
	return core.Ev{"blocked": core.SortedInts(blocked), "at": at, "wt": r.p.WasTriggered()}
}

func (s *prSUT) RandomCfg(rd *rand.Rand) core.Ev {
	return core.Ev{"ar": rd.Intn(2), "nc": 8, "tr": 3}
}

func (s *prSUT) RandomStimulus(rd *rand.Rand) core.Ev {
	r := s.r
	var idle, busy []int
	for i := 1; i <= 2; i++ {
		if r.busy(i) {
			busy = append(busy, i)
		} else {
			idle = append(idle, i)
		}
	}
	r.mu.Lock()
	n := len(r.unsubs)
	r.mu.Unlock()
	for tries := 0; tries < 200; tries++ {
		switch k := rd.Intn(10); {
		case k < 4 && n < r.nc && len(idle) > 0:
			return core.Ev{"op": "OnTrigger", "k": core.Pick(rd, "plain", "plain", "gate", "reg", "trig")}
		case k == 4 && n > 0:
			c := 1 + rd.Intn(n)
			r.mu.Lock()
			ready := r.unsubs[c-1] != nil
			r.mu.Unlock()
			if ready {
				return core.Ev{"op": "Unsub", "c": c}
			}
		case (k == 5 || k == 6) && len(idle) > 0 && r.ntr < core.Int(r.cfg, "tr"):
			return core.Ev{"op": "Trigger"}
		case k >= 7 && len(busy) > 0:
			return core.Ev{"op": "Release", "t": busy[rd.Intn(len(busy))]}
		}
	}
	if len(busy) > 0 {
		return core.Ev{"op": "Release", "t": busy[0]}
	}
	return core.Ev{"op": "OnTrigger", "k": "plain"}
}
