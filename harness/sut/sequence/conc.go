package sequence

import (
	"bufio"
	"bytes"
	"encoding/binary"
	"encoding/json"
	"errors"
	"flag"
	"fmt"
	"math/rand"
	"os"
	"runtime"
	"sort"
	"sync"
	"sync/atomic"

	"github.com/iotaledger/hive.go/kvstore"
	"github.com/iotaledger/hive.go/kvstore/mapdb"

	"verifharness/core"
)

// `h c07conc -seed S -runs R -out file.ndjson`: concurrent Next callers on ONE real Sequence.
//
// Each run: phases of G goroutines calling Next M times each on the same object; between phases
// (sequentially) Release and/or Restart.  The object's mutex makes every call atomic and numbers are
// handed out in lock order, so the history of a phase must be equivalent to the sequential history
// "Next, Next, ..." in order of the returned numbers.  The run is written as exactly that sequential
// trace (module Sequence decides): the stored mark after each call is reconstructed from the log of
// store operations (a Get returning b followed by Set v belongs to the call that returned b).  Any
// duplicate, gap, lost update of the mark, or number out of a goroutine's own call order yields a
// trace the model rejects.
func init() { core.RegisterCommand("c07conc", concMain) }

type logEntry struct {
	set bool
	v   int // get: value read (0 when absent); set: value written
}

// logStore logs Get/Set of the sequence key in the order the store sees them and yields inside
// every store operation, so that callers that are not properly serialised do interleave.
type logStore struct {
	kvstore.KVStore
	mu  sync.Mutex
	log []logEntry
}

func (l *logStore) Get(key kvstore.Key) (kvstore.Value, error) {
	runtime.Gosched()
	v, err := l.KVStore.Get(key)
	if !bytes.Equal(key, seqKey) { // (the neighbour sequence's traffic is not part of the history)
		runtime.Gosched()
		return v, err
	}
	e := logEntry{}
	if err == nil && len(v) == 8 {
		e.v = int(binary.BigEndian.Uint64(v))
	}
	l.mu.Lock()
	l.log = append(l.log, e)
	l.mu.Unlock()
	runtime.Gosched()

	return v, err
}

func (l *logStore) Set(key kvstore.Key, value kvstore.Value) error {
	runtime.Gosched()
	err := l.KVStore.Set(key, value)
	if !bytes.Equal(key, seqKey) {
		runtime.Gosched()
		return err
	}
	e := logEntry{set: true, v: -3}
	if len(value) == 8 {
		e.v = int(binary.BigEndian.Uint64(value))
	}
	l.mu.Lock()
	l.log = append(l.log, e)
	l.mu.Unlock()
	runtime.Gosched()

	return err
}

func (l *logStore) take() []logEntry {
	l.mu.Lock()
	defer l.mu.Unlock()
	out := l.log
	l.log = nil

	return out
}

type concRun struct {
	inner kvstore.KVStore
	ls    *logStore
	seq   *kvstore.Sequence
	enc   *json.Encoder
	n     int
}

func (c *concRun) emit(e core.Ev) {
	if err := c.enc.Encode(e); err != nil {
		panic(err)
	}
	c.n++
}

func (c *concRun) mark() []any {
	v, err := c.inner.Get(seqKey)
	if errors.Is(err, kvstore.ErrKeyNotFound) {
		return []any{}
	}
	if err != nil || len(v) != 8 {
		return []any{codeMalformed}
	}

	return []any{int(binary.BigEndian.Uint64(v))}
}

func (c *concRun) open(interval int) {
	seq, err := kvstore.NewSequence(c.ls, append([]byte(nil), seqKey...), uint64(interval))
	if err != nil {
		panic(err)
	}
	c.seq = seq
}

type callRec struct {
	g, i int // goroutine, index of the call within the goroutine
	n    int
	err  string
}

// phase runs g goroutines x m Next calls and writes the equivalent sequential trace.
func (c *concRun) phase(r *rand.Rand, g, m int, markBefore []any) {
	recs := make([][]callRec, g)
	yields := make([][]int, g)
	for a := 0; a < g; a++ {
		yields[a] = make([]int, m)
		for i := range yields[a] {
			yields[a][i] = r.Intn(3)
		}
	}
	var wg sync.WaitGroup
	start := make(chan struct{})
	// a NEIGHBOUR: another Sequence (another key, same store, interval 1: a store write per call) is used by a goroutine of its
	// own all the while - sequences are independent objects, what one does must not show in the other
	var stop atomic.Bool
	nbDone := make(chan struct{})
	go func() {
		defer close(nbDone)
		nb, err := kvstore.NewSequence(c.ls, []byte("neighbour"), 1)
		if err != nil {
			return
		}
		<-start
		for !stop.Load() {
			_, _ = nb.Next()
		}
	}()
	defer func() { <-nbDone }()
	defer stop.Store(true)
	for a := 0; a < g; a++ {
		wg.Add(1)
		go func(a int) {
			defer wg.Done()
			<-start
			for i := 0; i < m; i++ {
				for y := 0; y < yields[a][i]; y++ {
					runtime.Gosched()
				}
				n, err := c.seq.Next()
				rec := callRec{g: a, i: i, n: int(n), err: "ok"}
				if err != nil {
					rec.err = "other: " + err.Error()
				}
				recs[a] = append(recs[a], rec)
			}
		}(a)
	}
	close(start)
	wg.Wait()
	stop.Store(true)

	var all []callRec
	ordered := true // every goroutine saw increasing numbers
	for a := range recs {
		for i, rc := range recs[a] {
			all = append(all, rc)
			if i > 0 && rc.n <= recs[a][i-1].n {
				ordered = false
			}
		}
	}
	if ordered {
		sort.SliceStable(all, func(i, j int) bool { return all[i].n < all[j].n })
	} // else: keep goroutine call order, which no sequential Sequence history can explain

	// leases[b] = marks written by calls that read base b; lone = writes without a preceding read
	leases := map[int][]int{}
	var lone []int
	pending, have := 0, false
	for _, e := range c.ls.take() {
		switch {
		case !e.set:
			pending, have = e.v, true
		case have:
			leases[pending] = append(leases[pending], e.v)
			have = false
		default:
			lone = append(lone, e.v)
		}
	}
	mark := markBefore
	for _, rc := range all {
		val := []any{}
		if rc.err == "ok" {
			val = []any{rc.n}
			if vs := leases[rc.n]; len(vs) > 0 {
				mark = []any{vs[0]}
				leases[rc.n] = vs[1:]
			}
		}
		c.emit(core.Ev{"op": "Next", "k": 0, "mode": "none", "res": result(val, rc.err), "st": core.Ev{"mark": mark, "intact": true}})
	}
	// store writes nobody can account for (none on correct code): shown as Release events the model rejects
	for _, v := range lone {
		c.emit(core.Ev{"op": "Release", "k": 0, "mode": "none", "res": result([]any{}, "ok"), "st": core.Ev{"mark": []any{v}, "intact": true}})
	}
}

func concMain(args []string) int {
	fs := flag.NewFlagSet("c07conc", flag.ExitOnError)
	seed := fs.Int64("seed", 1, "")
	runs := fs.Int("runs", 40, "")
	out := fs.String("out", "", "")
	_ = fs.Parse(args)
	f, err := os.Create(*out)
	if err != nil {
		fmt.Fprintln(os.Stderr, err)
		return 2
	}
	defer f.Close()
	w := bufio.NewWriter(f)
	defer w.Flush()
	r := rand.New(rand.NewSource(*seed))
	total := 0
	for i := 0; i < *runs; i++ {
		c := &concRun{inner: mapdb.NewMapDB(), enc: json.NewEncoder(w)}
		c.ls = &logStore{KVStore: c.inner}
		interval := 1 + r.Intn(3)
		c.open(interval)
		c.emit(core.Ev{"op": "reset", "cfg": core.Ev{"interval": interval}})
		phases := 2 + r.Intn(2)
		for p := 0; p < phases; p++ {
			c.phase(r, 2+r.Intn(3), 2+r.Intn(5), c.mark())
			// sequential boundary: Release and/or Restart, observed exactly
			if r.Intn(2) == 0 {
				cls := "ok"
				if err := c.seq.Release(); err != nil {
					cls = "other: " + err.Error()
				}
				c.ls.take()
				c.emit(core.Ev{"op": "Release", "k": 0, "mode": "none", "res": result([]any{}, cls), "st": core.Ev{"mark": c.mark(), "intact": true}})
			}
			if r.Intn(3) != 0 {
				interval = 1 + r.Intn(3)
				c.open(interval)
				c.emit(core.Ev{"op": "Restart", "interval": interval, "res": result([]any{}, "ok"), "st": core.Ev{"mark": c.mark(), "intact": true}})
			}
		}
		total += c.n
	}
	fmt.Printf("{\"events\": %d, \"runs\": %d}\n", total, *runs)

	return 0
}
