// Package sequence adapts kvstore.Sequence (property C07) to the TLA+ module Sequence.
//
// The real Sequence runs over a KVStore wrapper around mapdb that counts the store operations of
// the current call and, at operation index k, either panics with a sentinel before/after
// forwarding (= the process stops there; the harness recovers and abandons the object) or returns
// an injected error without forwarding.  The projected state is read from the underlying mapdb
// directly, never through the Sequence or the wrapper.
package sequence

import (
	"bytes"
	"encoding/binary"
	"errors"
	"fmt"
	"math/rand"

	"github.com/iotaledger/hive.go/kvstore"
	"github.com/iotaledger/hive.go/kvstore/mapdb"

	"verifharness/core"
)

var (
	seqKey = []byte("seq")
	// neighbours of the sequence key that no Sequence operation may touch
	neighbours = map[string]string{"se": "a", "seq\x00": "b", "seqq": "c", "ser": "d"}

	errInjected = errors.New("injected store failure")
)

// integer codes (the model's numbers are naturals, so these never match; integers keep the field's
// type uniform for TLC's trace validation)
const (
	codeHuge       = -2 // a number above 2^53 (e.g. a mark decoded with the wrong byte order)
	codeMalformed  = -3 // stored mark is not 8 bytes
	codeStoreError = -4 // the underlying store refused the read
)

type crashSentinel struct{ op string }

// planStore forwards to the inner store and executes the crash/fail plan of the current call.
type planStore struct {
	kvstore.KVStore
	n    int    // store operations performed by the current call so far
	k    int    // plan: operation index (0 = no plan)
	mode string // "before" | "after" | "fail"
}

func (p *planStore) arm(k int, mode string) { p.n, p.k, p.mode = 0, k, mode }

func (p *planStore) do(name string, f func() error) error {
	p.n++
	hit := p.k != 0 && p.n == p.k
	if hit && p.mode == "before" {
		panic(crashSentinel{name})
	}
	if hit && p.mode == "fail" {
		return errInjected
	}
	err := f()
	if hit && p.mode == "after" {
		panic(crashSentinel{name})
	}

	return err
}

func (p *planStore) Get(key kvstore.Key) (v kvstore.Value, err error) {
	err = p.do("Get", func() error { var e error; v, e = p.KVStore.Get(key); return e })
	return v, err
}

func (p *planStore) Has(key kvstore.Key) (b bool, err error) {
	err = p.do("Has", func() error { var e error; b, e = p.KVStore.Has(key); return e })
	return b, err
}

func (p *planStore) Set(key kvstore.Key, value kvstore.Value) error {
	return p.do("Set", func() error { return p.KVStore.Set(key, value) })
}

func (p *planStore) Delete(key kvstore.Key) error {
	return p.do("Delete", func() error { return p.KVStore.Delete(key) })
}

func (p *planStore) DeletePrefix(prefix kvstore.KeyPrefix) error {
	return p.do("DeletePrefix", func() error { return p.KVStore.DeletePrefix(prefix) })
}

func (p *planStore) Clear() error { return p.do("Clear", func() error { return p.KVStore.Clear() }) }

func (p *planStore) Iterate(prefix kvstore.KeyPrefix, f kvstore.IteratorKeyValueConsumerFunc, d ...kvstore.IterDirection) error {
	return p.do("Iterate", func() error { return p.KVStore.Iterate(prefix, f, d...) })
}

func (p *planStore) IterateKeys(prefix kvstore.KeyPrefix, f kvstore.IteratorKeyConsumerFunc, d ...kvstore.IterDirection) error {
	return p.do("IterateKeys", func() error { return p.KVStore.IterateKeys(prefix, f, d...) })
}

type seqSUT struct {
	inner kvstore.KVStore // the "disk": survives crashes and restarts
	ps    *planStore
	seq   *kvstore.Sequence // nil = dead (crashed, abandoned)
}

func init() { core.Register("Sequence", func() core.SUT { return &seqSUT{} }) }

func (s *seqSUT) open(interval int) {
	s.ps = &planStore{KVStore: s.inner}
	seq, err := kvstore.NewSequence(s.ps, append([]byte(nil), seqKey...), uint64(interval))
	if err != nil {
		panic(fmt.Sprintf("NewSequence: %v", err))
	}
	s.seq = seq
}

func (s *seqSUT) Reset(cfg core.Ev) {
	s.inner = mapdb.NewMapDB()
	for k, v := range neighbours {
		if err := s.inner.Set([]byte(k), []byte(v)); err != nil {
			panic(err)
		}
	}
	s.open(core.Int(cfg, "interval"))
}

// st reads the raw stored mark (8-byte big-endian, the documented format) and checks the rest of the store.
func (s *seqSUT) st() any {
	mark := []any{}
	v, err := s.inner.Get(seqKey)
	switch {
	case errors.Is(err, kvstore.ErrKeyNotFound):
	case err != nil:
		mark = []any{codeStoreError}
	case len(v) != 8:
		mark = []any{codeMalformed}
	default:
		u := binary.BigEndian.Uint64(v)
		if u > 1<<53 {
			mark = []any{codeHuge}
		} else {
			mark = []any{int(u)}
		}
	}
	intact := true
	seen := 0
	if err := s.inner.Iterate(kvstore.EmptyPrefix, func(k kvstore.Key, v kvstore.Value) bool {
		if bytes.Equal(k, seqKey) {
			return true
		}
		want, ok := neighbours[string(k)]
		if !ok || want != string(v) {
			intact = false
		}
		seen++
		return true
	}); err != nil || seen != len(neighbours) {
		intact = false
	}

	return core.Ev{"mark": mark, "intact": intact}
}

func result(val []any, err string) core.Ev { return core.Ev{"val": val, "err": err} }

// call runs f (one API call) under the plan (k, mode); crashed = the sentinel panic was raised.
func (s *seqSUT) call(k int, mode string, f func() error) (errClass string) {
	if mode == "none" {
		k = 0
	}
	s.ps.arm(k, mode)
	defer func() {
		s.ps.arm(0, "none")
		if r := recover(); r != nil {
			if _, ok := r.(crashSentinel); !ok {
				panic(r)
			}
			// the process stopped inside the call: its memory (the object) is gone
			s.seq = nil
			errClass = "crashed"
		}
	}()
	err := f()
	switch {
	case err == nil:
		return "ok"
	case errors.Is(err, errInjected):
		return "error"
	}

	return "other: " + err.Error()
}

func (s *seqSUT) Apply(e core.Ev) (any, any) {
	op := core.Str(e, "op")
	if op == "Restart" {
		s.seq = nil // abandon, whatever state it is in
		s.open(core.Int(e, "interval"))
		return result([]any{}, "ok"), s.st()
	}
	if s.seq == nil {
		return result([]any{}, "dead"), s.st()
	}
	k, mode := core.Int(e, "k"), core.Str(e, "mode")
	switch op {
	case "Next":
		var n uint64
		cls := s.call(k, mode, func() error {
			var err error
			n, err = s.seq.Next()
			return err
		})
		if cls != "ok" {
			return result([]any{}, cls), s.st()
		}
		if n > 1<<53 {
			return result([]any{codeHuge}, cls), s.st()
		}
		return result([]any{int(n)}, cls), s.st()
	case "Release":
		cls := s.call(k, mode, func() error { return s.seq.Release() })
		return result([]any{}, cls), s.st()
	}
	panic("unknown op " + op)
}

func (s *seqSUT) RandomCfg(r *rand.Rand) core.Ev { return core.Ev{"interval": 1 + r.Intn(3)} }

var modes = []string{"before", "after", "fail"}

func (s *seqSUT) RandomStimulus(r *rand.Rand) core.Ev {
	if s.seq == nil { // crashed: only Restart is possible
		return core.Ev{"op": "Restart", "interval": 1 + r.Intn(3)}
	}
	switch x := r.Intn(100); {
	case x < 50:
		return core.Ev{"op": "Next", "k": 0, "mode": "none"}
	case x < 65:
		return core.Ev{"op": "Next", "k": 1 + r.Intn(3), "mode": core.Pick(r, modes...)}
	case x < 77:
		return core.Ev{"op": "Release", "k": 0, "mode": "none"}
	case x < 87:
		return core.Ev{"op": "Release", "k": 1 + r.Intn(2), "mode": core.Pick(r, modes...)}
	}
	return core.Ev{"op": "Restart", "interval": 1 + r.Intn(3)}
}
