// Package kvconc records concurrent histories of the in-memory KVStore (mapdb, optionally behind flushkv) for
// property C05: free-running goroutines on overlapping keys / realms / views, forced schedules that hold an
// iteration inside its consumer callback while other views mutate the store, and unlogged bursts for the race
// detector.  Every call is logged as an `inv` event (global sequence number drawn BEFORE the call) and a `ret`
// event (drawn AFTER it); TLC searches for a placement of the linearization points (spec/kvstore/KVStoreConcTrace.tla).
package kvconc

import (
	"bufio"
	"bytes"
	"encoding/json"
	"errors"
	"flag"
	"fmt"
	"math/rand"
	"os"
	"runtime"
	"sort"
	"sync"
	"sync/atomic"
	"time"

	hkv "github.com/iotaledger/hive.go/kvstore"
	"github.com/iotaledger/hive.go/kvstore/flushkv"
	"github.com/iotaledger/hive.go/kvstore/mapdb"

	"verifharness/core"
)

func init() { core.RegisterCommand("kvconc", drive) }

// the fixed view tree of KVStore.tla: view id -> realm (RealmOf).
var realmOf = [][]byte{nil, {}, {0}, {0, 0}, {0, 255}, {1}}

const nViews = 5

var alphabet = []byte{0, 1, 255}

var watchdog = 20 * time.Second

func bs(b []byte) []any {
	out := make([]any, len(b))
	for i, x := range b {
		out[i] = int(x)
	}
	return out
}

func cp(b []byte) []byte { return append(make([]byte, 0, len(b)+1), b...) }

func errName(err error) string {
	switch {
	case err == nil:
		return "ok"
	case errors.Is(err, hkv.ErrStoreClosed):
		return "ErrStoreClosed"
	case errors.Is(err, hkv.ErrKeyNotFound):
		return "ErrKeyNotFound"
	}
	return "error: " + err.Error()
}

// ------------------------------------------------------------------------------------------ history log

type event struct {
	seq int64
	ev  core.Ev
}

type tlog struct {
	mu  sync.Mutex // only against the collector (a hung thread may still be appending)
	evs []event
}

type hist struct {
	seq  atomic.Int64
	logs []*tlog // index = thread id (1-based)
}

func newHist(threads int) *hist {
	h := &hist{logs: make([]*tlog, threads+1)}
	for i := range h.logs {
		h.logs[i] = &tlog{}
	}
	return h
}

func (h *hist) add(t int, e core.Ev) {
	s := h.seq.Add(1)
	l := h.logs[t]
	l.mu.Lock()
	l.evs = append(l.evs, event{s, e})
	l.mu.Unlock()
}

func (h *hist) inv(t int, c *call) { h.add(t, core.Ev{"op": "inv", "t": t, "call": c.ev()}) }
func (h *hist) ret(t int, res core.Ev) {
	h.add(t, core.Ev{"op": "ret", "t": t, "res": res})
}

// do = inv; the real call; ret.
func (h *hist) do(t int, c *call) core.Ev {
	h.inv(t, c)
	res := c.run()
	h.ret(t, res)
	return res
}

// doTimed = do, but gives up after the watchdog time (the call stays behind on its goroutine): false = it did not return.
func (h *hist) doTimed(t int, c *call) bool {
	done := make(chan struct{})
	go func() { defer close(done); h.do(t, c) }()
	select {
	case <-done:
		return true
	case <-time.After(watchdog):
		return false
	}
}

func (h *hist) merged() []core.Ev {
	var all []event
	for _, l := range h.logs {
		l.mu.Lock()
		all = append(all, l.evs...)
		l.mu.Unlock()
	}
	sort.Slice(all, func(i, j int) bool { return all[i].seq < all[j].seq })
	out := make([]core.Ev, len(all))
	for i, e := range all {
		out[i] = e.ev
	}
	return out
}

// ------------------------------------------------------------------------------------------ calls

type bop struct {
	k   []byte
	del bool
	val []byte
}

type call struct {
	op   string
	v    int
	k    []byte
	val  []byte
	dir  string
	n    int
	ops  []bop
	view hkv.KVStore
	bm   hkv.BatchedMutations
	// consumer hook of iterations: called with the 1-based index of the entry being delivered
	hook func(i int, key []byte)
}

func (c *call) ev() core.Ev {
	e := core.Ev{"op": c.op, "v": c.v}
	switch c.op {
	case "Get", "Has", "Delete", "DeletePrefix":
		e["k"] = bs(c.k)
	case "Set":
		e["k"], e["val"] = bs(c.k), bs(c.val)
	case "Iterate", "IterateKeys":
		e["k"], e["dir"], e["n"] = bs(c.k), c.dir, c.n
	case "Commit":
		ops := make([]any, len(c.ops))
		for i, o := range c.ops {
			ops[i] = core.Ev{"k": bs(o.k), "del": o.del, "val": bs(o.val)}
		}
		e["ops"] = ops
	}
	return e
}

// prepare builds the batch of a Commit call (thread-local work, before the call is logged); false = the store
// refused to hand out a batch (closed).
func (c *call) prepare() bool {
	if c.op != "Commit" {
		return true
	}
	bm, err := c.view.Batched()
	if err != nil {
		return false
	}
	for _, o := range c.ops {
		if o.del {
			_ = bm.Delete(cp(o.k))
		} else {
			_ = bm.Set(cp(o.k), cp(o.val))
		}
	}
	c.bm = bm
	return true
}

func (c *call) dirArgs() []hkv.IterDirection {
	if c.dir == "bwd" {
		return []hkv.IterDirection{hkv.IterDirectionBackward}
	}
	if c.n == 0 {
		return nil // default direction
	}
	return []hkv.IterDirection{hkv.IterDirectionForward}
}

func (c *call) run() core.Ev {
	switch c.op {
	case "Get":
		val, err := c.view.Get(cp(c.k))
		return core.Ev{"err": errName(err), "val": bs(val)}
	case "Has":
		has, err := c.view.Has(cp(c.k))
		return core.Ev{"err": errName(err), "has": has}
	case "Set":
		return core.Ev{"err": errName(c.view.Set(cp(c.k), cp(c.val)))}
	case "Delete":
		return core.Ev{"err": errName(c.view.Delete(cp(c.k)))}
	case "DeletePrefix":
		return core.Ev{"err": errName(c.view.DeletePrefix(cp(c.k)))}
	case "Clear":
		return core.Ev{"err": errName(c.view.Clear())}
	case "Flush":
		return core.Ev{"err": errName(c.view.Flush())}
	case "Close":
		return core.Ev{"err": errName(c.view.Close())}
	case "Commit":
		return core.Ev{"err": errName(c.bm.Commit())}
	case "Iterate":
		kv := []any{}
		err := c.view.Iterate(cp(c.k), func(k hkv.Key, v hkv.Value) bool {
			kv = append(kv, core.Ev{"k": bs(k), "v": bs(v)})
			if c.hook != nil {
				c.hook(len(kv), k)
			}
			return c.n == 0 || len(kv) < c.n
		}, c.dirArgs()...)
		return core.Ev{"err": errName(err), "kv": kv}
	case "IterateKeys":
		keys := []any{}
		err := c.view.IterateKeys(cp(c.k), func(k hkv.Key) bool {
			keys = append(keys, bs(k))
			if c.hook != nil {
				c.hook(len(keys), k)
			}
			return c.n == 0 || len(keys) < c.n
		}, c.dirArgs()...)
		return core.Ev{"err": errName(err), "keys": keys}
	}
	panic("unknown op " + c.op)
}

// ------------------------------------------------------------------------------------------ the store under test

type pair struct {
	v int
	k []byte
}

type world struct {
	wrap  string
	views [nViews + 1]hkv.KVStore // shared handles
	pairs []pair                  // (view, key) addressing the pool of full keys
	pool  [][]byte
}

func must(s hkv.KVStore, err error) hkv.KVStore {
	if err != nil {
		panic(err)
	}
	return s
}

func newWorld(wrap string) *world {
	w := &world{wrap: wrap}
	var root hkv.KVStore = mapdb.NewMapDB()
	if wrap == "flush" {
		root = flushkv.New(root)
	}
	w.views[1] = root
	w.views[2] = must(root.WithRealm([]byte{0}))
	w.views[3] = must(w.views[2].WithExtendedRealm([]byte{0}))
	w.views[4] = must(w.views[2].WithExtendedRealm([]byte{255}))
	w.views[5] = must(root.WithRealm([]byte{1}))
	return w
}

// private returns a fresh handle for view v (own per-view lock, same map), made the way v's realm is reached
// from another view; nil when the store is closed.
func (w *world) private(r *rand.Rand, v int) hkv.KVStore {
	var from []int
	for u := 1; u <= nViews; u++ {
		if bytes.HasPrefix(realmOf[v], realmOf[u]) {
			from = append(from, u)
		}
	}
	var s hkv.KVStore
	var err error
	if r.Intn(2) == 0 {
		s, err = w.views[1+r.Intn(nViews)].WithRealm(cp(realmOf[v]))
	} else {
		u := from[r.Intn(len(from))]
		s, err = w.views[u].WithExtendedRealm(cp(realmOf[v][len(realmOf[u]):]))
	}
	if err != nil {
		return nil
	}
	return s
}

func randKey(r *rand.Rand, max int) []byte {
	k := make([]byte, r.Intn(max+1))
	for i := range k {
		k[i] = alphabet[r.Intn(len(alphabet))]
	}
	return k
}

// setPool fixes the full keys of the history; pairs = every (view, key) that addresses one of them.
func (w *world) setPool(pool [][]byte) {
	w.pool = pool
	w.pairs = nil
	for _, fk := range pool {
		for v := 1; v <= nViews; v++ {
			if bytes.HasPrefix(fk, realmOf[v]) {
				w.pairs = append(w.pairs, pair{v, fk[len(realmOf[v]):]})
			}
		}
	}
}

func (w *world) randomPool(r *rand.Rand) {
	size := 2 + r.Intn(5)
	seen := map[string]bool{}
	var pool [][]byte
	for len(pool) < size {
		v := 1 + r.Intn(nViews)
		if r.Intn(3) > 0 {
			v = 1 + r.Intn(3) // mostly the nested chain <<>> / <<0>> / <<0,0>>
		}
		fk := append(cp(realmOf[v]), randKey(r, 2)...)
		if !seen[string(fk)] {
			seen[string(fk)] = true
			pool = append(pool, fk)
		}
	}
	w.setPool(pool)
}

func (w *world) anyPair(r *rand.Rand) pair {
	if r.Intn(10) < 8 {
		return w.pairs[r.Intn(len(w.pairs))]
	}
	return pair{1 + r.Intn(nViews), randKey(r, 2)}
}

// actor = one goroutine's way of reaching the views: the shared handles or private ones.
type actor struct {
	w    *world
	t    int
	r    *rand.Rand
	priv [nViews + 1]hkv.KVStore
	own  bool
	ncal int
	ro   bool // issues read-only calls only
}

func (a *actor) handle(v int) hkv.KVStore {
	if !a.own {
		return a.w.views[v]
	}
	if a.priv[v] == nil {
		a.priv[v] = a.w.private(a.r, v)
		if a.priv[v] == nil { // closed: the shared handle reports that just as well
			return a.w.views[v]
		}
	}
	return a.priv[v]
}

func (a *actor) value(j int) []byte { return []byte{byte(a.t), byte(a.ncal), byte(j)}[:2+min(j, 1)] }

// randomCall draws the next call of the actor (writes carry values unique to (thread, call, write)).
func (a *actor) randomCall() *call {
	r, w := a.r, a.w
	a.ncal++
	c := &call{}
	x := r.Intn(100)
	if a.ro { // Get / Has / Iterate / IterateKeys / Flush in their usual proportions
		x = core.Pick(r, 24+r.Intn(20), 62+r.Intn(22), 62+r.Intn(22), 99)
	}
	switch {
	case x < 24:
		p := w.pairs[r.Intn(len(w.pairs))]
		c.op, c.v, c.k, c.val = "Set", p.v, p.k, a.value(0)
	case x < 38:
		p := w.anyPair(r)
		c.op, c.v, c.k = "Get", p.v, p.k
	case x < 44:
		p := w.anyPair(r)
		c.op, c.v, c.k = "Has", p.v, p.k
	case x < 54:
		p := w.anyPair(r)
		c.op, c.v, c.k = "Delete", p.v, p.k
	case x < 59:
		p := w.anyPair(r)
		c.op, c.v, c.k = "DeletePrefix", p.v, p.k[:r.Intn(len(p.k)+1)]
	case x < 62:
		c.op, c.v = "Clear", w.anyPair(r).v
	case x < 76:
		p := w.anyPair(r)
		c.op, c.v, c.k = "Iterate", p.v, p.k[:r.Intn(len(p.k)+1)]
		c.dir, c.n = core.Pick(r, "fwd", "bwd"), core.Pick(r, 0, 0, 0, 1, 2)
	case x < 84:
		p := w.anyPair(r)
		c.op, c.v, c.k = "IterateKeys", p.v, p.k[:r.Intn(len(p.k)+1)]
		c.dir, c.n = core.Pick(r, "fwd", "bwd"), core.Pick(r, 0, 0, 0, 1, 2)
	case x < 98:
		c.op, c.v = "Commit", w.pairs[r.Intn(len(w.pairs))].v
		var cand []pair
		for _, p := range w.pairs {
			if p.v == c.v {
				cand = append(cand, p)
			}
		}
		for j, n := 0, 1+r.Intn(4); j < n; j++ {
			p := cand[r.Intn(len(cand))]
			if r.Intn(3) == 0 {
				c.ops = append(c.ops, bop{k: p.k, del: true, val: []byte{}})
			} else {
				c.ops = append(c.ops, bop{k: p.k, val: a.value(j + 1)})
			}
		}
	default:
		c.op, c.v = "Flush", 1+r.Intn(nViews)
	}
	c.view = a.handle(c.v)
	if r.Intn(4) == 0 && (c.op == "Iterate" || c.op == "IterateKeys") {
		c.hook = func(int, []byte) { runtime.Gosched() }
	}
	return c
}

// ------------------------------------------------------------------------------------------ free-running histories

type shape struct {
	threads, calls, procs int
	writers               int // goroutines that issue mutating calls (the others only read)
	closing               bool
}

func randomShape(r *rand.Rand) shape {
	var s shape
	switch x := r.Intn(10); {
	case x < 4:
		s.threads, s.calls = 2+r.Intn(2), 6+r.Intn(19) // 2..3 threads x 6..24 calls
	case x < 8:
		s.threads, s.calls = 4+r.Intn(3), 4+r.Intn(9) // 4..6 threads x 4..12 calls
	default:
		s.threads, s.calls = core.Pick(r, 8, 12, 16), 2+r.Intn(2) // many goroutines, few calls each
	}
	s.writers = s.threads
	if s.threads >= 8 {
		// few writers among many readers: the number of placements TLC has to search grows with the number of
		// mutating calls that are pending together, not with the number of goroutines
		s.writers = 2 + r.Intn(3)
	}
	s.procs = core.Pick(r, 1, 2, 2, 4, 4, 8, 16, 16)
	s.closing = r.Intn(12) == 0
	return s
}

// closeAll (flag -closeall): every free-running history runs behind flushkv and has one goroutine that calls Close
// (used to look for calls that race with Close; not part of the regular check).
var closeAll bool

func freeHistory(rng *rand.Rand, id int) (lines []core.Ev, finished bool) {
	sh := randomShape(rng)
	w := newWorld(core.Pick(rng, "none", "flush"))
	if closeAll {
		sh.closing = true
		w = newWorld("flush")
	}
	w.randomPool(rng)
	h := newHist(sh.threads)
	runtime.GOMAXPROCS(sh.procs)
	defer runtime.GOMAXPROCS(16)
	start := make(chan struct{})
	var wg sync.WaitGroup
	closer := 1 + rng.Intn(sh.threads)
	for t := 1; t <= sh.threads; t++ {
		a := &actor{w: w, t: t, r: rand.New(rand.NewSource(rng.Int63())), own: rng.Intn(2) == 0, ro: t > sh.writers}
		// the calls are drawn before the start so that the goroutines spend their time inside the store
		calls := make([]*call, sh.calls)
		for i := range calls {
			calls[i] = a.randomCall()
			if sh.closing && a.t == closer && i == sh.calls*2/3 {
				calls[i] = &call{op: "Close", v: calls[i].v, view: calls[i].view}
			}
		}
		wg.Add(1)
		go func() {
			defer wg.Done()
			<-start
			for _, c := range calls {
				if !c.prepare() {
					continue
				}
				h.inv(a.t, c)
				if a.r.Intn(6) == 0 {
					runtime.Gosched() // the call is announced, others run first
				}
				res := c.run()
				if a.r.Intn(6) == 0 {
					runtime.Gosched() // the call is over, its return is logged late
				}
				h.ret(a.t, res)
				if a.r.Intn(4) == 0 {
					runtime.Gosched()
				}
			}
		}()
	}
	close(start)
	finished = waitFor(&wg)
	lines = append(lines, core.Ev{"op": "reset", "cfg": core.Ev{"wrap": w.wrap}, "kind": "free", "id": id,
		"threads": sh.threads, "procs": sh.procs})
	lines = append(lines, h.merged()...)
	lines = append(lines, core.Ev{"op": "final", "finished": finished})
	return lines, finished
}

func waitFor(wg *sync.WaitGroup) bool {
	done := make(chan struct{})
	go func() { wg.Wait(); close(done) }()
	select {
	case <-done:
		return true
	case <-time.After(watchdog):
		return false
	}
}

// ------------------------------------------------------------------------------------------ forced schedules

// held = an iteration parked inside its consumer callback after its first entry.
type held struct {
	first   chan []byte   // the consumer delivers the first key here ...
	release chan struct{} // ... and parks until this is closed
	done    chan struct{}
}

func startHeld(h *hist, t int, c *call) *held {
	hd := &held{first: make(chan []byte, 1), release: make(chan struct{}), done: make(chan struct{})}
	c.hook = func(i int, key []byte) {
		if i == 1 {
			hd.first <- cp(key)
			<-hd.release
		}
	}
	go func() {
		defer close(hd.done)
		h.do(t, c)
	}()
	return hd
}

// waitFirst: the key of the first entry once the iteration is parked; nil if it returned without any entry.
func (hd *held) waitFirst() (key []byte, ok bool) {
	select {
	case k := <-hd.first:
		return k, true
	case <-hd.done:
		return nil, true
	case <-time.After(watchdog):
		return nil, false
	}
}

func covering(fk []byte) []int {
	var vs []int
	for v := 1; v <= nViews; v++ {
		if bytes.HasPrefix(fk, realmOf[v]) {
			vs = append(vs, v)
		}
	}
	return vs
}

// forcedHistory: thread 1 fills the store; thread 2 iterates view vA and is held in its consumer after the first
// entry; threads 3..5 then change the store through OTHER handles (first of all the entry already delivered, so
// that a result mixing old and new entries has no linearization point), possibly a second iteration (thread 6)
// is started and held in between; the iterations are released and must report exactly a snapshot.
func forcedHistory(rng *rand.Rand, id int) (lines []core.Ev, finished bool) {
	w := newWorld(core.Pick(rng, "none", "flush"))
	h := newHist(6)
	vA := core.Pick(rng, 1, 2, 2, 3)
	seen := map[string]bool{}
	var pool [][]byte
	for len(pool) < 3+rng.Intn(3) {
		fk := append(cp(realmOf[vA]), randKey(rng, 2)...)
		if !seen[string(fk)] {
			seen[string(fk)] = true
			pool = append(pool, fk)
		}
	}
	inside := len(pool)
	for i := rng.Intn(3); i > 0; i-- { // keys outside the iterated realm
		fk := append(cp(realmOf[core.Pick(rng, 1, 5, 4)]), randKey(rng, 1)...)
		if !seen[string(fk)] {
			seen[string(fk)] = true
			pool = append(pool, fk)
		}
	}
	w.setPool(pool)
	finished = true
	actors := make([]*actor, 7)
	for t := 1; t <= 6; t++ {
		actors[t] = &actor{w: w, t: t, r: rand.New(rand.NewSource(rng.Int63())), own: t >= 3}
	}
	via := func(a *actor, fk []byte) (int, []byte) { // a view covering full key fk and the key relative to it
		vs := covering(fk)
		v := vs[rng.Intn(len(vs))]
		return v, fk[len(realmOf[v]):]
	}
	set := func(a *actor, fk []byte) *call {
		a.ncal++
		v, k := via(a, fk)
		return &call{op: "Set", v: v, k: k, val: a.value(0), view: a.handle(v)}
	}
	del := func(a *actor, fk []byte) *call {
		a.ncal++
		v, k := via(a, fk)
		return &call{op: "Delete", v: v, k: k, view: a.handle(v)}
	}
	// 1. fill
	for i, fk := range pool {
		if i < inside || rng.Intn(2) == 0 {
			h.do(1, set(actors[1], fk))
		}
	}
	// 2. the iteration that will be held
	iterCall := func(a *actor, v int) *call {
		a.ncal++
		c := &call{op: core.Pick(rng, "Iterate", "Iterate", "IterateKeys"), v: v, k: []byte{}, dir: core.Pick(rng, "fwd", "bwd"),
			n: core.Pick(rng, 0, 0, 0, 2, 3), view: a.w.views[v]}
		if rng.Intn(4) == 0 {
			if p := pool[rng.Intn(inside)][len(realmOf[v]):]; len(p) > 0 {
				c.k = p[:1]
			}
		}
		return c
	}
	cA := iterCall(actors[2], vA)
	hA := startHeld(h, 2, cA)
	firstKey, ok := hA.waitFirst()
	if !ok {
		finished = false
	}
	var hB *held
	mutate := func(a *actor, sharp []byte) {
		var c *call
		x := rng.Intn(100)
		target := pool[rng.Intn(len(pool))]
		switch {
		case sharp != nil && (cA.op == "IterateKeys" || rng.Intn(2) == 0):
			c = del(a, sharp)
		case sharp != nil:
			c = set(a, sharp)
		case x < 25:
			c = set(a, target)
		case x < 40: // a key that did not exist
			c = set(a, append(cp(realmOf[vA]), randKey(rng, 2)...))
		case x < 60:
			c = del(a, target)
		case x < 72:
			a.ncal++
			v, k := via(a, target)
			c = &call{op: "DeletePrefix", v: v, k: k[:rng.Intn(len(k)+1)], view: a.handle(v)}
		case x < 80:
			a.ncal++
			v, _ := via(a, target)
			c = &call{op: "Clear", v: v, view: a.handle(v)}
		default:
			a.ncal++
			v, _ := via(a, target)
			c = &call{op: "Commit", v: v, view: a.handle(v)}
			for j, n := 0, 2+rng.Intn(3); j < n; j++ {
				fk := pool[rng.Intn(len(pool))]
				if !bytes.HasPrefix(fk, realmOf[v]) {
					continue
				}
				if rng.Intn(3) == 0 {
					c.ops = append(c.ops, bop{k: fk[len(realmOf[v]):], del: true, val: []byte{}})
				} else {
					c.ops = append(c.ops, bop{k: fk[len(realmOf[v]):], val: a.value(j + 1)})
				}
			}
		}
		if finished && c.prepare() && !h.doTimed(a.t, c) {
			finished = false // the call never returned (it waits for something the parked iteration holds)
		}
	}
	if finished {
		// 3. mutations through other handles while the iteration is parked
		if firstKey != nil {
			mutate(actors[3], append(cp(realmOf[vA]), firstKey...))
		}
		nmut := 1 + rng.Intn(4)
		second := rng.Intn(5) < 2
		if rng.Intn(3) == 0 { // two mutators overlap each other
			var wg sync.WaitGroup
			var mu sync.Mutex // rng is shared by the closures above
			for _, t := range []int{3, 4} {
				a := actors[t]
				wg.Add(1)
				go func() {
					defer wg.Done()
					for i := 0; i < nmut; i++ {
						mu.Lock()
						var c *call
						if rng.Intn(2) == 0 {
							c = set(a, pool[rng.Intn(len(pool))])
						} else {
							c = del(a, pool[rng.Intn(len(pool))])
						}
						mu.Unlock()
						h.do(a.t, c)
					}
				}()
			}
			finished = waitFor(&wg)
		} else {
			for i := 0; i < nmut; i++ {
				mutate(actors[3+rng.Intn(3)], nil)
				if second && hB == nil && i == 0 {
					vB := core.Pick(rng, 1, vA)
					hB = startHeld(h, 6, iterCall(actors[6], vB))
					if _, ok := hB.waitFirst(); !ok {
						finished = false
						break
					}
				}
			}
		}
	}
	// 4. release; the iterations deliver the rest
	rel := []*held{hA}
	if hB != nil {
		rel = append(rel, hB)
		if rng.Intn(2) == 0 {
			rel[0], rel[1] = rel[1], rel[0]
		}
	}
	for _, hd := range rel {
		close(hd.release)
		select {
		case <-hd.done:
		case <-time.After(watchdog):
			finished = false
		}
		if finished && rng.Intn(2) == 0 {
			mutate(actors[5], nil)
		}
	}
	// 5. what the root shows in the end
	if finished {
		actors[1].ncal++
		finished = h.doTimed(1, &call{op: "Iterate", v: 1, k: []byte{}, dir: "fwd", view: w.views[1]})
	}
	lines = append(lines, core.Ev{"op": "reset", "cfg": core.Ev{"wrap": w.wrap}, "kind": "forced", "id": id, "threads": 6, "procs": 16})
	lines = append(lines, h.merged()...)
	lines = append(lines, core.Ev{"op": "final", "finished": finished})
	return lines, finished
}

// ------------------------------------------------------------------------------------------ flushkv vs Close (known finding)

// gateStore sits between flushkv and mapdb; its Flush parks on the gate before it is forwarded (flushkv.New accepts
// any KVStore; the debug wrapper has no callback for Flush).
type gateStore struct {
	hkv.KVStore
	arrived chan struct{}
	release chan struct{}
}

func (g *gateStore) Flush() error {
	g.arrived <- struct{}{}
	<-g.release
	return g.KVStore.Flush()
}

// flushCloseHistory: T1 calls a mutation through flushkv and is held in the Flush that follows the (already applied)
// inner mutation; T3 reads the written value; T2 closes the store; T1 is released and returns what its Flush says.
func flushCloseHistory(id int) (lines []core.Ev, finished bool) {
	inner := mapdb.NewMapDB()
	g := &gateStore{KVStore: inner, arrived: make(chan struct{}, 1), release: make(chan struct{})}
	root := flushkv.New(g)
	h := newHist(3)
	finished = true
	key, val := []byte{0, 1}, []byte{1, 1}
	done := make(chan struct{})
	go func() {
		defer close(done)
		h.do(1, &call{op: "Set", v: 1, k: key, val: val, view: root})
	}()
	select {
	case <-g.arrived: // the inner Set has returned, the trailing Flush is parked
	case <-time.After(watchdog):
		finished = false
	}
	if finished {
		h.do(3, &call{op: "Get", v: 1, k: key, view: root})
		h.do(2, &call{op: "Close", v: 1, view: root})
		close(g.release)
		select {
		case <-done:
		case <-time.After(watchdog):
			finished = false
		}
	}
	lines = append(lines, core.Ev{"op": "reset", "cfg": core.Ev{"wrap": "flush"}, "kind": "flushclose", "id": id, "threads": 3, "procs": 16})
	lines = append(lines, h.merged()...)
	lines = append(lines, core.Ev{"op": "final", "finished": finished})
	return lines, finished
}

// ------------------------------------------------------------------------------------------ bursts (race detector only)

// burst: 16 goroutines hammer one store without any logging (no synchronisation added by the harness between them).
func burst(rng *rand.Rand) bool {
	w := newWorld(core.Pick(rng, "none", "flush"))
	w.randomPool(rng)
	start := make(chan struct{})
	var wg sync.WaitGroup
	for t := 1; t <= 16; t++ {
		a := &actor{w: w, t: t, r: rand.New(rand.NewSource(rng.Int63())), own: rng.Intn(2) == 0}
		wg.Add(1)
		go func() {
			defer wg.Done()
			<-start
			for i := 0; i < 40; i++ {
				c := a.randomCall()
				a.ncal %= 200
				if c.prepare() {
					c.run()
				}
			}
		}()
	}
	close(start)
	return waitFor(&wg)
}


// ------------------------------------------------------------------------------------------ controlled schedules

// controlledHistory: 2..3 goroutines with PRIVATE handles (the per-handle locks never contend) run 2..4 calls each under
// a token scheduler: only the goroutine that holds the token runs; it hands the token back before every acquisition of
// the lock of the shared map (hook mapdb.VerifHook, build tag verif) and at the boundaries of its calls, and the scheduler
// picks at random who goes on. The schedule is therefore a random interleaving at the grain of the map lock's critical
// sections: an operation that must be atomic but takes the lock twice is cut open between its two halves. Afterwards
// thread 1 lists the whole store, so that every lost or phantom update is observed.
type ctlSched struct {
	turn  []chan struct{}
	back  chan bool // true = the goroutine is done
	on    atomic.Bool
	cur   int
	locks int  // acquisitions of the map lock by the running goroutine since its call began
	inner bool // the running goroutine stopped before its 2nd+ acquisition within one call
}

// yield hands the token back; lock = the goroutine is about to take the map lock (else: a call boundary).
func (cs *ctlSched) yield(lock bool) {
	if !cs.on.Load() {
		return
	}
	t := cs.cur
	if lock {
		cs.locks++
	} else {
		cs.locks = 0
	}
	cs.inner = cs.locks >= 2
	cs.back <- false
	<-cs.turn[t]
}

func controlledHistory(rng *rand.Rand, id int) (lines []core.Ev, finished bool) {
	threads := 2 + rng.Intn(2)
	w := newWorld(core.Pick(rng, "none", "none", "flush"))
	// a small pool below one prefix, so that DeletePrefix / Clear / Iterate meet the keys the others write
	vA := core.Pick(rng, 1, 2, 3)
	seen := map[string]bool{}
	var pool [][]byte
	for len(pool) < 2+rng.Intn(3) {
		fk := append(cp(realmOf[vA]), randKey(rng, 2)...)
		if !seen[string(fk)] {
			seen[string(fk)] = true
			pool = append(pool, fk)
		}
	}
	w.setPool(pool)
	h := newHist(threads)
	// initial content (thread 1, before the others start)
	a0 := &actor{w: w, t: 1, r: rand.New(rand.NewSource(rng.Int63())), own: true}
	for _, fk := range pool {
		if rng.Intn(3) > 0 {
			a0.ncal++
			c := &call{op: "Set", v: 1, k: fk, val: a0.value(0)}
			c.view = a0.handle(1)
			h.do(1, c)
		}
	}
	cs := &ctlSched{turn: make([]chan struct{}, threads+1), back: make(chan bool)}
	acts := make([]*actor, threads+1)
	plans := make([][]*call, threads+1)
	for t := 1; t <= threads; t++ {
		cs.turn[t] = make(chan struct{})
		a := a0
		if t > 1 {
			a = &actor{w: w, t: t, r: rand.New(rand.NewSource(rng.Int63())), own: true}
		}
		acts[t] = a
		for i, n := 0, 3+rng.Intn(3); i < n; i++ {
			c := a.randomCall()
			c.hook = nil
			if x := rng.Intn(20); x < 13 { // more writes, and more of the calls that touch several keys
				p := w.pairs[rng.Intn(len(w.pairs))]
				switch {
				case x < 3:
					c = &call{op: "DeletePrefix", v: p.v, k: p.k[:rng.Intn(len(p.k)+1)]}
				case x < 4:
					c = &call{op: "Clear", v: p.v}
				case x < 6:
					c = &call{op: "Iterate", v: p.v, k: p.k[:rng.Intn(len(p.k)+1)], dir: "fwd"}
				case x < 11:
					c = &call{op: "Set", v: p.v, k: p.k, val: a.value(0)}
				default:
					c = &call{op: "Get", v: p.v, k: p.k}
				}
				c.view = a.handle(c.v)
			}
			plans[t] = append(plans[t], c)
		}
	}
	// atomicity probe (one history in three): goroutine 2 makes ONE call that reads or writes several keys, goroutine 3
	// overwrites a key that is present and creates one that is absent (both inside what that call covers) and looks at
	// them; goroutine 2 is stopped before its probeAt-th further acquisition of the map lock within the call (there is
	// none in the unchanged store except between the entries of a batch), goroutine 3 runs, goroutine 2 finishes.
	probe, probeAt := rng.Intn(3) == 0 && threads == 3, core.Pick(rng, 1, 1, 2, 3)
	if probe {
		var present, absent []pair
		for _, fk := range pool {
			p := pair{vA, fk[len(realmOf[vA]):]}
			if _, err := w.views[1].Get(cp(fk)); err == nil {
				present = append(present, p)
			} else {
				absent = append(absent, p)
			}
		}
		if len(present) == 0 || len(absent) == 0 {
			probe = false
		} else {
			a2, a3 := acts[2], acts[3]
			var c *call
			switch rng.Intn(6) {
			case 0, 1:
				c = &call{op: "DeletePrefix", v: vA, k: []byte{}}
			case 2:
				c = &call{op: "Clear", v: vA}
			case 3:
				c = &call{op: "Iterate", v: vA, k: []byte{}, dir: core.Pick(rng, "fwd", "bwd")}
			case 4:
				c = &call{op: "IterateKeys", v: vA, k: []byte{}, dir: core.Pick(rng, "fwd", "bwd")}
			default:
				c = &call{op: "Commit", v: vA}
				a2.ncal++
				for j, p := range append(append([]pair{}, present...), absent...) {
					c.ops = append(c.ops, bop{k: p.k, val: a2.value(j + 1)})
				}
			}
			c.view = a2.handle(c.v)
			plans[2] = []*call{c}
			plans[1] = nil
			plans[3] = nil
			kp, ka := present[rng.Intn(len(present))], absent[rng.Intn(len(absent))]
			for _, x := range rng.Perm(4) {
				a3.ncal++
				var d *call
				switch x {
				case 0:
					d = &call{op: "Set", v: vA, k: kp.k, val: a3.value(0)}
				case 1:
					d = &call{op: "Set", v: vA, k: ka.k, val: a3.value(0)}
				case 2:
					d = &call{op: "Get", v: vA, k: kp.k}
				default:
					d = &call{op: "Get", v: vA, k: ka.k}
				}
				d.view = a3.handle(vA)
				plans[3] = append(plans[3], d)
			}
		}
	}
	mapdb.VerifHook = func(string) { cs.yield(true) }
	defer func() { mapdb.VerifHook = nil }()
	cs.on.Store(true)
	for t := 1; t <= threads; t++ {
		go func(t int) {
			<-cs.turn[t]
			for _, c := range plans[t] {
				if !c.prepare() {
					continue
				}
				h.inv(t, c)
				cs.yield(false)
				res := c.run()
				h.ret(t, res)
				cs.yield(false)
			}
			cs.back <- true
		}(t)
	}
	live := map[int]bool{}
	for t := 1; t <= threads; t++ {
		live[t] = true
	}
	finished = true
	// step lets goroutine t run to its next yield point (or its end)
	locks := make([]int, threads+1) // per goroutine: cs.locks while it is parked
	step := func(t int) {
		cs.cur, cs.locks, cs.inner = t, locks[t], false
		defer func() { locks[t] = cs.locks }()
		cs.turn[t] <- struct{}{}
		select {
		case done := <-cs.back:
			if done {
				delete(live, t)
			}
		case <-time.After(watchdog):
			finished = false // the goroutine neither came back to the scheduler nor finished
		}
	}
	pick := func() int {
		var ts []int
		for t := range live {
			ts = append(ts, t)
		}
		sort.Ints(ts)
		return ts[rng.Intn(len(ts))]
	}
	if probe {
		inner := 0
		for live[2] && finished && inner < probeAt {
			step(2)
			if cs.inner {
				inner++
			}
		}
		for live[3] && finished {
			step(3)
		}
		for len(live) > 0 && finished {
			step(pick())
		}
	} else if rng.Intn(2) == 0 {
		// sticky random walk: the running goroutine keeps the token with probability 2/3
		cur := 0
		for len(live) > 0 && finished {
			if !live[cur] || rng.Intn(3) == 0 {
				cur = pick()
			}
			step(cur)
		}
	} else {
		// few preemptions: a victim is stopped at a random yield point (mostly between two critical sections of one call),
		// the others run one after the other to completion or to their own preemption, then the victim goes on
		order := rng.Perm(threads)
		var rec func(i int)
		rec = func(i int) {
			if i >= len(order) || !finished {
				return
			}
			t := order[i] + 1
			// (a call of the unchanged store takes the map lock once - a batch once per entry: a goroutine that comes back
			// before a further acquisition within one call is between two critical sections; that is where it is stopped)
			for j := 4 + rng.Intn(20); j > 0 && live[t] && finished; j-- {
				step(t)
				if cs.inner && rng.Intn(3) > 0 {
					break
				}
			}
			rec(i + 1)
			for live[t] && finished {
				step(t)
			}
		}
		rec(0)
	}
	cs.on.Store(false)
	if finished {
		a0.ncal++
		c := &call{op: "Iterate", v: 1, k: []byte{}, dir: "fwd"}
		c.view = a0.handle(1)
		h.do(1, c)
	}
	lines = append(lines, core.Ev{"op": "reset", "cfg": core.Ev{"wrap": w.wrap}, "kind": "controlled", "id": id,
		"threads": threads, "procs": 16})
	lines = append(lines, h.merged()...)
	lines = append(lines, core.Ev{"op": "final", "finished": finished})
	return lines, finished
}

// ------------------------------------------------------------------------------------------ command

func drive(args []string) int {
	fs := flag.NewFlagSet("kvconc", flag.ExitOnError)
	seed := fs.Int64("seed", 1, "")
	out := fs.String("out", "", "")
	nfree := fs.Int("histories", 300, "free-running histories")
	nforced := fs.Int("forced", 60, "forced schedules (iteration held in its consumer)")
	nburst := fs.Int("bursts", 20, "unlogged bursts of 16 goroutines (race detector)")
	wd := fs.Int("watchdog", 20, "seconds after which a history counts as hung")
	nctl := fs.Int("controlled", 200, "controlled schedules (token scheduler over the acquisitions of the shared map's lock)")
	nfc := fs.Int("flushclose", 1, "forced schedules flushkv mutation / Close (known finding, judged by the strict cfg)")
	fs.BoolVar(&closeAll, "closeall", false, "every free-running history: flushkv + one goroutine calling Close")
	_ = fs.Parse(args)
	watchdog = time.Duration(*wd) * time.Second
	f, err := os.Create(*out)
	if err != nil {
		fmt.Fprintln(os.Stderr, err)
		return 2
	}
	defer f.Close()
	bw := bufio.NewWriterSize(f, 1<<20)
	defer bw.Flush()
	enc := json.NewEncoder(bw)
	rng := rand.New(rand.NewSource(*seed))
	hangs, events, id := 0, 0, 0
	emit := func(lines []core.Ev, finished bool) {
		if !finished {
			hangs++
		}
		for _, l := range lines {
			_ = enc.Encode(l)
		}
		events += len(lines)
	}
	for i := 0; i < *nfc; i++ {
		id++
		emit(flushCloseHistory(id))
	}
	// forced schedules are spread between the free-running histories
	for i := 0; i < *nctl && hangs < 3; i++ {
		id++
		emit(controlledHistory(rng, id))
	}
	for i := 0; (i < *nfree || i < *nforced) && hangs < 3; i++ { // after 3 hung histories the verdict is clear
		if i < *nforced {
			id++
			emit(forcedHistory(rng, id))
		}
		if i < *nfree {
			id++
			emit(freeHistory(rng, id))
		}
	}
	bhangs := 0
	for i := 0; i < *nburst && hangs+bhangs < 3; i++ {
		if !burst(rng) {
			bhangs++
		}
	}
	fmt.Printf("{\"free\": %d, \"forced\": %d, \"controlled\": %d, \"events\": %d, \"hangs\": %d, \"bursts\": %d, \"burst_hangs\": %d}\n",
		*nfree, *nforced, *nctl, events, hangs, *nburst, bhangs)
	return 0
}
