package daemon

import (
	"bufio"
	"context"
	"encoding/json"
	"flag"
	"fmt"
	"math/rand"
	"os"
	"runtime"
	"sort"
	"sync"
	"sync/atomic"
	"time"

	hive "github.com/iotaledger/hive.go/app/daemon"

	"verifharness/core"
	"verifharness/sched"
)

// daemonstress: free-running registrations / Start or Run / several Shutdown and ShutdownAndWait callers / handlers that
// return early, promptly or late; plus forced schedules through the verif yield points and a re-registration race against
// Run.  One global event log per daemon, validated by TLC against spec/daemon/DaemonRun.tla.
func init() { core.RegisterCommand("daemonstress", daemonStress) }

type srun struct {
	extreme bool // see realOrder
	d       *hive.OrderedDaemon
	mu      sync.Mutex
	evs     []core.Ev
	nextK   atomic.Int64
	alive   map[int]bool
	threads map[int]chan struct{}
	tmu     sync.Mutex
	cfg     core.Ev
}

func newSrun(scenario string, anchor bool) *srun {
	return &srun{extreme: anchor, d: hive.New(), alive: map[int]bool{}, threads: map[int]chan struct{}{}, cfg: core.Ev{"scenario": scenario, "anchor": anchor}}
}

func (r *srun) log(e core.Ev) {
	r.mu.Lock()
	switch e["op"] {
	case "started":
		r.alive[e["k"].(int)] = true
	case "ret":
		delete(r.alive, e["k"].(int))
	}
	r.evs = append(r.evs, e)
	r.mu.Unlock()
}

// goThread runs f as driver thread id; a panic of the call becomes a "panic" event.
func (r *srun) goThread(id int, f func()) {
	ch := make(chan struct{})
	r.tmu.Lock()
	r.threads[id] = ch
	r.tmu.Unlock()
	go func() {
		defer close(ch)
		defer func() {
			if p := recover(); p != nil {
				r.log(core.Ev{"op": "panic", "t": id, "msg": fmt.Sprint(p)})
			}
		}()
		f()
	}()
}

func (r *srun) handler(k int, mode string, delay time.Duration) hive.WorkerFunc {
	return func(ctx context.Context) {
		r.log(core.Ev{"op": "started", "k": k})
		switch mode {
		case "early":
			select {
			case <-ctx.Done():
				r.log(core.Ev{"op": "seen", "k": k})
			case <-time.After(delay):
			}
		case "now":
		default:
			<-ctx.Done()
			r.log(core.Ev{"op": "seen", "k": k})
			if mode == "late" {
				time.Sleep(delay)
			}
		}
		r.log(core.Ev{"op": "ret", "k": k})
	}
}

// add performs one logged BackgroundWorker call; retry = spin until the name is accepted (one request id).
func (r *srun) add(n, o int, mode string, delay time.Duration, retry bool) string {
	k := int(r.nextK.Add(1))
	r.log(core.Ev{"op": "addBegin", "k": k, "n": n, "o": o})
	var res string
	for {
		res = errClass(r.d.BackgroundWorker(wname(n), r.handler(k, mode, delay), realOrder(o, r.extreme)))
		if !retry || res == "ok" || res == "stopped" {
			break
		}
	}
	r.log(core.Ev{"op": "addEnd", "k": k, "r": res})
	return res
}

func (r *srun) saw(t int) {
	r.log(core.Ev{"op": "sdBegin", "t": t})
	r.d.ShutdownAndWait()
	r.log(core.Ev{"op": "sdEnd", "t": t})
}

func (r *srun) finish(enc *json.Encoder, wait time.Duration) int {
	deadline := time.After(wait)
	hung := []int{}
	r.tmu.Lock()
	ids := make([]int, 0, len(r.threads))
	for id := range r.threads {
		ids = append(ids, id)
	}
	r.tmu.Unlock()
	sort.Ints(ids)
	for _, id := range ids {
		select {
		case <-r.threads[id]:
		case <-deadline:
			hung = append(hung, id)
			deadline = time.After(time.Millisecond)
		}
	}
	time.Sleep(200 * time.Microsecond)
	r.mu.Lock()
	defer r.mu.Unlock()
	alive := []int{}
	for k := range r.alive {
		alive = append(alive, k)
	}
	_ = enc.Encode(core.Ev{"op": "reset", "cfg": r.cfg})
	for _, e := range r.evs {
		_ = enc.Encode(e)
	}
	_ = enc.Encode(core.Ev{"op": "final", "hung": core.SortedInts(hung), "alive": core.SortedInts(alive)})
	return len(hung)
}

func daemonStress(args []string) int {
	fs := flag.NewFlagSet("daemonstress", flag.ExitOnError)
	seed := fs.Int64("seed", 1, "")
	traces := fs.Int("traces", 40, "")
	reuse := fs.Int("reuse", 600, "")
	out := fs.String("out", "", "")
	_ = fs.Parse(args)
	f, err := os.Create(*out)
	if err != nil {
		fmt.Fprintln(os.Stderr, err)
		return 2
	}
	defer f.Close()
	w := bufio.NewWriter(f)
	defer w.Flush()
	enc := json.NewEncoder(w)
	rng := rand.New(rand.NewSource(*seed))
	hangs, n := 0, 0
	gate := sched.NewGate()
	hive.VerifHook = func(p string) { gate.Wait("hook:" + p) }
	for _, late := range []bool{false, true} {
		hangs += forcedAddWindow(enc, gate, late)
		hangs += forcedStartWindow(enc, gate, late)
		hangs += forcedLateLowerOrder(enc, late)
		hangs += forcedFinishedDuringShutdown(enc)
		n += 4
	}
	// (a daemon that hangs costs a bounded wait per trace: a few hung traces are evidence enough)
	for tr := 0; tr < *traces && hangs < 5; tr++ {
		hangs += mixedRun(enc, rng, tr)
		n++
	}
	runtime.GOMAXPROCS(16)
	for i := 0; i < *reuse && hangs < 5; i++ {
		hangs += reuseRun(enc, i)
		n++
	}
	fmt.Printf("{\"traces\": %d, \"hangs\": %d}\n", n, hangs)
	return 0
}

// forcedAddWindow (TLC counterexample of DaemonImpl/unlocked_check, BackgroundWorker branch): a BackgroundWorker call is
// held right after its IsStopped check while a ShutdownAndWait is started; then it goes on.
func forcedAddWindow(enc *json.Encoder, gate *sched.Gate, late bool) int {
	r := newSrun("forced", true)
	mode := "prompt"
	if late {
		mode = "late"
	}
	r.add(1, 5, mode, 30*time.Millisecond, false)
	r.log(core.Ev{"op": "startBegin", "t": 1})
	r.d.Start()
	r.log(core.Ev{"op": "startEnd", "t": 1})
	gate.Hold(hookAdd)
	r.goThread(2, func() { r.add(2, -1, "prompt", 0, false) })
	sched.Quiesce(2 * time.Second)
	gate.Free(hookAdd)
	r.goThread(3, func() { r.saw(3) })
	time.Sleep(5 * time.Millisecond)
	gate.ReleaseAll()
	return r.finish(enc, 3*time.Second)
}

// forcedStartWindow (same counterexample, Start branch): Start is held after its IsStopped check while the daemon is shut down.
func forcedStartWindow(enc *json.Encoder, gate *sched.Gate, late bool) int {
	r := newSrun("forced", true)
	mode := "prompt"
	if late {
		mode = "late"
	}
	r.add(1, 5, mode, time.Millisecond, false)
	r.add(2, 0, mode, time.Millisecond, false)
	gate.Hold(hookStart)
	r.goThread(1, func() {
		r.log(core.Ev{"op": "startBegin", "t": 1})
		r.d.Start()
		r.log(core.Ev{"op": "startEnd", "t": 1})
	})
	sched.Quiesce(2 * time.Second)
	gate.Free(hookStart)
	r.goThread(3, func() { r.saw(3) })
	sched.Quiesce(2 * time.Second)
	gate.ReleaseAll()
	time.Sleep(2 * time.Millisecond)
	return r.finish(enc, 3*time.Second)
}

// forcedLateLowerOrder (TLC counterexample of DaemonImpl/run_snapshot): Run is waiting, a worker is registered under a new,
// lower order, then the daemon is shut down while that worker returns late.
func forcedLateLowerOrder(enc *json.Encoder, late bool) int {
	r := newSrun("forced", true)
	r.add(1, 5, "prompt", 0, false)
	r.goThread(1, func() {
		r.log(core.Ev{"op": "runBegin", "t": 1})
		r.d.Run()
		r.log(core.Ev{"op": "runEnd", "t": 1})
	})
	sched.Quiesce(2 * time.Second)
	mode := "prompt"
	if late {
		mode = "late"
	}
	r.add(2, -1, mode, 20*time.Millisecond, false)
	r.goThread(3, func() { r.saw(3) })
	return r.finish(enc, 3*time.Second)
}

// forcedFinishedDuringShutdown: four orders; the shutdown is waiting for the worker of the highest order (which returns late)
// when the worker of the third order returns on its own; the second order's worker returns late as well.  The lowest order
// may only be stopped after the second one has returned - a finished worker in between does not move the barrier.
func forcedFinishedDuringShutdown(enc *json.Encoder) int {
	r := newSrun("forced", true)
	r.goThread(1, func() {
		r.log(core.Ev{"op": "startBegin", "t": 1})
		r.d.Start()
		r.log(core.Ev{"op": "startEnd", "t": 1})
	})
	sched.Quiesce(2 * time.Second)
	r.add(1, 4, "late", 300*time.Millisecond, false)
	r.add(2, 3, "late", 200*time.Millisecond, false)
	r.add(3, 2, "early", 120*time.Millisecond, false)
	r.add(4, 1, "prompt", 0, false)
	time.Sleep(30 * time.Millisecond)
	r.goThread(3, func() { r.saw(3) })
	return r.finish(enc, 5*time.Second)
}

func mixedRun(enc *json.Encoder, rng *rand.Rand, tr int) int {
	if tr%5 == 4 {
		runtime.GOMAXPROCS(1)
	} else {
		runtime.GOMAXPROCS(16)
	}
	r := newSrun("mixed", true)
	modes := []string{"early", "prompt", "late", "now"}
	pick := func(pr *rand.Rand) (int, string, time.Duration) {
		return OrderTab[pr.Intn(len(OrderTab))], modes[pr.Intn(len(modes))], time.Duration(pr.Intn(800)) * time.Microsecond
	}
	for n := 1; n <= rng.Intn(4); n++ {
		o, m, dl := pick(rng)
		r.add(n, o, m, dl, false)
	}
	useRun := rng.Intn(2) == 0
	// the anchor keeps Run (and the daemon) busy until a shutdown began
	r.add(9, OrderTab[rng.Intn(len(OrderTab))], []string{"prompt", "late"}[rng.Intn(2)], time.Duration(rng.Intn(500))*time.Microsecond, false)
	started := make(chan struct{})
	r.goThread(1, func() {
		if useRun {
			r.log(core.Ev{"op": "runBegin", "t": 1})
			close(started)
			r.d.Run()
			r.log(core.Ev{"op": "runEnd", "t": 1})
		} else {
			r.log(core.Ev{"op": "startBegin", "t": 1})
			r.d.Start()
			r.log(core.Ev{"op": "startEnd", "t": 1})
			close(started)
		}
	})
	if rng.Intn(3) > 0 {
		<-started
	}
	nadd := 1 + rng.Intn(3)
	for a := 0; a < nadd; a++ {
		pr := rand.New(rand.NewSource(rng.Int63()))
		r.goThread(10+a, func() {
			for i, m := 0, 2+pr.Intn(5); i < m; i++ {
				o, md, dl := pick(pr)
				r.add(1+pr.Intn(5), o, md, dl, false)
				switch pr.Intn(4) {
				case 0:
					runtime.Gosched()
				case 1:
					time.Sleep(time.Duration(pr.Intn(400)) * time.Microsecond)
				}
			}
		})
	}
	nsd := 1 + rng.Intn(3)
	for s := 0; s < nsd; s++ {
		delay := time.Duration(rng.Intn(2500)) * time.Microsecond
		wait := rng.Intn(2) == 0
		t := 20 + s
		r.goThread(t, func() {
			time.Sleep(delay)
			if wait {
				r.saw(t)
			} else {
				r.log(core.Ev{"op": "sdBegin", "t": t})
				r.d.Shutdown()
			}
		})
	}
	r.goThread(30, func() {
		time.Sleep(3 * time.Millisecond)
		r.saw(30)
		// after the shutdown nothing can be added or started
		r.add(1+rng.Intn(5), 5, "prompt", 0, false)
		r.log(core.Ev{"op": "startBegin", "t": 30})
		r.d.Start()
		r.log(core.Ev{"op": "startEnd", "t": 30})
	})
	return r.finish(enc, 3*time.Second)
}

// reuseRun: Run is waiting for the only running worker; the moment it returns, its name is registered again (same order)
// several times with handlers that return at once - Run must simply return once nothing is running.
func reuseRun(enc *json.Encoder, i int) int {
	r := newSrun("reuse", false)
	rel := make(chan struct{})
	k := int(r.nextK.Add(1))
	r.log(core.Ev{"op": "addBegin", "k": k, "n": 1, "o": 5})
	res := errClass(r.d.BackgroundWorker(wname(1), func(ctx context.Context) {
		r.log(core.Ev{"op": "started", "k": k})
		<-rel
		r.log(core.Ev{"op": "ret", "k": k})
	}, 5))
	r.log(core.Ev{"op": "addEnd", "k": k, "r": res})
	r.goThread(1, func() {
		r.log(core.Ev{"op": "runBegin", "t": 1})
		r.d.Run()
		r.log(core.Ev{"op": "runEnd", "t": 1})
	})
	for !r.d.IsRunning() {
		runtime.Gosched()
	}
	close(rel)
	for j := 0; j < 3; j++ {
		r.add(1, 5, "now", 0, true)
	}
	<-r.threads[1]
	r.saw(2)
	return r.finish(enc, 3*time.Second)
}
