// Package daemon adapts app/daemon.OrderedDaemon (property C20) to its TLA+ module Daemon: quiescent-point
// replay with worker handlers as gates, and the two verif yield points (after the IsStopped checks of
// BackgroundWorker and Start) as further gates.
package daemon

import (
	"context"
	"errors"
	"fmt"
	"math"
	"math/rand"
	"sort"
	"strconv"
	"strings"
	"sync"
	"time"

	hive "github.com/iotaledger/hive.go/app/daemon"

	"verifharness/core"
	"verifharness/sched"
)

func init() { core.Register("Daemon", func() core.SUT { return &dSUT{nthr: 2, names: 4} }) }

const (
	hookAdd   = "hook:backgroundworker-after-stopped-check"
	hookStart = "hook:start-after-stopped-check"
)

// OrderTab mirrors the table of the specification.
var OrderTab = []int{-1, 0, 2, 5}

// realOrder: the shutdown order handed to the real daemon for the model's order o. Only the relative order of the values
// matters to the specification; half of the configurations use the far ends of the int range instead (MinInt, -1, 1, MaxInt).
func realOrder(o int, extreme bool) int {
	if !extreme {
		return o
	}
	switch o {
	case -1:
		return math.MinInt
	case 0:
		return -1
	case 2:
		return 1
	case 5:
		return math.MaxInt
	}
	return o
}


// inst is one started handler.
type inst struct {
	name  int
	ord   int
	late  bool
	rel   chan struct{}
	state string // "run" | "seen" | "ret"
}

type logEv struct {
	kind string // "seen" | "ret"
	in   *inst
}

type dSUT struct {
	extreme bool // this instance hands the far ends of the int range to the daemon as shutdown orders (realOrder)
	d       *hive.OrderedDaemon
	gate    *sched.Gate
	aux     *sched.Thread
	threads map[int]*sched.Thread
	kind    map[int]string // what thread t is doing: "saw" | "run" | "add" | "start"
	nthr    int
	names   int
	late    map[int]bool

	mu       sync.Mutex
	live     map[int][]*inst // name -> handler instances that have not returned
	log      []logEv
	draining bool

	// what the recorder needs to stay inside the specification's stimulus guards
	reg   map[int]bool // registered before Start
	nadd  int
	held  string
	heldT int
	heldW int
	dead  bool
}

// Dead: after a misbehaving call (panic / a call that must not block did block) the object is not used further.
func (s *dSUT) Dead() bool { return s.dead }

func settle() {
	if !sched.Quiesce(5 * time.Second) {
		panic("process did not become quiescent within 5s")
	}
}

func wname(i int) string { return "w" + strconv.Itoa(i) }

func wid(s string) (int, bool) {
	if !strings.HasPrefix(s, "w") {
		return 0, false
	}
	i, err := strconv.Atoi(s[1:])
	return i, err == nil
}

func (s *dSUT) Reset(cfg core.Ev) {
	s.drain()
	s.gate = sched.NewGate()
	g := s.gate
	hive.VerifHook = func(point string) { g.Wait("hook:" + point) }
	s.d = hive.New()
	s.extreme = len(core.Ints(cfg, "late"))%2 == 0 // a function of the cfg, so that a recorded path replays the same way
	s.late = map[int]bool{}
	s.names = core.Int(cfg, "names")
	for _, w := range core.Ints(cfg, "late") {
		s.late[w] = true
	}
	s.mu.Lock()
	s.live = map[int][]*inst{}
	s.log = nil
	s.draining = false
	s.mu.Unlock()
	s.aux = sched.NewThread(0)
	s.threads = map[int]*sched.Thread{}
	s.kind = map[int]string{}
	for i := 1; i <= s.nthr; i++ {
		s.threads[i] = sched.NewThread(i)
	}
	s.reg, s.nadd, s.held, s.heldT, s.heldW, s.dead = map[int]bool{}, 0, "", 0, 0, false
}

// drain lets everything of the abandoned daemon finish (best effort).
func (s *dSUT) drain() {
	if s.d == nil {
		return
	}
	s.mu.Lock()
	s.draining = true
	for _, l := range s.live {
		for _, in := range l {
			select {
			case <-in.rel:
			default:
				close(in.rel)
			}
		}
	}
	s.mu.Unlock()
	s.gate.ReleaseAll()
	h := sched.NewThread(99)
	d := s.d
	h.Go(func() any { d.ShutdownAndWait(); return nil })
	sched.Quiesce(2 * time.Second)
	h.Abandon()
	s.aux.Abandon()
	for _, t := range s.threads {
		t.Abandon()
	}
	s.d = nil
}

// handler builds the WorkerFunc registered for (name, order).
func (s *dSUT) handler(name, ord int) hive.WorkerFunc {
	late := s.late[name]
	return func(ctx context.Context) {
		in := &inst{name: name, ord: ord, late: late, rel: make(chan struct{}), state: "run"}
		s.mu.Lock()
		s.live[name] = append(s.live[name], in)
		if s.draining {
			close(in.rel)
		}
		s.mu.Unlock()
		select {
		case <-ctx.Done():
			s.mu.Lock()
			in.state = "seen"
			s.log = append(s.log, logEv{"seen", in})
			s.mu.Unlock()
			if late {
				<-in.rel
			}
		case <-in.rel:
		}
		s.mu.Lock()
		in.state = "ret"
		s.log = append(s.log, logEv{"ret", in})
		l := s.live[name]
		for i, x := range l {
			if x == in {
				s.live[name] = append(append([]*inst{}, l[:i]...), l[i+1:]...)
				break
			}
		}
		s.mu.Unlock()
	}
}

func errClass(err error) string {
	switch {
	case err == nil:
		return "ok"
	case errors.Is(err, hive.ErrDaemonAlreadyStopped):
		return "stopped"
	case errors.Is(err, hive.ErrDuplicateBackgroundWorker):
		return "duplicate"
	case errors.Is(err, hive.ErrExistingBackgroundWorkerStillRunning):
		return "stillRunning"
	}
	return "error: " + err.Error()
}

func (s *dSUT) Apply(e core.Ev) (any, any) {
	d := s.d
	s.mu.Lock()
	s.log = nil
	s.mu.Unlock()
	r := ""
	op := core.Str(e, "op")
	add := func(w, o int) func() any {
		h := s.handler(w, o)
		ro := realOrder(o, s.extreme)
		return func() any { return errClass(d.BackgroundWorker(wname(w), h, ro)) }
	}
	switch op {
	case "Add":
		s.aux.Go(add(core.Int(e, "w"), core.Int(e, "o")))
	case "Start":
		s.aux.Go(func() any { d.Start(); return "" })
	case "Shutdown":
		s.aux.Go(func() any { d.Shutdown(); return "" })
	case "SAW":
		t := core.Int(e, "t")
		s.kind[t] = "saw"
		s.threads[t].Go(func() any { d.ShutdownAndWait(); return "" })
	case "Run":
		t := core.Int(e, "t")
		s.kind[t] = "run"
		s.threads[t].Go(func() any { d.Run(); return "" })
	case "Release":
		w := core.Int(e, "w")
		s.mu.Lock()
		l := s.live[w]
		if len(l) == 0 {
			s.mu.Unlock()
			panic(fmt.Sprintf("worker %d has no parked handler", w))
		}
		close(l[0].rel)
		s.mu.Unlock()
	case "AddBegin":
		t := core.Int(e, "t")
		s.kind[t] = "add"
		s.gate.Hold(hookAdd)
		s.threads[t].Go(add(core.Int(e, "w"), core.Int(e, "o")))
		s.held, s.heldT, s.heldW = "add", t, core.Int(e, "w")
	case "StartBegin":
		t := core.Int(e, "t")
		s.kind[t] = "start"
		s.gate.Hold(hookStart)
		s.threads[t].Go(func() any { d.Start(); return "" })
		s.held, s.heldT = "start", t
	case "AddEnd", "StartEnd":
		p := hookAdd
		if op == "StartEnd" {
			p = hookStart
		}
		s.gate.Free(p)
		if !s.gate.Release(p) {
			panic("no call is held at " + p)
		}
		s.held = ""
	default:
		panic("unknown op " + op)
	}
	settle()
	s.gate.Free(hookAdd)
	s.gate.Free(hookStart)
	// the auxiliary thread's call must have returned
	switch op {
	case "Add", "Start", "Shutdown":
		fin, res, pan := s.aux.Take()
		if pan != nil {
			s.dead = true
			panic(fmt.Sprint(pan))
		}
		if !fin {
			s.dead = true
			panic(op + " did not return")
		}
		r, _ = res.(string)
	}
	ret, blocked := []int{}, []int{}
	for id := 1; id <= s.nthr; id++ {
		th := s.threads[id]
		if fin, res, pan := th.Take(); fin {
			if pan != nil {
				s.dead = true
				panic(fmt.Sprint(pan))
			}
			switch s.kind[id] {
			case "saw", "run":
				ret = append(ret, id)
			default: // a held call that finished: its result is the result of this step
				r, _ = res.(string)
			}
			delete(s.kind, id)
		} else if th.Busy() {
			blocked = append(blocked, id)
		}
	}
	if (op == "Add" || op == "AddEnd") && r == "ok" {
		s.nadd++
		if !d.IsRunning() {
			w := s.heldW
			if op == "Add" {
				w = core.Int(e, "w")
			}
			s.reg[w] = true
		}
	}
	if d.IsRunning() || d.IsStopped() {
		s.reg = map[int]bool{}
	}
	return s.observe(r, ret, blocked)
}

func (s *dSUT) observe(r string, ret, blocked []int) (any, any) {
	d := s.d
	s.mu.Lock()
	defer s.mu.Unlock()
	wseen, wret := []int{}, []int{}
	hb := [][2]int{}
	for i, x := range s.log {
		if x.kind == "seen" {
			wseen = append(wseen, x.in.name)
			continue
		}
		wret = append(wret, x.in.name)
		for _, y := range s.log[i+1:] {
			if y.kind == "seen" && y.in.ord != x.in.ord {
				hb = append(hb, [2]int{x.in.name, y.in.name})
			}
		}
	}
	sort.Slice(hb, func(i, j int) bool { return hb[i][0] < hb[j][0] || (hb[i][0] == hb[j][0] && hb[i][1] < hb[j][1]) })
	hbs := make([]any, len(hb))
	for i, p := range hb {
		hbs[i] = []any{p[0], p[1]}
	}
	// per-name status of the handlers
	w := make([]any, 0, s.names)
	for i := 1; i <= s.names; i++ {
		l := s.live[i]
		switch {
		case len(l) == 0:
			w = append(w, "-")
		case len(l) == 1:
			w = append(w, l[0].state)
		default:
			w = append(w, fmt.Sprintf("%d handlers of one name running", len(l)))
		}
	}
	// GetRunningBackgroundWorkers: ascending shutdown order; ties are reported in name order
	names := d.GetRunningBackgroundWorkers()
	running := make([]any, len(names))
	type no struct{ n, o int }
	nos := make([]no, 0, len(names))
	okSorted := true
	for i, nm := range names {
		running[i] = nm
		id, ok := wid(nm)
		if !ok || len(s.live[id]) == 0 {
			okSorted = false
			continue
		}
		nos = append(nos, no{id, s.live[id][0].ord})
	}
	for i := 1; i < len(nos); i++ {
		if nos[i-1].o > nos[i].o {
			okSorted = false
		}
	}
	if okSorted {
		sort.SliceStable(nos, func(i, j int) bool { return nos[i].o < nos[j].o || (nos[i].o == nos[j].o && nos[i].n < nos[j].n) })
		for i, x := range nos {
			running[i] = x.n
		}
	}
	var stopped any = d.IsStopped()
	ctxDone := false
	select {
	case <-d.ContextStopped().Done():
		ctxDone = true
	default:
	}
	if ctxDone != d.IsStopped() {
		stopped = fmt.Sprintf("IsStopped=%v but ContextStopped done=%v", d.IsStopped(), ctxDone)
	}
	return core.Ev{"r": r, "ret": core.SortedInts(ret), "wseen": core.SortedInts(wseen), "wret": core.SortedInts(wret), "hb": hbs},
		core.Ev{"isRunning": d.IsRunning(), "isStopped": stopped, "running": running, "w": w, "blocked": core.SortedInts(blocked)}
}

var lateSets = [][]int{{}, {1, 2, 3, 4}, {1}, {2, 3}, {1, 3}, {4}, {2, 4}}

const traceMaxAdds = 8

func (s *dSUT) RandomCfg(r *rand.Rand) core.Ev {
	return core.Ev{"late": core.Seq(lateSets[r.Intn(len(lateSets))]), "names": 4}
}

// RandomStimulus stays inside the guards of the specification's stimuli (canonical thread and name use).
func (s *dSUT) RandomStimulus(r *rand.Rand) core.Ev {
	d := s.d
	free := 0
	for id := 1; id <= s.nthr; id++ {
		if !s.threads[id].Busy() {
			free = id
			break
		}
	}
	stopped, running := d.IsStopped(), d.IsRunning()
	s.mu.Lock()
	var parked []int
	inUse := map[int]bool{}
	for w, l := range s.live {
		if len(l) > 0 {
			parked = append(parked, w)
			inUse[w] = true
		}
	}
	s.mu.Unlock()
	for w := range s.reg {
		inUse[w] = true
	}
	sort.Ints(parked)
	canon := func(w int) bool {
		for v := 1; v < w; v++ {
			if !inUse[v] {
				return false
			}
		}
		return true
	}
	for tries := 0; tries < 200; tries++ {
		switch k := r.Intn(20); {
		case k < 6 && s.held == "":
			w, o := 1+r.Intn(s.names), OrderTab[r.Intn(len(OrderTab))]
			if stopped {
				return core.Ev{"op": "Add", "w": w, "o": OrderTab[0]}
			}
			if s.nadd < traceMaxAdds && canon(w) {
				return core.Ev{"op": "Add", "w": w, "o": o}
			}
		case k < 10 && len(parked) > 0:
			return core.Ev{"op": "Release", "w": parked[r.Intn(len(parked))]}
		case k == 10 && s.held == "":
			return core.Ev{"op": "Start"}
		case k == 11:
			return core.Ev{"op": "Shutdown"}
		case k == 12 && free != 0:
			return core.Ev{"op": "SAW", "t": free}
		case k == 13 && free != 0 && s.held == "":
			return core.Ev{"op": "Run", "t": free}
		case k == 14 && free != 0 && s.held == "" && running && !stopped && s.nadd < traceMaxAdds:
			return core.Ev{"op": "AddBegin", "t": free, "w": 1 + r.Intn(s.names), "o": OrderTab[r.Intn(len(OrderTab))]}
		case k == 15 && free != 0 && s.held == "" && !running && !stopped:
			return core.Ev{"op": "StartBegin", "t": free}
		case k >= 16 && s.held == "add":
			return core.Ev{"op": "AddEnd", "t": s.heldT}
		case k >= 16 && s.held == "start":
			return core.Ev{"op": "StartEnd", "t": s.heldT}
		}
	}
	return core.Ev{"op": "Shutdown"}
}
